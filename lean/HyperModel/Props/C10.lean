import HyperModel.Model.TxValidity
/-!
# C10 Transactions execute only inside their validity interval and on their chain

Decision logic stated outright: the modelled `PreExecute` (chain id, expiry alignment, expiry
interval, action count, activation ranges) returns `ok` exactly for the conjunction in the
property statement, and each error is returned exactly when it is the first failing check in
Go's order. Timestamps are `int64` milliseconds; "whole second" is `expiry % 1000 = 0`.
The only place where machine arithmetic can differ from the mathematical statement is the sum
`timestamp + validityWindow`; it is kept as `wrap64 (ts + window)` in the exact theorems and
removed under the explicit no-overflow hypothesis in the `_nowrap` versions.
-/
namespace HyperModel.Props.C10
open HyperModel.TxValidity

/-- `start`/`end` of `ValidRange` admission `ts` (negative bound = unbounded, `-1` in the code base). -/
def Activated (g : Range) (ts : Int) : Prop :=
  (g.start < 0 ∨ g.start ≤ ts) ∧ (g.stop < 0 ∨ ts ≤ g.stop)

/-- `ts + window` fits into an `int64`. -/
def NoWrap (ts window : Int) : Prop := -2 ^ 63 ≤ ts + window ∧ ts + window < 2 ^ 63

theorem wrap64_of_noWrap {ts w : Int} (h : NoWrap ts w) : wrap64 (ts + w) = ts + w := by
  unfold NoWrap at h; unfold wrap64; omega

theorem tmod_zero_iff (e : Int) : e.tmod 1000 = 0 ↔ e % 1000 = 0 := by
  constructor
  · intro h; exact Int.emod_eq_zero_of_dvd (Int.dvd_of_tmod_eq_zero h)
  · intro h; exact Int.tmod_eq_zero_of_dvd (Int.dvd_of_emod_eq_zero h)

theorem notActivated_false_iff (g : Range) (ts : Int) :
    notActivated g ts = false ↔ Activated g ts := by
  simp only [notActivated, Activated, Bool.or_eq_false_iff, Bool.and_eq_false_iff,
    decide_eq_false_iff_not]
  omega

theorem notActivated_true_iff (g : Range) (ts : Int) :
    notActivated g ts = true ↔ ¬ Activated g ts := by
  rw [← notActivated_false_iff]; cases notActivated g ts <;> simp

/-- `VerifyTimestamp` with the alignment test written with the mathematical `%`. -/
theorem verifyTimestamp_eq (e ts w : Int) :
    verifyTimestamp e ts divisor w =
      if e % 1000 ≠ 0 then .misaligned else if e < ts then .expired
      else if e > wrap64 (ts + w) then .future else .ok := by
  unfold verifyTimestamp divisor
  by_cases h : e % 1000 = 0
  · have h' := (tmod_zero_iff e).mpr h
    simp [h, h']
  · have h' : ¬ e.tmod 1000 = 0 := fun x => h ((tmod_zero_iff e).mp x)
    simp [h, h']

/-- `VerifyTimestamp` returns nil iff aligned, not expired, not beyond the (wrapped) bound. -/
theorem verifyTimestamp_ok_iff (e ts w : Int) :
    verifyTimestamp e ts divisor w = .ok ↔ e % 1000 = 0 ∧ ts ≤ e ∧ e ≤ wrap64 (ts + w) := by
  rw [verifyTimestamp_eq]
  generalize wrap64 (ts + w) = b
  split
  · simp; omega
  · split
    · simp; omega
    · split
      · simp; omega
      · simp; omega

/-- Which error `VerifyTimestamp` returns: the first failing case of the `switch`. -/
theorem verifyTimestamp_error_class (e ts w : Int) :
    (verifyTimestamp e ts divisor w = .misaligned ↔ e % 1000 ≠ 0) ∧
    (verifyTimestamp e ts divisor w = .expired ↔ e % 1000 = 0 ∧ e < ts) ∧
    (verifyTimestamp e ts divisor w = .future ↔ e % 1000 = 0 ∧ ts ≤ e ∧ wrap64 (ts + w) < e) := by
  rw [verifyTimestamp_eq]
  generalize wrap64 (ts + w) = b
  split
  · simp; omega
  · split
    · simp; omega
    · split
      · simp; omega
      · simp; omega

/-- `PreExecute` as one flat chain of tests in Go's order. -/
theorem preExecute_eq (r : Rules) (tx : Tx) (ts : Int) :
    preExecute r tx ts =
      if tx.chainId ≠ r.chainId then .chainId
      else if tx.expiry % 1000 ≠ 0 then .misaligned
      else if tx.expiry < ts then .expired
      else if tx.expiry > wrap64 (ts + r.window) then .future
      else if tx.actions.length > r.maxActions then .tooManyActions
      else if tx.actions.any (notActivated · ts) then .actionNotActivated
      else if notActivated tx.auth ts then .authNotActivated
      else .ok := by
  unfold preExecute baseExecute
  rw [verifyTimestamp_eq]
  by_cases hc : tx.chainId = r.chainId
  · by_cases hm : tx.expiry % 1000 = 0
    · by_cases hx : tx.expiry < ts
      · simp [hc, hm, hx, TsResult.toErr]
      · by_cases hf : tx.expiry > wrap64 (ts + r.window)
        · simp [hc, hm, hx, hf, TsResult.toErr]
        · simp [hc, hm, hx, hf, TsResult.toErr]
    · simp [hc, hm, TsResult.toErr]
  · simp [hc]

theorem any_notActivated_iff (l : List Range) (ts : Int) :
    l.any (notActivated · ts) = true ↔ ∃ a ∈ l, ¬ Activated a ts := by
  simp only [List.any_eq_true, notActivated_true_iff]

theorem all_activated_iff (l : List Range) (ts : Int) :
    (∀ a ∈ l, Activated a ts) ↔ ¬ ∃ a ∈ l, ¬ Activated a ts := by
  constructor
  · intro h ⟨a, ha, hn⟩; exact hn (h a ha)
  · intro h a ha; exact Classical.byContradiction fun hn => h ⟨a, ha, hn⟩

/-- **Exact decision theorem.** `PreExecute` passes the C10 checks iff: the chain id matches,
the expiry is a whole second, `ts ≤ expiry ≤ int64(ts + window)`, at most `maxActions` actions,
and every action and the auth are activated at `ts`. -/
theorem preexecute_ok_iff (r : Rules) (tx : Tx) (ts : Int) :
    preExecute r tx ts = .ok ↔
      tx.chainId = r.chainId ∧ tx.expiry % 1000 = 0 ∧ ts ≤ tx.expiry ∧
        tx.expiry ≤ wrap64 (ts + r.window) ∧ tx.actions.length ≤ r.maxActions ∧
        (∀ a ∈ tx.actions, Activated a ts) ∧ Activated tx.auth ts := by
  rw [preExecute_eq, all_activated_iff, ← any_notActivated_iff]
  have hau := notActivated_true_iff tx.auth ts
  generalize wrap64 (ts + r.window) = b at *
  by_cases hc : tx.chainId = r.chainId
  case neg => simp [hc]
  by_cases hm : tx.expiry % 1000 = 0
  case neg => simp [hc, hm]
  by_cases hx : tx.expiry < ts
  case pos => simp [hc, hm, hx]; omega
  by_cases hf : tx.expiry > b
  case pos => simp [hc, hm, hx, hf]; omega
  by_cases hl : tx.actions.length > r.maxActions
  case pos => simp [hc, hm, hx, hf, hl]; omega
  by_cases ha : tx.actions.any (notActivated · ts) = true
  case pos => simp [hc, hm, hx, hf, hl, ha]
  by_cases hu : notActivated tx.auth ts = true
  case pos =>
    have := hau.mp hu
    simp [hc, hm, hx, hf, hl, ha, hu, this]
  have : Activated tx.auth ts := Classical.byContradiction fun h => hu (hau.mpr h)
  simp [hc, hm, hx, hf, hl, ha, hu, this]
  omega

/-- **The property statement verbatim** (no overflow of `ts + window`): executable in a block
with timestamp `ts` iff the expiry is a whole second, not earlier than `ts`, at most
`ts + window`, chain id matches, at most the allowed number of actions, and every action and
its auth are activated at `ts`. -/
theorem preexecute_ok_iff_nowrap (r : Rules) (tx : Tx) (ts : Int) (h : NoWrap ts r.window) :
    preExecute r tx ts = .ok ↔
      tx.expiry % 1000 = 0 ∧ ts ≤ tx.expiry ∧ tx.expiry ≤ ts + r.window ∧
        tx.chainId = r.chainId ∧ tx.actions.length ≤ r.maxActions ∧
        (∀ a ∈ tx.actions, Activated a ts) ∧ Activated tx.auth ts := by
  rw [preexecute_ok_iff, wrap64_of_noWrap h]
  constructor
  · intro ⟨a, b, c, d, e, f, g⟩; exact ⟨b, c, d, a, e, f, g⟩
  · intro ⟨b, c, d, a, e, f, g⟩; exact ⟨a, b, c, d, e, f, g⟩

example : NoWrap 1700000000000 60000 := by unfold NoWrap; omega

/-- The error returned is the first failing check in Go's order. -/
theorem preexecute_error_class (r : Rules) (tx : Tx) (ts : Int) :
    (preExecute r tx ts = .chainId ↔ tx.chainId ≠ r.chainId) ∧
    (preExecute r tx ts = .misaligned ↔ tx.chainId = r.chainId ∧ tx.expiry % 1000 ≠ 0) ∧
    (preExecute r tx ts = .expired ↔
        tx.chainId = r.chainId ∧ tx.expiry % 1000 = 0 ∧ tx.expiry < ts) ∧
    (preExecute r tx ts = .future ↔
        tx.chainId = r.chainId ∧ tx.expiry % 1000 = 0 ∧ ts ≤ tx.expiry ∧
          wrap64 (ts + r.window) < tx.expiry) ∧
    (preExecute r tx ts = .tooManyActions ↔
        tx.chainId = r.chainId ∧ tx.expiry % 1000 = 0 ∧ ts ≤ tx.expiry ∧
          tx.expiry ≤ wrap64 (ts + r.window) ∧ r.maxActions < tx.actions.length) ∧
    (preExecute r tx ts = .actionNotActivated ↔
        tx.chainId = r.chainId ∧ tx.expiry % 1000 = 0 ∧ ts ≤ tx.expiry ∧
          tx.expiry ≤ wrap64 (ts + r.window) ∧ tx.actions.length ≤ r.maxActions ∧
          ∃ a ∈ tx.actions, ¬ Activated a ts) ∧
    (preExecute r tx ts = .authNotActivated ↔
        tx.chainId = r.chainId ∧ tx.expiry % 1000 = 0 ∧ ts ≤ tx.expiry ∧
          tx.expiry ≤ wrap64 (ts + r.window) ∧ tx.actions.length ≤ r.maxActions ∧
          (∀ a ∈ tx.actions, Activated a ts) ∧ ¬ Activated tx.auth ts) := by
  rw [preExecute_eq, all_activated_iff, ← any_notActivated_iff]
  have hau := notActivated_true_iff tx.auth ts
  generalize wrap64 (ts + r.window) = b at *
  by_cases hc : tx.chainId = r.chainId
  case neg => simp [hc]
  by_cases hm : tx.expiry % 1000 = 0
  case neg => simp [hc, hm]
  by_cases hx : tx.expiry < ts
  case pos => simp [hc, hm, hx]; omega
  by_cases hf : tx.expiry > b
  case pos => simp [hc, hm, hx, hf]; omega
  by_cases hl : tx.actions.length > r.maxActions
  case pos => simp [hc, hm, hx, hf, hl]; omega
  by_cases ha : tx.actions.any (notActivated · ts) = true
  case pos => simp [hc, hm, hx, hf, hl, ha]; omega
  by_cases hu : notActivated tx.auth ts = true
  case pos =>
    have := hau.mp hu
    simp [hc, hm, hx, hf, hl, ha, hu, this]; omega
  have : Activated tx.auth ts := Classical.byContradiction fun h => hu (hau.mpr h)
  simp [hc, hm, hx, hf, hl, ha, hu, this]

/-- **Mempool admission applies the same checks at the current time.** (Definitional on the
model: `admission` *is* `preExecute` at `now` with `GetRules(now)`; what carries content is the
tie, which drives the real `PreExecutor.PreExecute`.) -/
theorem admission_same_checks (rulesAt : Int → Rules) (tx : Tx) (now : Int) :
    admission rulesAt tx now = .ok ↔
      tx.chainId = (rulesAt now).chainId ∧ tx.expiry % 1000 = 0 ∧ now ≤ tx.expiry ∧
        tx.expiry ≤ wrap64 (now + (rulesAt now).window) ∧
        tx.actions.length ≤ (rulesAt now).maxActions ∧
        (∀ a ∈ tx.actions, Activated a now) ∧ Activated tx.auth now := by
  unfold admission; exact preexecute_ok_iff _ _ _

/-- Nothing admitted is already expired or too far in the future. -/
theorem admitted_not_expired_not_far_future (rulesAt : Int → Rules) (tx : Tx) (now : Int)
    (h : NoWrap now (rulesAt now).window) (hadm : admission rulesAt tx now = .ok) :
    now ≤ tx.expiry ∧ tx.expiry ≤ now + (rulesAt now).window := by
  have := (admission_same_checks rulesAt tx now).mp hadm
  rw [wrap64_of_noWrap h] at this
  exact ⟨this.2.2.1, this.2.2.2.1⟩

/-- Where the code and the mathematical statement part ways: when `ts + window` overflows
`int64` the bound wraps to a negative number and every non-expired expiry is rejected as
"too far in the future" (here `ts = expiry = 2^63 - 808`, a whole second, `window = 1000`); the
harness probes this on the real code. The exact iff `preexecute_ok_iff_nowrap` is therefore
stated under `NoWrap`; on the reachable domain (`ts ≥ 0`, `window ≥ 0`) the interval clause holds
for everything that passes even without it (`preexecute_ok_sound_nonneg`: overflow is
fail-closed there). -/
theorem wrap_overflow_witness :
    verifyTimestamp (2 ^ 63 - 808) (2 ^ 63 - 808) divisor 1000 = .future ∧
    ¬ NoWrap (2 ^ 63 - 808) 1000 ∧
    ((2:Int) ^ 63 - 808) % 1000 = 0 ∧ (2:Int) ^ 63 - 808 ≤ (2 ^ 63 - 808) + 1000 := by
  refine ⟨by decide, ?_, by decide, by decide⟩
  unfold NoWrap; omega

/-- The other direction of wrap-around is **fail-open**, outside the domain the rules can
produce: with a *negative* window and a timestamp near `MinInt64` the sum wraps to a huge
positive bound and an expiry beyond `ts + window` is accepted (`ts = e = -2^63 + 808`,
`window = -1000`). Excluded domain: `Rules.GetValidityWindow()` is a non-negative duration and
block / wall-clock timestamps are non-negative; see `nonneg_overflow_fail_closed`. -/
theorem wrap_negative_witness :
    verifyTimestamp (-2 ^ 63 + 808) (-2 ^ 63 + 808) divisor (-1000) = .ok ∧
    ¬ NoWrap (-2 ^ 63 + 808) (-1000) ∧
    ¬ ((-2 : Int) ^ 63 + 808 ≤ (-2 ^ 63 + 808) + (-1000)) := by
  refine ⟨by decide, ?_, by decide⟩
  unfold NoWrap; omega

/-- On the reachable domain (non-negative `int64` timestamp and window) an overflowing
`ts + window` is fail-closed: `VerifyTimestamp` never returns nil. -/
theorem nonneg_overflow_fail_closed (e ts w : Int) (hts : 0 ≤ ts) (hw : 0 ≤ w)
    (hts' : ts < 2 ^ 63) (hw' : w < 2 ^ 63) (hov : 2 ^ 63 ≤ ts + w) :
    verifyTimestamp e ts divisor w ≠ .ok := by
  rw [Ne, verifyTimestamp_ok_iff]
  intro ⟨_, h2, h3⟩
  unfold wrap64 at h3
  omega

/-- Hence on the reachable domain the property's interval clause holds for everything that
passes, overflow or not: `PreExecute = ok` implies `ts ≤ expiry ≤ ts + window` (mathematically),
whole second, chain id, action count and activation. -/
theorem preexecute_ok_sound_nonneg (r : Rules) (tx : Tx) (ts : Int) (hts : 0 ≤ ts)
    (hw : 0 ≤ r.window) (hts' : ts < 2 ^ 63) (hw' : r.window < 2 ^ 63)
    (hok : preExecute r tx ts = .ok) :
    tx.expiry % 1000 = 0 ∧ ts ≤ tx.expiry ∧ tx.expiry ≤ ts + r.window ∧
      tx.chainId = r.chainId ∧ tx.actions.length ≤ r.maxActions ∧
      (∀ a ∈ tx.actions, Activated a ts) ∧ Activated tx.auth ts := by
  by_cases hov : 2 ^ 63 ≤ ts + r.window
  · exfalso
    have h := (preexecute_ok_iff r tx ts).mp hok
    exact nonneg_overflow_fail_closed tx.expiry ts r.window hts hw hts' hw' hov
      ((verifyTimestamp_ok_iff _ _ _).mpr ⟨h.2.1, h.2.2.1, h.2.2.2.1⟩)
  · exact (preexecute_ok_iff_nowrap r tx ts ⟨by omega, by omega⟩).mp hok

end HyperModel.Props.C10
