import HyperModel.Model.Mempool
/-!
# Abstract spec of the mempool's ordering: a plain list

No heap, no owned map, no byte counter: the spec state is the queue as a list plus the stream
bookkeeping. `add` appends the accepted new items at the back; give-backs (`finishStreaming`, `top`)
are pushed to the front one by one (so they end up in reverse give-back order, before everything
else); `popNext`/`peekNext`/`stream`/`prepareStream`/`top` take from the front; `remove` and
`setMinTimestamp` delete items wherever they are, keeping the order of the others.
`setMinTimestamp`'s answer is specified as a *set* (the spec lists the expired items in queue
order; the implementation returns them in heap order). Core Lean only.
-/
namespace HyperModel.Mempool
open HyperModel.Heap HyperModel.EHeap

structure Spec where
  maxSize : Nat
  maxSponsor : Nat
  q : List Item
  locked : Bool
  streamed : Option (List ID)
  next : List Item
  fetched : Bool

def Spec.init (a b : Nat) : Spec := ⟨a, b, [], false, none, [], false⟩

/-- number of held items of a sponsor -/
def scount (q : List Item) (s : Sponsor) : Nat := q.countP (fun x => x.sponsor == s)

/-- accept a new item unless: handed out in the open stream, already held, sponsor full, pool full -/
def Spec.add1 (s : Spec) (front : Bool) (x : Item) : Spec :=
  if streamedHas s.streamed x.id then s
  else if s.q.any (fun y => y.id == x.id) then s
  else if scount s.q x.sponsor = s.maxSponsor then s
  else if s.q.length = s.maxSize then s
  else { s with q := if front then x :: s.q else s.q ++ [x] }

def Spec.addAll (s : Spec) (front : Bool) (items : List Item) : Spec :=
  items.foldl (fun s x => s.add1 front x) s

/-- delete the item with this ID wherever it is -/
def Spec.remove (s : Spec) (items : List Item) : Spec :=
  items.foldl (fun s x => { s with q := qRemove s.q x.id }) s

/-- take up to `n` items from the front and record them as handed out -/
def Spec.take (s : Spec) (n : Nat) : Spec × List Item :=
  let tk := s.q.take n
  ({ s with q := s.q.drop n,
            streamed := if tk = [] then s.streamed else some (s.streamed.getD [] ++ tk.map (·.id)) }, tk)

/-- `top`: walk the queue from the front; returns remaining queue, visited, restorable, error -/
def specTopLoop : List Item → List Answer → List Item → List Item → List Item × List Item × List Item × Bool
  | [], _, vis, res => ([], vis, res, false)
  | v :: rest, ans, vis, res =>
    let a := ans.headD ⟨false, false, false⟩
    let res := if a.restore then res ++ [v] else res
    if !a.cont || a.err then (rest, vis ++ [v], res, a.err)
    else specTopLoop rest ans.tail (vis ++ [v]) res

def Spec.step (s : Spec) : Op → Spec × Out
  | .add items => (s.addAll false items, .unit)
  | .remove items => (s.remove items, .unit)
  | .setMin t =>
    ({ s with q := s.q.filter (fun x => !decide (x.expiry < t)) },
      .items (s.q.filter (fun x => decide (x.expiry < t))))
  | .popNext =>
    match s.q with
    | [] => (s, .item none)
    | v :: rest => ({ s with q := rest }, .item (some v))
  | .peekNext => (s, .item s.q.head?)
  | .has id => (s, .bool (s.q.any (fun y => y.id == id)))
  | .len => (s, .nat s.q.length)
  | .size => (s, .int ((s.q.map (fun x => (x.size : Int))).sum))
  | .startStreaming =>
    if s.locked then (s, .blocked) else ({ s with locked := true, streamed := some [] }, .unit)
  | .prepareStream n =>
    let r := s.take n
    ({ r.1 with next := r.2, fetched := true }, .unit)
  | .stream n =>
    if s.fetched then ({ s with next := [], fetched := false }, .items s.next)
    else let r := s.take n; (r.1, .items r.2)
  | .finishStreaming restorable =>
    if !s.locked then (s, .blocked)
    else
      let s1 := ({ s with streamed := none } : Spec).addAll true restorable
      if s1.fetched then
        ({ (s1.addAll true s1.next) with next := [], fetched := false, locked := false },
          .nat (restorable.length + s1.next.length))
      else ({ s1 with locked := false }, .nat restorable.length)
  | .top answers =>
    let r := specTopLoop s.q answers [] []
    (({ s with q := r.1 } : Spec).addAll true r.2.2.1, .topOut r.2.1 r.2.2.2)

def Spec.run (s : Spec) (ops : List Op) : Spec := ops.foldl (fun s op => (s.step op).1) s

/-- answers along a history -/
def Spec.trace (s : Spec) : List Op → List Out
  | [] => []
  | op :: rest => (s.step op).2 :: Spec.trace (s.step op).1 rest

def State.trace (m : State) : List Op → List Out
  | [] => []
  | op :: rest => (m.step op).2 :: State.trace (m.step op).1 rest

/-- the implementation's answer matches the spec's: equal, except that `setMinTimestamp`'s list is
only required to be a permutation (same items, each once) -/
def OutRel : Op → Out → Out → Prop
  | .setMin _, o, o' => ∃ l l', o = .items l ∧ o' = .items l' ∧ l.Perm l'
  | _, o, o' => o = o'

def TraceRel : List Op → List Out → List Out → Prop
  | op :: ops, o :: os, o' :: os' => OutRel op o o' ∧ TraceRel ops os os'
  | [], [], [] => True
  | _, _, _ => False

end HyperModel.Mempool
