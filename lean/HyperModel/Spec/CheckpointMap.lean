import HyperModel.Model.Keys
import HyperModel.Model.Perm
import HyperModel.Model.TState
/-!
Abstract specification for C04: a key-value map with checkpoints on top of an underlying
state. Nothing here mentions pending maps, undo logs or chunk bookkeeping.

* `base`   — the underlying state the view was opened on (block-level changes over parent);
* `cur`    — what is visible now;
* `snaps`  — one snapshot of `cur` per checkpoint (newest first); the op index is the number
             of snapshots. A checkpoint is taken exactly when an operation changes `cur`.
-/
namespace HyperModel.Spec
open HyperModel.Keys (Bytes)
open HyperModel.Perm (Perm)
open HyperModel.TState (Key Val Out VOp)

abbrev KV := Key → Option Val

structure CM where
  base : KV
  cur : KV
  snaps : List KV

def CM.init (base : KV) : CM := { base := base, cur := base, snaps := [] }

def KV.put (m : KV) (k : Key) (x : Option Val) : KV := fun j => if j = k then x else m j

/-- Underlying state seen by a view: block-level pending changes first, then the parent. -/
def underlying (changed : Key → Option (Option Val)) (parent : KV) : KV :=
  fun k => match changed k with
    | some x => x
    | none => parent k

/-- Return to checkpoint `n`: drop checkpoints, newest first, while more than `n` remain; the
last one dropped is the visible map again. -/
def popTo (n : Nat) : KV → List KV → KV × List KV
  | cur, [] => (cur, [])
  | cur, m :: ms => if n ≤ ms.length then popTo n m ms else (cur, m :: ms)

/-- one operation; `scope` is the access policy of the view (C05) and `Keys.verifyValue`
the size rule (C40); both reject before anything changes. -/
def CM.step (scope : Key → Perm → Bool) (m : CM) : VOp → CM × Out
  | .get k =>
    if !scope k Perm.read then (m, .perm)
    else match m.cur k with
      | some v => (m, .val v)
      | none => (m, .notFound)
  | .insert k v =>
    if !scope k Perm.write then (m, .perm)
    else if !Keys.verifyValue k v then (m, .badValue)
    else if m.cur k = some v then (m, .ok)
    else if m.cur k = none ∧ !scope k Perm.allocate then (m, .perm)
    else ({ m with cur := KV.put m.cur k (some v), snaps := m.cur :: m.snaps }, .ok)
  | .remove k =>
    if !scope k Perm.write then (m, .perm)
    else if m.cur k = none then (m, .ok)
    else ({ m with cur := KV.put m.cur k none, snaps := m.cur :: m.snaps }, .ok)
  | .opIndex => (m, .idx m.snaps.length)
  | .rollback n =>
    if n ≤ m.snaps.length then
      let (cur, snaps) := popTo n m.cur m.snaps
      ({ m with cur := cur, snaps := snaps }, .done)
    else (m, .badOp)

def CM.run (scope : Key → Perm → Bool) (m : CM) : List VOp → CM × List Out
  | [] => (m, [])
  | o :: rest =>
    let (m', out) := m.step scope o
    let (m'', outs) := m'.run scope rest
    (m'', out :: outs)

/-- the diff a commit publishes: exactly the keys whose visible value differs from the
underlying state, with the visible value (`none` = deleted) -/
def CM.diff (m : CM) : Key → Option (Option Val) :=
  fun k => if m.cur k = m.base k then none else some (m.cur k)

end HyperModel.Spec
