import Lean
/-!
Axiom audit. `lake env lean --run Audit.lean <Module>…` loads each module from its compiled
.olean, lists every theorem declared *in that module* and prints, one JSON object per line,
the axioms its proof depends on (as `#print axioms` would). Definitions are listed too
(kind "def") so that a property file quietly turned into definitions is visible.
-/
open Lean

instance : MonadEnv (StateM Environment) where
  getEnv := get
  modifyEnv f := modify f

def jsonStr (s : String) : String := "\"" ++ s ++ "\""

unsafe def main (args : List String) : IO UInt32 := do
  initSearchPath (← findSysroot)
  let mods := args.map (fun a => a.toName)
  let env ← importModules (mods.toArray.map (fun m => { module := m })) {} (trustLevel := 0)
  for m in mods do
    let some idx := env.getModuleIdx? m
      | do IO.eprintln s!"module {m} not found"; return 1
    let names := env.header.moduleData[idx.toNat]!.constNames
    for n in names do
      if n.isInternal then continue
      let some ci := env.find? n | continue
      let kind := match ci with
        | .thmInfo _ => "theorem"
        | .axiomInfo _ => "axiom"
        | .opaqueInfo _ => "opaque"
        | .defnInfo _ => "def"
        | _ => "other"
      if kind == "other" then continue
      let axArr : Array Name := (collectAxioms (m := StateM Environment) n).run' env
      let axs := axArr.toList.map (fun a => jsonStr a.toString)
      let hasSorry := axArr.contains ``sorryAx
      IO.println s!"\{\"module\":{jsonStr m.toString},\"name\":{jsonStr n.toString},\"kind\":{jsonStr kind},\"axioms\":[{",".intercalate axs}],\"sorry\":{hasSorry}}"
  return 0
