import Driver.Util
import HyperModel.Model.Canoto
/-!
Driver for C15: replays byte strings through the Lean model of the chain codecs.

The action/auth parsers are parameters of the model.  The driver instantiates them with
stand-ins for the parsers registered by `chaintest.NewTestParser()` (TestAction / TestAuth over
avalanchego's linearcodec): a walker over the linearcodec layout of the struct that accepts
exactly the byte strings consisting of one value and *nothing after it* (i.e. the repaired
parsers, see fixes/C15-action-trailing-bytes.patch) and whose `Bytes()` is the accepted string.
linearcodec itself is outside the model (trusted base); the walker is covered by the tie.
-/
namespace Driver.C15
open HyperModel.Canoto

def be (bs : Bytes) : Nat := bs.foldl (fun a b => a * 256 + b.toNat) 0
def le (bs : Bytes) : Nat := bs.foldr (fun b a => a * 256 + b.toNat) 0
/-- int64 from 8 little-endian bytes -/
def leInt64 (bs : Bytes) : Int := let n := le bs; if n < 2 ^ 63 then (n : Int) else (n : Int) - 2 ^ 64

def skipN (n : Nat) (b : Bytes) : Option Bytes := if b.length < n then none else some (b.drop n)
/-- `[]byte`: uint32 length (≤ MaxInt32) + bytes -/
def skipBytes32 (b : Bytes) : Option Bytes :=
  if b.length < 4 then none else
  let n := be (b.take 4)
  if n > 2147483647 then none else skipN n (b.drop 4)
/-- `string`: uint16 length + bytes -/
def skipStr16 (b : Bytes) : Option Bytes :=
  if b.length < 2 then none else skipN (be (b.take 2)) (b.drop 2)
def skipMany (elem : Bytes → Option Bytes) : Nat → Bytes → Option Bytes
  | 0, b => some b
  | n + 1, b => match elem b with
    | none => none
    | some r => skipMany elem n r
/-- slice of non-byte elements: uint32 count (≤ MaxInt32) + elements (each consumes ≥ 1 byte) -/
def skipSlice (elem : Bytes → Option Bytes) (b : Bytes) : Option Bytes :=
  if b.length < 4 then none else
  let n := be (b.take 4)
  if n > 2147483647 then none else
  if n > b.length then none else skipMany elem n (b.drop 4)
def skipBool (b : Bytes) : Option Bytes :=
  match b with
  | [] => none
  | x :: r => if x.toNat > 1 then none else some r

def andThen (f g : Bytes → Option Bytes) (b : Bytes) : Option Bytes :=
  match f b with | none => none | some r => g r

/-- chaintest.TestAction: typeID 0, then NumComputeUnits u64, SpecifiedStateKeys []string,
SpecifiedStateKeyPermissions []uint8, ReadKeys/WriteKeys/WriteValues [][]byte, ExecuteErr bool,
Nonce u64, Start i64, End i64. -/
def walkTestAction (b : Bytes) : Option Bytes :=
  match b with
  | [] => none
  | t :: r =>
    if t ≠ 0 then none else
    (andThen (skipN 8) <| andThen (skipSlice skipStr16) <| andThen skipBytes32 <|
     andThen (skipSlice skipBytes32) <| andThen (skipSlice skipBytes32) <|
     andThen (skipSlice skipBytes32) <| andThen skipBool <| skipN 24) r

/-- chaintest.TestAuth: typeID 0, NumComputeUnits u64, Actor [33]byte, Sponsor [33]byte,
ShouldErr bool, Start i64, End i64. -/
def walkTestAuth (b : Bytes) : Option Bytes :=
  match b with
  | [] => none
  | t :: r =>
    if t ≠ 0 then none else
    (andThen (skipN 8) <| andThen (skipN 66) <| andThen skipBool <| skipN 16) r

/-- accept iff the walker consumes everything; the value is the accepted byte string -/
def exact (walk : Bytes → Option Bytes) : Parser Bytes :=
  { parse := fun b => match walk b with | some [] => some b | _ => none, bytes := id }

def pa : Parser Bytes := exact walkTestAction
/-- the harness-defined variable-length auth (type id 1, registered by the C15 harness): the
payload is arbitrary, `Bytes()` is the type id followed by the payload -/
def walkVarAuth (b : Bytes) : Option Bytes :=
  match b with
  | t :: _ => if t = 1 then some [] else none
  | [] => none

def pu : Parser Bytes :=
  { parse := fun b => match (exact walkTestAuth).parse b with
      | some a => some a
      | none => (exact walkVarAuth).parse b
    bytes := id }

def hexOf (s : String) : Option Bytes := parseHex s

def showTx (b : Bytes) : String :=
  match decodeTx pa pu b with
  | none => "err"
  | some t =>
    s!"ok ts={t.base.timestamp} chain={toHex t.base.chainID} fee={le t.base.maxFee} nact={t.actions.length} re={toHex (encodeTx pa pu t)} un={toHex (unsignedSlice b (rawAuth b))}"

def showBlock (b : Bytes) : String :=
  match decodeBlock pa pu b with
  | none => "err"
  | some k =>
    s!"ok prnt={toHex k.prnt} ts={leInt64 k.tmstmp} h={le k.hght} ctx={k.pChainHeight} ntx={k.txs.length} root={toHex k.stateRoot} re={toHex (encodeBlock pa pu k)}"

def showBatch (b : Bytes) : String :=
  match decodeBatch pa pu b with
  | none => "err"
  | some txs => s!"ok ntx={txs.length} re={toHex (encodeBatch pa pu txs)}"

def showResult (b : Bytes) : String :=
  match decodeResult b with
  | none => "err"
  | some r => s!"ok succ={r.success} nout={r.outputs.length} fee={le r.fee} re={toHex (encodeResult r)}"

def showResults (b : Bytes) : String :=
  match decodeExecResults b with
  | none => "err"
  | some r => s!"ok n={r.results.length} re={toHex (encodeExecResults r)}"

def showXBlock (b : Bytes) : String :=
  match decodeExecutedBlock pa pu b with
  | none => "err"
  | some e =>
    s!"ok blk={if e.block.isSome then 1 else 0} res={if e.results.isSome then 1 else 0} re={toHex (encodeExecutedBlock pa pu e)}"

/-- `action <hex>` / `auth <hex>`: the registered parser alone (Canonical check) -/
def showParse (p : Parser Bytes) (b : Bytes) : String :=
  match p.parse b with
  | none => "err"
  | some a => s!"ok re={toHex (p.bytes a)}"

/-- `rtx <hex> <authhex>`: parse, then `Sign` the parsed transaction data again with another auth.
The accepted value is unchanged (values are immutable in the model); the re-signed transaction is
the encoding of the same body with the new auth. -/
def showRTx (b a : Bytes) : String :=
  match decodeTx pa pu b, pu.parse a with
  | some t, some a' => s!"ok cur={toHex (encodeTx pa pu t)} rs={toHex (encodeTx pa pu { t with auth := a' })}"
  | _, _ => "err"

/-- `rblock` / `rbatch <hex> <authhex>`: parse, re-sign every contained transaction, then look at
the enclosing value again -/
def showRBlock (b a : Bytes) : String :=
  match decodeBlock pa pu b, pu.parse a with
  | some k, some a' =>
    s!"ok cur={toHex (encodeBlock pa pu k)} rs={toHex ((k.txs.map fun t => encodeTx pa pu { t with auth := a' }).flatten)}"
  | _, _ => "err"

def showRBatch (b a : Bytes) : String :=
  match decodeBatch pa pu b, pu.parse a with
  | some txs, some a' =>
    s!"ok cur={toHex (encodeBatch pa pu txs)} rs={toHex ((txs.map fun t => encodeTx pa pu { t with auth := a' }).flatten)}"
  | _, _ => "err"

def step (_ : Unit) (ws : List String) : Unit × String :=
  match ws with
  | [op, h, ah] =>
    match hexOf h, hexOf ah with
    | some b, some a =>
      match op with
      | "rtx" => ((), showRTx b a)
      | "rblock" => ((), showRBlock b a)
      | "rbatch" => ((), showRBatch b a)
      | _ => ((), "bad-op")
    | _, _ => ((), "bad-op")
  | [op, h] =>
    match hexOf h with
    | none => ((), "bad-op")
    | some b =>
      match op with
      | "tx" => ((), showTx b)
      | "block" => ((), showBlock b)
      | "batch" => ((), showBatch b)
      | "result" => ((), showResult b)
      | "results" => ((), showResults b)
      | "xblock" => ((), showXBlock b)
      | "action" => ((), showParse pa b)
      | "auth" => ((), showParse pu b)
      | _ => ((), "bad-op")
  | _ => ((), "bad-op")

def machine : Machine := { σ := Unit, init := (), step := step }
end Driver.C15

def main : IO Unit := Driver.run Driver.C15.machine
