import Driver.Util
import HyperModel.Model.TxValidity
namespace Driver.C10
open HyperModel.TxValidity

def parseRanges : List String → Option (List Range)
  | [] => some []
  | [_] => none
  | a :: b :: rest =>
    match a.toInt?, b.toInt?, parseRanges rest with
    | some s, some e, some l => some ({ start := s, stop := e } :: l)
    | _, _, _ => none

def tsStr : TsResult → String
  | .ok => "ok" | .misaligned => "misaligned" | .expired => "expired" | .future => "future"

/-- nominal "now" used for the `admission` op (the harness picks expiries relative to the real
clock with margins of whole seconds, so the class is the same at any nearby instant). -/
def now0 : Int := 1700000000000

/-- `pre`/`admission` share the argument layout
`<expiry|delta> <ts|-> <window> <txChain> <ruleChain> <maxActions> <authStart> <authEnd> <n> (<start> <end>)*`. -/
def runPre (admitMode : Bool) (args : List String) : String :=
  match args with
  | e :: ts :: w :: tc :: rc :: mx :: as :: ae :: n :: rest =>
    match e.toInt?, (if admitMode then some now0 else ts.toInt?), w.toInt?, tc.toNat?, rc.toNat?,
          mx.toNat?, as.toInt?, ae.toInt?, n.toNat?, parseRanges rest with
    | some e, some ts, some w, some tc, some rc, some mx, some as, some ae, some n, some acts =>
      if acts.length ≠ n then "bad-op" else
      let rules : Rules := { chainId := rc, window := w, maxActions := mx }
      let tx : Tx := { expiry := if admitMode then now0 + e else e, chainId := tc, actions := acts,
                       auth := { start := as, stop := ae } }
      if admitMode then (admission (fun _ => rules) tx ts).str else (preExecute rules tx ts).str
    | _, _, _, _, _, _, _, _, _, _ => "bad-op"
  | _ => "bad-op"

def step (_ : Unit) (ws : List String) : Unit × String :=
  match ws with
  | ["vts", e, ts, d, w] =>
    match e.toInt?, ts.toInt?, d.toInt?, w.toInt? with
    | some e, some ts, some d, some w =>
      if d = 0 then ((), "bad-op") else ((), tsStr (verifyTimestamp e ts d w))
    | _, _, _, _ => ((), "bad-op")
  | ["base", e, ts, w, tc, rc] =>
    match e.toInt?, ts.toInt?, w.toInt?, tc.toNat?, rc.toNat? with
    | some e, some ts, some w, some tc, some rc =>
      ((), (baseExecute { chainId := rc, window := w, maxActions := 0 }
              { expiry := e, chainId := tc, actions := [], auth := ⟨-1, -1⟩ } ts).str)
    | _, _, _, _, _ => ((), "bad-op")
  -- `admsw <group> <before|after> <delta> <winA> <maxA> <winB> <maxB> <nActions>`: admission with a
  -- rule factory that switches from rules A to rules B at a scheduled time; `before`: the switch
  -- lies 1.5 s after now, `after`: 0.1 s before now. expiry = now + delta, all ranges unbounded.
  | ["admsw", _, phase, d, wa, ma, wb, mb, n] =>
    match d.toInt?, wa.toInt?, ma.toNat?, wb.toInt?, mb.toNat?, n.toNat? with
    | some d, some wa, some ma, some wb, some mb, some n =>
      if phase ≠ "before" ∧ phase ≠ "after" then ((), "bad-op") else
      let sw : Int := if phase == "before" then now0 + 1500 else now0 - 100
      let rulesAt : Int → Rules := fun t =>
        if t < sw then { chainId := 1, window := wa, maxActions := ma }
        else { chainId := 1, window := wb, maxActions := mb }
      let tx : Tx := { expiry := now0 + d, chainId := 1, actions := List.replicate n ⟨-1, -1⟩, auth := ⟨-1, -1⟩ }
      ((), (admission rulesAt tx now0).str)
    | _, _, _, _, _, _ => ((), "bad-op")
  | "pre" :: args => ((), runPre false args)
  | "admission" :: args => ((), runPre true args)
  | _ => ((), "bad-op")

def machine : Machine := { σ := Unit, init := (), step := step }
end Driver.C10

def main : IO Unit := Driver.run Driver.C10.machine
