import Driver.DSMR
/-! Driver of C37: the shared DSMR line protocol (see `Driver/DSMR.lean`). -/
def main : IO Unit := Driver.run Driver.DSMR.machine
