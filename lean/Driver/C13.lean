import Driver.Util
import HyperModel.Model.Fees
namespace Driver.C13
open HyperModel.Window HyperModel.Fees

def parseU64 (s : String) : Option Nat :=
  match s.toNat? with
  | some n => if n < two64 then some n else none
  | none => none

def parseI64 (s : String) : Option Int :=
  match s.toInt? with
  | some n => if -(2 ^ 63 : Int) ≤ n ∧ n < (2 ^ 63 : Int) then some n else none
  | none => none

def csv (xs : List Nat) : String :=
  if xs.isEmpty then "-" else ",".intercalate (xs.map toString)

def parseRaw (s : String) : Option Raw :=
  match parseHex s with
  | some bs => if bs.length = 8 * rawWords then some (bytesToWords bs) else none
  | none => none

def showWin (w : Window) : String := csv ((List.range windowSize).map (slot w))

/--
* `consts` → `FeeDimensions WindowSize dimensionStateLen len(raw)`
* `roll <r> <w0..w9>` → `w <window csv>`; `sum <w0..w9>`; `update <slot> <v> <w0..w9>`
* `cnpw <since> <consumed> <price> <target> <denom> <min> <w0..w9>` → `<price> <window csv>` | `panic`
* `mono <since> <c1> <c2> <price> <target> <denom> <min> <w1: 10> <w2: 10>` → `<price1> <price2>` | `panic`
* `new` → hex of `NewManager(nil).Bytes()`
* `get <rawhex>` → `<ts> <price,consumed,window csv>;…` (getters of a manager over these bytes)
* `setp|setc <rawhex> <dim> <v>` → hex after `SetUnitPrice` / `SetLastConsumed`
* `next <currTime> <rawhex> <target×5> <denom×5> <min×5>` → hex of `ComputeNext(...).Bytes()` | `panic`
-/
def step (_ : Unit) (ws : List String) : Unit × String :=
  match ws with
  | ["consts"] =>
    ((), s!"{feeDimensions} {windowSize} {8 * dimWords} {8 * rawWords}")
  | "roll" :: r :: w =>
    match parseU64 r, allSome (w.map parseU64) with
    | some r, some w => if w.length = windowSize then ((), "w " ++ showWin (roll w r)) else ((), "bad-op")
    | _, _ => ((), "bad-op")
  | "sum" :: w =>
    match allSome (w.map parseU64) with
    | some w => if w.length = windowSize then ((), toString (sum w)) else ((), "bad-op")
    | _ => ((), "bad-op")
  | "update" :: i :: v :: w =>
    match parseU64 i, parseU64 v, allSome (w.map parseU64) with
    | some i, some v, some w =>
      if w.length = windowSize ∧ i < windowSize then ((), "w " ++ showWin (update w i v)) else ((), "bad-op")
    | _, _, _ => ((), "bad-op")
  | "cnpw" :: args =>
    match allSome (args.map parseU64) with
    | some (since :: consumed :: price :: target :: denom :: minP :: w) =>
      if w.length = windowSize then
        match computeNextPriceWindow w consumed price target denom minP since with
        | none => ((), "panic")
        | some (p, nw) => ((), toString p ++ " " ++ showWin nw)
      else ((), "bad-op")
    | _ => ((), "bad-op")
  | "mono" :: args =>
    match allSome (args.map parseU64) with
    | some (since :: c1 :: c2 :: price :: target :: denom :: minP :: ws) =>
      if ws.length = 2 * windowSize then
        match computeNextPriceWindow (ws.take windowSize) c1 price target denom minP since,
              computeNextPriceWindow (ws.drop windowSize) c2 price target denom minP since with
        | some (p1, _), some (p2, _) => ((), toString p1 ++ " " ++ toString p2)
        | _, _ => ((), "panic")
      else ((), "bad-op")
    | _ => ((), "bad-op")
  | ["new"] => ((), toHex (wordsToBytes emptyRaw))
  | ["get", raw] =>
    match parseRaw raw with
    | some r =>
      let s := decode r
      ((), toString s.ts ++ " " ++ ";".intercalate (s.dims.map fun d =>
        toString d.price ++ "," ++ toString d.consumed ++ "," ++ showWin d.window))
    | none => ((), "bad-op")
  | ["setp", raw, d, v] =>
    match parseRaw raw, parseU64 d, parseU64 v with
    | some r, some d, some v =>
      if d < feeDimensions then ((), toHex (wordsToBytes (setUnitPrice r d v))) else ((), "bad-op")
    | _, _, _ => ((), "bad-op")
  | ["setc", raw, d, v] =>
    match parseRaw raw, parseU64 d, parseU64 v with
    | some r, some d, some v =>
      if d < feeDimensions then ((), toHex (wordsToBytes (setLastConsumed r d v))) else ((), "bad-op")
    | _, _, _ => ((), "bad-op")
  | "next" :: t :: raw :: rules =>
    match parseI64 t, parseRaw raw, allSome (rules.map parseU64) with
    | some t, some r, some rs =>
      if rs.length = 3 * feeDimensions then
        match computeNext r t (rs.take 5) ((rs.drop 5).take 5) (rs.drop 10) with
        | none => ((), "panic")
        | some r' => ((), toHex (wordsToBytes r'))
      else ((), "bad-op")
    | _, _, _ => ((), "bad-op")
  | _ => ((), "bad-op")

def machine : Machine := { σ := Unit, init := (), step := step }
end Driver.C13

def main : IO Unit := Driver.run Driver.C13.machine
