import Driver.Util
import HyperModel.Model.Address
namespace Driver.C28
open HyperModel.Address

def natBytes (s : String) : Option (List Nat) := (parseHex s).map (·.map (·.toNat))
def hexOf (b : List Nat) : String := toHex (b.map UInt8.ofNat)
def asText (b : List Nat) : String := String.ofList (b.map Char.ofNat)

def showErr : Err → String
  | .hex => "hex" | .missing => "missing" | .badsum => "badsum" | .size => "size"

/-- `parse <hex of the input string's bytes> <H(payload) as hex>` → `ok <address hex>` | error enum
    `format <address hex> <H(address) as hex>` → the text -/
def step (_ : Unit) (ws : List String) : Unit × String :=
  match ws with
  | ["parse", s, h] =>
    match natBytes s, natBytes h with
    | some s, some h =>
      match parse (fun _ => h) s with
      | .ok a => ((), "ok " ++ hexOf a)
      | .error e => ((), showErr e)
    | _, _ => ((), "bad-op")
  | ["format", a, h] =>
    match natBytes a, natBytes h with
    | some a, some h => ((), asText (format (fun _ => h) a))
    | _, _ => ((), "bad-op")
  | _ => ((), "bad-op")

def machine : Machine := { σ := Unit, init := (), step := step }
end Driver.C28

def main : IO Unit := Driver.run Driver.C28.machine
