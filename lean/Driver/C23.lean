import Driver.Util
import HyperModel.Model.Mempool
/-!
Line protocol of the C23 driver. Items are written `id:sponsor:size:expiry`.

```
reset <maxSize> <maxSponsor> <S>       S = number of sponsors (0..S-1) printed in the dump
add <item>...        remove <item>...      setmin <t>        pop       peek
has <id>             len                   size
start                prepare <n>           stream <n>        finish <item>...
top <answers>        answers: one letter per callback call, `-` = none:
                     c cont | r cont+restore | s stop | t stop+restore | e cont+err | f cont+restore+err
```
Answer: `<result> ; <len> <size> ; <queue items in order> ; <#owned keys> <count of sponsor 0> .. <S-1>
 ; <streamedItems: nil | sorted ids | -> ; <nextStreamFetched 0|1> <nextStream items>`.
`start` while streaming answers `blocked` (nothing else: the real mempool is frozen);
`finish` while not streaming answers `fatal`.
-/
namespace Driver.C23
open HyperModel.Mempool

def parseNat? (s : String) : Option Nat := s.toNat?

def parseInt? (s : String) : Option Int :=
  if s.startsWith "-" then (s.drop 1).toNat?.map (fun n => - (n : Int))
  else s.toNat?.map (fun n => (n : Int))

def joinOr (l : List String) (sep : String := " ") : String :=
  if l.isEmpty then "-" else sep.intercalate l

def parseItem (s : String) : Option Item :=
  match s.splitOn ":" with
  | [a, b, c, d] =>
    match parseNat? a, parseNat? b, parseNat? c, parseInt? d with
    | some a, some b, some c, some d => some ⟨a, b, c, d⟩
    | _, _, _, _ => none
  | _ => none

def itemStr (i : Item) : String := s!"{i.id}:{i.sponsor}:{i.size}:{i.expiry}"
def itemsStr (l : List Item) (sep : String := " ") : String := joinOr (l.map itemStr) sep
def optItemStr : Option Item → String
  | some i => itemStr i
  | none => "none"

def parseAnswers (s : String) : Option (List Answer) :=
  if s == "-" then some [] else
  allSome (s.toList.map fun c =>
    if c == 'c' then some ⟨true, false, false⟩
    else if c == 'r' then some ⟨true, true, false⟩
    else if c == 's' then some ⟨false, false, false⟩
    else if c == 't' then some ⟨false, true, false⟩
    else if c == 'e' then some ⟨true, false, true⟩
    else if c == 'f' then some ⟨true, true, true⟩
    else none)

structure St where
  sponsors : Nat
  m : Option State

def dump (sp : Nat) (m : State) : String :=
  let owned := (List.range sp).map m.owned
  let nkeys := (owned.filter (· ≠ 0)).length
  let streamed := match m.streamed with
    | none => "nil"
    | some l => joinOr ((l.toArray.qsort (· < ·)).toList.map toString)
  s!"{m.len} {m.size} ; {itemsStr m.queue} ; {nkeys} " ++ " ".intercalate (owned.map toString) ++
  s!" ; {streamed} ; {if m.nextStreamFetched then 1 else 0} {itemsStr m.nextStream}"

def outStr : Out → String
  | .unit => "ok"
  | .items l => itemsStr l
  | .item o => optItemStr o
  | .bool b => if b then "true" else "false"
  | .nat n => toString n
  | .int n => toString n
  | .topOut v e => s!"v={itemsStr v ","} err={if e then 1 else 0}"
  | .blocked => "blocked"

def parseOp (ws : List String) : Option Op :=
  match ws with
  | "add" :: items => (allSome (items.map parseItem)).map Op.add
  | "remove" :: items => (allSome (items.map parseItem)).map Op.remove
  | ["setmin", t] => (parseInt? t).map Op.setMin
  | ["pop"] => some .popNext
  | ["peek"] => some .peekNext
  | ["has", id] => (parseNat? id).map Op.has
  | ["len"] => some .len
  | ["size"] => some .size
  | ["start"] => some .startStreaming
  | ["prepare", n] => (parseNat? n).map Op.prepareStream
  | ["stream", n] => (parseNat? n).map Op.stream
  | "finish" :: items => (allSome (items.map parseItem)).map Op.finishStreaming
  | ["top", a] => (parseAnswers a).map Op.top
  | _ => none

def step (s : St) (ws : List String) : St × String :=
  match ws with
  | ["reset", a, b, c] =>
    match parseNat? a, parseNat? b, parseNat? c with
    | some a, some b, some c =>
      let m := State.init a b
      ({ sponsors := c, m := some m }, "ok ; " ++ dump c m)
    | _, _, _ => (s, "bad-op")
  | _ =>
    match s.m, parseOp ws with
    | some m, some op =>
      let (m', out) := m.step op
      match out, op with
      | .blocked, .startStreaming => ({ s with m := some m' }, "blocked")
      | .blocked, _ => ({ s with m := some m' }, "fatal")
      | _, _ => ({ s with m := some m' }, outStr out ++ " ; " ++ dump s.sponsors m')
    | _, _ => (s, "bad-op")

def machine : Machine := { σ := St, init := ⟨0, none⟩, step := step }
end Driver.C23

def main : IO Unit := Driver.run Driver.C23.machine
