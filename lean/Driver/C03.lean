import Driver.TxCommon
/-! Driver of C03: `reset` / `tx` lines (see harness/lib/verifx/c03.go) through `processTx`. -/
namespace Driver.C03
open Driver Driver.TxCommon HyperModel.Tx

def rules : Rules := {}

def txStep (s : St) (ws : List String) : St × String :=
  match ws with
  | ["tx", prices, units, sponsor, actor, now, ts, maxFee, cid, auth, scope, actions] =>
    -- `actor` (Auth.Actor) is only handed to the actions; scripted actions ignore it and the fee
    -- is deducted from the sponsor
    if (parseHex actor).map (·.length) != some 33 then (s, "bad-op") else
    match parseDims prices, (if units == "err" then some none else (parseDims units).map some), parseHex sponsor, parseInt now, parseInt ts,
      parseNat maxFee, parseRange auth, parseScope scope, parseActions actions with
    | some prices, some units, some sponsor, some now, some ts, some maxFee, some (as, ae),
      some scope, some actions =>
      if !s.live || (cid != "0" && cid != "1") || sponsor.length != 33
          || (actions.isEmpty && !scope.isEmpty) then (s, "bad-op") else
      let tx : Tx := { sponsor, actions, units := units, maxFee,
                       chainID := if cid == "0" then rules.chainID else rules.chainID + 1,
                       timestamp := ts, authStart := as, authStop := ae }
      let sc := scopeOf scope [(s.h.key sponsor, permWrite)]
      let (b', o) := processTxB rules s.h prices now sc tx s.blk
      let done := match o with | .done _ => true | _ => false
      ({ (s.push prices now sc tx done) with blk := b' },
        outcomeString s.univ b'.visible o ++ " diff=" ++ diffString s.univ b')
    | _, _, _, _, _, _, _, _, _ => (s, "bad-op")
  | _ => (s, "bad-op")

def step (s : St) (ws : List String) : St × String :=
  match ws with
  | ["reset", h, u, i] =>
    match reset h u i with
    | some s' => (s', "ok")
    | none => ({ s with live := false }, "bad-op")
  | ["block"] => if s.live then (s, blockString rules s) else (s, "bad-op")
  | _ => txStep s ws

def machine : Machine := { σ := St, init := {}, step := step }
end Driver.C03

def main : IO Unit := Driver.run Driver.C03.machine
