/-! Line-protocol helpers shared by all per-property drivers (core Lean only). -/
namespace Driver

def hexDigit? (c : Char) : Option Nat :=
  if '0' ≤ c ∧ c ≤ '9' then some (c.toNat - '0'.toNat)
  else if 'a' ≤ c ∧ c ≤ 'f' then some (c.toNat - 'a'.toNat + 10)
  else if 'A' ≤ c ∧ c ≤ 'F' then some (c.toNat - 'A'.toNat + 10)
  else none

def parseHexAux : List Char → List UInt8 → Option (List UInt8)
  | [], acc => some acc.reverse
  | [_], _ => none
  | a :: b :: rest, acc =>
    match hexDigit? a, hexDigit? b with
    | some x, some y => parseHexAux rest (UInt8.ofNat (x * 16 + y) :: acc)
    | _, _ => none

/-- `-` is the empty byte string; otherwise an even number of hex digits. -/
def parseHex (s : String) : Option (List UInt8) :=
  if s == "-" then some [] else parseHexAux s.toList []

def hexNibble (n : Nat) : Char :=
  if n < 10 then Char.ofNat ('0'.toNat + n) else Char.ofNat ('a'.toNat + (n - 10))

def toHex (bs : List UInt8) : String :=
  if bs.isEmpty then "-" else
  String.ofList (bs.flatMap fun b => [hexNibble (b.toNat / 16), hexNibble (b.toNat % 16)])

def words (line : String) : List String :=
  (line.splitOn " ").filter (· ≠ "")

def allSome {α} : List (Option α) → Option (List α)
  | [] => some []
  | none :: _ => none
  | some a :: rest => (allSome rest).map (a :: ·)

/-- A per-property driver: a state machine over text lines. -/
structure Machine where
  σ : Type
  init : σ
  step : σ → List String → σ × String

partial def runLoop (m : Machine) (h : IO.FS.Stream) (out : IO.FS.Stream) (s : m.σ) : IO Unit := do
  let line ← h.getLine
  if line.isEmpty then return ()
  let l := line.trimAscii.toString
  let ws := words l
  match ws with
  | [] => runLoop m h out s
  | w :: _ =>
    if w.startsWith "#" then runLoop m h out s else
    let (s', o) := m.step s ws
    out.putStrLn o
    runLoop m h out s'

def run (m : Machine) : IO Unit := do
  let out ← IO.getStdout
  runLoop m (← IO.getStdin) out m.init
  out.flush

end Driver
