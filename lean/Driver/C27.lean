import Driver.Util
import HyperModel.Model.Genesis
namespace Driver.C27
open HyperModel.Genesis

def bytesLe : List UInt8 → List UInt8 → Bool
  | [], _ => true
  | _ :: _, [] => false
  | a :: as, b :: bs => if a < b then true else if b < a then false else bytesLe as bs

def insertSorted (k : List UInt8) : List (List UInt8) → List (List UInt8)
  | [] => [k]
  | x :: xs => if bytesLe k x then k :: x :: xs else x :: insertSorted k xs

def sortKeys (ks : List (List UInt8)) : List (List UInt8) := ks.foldr insertSorted []

def parseAlloc (s : String) : Option Alloc :=
  match s.splitOn ":" with
  | [a, b] =>
    match parseHex a, b.toNat? with
    | some addr, some bal => if bal ≤ maxU64 then some { addr := addr, bal := bal } else none
    | _, _ => none
  | _ => none

def parsePrices (s : String) : Option (List Nat) :=
  match allSome ((s.splitOn ",").map (·.toNat?)) with
  | some ps =>
    if ps.length = HyperModel.Generated.C27.feeDimensions ∧ ps.all (· ≤ maxU64) then some ps else none
  | none => none

def errName : Err → String
  | .overflow => "overflow"
  | .parse => "parse"
  | .keyValue => "keyvalue"

/-- `initializeState` / `genesisCommit` are pure functions of the genesis value (theorem
`initialize_idempotent_on_input`): a second run on the same value, or on its JSON round
trip, gives the same state, and the value itself is unchanged. -/
def reuse : String := " again=same json=same mut=false"

/-- `gen <balance prefix> <height prefix> <timestamp prefix> <fee prefix> <p0,..,p4> <sw> <q0,..,q4> <addr:bal>*`
(min unit prices `p` for rule time < `sw`, `q` from `sw` on)
→ `ok hdr=<height>:<timestamp>:<numTxs> rootok=true n=<#keys> <key>=<value>…` (keys sorted)
or `err <kind>`. The model's root is the abstract function of the content, so `rootok` (header
root = root of the committed content) is `true` by construction — theorem
`genesis_root_is_header_root`; the Go side computes it with two independent merkledbs. -/
def step (_ : Unit) (ws : List String) : Unit × String :=
  match ws with
  | "gen" :: bp :: hp :: tp :: fp :: prices :: sw :: prices2 :: allocs =>
    match parseHex bp, parseHex hp, parseHex tp, parseHex fp, parsePrices prices, sw.toInt?,
          parsePrices prices2, allSome (allocs.map parseAlloc) with
    | some bp, some hp, some tp, some fp, some prices, some sw, some prices2, some allocs =>
      -- the rule factory of the run: min prices `prices` before time `sw`, `prices2` from then on
      let rf : PriceRules := fun t => if t < sw then prices else prices2
      match genesisCommitRF (fun _ => 0) bp hp tp fp rf allocs with
      | .error e => ((), "err " ++ errName e ++ reuse)
      | .ok (m, hdr) =>
        let ks := sortKeys (keysOf m)
        let ents := ks.map fun k => toHex k ++ "=" ++ toHex ((get m k).getD [])
        ((), s!"ok hdr={hdr.height}:{hdr.timestamp}:{hdr.numTxs} rootok=true n={ks.length} "
              ++ " ".intercalate ents ++ reuse)
    | _, _, _, _, _, _, _, _ => ((), "bad-op")
  | _ => ((), "bad-op")

def machine : Machine := { σ := Unit, init := (), step := step }
end Driver.C27

def main : IO Unit := Driver.run Driver.C27.machine
