import Driver.Util
import HyperModel.Model.BlockCtx
namespace Driver.C11
open HyperModel.BlockCtx
open HyperModel.Genesis (Bytes be64 parseU64)

structure St where
  t0 : Int := 0
  g1 : Int := 0
  e1 : Int := 0
  sw : Int := 0
  g2 : Int := 0
  e2 : Int := 0
  parent : View := { heightRaw := none, tsRaw := none, feeRaw := none, root := 0 }
  fresh : Nat := 1          -- next unused root id
  live : Bool := false      -- a `seq` line has been seen
  prev : Option View := none  -- the parent before the last verified block (for `sib`)
  sib : Option Nat := none    -- post-state root of the last verified sibling

def rulesOf (s : St) : Int → Rules := fun ts =>
  if ts < s.sw then { minBlockGap := s.g1, minEmptyBlockGap := s.e1 }
  else { minBlockGap := s.g2, minEmptyBlockGap := s.e2 }

def parseI64 (w : String) : Option Int :=
  match w.toInt? with
  | some i => if -two63 ≤ i ∧ i < two63 then some i else none
  | none => none

def parseRaw (w : String) : Option (Option Bytes) :=
  if w == "x" then some none else (parseHex w).map some

/-- `a<int>` absolute, `n<int>` relative to the sequence clock -/
def parseTs (t0 : Int) (w : String) : Option Int :=
  if w.startsWith "a" then parseI64 (w.drop 1).toString
  else if w.startsWith "n" then
    match parseI64 (w.drop 1).toString with
    | some d => let v := t0 + d; if -two63 ≤ v ∧ v < two63 then some v else none
    | none => none
  else none

def errName : Err → String
  | .tooLate => "late"
  | .fetchHeight => "fetch-height"
  | .parseHeight => "parse-height"
  | .height => "height"
  | .fetchTimestamp => "fetch-ts"
  | .parseTimestamp => "parse-ts"
  | .tooEarly => "early"
  | .tooEarlyEmpty => "early-empty"
  | .fetchFee => "fetch-fee"
  | .replay => "replay"
  | .txs => "txs"
  | .root => "root"
  | .sigs => "sigs"
  | .feePanic => "fee-panic"

def parseRules (ws : List String) : Option (Int × Int × Int × Int × Int) :=
  match ws.map parseI64 with
  | [some a, some b, some c, some d, some e] => some (a, b, c, d, e)
  | _ => none

/--
`seq <T0> gen <g1> <e1> <sw> <g2> <e2>`                     parent = the real genesis commit
`seq <T0> syn <g1> <e1> <sw> <g2> <e2> <hraw|x> <traw|x> <x|e|s>`  parent = hand-made state
`exec|sib <height> <a..|n..> <0|v|i|s|V|w> <p|r|s> <y|n|f>`             one `Processor.Execute`
-/
def step (s : St) (ws : List String) : St × String :=
  match ws with
  | "seq" :: t0 :: kind :: g1 :: e1 :: sw :: g2 :: e2 :: rest =>
    match parseI64 t0, parseRules [g1, e1, sw, g2, e2] with
    | some t0, some (g1, e1, sw, g2, e2) =>
      let base : St := { t0 := t0, g1 := g1, e1 := e1, sw := sw, g2 := g2, e2 := e2,
                         fresh := 1, live := true }
      match kind, rest with
      | "gen", [] => ({ base with parent := genesisView [] 0 }, "ok")
      | "syn", [h, t, f] =>
        match parseRaw h, parseRaw t with
        | some h, some t =>
          if f == "x" then
            ({ base with parent := { heightRaw := h, tsRaw := t, feeRaw := none, root := 0 } }, "ok")
          else if f == "e" then
            ({ base with parent := { heightRaw := h, tsRaw := t, feeRaw := some [], root := 0 } }, "ok")
          else if f == "s" then
            ({ base with parent := { heightRaw := h, tsRaw := t, feeRaw := some [1, 2, 3], root := 0 } }, "ok")
          else ({ s with live := false }, "bad-op")
        | _, _ => ({ s with live := false }, "bad-op")
      | _, _ => ({ s with live := false }, "bad-op")
    | _, _ => ({ s with live := false }, "bad-op")
  | [op, h, ts, tx, rk, rp] =>
    -- `exec`: on the current parent, adopted when it verifies; `sib`: on the parent before the
    -- last verified block (a fork), never adopted, its post-state root is remembered for `s`
    if op != "exec" && op != "sib" then (s, "bad-op") else
    let isSib := op == "sib"
    if !s.live || (isSib && s.prev.isNone) then (s, "bad-op") else
    let parent := if isSib then s.prev.getD s.parent else s.parent
    match h.toNat?, parseTs s.t0 ts with
    | some h, some ts =>
      if h ≥ 18446744073709551616 then (s, "bad-op") else
      let txk : Option (Nat × Bool × Bool) :=
        if tx == "0" then some (0, true, true) else if tx == "v" then some (1, true, true)
        else if tx == "i" then some (1, false, true) else if tx == "s" then some (1, true, false)
        else if tx == "V" then some (2, true, true) else if tx == "w" then some (1, true, true)
        else none
      let rkk : Option Nat :=
        if rk == "p" then some parent.root else if rk == "r" then some (parent.root + 1000000)
        else if rk == "s" then s.sib else none
      let rpk : Option Bool :=
        if rp == "y" then some false else if rp == "n" || rp == "f" then some true else none
      match txk, rkk, rpk with
      | some (n, txsOk, sigsOk), some root, some replayOk =>
        let env : Env := { now := s.t0, rules := rulesOf s, replayOk := replayOk, txsOk := txsOk,
                           sigsOk := sigsOk, nextFee := [], newRoot := s.fresh }
        let b : Block := { height := h, ts := ts, numTxs := n, stateRoot := root }
        match execute env parent b with
        | .error e => (s, errName e)
        | .ok v =>
          let hs := match v.heightRaw.bind parseU64 with | some x => toString x | none => "?"
          let tss := match v.tsRaw.bind parseU64 with | some x => toString (toI64 x) | none => "?"
          if isSib then ({ s with sib := some v.root, fresh := s.fresh + 1 }, s!"ok {hs} {tss}")
          else ({ s with parent := v, prev := some s.parent, fresh := s.fresh + 1 }, s!"ok {hs} {tss}")
      | _, _, _ => (s, "bad-op")
    | _, _ => (s, "bad-op")
  | ["build", t0, d, h, g, e, mp] =>
    -- `build <T0> <d> <parent height> <MinBlockGap> <MinEmptyBlockGap> <mempool>`: parent header
    -- timestamp T0-d; mempool: `-` or a string over v (included) / b r x (dropped)
    match parseI64 t0, parseI64 d, h.toNat?, parseI64 g, parseI64 e with
    | some t0, some d, some h, some g, some e =>
      let kinds : Option (List MTx) :=
        if mp == "-" then some [] else
        allSome (mp.toList.map fun c =>
          if c == 'v' then some MTx.included
          else if c == 'b' || c == 'r' || c == 'x' then some MTx.dropped else none)
      match kinds with
      | some kinds =>
        if h ≥ 18446744073709551616 then (s, "bad-op") else
        let parent : Block := { height := h, ts := t0 - d, numTxs := 0, stateRoot := 0 }
        match buildBlock t0 (fun _ => { minBlockGap := g, minEmptyBlockGap := e }) parent 7 kinds with
        | .error .tooEarly => (s, "err early")
        | .error .noTxs => (s, "err notxs")
        | .ok b =>
          let delta := b.ts - parent.ts
          let cls := if delta < g then "lt-gap" else if delta < e then "lt-empty" else "ge-empty"
          let rootOk := decide (b.stateRoot = 7)
          (s, s!"ok {b.height} {cls} {b.numTxs} root={rootOk}")
      | none => (s, "bad-op")
    | _, _, _, _, _ => (s, "bad-op")
  | _ => (s, "bad-op")

def machine : Machine := { σ := St, init := {}, step := step }
end Driver.C11

def main : IO Unit := Driver.run Driver.C11.machine
