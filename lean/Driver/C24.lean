import Driver.Util
import HyperModel.Model.Fetcher
namespace Driver.C24
open HyperModel.Fetcher

structure D where
  active : Bool := false
  parent : Key → Rd := fun _ => .absent
  s : St := init 0
  waited : Bool := false
  async : List (TxId × Option Nat) := []

def parseRd (t : String) : Option Rd :=
  match t.toList with
  | 'v' :: rest => some (.val (String.ofList rest))
  | 'a' :: _ => some .absent
  | 'f' :: _ => some .fail
  | 'b' :: _ => some .bad
  | _ => none

def parseKV (t : String) : Option (Key × Rd) :=
  match t.splitOn "=" with
  | k :: v :: rest => (parseRd (String.intercalate "=" (v :: rest))).map fun r => (k, r)
  | _ => none

def mkParent (kvs : List (Key × Rd)) : Key → Rd := fun k =>
  match kvs.reverse.find? (·.1 == k) with
  | some (_, r) => r
  | none => .absent

/-- all pending sends of the `Fetch` in progress (the driver's channel never fills up) -/
def sendAll : Nat → St → St
  | 0, s => s
  | n + 1, s => match send s with
    | some s' => sendAll n s'
    | none => s

/-- `Fetch`: lock part, then its sends -/
def fetchAll (s : St) (tx : TxId) (ks : List Key) : St × Bool :=
  let (s1, ok) := fetch s tx ks
  (sendAll (s1.sending.length + 1) s1, ok)

/-- idle workers receive queued tasks at once -/
def fill : Nat → St → St
  | 0, s => s
  | n + 1, s => match take s with
    | some s' => fill n s'
    | none => s

def fillOk (s : St) : St := if s.err.isSome then s else fill (s.queue.length + 1) s

/-- run everything that is still queued or in flight (one schedule; after `Wait`) -/
def drain (parent : Key → Rd) : Nat → St → St
  | 0, s => s
  | n + 1, s =>
    let s := fill (s.queue.length + 1) s
    match s.inflight with
    | [] => s
    | k :: _ => match complete parent s k with
      | some s' => drain parent n s'
      | none => s

def sortStr (l : List String) : List String := l.mergeSort (fun a b => !(decide (b < a)))

def renderVals (s : St) (r : Nat) : String :=
  match s.recs r with
  | none => "vals -"
  | some rc =>
    let ks := sortStr rc.keys.eraseDups
    let parts := ks.filterMap fun k => (storage s rc.keys k).map fun v => k ++ "=" ++ v
    if parts.isEmpty then "vals -" else "vals " ++ String.intercalate "," parts

/-- canonical text of `Get` on record `r?` (the record captured when the call started) -/
def renderGet (d : D) (r? : Option Nat) : String :=
  match r? with
  | none => "missing"
  | some r =>
    match d.s.recs r with
    | none => "missing"
    | some rc =>
      if !rc.waiter then renderVals d.s r
      else if d.s.err.isSome then
        (if rc.closed || d.waited then "err*" else "err")
      else if rc.closed then renderVals d.s r else "hang"

def parseTx (t : String) : Option (TxId × List Key) :=
  match t.splitOn ":" with
  | [tx, ks] => some (tx, if ks.isEmpty then [] else ks.splitOn ",")
  | _ => none

def runFree (conc : Nat) (parent : Key → Rd) (txs : List (TxId × List Key)) : String :=
  let rec go (fuel : Nat) (s : St) : List (TxId × List Key) → Bool
    | [] => (drain parent fuel (waitCall s)).err.isSome
    | (tx, ks) :: rest =>
      let (s1, ok) := fetchAll s tx ks
      if !ok then true else go fuel (drain parent fuel s1) rest
  if go 100000 (init conc) txs then "err" else "ok"

def step (d : D) (ws : List String) : D × String :=
  match ws with
  | "free" :: c :: cap :: "P" :: rest =>
    let kvs := rest.takeWhile (· ≠ "T")
    let txs := (rest.dropWhile (· ≠ "T")).drop 1
    match c.toNat?, cap.toNat?, allSome (kvs.map parseKV), allSome (txs.map parseTx) with
    | some c, some cap, some kvs, some txs =>
      if c < 1 ∨ cap < 1 ∨ ¬ rest.contains "T" then (d, "bad-op")
      else (d, runFree c (mkParent kvs) txs)
    | _, _, _, _ => (d, "bad-op")
  | "reset" :: c :: kvs =>
    match c.toNat?, allSome (kvs.map parseKV) with
    | some c, some kvs =>
      if c < 1 ∨ c > 64 then ({ active := false }, "bad-op")
      else ({ active := true, parent := mkParent kvs, s := init c }, "ok")
    | _, _ => ({ active := false }, "bad-op")
  | _ =>
  if !d.active then (d, "bad-op") else
  match ws with
  | op :: tx :: ks =>
    if op == "fetch" || op == "fetchk" then
      if d.waited then (d, "bad-op") else
      let (s', ok) := fetchAll d.s tx ks
      ({ d with s := fillOk s' }, if ok then "ok" else "err")
    else if op == "sync" then
      (d, if (tx :: ks).all (· ∈ d.s.inflight) then "synced" else "not-requested")
    else match op, ks with
    | "rel", [] =>
      match complete d.parent d.s tx with
      | some s' => ({ d with s := fillOk s' }, "done")
      | none => (d, "not-requested")
    | "probe", [] =>
      match d.s.txs tx with
      | none => (d, "missing")
      | some r => match d.s.recs r with
        | none => (d, "missing")
        | some rc =>
          if !rc.waiter then (d, "nowaiter")
          else if rc.closed then (d, "ready")
          else (d, s!"blocked {rc.blockers}")
    | "get", [] => (d, renderGet d (d.s.txs tx))
    | "geta", [] =>
      if (d.async.find? (·.1 == tx)).isSome then (d, "bad-op")
      else ({ d with async := (tx, d.s.txs tx) :: d.async }, "started")
    | "join", [] =>
      match d.async.find? (·.1 == tx) with
      | none => (d, "bad-op")
      | some (_, r?) => ({ d with async := d.async.filter (·.1 != tx) }, renderGet d r?)
    | _, _ => (d, "bad-op")
  | "sync" :: ks => (d, if ks.all (· ∈ d.s.inflight) then "synced" else "not-requested")
  | ["stop"] => ({ d with s := stop d.s }, "ok")
  | ["wait"] =>
    let s' := drain d.parent 100000 (waitCall d.s)
    ({ d with s := s', waited := true }, if s'.err.isSome then "err" else "ok")
  | ["requested"] =>
    if d.s.err.isSome then (d, "err-subset")
    else if d.s.requested.isEmpty then (d, "-")
    else (d, String.intercalate "," (sortStr d.s.requested))
  | _ => (d, "bad-op")

def machine : Machine := { σ := D, init := {}, step := step }
end Driver.C24

def main : IO Unit := Driver.run Driver.C24.machine
