import Driver.Util
import HyperModel.Model.Heap
import HyperModel.Model.EHeap
import HyperModel.Model.EMap
/-!
Line protocol of the C25 driver (three kinds of sequences, each started by `reset`):

```
reset heap min|max <U>      reset eheap <U>            reset emap <U>         -> ok ; - ; - ...
push <id> <val> <item>      add <id> <exp>             add <id>/<exp> ...
pop | remove <idx> | first  remove <id> | setmin <v>   setmin <t>
get <id> | has <id> | len   peekmin | popmin           any <id> ...
                            has <id> | len             contains <stop 0|1> <marker i,j,..|-> <id> ...
```
`<U>`: IDs are `0..U-1`. Every answer is `<result> ; <heap array> ; <lookup keys>` (emap adds
` ; <seen> ; <times>`): the heap array in slot order, entries `id:val:index:item` where item
is the payload number (heap), `id/exp` (eheap) or `t/id,id,..` (emap bucket); key sets are the
IDs of the universe for which `Has`/`seen` answers true. Empty list = `-`.
-/
namespace Driver.C25
open HyperModel.Heap HyperModel.EHeap HyperModel.EMap

def parseNat? (s : String) : Option Nat := s.toNat?

def parseInt? (s : String) : Option Int :=
  if s.startsWith "-" then (s.drop 1).toNat?.map (fun n => - (n : Int))
  else s.toNat?.map (fun n => (n : Int))

def joinOr (l : List String) (sep : String := " ") : String :=
  if l.isEmpty then "-" else sep.intercalate l

/-- eheap item `(id, expiry)` -/
structure EItem where
  id : Nat
  exp : Int
  deriving Inhabited

instance : ExpItem EItem := ⟨EItem.id, EItem.exp⟩

inductive St where
  | none
  | heap (u : Nat) (h : Heap Int)
  | eheap (u : Nat) (eh : EHeap EItem)
  | emap (u : Nat) (e : EMap)

def keysStr (u : Nat) (f : Nat → Bool) : String :=
  joinOr ((List.range u).filter f |>.map toString)

def entryStr {α} (itemStr : α → String) (e : Entry α) : String :=
  s!"{e.id}:{e.val}:{e.index}:{itemStr e.item}"

def heapDump {α} (itemStr : α → String) (u : Nat) (h : Heap α) : String :=
  joinOr (h.items.toList.map (entryStr itemStr)) ++ " ; " ++ keysStr u h.lookup

def eitemStr (i : EItem) : String := s!"{i.id}/{i.exp}"

def optEntry {α} (itemStr : α → String) : Option (Entry α) → String
  | some e => entryStr itemStr e
  | Option.none => "nil"

def optItem : Option EItem → String
  | some i => eitemStr i
  | Option.none => "none"

def heapOut (u : Nat) (h : Heap Int) (res : String) : St × String :=
  (.heap u h, res ++ " ; " ++ heapDump toString u h)

def eheapOut (u : Nat) (eh : EHeap EItem) (res : String) : St × String :=
  (.eheap u eh, res ++ " ; " ++ heapDump eitemStr u eh.minHeap)

def bucketStr (e : EMap) (t : Int) : String :=
  s!"{t}/" ++ ",".intercalate (((e.times t).getD []).map toString)

def timesStr (e : EMap) : String :=
  -- buckets reachable from the heap are all buckets of `times` (checked by the Go side listing
  -- the real map); order by timestamp
  let ts := e.bh.items.toList.map (·.val)
  let ts := ts.toArray.qsort (· < ·) |>.toList
  joinOr (ts.map fun t => s!"{t}=" ++ ",".intercalate (((e.times t).getD []).map toString))

def emapOut (u : Nat) (e : EMap) (res : String) : St × String :=
  (.emap u e, res ++ " ; " ++ heapDump (bucketStr e) u e.bh ++ " ; " ++ keysStr u e.seen ++ " ; " ++ timesStr e)

def parsePair (s : String) : Option (Nat × Int) :=
  match s.splitOn "/" with
  | [a, b] => match parseNat? a, parseInt? b with
    | some a, some b => some (a, b)
    | _, _ => Option.none
  | _ => Option.none

def parseMarker (s : String) : Option (List Nat) :=
  if s == "-" then some [] else allSome ((s.splitOn ",").map parseNat?)

def boolStr (b : Bool) : String := if b then "true" else "false"

def stepHeap (u : Nat) (h : Heap Int) (ws : List String) : St × String :=
  match ws with
  | ["push", id, v, it] =>
    match parseNat? id, parseInt? v, parseInt? it with
    | some id, some v, some it => heapOut u (h.push { id := id, val := v, item := it, index := h.len }) "ok"
    | _, _, _ => (.heap u h, "bad-op")
  | ["pop"] => let r := h.pop; heapOut u r.1 (optEntry toString r.2)
  | ["remove", i] =>
    match parseNat? i with
    | some i => let r := h.remove i; heapOut u r.1 (optEntry toString r.2)
    | _ => (.heap u h, "bad-op")
  | ["first"] => heapOut u h (optEntry toString h.first)
  | ["get", id] =>
    match parseNat? id with
    | some id => heapOut u h (optEntry toString (h.get id))
    | _ => (.heap u h, "bad-op")
  | ["has", id] =>
    match parseNat? id with
    | some id => heapOut u h (boolStr (h.has id))
    | _ => (.heap u h, "bad-op")
  | ["len"] => heapOut u h (toString h.len)
  | _ => (.heap u h, "bad-op")

def stepEHeap (u : Nat) (eh : EHeap EItem) (ws : List String) : St × String :=
  match ws with
  | ["add", id, ex] =>
    match parseNat? id, parseInt? ex with
    | some id, some ex => eheapOut u (eh.add ⟨id, ex⟩) "ok"
    | _, _ => (.eheap u eh, "bad-op")
  | ["remove", id] =>
    match parseNat? id with
    | some id => let r := eh.remove id; eheapOut u r.1 (optItem r.2)
    | _ => (.eheap u eh, "bad-op")
  | ["setmin", v] =>
    match parseInt? v with
    | some v => let r := eh.setMin v; eheapOut u r.1 (joinOr (r.2.map eitemStr))
    | _ => (.eheap u eh, "bad-op")
  | ["peekmin"] => eheapOut u eh (optItem eh.peekMin)
  | ["popmin"] => let r := eh.popMin; eheapOut u r.1 (optItem r.2)
  | ["has", id] =>
    match parseNat? id with
    | some id => eheapOut u eh (boolStr (eh.has id))
    | _ => (.eheap u eh, "bad-op")
  | ["len"] => eheapOut u eh (toString eh.len)
  | _ => (.eheap u eh, "bad-op")

def stepEMap (u : Nat) (e : EMap) (ws : List String) : St × String :=
  match ws with
  | "add" :: items =>
    match allSome (items.map parsePair) with
    | some items => emapOut u (e.add items) "ok"
    | _ => (.emap u e, "bad-op")
  | ["setmin", t] =>
    match parseInt? t with
    | some t => let r := e.setMin t; emapOut u r.1 (joinOr (r.2.map toString))
    | _ => (.emap u e, "bad-op")
  | "any" :: ids =>
    match allSome (ids.map parseNat?) with
    | some ids => emapOut u e (boolStr (e.any ids))
    | _ => (.emap u e, "bad-op")
  | "contains" :: stop :: marker :: ids =>
    match parseNat? stop, parseMarker marker, allSome (ids.map parseNat?) with
    | some stop, some marker, some ids =>
      if stop > 1 then (.emap u e, "bad-op") else
      let r := e.contains ids marker (stop == 1)
      let r := r.toArray.qsort (· < ·) |>.toList
      emapOut u e (joinOr (r.map toString) ",")
    | _, _, _ => (.emap u e, "bad-op")
  | _ => (.emap u e, "bad-op")

def step (s : St) (ws : List String) : St × String :=
  match ws with
  | ["reset", "heap", mode, u] =>
    match parseNat? u with
    | some u =>
      if mode == "min" then heapOut u (Heap.new true) "ok"
      else if mode == "max" then heapOut u (Heap.new false) "ok"
      else (s, "bad-op")
    | _ => (s, "bad-op")
  | ["reset", "eheap", u] =>
    match parseNat? u with
    | some u => eheapOut u EHeap.new "ok"
    | _ => (s, "bad-op")
  | ["reset", "emap", u] =>
    match parseNat? u with
    | some u => emapOut u EMap.new "ok"
    | _ => (s, "bad-op")
  | _ =>
    match s with
    | .none => (s, "bad-op")
    | .heap u h => stepHeap u h ws
    | .eheap u eh => stepEHeap u eh ws
    | .emap u e => stepEMap u e ws

def machine : Machine := { σ := St, init := .none, step := step }
end Driver.C25

def main : IO Unit := Driver.run Driver.C25.machine
