import Driver.Util
import HyperModel.Model.Units
namespace Driver.C12
open HyperModel.Window HyperModel.Fees HyperModel.Units

def parseU64 (s : String) : Option Nat :=
  match s.toNat? with
  | some n => if n < two64 then some n else none
  | none => none

def csv (xs : List Nat) : String :=
  if xs.isEmpty then "-" else ",".intercalate (xs.map toString)

/-- `<n> <key hex>*n` prefix of a token list -/
def takeKeys : List String → Option (List Key × List String)
  | [] => none
  | n :: rest =>
    match n.toNat? with
    | none => none
    | some n =>
      if rest.length < n then none else
      match allSome ((rest.take n).map parseHex) with
      | some ks => some (ks, rest.drop n)
      | none => none

/-- `<nActions> (<computeUnits> <nKeys> <key>*)*` -/
def takeActions : Nat → List String → Option (List (Nat × List Key) × List String)
  | 0, rest => some ([], rest)
  | n + 1, cu :: rest =>
    match parseU64 cu, takeKeys rest with
    | some cu, some (ks, rest') =>
      match takeActions n rest' with
      | some (as, rest'') => some ((cu, ks) :: as, rest'')
      | none => none
    | _, _ => none
  | _ + 1, [] => none

structure TxDesc where
  size : Nat
  authCU : Nat
  acts : List (Nat × List Key)
  sponsorKeys : List Key

/-- `<size> <authCU> <nActions> (<actionCU> <nKeys> <key>*)* <nSponsorKeys> <key>*` -/
def takeTx : List String → Option (TxDesc × List String)
  | size :: auth :: nA :: rest =>
    match parseU64 size, parseU64 auth, nA.toNat? with
    | some size, some auth, some nA =>
      match takeActions nA rest with
      | some (acts, rest') =>
        match takeKeys rest' with
        | some (sk, rest'') => some ({ size := size, authCU := auth, acts := acts, sponsorKeys := sk }, rest'')
        | none => none
      | none => none
    | _, _, _ => none
  | _ => none

def takeTxs : Nat → List String → Option (List TxDesc × List String)
  | 0, rest => some ([], rest)
  | n + 1, rest =>
    match takeTx rest with
    | some (t, rest') =>
      match takeTxs n rest' with
      | some (ts, rest'') => some (t :: ts, rest'')
      | none => none
    | none => none

def showState (r : Raw) : String := csv (unitsConsumed r) ++ " " ++ csv (unitPrices r)

/--
* `units <size> <base> <authCU> <keyRead> <valRead> <keyAlloc> <valAlloc> <keyWrite> <valWrite>
   <nActions> (<actionCU> <nKeys> <key hex>*)* <nSponsorKeys> <key hex>*`
   → `ok <size,compute,reads,allocates,writes>` | `overflow` | `badkey`
* `units2 <size> <authCU> <rules A ×7> <rules B ×7> <nActions> … <nSponsorKeys> …` → `<result under A> | <result under B>`
   (the same transaction object metered twice)
* `blk exec|build <max×5> <target×5> <base keyRead valRead keyAlloc valAlloc keyWrite valWrite>
   <sponsor balance×3 (build lines only; not part of the metering model)> <nTx>
   (<size> <authCU> <nActions> (<actionCU> <nKeys> <key>*)* <nSponsorKeys> <key>*)*`
   → exec: `ok <consumed csv>` | `err-units <dim>` | `err-overflow` | `err-badkey` (what
   `Processor.Execute` does with the block on a manager fresh from `ComputeNext`);
   build: `build-done` (oracle-only line)
* `blk2 <gap s> <max×5> <target×5> <rules×7> <nParentTx> <tx>* <nChildTx> <tx>*`
   → `ok <parent consumed csv> <child consumed csv>` | `parent:err-…` | `child:err-…`
   (two blocks through `Processor.Execute`, the child on the parent's fee state via `ComputeNext`)
* `reset <consumed×5> <price×5>` → `ok` (fresh manager with these values stored)
* `consume <units×5> <limit×5>` → `<true|false> <dimension> <consumed csv> <prices csv>`
-/
def step (st : Raw) (ws : List String) : Raw × String :=
  match ws with
  | "units" :: size :: base :: auth :: kr :: vr :: ka :: va :: kw :: vw :: nA :: rest =>
    match allSome ([size, base, auth, kr, vr, ka, va, kw, vw].map parseU64), nA.toNat? with
    | some [size, base, auth, kr, vr, ka, va, kw, vw], some nA =>
      match takeActions nA rest with
      | some (acts, rest') =>
        match takeKeys rest' with
        | some (sk, []) =>
          let rules : UnitRules := { baseCompute := base, keyRead := kr, valRead := vr, keyAlloc := ka,
                                     valAlloc := va, keyWrite := kw, valWrite := vw }
          match units size rules (acts.map (·.1)) auth (acts.map (·.2)) sk with
          | .ok d => (st, "ok " ++ csv d)
          | .error .overflow => (st, "overflow")
          | .error .badKey => (st, "badkey")
        | _ => (st, "bad-op")
      | none => (st, "bad-op")
    | _, _ => (st, "bad-op")
  | "units2" :: size :: auth :: args =>
    -- the same transaction metered under two rule sets, one after the other
    match allSome ((size :: auth :: args.take 14).map parseU64), (args.drop 14) with
    | some [size, auth, b1, kr1, vr1, ka1, va1, kw1, vw1, b2, kr2, vr2, ka2, va2, kw2, vw2], nA :: rest =>
      match nA.toNat? with
      | some nA =>
        match takeActions nA rest with
        | some (acts, rest') =>
          match takeKeys rest' with
          | some (sk, []) =>
            let show1 (rules : UnitRules) : String :=
              match units size rules (acts.map (·.1)) auth (acts.map (·.2)) sk with
              | .ok d => "ok " ++ csv d
              | .error .overflow => "overflow"
              | .error .badKey => "badkey"
            (st, show1 { baseCompute := b1, keyRead := kr1, valRead := vr1, keyAlloc := ka1, valAlloc := va1,
                         keyWrite := kw1, valWrite := vw1 } ++ " | " ++
                 show1 { baseCompute := b2, keyRead := kr2, valRead := vr2, keyAlloc := ka2, valAlloc := va2,
                         keyWrite := kw2, valWrite := vw2 })
          | _ => (st, "bad-op")
        | none => (st, "bad-op")
      | none => (st, "bad-op")
    | _, _ => (st, "bad-op")
  | "blk2" :: gap :: args =>
    -- two-block chain through the processor: parent at 10 000 ms on an empty fee state, child
    -- `gap` seconds (+500 ms) later on the parent's fee state
    match parseU64 gap, allSome ((args.take 17).map parseU64), (args.drop 17) with
    | some gap, some [m0, m1, m2, m3, m4, t0, t1, t2, t3, t4, base, kr, vr, ka, va, kw, vw], nP :: rest =>
      match nP.toNat? with
      | some nP =>
        match takeTxs nP rest with
        | some (ptxs, nC :: rest') =>
          match nC.toNat? with
          | some nC =>
            match takeTxs nC rest' with
            | some (ctxs, []) =>
              let rules : UnitRules := { baseCompute := base, keyRead := kr, valRead := vr, keyAlloc := ka,
                                         valAlloc := va, keyWrite := kw, valWrite := vw }
              let us (txs : List TxDesc) := txs.map fun t =>
                units t.size rules (t.acts.map (·.1)) t.authCU (t.acts.map (·.2)) t.sponsorKeys
              let mx := [m0, m1, m2, m3, m4]
              let tg := [t0, t1, t2, t3, t4]
              let denoms := [48, 48, 48, 48, 48]   -- genesis.NewDefaultRules
              let mins := [1, 1, 1, 1, 1]
              let showErr (who : String) (e : BlockErr) : String :=
                match e with
                | .tooLarge i => who ++ ":err-units " ++ toString i
                | .units .overflow => who ++ ":err-overflow"
                | .units .badKey => who ++ ":err-badkey"
              match computeNext emptyRaw 10000 tg denoms mins with
              | none => (st, "panic")
              | some r0 =>
                match processTxs mx r0 (us ptxs) with
                | .error e => (st, showErr "parent" e)
                | .ok r1 =>
                  match computeNext r1 (10000 + (gap : Int) * 1000 + 500) tg denoms mins with
                  | none => (st, "panic")
                  | some r2 =>
                    match processTxs mx r2 (us ctxs) with
                    | .error e => (st, showErr "child" e)
                    | .ok r3 => (st, "ok " ++ csv (unitsConsumed r1) ++ " " ++ csv (unitsConsumed r3))
            | _ => (st, "bad-op")
          | none => (st, "bad-op")
        | _ => (st, "bad-op")
      | none => (st, "bad-op")
    | _, _, _ => (st, "bad-op")
  | "blk" :: mode :: args =>
    -- <max×5> <target×5> <base keyRead valRead keyAlloc valAlloc keyWrite valWrite> <sponsor balance×3> <nTx> <tx>*
    match allSome ((args.take 20).map parseU64), (args.drop 20) with
    | some [m0, m1, m2, m3, m4, _, _, _, _, _, base, kr, vr, ka, va, kw, vw, _, _, _], nT :: rest =>
      match nT.toNat? with
      | some nT =>
        match takeTxs nT rest with
        | some (txs, []) =>
          if mode == "build" then (st, "build-done")
          else if mode == "exec" then
            let rules : UnitRules := { baseCompute := base, keyRead := kr, valRead := vr, keyAlloc := ka,
                                       valAlloc := va, keyWrite := kw, valWrite := vw }
            let us := txs.map fun t => units t.size rules (t.acts.map (·.1)) t.authCU (t.acts.map (·.2)) t.sponsorKeys
            match processTxs [m0, m1, m2, m3, m4] emptyRaw us with
            | .ok r => (st, "ok " ++ csv (unitsConsumed r))
            | .error (.tooLarge i) => (st, "err-units " ++ toString i)
            | .error (.units .overflow) => (st, "err-overflow")
            | .error (.units .badKey) => (st, "err-badkey")
          else (st, "bad-op")
        | _ => (st, "bad-op")
      | none => (st, "bad-op")
    | _, _ => (st, "bad-op")
  | "reset" :: args =>
    match allSome (args.map parseU64) with
    | some [c0, c1, c2, c3, c4, p0, p1, p2, p3, p4] =>
      let r := emptyRaw
      let r := ([c0, c1, c2, c3, c4].zipIdx).foldl (fun r (v, d) => setLastConsumed r d v) r
      let r := ([p0, p1, p2, p3, p4].zipIdx).foldl (fun r (v, d) => setUnitPrice r d v) r
      (r, "ok")
    | _ => (st, "bad-op")
  | "consume" :: args =>
    match allSome (args.map parseU64) with
    | some [d0, d1, d2, d3, d4, l0, l1, l2, l3, l4] =>
      let ((ok, dim), r') := consume st [d0, d1, d2, d3, d4] [l0, l1, l2, l3, l4]
      (r', toString ok ++ " " ++ toString dim ++ " " ++ showState r')
    | _ => (st, "bad-op")
  | _ => (st, "bad-op")

def machine : Machine := { σ := Raw, init := emptyRaw, step := step }
end Driver.C12

def main : IO Unit := Driver.run Driver.C12.machine
