import Driver.Util
import HyperModel.Model.Indexer
namespace Driver.C31
open HyperModel.Indexer

/-- driver state: the indexer (none = no open indexer), and the query universe of the
current sequence (heights and blocks seen so far; the transaction pool is fixed) -/
structure DS where
  st : Option St := none
  heights : List Nat := []
  blocks : List (String × Block) := []

def nTxs : Nat := 8

def parseU64 (s : String) : Option Nat :=
  match s.toNat? with
  | some n => if n < two64 then some n else none
  | none => none

def parseTxs (s : String) : Option (List Nat) :=
  if s == "-" then some [] else
  allSome ((s.splitOn ",").map fun t =>
    match t.toNat? with
    | some n => if n < nTxs then some n else none
    | none => none)

/-- result token (the harness puts it into `Result.Fee`) -/
def resultOf (height variant idx : Nat) : Nat := (height % 1000) * 100 + variant * 10 + idx

def mkResults (height variant : Nat) (txs : List Nat) : List Nat :=
  let all := (List.range txs.length).map (resultOf height variant)
  if variant ≥ 2 ∧ all.length > 1 then all.dropLast else all

def insertSortedNat (a : Nat) : List Nat → List Nat
  | [] => [a]
  | b :: r => if a < b then a :: b :: r else if a = b then b :: r else b :: insertSortedNat a r

def nameOf (ds : DS) (b : Block) : String :=
  match ds.blocks.find? (fun p => p.2.id == b.id) with
  | some p => p.1
  | none => "?"

def optBlk (ds : DS) : Option Block → String
  | none => "nf"
  | some b => nameOf ds b

def txStr : TxAnswer → String
  | .notFound => "nf"
  | .errMismatch => "e-mismatch"
  | .errNoResult => "e-noresult"
  | .found tx ts r => s!"{tx}.{ts}.{r}"

def answers (ds : DS) (s : St) : String :=
  let hs := ds.heights.map fun h => s!"{h}={optBlk ds (getBlockByHeight s h)}"
  let bs := ds.blocks.map fun p => s!"{p.1}={optBlk ds (getBlock s p.2.id)}"
  let ts := (List.range nTxs).map fun t => s!"{t}={txStr (getTransaction s t)}"
  let dbs := s.db.map fun kv => s!"{toHex (blockEntryKey kv.1)}={nameOf ds kv.2}"
  s!"L={optBlk ds (getLatestBlock s)} H:{",".intercalate hs} B:{",".intercalate bs} T:{",".intercalate ts} D:{",".intercalate dbs}"

def step (ds : DS) (ws : List String) : DS × String :=
  match ws with
  | ["new", w] =>
    match parseU64 w with
    | some w =>
      let ds' : DS := { st := newIndexer w [], heights := [0, 1, 2], blocks := [] }
      match ds'.st with
      | some s => (ds', "ok " ++ answers ds' s)
      | none => (ds', "err-config")
    | none => (ds, "bad-op")
  | ["restart", w] =>
    match parseU64 w, ds.st with
    | some w, some s =>
      if w = 0 ∨ w > maxBlockWindow then (ds, "bad-op") else
      match newIndexer w s.db with
      | some s' => let ds' := { ds with st := some s' }; (ds', "ok " ++ answers ds' s')
      | none => (ds, "bad-op")
    | some _, none => (ds, "no-index")
    | none, _ => (ds, "bad-op")
  | ["notify", h, ts, v, txs] =>
    match parseU64 h, ts.toInt?, parseU64 v, parseTxs txs, ds.st with
    | some h, some ts, some v, some txl, some s =>
      if v ≥ 4 then (ds, "bad-op") else
      let name := s!"{h}/{ts}/{v}/{txs}"
      let b : Block := { id := [h, ts.toNat, v] ++ txl, height := h, ts := ts, txs := txl,
                         results := mkResults h v txl }
      if ts < 0 then (ds, "bad-op") else
      let s' := notify s b
      let ds' : DS := { st := some s', heights := insertSortedNat h ds.heights,
                        blocks := if ds.blocks.any (fun p => p.1 == name) then ds.blocks else ds.blocks ++ [(name, b)] }
      (ds', "ok " ++ answers ds' s')
    | some _, some _, some _, some _, none => (ds, "no-index")
    | _, _, _, _, _ => (ds, "bad-op")
  | _ => (ds, "bad-op")

def machine : Machine := { σ := DS, init := {}, step := step }
end Driver.C31

def main : IO Unit := Driver.run Driver.C31.machine
