import Driver.Util
import HyperModel.Model.Keys
import HyperModel.Model.Perm
import HyperModel.Model.TState
/-!
Line-protocol machine shared by the C04, C05 and C40 drivers: it replays harness op lines
through `Model/TState.lean`, `Model/Perm.lean`, `Model/Keys.lean`.

```
reset U=<k,..> P=<k:v,..> C=<k:v|k:x,..> F=<k,..> O=<n>   new TState (block-level changed keys C,
                                                         x = deleted), parent storage P, storage
                                                         fails on F, TState.ops = O; universe U
view *            | view <k:perm,..> | view -             NewView with CompletePermissions / state.Keys
get k | insert k v | remove k | opindex | rollback n | commit | keyops
view2 <scope> | swap                                      a second view open on the same TState
txkeys <txid> <decl>;..;<sponsor decl> | simhas k p
has p r | knew | kadd k p | khas k p | kget k | statekeys <decl>;<decl>;..
valid k | maxchunks k | numchunks n | numchunksint i | verify mks mvc k | verifyvalue k n
encode k i | encodechunks k c | decodechunks k
```
values: hex, `-` = empty, `z<n>` = n zero bytes.
-/
namespace Driver.TSM
open HyperModel HyperModel.TState HyperModel.Perm

structure St where
  keyU : List Key := []
  ts : TS := TS.new
  storage : Key → StoRes := fun _ => .notFound
  view : Option View := none
  other : Option View := none      -- a second view open on the same TState (`view2` / `swap`)
  keyset : KeySet := KeySet.empty

def parseVal (s : String) : Option (List UInt8) :=
  if s.startsWith "z" then (s.drop 1).toNat?.map (fun n => List.replicate n 0)
  else parseHex s

/-- long values are abbreviated the same way on the Go side -/
def checksum (v : List UInt8) : Nat :=
  v.foldl (fun h b => (h * 31 + b.toNat + 1) % 4294967296) 7

def showVal (v : List UInt8) : String :=
  if v.length ≤ 300 then toHex v else s!"L{v.length}:{checksum v}"

def splitList (s : String) : List String := (s.splitOn ",").filter (· ≠ "")

def field (pfx : String) (w : String) : Option String :=
  if w.startsWith pfx then some (w.drop pfx.length).toString else none

def parsePair (s : String) : Option (String × String) :=
  match s.splitOn ":" with
  | [a, b] => some (a, b)
  | _ => none

def parsePerm (s : String) : Option Perm :=
  match s.toNat? with
  | some n => if n < 256 then some (UInt8.ofNat n) else none
  | none => none

def parseDecl (s : String) : Option (List (Key × Perm)) :=
  allSome ((splitList s).map fun e =>
    match parsePair e with
    | some (k, p) => match parseHex k, parsePerm p with
      | some k, some p => some (k, p)
      | _, _ => none
    | none => none)

def showOut : Out → String
  | .val v => showVal v
  | .notFound => "notfound"
  | .ok => "ok"
  | .perm => "perm"
  | .badValue => "badvalue"
  | .stoErr => "stoerr"
  | .idx n => toString n
  | .done => "done"
  | .badOp => "bad-op"

def showOptNat : Option Nat → String
  | some n => toString n
  | none => "none"

def showOptBytes : Option (List UInt8) → String
  | some b => toHex b
  | none => "none"

def parseInt (s : String) : Option Int :=
  if s.startsWith "-" then (s.drop 1).toNat?.map (fun n => -(n : Int)) else s.toNat?.map (fun n => (n : Int))

def doReset (ws : List String) : Option St :=
  match ws with
  | [u, p, c, f, o] =>
    match field "U=" u, field "P=" p, field "C=" c, field "F=" f, (field "O=" o).bind String.toNat? with
    | some u, some p, some c, some f, some o =>
      let us := allSome ((splitList u).map parseHex)
      let ps := allSome ((splitList p).map fun e => match parsePair e with
        | some (k, v) => match parseHex k, parseVal v with
          | some k, some v => some (k, v)
          | _, _ => none
        | none => none)
      let cs := allSome ((splitList c).map fun e => match parsePair e with
        | some (k, v) => match parseHex k with
          | some k => if v == "x" then some (k, (none : Option Val)) else (parseVal v).map (fun v => (k, some v))
          | none => none
        | none => none)
      let fs := allSome ((splitList f).map parseHex)
      match us, ps, cs, fs with
      | some us, some ps, some cs, some fs =>
        let storage : Key → StoRes := fun k =>
          if fs.contains k then .fail else
          match ps.lookup k with
          | some v => .val v
          | none => .notFound
        some { keyU := us, ts := { ops := o, changedKeys := fun k => cs.lookup k },
               storage := storage, view := none }
      | _, _, _, _ => none
    | _, _, _, _, _ => none
  | _ => none

def showChanged (us : List Key) (ts : TS) : String :=
  " ".intercalate (us.map fun k =>
    toHex k ++ "=" ++ (match ts.changedKeys k with
      | some (some v) => "S:" ++ showVal v
      | some none => "N"
      | none => "_"))

/-- a Go view holds a `*TState`: before every operation the model view is given the current
shared `TState` (what other views committed since it was opened). -/
def viewOp (s : St) (f : View → View × Out) : St × String :=
  match s.view with
  | none => (s, "bad-op")
  | some v => let (v', o) := f { v with ts := s.ts }; ({ s with view := some v' }, showOut o)

def showMapNat (us : List Key) (m : GoMap Nat) : String :=
  let es := us.filterMap fun k => (m k).map fun n => toHex k ++ "=" ++ toString n
  if es.isEmpty then "-" else ",".intercalate es

def parseDecls (ds : String) : Option (List (List (Key × Perm))) :=
  allSome (((ds.splitOn ";").filter (· ≠ "")).map fun d => if d == "_" then some [] else parseDecl d)

def showKeySet (decls : List (List (Key × Perm))) (m : KeySet) : String :=
  let ks := (decls.flatten.map (·.1)).eraseDups
  if ks.isEmpty then "empty" else
    ",".intercalate (ks.map fun k => toHex k ++ ":" ++ (match m k with
      | some p => toString p.toNat | none => "none"))

def step (s : St) (ws : List String) : St × String :=
  match ws with
  | "reset" :: rest =>
    match doReset rest with
    | some s' => ({ s' with keyset := s.keyset }, "ok")
    | none => (s, "bad-op")
  | ["view", sc] =>
    if sc == "*" then ({ s with view := some (s.ts.newView fullAccess s.storage), other := none }, "ok")
    else match parseDecl (if sc == "-" then "" else sc) with
      | some decl =>
        -- a state.Keys literal: later entries of the same key overwrite (the harness never repeats)
        let m : KeySet := fun k => decl.lookup k
        ({ s with view := some (s.ts.newView m.has s.storage), other := none }, "ok")
      | none => (s, "bad-op")
  | ["view2", sc] =>
    -- open a second view on the same TState; it becomes the current one
    let mk : Option View :=
      if sc == "*" then some (s.ts.newView fullAccess s.storage)
      else match parseDecl (if sc == "-" then "" else sc) with
        | some decl => let m : KeySet := fun k => decl.lookup k; some (s.ts.newView m.has s.storage)
        | none => none
    match mk, s.view with
    | some v, some cur => ({ s with view := some v, other := some cur }, "ok")
    | _, _ => (s, "bad-op")
  | ["swap"] =>
    match s.view, s.other with
    | some a, some b => ({ s with view := some b, other := some a }, "ok")
    | _, _ => (s, "bad-op")
  | ["keyops"] =>
    match s.view with
    | none => (s, "bad-op")
    | some v =>
      let pend := (s.keyU.filter fun k => (v.pendingChangedKeys k).isSome).length
      (s, s!"a:{showMapNat s.keyU v.allocates} w:{showMapNat s.keyU v.writes} p={pend}")
  | ["get", k] =>
    match parseHex k with
    | some k => viewOp s (fun v => v.step (.get k))
    | none => (s, "bad-op")
  | ["insert", k, v] =>
    match parseHex k, parseVal v with
    | some k, some v => viewOp s (fun w => w.step (.insert k v))
    | _, _ => (s, "bad-op")
  | ["remove", k] =>
    match parseHex k with
    | some k => viewOp s (fun v => v.step (.remove k))
    | none => (s, "bad-op")
  | ["opindex"] => viewOp s (fun v => v.step .opIndex)
  | ["rollback", n] =>
    match n.toNat? with
    | some n => viewOp s (fun v => v.step (.rollback n))
    | none => (s, "bad-op")
  | ["commit"] =>
    match s.view with
    | none => (s, "bad-op")
    | some v =>
      let ts := ({ v with ts := s.ts }).commit.ts
      ({ s with ts := ts, view := s.other, other := none }, s!"ops={ts.ops} " ++ showChanged s.keyU ts)
  -- state/keys.go
  | ["has", p, r] =>
    match parsePerm p, parsePerm r with
    | some p, some r => (s, toString (has p r))
    | _, _ => (s, "bad-op")
  | ["knew"] => ({ s with keyset := KeySet.empty }, "ok")
  | ["kadd", k, p] =>
    match parseHex k, parsePerm p with
    | some k, some p => let (m, ok) := s.keyset.add k p; ({ s with keyset := m }, toString ok)
    | _, _ => (s, "bad-op")
  | ["khas", k, p] =>
    match parseHex k, parsePerm p with
    | some k, some p => (s, toString (s.keyset.has k p))
    | _, _ => (s, "bad-op")
  | ["kget", k] =>
    match parseHex k with
    | some k => (s, match s.keyset k with | some p => toString p.toNat | none => "none")
    | none => (s, "bad-op")
  | ["statekeys", ds] =>
    match parseDecls ds with
    | some decls =>
      match stateKeys decls with
      | none => (s, "err")
      | some m => (s, showKeySet decls m)
    | none => (s, "bad-op")
  -- chain/transaction.go: Transaction.StateKeys on a real transaction; the declarations of
  -- the actions in order, the sponsor's last; `_` = an empty declaration
  | ["txkeys", _txid, ds] =>
    match parseDecls ds with
    | some decls =>
      match stateKeys decls with
      | none => (s, "err")
      | some m => (s, showKeySet decls m)
    | none => (s, "bad-op")
  -- chain/processor.go: a block through Processor.Execute
  -- `block <cores> <parent k:v,..|_> <tx>/<tx>/..`, tx = action+action.., action = decl!reads!writes
  | ["block", _cores, par, txs] =>
    let parseKV (e : String) : Option (Key × Val) :=
      match parsePair e with
      | some (k, v) => match parseHex k, parseVal v with
        | some k, some v => some (k, v)
        | _, _ => none
      | none => none
    let parseAct (a : String) : Option Act :=
      match a.splitOn "!" with
      | [d, r, w] =>
        match parseDecl (if d == "_" then "" else d),
              allSome ((splitList (if r == "_" then "" else r)).map parseHex),
              allSome ((splitList (if w == "_" then "" else w)).map parseKV) with
        | some d, some r, some w => some { decl := d, reads := r, writes := w }
        | _, _, _ => none
      | _ => none
    let parent := allSome ((splitList (if par == "_" then "" else par)).map parseKV)
    let block := allSome ((txs.splitOn "/").map fun t => allSome ((t.splitOn "+").map parseAct))
    match parent, block with
    | some parent, some block =>
      let pm : Key → Option Val := fun k => parent.lookup k
      let keysOf : List Key := (parent.map (·.1) ++ block.flatten.flatMap (fun a =>
        a.decl.map (·.1) ++ a.reads ++ a.writes.map (·.1))).eraseDups
      match TS.new.execBlock pm block with
      | none => (s, "block-error")
      | some (ts, rs) =>
        let showR (r : Option Out) : String := match r with | none => "ok" | some o => showOut o
        let post := keysOf.map fun k =>
          toHex k ++ "=" ++ (match (match ts.changedKeys k with | some x => x | none => pm k) with
            | some v => showVal v | none => "_")
        (s, "r=" ++ ",".intercalate (rs.map showR) ++ " post=" ++ " ".intercalate post)
    | _, _ => (s, "bad-op")
  | ["simhas", k, p] =>
    match parseHex k, parsePerm p with
    | some k, some p =>
      let (m, r) := simulatedHas KeySet.empty k p
      (s, s!"{r} {match m k with | some q => toString q.toNat | none => "none"}")
    | _, _ => (s, "bad-op")
  -- keys/keys.go
  | ["valid", k] =>
    match parseHex k with
    | some k => (s, toString (Keys.valid k))
    | none => (s, "bad-op")
  | ["maxchunks", k] =>
    match parseHex k with
    | some k => (s, showOptNat (Keys.maxChunks k))
    | none => (s, "bad-op")
  | ["decodechunks", k] =>
    match parseHex k with
    | some k => (s, showOptNat (Keys.decodeChunks k))
    | none => (s, "bad-op")
  | ["numchunks", n] =>
    match n.toNat? with
    | some n => (s, showOptNat (Keys.numChunksLen n))
    | none => (s, "bad-op")
  | ["numchunksint", n] =>
    match parseInt n with
    | some n => (s, showOptNat (Keys.numChunksInt n))
    | none => (s, "bad-op")
  | ["verify", a, b, k] =>
    match a.toNat?, b.toNat?, parseHex k with
    | some a, some b, some k => (s, toString (Keys.verify a b k))
    | _, _, _ => (s, "bad-op")
  | ["verifyvalue", k, n] =>
    match parseHex k, n.toNat? with
    | some k, some n => (s, toString (Keys.verifyValueLen k n))
    | _, _ => (s, "bad-op")
  | ["encode", k, n] =>
    match parseHex k, parseInt n with
    | some k, some n => (s, showOptBytes (Keys.encodeInt k n))
    | _, _ => (s, "bad-op")
  | ["encodechunks", k, c] =>
    match parseHex k, c.toNat? with
    | some k, some c => if c < 65536 then (s, toHex (Keys.encodeChunks k c)) else (s, "bad-op")
    | _, _ => (s, "bad-op")
  | _ => (s, "bad-op")

def machine : Machine := { σ := St, init := {}, step := step }
end Driver.TSM
