import Driver.Util
import HyperModel.Model.Tx
/-! Line-protocol pieces shared by the drivers of C03, C06 and C07 (core Lean only). -/
namespace Driver.TxCommon
open Driver HyperModel.Tx

def parseNat (s : String) : Option Nat := s.toNat?

def parseInt (s : String) : Option Int :=
  if s.startsWith "-" then (s.drop 1).toNat?.map fun n => -(n : Int) else s.toNat?.map fun n => (n : Int)

def splitC (s : String) (c : String) : List String := s.splitOn c

def parseDims (s : String) : Option (List Nat) :=
  let fs := splitC s ","
  if fs.length ≠ 5 then none else allSome (fs.map parseNat)

def dimsString (d : List Nat) : String := ",".intercalate (d.map toString)

/-- `k=v,...` or `-` -/
def parseKV (s : String) : Option (List (Key × Val)) :=
  if s == "-" then some [] else
  allSome ((splitC s ",").map fun kv =>
    match splitC kv "=" with
    | [k, v] => match parseHex k, parseHex v with
      | some k, some v => some (k, v)
      | _, _ => none
    | _ => none)

def parseKeys (s : String) : Option (List Key) :=
  if s == "-" then some [] else allSome ((splitC s ",").map parseHex)

/-- `k:perm,...` or `-` (duplicates rejected, as in the Go harness) -/
def parseScope (s : String) : Option (List (Key × Nat)) :=
  if s == "-" then some [] else
  match allSome ((splitC s ",").map fun kp =>
    match splitC kp ":" with
    | [k, p] => match parseHex k, parseNat p with
      | some k, some p => if p < 256 then some (k, p) else none
      | _, _ => none
    | _ => none) with
  | none => none
  | some l => if (l.map (·.1)).eraseDups.length = l.length then some l else none

def parseRange (s : String) : Option (Int × Int) :=
  match splitC s ":" with
  | [a, b] => match parseInt a, parseInt b with
    | some a, some b => some (a, b)
    | _, _ => none
  | _ => none

def storeOf (kvs : List (Key × Val)) : Store :=
  fun k => (kvs.find? (·.1 == k)).map (·.2)

def scopeOf (decl : List (Key × Nat)) (extra : List (Key × Nat)) : Key → Nat :=
  fun k => (decl ++ extra).foldl (fun acc kp => if kp.1 == k then acc ||| kp.2 else acc) 0

/-- insertion sort of keys (byte-wise lexicographic, as Go's `sort.Strings`) -/
def keyLt (a b : Key) : Bool := (a.map (·.toNat)) < (b.map (·.toNat))

def insertSorted (k : Key) : List Key → List Key
  | [] => [k]
  | x :: xs => if keyLt k x then k :: x :: xs else x :: insertSorted k xs

def sortKeys (ks : List Key) : List Key := ks.foldr insertSorted []

def stateString (univ : List Key) (m : Store) : String :=
  let parts := (sortKeys univ.eraseDups).filterMap fun k =>
    (m k).map fun v => toHex k ++ "=" ++ toHex v
  if parts.isEmpty then "empty" else ",".intercalate parts

def outsString (outs : List Val) : String :=
  if outs.isEmpty then "none" else ",".intercalate (outs.map toHex)

def errString : Option Err → String
  | none => "-"
  | some e => e.name

def resultString (univ : List Key) (m : Store) (r : Result) : String :=
  s!"ok {if r.success then "1" else "0"} {errString r.error} fee={r.fee} units={dimsString r.units} outs={outsString r.outputs} state={stateString univ m}"

def outcomeString (univ : List Key) (m : Store) : Outcome → String
  | .preErr e => "pre " ++ e.name
  | .execErr e => "exec " ++ e.name
  | .done r => resultString univ m r

def parseHandler (s : String) : Option Handler :=
  if s == "m" then some .morpheus
  else if s.startsWith "p" then (parseHex (s.drop 1).toString).map Handler.pfx else none

/-- scripted action: `.` | steps[@start:end] -/
def parseStep (s : String) : Option Step :=
  match splitC s ":" with
  | ["x"] => some .fail
  | ["r", k] => (parseHex k).map Step.read
  | ["d", k] => (parseHex k).map Step.del
  | ["w", k, v] => match parseHex k, parseHex v with
    | some k, some v => some (.write k v)
    | _, _ => none
  | _ => none

def parseScriptAction (s0 : String) : Option Action :=
  -- `^<compute units>` only influences Transaction.Units (an input of the model)
  let s := (splitC s0 "^").headD s0
  if (splitC s0 "^").length > 2 || ((splitC s0 "^").length == 2 && ((splitC s0 "^").getD 1 "").toNat?.isNone) then none else
  let (body, range) : String × Option (Int × Int) :=
    match splitC s "@" with
    | [b] => (b, some (-1, -1))
    | [b, r] => (b, parseRange r)
    | _ => (s, none)
  match range with
  | none => none
  | some (st, en) =>
    let steps : Option (List Step) :=
      if body == "." then some [] else allSome ((splitC body ",").map parseStep)
    steps.map fun st' => { prog := scriptProg st' [], start := st, stop := en }

def parseActions (s : String) : Option (List Action) :=
  if s == "none" then some [] else allSome ((splitC s "|").map parseScriptAction)

/-- shared state of the three drivers: handler, key univ, block-level visible state -/
structure St where
  h : Handler := .morpheus
  univ : List Key := []
  blk : Block := { parent := fun _ => none }
  live : Bool := false
  /-- the transactions of the current sequence (scope, tx, committed one by one?) -/
  txs : List ((Key → Nat) × Tx × Bool) := []
  prices : Option (List Nat) := none
  now : Int := 0
  mixed : Bool := false

/-- the block diff (`TState.ChangedKeys`) over the universe: `k=v`, `k=~` for a delete -/
def diffString (univ : List Key) (b : Block) : String :=
  let parts := (sortKeys univ.eraseDups).filterMap fun k =>
    match b.diff k with
    | none => none
    | some none => some (toHex k ++ "=~")
    | some (some v) => some (toHex k ++ "=" ++ toHex v)
  if parts.isEmpty then "none" else ",".intercalate parts

def reset (hs us is : String) : Option St :=
  match parseHandler hs, parseKeys us, parseKV is with
  | some h, some u, some kv => some { h, univ := u, blk := { parent := storeOf kv }, live := true }
  | _, _, _ => none

def defaultMaxUnits : List Nat := [1800000, 2000, 2000, 2000, 2000]
def zeroUnits : List Nat := [0, 0, 0, 0, 0]

/-- remember a processed transaction of the current sequence -/
def St.push (s : St) (prices : List Nat) (now : Int) (sc : Key → Nat) (tx : Tx) (done : Bool) : St :=
  let mixed := s.mixed || (match s.prices with | some p => p != prices || s.now != now | none => false)
  { s with txs := s.txs ++ [(sc, tx, done)], prices := some prices, now, mixed }

/-- same predicate as `C03Tx.plainTiming` in the Go harness -/
def plainTiming (now : Int) (tx : Tx) : Bool :=
  let off := tx.timestamp - now
  !(off < 5000 || off > 60000 - 5000 || off % 1000 != 0) && tx.authStart < 0 && tx.authStop < 0
    && tx.actions.all fun a => a.start < 0 && a.stop < 0

/-- the `block` op: the sequence as one block through the processor and the builder model -/
def blockString (rules : Rules) (s : St) : String :=
  if s.mixed then "mixed" else
  let prices := s.prices.getD zeroUnits
  let all := s.txs.map fun x => (x.1, x.2.1)
  let oks := (s.txs.filter fun x => x.2.2).map fun x => (x.1, x.2.1)
  let start : Block × List Nat := ({ parent := s.blk.parent }, zeroUnits)
  let proc := match processorBlock rules s.h prices s.now defaultMaxUnits oks start with
    | .ok (st, rs) => s!"ok n={rs.length} state={stateString s.univ st.1.visible}"
    | .error e => "err:" ++ e.name
  let procall := match processorBlock rules s.h prices s.now defaultMaxUnits all start with
    | .ok _ => "ok"
    | .error _ => "err"
  let build :=
    if !(all.all fun x => plainTiming s.now x.2) then "na" else
    match builderBlock rules s.h prices s.now defaultMaxUnits all start with
    | .error e => "abort:" ++ e.name
    | .ok (_, incs) =>
      if incs.isEmpty then "ok inc=none"
      else "ok inc=" ++ ",".intercalate (incs.map fun o => if o.isSome then "1" else "0")
  s!"proc={proc} procall={procall} build={build}"

end Driver.TxCommon
