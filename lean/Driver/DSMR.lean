import Driver.Util
import HyperModel.Model.DSMR
/-! Line protocol shared by the C35, C36 and C37 drivers (one model, three properties). -/
namespace Driver.DSMR
open HyperModel.DSMR

structure St where
  univ : List (Nat × Info) := []
  window : Nat := 5
  limit : Nat := 1000000
  maxSkew : Nat := 30000000000
  nilCertGuard : Bool := true
  checksMessage : Bool := false
  /-- forged certificates (chunk id ↦ expiry in the signed reference) obtained from the validators -/
  forged : List (Nat × Nat) := []
  node : Node := Node.init
  /-- storage of the peer node whose real `GetChunkHandler` answers `P` tokens -/
  peer : Storage := Storage.empty
  blocks : List (Nat × Block) := [(0, genesis)]

def St.cfg (s : St) : Cfg :=
  { U := fun i => ((s.univ.find? (fun e => e.1 == i)).map (·.2)).getD ⟨0, 0, 0, false⟩
    window := s.window, limit := s.limit, maxSkew := s.maxSkew
    nilCertGuard := s.nilCertGuard, checksMessage := s.checksMessage }

def nat? (w : String) : Option Nat := w.toNat?

def joinNats (l : List Nat) : String :=
  if l.isEmpty then "-" else ",".intercalate (l.map toString)

def insSorted (a : Nat) : List Nat → List Nat
  | [] => [a]
  | b :: r => if a ≤ b then a :: b :: r else b :: insSorted a r
def sortNats (l : List Nat) : List Nat := l.foldr insSorted []

def insCert (a : Cert) : List Cert → List Cert
  | [] => [a]
  | b :: r => if a.chunkID ≤ b.chunkID then a :: b :: r else b :: insCert a r
def sortCerts (l : List Cert) : List Cert := l.foldr insCert []

/-- cert token `7` (honest certificate of chunk 7) or `7x` (same reference, bad signature) -/
def cert? (s : St) (w : String) : Option Cert :=
  if w.endsWith "q" then
    -- the certificate of chunk i with the signer set reduced to the producer: below the harness
    -- chain state's quorum (1/1), so its signature does not verify; `Accept` does not look at it
    match nat? (w.dropEnd 1).toString with
    | some i => if s.univ.any (fun e => e.1 == i) then some ⟨i, (s.cfg.U i).expiry, false⟩ else none
    | none => none
  else if w.endsWith "f" then
    match nat? (w.dropEnd 1).toString with
    | some i => (s.forged.find? (fun e => e.1 == i)).map (fun e => ⟨i, e.2, true⟩)
    | none => none
  else
  let bad := w.endsWith "x"
  let num := if bad then (w.dropEnd 1).toString else w
  match nat? num with
  | some i => if s.univ.any (fun e => e.1 == i) then some ⟨i, (s.cfg.U i).expiry, !bad⟩ else none
  | none => none

def resp? (w : String) : Option Resp :=
  if w == "E" then some .appErr else if w == "S" then some .sendFail
  else if w == "P" then some .peer else (nat? w).map .chunk

def known (s : St) (i : Nat) : Bool := s.univ.any (fun e => e.1 == i)
def blk? (s : St) (h : Nat) : Option Block := (s.blocks.find? (fun e => e.1 == h)).map (·.2)

def vout : VerifyOut → String
  | .ok => "ok" | .parent => "parent" | .height => "height" | .timestamp => "timestamp"
  | .empty => "empty" | .dup => "dup" | .index => "index" | .sig => "sig"
  | .expired => "expired" | .future => "future"

def dedup (l : List Nat) : List Nat := l.foldl (fun acc a => if acc.contains a then acc else acc ++ [a]) []

def absLine (s : St) : String :=
  let ids := sortNats (s.univ.map (·.1))
  let st := s.node.st
  let prods := sortNats (dedup (s.univ.map (·.2.producer)))
  let ws := (prods.filter (fun p => st.sizes p != 0)).map (fun p => toString p ++ ":" ++ toString (st.sizes p))
  "p=" ++ joinNats (ids.filter (hasPending st)) ++ " a=" ++ joinNats (ids.filter (fun i => st.dbAccepted.contains i))
    ++ " min=" ++ toString st.min ++ " w=" ++ (if ws.isEmpty then "-" else ",".intercalate ws)

/-- the peer's real `GetChunkHandler`: `GetChunkBytes(request.Expiry, request.ChunkId)` on the peer's
storage, the request carrying the expiry of the certificate being fetched -/
def peerServesOf (cfg : Cfg) (peer : Storage) (b : Block) (id : Nat) : Bool :=
  match b.certs.find? (fun c => c.chunkID == id) with
  | some c => getBytes cfg peer c.expiry id
  | none => false

def setStorage (s : St) (st : Storage) : St := { s with node := { s.node with st := st } }

def step (s : St) (ws : List String) : St × String :=
  let bad := (s, "bad-op")
  match ws with
  | ["chunk", i, p, e, sz, v] =>
    match nat? i, nat? p, nat? e, nat? sz, nat? v with
    | some i, some p, some e, some sz, some v =>
      if known s i || v > 1 then bad else ({ s with univ := s.univ ++ [(i, ⟨p, e, sz, v == 1⟩)] }, "ok")
    | _, _, _, _, _ => bad
  | ["feature", name, v] =>
    match nat? v with
    | some v =>
      if v > 1 then bad else
      if name == "nilcertguard" then ({ s with nilCertGuard := v == 1 }, "ok")
      else if name == "checksmessage" then ({ s with checksMessage := v == 1 }, "ok") else bad
    | none => bad
  | ["forge", i, e] =>
    match nat? i, nat? e with
    | some i, some e =>
      if !known s i || s.forged.any (fun x => x.1 == i) then bad else ({ s with forged := s.forged ++ [(i, e)] }, "ok")
    | _, _ => bad
  | ["sigreq", i, e, j] =>
    match nat? i, nat? e, nat? j with
    | some i, some e, some j =>
      if !known s i || !known s j then bad else
      let r := signReq s.cfg s.node.st i e j
      (setStorage s r.1, match r.2 with | .signed => "signed" | .refused => "refused" | .panic => "panic")
    | _, _, _ => bad
  | ["cfg", w, l, k] =>
    match nat? w, nat? l, nat? k with
    | some w, some l, some k =>
      ({ s with window := w, limit := l, maxSkew := k, node := Node.init, peer := Storage.empty, blocks := [(0, genesis)] }, "ok")
    | _, _, _ => bad
  | ["reset"] => ({ s with node := Node.init, peer := Storage.empty, blocks := [(0, genesis)] }, "ok")
  | ["addlocal", i, c] =>
    match nat? i with
    | some i =>
      if !known s i then bad else
      if c == "c" then (setStorage s (putVerified s.cfg s.node.st i (some ⟨i, (s.cfg.U i).expiry, true⟩)), "ok")
      else if c == "n" then (setStorage s (putVerified s.cfg s.node.st i none), "ok") else bad
    | none => bad
  | ["paddlocal", i] =>
    match nat? i with
    | some i => if !known s i then bad else ({ s with peer := putVerified s.cfg s.peer i none }, "ok")
    | none => bad
  | "psetmin" :: m :: ids =>
    match nat? m, allSome (ids.map nat?) with
    | some m, some ids =>
      if !(ids.all (known s)) then bad else
      let r := setMin s.cfg s.peer m ids
      ({ s with peer := r.1 }, if r.2 then "ok" else "err")
    | _, _ => bad
  | ["vremote", i] =>
    match nat? i with
    | some i =>
      if !known s i then bad else
      let r := verifyRemote s.cfg s.node.st i
      (setStorage s r.1, match r.2 with
        | .stored => "stored" | .known => "known" | .panic => "panic"
        | .err .expired => "expired" | .err .future => "future" | .err .invalid => "invalid")
    | none => bad
  | ["setcert", i, g] =>
    match nat? i with
    | some i =>
      if !known s i || (g != "g" && g != "b") then bad else
      let r := setCert s.node.st ⟨i, (s.cfg.U i).expiry, g == "g"⟩
      (setStorage s r.1, match r.2 with | .ok => "ok" | .nochunk => "nochunk" | .badcert => "badcert")
    | none => bad
  | "setmin" :: m :: ids =>
    match nat? m, allSome (ids.map nat?) with
    | some m, some ids =>
      if !(ids.all (known s)) then bad else
      let r := setMin s.cfg s.node.st m ids
      (setStorage s r.1, if r.2 then "ok" else "err")
    | _, _ => bad
  | ["gather"] => (s, joinNats (sortNats ((gather s.node.st).map (·.chunkID))))
  | ["getbytes", e, i] =>
    match nat? e, nat? i with
    | some e, some i => if !known s i then bad else (s, if getBytes s.cfg s.node.st e i then "ok" else "notfound")
    | _, _ => bad
  | ["rate", i] =>
    match nat? i with
    | some i => if !known s i then bad else (s, if rateOk s.cfg s.node.st i then "ok" else "limit")
    | none => bad
  | ["reopen"] => (setStorage s (reopen s.cfg s.node.st), "ok")
  | ["abs"] => (s, absLine s)
  | "mk" :: h :: p :: ts :: ht :: certs =>
    match nat? h, nat? p, nat? ts, nat? ht, allSome (certs.map (cert? s)) with
    | some h, some p, some ts, some ht, some certs =>
      match blk? s h, blk? s p with
      | none, some _ => ({ s with blocks := s.blocks ++ [(h, ⟨h, p, ht, ts, certs⟩)] }, "ok")
      | _, _ => bad
    | _, _, _, _, _ => bad
  | ["verify", h, p] =>
    match nat? h, nat? p with
    | some h, some p =>
      match blk? s h, blk? s p with
      | some b, some par =>
        let r := verify s.cfg s.node par b
        let s' := if r == .ok && (findBlock s.node.index b.id).isNone
          then { s with node := { s.node with index := s.node.index ++ [b] } } else s
        (s', vout r)
      | _, _ => bad
    | _, _ => bad
  | ["build", h, p, ts] =>
    match nat? h, nat? p, nat? ts with
    | some h, some p, some ts =>
      match blk? s h, blk? s p with
      | none, some par =>
        match buildBlock s.cfg s.node par ts with
        | .ok certs =>
          let cs := sortCerts certs
          ({ s with blocks := s.blocks ++ [(h, ⟨h, p, par.height + 1, ts, cs⟩)] }, "ok " ++ joinNats (cs.map (·.chunkID)))
        | .timestamp => (s, "timestamp")
        | .index => (s, "index")
        | .none => (s, "none")
      | _, _ => bad
    | _, _, _ => bad
  | "racesetmin" :: m :: j :: ids =>
    -- SetMin(m, ids) with AddLocalChunkWithCert(chunk j, nil) arriving from another goroutine while
    -- the batch is being written: the storage lock serialises them as SetMin; add
    match nat? m, nat? j, allSome (ids.map nat?) with
    | some m, some j, some ids =>
      if !(ids.all (known s)) || !known s j then bad else
      let r := setMin s.cfg s.node.st m ids
      (setStorage s (putVerified s.cfg r.1 j none), if r.2 then "ok" else "err")
    | _, _, _ => bad
  | "accept" :: h :: script0 =>
    -- `D1`/`D2`: validator 1/2 is unreachable during this accept (requests to it fail and are
    -- retried with another validator): no effect on the outcome
    let script := script0.filter (fun w => w != "D1" && w != "D2")
    match nat? h, allSome (script.map resp?) with
    | some h, some script =>
      match blk? s h with
      | some b =>
        let base := s.cfg
        let cfg : Cfg := { base with peerServes := peerServesOf base s.peer b }
        let r := accept cfg s.node b script
        ({ s with node := r.1 }, match r.2 with
          | .ok chunks => "ok " ++ joinNats chunks | .fetch => "fetch" | .prune => "prune")
      | none => bad
    | _, _ => bad
  | _ => bad

def machine : Machine := { σ := St, init := {}, step := step }
end Driver.DSMR
