import Driver.Util
import HyperModel.Model.Snow
/-! Line-protocol driver for the `snow.VM` model (shared by C20 and C21). -/
namespace Driver.Snow
open HyperModel.Snow

def b01 (b : Bool) : String := if b then "1" else "0"
def fBlk (b : Blk) : String :=
  match b.pctx with
  | none => s!"B({b.id},{b.parent},{b.height},{b01 b.invalid})"
  | some c => s!"B({b.id},{b.parent},{b.height},{b01 b.invalid},c{c})"
def fSt (l : List Nat) : String := if l.isEmpty then "-" else ".".intercalate (l.map toString)
def fOut : Option Out → String
  | none => "nil"
  | some o => s!"O({o.blk.id};{fSt o.st})"
def fAcc : Option Acc → String
  | none => "nil"
  | some a => s!"A({a.blk.id};{fSt a.st})"
def fObj (o : Obj) : String :=
  s!"{fBlk o.blk} v={b01 o.verified} a={b01 o.accepted} o={fOut o.out} acc={fAcc o.acc}"
def fEvent : Event → String
  | .cParse b => s!"P:{fBlk b}"
  | .cBuild po r => s!"Bd:{fOut po}=>{fOut r}"
  | .cVerify po b r => s!"V:{fOut po},{fBlk b}=>{fOut r}"
  | .cAccept pa o r => s!"Ac:{fAcc pa},{fOut o}=>{fAcc (some r)}"
  | .nVerified o => s!"nV:{fOut (some o)}"
  | .nAccepted a => s!"nA:{fAcc (some a)}"
  | .nRejected o => s!"nR:{fOut o}"
  | .nPreAccepted b => s!"npA:{fBlk b}"
  | .nPreRejected b => s!"npR:{fBlk b}"

def fRes (s : State) : Res → String
  | .ok => "ok"
  | .handle h => s!"h={h} {fObj (s.obj h)}"
  | .id n => s!"id={n}"
  | .err w => s!"err:{w}"
  | .health r u => s!"ready={b01 r} unresolved={match u with | none => "none" | some n => toString n}"
  | .acc a => fAcc (some a)
  | .out o => fOut (some o)

def nat? (s : String) : Option Nat := s.toNat?
def bool? (s : String) : Option Bool := if s == "1" then some true else if s == "0" then some false else none
def st? (s : String) : Option (List Nat) :=
  if s == "-" then some [] else allSome ((s.splitOn ".").map nat?)

def blk? (a b c d : String) : Option Blk := do
  let id ← nat? a; let p ← nat? b; let h ← nat? c; let i ← bool? d
  pure ⟨id, p, h, i, none⟩

def blkc? (a b c d e : String) : Option Blk := do
  let b ← blk? a b c d; let k ← nat? e
  pure { b with pctx := some k }

def op? : List String → Option Op
  | ["build", n] => (nat? n).map (.build · none)
  | ["buildc", n, k] => do let n ← nat? n; let k ← nat? k; pure (.build n (some k))
  | ["parse", a, b, c, d] => (blk? a b c d).map .parse
  | ["parsec", a, b, c, d, k] => (blkc? a b c d k).map .parse
  | ["verify", h] => (nat? h).map (.verify · none)
  | ["verifyc", h, k] => do let h ← nat? h; let k ← nat? k; pure (.verify h (some k))
  | ["accept", h] => (nat? h).map .accept
  | ["reject", h] => (nat? h).map .reject
  | ["pref", i] => (nat? i).map .pref
  | ["get", i] => (nat? i).map .get
  | ["geth", i] => (nat? i).map .getH
  | ["last"] => some .last
  | ["fin"] => some .fin
  | ["start", a, b, c, d] => (blk? a b c d).map .start
  | ["finish", a, b, c, d, st] => do let b ← blk? a b c d; let l ← st? st; pure (.finish b l)
  | ["health"] => some .health
  | ["cila"] => some .ciLast
  | ["cipref"] => some .ciPref
  | _ => none

structure St where
  y : Option Sys := none

def render (before : State) (after : State) (res : String) (extra : String) : String :=
  let ev := (after.log.drop before.log.length).map fEvent
  let base := res ++ extra
  if ev.isEmpty then base else base ++ " | " ++ " ".intercalate ev

/-- after an engine `accept` or an accepter `fin` the (idle) accepter goroutine immediately receives
the next queued block and looks up its parent: that is the model's `deq` step -/
def autoDeq (y : Sys) : Sys × String :=
  if y.s.crashed then (y, "") else
  if y.s.inflight.isNone && !y.s.queue.isEmpty then
    let y' := y.step .deq
    (y', if y'.s.crashed then " CRASH" else "")
  else (y, "")

def step (st : St) (ws : List String) : St × String :=
  match ws with
  | ["init", c, p, w, a, b, h, r] =>
    match nat? c, nat? p, nat? w, blk? a b h "0", bool? r with
    | some c, some p, some w, some g, some r =>
      let y := Sys.init c p w g r
      ({ y := some y }, render {} y.s ("ok " ++ fObj (y.s.obj 0)) "")
    | _, _, _, _, _ => (st, "bad-op")
  | _ =>
    match st.y, op? ws with
    | some y, some op =>
      let okE := pre y.s y.e op
      let (s', r) := HyperModel.Snow.step y.s op
      let y' : Sys := ⟨s', y.e.upd y.s op r⟩
      let objInfo := match op with
        | .verify h _ | .accept h | .reject h => if h < s'.nobj then " " ++ fObj (s'.obj h) else ""
        | .fin => match y.s.inflight with | some (h, _) => " " ++ fObj (s'.obj h) | none => ""
        | .start _ => if r == .ok then s!" h={s'.lastAccepted}" else ""
        | .finish _ _ => if r == .ok then s!" h={s'.lastAccepted} {fObj (s'.obj s'.lastAccepted)}" else ""
        | _ => ""
      let (y'', crash) := match op with
        | .accept _ | .fin => autoDeq y'
        | _ => (y', "")
      let herr := match op with
        | .health => if s'.crashed then "" else
          let (e, nr, un) := healthErr s'
          s!" err={b01 e} notready={b01 nr} unres={b01 un}"
        | _ => ""
      ({ y := some y'' }, render y.s y''.s (fRes s' r) (herr ++ objInfo ++ crash ++ (if okE then "" else " !eng")))
    | _, _ => (st, "bad-op")

def machine : Machine := { σ := St, init := {}, step := step }
end Driver.Snow
