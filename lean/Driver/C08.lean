import Driver.Util
import HyperModel.Model.Executor
import HyperModel.Model.ExecutorFine
/-!
Driver for C08. Replays the gated-schedule protocol of the Go harness through the coarse
executor relation: every op becomes one client step (`run`, `finish` of the released task,
`stop`, `wait`), checked with `isEnabled`, followed by the worker steps (`start`/`skip`)
that `enabled` offers until none is left (quiescence). Printed after each op: the set of
running task bodies and the length of the executable channel.

  case <workers>
  run <key>:<perm>…          perm = state.Permissions byte; read-only iff perm = 1
  rel <r> <fail 0|1>         releases the (r mod #running)-th running task (sorted by id)
  stop
  wait

`run` is replayed twice: as the atomic `Step.run` of the coarse relation and as the sequence
`runBegin; runKey…; runEnd` of the finer relation (`Model/ExecutorFine.lean`, maxDependencies
as in the harness); the two resulting states must show the same observables, otherwise the
line is answered with `fine-mismatch`.
-/
namespace Driver.C08
open HyperModel.Executor

structure DState where
  s : State
  aborted : Bool
  active : Bool

def setStr (l : List Nat) : String :=
  if l.isEmpty then "-" else ",".intercalate (l.map toString)

def running (s : State) : List Nat := (List.range s.n).filter (fun j => s.status j == .running)

def obs (s : State) : String := s!"started={setStr (running s)} q={s.queue.length}"

/-- apply worker steps until quiescence; `none` if the model refuses a step it listed -/
def settle : Nat → State → Option State
  | 0, s => some s
  | fuel + 1, s =>
    match (enabled s).head? with
    | some (.start j) =>
      if isEnabled s (.start j) then settle fuel (apply s (.start j)) else none
    | some (.skip j o) =>
      if isEnabled s (.skip j o) then settle fuel (apply s (.skip j o)) else none
    | _ => some s

def fineKeys : Nat → FState → Option FState
  | 0, fs => some fs
  | n + 1, fs => if isEnabledF fs .runKey then fineKeys n (applyF fs .runKey) else none

/-- `Run` through the finer relation, with no other step interleaved -/
def runViaFine (s : State) (ks : List KeyReq) : Option State :=
  let fs : FState := { s := s, reg := none, maxDeps := 1048576 }
  if !isEnabledF fs (.runBegin ks) then none else
  match fineKeys ks.length (applyF fs (.runBegin ks)) with
  | some fs2 => if isEnabledF fs2 .runEnd then some (applyF fs2 .runEnd).s else none
  | none => none

def sameObs (a b : State) : Bool :=
  a.n == b.n && a.queue == b.queue &&
  (List.range a.n).all (fun j => a.status j == b.status j && a.deps j == b.deps j &&
    (List.range a.n).all (fun d => a.blocked d j == b.blocked d j && a.readers d j == b.readers d j))

def parseKey (w : String) : Option KeyReq :=
  match w.splitOn ":" with
  | [k, p] =>
    match k.toNat?, p.toNat? with
    | some k, some p => if p < 256 then some { key := k, read := p == 1 } else none
    | _, _ => none
  | _ => none

def errStr : Option Err → String
  | none => "ok"
  | some (.task i) => s!"task:{i}"
  | some .stopped => "stopped"

def ran (s : State) : List Nat := (List.range s.n).filter (fun j => s.status j == .done)

def step (d : DState) (ws : List String) : DState × String :=
  match ws with
  | ["case", w] =>
    match w.toNat? with
    | some w => if 1 ≤ w ∧ w ≤ 64 then ({ s := init w, aborted := false, active := true }, "ok") else (d, "bad-op")
    | none => (d, "bad-op")
  | "run" :: ks =>
    if !d.active then (d, "bad-op") else
    match allSome (ks.map parseKey) with
    | none => (d, "bad-op")
    | some ks =>
      if d.aborted then (d, "skip") else
      if !isEnabled d.s (.run ks) then (d, "not-enabled") else
      let s1 := apply d.s (.run ks)
      match runViaFine d.s ks with
      | none => (d, "fine-refused")
      | some sf =>
      if !sameObs s1 sf then (d, "fine-mismatch") else
      match settle (s1.n + 2) s1 with
      | some s2 => ({ d with s := s2 }, s!"t={d.s.n} {obs s2}")
      | none => (d, "model-refused")
  | ["rel", r, f] =>
    if !d.active then (d, "bad-op") else
    match r.toNat?, f with
    | some r, "0" | some r, "1" =>
      if d.aborted then (d, "skip") else
      let rs := running d.s
      if rs.isEmpty then (d, "none") else
      let j := rs.getD (r % rs.length) 0
      let fail := f == "1"
      let st := Step.finish j fail (ready d.s j)
      if !isEnabled d.s st then (d, "not-enabled") else
      let p := (ready d.s j).length
      let free := d.s.workers - (rs.length - 1)
      let s1 := apply d.s st
      if s1.err.isNone && decide (2 ≤ p) && decide (free - d.s.queue.length < p) then
        ({ d with s := s1, aborted := true }, s!"rel={j} ambiguous")
      else
        match settle (s1.n + 2) s1 with
        | some s2 => ({ d with s := s2 }, s!"rel={j} {obs s2}")
        | none => (d, "model-refused")
    | _, _ => (d, "bad-op")
  | ["stop"] =>
    if !d.active then (d, "bad-op") else
    if d.aborted then (d, "skip") else
    if !isEnabled d.s .stop then (d, "not-enabled") else
    let s1 := apply d.s .stop
    match settle (s1.n + 2) s1 with
    | some s2 => ({ d with s := s2 }, obs s2)
    | none => (d, "model-refused")
  | ["wait"] =>
    if !d.active then (d, "bad-op") else
    if d.aborted then (d, "skip") else
    if d.s.waited.isSome then (d, "not-enabled") else
    if !isEnabled d.s .wait then (d, "notready") else
    let s1 := apply d.s .wait
    ({ d with s := s1 }, s!"wait={errStr s1.err} ran={setStr (ran s1)}")
  | ["free", a, b, c, e] =>
    -- free-running case: judged by the Go-side oracle only; nothing schedule dependent is printed
    match a.toNat?, b.toNat?, c.toNat?, e.toNat? with
    | some _, some w, some nt, some nk =>
      if 1 ≤ w ∧ w ≤ 64 ∧ 1 ≤ nt ∧ nt ≤ 200 ∧ 1 ≤ nk ∧ nk ≤ 16 then ({ d with active := false }, "ok") else (d, "bad-op")
    | _, _, _, _ => (d, "bad-op")
  | _ => (d, "bad-op")

def machine : Machine :=
  { σ := DState, init := { s := init 1, aborted := false, active := false }, step := step }
end Driver.C08

def main : IO Unit := Driver.run Driver.C08.machine
