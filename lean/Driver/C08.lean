import Driver.Util
import HyperModel.Model.Executor
import HyperModel.Model.ExecutorFine
/-!
Driver for C08. Replays the protocol of the Go harness through the FINEST executor relation
(`Model/ExecutorFine.lean`: one step per critical section / atomic operation), every step
checked with `isEnabledF`; as long as no lock-hold op was used in a case the same ops are
also replayed through the coarse relation (`Model/Executor.lean`) and the two states are
compared (`coarse-mismatch` otherwise).

  case <workers>
  run <key>:<perm>…          perm = state.Permissions byte; read-only iff perm = 1
  rel <r> <fail 0|1> [| o…]  the (r mod #running)-th running body returns; `o…` = the order in
                             which the real executor sent the newly executable tasks
  hold <r>                   the harness takes the lock `t.l` of the r-th running task: its
                             notification section will block (its deregistrations still run)
  unhold [| o…]              releases that lock (the pending notification section runs)
  stop | wait
  free …                     free-running case (oracle only)

Printed after each op: running bodies, channel length, and a dump of the dependency state
(per task with keys that is not yet executed or still owns a key: counter, executed flag,
blocked set, readers set; and `nodes`).
-/
namespace Driver.C08
open HyperModel.Executor

structure DState where
  fs : FState
  cs : Option State
  held : Option Nat
  active : Bool

def setStr (l : List Nat) : String :=
  if l.isEmpty then "-" else ",".intercalate (l.map toString)

def running (s : State) : List Nat := (List.range s.n).filter (fun j => s.status j == .running)

def dump (s : State) : String :=
  let owns (j : Nat) : Bool := (List.range 16).any (fun k => s.nodes k == some j)
  let ts := (List.range s.n).filter (fun j => !(s.keys j).isEmpty && (!executed s j || owns j))
  let one (j : Nat) : String :=
    let b := (List.range s.n).filter (fun x => s.blocked j x)
    let r := (List.range s.n).filter (fun x => s.readers j x)
    s!"T{j}={s.deps j}/{if executed s j then 1 else 0}/{setStr b}/{setStr r}"
  let ns := (List.range 16).filterMap (fun k => (s.nodes k).map (fun o => s!"{k}:{o}"))
  " ".intercalate (ts.map one) ++ " N=" ++ (if ns.isEmpty then "-" else ",".intercalate ns)

def obs (s : State) : String := s!"started={setStr (running s)} q={s.queue.length} | {dump s}"

def isEnding (st : Status) : Bool :=
  match st with
  | .ending _ => true
  | _ => false

def stepF (fs : FState) (st : FStep) : Option FState :=
  if isEnabledF fs st then some (applyF fs st) else none

/-- worker steps until quiescence; the notification section of `held` stays pending -/
def settle : Nat → Option Nat → FState → Option FState
  | 0, _, fs => some fs
  | fuel + 1, held, fs =>
    let s := fs.s
    match (List.range s.n).find? (fun j => isEnding (s.status j) && some j != held) with
    | some j =>
      match s.reading j with
      | o :: _ => (stepF fs (.dereg j o)).bind (settle fuel held)
      | [] => (stepF fs (.notify j (ready s j))).bind (settle fuel held)
    | none =>
      match (List.range s.n).find? (fun j => s.status j == .dequeued) with
      | some j => (stepF fs (.check j)).bind (settle fuel held)
      | none =>
        match s.queue.head? with
        | some j =>
          if numBusy s < s.workers then (stepF fs (.dequeue j)).bind (settle fuel held) else some fs
        | none => some fs

def fuelOf (fs : FState) : Nat := 8 * fs.s.n + 16

def deregAll : Nat → Nat → FState → Option FState
  | 0, _, fs => some fs
  | fuel + 1, j, fs =>
    match fs.s.reading j with
    | o :: _ => (stepF fs (.dereg j o)).bind (deregAll fuel j)
    | [] => some fs

def fineKeys : Nat → FState → Option FState
  | 0, fs => some fs
  | n + 1, fs => (stepF fs .runKey).bind (fineKeys n)

/-- coarse relation: worker steps until quiescence -/
def settleC : Nat → State → Option State
  | 0, s => some s
  | fuel + 1, s =>
    match (enabled s).head? with
    | some (.start j) => if isEnabled s (.start j) then settleC fuel (apply s (.start j)) else none
    | some (.skip j o) => if isEnabled s (.skip j o) then settleC fuel (apply s (.skip j o)) else none
    | _ => some s

def stepC (cs : Option State) (st : Step) : Option (Option State) :=
  match cs with
  | none => some none
  | some s => if isEnabled s st then (settleC (s.n + 3) (apply s st)).map some else none

def sameObs (a b : State) : Bool :=
  a.n == b.n && a.queue == b.queue && a.err == b.err && a.waited == b.waited &&
  (List.range 16).all (fun k => a.nodes k == b.nodes k) &&
  (List.range a.n).all (fun j => a.status j == b.status j && a.deps j == b.deps j &&
    a.keys j == b.keys j &&
    (List.range a.n).all (fun d => a.blocked d j == b.blocked d j && a.readers d j == b.readers d j &&
      ((a.reading j).contains d == (b.reading j).contains d)))

def parseKey (w : String) : Option KeyReq :=
  match w.splitOn ":" with
  | [k, p] =>
    match k.toNat?, p.toNat? with
    | some k, some p => if k < 16 ∧ p < 256 then some { key := k, read := p == 1 } else none
    | _, _ => none
  | _ => none

def errStr : Option Err → String
  | none => "ok"
  | some (.task i) => s!"task:{i}"
  | some .stopped => "stopped"

def ran (s : State) : List Nat := (List.range s.n).filter (fun j => s.status j == .done)
def skippedL (s : State) : List Nat := (List.range s.n).filter (fun j => s.status j == .skipped)

/-- `a b c | x,y` → (["a","b","c"], some [x,y]) -/
def splitOrder (ws : List String) : List String × Option (List Nat) :=
  match ws.span (· != "|") with
  | (pre, []) => (pre, none)
  | (pre, _ :: rest) =>
    match rest with
    | [] => (pre, some [])
    | [o] => if o == "-" then (pre, some []) else
        match allSome ((o.splitOn ",").map String.toNat?) with
        | some l => (pre, some l)
        | none => (pre, none)
    | _ => (pre, none)

/-- would `Run(ks)` need the lock that the harness holds? -/
def needsHeld (s : State) (held : Option Nat) (ks : List KeyReq) : Bool :=
  match held with
  | none => false
  | some h => ks.any fun kr =>
      match s.nodes kr.key with
      | some lt => lt == h || (!kr.read && s.readers lt h)
      | none => false

def finishOp (d : DState) (fs1 : FState) (cs1 : Option State) (pre : String) : DState × String :=
  match settle (fuelOf fs1 * 4) d.held fs1 with
  | none => (d, "model-refused")
  | some fs2 =>
    match cs1 with
    | some c => if sameObs c fs2.s then ({ d with fs := fs2, cs := some c }, pre ++ obs fs2.s)
                else (d, "coarse-mismatch")
    | none => ({ d with fs := fs2, cs := none }, pre ++ obs fs2.s)

def step (d : DState) (ws0 : List String) : DState × String :=
  let (ws, ord) := splitOrder ws0
  match ws with
  | ["case", w] =>
    match w.toNat? with
    | some w =>
      if 1 ≤ w ∧ w ≤ 64 then
        ({ fs := fInit w (if w % 2 == 0 then 64 else 1048576), cs := some (init w), held := none, active := true }, "ok")
      else (d, "bad-op")
    | none => (d, "bad-op")
  | "run" :: ks =>
    if !d.active then (d, "bad-op") else
    match allSome (ks.map parseKey) with
    | none => (d, "bad-op")
    | some ks =>
      if !keysNodup ks then (d, "bad-op") else
      if d.fs.s.waited.isSome then (d, "not-enabled") else
      if needsHeld d.fs.s d.held ks then (d, "blocked-by-hold") else
      match (stepF d.fs (.runBegin ks)).bind (fineKeys ks.length) |>.bind (fun f => stepF f .runEnd) with
      | none => (d, "model-refused")
      | some fs1 =>
        match stepC d.cs (.run ks) with
        | none => (d, "coarse-refused")
        | some cs1 => finishOp d fs1 cs1 s!"t={d.fs.s.n} "
  | ["rel", r, f] =>
    if !d.active then (d, "bad-op") else
    match r.toNat?, f with
    | some r, "0" | some r, "1" =>
      if d.fs.s.waited.isSome then (d, "not-enabled") else
      let rs := running d.fs.s
      if rs.isEmpty then (d, "none") else
      let j := rs.getD (r % rs.length) 0
      let fail := f == "1"
      if (match d.held with | some h => fail || (d.fs.s.reading j).contains h | none => false) then
        (d, "blocked-by-hold") else
      match (stepF d.fs (.finish j fail)).bind (deregAll (d.fs.s.n + 1) j) with
      | none => (d, "model-refused")
      | some fs1 =>
        if d.held == some j then finishOp d fs1 none s!"rel={j} " else
        let order := ord.getD (ready fs1.s j)
        match stepF fs1 (.notify j order) with
        | none => (d, "order-refused")
        | some fs2 =>
          match stepC d.cs (.finish j fail order) with
          | none => (d, "coarse-refused")
          | some cs1 => finishOp d fs2 cs1 s!"rel={j} "
    | _, _ => (d, "bad-op")
  | ["hold", r] =>
    if !d.active then (d, "bad-op") else
    match r.toNat? with
    | some r =>
      if d.fs.s.waited.isSome then (d, "not-enabled") else
      let rs := running d.fs.s
      if rs.isEmpty || d.held.isSome || d.fs.s.err.isSome then (d, "none") else
      let j := rs.getD (r % rs.length) 0
      if (d.fs.s.keys j).isEmpty then (d, "none") else
      ({ d with held := some j, cs := none }, s!"held={j}")
    | none => (d, "bad-op")
  | ["unhold"] =>
    if !d.active then (d, "bad-op") else
    match d.held with
    | none => (d, "none")
    | some j =>
      let d1 := { d with held := none }
      if isEnding (d.fs.s.status j) then
        let order := ord.getD (ready d.fs.s j)
        match stepF d.fs (.notify j order) with
        | none => (d, "order-refused")
        | some fs1 => finishOp d1 fs1 none s!"unheld={j} "
      else finishOp d1 d.fs none s!"unheld={j} "
  | ["stop"] =>
    if !d.active then (d, "bad-op") else
    if d.fs.s.waited.isSome then (d, "not-enabled") else
    if d.held.isSome then (d, "blocked-by-hold") else
    match stepF d.fs .stop, stepC d.cs .stop with
    | some fs1, some cs1 => finishOp d fs1 cs1 ""
    | _, _ => (d, "model-refused")
  | ["wait"] =>
    if !d.active then (d, "bad-op") else
    if d.fs.s.waited.isSome then (d, "not-enabled") else
    if d.held.isSome then (d, "notready") else
    match stepF d.fs .wait with
    | none => (d, "notready")
    | some fs1 =>
      ({ d with fs := fs1, cs := none },
        s!"wait={errStr fs1.s.err} ran={setStr (ran fs1.s)} skipped={setStr (skippedL fs1.s)}")
  | ["free", a, b, c, e] =>
    -- free-running case: judged by the Go-side oracle only; nothing schedule dependent is printed
    match a.toNat?, b.toNat?, c.toNat?, e.toNat? with
    | some _, some w, some nt, some nk =>
      if 1 ≤ w ∧ w ≤ 64 ∧ 1 ≤ nt ∧ nt ≤ 200 ∧ 1 ≤ nk ∧ nk ≤ 16 then ({ d with active := false }, "ok") else (d, "bad-op")
    | _, _, _, _ => (d, "bad-op")
  | _ => (d, "bad-op")

def machine : Machine :=
  { σ := DState, init := { fs := fInit 1 1, cs := none, held := none, active := false }, step := step }
end Driver.C08

def main : IO Unit := Driver.run Driver.C08.machine
