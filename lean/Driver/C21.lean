import Driver.Snow
/-! C21: line-protocol driver = the shared `snow.VM` model machine (`Driver/Snow.lean`). -/
def main : IO Unit := Driver.run Driver.Snow.machine
