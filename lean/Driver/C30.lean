import Driver.Util
import HyperModel.Model.API
namespace Driver.C30
open HyperModel.API

/-- number of accounts in the harness universe -/
def nAcc : Nat := 6

structure St where
  s : State

def parseNats (ws : List String) : Option (List Nat) := allSome (ws.map String.toNat?)

def pairs : List Nat → Option (List (Nat × Nat))
  | [] => some []
  | t :: v :: r => (pairs r).map ((t, v) :: ·)
  | _ => none

def showOut (o : Out) : String := ":".intercalate (o.map toString)

def showRes : Res → String
  | .ok o => "ok " ++ showOut o
  | .err e => s!"err{e}"
  | .perm => "perm"

def showReply (r : Reply) : String :=
  let outs := " ".intercalate (r.1.map showOut)
  let outs := if r.1.isEmpty then "-" else outs
  match r.2 with
  | none => s!"ok {outs}"
  | some e => s!"fail {outs} {showRes e}"

def showScope (sc : Scope) : String :=
  let ks := (List.range nAcc).filter fun k => sc k ≠ Perm.none
  if ks.isEmpty then "-" else ",".intercalate (ks.map fun k => s!"{k}:{(sc k).toNat}")

def stateOf (bals : List Nat) : State := fun k =>
  match bals[k]? with
  | some b => if b = 0 then none else some b
  | none => none


/-! test actions: 4 tokens per action `K<k:perm,…> R<k,…> W<k=v,…> E<0|1>` (`-` = empty list) -/

def splitList (s : String) : List String := if s == "-" || s == "" then [] else s.splitOn ","

def pairOf (sep : String) (s : String) : Option (Nat × Nat) :=
  match s.splitOn sep with
  | [a, b] => match a.toNat?, b.toNat? with
    | some a, some b => some (a, b)
    | _, _ => none
  | _ => none

structure TA where
  ks : List (Key × Perm)
  err : Bool
  reads : List Key
  writes : List (Key × Val)

def parseTAs : List String → Option (List TA)
  | [] => some []
  | k :: r :: w :: e :: rest =>
    match k.toList, r.toList, w.toList, e with
    | 'K' :: ks, 'R' :: rs, 'W' :: wsx, e =>
      match allSome ((splitList (String.ofList ks)).map (pairOf ":")),
            allSome ((splitList (String.ofList rs)).map String.toNat?),
            allSome ((splitList (String.ofList wsx)).map (pairOf "=")),
            parseTAs rest with
      | some ks, some rs, some wsx, some tl =>
        if e == "E0" || e == "E1" then
          some ({ ks := ks.map fun (a, b) => (a, Perm.ofNat b), err := e == "E1", reads := rs, writes := wsx } :: tl)
        else none
      | _, _, _, _ => none
    | _, _, _, _ => none
  | _ => none

def taAction (t : TA) : Action := testAction t.ks t.err t.reads t.writes

def showTReply (r : Reply) : String :=
  match r.2 with
  | none => s!"ok {r.1.length}"
  | some e => s!"fail {r.1.length} {showRes e}"

def tstep (st : St) (ws : List String) : Option (St × String) :=
  match ws with
  | ["tstate", kv] =>
    match allSome ((splitList kv).map (pairOf "=")) with
    | some kvs => some ({ s := fun k => (kvs.find? (·.1 == k)).map (·.2) }, "ok")
    | none => none
  | "texec" :: rest =>
    (parseTAs rest).bind fun tas => if tas.isEmpty then none else
      match executeActionsRPC st.s (tas.map taAction) with
      | none => some (st, "rpc-err")
      | some r => some (st, showTReply r)
  | "tsim" :: rest =>
    (parseTAs rest).bind fun tas => if tas.isEmpty then none else
      match simulateActions st.s (tas.map fun t => (taAction t).prog) with
      | none => some (st, "err")
      | some rs => some (st, " ".intercalate (rs.map fun (_, sc) => showScope sc))
  | "ttx" :: rest =>
    (parseTAs rest).bind fun tas => if tas.isEmpty then none else
      match onchainTx some Scope.empty st.s (tas.map taAction) with
      | .tooMany => some (st, "too-many")
      | .unpayable => some (st, "unpayable")
      | .executed r => some (st, showTReply r)
  | _ => none

/-
  reset <b0> … <b5>                         → ok            (0 = no balance key)
  exec <actor> (<to> <value>)*              → ok <s:r>… | fail <outs so far> <err>
  sim  <actor> (<to> <value>)*              → err | <s:r>/<key:perm,…> …
  tx   <actor> <price> <fee> (<to> <value>)* → unpayable | ok … | fail …
-/
def step (st : St) (ws : List String) : St × String :=
  match tstep st ws with
  | some r => r
  | none =>
  match ws with
  | "reset" :: bs =>
    match parseNats bs with
    | some bals => if bals.length = nAcc then ({ s := stateOf bals }, "ok") else (st, "bad-op")
    | none => (st, "bad-op")
  | "exec" :: a :: rest =>
    match a.toNat?, (parseNats rest).bind pairs with
    | some a, some ps =>
      if ps.isEmpty then (st, "bad-op") else
      match executeActionsRPC st.s (ps.map fun (t, v) => transfer a t v) with
      | none => (st, "rpc-err")
      | some r => (st, showReply r)
    | _, _ => (st, "bad-op")
  | "sim" :: a :: rest =>
    match a.toNat?, (parseNats rest).bind pairs with
    | some a, some ps =>
      if ps.isEmpty then (st, "bad-op") else
      match simulateActions st.s (ps.map fun (t, v) => transferProg a t v) with
      | none => (st, "err")
      | some rs => (st, " ".intercalate (rs.map fun (o, sc) => showOut o ++ "/" ++ showScope sc))
    | _, _ => (st, "bad-op")
  | "tx" :: a :: _price :: fee :: rest =>
    match a.toNat?, fee.toNat?, (parseNats rest).bind pairs with
    | some a, some fee, some ps =>
      if ps.isEmpty then (st, "bad-op") else
      match onchainTx (deductFee a fee) (sponsorKeys a) st.s (ps.map fun (t, v) => transfer a t v) with
      | .tooMany => (st, "too-many")
      | .unpayable => (st, "unpayable")
      | .executed r => (st, showReply r)
    | _, _, _ => (st, "bad-op")
  | _ => (st, "bad-op")

def machine : Machine := { σ := St, init := { s := fun _ => none }, step := step }
end Driver.C30

def main : IO Unit := Driver.run Driver.C30.machine
