import Driver.Util
import HyperModel.Model.ChainIndex
namespace Driver.C19
open HyperModel.ChainIndex

/-- the harness' test block: id = be64 h ++ [salt] ++ 23 zero bytes, bytes = be64 h ++ [salt] -/
def mkBlock (h salt : Nat) : Block :=
  { id := be64 h ++ [UInt8.ofNat salt] ++ List.replicate 23 0,
    height := h, bytes := be64 h ++ [UInt8.ofNat salt] }

def resStr : Res → String
  | .ok => "ok"
  | .notfound => "notfound"

def dumpStr (db : DB) : String :=
  let es := dump db
  if es.isEmpty then "empty" else
  " ".intercalate (es.map fun (k, v) => toHex k ++ "=" ++ toHex v)

def optHex : Option Bytes → String
  | none => "nf"
  | some b => toHex b

def optNat : Option Nat → String
  | none => "nf"
  | some n => toString n

def parseU64 (s : String) : Option Nat :=
  match s.toNat? with
  | some n => if n < two64 then some n else none
  | none => none

/-- State: the open index (`none` before the first `new` or after a failed `New`). -/
abbrev St := Option CI

def step (s : St) (ws : List String) : St × String :=
  match ws with
  | ["new", w] =>
    match parseU64 w with
    | some w =>
      let (c, r) := new w {}
      (if r = .ok then some c else none, resStr r ++ " " ++ dumpStr c.db)
    | none => (s, "bad-op")
  | ["restart", w] =>
    match parseU64 w, s with
    | some w, some c =>
      let (c', r) := new w c.db
      -- a failed New leaves the database as it is; the harness keeps the old handle closed
      (if r = .ok then some c' else some { c with db := c'.db }, resStr r ++ " " ++ dumpStr c'.db)
    | some _, none => (s, "no-index")
    | none, _ => (s, "bad-op")
  | ["accept", h, salt] =>
    match parseU64 h, parseU64 salt, s with
    | some h, some salt, some c =>
      if salt ≥ 256 then (s, "bad-op") else
      let (c', r) := updateLastAccepted true c (mkBlock h salt)
      (some c', resStr r ++ " " ++ dumpStr c'.db)
    | some _, some _, none => (s, "no-index")
    | _, _, _ => (s, "bad-op")
  | ["save", h, salt] =>
    match parseU64 h, parseU64 salt, s with
    | some h, some salt, some c =>
      if salt ≥ 256 then (s, "bad-op") else
      let (c', r) := saveHistorical c (mkBlock h salt)
      (some c', resStr r ++ " " ++ dumpStr c'.db)
    | some _, some _, none => (s, "no-index")
    | _, _, _ => (s, "bad-op")
  | ["q", h, salt] =>
    match parseU64 h, parseU64 salt, s with
    | some h, some salt, some c =>
      if salt ≥ 256 then (s, "bad-op") else
      let b := mkBlock h salt
      (s, "byH=" ++ optHex (getBlockByHeight c h) ++ " idAt=" ++ optHex (getBlockIDAtHeight c h)
        ++ " hOf=" ++ optNat (getBlockIDHeight c b.id) ++ " blk=" ++ optHex (getBlock c b.id)
        ++ " last=" ++ optNat (getLast c))
    | some _, some _, none => (s, "no-index")
    | _, _, _ => (s, "bad-op")
  | _ => (s, "bad-op")

def machine : Machine := { σ := St, init := none, step := step }
end Driver.C19

def main : IO Unit := Driver.run Driver.C19.machine
