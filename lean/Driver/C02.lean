import Driver.BlockCommon
import HyperModel.Model.Builder
/-!
Driver for C02. Line protocol:

* `build <nkeys> <minprices> <max> <target> <txsSizeCap> <parentHeight> <minEmptyBlockGap> <parentFeeState> <prices>`  → `ok`
     (`prices`: what `ComputeNext` yields for this parent — a parameter of the model, C13)
     (the parent is 5000 ms older than the build on both sides)
* `parent <k>=<v> ...`                                                   → `ok`
* `mtx <id> <sponsor> <pre> <units> <keys> <prog> <size> <dup 0|1>`      mempool entry, stream order → `ok`
* `run 1 <id,id,...|->`   build with one core; the list is the observed processing order
     → `ok txs=.. post=.. h=.. res=.. consumed=.. restored=..` | `builderr`
* `par <cores> <id,id,...|-|!>`  multi-core build; the list is the *emitted* block (`!` = build error):
     the model verifies that block (`verify`: replay check, execSeq, metadata)
     → `ok post=.. h=.. res=.. prices=.. consumed=..` | `verify-fails` | `builderr`
-/
namespace Driver.C02
open HyperModel.BlockExec HyperModel.Builder Driver.C01

structure St where
  nkeys : Nat := 0
  prices : Dims := []
  maxUnits : Dims := []
  target : Dims := []
  cap : Nat := 0
  parentHeight : Nat := 0
  minEmptyGap : Nat := 750
  parent : List (Nat × Nat) := []
  mtxs : List (Tx × Bool) := []

def hkK : Nat := 1000
def tkK : Nat := 1001
def fkK : Nat := 1002

def ctxOf (s : St) : BCtx :=
  { parent := fun k => if k = hkK then some s.parentHeight else if k = tkK then some 1000
      else if k = fkK then some 0 else s.parent.lookup k
    prices := s.prices, maxUnits := s.maxUnits, targetUnits := s.target, targetTxsSize := s.cap,
    minBlockGap := 100, minEmptyBlockGap := s.minEmptyGap, parentHeight := s.parentHeight, parentTs := 1000,
    parentFee := 0, now := 6000, hk := hkK, tk := tkK, fk := fkK, feeEnc := fun _ _ _ => 1,
    seen := fun id => s.mtxs.any (fun m => m.2 && m.1.id == id) }

def chunksAux (n : Nat) : Nat → List Tx → List (List Tx)
  | 0, l => if l.isEmpty then [] else [l]
  | fuel + 1, l =>
    if l.length ≤ n then (if l.isEmpty then [] else [l])
    else l.take n :: chunksAux n fuel (l.drop n)

/-- `mempool.Stream(streamBatch)` until empty -/
def chunks (n : Nat) (l : List Tx) : List (List Tx) := chunksAux n l.length l

/-- the executor's schedule: the observed order first, everything unobserved after it -/
def schedOf (order : List Nat) (enq : List Tx) : List (Tx × Bool) :=
  (order.filterMap (fun id => enq.find? (·.id == id))).map (·, false) ++
    (enq.filter (fun t => !order.contains t.id)).map (·, true)

def showIds (l : List Nat) : String :=
  if l.isEmpty then "-" else ",".intercalate (l.map toString)

def step (s : St) (ws : List String) : St × String :=
  match ws with
  | ["build", n, _minp, m, t, cap, ph, mg, _pf, p] =>
    match n.toNat?, parseNats "," p, parseNats "," m, parseNats "," t, cap.toNat?, ph.toNat?, mg.toNat? with
    | some n, some p, some m, some t, some cap, some ph, some mg =>
      if mg < 100 || (mg > 3000 && mg < 30000) then (s, "bad-op") else
      ({ nkeys := n, prices := p, maxUnits := m, target := t, cap := cap, parentHeight := ph, minEmptyGap := mg }, "ok")
    | _, _, _, _, _, _, _ => (s, "bad-op")
  | "parent" :: kvs =>
    match allSome (kvs.map (parseKVal "=")) with
    | some l => ({ s with parent := l }, "ok")
    | none => (s, "bad-op")
  | ["mtx", id, sp, pre, units, keys, prog, size, dup] =>
    match parseTx id sp pre units keys prog size with
    | some t =>
      if dup == "0" || dup == "1" then ({ s with mtxs := s.mtxs ++ [(t, dup == "1")] }, "ok")
      else (s, "bad-op")
    | none => (s, "bad-op")
  | ["run", "1", order] =>
    match parseNats "," order with
    | none => (s, "bad-op")
    | some order =>
      let c := ctxOf s
      match build c (schedOf order) (chunks 256 (s.mtxs.map (·.1))) with
      | none => (s, "builderr")
      | some b =>
        let post := applyDiff c.parent b.diff
        let rest := ((b.restorable.filter (·.preOk)).map (·.id)).mergeSort (· ≤ ·)
        (s, s!"ok txs={showIds (b.txs.map (·.id))} post={showPost s.nkeys post} h={showOpt (post hkK)} res={showResults b.results} prices={showDims c.prices} consumed={showDims b.consumed} restored={showIds rest}")
  | ["par", cores, emitted] =>
    match cores.toNat? with
    | none => (s, "bad-op")
    | some _ =>
      if emitted == "!" then (s, "builderr") else
      match parseNats "," emitted with
      | none => (s, "bad-op")
      | some ids =>
        match allSome (ids.map (fun id => (s.mtxs.find? (·.1.id == id)).map (·.1))) with
        | none => (s, "bad-op")
        | some txs =>
          let c := ctxOf s
          let b : Built := { txs := txs, height := c.parentHeight + 1, ts := c.now, diff := emptyDiff,
                             results := [], consumed := [], restorable := [] }
          match verify c b with
          | none => (s, "verify-fails")
          | some v =>
            (s, s!"ok post={showPost s.nkeys v.post} h={showOpt (v.post hkK)} res={showResults v.results} prices={showDims c.prices} consumed={showDims v.consumed}")
  | _ => (s, "bad-op")

def machine : Machine := { σ := St, init := {}, step := step }
end Driver.C02

def main : IO Unit := Driver.run Driver.C02.machine
