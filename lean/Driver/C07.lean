import Driver.TxCommon
/-! Driver of C07: one `c07` line = one transaction through the three inclusion decisions
(harness/chain/zz_verif_c07_test.go). Time is relative: now = 0, expiry = tsoff. -/
namespace Driver.C07
open Driver Driver.TxCommon HyperModel.Tx

def rules : Rules := {}
def h : Handler := .pfx [3]
def univ : List Key := [[0xaa, 0, 1]]

def step (_ : Unit) (ws : List String) : Unit × String :=
  match ws with
  | ["c07", prices, units, maxU, sponsor, bal, maxFee, tsoff, scope, actions] =>
    match parseDims prices, parseDims units, parseDims maxU, parseHex sponsor, parseNat maxFee,
      parseInt tsoff, parseScope scope, parseActions actions with
    | some prices, some units, some maxU, some sponsor, some maxFee, some tsoff, some scope, some actions =>
      let balv : Option (Option Nat) := if bal == "-" then some none else (parseNat bal).map some
      match balv with
      | none => ((), "bad-op")
      | some balv =>
      if sponsor.length != 33 || (actions.isEmpty && !scope.isEmpty) || maxFee ≥ u64 then ((), "bad-op") else
      let tx : Tx := { sponsor, actions, units := some units, maxFee, chainID := rules.chainID, timestamp := tsoff }
      let sc := scopeOf scope [(h.key sponsor, permWrite)]
      let cur : Store := match balv with
        | none => fun _ => none
        | some b => upd (fun _ => none) (h.key sponsor) (some (encU64 b))
      let zero := [0, 0, 0, 0, 0]
      let adm := match preExecute rules h prices tx { cur, scope := sc } 0 with
        | none => "ok"
        | some e => "err:" ++ e.name
      let proc := match processorAccepts rules h prices 0 sc zero maxU tx cur with
        | some r => s!"ok:{r.fee}"
        | none => "err"
      let build := match builderIncludes rules h prices 0 sc zero maxU tx cur with
        | some r => s!"inc:{r.fee}"
        | none => "skip"
      ((), s!"adm={adm} proc={proc} build={build}")
    | _, _, _, _, _, _, _, _ => ((), "bad-op")
  | _ => ((), "bad-op")

def machine : Machine := { σ := Unit, init := (), step := step }
end Driver.C07

def main : IO Unit := Driver.run Driver.C07.machine
