import Driver.TxCommon
/-! Driver of C07 (harness/chain/zz_verif_c07_test.go). Time is relative: now = 0, expiry = tsoff.
`c07`: one transaction through admission (units under the rules at admission), processor and
builder (units under the block's rules). `blk`: several transactions through the builder's loop
with block limits. -/
namespace Driver.C07
open Driver Driver.TxCommon HyperModel.Tx

def rules : Rules := {}
def h : Handler := .pfx [3]
def addr (i : Nat) : Addr := [UInt8.ofNat i] ++ List.replicate 31 0 ++ [UInt8.ofNat (16 + i)]
def zero : List Nat := [0, 0, 0, 0, 0]

def parseBal (s : String) : Option (Option Nat) :=
  if s == "-" then some none else (parseNat s).bind fun n => if n < u64 then some (some n) else none

def withBal (m : Store) (a : Addr) : Option Nat → Store
  | none => m
  | some b => upd m (h.key a) (some (encU64 b))

def c07 (ws : List String) : String :=
  match ws with
  -- `_fm` (the parent block's fee state) only determines `prices` (the next block's unit prices,
  -- an input of the model; the fee market is C13)
  | [prices, units1, units2, _r2, maxU, sponsor, bal, maxFee, tsoff, scope, actions, dup, authok, _fm] =>
    if (dup != "0" && dup != "1") || (authok != "0" && authok != "1") then "bad-op" else
    match parseDims prices, parseDims units1, parseDims units2, parseDims maxU, parseHex sponsor,
      parseNat maxFee, parseInt tsoff, parseScope scope, parseActions actions, parseBal bal with
    | some prices, some units1, some units2, some maxU, some sponsor, some maxFee, some tsoff,
      some scope, some actions, some balv =>
      if sponsor.length != 33 || (actions.isEmpty && !scope.isEmpty) || maxFee ≥ u64 then "bad-op" else
      let mk (u : List Nat) : Tx :=
        { sponsor, actions, units := some u, maxFee, chainID := rules.chainID, timestamp := tsoff }
      let sc := scopeOf scope [(h.key sponsor, permWrite)]
      let cur : Store := withBal (fun _ => none) sponsor balv
      let adm := match admitOutcome rules h prices 0 sc (dup == "1") (authok == "1") (mk units1) cur with
        | none => "ok"
        | some e => "err:" ++ e.name
      if dup == "1" || authok == "0" then s!"adm={adm} proc=na build=na" else
      let proc := match processorOutcome rules h prices 0 sc zero maxU (mk units2) cur with
        | .ok (_, _, r) => s!"ok:{r.fee}"
        | .error e => "err:" ++ e.name
      let build := match builderAbort rules h prices 0 (sc, mk units2) ({ parent := cur }, zero) with
        | some e => "abort:" ++ e.name
        | none => match builderIncludes rules h prices 0 sc zero maxU (mk units2) cur with
          | some r => s!"inc:{r.fee}"
          | none => "skip"
      s!"adm={adm} proc={proc} build={build}"
    | _, _, _, _, _, _, _, _, _, _ => "bad-op"
  | _ => "bad-op"

def parseBlkTx (s : String) : Option ((Key → Nat) × Tx) :=
  match splitC s "/" with
  | [sp, units, maxFee, tsoff, scope, actions] =>
    match parseNat sp, parseDims units, parseNat maxFee, parseInt tsoff, parseScope scope, parseActions actions with
    | some sp, some units, some maxFee, some tsoff, some scope, some actions =>
      if sp > 1 || maxFee ≥ u64 || (actions.isEmpty && !scope.isEmpty) then none else
      let sponsor := addr (sp + 1)
      some (scopeOf scope [(h.key sponsor, permWrite)],
            { sponsor, actions, units := some units, maxFee, chainID := rules.chainID, timestamp := tsoff })
    | _, _, _, _, _, _ => none
  | _ => none

def balString (m : Store) (a : Addr) : String :=
  match m (h.key a) with
  | none => "-"
  | some v => toString ((decU64 v).getD 0)

def blk (ws : List String) : String :=
  match ws with
  | [prices, maxU, b1, b2, txs] =>
    match parseDims prices, parseDims maxU, parseBal b1, parseBal b2, allSome ((splitC txs ";").map parseBlkTx) with
    | some prices, some maxU, some b1, some b2, some txs =>
      if txs.isEmpty then "bad-op" else
      let parent := withBal (withBal (fun _ => none) (addr 1) b1) (addr 2) b2
      match builderBlock rules h prices 0 maxU txs ({ parent }, zero) with
      | .error e => "abort:" ++ e.name
      | .ok out =>
      let inc := out.2.map fun o => if o.isSome then "1" else "0"
      let fs := out.2.map fun o => match o with | some r => toString r.fee | none => "-"
      let vis := out.1.1.visible
      s!"inc={",".intercalate inc} fees={",".intercalate fs} bals={balString vis (addr 1)},{balString vis (addr 2)}"
    | _, _, _, _, _ => "bad-op"
  | _ => "bad-op"

def step (_ : Unit) (ws : List String) : Unit × String :=
  match ws with
  | "c07" :: rest => ((), c07 rest)
  | "blk" :: rest => ((), blk rest)
  | _ => ((), "bad-op")

def machine : Machine := { σ := Unit, init := (), step := step }
end Driver.C07

def main : IO Unit := Driver.run Driver.C07.machine
