import Driver.Util
import HyperModel.Model.Balance
namespace Driver.C34
open HyperModel.Balance

def natBytes (s : String) : Option (List Nat) := (parseHex s).map (·.map (·.toNat))
def asText (b : List Nat) : String := String.ofList (b.map Char.ofNat)

/-- `fmt <uint64 decimal>` → the text;  `parse <hex of the string's bytes>` → `ok <n>` | `syntax` | `range` -/
def step (_ : Unit) (ws : List String) : Unit × String :=
  match ws with
  | ["fmt", n] =>
    match n.toNat? with
    | some n => if n < 2 ^ 64 then ((), asText (formatBalance n)) else ((), "bad-op")
    | none => ((), "bad-op")
  | ["parse", s] =>
    match natBytes s with
    | some s =>
      match parseBalance s with
      | .ok v => ((), "ok " ++ toString v)
      | .error .syntax => ((), "syntax")
      | .error .range => ((), "range")
    | none => ((), "bad-op")
  | _ => ((), "bad-op")

def machine : Machine := { σ := Unit, init := (), step := step }
end Driver.C34

def main : IO Unit := Driver.run Driver.C34.machine
