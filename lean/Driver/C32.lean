import Driver.Util
import HyperModel.Model.Pubsub
namespace Driver.C32
open HyperModel.Pubsub

def natBytes (s : String) : Option (List Nat) := (parseHex s).map (·.map (·.toNat))

/-- FNV-1a 64 -/
def fnv (b : List Nat) : UInt64 :=
  b.foldl (fun h x => (h ^^^ UInt64.ofNat x) * 1099511628211) 14695981039346656037

/-- the harness' deterministic message: byte i = (seed + 7 i + i / 256) mod 256 -/
def mkMsg (len seed : Nat) : List Nat :=
  (List.range len).map fun i => (seed + 7 * i + i / 256) % 256

def showDec : Option (List Bytes) → String
  | none => "err"
  | some ms =>
    toString ms.length ++ "/" ++ toString (fnv ms.flatten) ++ "/" ++
      ",".intercalate ((ms.take 6).map fun m => toString m.length)

def showBatch (b : Bytes) : String :=
  "batch len=" ++ toString b.length ++ " fnv=" ++ toString (fnv b) ++ " dec=" ++ showDec (decodeBatch b)

def showRes : Res → String
  | .ok => "ok" | .closed => "closed" | .tooLarge => "toolarge"
  | .empty => "empty" | .eof => "eof" | .notArmed => "notarmed" | .batch b => showBatch b

def showOut (s : State) (o : Out) : String :=
  showRes o.res ++ " ps=" ++ toString s.pendingSize ++ " np=" ++ toString s.pending.length ++
    " q=" ++ toString s.queue.length ++ " fl=" ++
    (match o.flush with
     | none => "none"
     | some f => if f.delivered then "enq" else "drop") ++
    " arm=" ++ (if s.timerArmed then "1" else "0")

abbrev St := Option (Cfg × State)

def apply (st : St) (op : Op) : St × String :=
  match st with
  | none => (none, "bad-op")
  | some (c, s) =>
    let (s', o) := step c s op
    (some (c, s'), showOut s' o)

def step (st : St) (ws : List String) : St × String :=
  match ws with
  | ["new", cap, mx] =>
    match cap.toNat?, mx.toNat? with
    | some cap, some mx => (some (⟨cap, mx⟩, init), "ok")
    | _, _ => (st, "bad-op")
  | ["send", len, seed] =>
    match len.toNat?, seed.toNat? with
    | some len, some seed => apply st (.send (mkMsg len seed))
    | _, _ => (st, "bad-op")
  | ["fire"] => apply st .fire
  | ["close"] => apply st .close
  | ["recv"] => apply st .recv
  | ["late"] => apply st .late
  | ["dec", h] =>
    match natBytes h with
    | some b => (st, showDec (decodeBatch b))
    | none => (st, "bad-op")
  | _ => (st, "bad-op")

def machine : Machine := { σ := St, init := none, step := step }
end Driver.C32

def main : IO Unit := Driver.run Driver.C32.machine
