import Driver.BlockCommon
/-!
Driver for C01. Line protocol (one output line per op line):

* `block <nkeys> <p0,..,p4> <m0,..,m4>`   start a block: universe size, unit prices, max block units → `ok`
* `parent <k>=<v> ...`                      parent state over the universe (absent keys omitted)  → `ok`
* `tx <id> <sponsor> <pre 0|1> <u0,..,u4> <k:p,...|-> <prog|->` append a tx → `ok`
     prog: actions separated by `/`, ops by `,`; op = `g<k>` | `p<k>=<v>` | `d<k>` | `f`; `e` = empty action
* `exec <cores> <fetchers>`                 run `execSeq` (the core counts are the implementation's business)
     → `ok post=<k>:<v|_>,.. res=<r>|<r>.. consumed=<..>`  or `err`
-/
namespace Driver.C01
open HyperModel.BlockExec

def step (s : St) (ws : List String) : St × String :=
  match ws with
  | ["block", n, p, m] =>
    match n.toNat?, parseNats "," p, parseNats "," m with
    | some n, some p, some m => ({ nkeys := n, prices := p, maxUnits := m }, "ok")
    | _, _, _ => (s, "bad-op")
  | "parent" :: kvs =>
    match allSome (kvs.map (parseKVal "=")) with
    | some l => ({ s with parent := l }, "ok")
    | none => (s, "bad-op")
  | ["tx", id, sp, pre, units, keys, prog] =>
    match parseTx id sp pre units keys prog with
    | some t => ({ s with txs := s.txs ++ [t] }, "ok")
    | none => (s, "bad-op")
  | ["exec", cores, fetch] =>
    match cores.toNat?, fetch.toNat? with
    | some _, some _ =>
      let c := ctxOf s
      match execSeq c with
      | none => (s, "err")
      | some (d, rs, u) =>
        (s, s!"ok post={showPost s.nkeys (applyDiff c.parent d)} res={showResults rs} prices={showDims c.prices} consumed={showDims u}")
    | _, _ => (s, "bad-op")
  | _ => (s, "bad-op")

def machine : Machine := { σ := St, init := {}, step := step }
end Driver.C01

def main : IO Unit := Driver.run Driver.C01.machine
