import Driver.Util
import HyperModel.Model.Crash
/-! Driver for C18: replays `chain N` / `crash a p k` through `HyperModel.Crash`. -/
namespace Driver.C18
open HyperModel.Crash

def list (xs : List Nat) : String := if xs.isEmpty then "-" else ",".intercalate (xs.map toString)

def fullBlock : List Ev := [.writeResults, .commitState, .notifyA, .notifyB]

/-- events of the harness' crash child: accept `a` blocks, process `1..k-1`, stop block `k` at point `p` -/
def crashEvents (a p k : Nat) : List Ev :=
  if p = 1 then
    -- consensus stopped inside the index write of block a: nothing of block a happened
    (List.replicate (a - 1) [Ev.indexUpdate, Ev.enqueue]).flatten ++ (List.replicate (a - 1) fullBlock).flatten
  else
  (List.replicate a [Ev.indexUpdate, Ev.enqueue]).flatten
  ++ (List.replicate (k - 1) fullBlock).flatten
  ++ fullBlock.take (p - 2)

def showOutcome : Outcome → String
  | .ok la re => s!"restart=ok la={la} re={list re} reB={list re}"
  | .errIndexAhead => "restart=err-index-ahead la=- re=- reB=-"
  | .errResults => "restart=err-results-height la=- re=- reB=-"
  | .panicNil => "restart=panic-nil la=- re=- reB=-"

def step (st : Option Nat) (ws : List String) : Option Nat × String :=
  match ws with
  | ["chain", n] =>
    match n.toNat? with
    | some n =>
      if n < 1 ∨ n > 24 then (st, "bad-op") else
      let node := HyperModel.Crash.run Node.init (crashEvents n 6 n)
      (some n, s!"ok n={n} notified={list node.notifiedA} notifiedB={list node.notifiedB}")
    | none => (st, "bad-op")
  | ["crash", a, p, k] =>
    match st, a.toNat?, p.toNat?, k.toNat? with
    | some n, some a, some p, some k =>
      if k < 1 ∨ k > a ∨ a > n ∨ p < 1 ∨ p > 6 ∨ a - k > 17 ∨ (p = 1 ∧ k ≠ a) then (st, "bad-op") else
      let node := HyperModel.Crash.run Node.init (crashEvents a p k)
      let res := match node.p.res with | some r => toString r | none => "-1"
      (st, s!"idx={node.p.idx} st={node.p.st} res={res} pre={list node.notifiedA} preB={list node.notifiedB} " ++ showOutcome (restart node.p))
    | _, _, _, _ => (st, "bad-op")
  | _ => (st, "bad-op")

def machine : Machine := { σ := Option Nat, init := none, step := step }
end Driver.C18

def main : IO Unit := Driver.run Driver.C18.machine
