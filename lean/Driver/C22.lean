import Driver.Util
import HyperModel.Model.Backfill
namespace Driver.C22
open HyperModel.ValidityWindow HyperModel.Backfill

structure St where
  W : Int := 0
  univ : Nat := 0
  failAt : Option Nat := none
  blocks : List (Nat × Block) := []
  inIdx : List Nat := []
  target : Option Block := none
  sync : Option Sync := none

def St.block? (s : St) (id : Nat) : Option Block := s.blocks.lookup id
def St.index (s : St) : Index := fun id => if s.inIdx.contains id then s.blocks.lookup id else none
def St.fuel (s : St) : Nat := s.blocks.length + 2

def encodeNat (n : Nat) : Raw := (List.range 8).map fun i => UInt8.ofNat (n / 256 ^ (7 - i) % 256)
def decodeNat (r : Raw) : Nat := r.foldl (fun a b => a * 256 + b.toNat) 0

/-- The harness's `BlockParser`: exactly 8 bytes naming a known block. -/
def St.parse (s : St) : Raw → Option Block := fun r =>
  if r.length = 8 then s.blocks.lookup (decodeNat r) else none

/-- ancestors-or-self of `b` through the full block table (the real chain), nearest first -/
def chainOf (blocks : List (Nat × Block)) : Nat → Block → List Block
  | 0, b => [b]
  | f + 1, b => if b.height = 0 then [b] else
    match blocks.lookup b.parent with
    | some p => b :: chainOf blocks f p
    | none => [b]

/-- what an honest peer answers to a request for `height`: up to `k` blocks of the target's
chain at heights `height, height-1, …` -/
def St.honest (s : St) (height k : Nat) : List Raw :=
  match s.target with
  | none => []
  | some t =>
    let ch := chainOf s.blocks s.fuel t
    ((List.range k).filterMap fun i =>
      if i ≤ height then ch.find? (fun b => b.height == height - i) else none).map (fun b => encodeNat b.id)

def parseTxs : List String → Option (List Tx)
  | [] => some []
  | [_] => none
  | a :: b :: rest =>
    match a.toNat?, b.toInt?, parseTxs rest with
    | some i, some e, some l => some ({ id := i, expiry := e } :: l)
    | _, _, _ => none

def natList (l : List Nat) : String :=
  if l.isEmpty then "-" else ",".intercalate (l.map toString)

def parseTok (t : String) : Option Raw :=
  if t.startsWith "b" then (t.drop 1).toString.toNat?.map encodeNat
  else if t.startsWith "x" then parseHex (t.drop 1).toString
  else none

def step (s : St) (ws : List String) : St × String :=
  match ws with
  | ["reset", w, u, fa] =>
    match w.toInt?, u.toNat?, fa.toInt? with
    | some w, some u, some fa =>
      ({ W := w, univ := u, failAt := if fa < 0 then none else some fa.toNat }, "ok")
    | _, _, _ => (s, "bad-op")
  | "blk" :: id :: par :: ts :: h :: n :: rest =>
    match id.toNat?, par.toNat?, ts.toInt?, h.toNat?, n.toNat?, parseTxs rest with
    | some id, some par, some ts, some h, some n, some txs =>
      if txs.length ≠ n then (s, "bad-op") else
      ({ s with blocks := (id, { id := id, parent := par, ts := ts, height := h, txs := txs }) :: s.blocks }, "ok")
    | _, _, _, _, _, _ => (s, "bad-op")
  | ["idx+", id] =>
    match id.toNat? with
    | some id => ({ s with inIdx := id :: s.inIdx }, "ok")
    | none => (s, "bad-op")
  | ["start", id] =>
    match id.toNat? >>= s.block? with
    | some t =>
      let v := newWindow s.index s.W s.fuel t
      let sy := Sync.start s.index s.W v s.fuel t
      let out := match sy.client with
        | none => "done"
        | some c => s!"fetch oldest={c.last.id} min={c.min}"
      ({ s with target := some t, sync := some sy }, out)
    | none => (s, "bad-op")
  | "resp" :: mn :: kind :: rest =>
    -- `<min>` = the value minTimestamp holds after this fetch, `=` = whatever the syncer stored
    match (if mn == "=" then some none else mn.toInt?.map some), s.sync with
    | some mn, some sy =>
      let reqH := match sy.client with | some c => c.reqHeight | none => 0
      let resp? : Option Resp :=
        match kind, rest with
        | "err", [] => some .err
        | "honest", [k] => k.toNat?.map fun k => .blocks (s.honest reqH k)
        | "blocks", toks => (allSome (toks.map parseTok)).map .blocks
        | _, _ => none
      match resp? with
      | none => (s, "bad-op")
      | some resp =>
        let out := if s.failAt.isSome then "-" else if sy.fwdDone then "closed" else
          match sy.client with
          | none => "closed"
          | some c => if c.isClosed true then "closed" else s!"req {c.reqHeight} {c.reqMin}"
        let sy' := sy.step true s.parse s.failAt { newMin := sy.effMin mn, resp := resp }
        ({ s with sync := some sy' }, out)
    | _, _ => (s, "bad-op")
  | ["target", id] =>
    match id.toNat? >>= s.block?, s.sync with
    | some t, some sy =>
      let sy' := sy.target s.W t
      ({ s with sync := some sy', target := some t }, s!"done={sy'.done true}")
    | _, _ => (s, "bad-op")
  | ["end"] =>
    match s.sync with
    | some sy =>
      let ids := (List.range s.univ).filter sy.vw.seen.contains
      (s, s!"done={sy.done true} failed={sy.failed} saved={natList (sy.saved.map (·.id))} la={sy.vw.lastAccepted} seen={natList ids}")
    | none => (s, "bad-op")
  | _ => (s, "bad-op")

def machine : Machine := { σ := St, init := {}, step := step }
end Driver.C22

def main : IO Unit := Driver.run Driver.C22.machine
