import Driver.Util
import HyperModel.Model.Estimate
/-!
Driver for C14.  One op per generated transaction:

`case auth=<name> ts=<int> chain=<hex32> fee=<nat> rules=<base,kr,vr,ka,va,kw,vw> a=<payload>:<compute>:<key+key|-> …
      alen=<n> bw=<n> ac=<n> aac=<n> sp=<c,c|-> spk=<key+key|-> sz=<n,n|->`

A key token is `<name>/<maxChunks>`; a token starting with `@` is a key derived from the action id
(the real key is name ++ actionID): the model key is the action id followed by the token.
`sz` are the byte lengths of the actions, `alen` the length
of the real auth bytes, `bw`/`ac` = `authFactory.MaxUnits()`, `aac` = `auth.ComputeUnits`.
Output: `est=<b,c,r,a,w|err> units=<b,c,r,a,w|err>`.
-/
namespace Driver.C14
open HyperModel.Canoto HyperModel.Estimate

structure Act where
  size : Nat
  compute : Nat
  keys : List Bytes

structure Auth where
  len : Nat
  compute : Nat
  sponsorKeys : List Bytes

def strBytes (s : String) : Bytes := s.toUTF8.toList

/-- `name/chunks` ↦ chunks -/
def chunksOf (k : Bytes) : Nat :=
  let s := String.ofList (k.map fun b => Char.ofNat b.toNat)
  match s.splitOn "/" with
  | [_, c] => c.toNat?.getD 0
  | _ => 0

def env : Env Act Auth :=
  { pa := { parse := fun _ => none, bytes := fun a => List.replicate a.size 0 }
    pu := { parse := fun _ => none, bytes := fun a => List.replicate a.len 0 }
    compute := (·.compute)
    keys := fun a id => a.keys.map fun k => if k.head? == some (UInt8.ofNat 64) then id ++ k else k
    -- CreateActionID(txID, i): distinct per (txID, i); ids.Empty = zeros 32; ToID(tx) ≠ ids.Empty
    actionID := fun tx i => strBytes (if tx == emptyID then "E" else "T") ++ strBytes s!"#{i}~"
    txID := fun _ => strBytes "T"
    chunks := chunksOf
    authCompute := (·.compute), sponsorKeys := (·.sponsorKeys) }

def natsCSV (s : String) : Option (List Nat) :=
  if s == "-" then some [] else allSome ((s.splitOn ",").map String.toNat?)

def keysOf (s : String) : List Bytes :=
  if s == "-" then [] else (s.splitOn "+").map strBytes

def le8 (n : Nat) : Bytes := (List.range 8).map fun i => UInt8.ofNat (n / 256 ^ i % 256)

def kv (ws : List String) (k : String) : Option String :=
  (ws.find? (·.startsWith (k ++ "="))).map fun w => (w.drop (k.length + 1)).toString

def showDims : Option Dims → String
  | none => "err"
  | some d => s!"{d.bandwidth},{d.compute},{d.read},{d.allocate},{d.write}"

def parseAct (w : String) (size : Nat) : Option Act :=
  match w.splitOn ":" with
  | [_, c, ks] => c.toNat?.map fun c => { size, compute := c, keys := keysOf ks }
  | _ => none

def zipActs : List String → List Nat → Option (List Act)
  | [], [] => some []
  | w :: ws, s :: ss => match parseAct w s, zipActs ws ss with
    | some a, some as => some (a :: as)
    | _, _ => none
  | _, _ => none

def run (ws : List String) : Option String := do
  let ts ← (← kv ws "ts").toInt?
  let chain ← parseHex (← kv ws "chain")
  let fee ← (← kv ws "fee").toNat?
  let rs ← natsCSV (← kv ws "rules")
  let alen ← (← kv ws "alen").toNat?
  let bw ← (← kv ws "bw").toNat?
  let ac ← (← kv ws "ac").toNat?
  let aac ← (← kv ws "aac").toNat?
  let sp ← natsCSV (← kv ws "sp")
  let spk := keysOf (← kv ws "spk")
  let sz ← natsCSV (← kv ws "sz")
  let aws := (ws.filter (·.startsWith "a=")).map fun w => (w.drop 2).toString
  let acts ← zipActs aws sz
  match rs with
  | [b, kr, vr, ka, va, kw, vw] =>
    let r : Rules := { baseCompute := b, keyRead := kr, valRead := vr, keyAlloc := ka, valAlloc := va,
                       keyWrite := kw, valWrite := vw, sponsorChunks := sp }
    let t : Tx Act Auth :=
      { base := { timestamp := ts, chainID := chain, maxFee := le8 fee }, actions := acts,
        auth := { len := alen, compute := aac, sponsorKeys := spk } }
    some s!"est={showDims (estimateUnits env r acts bw ac)} units={showDims (units env r t)}"
  | _ => none

def step (_ : Unit) (ws : List String) : Unit × String :=
  match ws with
  | "case" :: rest => ((), (run rest).getD "bad-op")
  | _ => ((), "bad-op")

def machine : Machine := { σ := Unit, init := (), step := step }
end Driver.C14

def main : IO Unit := Driver.run Driver.C14.machine
