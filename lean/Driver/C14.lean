import Driver.Util
import HyperModel.Model.Estimate
/-!
Driver for C14.  One op per generated transaction:

`case auth=<name> ts=<int> chain=<hex32> fee=<nat> rules=<base,kr,vr,ka,va,kw,vw> a=<payload>:<compute>:<key+key|-> …
      alen=<n> bw=<n> ac=<n> aac=<n> sp=<c,c|-> spk=<key+key|-> sz=<n,n|->`

A key token is `<name>/<maxChunks>`; a token starting with `@` is a key derived from the action id
(the real key is name ++ actionID): the model key is the action id followed by the token.
`sz` are the byte lengths of the actions, `alen` the length
of the real auth bytes, `bw`/`ac` = `authFactory.MaxUnits()`, `aac` = `auth.ComputeUnits`.
`faddr`/`actor` are `authFactory.Address()` and `tx.Auth.Actor()` (hex, used as opaque strings).
Output: `est=<b,c,r,a,w|err> units=<b,c,r,a,w|err>`.
`gen <same tokens> prices=<p0,..,p4> win=<ms>` runs the model of `GenerateTransaction` at timestamp `ts`:
`maxfee=<n> units=<…|err> fee=<n|err>` or `err`.
-/
namespace Driver.C14
open HyperModel.Canoto HyperModel.Estimate

structure Act where
  size : Nat
  compute : Nat
  keys : List Bytes

structure Auth where
  len : Nat
  compute : Nat
  sponsorKeys : List Bytes
  actor : Bytes

def strBytes (s : String) : Bytes := s.toUTF8.toList

/-- `name/chunks` ↦ chunks; a token containing `!` is a malformed key (shorter than 2 bytes) -/
def chunksOf (k : Bytes) : Option Nat :=
  if k.contains (UInt8.ofNat 33) then none else
  let s := String.ofList (k.map fun b => Char.ofNat b.toNat)
  match s.splitOn "/" with
  | [_, c] => c.toNat?
  | _ => none

def env : Env Act Auth :=
  { pa := { parse := fun _ => none, bytes := fun a => List.replicate a.size 0 }
    pu := { parse := fun _ => none, bytes := fun a => List.replicate a.len 0 }
    compute := (·.compute)
    -- `@name/c`: key derived from the action id; `%name/c`: key derived from the actor
    keys := fun a actor id => a.keys.map fun k =>
      if k.head? == some (UInt8.ofNat 64) then id ++ k
      else if k.head? == some (UInt8.ofNat 37) then actor ++ k else k
    actor := (·.actor)
    -- CreateActionID(txID, i): distinct per (txID, i); ids.Empty = zeros 32; ToID(tx) ≠ ids.Empty
    actionID := fun tx i => strBytes (if tx == emptyID then "E" else "T") ++ strBytes s!"#{i}~"
    txID := fun _ => strBytes "T"
    chunks := chunksOf
    authCompute := (·.compute), sponsorKeys := (·.sponsorKeys) }

def natsCSV (s : String) : Option (List Nat) :=
  if s == "-" then some [] else allSome ((s.splitOn ",").map String.toNat?)

def keysOf (s : String) : List Bytes :=
  if s == "-" then [] else (s.splitOn "+").map strBytes


def kv (ws : List String) (k : String) : Option String :=
  (ws.find? (·.startsWith (k ++ "="))).map fun w => (w.drop (k.length + 1)).toString

def showDims : Option Dims → String
  | none => "err"
  | some d => s!"{d.bandwidth},{d.compute},{d.read},{d.allocate},{d.write}"

def parseAct (w : String) (size : Nat) : Option Act :=
  match w.splitOn ":" with
  | [_, c, ks] => c.toNat?.map fun c => { size, compute := c, keys := keysOf ks }
  | _ => none

def zipActs : List String → List Nat → Option (List Act)
  | [], [] => some []
  | w :: ws, s :: ss => match parseAct w s, zipActs ws ss with
    | some a, some as => some (a :: as)
    | _, _ => none
  | _, _ => none

structure Case where
  ts : Int
  chain : Bytes
  fee : Nat
  r : Rules
  acts : List Act
  auth : Auth
  faddr : Bytes
  bw : Nat
  ac : Nat

def parseCase (ws : List String) : Option Case := do
  let ts ← (← kv ws "ts").toInt?
  let chain ← parseHex (← kv ws "chain")
  let fee ← (← kv ws "fee").toNat?
  let rs ← natsCSV (← kv ws "rules")
  let alen ← (← kv ws "alen").toNat?
  let bw ← (← kv ws "bw").toNat?
  let ac ← (← kv ws "ac").toNat?
  let aac ← (← kv ws "aac").toNat?
  let sp ← natsCSV (← kv ws "sp")
  let spk := keysOf (← kv ws "spk")
  let sz ← natsCSV (← kv ws "sz")
  let faddr := strBytes (← kv ws "faddr")
  let actor := strBytes (← kv ws "actor")
  let aws := (ws.filter (·.startsWith "a=")).map fun w => (w.drop 2).toString
  let acts ← zipActs aws sz
  match rs with
  | [b, kr, vr, ka, va, kw, vw] =>
    some { ts, chain, fee, acts, faddr, bw, ac
           r := { baseCompute := b, keyRead := kr, valRead := vr, keyAlloc := ka, valAlloc := va,
                  keyWrite := kw, valWrite := vw, sponsorChunks := sp }
           auth := { len := alen, compute := aac, sponsorKeys := spk, actor } }
  | _ => none

/-- `case …`: EstimateUnits and Units of the transaction signed over the given base -/
def run (ws : List String) : Option String := do
  let c ← parseCase ws
  let t : Tx Act Auth :=
    { base := { timestamp := c.ts, chainID := c.chain, maxFee := le64 c.fee }, actions := c.acts, auth := c.auth }
  some s!"est={showDims (estimateUnits env c.r c.acts c.faddr c.bw c.ac)} units={showDims (units env c.r t)}"

def showOpt : Option Nat → String
  | none => "err"
  | some n => toString n

/-- `gen … prices=<5 nums> win=<validity window>`: the real `GenerateTransaction` at timestamp
`ts`, then Units and fee of the generated transaction under the same rules and prices -/
def runGen (ws : List String) : Option String := do
  let c ← parseCase ws
  let ps ← natsCSV (← kv ws "prices")
  let win ← (← kv ws "win").toNat?
  match ps with
  | [p0, p1, p2, p3, p4] =>
    let prices : Dims := ⟨p0, p1, p2, p3, p4⟩
    let rs : RuleSource :=
      { rulesAt := fun _ => c.r, chainID := fun _ => c.chain
        expiry := fun t => let x := t + (win : Int); x - x % 1000 }
    let fac : Factory Auth := { sign := fun _ => c.auth, address := c.faddr, maxBandwidth := c.bw, maxCompute := c.ac }
    match generateTransaction env rs prices c.ts c.acts fac with
    | none => some "err"
    | some t =>
      let u := units env c.r t
      let fee := match u with | some u => mulSumChecked prices u | none => none
      some s!"maxfee={ofLE64 t.base.maxFee} units={showDims u} fee={showOpt fee}"
  | _ => none

def step (_ : Unit) (ws : List String) : Unit × String :=
  match ws with
  | "case" :: rest => ((), (run rest).getD "bad-op")
  | "gen" :: rest => ((), (runGen rest).getD "bad-op")
  | _ => ((), "bad-op")

def machine : Machine := { σ := Unit, init := (), step := step }
end Driver.C14

def main : IO Unit := Driver.run Driver.C14.machine
