import Driver.Util
import HyperModel.Model.ValidityWindow
namespace Driver.C09
open HyperModel.ValidityWindow

structure St where
  W : Int := 0
  univ : Nat := 0
  blocks : List (Nat × Block) := []
  inIdx : List Nat := []
  vw : Option VW := none

def St.block? (s : St) (id : Nat) : Option Block := s.blocks.lookup id

def St.index (s : St) : Index := fun id =>
  if s.inIdx.contains id then s.blocks.lookup id else none

def St.fuel (s : St) : Nat := s.blocks.length + 2

def parseTxs : List String → Option (List Tx)
  | [] => some []
  | [_] => none
  | a :: b :: rest =>
    match a.toNat?, b.toInt?, parseTxs rest with
    | some i, some e, some l => some ({ id := i, expiry := e } :: l)
    | _, _, _ => none

def insertSorted (x : Nat) : List Nat → List Nat
  | [] => [x]
  | y :: ys => if x ≤ y then x :: y :: ys else y :: insertSorted x ys

def sortNat (l : List Nat) : List Nat := l.foldr insertSorted []

def natList (l : List Nat) : String :=
  if l.isEmpty then "-" else ",".intercalate (l.map toString)

def dump (s : St) (v : VW) : String :=
  let ids := (List.range s.univ).filter v.seen.contains
  s!"la={v.lastAccepted} seen={natList ids}"

def walkStr : Walk → String
  | .ok m => "ok " ++ natList (sortNat m)
  | .err m => "err " ++ natList (sortNat m)

def step (s : St) (ws : List String) : St × String :=
  match ws with
  | ["reset", w, u] =>
    match w.toInt?, u.toNat? with
    | some w, some u => ({ W := w, univ := u }, "ok")
    | _, _ => (s, "bad-op")
  | "blk" :: id :: par :: ts :: h :: n :: rest =>
    match id.toNat?, par.toNat?, ts.toInt?, h.toNat?, n.toNat?, parseTxs rest with
    | some id, some par, some ts, some h, some n, some txs =>
      if txs.length ≠ n then (s, "bad-op") else
      let b : Block := { id := id, parent := par, ts := ts, height := h, txs := txs }
      ({ s with blocks := (id, b) :: s.blocks }, "ok")
    | _, _, _, _, _, _ => (s, "bad-op")
  | ["idx+", id] =>
    match id.toNat? with
    | some id => ({ s with inIdx := id :: s.inIdx }, "ok")
    | none => (s, "bad-op")
  | ["idx-", id] =>
    match id.toNat? with
    | some id => ({ s with inIdx := s.inIdx.filter (· ≠ id) }, "ok")
    | none => (s, "bad-op")
  | ["new", id] =>
    match id.toNat? >>= s.block? with
    | some b =>
      let v := newWindow s.index s.W s.fuel b
      ({ s with vw := some v }, dump s v)
    | none => (s, "bad-op")
  | ["complete", id] =>
    match id.toNat? >>= s.block?, s.vw with
    | some b, some v =>
      let r := populate s.index s.W v s.fuel b
      ({ s with vw := some r.1 }, s!"full={r.2.2} n={r.2.1.length} " ++ dump s r.1)
    | _, _ => (s, "bad-op")
  | ["accept", id] =>
    match id.toNat? >>= s.block?, s.vw with
    | some b, some v => let v' := accept v b; ({ s with vw := some v' }, dump s v')
    | _, _ => (s, "bad-op")
  | ["hist", id] =>
    match id.toNat? >>= s.block?, s.vw with
    | some b, some v => let v' := acceptHistorical v b; ({ s with vw := some v' }, dump s v')
    | _, _ => (s, "bad-op")
  -- quiet variants for the chain-level tie (real chain.Processor / Accepter: `seen` is not observable)
  | ["new!", id] =>
    match id.toNat? >>= s.block? with
    | some b => ({ s with vw := some (newWindow s.index s.W s.fuel b) }, "ok")
    | none => (s, "bad-op")
  | ["complete!", id] =>
    match id.toNat? >>= s.block?, s.vw with
    | some b, some v =>
      let r := populate s.index s.W v s.fuel b
      ({ s with vw := some r.1 }, s!"full={r.2.2}")
    | _, _ => (s, "bad-op")
  | ["accept!", id] =>
    match id.toNat? >>= s.block?, s.vw with
    | some b, some v => ({ s with vw := some (accept v b) }, "ok")
    | _, _ => (s, "bad-op")
  | ["execute", id] =>
    match id.toNat? >>= s.block?, s.vw with
    | some b, some v => (s, executeVerdict s.index s.W v s.fuel b)
    | _, _ => (s, "bad-op")
  | ["verify", id] =>
    match id.toNat? >>= s.block?, s.vw with
    | some b, some v => (s, (verifyERP s.index s.W v s.fuel b).str)
    | _, _ => (s, "bad-op")
  | "isrepeat" :: par :: now :: n :: rest =>
    match par.toNat? >>= s.block?, now.toInt?, n.toNat?, parseTxs rest, s.vw with
    | some p, some now, some n, some txs, some v =>
      if txs.length ≠ n then (s, "bad-op") else
      (s, walkStr (isRepeatAPI s.index s.W v s.fuel p now txs))
    | _, _, _, _, _ => (s, "bad-op")
  | "build" :: par :: now :: n :: rest =>
    match par.toNat? >>= s.block?, now.toInt?, n.toNat?, parseTxs rest, s.vw with
    | some p, some now, some n, some txs, some v =>
      if txs.length ≠ n then (s, "bad-op") else
      match builderSelect s.index s.W v s.fuel p now txs with
      | some sel => (s, "built " ++ natList (sortNat (sel.map (·.id))))
      | none => (s, "built-none")
    | _, _, _, _, _ => (s, "bad-op")
  | _ => (s, "bad-op")

def machine : Machine := { σ := St, init := {}, step := step }
end Driver.C09

def main : IO Unit := Driver.run Driver.C09.machine
