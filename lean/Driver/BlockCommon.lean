import Driver.Util
import HyperModel.Model.BlockExec
/-! Parsing/printing shared by the C01 and C02 drivers. -/
namespace Driver.C01
open HyperModel.BlockExec

structure St where
  nkeys : Nat := 0
  prices : Dims := []
  maxUnits : Dims := []
  parent : List (Nat × Nat) := []
  txs : List Tx := []

def parseNats (sep : String) (s : String) : Option (List Nat) :=
  if s == "-" then some [] else allSome ((s.splitOn sep).map String.toNat?)

def parseKV (sep : String) (s : String) : Option (Nat × Nat) :=
  match s.splitOn sep with
  | [a, b] => match a.toNat?, b.toNat? with
    | some x, some y => some (x, y)
    | _, _ => none
  | _ => none

/-- values are 8-byte big-endian numbers (< 2^64) or the empty byte string, written `E` and
represented in the model by the value 2^64 (the model only compares values and parses balances,
and balances are never empty) -/
def emptyVal : Nat := 18446744073709551616

def parseKVal (sep : String) (s : String) : Option (Nat × Nat) :=
  match s.splitOn sep with
  | [a, b] => match a.toNat?, (if b == "E" then some emptyVal else b.toNat?) with
    | some x, some y => some (x, y)
    | _, _ => none
  | _ => none

def parseOp (s : String) : Option Op :=
  if s == "f" then some .fail
  else
    let body := (s.drop 1).toString
    if s.startsWith "g" then body.toNat?.map Op.get
    else if s.startsWith "d" then body.toNat?.map Op.del
    else if s.startsWith "p" then (parseKVal "=" body).map (fun (k, v) => Op.put k v)
    else if s.startsWith "P" then body.toNat?.map Op.putBig
    else none

def parseAction (s : String) : Option (List Op) :=
  if s == "e" then some [] else allSome ((s.splitOn ",").map parseOp)

def parseProg (s : String) : Option (List (List Op)) :=
  if s == "-" then some [] else allSome ((s.splitOn "/").map parseAction)

def parseKeys (s : String) : Option (List (Nat × Nat)) :=
  if s == "-" then some [] else allSome ((s.splitOn ",").map (parseKV ":"))

def parseTx (id sp pre units keys prog : String) (size : String := "0") : Option Tx :=
  match id.toNat?, sp.toNat?, parseNats "," units, parseKeys keys, parseProg prog, size.toNat? with
  | some id, some sp, some us, some ks, some pr, some sz =>
    if pre == "1" || pre.startsWith "0" then
      some { id := id, keys := ks, sponsor := sp, units := us, preOk := pre == "1", actions := pr, size := sz }
    else none
  | _, _, _, _, _, _ => none

def showOpt : Option Nat → String
  | some v => if v ≥ emptyVal then "E" else toString v
  | none => "_"

def showAct (a : List (Option Val)) : String :=
  if a.isEmpty then "e" else ".".intercalate (a.map showOpt)

def showDims (d : Dims) : String := ".".intercalate (d.map toString)

def showResult (r : Result) : String :=
  let st := match r.failed with
    | none => "ok"
    | some .scripted => "fs"
    | some .perm => "fp"
    | some .invalid => "fv"
  let outs := if r.outs.isEmpty then "-" else "/".intercalate (r.outs.map showAct)
  s!"{r.id}~{st}~{r.fee}~{showDims r.units}~{outs}"

def showResults (rs : List Result) : String :=
  if rs.isEmpty then "none" else "|".intercalate (rs.map showResult)

def showPost (n : Nat) (s : Store) : String :=
  ",".intercalate ((List.range n).map fun k => s!"{k}:{showOpt (s k)}")

def storeOf (l : List (Nat × Nat)) : Store := fun k => l.lookup k

def ctxOf (s : St) : Ctx :=
  { parent := storeOf s.parent, prices := s.prices, maxUnits := s.maxUnits, txs := s.txs }

end Driver.C01
