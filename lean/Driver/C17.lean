import Driver.Util
import HyperModel.Model.Sig
namespace Driver.C17
open HyperModel.Sig

def scheme? : String → Option Scheme
  | "ed25519" => some .ed25519
  | "secp256r1" => some .secp256r1
  | "bls" => some .bls
  | _ => none

def bit? : String → Option Bool
  | "0" => some false
  | "1" => some true
  | _ => none

def constGroup (pkv sigv : Bool) : Group := { validPk := fun _ => pkv, validSig := fun _ => sigv }

/-
  unm  <scheme> <auth bytes> <pkValid> <sigValid>         → ok <pk> <sig> | err-size | err-type | err-point
  addr <scheme> <pk> <id>                                  → <address hex>
  orig|mut <scheme> <kind> <pk> <sig> <msg> <pkValid> <sigValid> <groupOK>
                                                           → unm-fail | true | false
-/
def step (_ : Unit) (ws : List String) : Unit × String :=
  match ws with
  | ["unm", s, b, pv, sv] =>
    match scheme? s, parseHex b, bit? pv, bit? sv with
    | some s, some b, some pv, some sv =>
      match unmarshal (constGroup pv sv) s b with
      | .ok a => ((), s!"ok {toHex a.pk} {toHex a.sig}")
      | .error .size => ((), "err-size")
      | .error .typ => ((), "err-type")
      | .error .point => ((), "err-point")
    | _, _, _, _ => ((), "bad-op")
  | ["addr", s, pk, id] =>
    match scheme? s, parseHex pk, parseHex id with
    | some s, some _, some id => ((), toHex (address s id))
    | _, _, _ => ((), "bad-op")
  | [op, s, _kind, pk, sig, msg, pv, sv, g] =>
    if op ≠ "orig" ∧ op ≠ "mut" then ((), "bad-op") else
    match scheme? s, parseHex pk, parseHex sig, parseHex msg, bit? pv, bit? sv, bit? g with
    | some s, some pk, some sig, some _, some pv, some sv, some g =>
      -- the harness builds `typeID ‖ pk ‖ sig`, runs the real unmarshaler, then Auth.Verify
      match unmarshal (constGroup pv sv) s (marshal ⟨s, pk, sig⟩) with
      | .ok a => ((), toString (verify s a.sig g))
      | .error _ => ((), "unm-fail")
    | _, _, _, _, _, _, _ => ((), "bad-op")
  | _ => ((), "bad-op")

def machine : Machine := { σ := Unit, init := (), step := step }
end Driver.C17

def main : IO Unit := Driver.run Driver.C17.machine
