import Driver.Util
import HyperModel.Model.LargestSet
namespace Driver.C33
open HyperModel.LargestSet

def parseU64 (s : String) : Option Nat :=
  match s.toNat? with
  | some n => if n < two64 then some n else none
  | none => none

def chunk5 : List Nat → Option (List (List Nat))
  | [] => some []
  | a :: b :: c :: d :: e :: rest => (chunk5 rest).map ([a, b, c, d, e] :: ·)
  | _ => none

def csv (xs : List Nat) : String :=
  if xs.isEmpty then "-" else ",".intercalate (xs.map toString)

/-- `ls <limit: 5 uint64> <vector: 5 uint64>*` → `<count> <indices csv|-> <total csv>`;
`nd` → `fees.FeeDimensions` -/
def step (_ : Unit) (ws : List String) : Unit × String :=
  match ws with
  | ["nd"] => ((), toString feeDimensions)
  | "ls" :: args =>
    match allSome (args.map parseU64) with
    | some (l0 :: l1 :: l2 :: l3 :: l4 :: rest) =>
      match chunk5 rest with
      | some dims =>
        let (idx, tot) := largestSet dims [l0, l1, l2, l3, l4]
        ((), toString idx.length ++ " " ++ csv idx ++ " " ++ csv ((List.range feeDimensions).map (get tot)))
      | none => ((), "bad-op")
    | _ => ((), "bad-op")
  | _ => ((), "bad-op")

def machine : Machine := { σ := Unit, init := (), step := step }
end Driver.C33

def main : IO Unit := Driver.run Driver.C33.machine
