import Driver.Util
import HyperModel.Model.Prefix
namespace Driver.C39
open HyperModel.Prefix

/-- `conflict <height> <fee> <timestamp> <vm prefix>*` → `true|false` -/
def step (_ : Unit) (ws : List String) : Unit × String :=
  match ws with
  | "conflict" :: h :: f :: t :: vm =>
    match parseHex h, parseHex f, parseHex t, allSome (vm.map parseHex) with
    | some h, some f, some t, some vm => ((), toString (hasConflict h f t vm))
    | _, _, _, _ => ((), "bad-op")
  | _ => ((), "bad-op")

def machine : Machine := { σ := Unit, init := (), step := step }
end Driver.C39

def main : IO Unit := Driver.run Driver.C39.machine
