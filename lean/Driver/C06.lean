import Driver.TxCommon
import HyperModel.Model.Token
/-! Driver of C06: `reset m` / `xfer` lines (harness/examples/morpheusvm/actions/zz_verif_c06_test.go). -/
namespace Driver.C06
open Driver Driver.TxCommon HyperModel.Tx HyperModel.Token

def rules : Rules := {}

/-- the account of a balance key `[3] ++ addr ++ [0, 1]` -/
def addrOfKey (k : Key) : Addr := (k.drop 1).take (k.length - 3)

/-- the model's `total` over the accounts of the key universe -/
def sumOf (univ : List Key) (m : Store) : Nat :=
  total m (univ.eraseDups.map addrOfKey)

def parseTransfer (s : String) : Option Transfer :=
  match splitC s ":" with
  | [to, v, ml] => match parseHex to, parseNat v, parseNat ml with
    | some to, some v, some ml =>
      if to.length = 33 ∧ v < u64 ∧ ml ≤ 1000 then some { to, value := v, memoLen := ml } else none
    | _, _, _ => none
  | _ => none

def parseTransfers (s : String) : Option (List Transfer) :=
  if s == "none" then some [] else allSome ((splitC s "|").map parseTransfer)

def step (s : St) (ws : List String) : St × String :=
  match ws with
  | ["reset", h, u, i] =>
    match reset h u i with
    | some s' => if s'.h = .morpheus then (s', s!"ok sum={sumOf s'.univ s'.blk.visible}") else ({ s with live := false }, "bad-op")
    | none => ({ s with live := false }, "bad-op")
  | ["xfer", prices, units, sponsor, actor, now, ts, maxFee, transfers] =>
    match parseDims prices, parseDims units, parseHex sponsor, parseHex actor, parseInt now,
      parseInt ts, parseNat maxFee, parseTransfers transfers with
    | some prices, some units, some sponsor, some actor, some now, some ts, some maxFee, some trs =>
      if !s.live || sponsor.length != 33 || actor.length != 33 then (s, "bad-op") else
      let tx : Tx := { sponsor, actions := trs.map (Transfer.action actor), units := some units,
                       maxFee, chainID := rules.chainID, timestamp := ts }
      -- Transaction.StateKeys: union of Transfer.StateKeys (actor RW, To All) and the sponsor key (RW)
      let sc := scopeOf (trs.flatMap fun t => [(bkey actor, permWrite), (bkey t.to, permAll)])
                  [(bkey sponsor, permWrite)]
      let (b', o) := processTxB rules .morpheus prices now sc tx s.blk
      let done := match o with | .done _ => true | _ => false
      ({ (s.push prices now sc tx done) with blk := b' }, outcomeString s.univ b'.visible o ++ s!" sum={sumOf s.univ b'.visible} diff=" ++ diffString s.univ b')
    | _, _, _, _, _, _, _, _ => (s, "bad-op")
  | ["block"] =>
    if !s.live then (s, "bad-op") else
    let out := blockString rules s
    if s.mixed then (s, out) else
    let oks := (s.txs.filter fun x => x.2.2).map fun x => (x.1, x.2.1)
    let sum := match processorBlock rules .morpheus (s.prices.getD zeroUnits) s.now defaultMaxUnits oks
        ({ parent := s.blk.parent }, zeroUnits) with
      | .ok (st, _) => toString (sumOf s.univ st.1.visible)
      | .error _ => "-"
    (s, out ++ " sum=" ++ sum)
  | _ => (s, "bad-op")

def machine : Machine := { σ := St, init := {}, step := step }
end Driver.C06

def main : IO Unit := Driver.run Driver.C06.machine
