import Driver.Util
import HyperModel.Model.Workers
/-!
Driver for C26. Replays the gated protocol of the Go harness through the worker-pool
relation (repaired code): each op is one client step checked with `isEnabled`, followed by
the internal steps that `enabled` offers (all except `wFinish`, which only a `rel` op
triggers) until quiescence. Printed: running task bodies, jobs whose result is available,
whether `Stop` returned.

  pool <workers> <maxJobs>
  job | go <job> <fail 0|1> | done <job> [b|n] | rel <r> | stop | wait <job>
  (done … b: Done with a callback that blocks; done … n: with a callback that calls NewJob)
  serial <fail bits…>      SerialWorkers job: result and tasks run
-/
namespace Driver.C26
open HyperModel.Workers

structure DState where
  s : State
  active : Bool
  /-- `NewJob` calls blocked on the full queue (the step `newJob` is not enabled yet) -/
  pending : Nat
  /-- jobs whose `Done` callback calls `NewJob` (not fired yet). Callbacks run in their own
  goroutines, concurrently with the scheduler: they are client steps of the relation -/
  cbNew : List Nat

def setStr (l : List Nat) : String :=
  if l.isEmpty then "-" else ",".intercalate (l.map toString)

def runningTasks (s : State) : List Nat :=
  (List.range s.ntasks).filter fun t =>
    (List.range s.workers).any fun i => s.w i == .running t

def avail (s : State) : List Nat := (List.range s.njobs).filter fun j => (s.result j).isSome

def obs (s : State) : String :=
  s!"run={setStr (runningTasks s)} avail={setStr (avail s)} stop={if s.stop == .returned then 1 else 0} jobs={s.njobs}"

def isFinish : Step → Bool
  | .wFinish _ => true
  | _ => false

def settle : Nat → State → Option State
  | 0, s => some s
  | fuel + 1, s =>
    match ((enabled s).filter (fun st => !isFinish st)).head? with
    | some st => if isEnabled s st then settle fuel (apply s st) else none
    | none => some s

def fuelOf (s : State) : Nat := 8 * (s.ntasks + s.njobs + s.workers) + 64

/-- callbacks of completed jobs fire (a client `NewJob`: refused after Stop's flag, otherwise
pending until its step is enabled), blocked `NewJob`s go through as soon as enabled -/
def resolvePending : Nat → DState → Option DState
  | 0, d => some d
  | fuel + 1, d =>
    match d.cbNew.find? (fun j => d.s.completed j) with
    | some j =>
      let d1 := { d with cbNew := d.cbNew.filter (· != j) }
      if d.s.shouldShutdown then
        if isEnabled d.s .newJob then resolvePending fuel { d1 with s := apply d.s .newJob } else none
      else resolvePending fuel { d1 with pending := d1.pending + 1 }
    | none =>
      if d.pending > 0 && !d.s.shouldShutdown && isEnabled d.s .newJob then
        let s1 := apply d.s .newJob
        match settle (fuelOf s1) s1 with
        | some s2 => resolvePending fuel { d with s := s2, pending := d.pending - 1 }
        | none => none
      else some d

def client (d : DState) (st : Step) (pre : String) : DState × String :=
  if !isEnabled d.s st then (d, "not-enabled") else
  let s1 := apply d.s st
  match settle (fuelOf s1) s1 with
  | some s2 =>
    match resolvePending (2 * s2.njobs + 8) { d with s := s2 } with
    | some d2 => (d2, pre ++ obs d2.s)
    | none => (d, "model-refused")
  | none => (d, "model-refused")

def resStr : Option Res → String
  | none => "none"
  | some .ok => "ok"
  | some (.err t) => s!"err:{t}"
  | some .shutdown => "shutdown"

def parseBits : List String → Option (List Bool)
  | [] => some []
  | "0" :: r => (parseBits r).map (false :: ·)
  | "1" :: r => (parseBits r).map (true :: ·)
  | _ => none

def splitGroups (ws : List String) : List (List String) :=
  let r := ws.foldl (fun (acc : List (List String) × List String) w =>
    if w == "/" then (acc.1 ++ [acc.2], []) else (acc.1, acc.2 ++ [w])) ([], [])
  r.1 ++ [r.2]

/-- `Done(cb)`: kind 0 plain, 1 a callback that blocks (no effect on the pool: it runs in its
own goroutine), 2 a callback that calls `NewJob` once the job completed -/
def doneOp (d : DState) (j : String) (kind : Nat) : DState × String :=
  if !d.active then (d, "bad-op") else
  match j.toNat? with
  | some j =>
    if j ≥ d.s.njobs then (d, "nojob") else
    if d.s.closed j then (d, "closed") else
    if kind == 2 && (d.pending > 0 || !d.cbNew.isEmpty) then (d, "busy") else
    client (if kind == 2 then { d with cbNew := d.cbNew ++ [j] } else d) (.done j) ""
  | none => (d, "bad-op")

def step (d : DState) (ws : List String) : DState × String :=
  match ws with
  | ["pool", w, m] =>
    match w.toNat?, m.toNat? with
    | some w, some m =>
      if 1 ≤ w ∧ w ≤ 64 ∧ 1 ≤ m ∧ m ≤ 64 then ({ s := init true w m, active := true, pending := 0, cbNew := [] }, "ok") else (d, "bad-op")
    | _, _ => (d, "bad-op")
  | "serial" :: ws =>
    -- jobs (groups separated by "/") one after the other on one SerialWorkers: NewJob returns a
    -- fresh job, so every job is `serialRun` of its own task list
    let groups := splitGroups ws
    match allSome (groups.map parseBits) with
    | some gs =>
      let one (bs : List Bool) : String :=
        let j := serialRun ((List.range bs.length).zip bs)
        s!"res={resStr (match j.err with | none => some Res.ok | some t => some (Res.err t))} ran={setStr j.ran.reverse}"
      (d, " ; ".intercalate (gs.map one))
    | none => (d, "bad-op")
  | ["job"] =>
    if !d.active then (d, "bad-op") else
    if d.s.shouldShutdown then client d .newJob "shutdown "
    else if d.pending > 0 then (d, "busy")
    else if d.s.queue.length ≥ d.s.maxJobs && !d.cbNew.isEmpty then (d, "busy")
    else if d.s.queue.length ≥ d.s.maxJobs then ({ d with pending := 1 }, "pending " ++ obs d.s)
    else client d .newJob s!"j={d.s.njobs} "
  | ["go", j, f] =>
    if !d.active then (d, "bad-op") else
    match j.toNat?, f with
    | some j, "0" | some j, "1" =>
      if j ≥ d.s.njobs then (d, "nojob") else
      if d.s.closed j then (d, "closed") else
      if (d.s.chan j).length ≥ 32 then (d, "full") else
      client d (.go j (f == "1")) s!"t={d.s.ntasks} "
    | _, _ => (d, "bad-op")
  | ["done", j] => doneOp d j 0
  | ["done", j, "b"] => doneOp d j 1
  | ["done", j, "n"] => doneOp d j 2
  | ["rel", r] =>
    if !d.active then (d, "bad-op") else
    match r.toNat? with
    | some r =>
      let rs := runningTasks d.s
      if rs.isEmpty then (d, "none") else
      let t := rs.getD (r % rs.length) 0
      match (List.range d.s.workers).find? (fun i => d.s.w i == .running t) with
      | some i => client d (.wFinish i) s!"rel={t} "
      | none => (d, "model-refused")
    | none => (d, "bad-op")
  | ["stop"] =>
    if !d.active then (d, "bad-op") else
    if d.s.stop != .notCalled then (d, "again") else
    if d.pending > 0 then (d, "busy") else client d .stopFlag ""
  | ["wait", j] =>
    if !d.active then (d, "bad-op") else
    match j.toNat? with
    | some j =>
      if j ≥ d.s.njobs then (d, "nojob") else
      if (d.s.result j).isNone then (d, "notready") else
      client d (.wait j) s!"res={resStr (d.s.result j)} "
    | none => (d, "bad-op")
  | ["stress", a, b] =>
    -- free-running stress rounds: judged by the Go-side oracle only
    match a.toNat?, b.toNat? with
    | some w, some n =>
      if 2 ≤ w ∧ w ≤ 64 ∧ 1 ≤ n ∧ n ≤ 1000000 then ({ d with active := false }, "ok") else (d, "bad-op")
    | _, _ => (d, "bad-op")
  | ["free", a, b, c] =>
    -- free-running case: judged by the Go-side oracle only
    match a.toNat?, b.toNat?, c.toNat? with
    | some _, some w, some nj =>
      if 1 ≤ w ∧ w ≤ 64 ∧ 1 ≤ nj ∧ nj ≤ 32 then ({ d with active := false }, "ok") else (d, "bad-op")
    | _, _, _ => (d, "bad-op")
  | _ => (d, "bad-op")

def machine : Machine :=
  { σ := DState, init := { s := init true 1 1, active := false, pending := 0, cbNew := [] }, step := step }
end Driver.C26

def main : IO Unit := Driver.run Driver.C26.machine
