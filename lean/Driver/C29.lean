import Driver.Util
import HyperModel.Model.ABI
namespace Driver.C29
open HyperModel.ABI

def prim? : String → Option Prim
  | "u8" => some .u8 | "u16" => some .u16 | "u32" => some .u32 | "u64" => some .u64
  | "i8" => some .i8 | "i16" => some .i16 | "i32" => some .i32 | "i64" => some .i64
  | "str" => some .str | _ => none

def primTok : Prim → String
  | .u8 => "u8" | .u16 => "u16" | .u32 => "u32" | .u64 => "u64"
  | .i8 => "i8" | .i16 => "i16" | .i32 => "i32" | .i64 => "i64" | .str => "str"

def nameOf (s : String) : Name := if s == "-" then [] else s.toList
def nameStr (n : Name) : String := if n.isEmpty then "-" else String.ofList n

/-- json tag token: `~` = no tag, `=name` = tag whose first part is `name` (possibly empty) -/
def tag? (s : String) : Option (Option Name) :=
  if s == "~" then some none
  else match s.toList with
    | '=' :: r => some (some r)
    | _ => none

def bit? : String → Option Bool
  | "0" => some false | "1" => some true | _ => none

mutual
/-- prefix-token parser for the type syntax (fuel = number of tokens) -/
def parseTy : Nat → List String → Option (GoTy × List String)
  | 0, _ => none
  | fuel + 1, toks =>
    match toks with
    | [] => none
    | "bool" :: r => some (.bool, r)
    | "addr" :: r => some (.address, r)
    | "named" :: n :: r => (parseTy fuel r).map fun (t, r') => (.named (nameOf n) t, r')
    | "slice" :: r => (parseTy fuel r).map fun (t, r') => (.slice t, r')
    | "ptr" :: r => (parseTy fuel r).map fun (t, r') => (.ptr t, r')
    | "array" :: n :: r =>
      match n.toNat? with
      | some k => (parseTy fuel r).map fun (t, r') => (.array k t, r')
      | none => none
    | "map" :: r =>
      match parseTy fuel r with
      | some (k, r') => (parseTy fuel r').map fun (v, r'') => (.map k v, r'')
      | none => none
    | "struct" :: n :: k :: r =>
      match k.toNat? with
      | some k => (parseFields fuel k r).map fun (fs, r') => (.struct (nameOf n) fs, r')
      | none => none
    | w :: r => (prim? w).map fun p => (.prim p, r)
def parseFields : Nat → Nat → List String → Option (Fields × List String)
  | 0, _, _ => none
  | _, 0, toks => some (.nil, toks)
  | fuel + 1, k + 1, toks =>
    match toks with
    | g :: tg :: se :: em :: r =>
      match tag? tg, bit? se, bit? em, parseTy fuel r with
      | some tg, some se, some em, some (t, r') =>
        (parseFields fuel k r').map fun (fs, r'') =>
          (.cons { goName := nameOf g, jsonTag := tg, serialize := se, embedded := em } t fs, r'')
      | _, _, _, _ => none
    | _ => none
end

mutual
def showTy : GoTy → String
  | .prim p => primTok p
  | .bool => "bool"
  | .address => "addr"
  | .named n u => s!"named {nameStr n} {showTy u}"
  | .slice t => s!"slice {showTy t}"
  | .array n t => s!"array {n} {showTy t}"
  | .ptr t => s!"ptr {showTy t}"
  | .map k v => s!"map {showTy k} {showTy v}"
  | .struct n fs => s!"struct {nameStr n} {fs.toList.length}{showFields fs}"
def showFields : Fields → String
  | .nil => ""
  | .cons m t r =>
    let tg := match m.jsonTag with | none => "~" | some n => "=" ++ String.ofList n
    s!" {nameStr m.goName} {tg} {if m.serialize then 1 else 0} {if m.embedded then 1 else 0} {showTy t}{showFields r}"
end

def showFieldList (fl : List (Name × Name)) : String :=
  if fl.isEmpty then "-" else ",".intercalate (fl.map fun (a, b) => String.ofList a ++ ":" ++ String.ofList b)

def insertSorted (s : String) : List String → List String
  | [] => [s]
  | x :: r => if s < x then s :: x :: r else if s == x then x :: r else x :: insertSorted s r

def topName : GoTy → Name
  | .struct n _ => n
  | _ => []

/-
  fields <ty>  → panic | <name:type,…>          describeStruct of the top-level struct
  types  <ty>  → panic | sorted distinct names    the ABI type list of NewABI
  rt     <ty>  → err | panic | <shape>            getReflectType(name, NewABI(ty)) → shape
  nshape <ty>  → <shape>                          shape of the native type
-/
def step (_ : Unit) (ws : List String) : Unit × String :=
  match ws with
  | op :: toks =>
    match parseTy (toks.length + 1) toks with
    | some (t, []) =>
      match op with
      | "fields" =>
        match t with
        | .struct _ fs =>
          match describeFields fs with
          | some fl => ((), showFieldList fl)
          | none => ((), "panic")
        | _ => ((), "bad-op")
      | "types" =>
        match describe t with
        | some abi => ((), " ".intercalate ((abi.map fun a => String.ofList a.name).foldr insertSorted []))
        | none => ((), "panic")
      | "rt" =>
        match describe t with
        | none => ((), "panic")
        | some abi =>
          match reflectType abi (depth t + 1) (topName t) with
          | .ok d => ((), showTy (shape d))
          | .error .notFound => ((), "err")
          | .error .panic => ((), "panic")
      | "nshape" => ((), showTy (shape t))
      | _ => ((), "bad-op")
    | _ => ((), "bad-op")
  | _ => ((), "bad-op")

def machine : Machine := { σ := Unit, init := (), step := step }
end Driver.C29

def main : IO Unit := Driver.run Driver.C29.machine
