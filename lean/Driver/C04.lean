import Driver.TSM
/-! Driver for C04: the shared TState/Perm/Keys line machine (see `Driver/TSM.lean`). -/
def main : IO Unit := Driver.run Driver.TSM.machine
