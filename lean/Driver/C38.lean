import Driver.Util
import HyperModel.Model.Bond
/-! Driver for C38: replays the harness' op lines through `HyperModel.Bond`. -/
namespace Driver.C38
open HyperModel.Bond

/-- per-sequence driver state: the model node and the tx universe (index ↦ tx) -/
structure Seq where
  node : Node
  txs : List (Nat × Tx)

def parseU64 (s : String) : Option Nat :=
  match s.toNat? with
  | some n => if n < U64 then some n else none
  | none => none

def parseI64 (s : String) : Option Int :=
  match s.toInt? with
  | some n => if -9223372036854775808 ≤ n ∧ n ≤ 9223372036854775807 then some n else none
  | none => none

def findTx (q : Seq) (w : String) : Option Tx :=
  match parseU64 w with
  | some i => (q.txs.find? (·.1 == i)).map (·.2)
  | none => none

def joinOr (xs : List String) : String := if xs.isEmpty then "-" else ",".intercalate xs

def idxOf (_q : Seq) (t : Tx) : String := toString t.nonce

/-- ` p=<p0>,<p1> rec=<i:fee,…> heap=<i,…>` over the universe in ascending index order -/
def observe (q : Seq) : String :=
  let idxs := (List.range 251).filterMap (fun i => (q.txs.find? (·.1 == i)).map (·.2))
  let recs := idxs.filterMap (fun t => (getRec q.node.db.recs t).map (fun f => s!"{t.nonce}:{f}"))
  let heap := idxs.filterMap (fun t => if t ∈ q.node.heap then some (toString t.nonce) else none)
  s!" p={q.node.db.pending 0},{q.node.db.pending 1} rec={joinOr recs} heap={joinOr heap} dw=0"

def step (st : Option Seq) (ws : List String) : Option Seq × String :=
  match ws, st with
  | ["reset"], _ => (some { node := Node.init, txs := [] }, "ok")
  | _, none => (none, "bad-op")
  | ["deftx", i, s, size, e], some q =>
    match parseU64 i, parseU64 s, parseU64 size, parseI64 e with
    | some i, some s, some size, some e =>
      if i > 250 ∨ s > 1 ∨ size > 4096 ∨ (q.txs.find? (·.1 == i)).isSome then (st, "bad-op")
      else
        let q' := { q with txs := (i, { nonce := i, sponsor := s, size := size, expiry := e }) :: q.txs }
        (some q', "ok" ++ observe q')
    | _, _, _, _ => (st, "bad-op")
  | ["setmax", s, m], some q =>
    match parseU64 s, parseU64 m with
    | some s, some m =>
      if s > 1 then (st, "bad-op") else
      let q' := { q with node := setMax q.node s m }
      (some q', "ok" ++ observe q')
    | _, _ => (st, "bad-op")
  | ["bond", i, rate], some q =>
    match findTx q i, parseU64 rate with
    | some tx, some rate =>
      let r := bond q.node.db (q.node.maxBal tx.sponsor) tx rate
      let q' := { q with node := { q.node with db := r.1 } }
      (some q', toString r.2 ++ observe q')
    | _, _ => (st, "bad-op")
  | ["unbond", i], some q =>
    match findTx q i with
    | some tx =>
      let q' := { q with node := { q.node with db := unbond q.node.db tx } }
      (some q', "ok" ++ observe q')
    | none => (st, "bad-op")
  | "build" :: rate :: is, some q =>
    match parseU64 rate, allSome (is.map (findTx q)) with
    | some rate, some txs =>
      let r := buildChunk bond q.node rate txs
      let q' := { q with node := r.1 }
      (some q', "b " ++ joinOr (r.2.map (idxOf q)) ++ observe q')
    | _, _ => (st, "bad-op")
  | "buildfail" :: rate :: is, some q =>
    match parseU64 rate, allSome (is.map (findTx q)) with
    | some rate, some txs =>
      let r := buildChunk bond q.node rate txs
      let q' := { q with node := r.1 }
      (some q', "e " ++ joinOr (r.2.map (idxOf q)) ++ observe q')
    | _, _ => (st, "bad-op")
  | "accept" :: ts :: is, some q =>
    match parseI64 ts, allSome (is.map (findTx q)) with
    | some ts, some txs =>
      let q' := { q with node := accept q.node ts txs }
      (some q', "ok" ++ observe q')
    | _, _ => (st, "bad-op")
  | _, _ => (st, "bad-op")

def machine : Machine := { σ := Option Seq, init := none, step := step }
end Driver.C38

def main : IO Unit := Driver.run Driver.C38.machine
