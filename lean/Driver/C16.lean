import Driver.Util
import HyperModel.Model.AuthBatch
namespace Driver.C16
open HyperModel.AuthBatch

/-- item: (position, auth type id, verifies one-by-one) -/
abbrev Item := Nat × Nat × Bool

/-- item tokens: `<t><k>` (t = e|s|b; k = 1 valid, 0/2 invalid; `e3` small-order ZIP-215 vector,
valid; `e4` the same with s = 1, invalid; `b5`/`b6` BLS signature ± a group element, each invalid);
`e3.<i>.<j>` selects the encodings of signer and R (0..13), still valid. -/
def parseItem (i : Nat) (t : String) : Option Item :=
  let parts := t.splitOn "."
  let okSuffix : Bool := match parts with
    | [_] => true
    | [b, x, y] => b == "e3" && (match x.toNat?, y.toNat? with
        | some a, some r => a < 14 && r < 14 && toString a == x && toString r == y
        | _, _ => false)
    | _ => false
  if !okSuffix then none else
  match (parts.headD "").toList with
  | [c, v] =>
    let ty? := if c = 'e' then some ed25519ID else if c = 's' then some secp256r1ID
               else if c = 'b' then some blsID else none
    let ok? := if v = '1' then some true else if v = '0' ∨ v = '2' then some false
               else if c = 'e' ∧ v = '3' then some true else if c = 'e' ∧ v = '4' then some false
               else if c = 'b' ∧ (v = '5' ∨ v = '6') then some false
               else if c = 's' ∧ (v = '7' ∨ v = '9') then some false else if c = 's' ∧ v = '8' then some true else none
    match ty?, ok? with
    | some ty, some ok => some (i, ty, ok)
    | _, _ => none
  | _ => none

def parseItems : Nat → List String → Option (List Item)
  | _, [] => some []
  | i, t :: ts => match parseItem i t, parseItems (i + 1) ts with
    | some x, some xs => some (x :: xs)
    | _, _ => none

def commaNat (l : List Nat) : String :=
  if l.isEmpty then "-" else String.intercalate "," (l.map toString)

/-- two jobs on one pool; a trailing `g` marks the gated item of job A; verdicts are per job -/
def overlapStep (w : String) (items : List String) : String :=
  match items with
  | mode :: a :: rest =>
    if a != "A" then "bad-op" else
    if !w.startsWith "w=" then "bad-op" else
    if !(mode == "b-before-release" || mode == "b-after-a") then "bad-op" else
    let aToks := rest.takeWhile (· ≠ "B")
    let bToks := (rest.dropWhile (· ≠ "B")).drop 1
    let strip (t : String) : String := if t.endsWith "g" then (t.dropEnd 1).toString else t
    match (w.drop 2).toString.toNat?, parseItems 0 (aToks.map strip), parseItems 0 bToks with
    | some cores, some a, some b =>
      if cores < 1 ∨ cores > 64 ∨ ¬ rest.contains "B" ∨
          aToks.any (fun t => t.endsWith "g" && t.startsWith "e") then "bad-op" else
      let ty : Item → Nat := fun x => x.2.1
      let v1 : Item → Bool := fun x => x.2.2
      let r (its : List Item) := if blockSigOk ty defaultBatched v1 cores its then "ok" else "fail"
      s!"A={r a} B={r b}"
    | _, _, _ => "bad-op"
  | _ => "bad-op"

def step (_ : Unit) (ws : List String) : Unit × String :=
  match ws with
  | ["facts"] =>
    let ids := [ed25519ID, secp256r1ID, blsID]
    ((), s!"minbatch={minBatchSize} batched={String.intercalate "," ((ids.filter defaultBatched).map toString)} ids={String.intercalate "," (ids.map toString)}")
  | op :: w :: items =>
    -- `block`: worker pool; `blocke`: eager job (same contract, same model output)
    if op == "block" || op == "blocke" then
    if !w.startsWith "w=" then ((), "bad-op") else
    match (w.drop 2).toString.toNat?, parseItems 0 items with
    | some cores, some its =>
      if cores < 1 ∨ cores > 64 then ((), "bad-op") else
      let ty : Item → Nat := fun x => x.2.1
      let v1 : Item → Bool := fun x => x.2.2
      let ok := blockSigOk ty defaultBatched v1 cores its
      let direct := (its.filter fun x => !defaultBatched (ty x)).length
      let eds := its.filter fun x => ty x == ed25519ID
      let early := (typeEarly cores eds).map List.length
      let k := if eds.isEmpty then 0 else (typeDone cores eds).length
      let pending := eds.length - early.foldl (· + ·) 0
      ((), s!"{if ok then "ok" else "fail"} direct={direct} early={commaNat early} done={k}:{pending}")
    | _, _ => ((), "bad-op")
    else if op == "exec" then
    -- a block through Processor.Execute: signature failure or not
    if !w.startsWith "w=" then ((), "bad-op") else
    match (w.drop 2).toString.toNat?, parseItems 0 items with
    | some cores, some its =>
      if cores < 1 ∨ cores > 64 then ((), "bad-op") else
      let txs : List (SigTx (Nat × Bool) Nat) :=
        its.map fun x => { unsigned := (x.1, x.2.2), signedBytes := (x.1, false), auth := x.2.1 }
      -- the auth verifies over the unsigned bytes iff the item is marked valid; never over other bytes
      let ok := verifyBlockSigs (fun m _ => m.2) (fun a => a) defaultBatched cores txs
      ((), if ok then "ok" else "sigfail")
    | _, _ => ((), "bad-op")
    else if op == "overlap" then ((), overlapStep w items) else ((), "bad-op")
  | _ => ((), "bad-op")

def machine : Machine := { σ := Unit, init := (), step := step }
end Driver.C16

def main : IO Unit := Driver.run Driver.C16.machine
