package fees

import (
	"fmt"
	"math/big"
	"strconv"
	"strings"
	"testing"

	"github.com/ava-labs/hypersdk/internal/verifh"
)

// C33: LargestSet returns distinct in-range indices whose per-dimension sum fits the limit,
// the returned total is that sum, and nothing that was skipped would still fit.
func TestVerifC33(t *testing.T) {
	r := verifh.Start("C33")
	defer r.Finish()
	r.RNG = verifh.NewRNG(c33Mix(r.Seed))

	lines := r.ReplayLines()
	if lines == nil {
		lines = c33Generate(r)
	}

	for _, l := range lines {
		f := verifh.Fields(l)
		if len(f) == 1 && f[0] == "nd" {
			r.Emit(l, strconv.Itoa(FeeDimensions))
			continue
		}
		if len(f) < 1+FeeDimensions || f[0] != "ls" || (len(f)-1)%FeeDimensions != 0 {
			r.Emit(l, "bad-op")
			continue
		}
		vals := make([]uint64, 0, len(f)-1)
		bad := false
		for _, s := range f[1:] {
			v, err := strconv.ParseUint(s, 10, 64)
			if err != nil {
				bad = true
				break
			}
			vals = append(vals, v)
		}
		if bad {
			r.Emit(l, "bad-op")
			continue
		}
		var limit Dimensions
		copy(limit[:], vals[:FeeDimensions])
		var dims []Dimensions
		for i := FeeDimensions; i < len(vals); i += FeeDimensions {
			var d Dimensions
			copy(d[:], vals[i:i+FeeDimensions])
			dims = append(dims, d)
		}
		in := append([]Dimensions(nil), dims...)
		idx, total := LargestSet(in, limit)
		r.Emit(l, strconv.Itoa(len(idx))+" "+c33Csv(idx)+" "+c33Csv(total[:]))
		r.Count(fmt.Sprintf("n:%d", len(dims)))
		r.Count(fmt.Sprintf("kept:%d", len(idx)))

		// ---- oracle: the statement of the property on the implementation's outputs
		seen := map[uint64]bool{}
		okIdx := true
		for _, i := range idx {
			if i >= uint64(len(dims)) {
				r.Violation("index-out-of-range", "index %d returned for %d inputs: %s", i, len(dims), l)
				okIdx = false
				break
			}
			if seen[i] {
				r.Violation("duplicate-index", "index %d returned twice: %s", i, l)
				okIdx = false
				break
			}
			seen[i] = true
		}
		if !okIdx {
			continue
		}
		var sum [FeeDimensions]*big.Int
		for k := range sum {
			sum[k] = new(big.Int)
		}
		for _, i := range idx {
			for k := 0; k < FeeDimensions; k++ {
				sum[k].Add(sum[k], new(big.Int).SetUint64(dims[i][k]))
			}
		}
		fits := true
		for k := 0; k < FeeDimensions; k++ {
			if sum[k].Cmp(new(big.Int).SetUint64(limit[k])) > 0 {
				fits = false
			}
		}
		if !fits {
			r.Violation("sum-exceeds-limit", "sum of returned vectors exceeds the limit: %s -> %v", l, idx)
		}
		for k := 0; k < FeeDimensions; k++ {
			if sum[k].Cmp(new(big.Int).SetUint64(total[k])) != 0 {
				r.Violation("total-ne-sum", "returned total %v is not the sum %v of the returned indices %v: %s", total, sum, idx, l)
				break
			}
		}
		// a skipped input did not fit when it was considered; the accumulator only grows
		// afterwards, so it cannot fit on top of the final sum of the returned set either
		skipped, interleaved := 0, false
		for i := range dims {
			if seen[uint64(i)] {
				continue
			}
			skipped++
			stillFits := true
			for k := 0; k < FeeDimensions; k++ {
				s := new(big.Int).Add(sum[k], new(big.Int).SetUint64(dims[i][k]))
				if s.Cmp(new(big.Int).SetUint64(limit[k])) > 0 {
					stillFits = false
				}
			}
			if stillFits && fits {
				r.Violation("skipped-fits", "input %d was skipped although it fits on top of the returned set %v: %s", i, idx, l)
			}
		}
		// exact clause: replay the consideration order. LargestSet considers the inputs by
		// ascending weight Σ_k 65536·d[k]²/limit[k]² (stable; the order the Lean theorems
		// order_perm/order_sorted pin), so a skipped input must not fit on top of the returned
		// inputs that precede it in that order.
		if fits {
			order := c33Order(dims, limit)
			var acc [FeeDimensions]*big.Int
			for k := range acc {
				acc[k] = new(big.Int)
			}
			for _, i := range order {
				if seen[uint64(i)] {
					for k := 0; k < FeeDimensions; k++ {
						acc[k].Add(acc[k], new(big.Int).SetUint64(dims[i][k]))
					}
					continue
				}
				fitsThen := true
				for k := 0; k < FeeDimensions; k++ {
					s := new(big.Int).Add(acc[k], new(big.Int).SetUint64(dims[i][k]))
					if s.Cmp(new(big.Int).SetUint64(limit[k])) > 0 {
						fitsThen = false
					}
				}
				if fitsThen {
					r.Violation("skipped-fits-when-considered", "input %d was skipped although it fitted when it was considered (ascending-weight order %v, returned %v): %s", i, order, idx, l)
					break
				}
			}
		}
		// non-trivial: some input skipped and some input kept
		if skipped > 0 && len(idx) > 0 {
			interleaved = true
		}
		if interleaved {
			r.Distinct(l)
			r.Count("mixed")
		}
	}
}

// c33Order is the documented consideration order: indices by ascending weight, stable.
// The weight squares int64(d) and int64(limit) as the code does (values >= 2^63 wrap).
func c33Order(dims []Dimensions, limit Dimensions) []int {
	ws := make([]*big.Int, len(dims))
	sq := func(x uint64) *big.Int {
		v := big.NewInt(int64(x))
		return v.Mul(v, v)
	}
	for i, d := range dims {
		w := new(big.Int)
		for k := 0; k < FeeDimensions; k++ {
			if limit[k] > 0 {
				n := sq(d[k])
				n.Mul(n, big.NewInt(65536))
				w.Add(w, n.Div(n, sq(limit[k])))
			}
		}
		ws[i] = w
	}
	order := make([]int, len(dims))
	for i := range order {
		order[i] = i
	}
	// insertion sort: stable
	for i := 1; i < len(order); i++ {
		for j := i; j > 0 && ws[order[j]].Cmp(ws[order[j-1]]) < 0; j-- {
			order[j], order[j-1] = order[j-1], order[j]
		}
	}
	return order
}

func c33Csv(xs []uint64) string {
	if len(xs) == 0 {
		return "-"
	}
	ss := make([]string, len(xs))
	for i, x := range xs {
		ss[i] = strconv.FormatUint(x, 10)
	}
	return strings.Join(ss, ",")
}

func c33Line(limit Dimensions, dims []Dimensions) string {
	var sb strings.Builder
	sb.WriteString("ls")
	for _, v := range limit {
		sb.WriteByte(' ')
		sb.WriteString(strconv.FormatUint(v, 10))
	}
	for _, d := range dims {
		for _, v := range d {
			sb.WriteByte(' ')
			sb.WriteString(strconv.FormatUint(v, 10))
		}
	}
	return sb.String()
}

func c33Generate(r *verifh.Run) []string {
	rng := r.RNG
	lines := []string{"nd"}
	// corpus: witnesses of the compaction defect (a non-fitting vector in the middle of the
	// weight order) and boundary shapes
	m := ^uint64(0)
	lines = append(lines,
		c33Line(Dimensions{100, 100, 0, 0, 0}, []Dimensions{{50, 0, 0, 0, 0}, {60, 0, 0, 0, 0}, {0, 70, 0, 0, 0}}),
		c33Line(Dimensions{100, 100, 100, 100, 100}, []Dimensions{{10, 0, 0, 0, 0}, {95, 0, 0, 0, 0}, {0, 96, 0, 0, 0}, {91, 0, 0, 0, 0}, {0, 0, 97, 0, 0}}),
		c33Line(Dimensions{m, m, m, m, m}, []Dimensions{{m, 0, 0, 0, 0}, {1, 0, 0, 0, 0}, {0, m, 0, 0, 0}, {0, 1, 0, 0, 0}}),
		c33Line(Dimensions{0, 0, 0, 0, 0}, []Dimensions{{0, 0, 0, 0, 0}, {1, 0, 0, 0, 0}, {0, 0, 0, 0, 0}}),
		c33Line(Dimensions{1 << 63, 1 << 63, 5, 5, 5}, []Dimensions{{1 << 63, 0, 0, 0, 0}, {1<<63 - 1, 0, 1, 0, 0}, {1, 1<<63 + 1, 0, 0, 0}, {0, 1 << 62, 0, 0, 0}}),
		c33Line(Dimensions{1, 2, 3, 4, 5}, nil),
	)
	n := r.N(12000, 300000)
	for it := 0; it < n; it++ {
		var limit Dimensions
		mode := rng.Intn(6)
		for k := range limit {
			switch mode {
			case 0:
				limit[k] = rng.Pick64()
			case 1:
				limit[k] = uint64(rng.Intn(200))
			case 2:
				limit[k] = m - uint64(rng.Intn(3))
			case 3:
				if rng.Intn(3) == 0 {
					limit[k] = 0
				} else {
					limit[k] = 1 + uint64(rng.Intn(1000))
				}
			default:
				limit[k] = 1000 + uint64(rng.Intn(1_000_000))
			}
		}
		nd := rng.Intn(9)
		if rng.Intn(40) == 0 {
			nd = 9 + rng.Intn(24)
		}
		dims := make([]Dimensions, nd)
		for i := range dims {
			vm := rng.Intn(8)
			hot := rng.Intn(FeeDimensions)
			for k := range dims[i] {
				switch vm {
				case 0: // a fraction of the limit in every dimension
					dims[i][k] = c33Frac(rng, limit[k])
				case 1, 2: // one hot dimension (so that the weight order interleaves fitting and non-fitting)
					if k == hot {
						dims[i][k] = c33Frac(rng, limit[k])
					} else if rng.Intn(4) == 0 {
						dims[i][k] = c33Frac(rng, limit[k]/8)
					}
				case 3:
					dims[i][k] = rng.Pick64()
				case 4:
					dims[i][k] = 0
				case 5: // slightly above / at the limit
					if k == hot {
						dims[i][k] = limit[k] + uint64(rng.Intn(3)) - 1
					}
				case 6: // equal weights (ties in the stable sort)
					dims[i][k] = limit[k] / 4
				default:
					dims[i][k] = uint64(rng.Intn(300))
				}
			}
		}
		lines = append(lines, c33Line(limit, dims))
	}
	return lines
}

// c33Frac picks a value in [0, l] biased to halves, thirds and the ends.
func c33Frac(rng *verifh.RNG, l uint64) uint64 {
	switch rng.Intn(8) {
	case 0:
		return l
	case 1:
		return l / 2
	case 2:
		return l/2 + 1
	case 3:
		return l / 3
	case 4:
		return 0
	case 5:
		return l - l/3
	default:
		if l == ^uint64(0) {
			return rng.U64()
		}
		return rng.U64() % (l + 1)
	}
}

// c33Mix decorrelates seeds: verifh.NewRNG(k+1) is NewRNG(k)'s stream shifted by one draw, and
// generators with a varying number of draws per op re-align after a few ops.
func c33Mix(seed uint64) uint64 {
	z := seed + 0x9E3779B97F4A7C15
	z = (z ^ (z >> 30)) * 0xBF58476D1CE4E5B9
	z = (z ^ (z >> 27)) * 0x94D049BB133111EB
	return z ^ (z >> 31)
}
