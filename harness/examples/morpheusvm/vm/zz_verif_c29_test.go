package vm

import (
	"bytes"
	"encoding/json"
	"fmt"
	"reflect"
	"testing"

	"github.com/ava-labs/hypersdk/abi"
	"github.com/ava-labs/hypersdk/abi/dynamic"
	"github.com/ava-labs/hypersdk/codec"
	"github.com/ava-labs/hypersdk/internal/verifh"
)

// C29 (reference VM, oracle only): for every type registered in the morpheusvm parsers and
// random values of it: dynamic.Marshal(abi, T, json(v)) == v.Bytes() and
// dynamic.UnmarshalAction/Output(abi, v.Bytes()) ≡ json(v).
//
//	val <action|output> <TypeName> <json hex>

func c29mFill(r *verifh.Run, v reflect.Value) {
	switch v.Kind() {
	case reflect.Uint8, reflect.Uint16, reflect.Uint32, reflect.Uint64:
		bits := uint(v.Type().Bits())
		v.SetUint(r.RNG.Pick64() >> (64 - bits) << (64 - bits) >> (64 - bits))
		if r.RNG.Chance(50) {
			v.SetUint(r.RNG.Pick64() & (^uint64(0) >> (64 - bits)))
		}
	case reflect.Int8, reflect.Int16, reflect.Int32, reflect.Int64:
		bits := uint(v.Type().Bits())
		v.SetInt(int64(r.RNG.Pick64()) << (64 - bits) >> (64 - bits))
	case reflect.String:
		v.SetString(string(bytes.Repeat([]byte{'a' + byte(r.RNG.Intn(26))}, r.RNG.Intn(50))))
	case reflect.Slice:
		n := []int{0, 0, 1, 2, 7, 255, 256}[r.RNG.Intn(7)]
		s := reflect.MakeSlice(v.Type(), n, n)
		for i := 0; i < n; i++ {
			c29mFill(r, s.Index(i))
		}
		v.Set(s)
	case reflect.Array:
		for i := 0; i < v.Len(); i++ {
			c29mFill(r, v.Index(i))
		}
	case reflect.Struct:
		for i := 0; i < v.NumField(); i++ {
			if v.Field(i).CanSet() {
				c29mFill(r, v.Field(i))
			}
		}
	}
}

func c29mJSONEq(a, b []byte) bool {
	var x, y any
	da, db := json.NewDecoder(bytes.NewReader(a)), json.NewDecoder(bytes.NewReader(b))
	da.UseNumber()
	db.UseNumber()
	return da.Decode(&x) == nil && db.Decode(&y) == nil && reflect.DeepEqual(x, y)
}

func TestVerifC29Morpheus(t *testing.T) {
	r := verifh.Start("C29")
	defer r.Finish()
	acts, outs := ActionParser.GetRegisteredTypes(), OutputParser.GetRegisteredTypes()
	a, err := abi.NewABI(acts, outs)
	if err != nil {
		t.Fatal(err)
	}
	reg := map[string]codec.Typed{}
	var order []string
	for _, v := range acts {
		n := "action " + reflect.TypeOf(v).Elem().Name()
		reg[n] = v
		order = append(order, n)
	}
	for _, v := range outs {
		n := "output " + reflect.TypeOf(v).Elem().Name()
		reg[n] = v
		order = append(order, n)
	}
	lines := r.ReplayLines()
	if lines == nil {
		for _, n := range order {
			lines = append(lines, "val "+n+" "+verifh.Hex([]byte("{}")))
			for i := 0; i < r.N(1500, 50000); i++ {
				v := reflect.New(reflect.TypeOf(reg[n]).Elem())
				c29mFill(r, v.Elem())
				js, err := json.Marshal(v.Interface())
				if err != nil {
					continue
				}
				lines = append(lines, "val "+n+" "+verifh.Hex(js))
			}
		}
	}
	type kept struct {
		got, want []byte
		line      int
	}
	var keep []kept
	for _, l := range lines {
		f := verifh.Fields(l)
		if len(f) != 4 || f[0] != "val" || reg[f[1]+" "+f[2]] == nil {
			r.Emit(l, "bad-op")
			continue
		}
		js, err := verifh.UnHex(f[3])
		v := reflect.New(reflect.TypeOf(reg[f[1]+" "+f[2]]).Elem())
		if err != nil || json.Unmarshal(js, v.Interface()) != nil {
			r.Emit(l, "bad-op")
			continue
		}
		by, ok := v.Interface().(interface{ Bytes() []byte })
		if !ok {
			r.Emit(l, "no-bytes-method")
			continue
		}
		var native []byte
		func() {
			defer func() { _ = recover() }() // Bytes() panics above its packer limit
			native = by.Bytes()
		}()
		if len(native) == 0 {
			r.Emit(l, "native-err")
			r.Count("native-err")
			continue
		}
		// the value as the native parser sees it
		var parsed any
		var perr error
		if f[1] == "action" {
			parsed, perr = ActionParser.Unmarshal(native)
		} else {
			parsed, perr = OutputParser.Unmarshal(native)
		}
		if perr != nil {
			r.Emit(l, "native-parse-err")
			r.Count("native-parse-err")
			continue
		}
		vjs, _ := json.Marshal(parsed)
		name := f[2]
		out := "eq"
		type viol struct{ k, m string }
		var vs []viol
		if f[1] == "action" {
			db, derr := dynamic.Marshal(a, name, string(vjs))
			if derr == nil {
				keep = append(keep, kept{db, append([]byte{}, db...), r.Line() + 1})
				if len(keep) > 24 {
					keep = keep[1:]
				}
			}
			dj, uerr := dynamic.UnmarshalAction(a, native)
			switch {
			case derr != nil || uerr != nil:
				out = "err"
				vs = append(vs, viol{"dynamic-error-on-registered-type", fmt.Sprintf("%s: %v / %v json=%s", name, derr, uerr, vjs)})
			case !bytes.Equal(db, native):
				out = "bytes-differ"
				vs = append(vs, viol{"dynamic-marshal-mismatch", fmt.Sprintf("%s json=%s native=%x dynamic=%x", name, vjs, native, db)})
			case !c29mJSONEq([]byte(dj), vjs):
				out = "json-differ"
				vs = append(vs, viol{"dynamic-unmarshal-json-mismatch", fmt.Sprintf("%s native=%s dynamic=%s", name, vjs, dj)})
			}
			// and the native parser accepts the dynamically produced bytes
			if derr == nil {
				if _, perr := ActionParser.Unmarshal(db); perr != nil && len(native) <= 1024 {
					r.Count("native-parser-rejects")
				}
			}
		} else {
			dj, uerr := dynamic.UnmarshalOutput(a, native)
			// the property also asks for the encoding direction of registered output types
			db, derr := dynamic.Marshal(a, name, string(vjs))
			switch {
			case derr != nil:
				vs = append(vs, viol{"dynamic-error-on-registered-type", fmt.Sprintf("%s: %v", name, derr)})
			case !bytes.Equal(db, native):
				vs = append(vs, viol{"dynamic-marshal-mismatch", fmt.Sprintf("%s json=%s native=%x dynamic=%x", name, vjs, native, db)})
			}
			switch {
			case uerr != nil:
				out = "err"
				vs = append(vs, viol{"dynamic-error-on-registered-type", fmt.Sprintf("%s: %v", name, uerr)})
			case !c29mJSONEq([]byte(dj), vjs):
				out = "json-differ"
				vs = append(vs, viol{"dynamic-unmarshal-json-mismatch", fmt.Sprintf("%s native=%s dynamic=%s", name, vjs, dj)})
			}
		}
		r.Emit(l, out)
		for _, x := range vs {
			r.Violation(x.k, "%s", x.m)
		}
		for i := range keep {
			if k := &keep[i]; k.line < r.Line() && !bytes.Equal(k.got, k.want) {
				r.ViolationAt("marshal-result-aliased", k.line, r.Line(), "bytes returned by dynamic.Marshal at line %d were overwritten by a later call: was %x now %x", k.line, k.want, k.got)
				k.want = append([]byte{}, k.got...)
			}
		}
		r.Count("val:" + f[2] + ":" + out)
		if out == "eq" {
			r.Distinct(f[2] + ":" + f[3])
		}
	}
}
