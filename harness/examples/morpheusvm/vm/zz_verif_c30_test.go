package vm

import (
	"context"
	stded "crypto/ed25519"
	"encoding/binary"
	"encoding/json"
	"errors"
	"fmt"
	"net/http"
	"sort"
	"strconv"
	"strings"
	"testing"

	"github.com/ava-labs/avalanchego/database"
	"github.com/ava-labs/avalanchego/trace"

	"github.com/ava-labs/hypersdk/api"
	"github.com/ava-labs/hypersdk/api/jsonrpc"
	"github.com/ava-labs/hypersdk/auth"
	"github.com/ava-labs/hypersdk/chain"
	"github.com/ava-labs/hypersdk/codec"
	"github.com/ava-labs/hypersdk/crypto/ed25519"
	"github.com/ava-labs/hypersdk/examples/morpheusvm/actions"
	"github.com/ava-labs/hypersdk/examples/morpheusvm/storage"
	"github.com/ava-labs/hypersdk/fees"
	"github.com/ava-labs/hypersdk/genesis"
	internalfees "github.com/ava-labs/hypersdk/internal/fees"
	"github.com/ava-labs/hypersdk/internal/verifh"
	"github.com/ava-labs/hypersdk/state"
	"github.com/ava-labs/hypersdk/state/tstate"
)

// C30: JSON-RPC ExecuteActions / SimulateActions (called in-process on the real server) vs the
// same actions inside a transaction executed on the same state (PreExecute + Execute, as the
// block processor does).
//
//	reset <b0> … <b5>                           balances of the 6 accounts (0 = no key)
//	exec <actor> (<to> <value>)*
//	sim  <actor> (<to> <value>)*
//	tx   <actor> <price> <fee> (<to> <value>)*   fee is recomputed from the compute-unit price

const c30N = 6

type c30VM struct {
	api.VM // everything the two endpoints do not touch
	store  map[string][]byte
	rules  *genesis.Rules
}

func (*c30VM) Tracer() trace.Tracer                  { return trace.Noop }
func (*c30VM) GetParser() chain.Parser               { return Parser }
func (v *c30VM) GetRuleFactory() chain.RuleFactory   { return &genesis.ImmutableRuleFactory{Rules: v.rules} }
func (*c30VM) BalanceHandler() chain.BalanceHandler  { return &storage.BalanceHandler{} }
func (v *c30VM) ImmutableState(context.Context) (state.Immutable, error) {
	return state.ImmutableStorage(v.store), nil
}

func (v *c30VM) ReadState(_ context.Context, keys [][]byte) ([][]byte, []error) {
	vals, errs := make([][]byte, len(keys)), make([]error, len(keys))
	for i, k := range keys {
		if b, ok := v.store[string(k)]; ok {
			vals[i] = b
		} else {
			errs[i] = database.ErrNotFound
		}
	}
	return vals, errs
}

type c30Env struct {
	vm    *c30VM
	srv   *jsonrpc.JSONRPCServer
	facs  [c30N]*auth.ED25519Factory
	addrs [c30N]codec.Address
	index map[string]int // balance key -> account number
}

func c30NewEnv() *c30Env {
	e := &c30Env{index: map[string]int{}}
	e.vm = &c30VM{store: map[string][]byte{}, rules: genesis.NewDefaultRules()}
	e.srv = jsonrpc.NewJSONRPCServer(e.vm)
	for i := 0; i < c30N; i++ {
		seed := make([]byte, 32)
		seed[0] = byte(i + 1)
		e.facs[i] = auth.NewED25519Factory(ed25519.PrivateKey(stded.NewKeyFromSeed(seed)))
		e.addrs[i] = e.facs[i].Address()
		e.index[string(storage.BalanceKey(e.addrs[i]))] = i
	}
	return e
}

func (e *c30Env) actions(f []string) ([]chain.Action, [][]byte, bool) {
	if len(f) == 0 || len(f)%2 != 0 {
		return nil, nil, false
	}
	var as []chain.Action
	var raw [][]byte
	for i := 0; i < len(f); i += 2 {
		to, err1 := strconv.Atoi(f[i])
		v, err2 := strconv.ParseUint(f[i+1], 10, 64)
		if err1 != nil || err2 != nil || to < 0 || to >= c30N {
			return nil, nil, false
		}
		a := &actions.Transfer{To: e.addrs[to], Value: v, Memo: []byte{byte(i)}}
		as = append(as, a)
		raw = append(raw, a.Bytes())
	}
	return as, raw, true
}

func c30Out(b []byte) string {
	if len(b) == 0 {
		return "?-"
	}
	r, err := actions.UnmarshalTransferResult(b)
	if err != nil {
		return "?" + verifh.Hex(b)
	}
	tr := r.(*actions.TransferResult)
	return fmt.Sprintf("%d:%d", tr.SenderBalance, tr.ReceiverBalance)
}

func c30Outs(bs [][]byte) string {
	if len(bs) == 0 {
		return "-"
	}
	var p []string
	for _, b := range bs {
		p = append(p, c30Out(b))
	}
	return strings.Join(p, " ")
}

func c30Err(msg string) string {
	switch {
	case strings.Contains(msg, actions.ErrOutputValueZero.Error()):
		return "err1"
	case strings.Contains(msg, storage.ErrInvalidBalance.Error()):
		return "err2"
	case strings.Contains(msg, tstate.ErrInvalidKeyOrPermission.Error()):
		return "perm"
	}
	return "err?" + strings.ReplaceAll(msg, " ", "_")
}

func (e *c30Env) keysStr(ks state.Keys) string {
	var p []string
	for k, perm := range ks {
		i, ok := e.index[k]
		if !ok {
			p = append(p, "?"+verifh.Hex([]byte(k)))
			continue
		}
		p = append(p, fmt.Sprintf("%d:%d", i, c30Perm(perm)))
	}
	if len(p) == 0 {
		return "-"
	}
	sort.Strings(p)
	return strings.Join(p, ",")
}

// Permissions bits -> r=1 a=2 w=4 (the model's encoding)
func c30Perm(p state.Permissions) int {
	n := 0
	if p.Has(state.Read) {
		n |= 1
	}
	if p&(1<<1) != 0 {
		n |= 2
	}
	if p&(1<<2) != 0 {
		n |= 4
	}
	return n
}

func (e *c30Env) execAPI(req *http.Request, actor int, raw [][]byte) string {
	var reply jsonrpc.ExecuteActionReply
	if err := e.srv.ExecuteActions(req, &jsonrpc.ExecuteActionArgs{Actor: e.addrs[actor], Actions: raw}, &reply); err != nil {
		return "rpc-err"
	}
	// the reply as a client sees it: through its JSON encoding
	var wire jsonrpc.ExecuteActionReply
	if b, err := json.Marshal(&reply); err != nil || json.Unmarshal(b, &wire) != nil {
		return "json-err"
	}
	if wire.Error != "" {
		return "fail " + c30Outs(wire.Outputs) + " " + c30Err(wire.Error)
	}
	return "ok " + c30Outs(wire.Outputs)
}

// c30Explained: the difference between the API reply and the on-chain result is exactly the one
// the known finding describes — only output fields derived from the sponsor's (= actor's) balance
// differ, by exactly the fee, or the transaction stops with "invalid balance" at the first action
// the fee-reduced sponsor balance cannot pay.
func c30Explained(ex, out string, fee, bal0 uint64, actor int, tos []int, vals []uint64) bool {
	parse := func(s string) (ok bool, outs [][2]uint64, errc string, good bool) {
		f := strings.Fields(s)
		if len(f) == 0 {
			return
		}
		ok = f[0] == "ok"
		rest := f[1:]
		if !ok {
			if f[0] != "fail" || len(rest) == 0 {
				return
			}
			errc, rest = rest[len(rest)-1], rest[:len(rest)-1]
		}
		for _, o := range rest {
			if o == "-" {
				continue
			}
			p := strings.Split(o, ":")
			if len(p) != 2 {
				return
			}
			a, e1 := strconv.ParseUint(p[0], 10, 64)
			b, e2 := strconv.ParseUint(p[1], 10, 64)
			if e1 != nil || e2 != nil {
				return
			}
			outs = append(outs, [2]uint64{a, b})
		}
		return ok, outs, errc, true
	}
	okA, oa, errA, g1 := parse(ex)
	okC, oc, errC, g2 := parse(out)
	if !g1 || !g2 || fee == 0 || len(oc) > len(oa) {
		return false
	}
	bal := bal0 // the actor's balance as the API sees it before action i
	for i := range oc {
		if oa[i][0]-oc[i][0] != fee || oa[i][0] < oc[i][0] {
			return false
		}
		if tos[i] == actor {
			if oa[i][1]-oc[i][1] != fee {
				return false
			}
			bal = oa[i][1]
		} else {
			if oa[i][1] != oc[i][1] {
				return false
			}
			bal = oa[i][0]
		}
	}
	if okA == okC && len(oa) == len(oc) {
		return errA == errC && len(oc) > 0
	}
	// the transaction stopped earlier: at action j the fee-reduced balance is short
	j := len(oc)
	return !okC && errC == "err2" && j < len(vals) && vals[j] > 0 && bal >= vals[j] && bal-fee < vals[j]
}

const c30Time = int64(1_000_000)

// the transaction path: PreExecute + Execute in a view scoped to tx.StateKeys over the state
func (e *c30Env) runTx(actor int, price uint64, acts []chain.Action) (out string, fee uint64, res *chain.Result) {
	ctx := context.Background()
	bh := &storage.BalanceHandler{}
	txd := chain.NewTxData(chain.Base{Timestamp: c30Time + 10_000, ChainID: e.vm.rules.GetChainID(), MaxFee: ^uint64(0)}, acts)
	tx, err := txd.Sign(e.facs[actor])
	if err != nil {
		return "sign-err", 0, nil
	}
	fm := internalfees.NewManager(nil)
	fm.SetUnitPrice(fees.Compute, price)
	units, err := tx.Units(bh, e.vm.rules)
	if err != nil {
		return "units-err", 0, nil
	}
	fee, err = fm.Fee(units)
	if err != nil {
		return "fee-err", 0, nil
	}
	sk, err := tx.StateKeys(bh)
	if err != nil {
		return "keys-err", fee, nil
	}
	ts := tstate.New(1)
	tsv := ts.NewView(sk, state.ImmutableStorage(e.vm.store), len(sk))
	if err := tx.PreExecute(ctx, fm, bh, e.vm.rules, tsv, c30Time); err != nil {
		if errors.Is(err, chain.ErrTooManyActions) {
			return "too-many", fee, nil
		}
		return "unpayable", fee, nil
	}
	res, err = tx.Execute(ctx, fm, bh, e.vm.rules, tsv, c30Time)
	if err != nil {
		return "unpayable", fee, nil
	}
	if res.Success {
		return "ok " + c30Outs(res.Outputs), fee, res
	}
	return "fail " + c30Outs(res.Outputs) + " " + c30Err(string(res.Error)), fee, res
}

func c30Generate(r *verifh.Run) []string {
	var lines []string
	acts := func(actor int) string {
		n := 1 + r.RNG.Intn(4)
		if r.RNG.Chance(5) {
			n = 16
		}
		if r.RNG.Chance(2) {
			n = 17 + r.RNG.Intn(3) // above MaxActionsPerTx
		}
		var p []string
		for i := 0; i < n; i++ {
			v := uint64(r.RNG.Intn(12))
			switch r.RNG.Intn(12) {
			case 0:
				v = r.RNG.Pick64()
			case 1:
				v = 0
			}
			to := r.RNG.Intn(c30N)
			if r.RNG.Chance(10) {
				to = actor
			}
			p = append(p, fmt.Sprintf("%d %d", to, v))
		}
		return strings.Join(p, " ")
	}
	// corpus first: the strict-reading witness (actor = sponsor pays a fee, output reports its balance)
	seventeen := strings.TrimSpace(strings.Repeat("1 1 ", 17))
	lines = append(lines, "reset 100 0 0 0 0 0", "exec 0 "+seventeen, "sim 0 "+seventeen, "tx 0 0 0 "+seventeen)
	lines = append(lines, "reset 100 0 0 0 0 0", "exec 0 1 10", "sim 0 1 10", "tx 0 1 0 1 10", "tx 0 0 0 1 10",
		"reset 10 0 0 0 0 0", "exec 0 1 10", "tx 0 1 0 1 10", "tx 0 0 0 1 10", "exec 0 1 5 1 5 1 1", "tx 0 0 0 1 5 1 5 1 1")
	for i := 0; i < r.N(1500, 40000); i++ {
		var b []string
		for j := 0; j < c30N; j++ {
			v := uint64(r.RNG.Intn(30))
			switch r.RNG.Intn(10) {
			case 0:
				v = 0
			case 1:
				v = r.RNG.Pick64()
			case 2:
				v = ^uint64(0) - uint64(r.RNG.Intn(20))
			}
			b = append(b, strconv.FormatUint(v, 10))
		}
		lines = append(lines, "reset "+strings.Join(b, " "))
		for k := 0; k < 3; k++ {
			actor := r.RNG.Intn(c30N)
			a := acts(actor)
			price := uint64(0)
			if r.RNG.Chance(60) {
				price = uint64(r.RNG.Intn(3))
			}
			lines = append(lines, fmt.Sprintf("exec %d %s", actor, a), fmt.Sprintf("sim %d %s", actor, a),
				fmt.Sprintf("tx %d %d 0 %s", actor, price, a))
		}
	}
	return lines
}

func TestVerifC30(t *testing.T) {
	r := verifh.Start("C30")
	defer r.Finish()
	e := c30NewEnv()
	r.Fact("maxActionsPerTx", e.vm.rules.GetMaxActionsPerTx())
	lines := r.ReplayLines()
	if lines == nil {
		lines = c30Generate(r)
	}
	req := &http.Request{}
	// per state and (actor, actions): the API replies, to compare with the transaction
	lastExec := map[string]string{}
	for _, l := range lines {
		f := verifh.Fields(l)
		if len(f) < 2 {
			r.Emit(l, "bad-op")
			continue
		}
		switch f[0] {
		case "reset":
			if len(f) != 1+c30N {
				r.Emit(l, "bad-op")
				continue
			}
			store := map[string][]byte{}
			bad := false
			for i := 0; i < c30N; i++ {
				v, err := strconv.ParseUint(f[1+i], 10, 64)
				if err != nil {
					bad = true
					break
				}
				if v != 0 {
					store[string(storage.BalanceKey(e.addrs[i]))] = binary.BigEndian.AppendUint64(nil, v)
				}
			}
			if bad {
				r.Emit(l, "bad-op")
				continue
			}
			e.vm.store = store
			lastExec = map[string]string{}
			r.Emit(l, "ok")
		case "exec", "sim":
			actor, err := strconv.Atoi(f[1])
			acts, raw, ok := e.actions(f[2:])
			if err != nil || !ok || actor < 0 || actor >= c30N {
				r.Emit(l, "bad-op")
				continue
			}
			sig := f[1] + " " + strings.Join(f[2:], " ")
			if f[0] == "exec" {
				out := e.execAPI(req, actor, raw)
				lastExec[sig] = out
				r.Emit(l, out)
				r.Count("exec:" + strings.Fields(out)[0])
				continue
			}
			args := &jsonrpc.SimulatActionsArgs{Actor: e.addrs[actor]}
			for _, b := range raw {
				args.Actions = append(args.Actions, b)
			}
			var reply jsonrpc.SimulateActionsReply
			if err := e.srv.SimulateActions(req, args, &reply); err != nil {
				r.Emit(l, "err")
				r.Count("sim:err")
				if ex, ok := lastExec[sig]; ok && strings.HasPrefix(ex, "ok ") {
					r.Violation("simulate-fails-where-execute-succeeds", "%s", l)
				}
				continue
			}
			if b, err := json.Marshal(&reply); err != nil {
				r.Emit(l, "json-err")
				continue
			} else {
				var wire jsonrpc.SimulateActionsReply
				if err := json.Unmarshal(b, &wire); err != nil {
					r.Emit(l, "json-err")
					continue
				}
				reply = wire
			}
			if len(acts) > int(e.vm.rules.GetMaxActionsPerTx()) {
				r.Count("sim-above-action-limit-accepted")
			}
			var p, outs []string
			for _, ar := range reply.ActionResults {
				p = append(p, c30Out(ar.Output)+"/"+e.keysStr(ar.StateKeys))
				outs = append(outs, c30Out(ar.Output))
			}
			r.Emit(l, strings.Join(p, " "))
			r.Count("sim:ok")
			r.Distinct("sim " + sig + "|" + fmt.Sprint(e.vm.store))
			// oracle: simulation outputs = execution outputs
			if ex, ok := lastExec[sig]; ok && ex == "rpc-err" && len(acts) > int(e.vm.rules.GetMaxActionsPerTx()) {
				// above the action limit: ExecuteActions refuses, SimulateActions has no limit
				// (outside the property's quantifier; modelled, see simulate_above_limit)
			} else if ok && ex != "ok "+strings.Join(outs, " ") {
				r.Violation("simulate-differs-from-execute", "%s: exec=%q sim=%q", l, ex, strings.Join(outs, " "))
			}
			// oracle: the reported key sets are sufficient — each action, run in a view scoped to
			// exactly its reported keys over the state left by its predecessors, gives the same output
			ctx := context.Background()
			ts := tstate.New(1)
			for i, a := range acts {
				tsv := ts.NewView(reply.ActionResults[i].StateKeys, state.ImmutableStorage(e.vm.store), 4)
				out, err := a.Execute(ctx, e.vm.rules, tsv, c30Time, e.addrs[actor], chain.CreateActionID([32]byte{}, uint8(i)))
				if err != nil || c30Out(out) != outs[i] {
					r.Violation("simulated-keys-insufficient", "%s action %d: err=%v out=%s want %s keys=%s", l, i, err, c30Out(out), outs[i], e.keysStr(reply.ActionResults[i].StateKeys))
					break
				}
				tsv.Commit()
				// and they are covered by what the action declares (so a transaction can declare them)
				decl := a.StateKeys(e.addrs[actor], chain.CreateActionID([32]byte{}, uint8(i)))
				for k, perm := range reply.ActionResults[i].StateKeys {
					if !decl[k].Has(perm) {
						r.Violation("simulated-keys-not-declarable", "%s action %d key %x perm %v declared %v", l, i, k, perm, decl[k])
					}
				}
			}
		case "tx":
			if len(f) < 6 {
				r.Emit(l, "bad-op")
				continue
			}
			actor, err := strconv.Atoi(f[1])
			price, err2 := strconv.ParseUint(f[2], 10, 64)
			acts, raw, ok := e.actions(f[4:])
			if err != nil || err2 != nil || !ok || actor < 0 || actor >= c30N {
				r.Emit(l, "bad-op")
				continue
			}
			out, fee, _ := e.runTx(actor, price, acts)
			f[3] = strconv.FormatUint(fee, 10)
			l = strings.Join(f, " ")
			r.Emit(l, out)
			r.Count("tx:" + strings.Fields(out)[0])
			sig := f[1] + " " + strings.Join(f[4:], " ")
			ex, have := lastExec[sig]
			if !have || out == "unpayable" || out == "too-many" || ex == "rpc-err" {
				if (out == "too-many") != (have && ex == "rpc-err") && have {
					r.Violation("action-limit-differs-between-api-and-chain", "API %q on-chain %q for %s", ex, out, l)
				}
				continue
			}
			r.Distinct("tx " + sig + "|" + f[3] + "|" + fmt.Sprint(e.vm.store))
			// adopted reading: on-chain = the API on the state after the fee was deducted
			bk := string(storage.BalanceKey(e.addrs[actor]))
			old, had := e.vm.store[bk]
			if had && fee > 0 {
				if nb := binary.BigEndian.Uint64(old) - fee; nb == 0 {
					delete(e.vm.store, bk)
				} else {
					e.vm.store[bk] = binary.BigEndian.AppendUint64(nil, nb)
				}
			}
			post := e.execAPI(req, actor, raw)
			if had {
				e.vm.store[bk] = old
			}
			if post != out {
				r.Violation("api-on-postfee-state-differs-from-onchain", "fee=%d: API(post-fee) %q on-chain %q for %s", fee, post, out, l)
			} else if ex != out {
				// classify: Transfer's output reports the sender (= sponsor) balance, which on-chain
				// is read after the fee was deducted
				var tos []int
				var vals []uint64
				for i := 4; i+1 < len(f); i += 2 {
					t, _ := strconv.Atoi(f[i])
					v, _ := strconv.ParseUint(f[i+1], 10, 64)
					tos, vals = append(tos, t), append(vals, v)
				}
				var bal0 uint64
				if had {
					bal0 = binary.BigEndian.Uint64(old)
				}
				if c30Explained(ex, out, fee, bal0, actor, tos, vals) {
					r.Violation("output-reports-sponsor-balance-after-fee", "fee=%d: API %q on-chain %q for %s", fee, ex, out, l)
				} else {
					r.Violation("api-differs-from-onchain-unexplained", "fee=%d: API %q on-chain %q for %s", fee, ex, out, l)
				}
			}
		default:
			r.Emit(l, "bad-op")
		}
	}
}
