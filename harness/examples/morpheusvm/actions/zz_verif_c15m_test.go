package actions_test

import (
	"bytes"
	"context"
	stded25519 "crypto/ed25519"
	"encoding/binary"
	"fmt"
	"testing"

	"github.com/ava-labs/avalanchego/ids"

	"github.com/ava-labs/hypersdk/auth"
	"github.com/ava-labs/hypersdk/chain"
	"github.com/ava-labs/hypersdk/codec"
	"github.com/ava-labs/hypersdk/crypto/bls"
	"github.com/ava-labs/hypersdk/crypto/ed25519"
	"github.com/ava-labs/hypersdk/examples/morpheusvm/actions"
	"github.com/ava-labs/hypersdk/internal/verifh"
	"github.com/ava-labs/hypersdk/utils"
)

// C15, oracle-only tie on the reference VM's registered parsers (Transfer over linearcodec,
// ED25519/SECP256R1/BLS auth): every tx accepted by chain.UnmarshalTx re-encodes identically.
// Line protocol: `tx <hex>` -> `err` | `ok re=<hex>`.
func TestVerifC15Morpheus(t *testing.T) {
	r := verifh.Start("C15")
	defer r.Finish()
	ap, up := codec.NewTypeParser[chain.Action](), codec.NewTypeParser[chain.Auth]()
	if err := ap.Register(&actions.Transfer{}, actions.UnmarshalTransfer); err != nil {
		t.Fatal(err)
	}
	for _, e := range []struct {
		i codec.Typed
		f func([]byte) (chain.Auth, error)
	}{{&auth.ED25519{}, auth.UnmarshalED25519}, {&auth.SECP256R1{}, auth.UnmarshalSECP256R1}, {&auth.BLS{}, auth.UnmarshalBLS}} {
		if err := up.Register(e.i, e.f); err != nil {
			t.Fatal(err)
		}
	}
	parser := chain.NewTxTypeParser(ap, up)
	g := r.RNG

	lines := r.ReplayLines()
	if lines == nil {
		mkTransfer := func() *actions.Transfer {
			tr := &actions.Transfer{Value: g.Pick64(), Memo: g.Bytes(g.Intn(12))}
			copy(tr.To[:], g.Bytes(33))
			return tr
		}
		// real BLS auths (145 bytes: two-byte length prefix); UnmarshalBLS needs valid points
		var blsAuths [][]byte
		for i := 0; len(blsAuths) < 4; i++ {
			seed := g.Bytes(32)
			seed[0] = byte(i % 64)
			sk, err := bls.PrivateKeyFromBytes(seed)
			if err != nil {
				continue
			}
			sig, err := bls.Sign(g.Bytes(16), sk)
			if err != nil {
				t.Fatal(err)
			}
			blsAuths = append(blsAuths, (&auth.BLS{Signer: bls.PublicFromPrivateKey(sk), Signature: sig}).Bytes())
		}
		mkAuth := func() []byte {
			switch g.Intn(3) {
			case 0:
				return append([]byte{auth.ED25519ID}, g.Bytes(auth.ED25519Size-1)...)
			case 1:
				return append([]byte{auth.SECP256R1ID}, g.Bytes(auth.SECP256R1Size-1)...)
			default:
				return append([]byte{}, blsAuths[g.Intn(len(blsAuths))]...)
			}
		}
		add := func(base chain.Base, acts [][]byte, au []byte) {
			cb := make([]codec.Bytes, len(acts))
			for i := range acts {
				cb[i] = acts[i]
			}
			lines = append(lines, "tx "+verifh.Hex((&chain.SerializeTx{Base: base, Actions: cb, Auth: au}).MarshalCanoto()))
		}
		base0 := chain.Base{Timestamp: 1724315246000, ChainID: ids.ID{1, 2, 3}, MaxFee: 7}
		tr0 := (&actions.Transfer{Value: 1}).Bytes()
		// corpus first: Transfer ++ junk
		add(base0, [][]byte{append(append([]byte{}, tr0...), 0xff, 0xee)}, mkAuth())
		add(base0, [][]byte{tr0}, mkAuth())
		for _, ba := range blsAuths { // auth field >= 128 bytes
			add(base0, [][]byte{tr0}, ba)
			add(base0, [][]byte{tr0, tr0}, append(append([]byte{}, ba...), 0))
		}
		// honestly signed transactions, one per auth type and action count
		{
			var edk ed25519.PrivateKey
			copy(edk[:], stded25519.NewKeyFromSeed(g.Bytes(32)))
			bseed := g.Bytes(32)
			bseed[0] = 1
			bk, err := bls.PrivateKeyFromBytes(bseed)
			if err != nil {
				t.Fatal(err)
			}
			for _, fac := range []chain.AuthFactory{auth.NewED25519Factory(edk), auth.NewBLSFactory(bk)} {
				for n := 1; n <= 3; n++ {
					acts := make([]chain.Action, n)
					for j := range acts {
						acts[j] = mkTransfer()
					}
					td := chain.NewTxData(base0, acts)
					stx, err := td.Sign(fac)
					if err != nil {
						t.Fatal(err)
					}
					lines = append(lines, "stx "+verifh.Hex(stx.Bytes()))
				}
			}
		}
		for i := 0; i < r.N(600, 20000); i++ {
			base := chain.Base{Timestamp: int64(g.Pick64()), MaxFee: g.Pick64()}
			copy(base.ChainID[:], g.Bytes(32))
			var acts [][]byte
			for j := 1 + g.Intn(3); j > 0; j-- {
				a := mkTransfer().Bytes()
				switch g.Intn(8) {
				case 0:
					a = append(a, g.Bytes(1+g.Intn(3))...)
				case 1:
					a = a[:g.Intn(len(a))]
				case 2:
					a[g.Intn(len(a))] ^= byte(1 << g.Intn(8))
				}
				acts = append(acts, a)
			}
			au := mkAuth()
			switch g.Intn(8) {
			case 0:
				au = append(au, 0)
			case 1:
				au = au[:len(au)-1]
			}
			add(base, acts, au)
		}
	}
	for _, l := range lines {
		f := verifh.Fields(l)
		if len(f) != 2 || (f[0] != "tx" && f[0] != "stx") {
			r.Emit(l, "bad-op")
			continue
		}
		b := verifh.MustUnHex(f[1])
		tx, err := chain.UnmarshalTx(b, parser)
		if err != nil {
			r.Emit(l, "err")
			continue
		}
		re, err := chain.NewTransaction(tx.Base, tx.Actions, tx.Auth)
		if err != nil {
			t.Fatal(err)
		}
		r.Emit(l, "ok re="+verifh.Hex(re.Bytes()))
		r.Distinct(l)
		key := "tx-reencode-differs"
		stx := &chain.SerializeTx{}
		_ = stx.UnmarshalCanoto(b)
		for i, ab := range stx.Actions {
			if i < len(tx.Actions) {
				if rb := tx.Actions[i].Bytes(); len(rb) < len(ab) && bytes.HasPrefix(ab, rb) {
					key = "action-trailing-bytes"
				}
			}
		}
		if rb := tx.Auth.Bytes(); key == "tx-reencode-differs" && len(rb) < len(stx.Auth) && bytes.HasPrefix(stx.Auth, rb) {
			key = "auth-trailing-bytes"
		}
		if !bytes.Equal(re.Bytes(), b) {
			r.Violation(key, "morpheusvm parser: accepted tx %x re-encodes as %x", b, re.Bytes())
		}
		if tx.GetID() != utils.ToID(b) {
			r.Violation("tx-id-not-hash", "tx %x", b)
		}
		body := chain.NewTxData(tx.Base, tx.Actions)
		want := append([]byte{}, body.UnsignedBytes()...)
		want = append(want, 0x1a)
		want = binary.AppendUvarint(want, uint64(len(tx.Auth.Bytes())))
		want = append(want, tx.Auth.Bytes()...)
		trailing := key == "action-trailing-bytes" || key == "auth-trailing-bytes"
		if !bytes.Equal(body.UnsignedBytes(), tx.UnsignedBytes()) {
			if !trailing {
				key = "unsigned-not-body"
			}
			r.Violation(key, "tx %x: signed message %x is not the body encoding %x", b, tx.UnsignedBytes(), body.UnsignedBytes())
		} else if !bytes.Equal(want, b) {
			if !trailing {
				key = "signed-not-body-plus-auth"
			}
			r.Violation(key, "tx %x is not body ++ auth field", b)
		}
		// an honestly signed transaction (op `stx`) still verifies after being parsed
		if f[0] == "stx" {
			if err := tx.VerifyAuth(context.Background()); err != nil {
				r.Violation("signed-tx-fails-verify", "honestly signed tx %x does not verify after parsing: %v", b, err)
			}
		}
	}
	_ = fmt.Sprint
}
