package actions_test

import (
	"context"
	"fmt"
	"math/big"
	"strconv"
	"strings"
	"testing"
	"time"

	"github.com/ava-labs/hypersdk/chain"
	"github.com/ava-labs/hypersdk/chain/chaintest"
	"github.com/ava-labs/hypersdk/codec"
	"github.com/ava-labs/hypersdk/examples/morpheusvm/actions"
	"github.com/ava-labs/hypersdk/examples/morpheusvm/storage"
	"github.com/ava-labs/hypersdk/fees"
	"github.com/ava-labs/hypersdk/internal/verifh"
	"github.com/ava-labs/hypersdk/internal/verifx"
)

// C06: token supply of the reference VM is conserved except for burned fees.
//
//   reset m <universe = balance keys> <init k=v,...>
//   xfer <prices> <units> <sponsor> <actor> <now> <ts> <maxfee> <to:value:memolen|...>
//
// Every xfer is a real chain.Transaction of actions.Transfer actions executed like the
// processor does (fresh TStateView over the block's TState, PreExecute, Execute, Commit).
// Output: outcome line of verifx + ` sum=<sum of all balance records>`.

type c06Tx struct {
	prices, units  fees.Dimensions
	sponsor, actor codec.Address
	now, ts        int64
	maxFee         uint64
	transfers      []*actions.Transfer
	raw            string
}

func parseC06(f []string) (*c06Tx, error) {
	if len(f) != 9 || f[0] != "xfer" {
		return nil, fmt.Errorf("bad xfer line")
	}
	t := &c06Tx{raw: f[8]}
	var err error
	if t.prices, err = verifx.ParseDims(f[1]); err != nil {
		return nil, err
	}
	if t.units, err = verifx.ParseDims(f[2]); err != nil {
		return nil, err
	}
	if t.sponsor, err = verifx.ParseAddr(f[3]); err != nil {
		return nil, err
	}
	if t.actor, err = verifx.ParseAddr(f[4]); err != nil {
		return nil, err
	}
	if t.now, err = strconv.ParseInt(f[5], 10, 64); err != nil {
		return nil, err
	}
	if t.ts, err = strconv.ParseInt(f[6], 10, 64); err != nil {
		return nil, err
	}
	if t.maxFee, err = strconv.ParseUint(f[7], 10, 64); err != nil {
		return nil, err
	}
	if f[8] != "none" {
		for _, s := range strings.Split(f[8], "|") {
			p := strings.Split(s, ":")
			if len(p) != 3 {
				return nil, fmt.Errorf("bad transfer %q", s)
			}
			to, err := verifx.ParseAddr(p[0])
			if err != nil {
				return nil, err
			}
			v, err := strconv.ParseUint(p[1], 10, 64)
			if err != nil {
				return nil, err
			}
			ml, err := strconv.ParseUint(p[2], 10, 16)
			if err != nil || ml > 1000 {
				return nil, fmt.Errorf("bad memo length")
			}
			t.transfers = append(t.transfers, &actions.Transfer{To: to, Value: v, Memo: make([]byte, ml)})
		}
	}
	return t, nil
}

func (t *c06Tx) build(env *verifx.Env) (*chain.Transaction, error) {
	acts := make([]chain.Action, len(t.transfers))
	for i, a := range t.transfers {
		acts[i] = a
	}
	auth := &chaintest.TestAuth{NumComputeUnits: 1, ActorAddress: t.actor, SponsorAddress: t.sponsor, Start: -1, End: -1}
	return chain.NewTransaction(chain.Base{Timestamp: t.ts, ChainID: env.ChainID, MaxFee: t.maxFee}, acts, auth)
}

func (t *c06Tx) line() string {
	return fmt.Sprintf("xfer %s %s %s %s %d %d %d %s", verifx.DimsString(t.prices), verifx.DimsString(t.units),
		verifh.Hex(t.sponsor[:]), verifh.Hex(t.actor[:]), t.now, t.ts, t.maxFee, t.raw)
}

// fill computes the units of the real transaction and returns the final op line.
func (t *c06Tx) fill(env *verifx.Env, bh chain.BalanceHandler) string {
	p, err := parseC06(verifh.Fields(t.line()))
	if err != nil {
		panic(err)
	}
	tx, err := p.build(env)
	if err != nil {
		panic(err)
	}
	u, err := tx.Units(bh, env.Rules)
	if err != nil {
		panic(err)
	}
	t.units = u
	return t.line()
}

// supply sums every balance record of the visible state (all keys with the balance prefix).
func supply(vis map[string][]byte) (*big.Int, int) {
	s := new(big.Int)
	malformed := 0
	probe := storage.BalanceKey(codec.Address{})
	for k, v := range vis {
		if len(k) != len(probe) || k[0] != probe[0] {
			continue
		}
		u, ok := verifx.U64(v)
		if !ok {
			malformed++
			continue
		}
		s.Add(s, new(big.Int).SetUint64(u))
	}
	return s, malformed
}

func TestVerifC06(t *testing.T) {
	r := verifh.Start("C06")
	defer r.Finish()
	ctx := context.Background()
	env := verifx.NewEnv()
	bh := &storage.BalanceHandler{}
	accts := []codec.Address{verifx.Addr(1), verifx.Addr(2), verifx.Addr(3), verifx.Addr(4)} // Addr(4) only ever receives
	var universe [][]byte
	for _, a := range accts {
		universe = append(universe, storage.BalanceKey(a))
	}
	uni := make([]string, len(universe))
	for i, k := range universe {
		uni[i] = verifh.Hex(k)
	}
	uniS := strings.Join(uni, ",")
	now := verifx.C03Now

	type seqTx struct {
		p *c06Tx
		o verifx.TxOutcome
	}
	var seq []seqTx
	rb := verifx.NewRealBlocks(bh)
	// block: the sequence as one real block through Processor.Execute and Builder.BuildBlock;
	// the conservation oracle is evaluated on the post-state view they return.
	block := func(c *verifx.Chain, l string) {
		for i := range seq {
			if seq[i].p.prices != seq[0].p.prices || seq[i].p.now != seq[0].p.now {
				r.Emit(l, "mixed")
				return
			}
		}
		var viol []func()
		v := func(key, format string, a ...any) { viol = append(viol, func() { r.Violation(key, format, a...) }) }
		prices := fees.Dimensions{}
		if len(seq) > 0 {
			prices = seq[0].p.prices
		}
		rules := verifx.BlockRules(prices)
		mk := func(p *c06Tx, ts int64) *chain.Transaction {
			cp := *p
			cp.ts = ts
			tx, err := cp.build(env)
			if err != nil {
				panic(err)
			}
			return tx
		}
		var okTxs, allTxs []*chain.Transaction
		var okRes []*chain.Result
		allOk := true
		for _, x := range seq {
			allTxs = append(allTxs, mk(x.p, x.p.ts))
			if x.o.Stage == "ok" {
				okTxs = append(okTxs, mk(x.p, x.p.ts))
				okRes = append(okRes, x.o.Result)
			} else {
				allOk = false
			}
		}
		before, _ := supply(c.Base)
		conserved := func(where string, out verifx.RealOut) {
			want := new(big.Int).Set(before)
			for _, res := range out.Results {
				want.Sub(want, new(big.Int).SetUint64(res.Fee))
			}
			got, _ := supply(out.State)
			if got.Cmp(want) != 0 {
				v("supply-not-conserved", "%s: sum of all balance records %s -> %s, expected %s (= before - sum of Result.Fee)", where, before, got, want)
			}
		}
		want := c.Visible()
		pv := rb.Verify(rules, c.Base, now, okTxs)
		proc := verifx.ErrTag(pv.Err)
		sum := "-"
		if pv.Err == nil {
			proc = fmt.Sprintf("ok n=%d state=%s", len(pv.Results), verifx.StateStringOf(c.Universe, pv.State))
			s, _ := supply(pv.State)
			sum = s.String()
			conserved("Processor.Execute", pv)
			for i := range okRes {
				if i < len(pv.Results) && !verifx.ResultsEqual(okRes[i], pv.Results[i]) {
					v("processor-result-differs", "tx %d: Processor.Execute result %+v, one-by-one execution %+v", i, pv.Results[i], okRes[i])
					break
				}
			}
			if len(pv.State) != len(want) {
				v("processor-state-differs", "post-state of Processor.Execute has %d keys, one-by-one execution %d", len(pv.State), len(want))
			}
			for k, x := range want {
				if string(pv.State[k]) != string(x) {
					v("processor-state-differs", "key %x: Processor.Execute %x, one-by-one execution %x", k, pv.State[k], x)
					break
				}
			}
		} else {
			v("valid-block-rejected", "Processor.Execute rejects a block of transactions that each pay their fee: %v", pv.Err)
		}
		procall := "ok"
		if !allOk {
			if pa := rb.Verify(rules, c.Base, now, allTxs); pa.Err != nil {
				procall = "err"
			} else {
				v("block-with-failing-tx-accepted", "Processor.Execute accepted a block containing a transaction whose PreExecute/Execute fails")
			}
		} else if pv.Err != nil {
			procall = "err"
		}
		base := (time.Now().UnixMilli() / 1000) * 1000
		var btxs []*chain.Transaction
		for _, x := range seq {
			btxs = append(btxs, mk(x.p, base+(x.p.ts-x.p.now)))
		}
		built, ver := rb.Build(rules, c.Base, btxs)
		build := ""
		if built.Err != nil {
			build = "abort:" + verifx.ClassErr(built.Err)
			explained := false
			for _, x := range seq {
				// PreExecute ok, Execute error: zero fee and no balance record (C03 known finding
				// build-aborts-on-zero-fee-absent-sponsor); nothing is created or destroyed
				if x.o.Stage == "exec" && verifx.BigFee(x.p.prices, x.p.units).Sign() == 0 {
					explained = true
				}
			}
			if explained {
				r.Count("build-abort:zero-fee-absent-sponsor")
			} else {
				v("build-aborted", "Builder.BuildBlock returned %v", built.Err)
			}
		} else {
			in := map[string]bool{}
			for _, tx := range built.Txs {
				in[string(tx.Bytes())] = true
			}
			flags := make([]string, len(seq))
			for i, x := range seq {
				flags[i] = "0"
				if in[string(btxs[i].Bytes())] {
					flags[i] = "1"
				}
				if in[string(btxs[i].Bytes())] != (x.o.Stage == "ok") {
					v("builder-includes-differ", "Builder.BuildBlock inclusion of tx %d differs from one-by-one execution", i)
				}
			}
			build = "ok inc=" + strings.Join(flags, ",")
			if len(flags) == 0 {
				build = "ok inc=none"
			}
			conserved("Builder.BuildBlock", built)
			if ver.Err != nil {
				v("built-block-rejected", "Processor.Execute rejects the block the builder produced: %v", ver.Err)
			} else if fmt.Sprint(built.State) != fmt.Sprint(ver.State) {
				v("builder-verifier-state-differ", "builder and verifier post-states differ")
			}
		}
		r.Emit(l, fmt.Sprintf("proc=%s procall=%s build=%s sum=%s", proc, procall, build, sum))
		for _, f := range viol {
			f()
		}
	}

	exec := func(c *verifx.Chain, l string, emit bool) {
		f := verifh.Fields(l)
		p, err := parseC06(f)
		if err != nil || c == nil {
			if emit {
				r.Emit(l, "bad-op")
			}
			return
		}
		tx, err := p.build(env)
		if err != nil {
			if emit {
				r.Emit(l, "bad-op")
			}
			return
		}
		realUnits, uerr := tx.Units(bh, env.Rules)
		if uerr != nil || realUnits != p.units {
			if emit {
				r.Emit(l, fmt.Sprintf("units-mismatch real=%s err=%v", verifx.DimsString(realUnits), uerr))
				r.Violation("harness-units", "units on the op line differ from Transaction.Units: %s", l)
			}
			return
		}
		pre, _ := supply(c.Visible())
		o := c.Process(ctx, env, bh, p.prices, tx, p.now)
		post, _ := supply(c.Visible())
		if !emit {
			return
		}
		seq = append(seq, seqTx{p: p, o: o})
		r.Emit(l, c.OutcomeString(o)+" sum="+post.String()+" diff="+c.DiffString())
		r.Count("stage:" + o.Stage)
		r.Count(fmt.Sprintf("ntransfers:%d", len(p.transfers)))
		// ---- oracle: sum after = sum before - fee charged (nothing created or destroyed)
		want := new(big.Int).Set(pre)
		if o.Stage == "ok" {
			want.Sub(want, new(big.Int).SetUint64(o.Result.Fee))
			if o.Result.Success {
				r.Count("result:success")
			} else {
				r.Count("result:failure:" + verifx.Class(string(o.Result.Error)))
			}
			self, full := 0, false
			for _, tr := range p.transfers {
				if tr.To == p.actor {
					self++
				}
			}
			_ = full
			if o.Result.Success && len(p.transfers) >= 2 || !o.Result.Success && len(o.Result.Outputs) >= 1 || self > 0 {
				r.Distinct(l)
			}
			if self >= 2 {
				r.Count("self-transfers>=2")
			}
		} else {
			r.Count("err:" + o.Stage + ":" + verifx.ClassErr(o.Err))
		}
		if post.Cmp(want) != 0 {
			r.Violation("supply-not-conserved", "sum of balances %s -> %s, expected %s (stage %s)", pre, post, want, o.Stage)
		}
	}

	lines := r.ReplayLines()
	if lines == nil {
		rng := r.RNG
		a1 := verifh.Hex(accts[0][:])
		one := fees.Dimensions{1, 1, 1, 1, 1}
		// corpus: the C04/C06 witness — one tx with two full-balance self-transfers
		{
			t1 := &c06Tx{prices: one, sponsor: accts[0], actor: accts[0], now: now, ts: now + 30000, raw: a1 + ":100:0|" + a1 + ":100:0"}
			l := t1.fill(env, bh)
			fee := verifx.BigFee(t1.prices, t1.units).Uint64()
			lines = append(lines, fmt.Sprintf("reset m %s %s=%s", uniS, uni[0], verifh.Hex(verifx.PutU64(fee+100))), l, "block")
			// and the same with three, then a failing fourth action
			t2 := &c06Tx{prices: one, sponsor: accts[0], actor: accts[0], now: now, ts: now + 30000, raw: a1 + ":7:0|" + a1 + ":7:0|" + a1 + ":7:0|" + a1 + ":8:0"}
			l2 := t2.fill(env, bh)
			fee2 := verifx.BigFee(t2.prices, t2.units).Uint64()
			lines = append(lines, fmt.Sprintf("reset m %s %s=%s", uniS, uni[0], verifh.Hex(verifx.PutU64(fee2+7))), l2, "block")
		}
		for i := 0; i < r.N(1400, 40000); i++ {
			// one block: initial allocation, then 1..4 transfer transactions
			init := map[string][]byte{}
			for j := range accts {
				if j == 3 {
					continue // the fourth account has no record before the block
				}
				if rng.Intn(40) == 0 {
					init[string(universe[j])] = rng.Bytes(7) // malformed record: can never be spent or credited
					continue
				}
				switch rng.Intn(8) {
				case 0:
				case 1:
					init[string(universe[j])] = verifx.PutU64(^uint64(0) - uint64(rng.Intn(3)))
				case 2:
					init[string(universe[j])] = verifx.PutU64(uint64(1) << 63)
				case 3:
					init[string(universe[j])] = verifx.PutU64(uint64(rng.Intn(400)))
				default:
					init[string(universe[j])] = verifx.PutU64(uint64(200 + rng.Intn(5000)))
				}
			}
			var kv []string
			for j := range accts {
				if v, ok := init[string(universe[j])]; ok {
					kv = append(kv, uni[j]+"="+verifh.Hex(v))
				}
			}
			initS := "-"
			if len(kv) > 0 {
				initS = strings.Join(kv, ",")
			}
			lines = append(lines, fmt.Sprintf("reset m %s %s", uniS, initS))
			scratch := verifx.NewChain(universe, init) // mirrors the state so that values can be chosen at the boundaries
			var blockPrices fees.Dimensions
			for d := range blockPrices {
				blockPrices[d] = uint64(rng.Intn(3))
			}
			if rng.Chance(40) {
				blockPrices = one
			}
			blockN := 0
			for n := 2 + rng.Intn(4); n > 0; n-- {
				tx := &c06Tx{now: now, ts: now + 30000, maxFee: rng.Pick64()}
				tx.actor = accts[rng.Intn(3)]
				tx.sponsor = tx.actor
				if rng.Chance(35) {
					tx.sponsor = accts[rng.Intn(3)]
				}
				tx.prices = blockPrices
				tx.maxFee = tx.maxFee/8*8 + uint64(blockN) // distinct transactions within the block
				blockN++
				nT := 1 + rng.Intn(4)
				if rng.Chance(8) {
					nT = 5 + rng.Intn(12)
				}
				// first pass with placeholder values to learn the fee (values do not change the size:
				// uint64 is fixed width)
				mk := func(vals []uint64, tos []int, memos []int) {
					p := make([]string, len(vals))
					for i := range vals {
						p[i] = fmt.Sprintf("%s:%d:%d", verifh.Hex(accts[tos[i]][:]), vals[i], memos[i])
					}
					tx.raw = strings.Join(p, "|")
				}
				vals, tos, memos := make([]uint64, nT), make([]int, nT), make([]int, nT)
				for i := range tos {
					tos[i] = rng.Intn(4)
					if rng.Chance(35) {
						for j, a := range accts {
							if a == tx.actor {
								tos[i] = j
							}
						}
					}
					switch rng.Intn(20) {
					case 0:
						memos[i] = 256
					case 1:
						memos[i] = 257
					case 2:
						memos[i] = 5
					}
				}
				mk(vals, tos, memos)
				tx.fill(env, bh)
				fee := verifx.BigFee(tx.prices, tx.units)
				vis := scratch.Visible()
				bal := uint64(0)
				if v, ok := verifx.U64(vis[string(storage.BalanceKey(tx.actor))]); ok {
					bal = v
				}
				if tx.sponsor == tx.actor && fee.IsUint64() && fee.Uint64() <= bal {
					bal -= fee.Uint64()
				}
				u64of := func(m map[string][]byte, j int) uint64 {
					v, _ := verifx.U64(m[string(universe[j])])
					return v
				}
				for i := range vals {
					switch rng.Intn(17) {
					case 12, 13, 14, 15, 16:
						// refill the recipient to exactly the balance it had before the block
						// (it may have been emptied, i.e. its record removed, by an earlier tx)
						if pre, cur := u64of(init, tos[i]), u64of(vis, tos[i]); pre > cur {
							vals[i] = pre - cur
						} else {
							vals[i] = bal
						}
					case 0:
						vals[i] = 0
					case 1, 2, 3, 4:
						vals[i] = bal // full balance (after the fee)
					case 5:
						vals[i] = bal + 1
					case 6:
						vals[i] = bal / 2
					case 7:
						vals[i] = ^uint64(0)
					case 8:
						if bal > 0 {
							vals[i] = bal - 1
						}
					default:
						vals[i] = uint64(1 + rng.Intn(50))
					}
					if tos[i] >= 0 && accts[tos[i]] != tx.actor && vals[i] <= bal {
						bal -= vals[i]
					}
				}
				mk(vals, tos, memos)
				l := tx.fill(env, bh)
				lines = append(lines, l)
				exec(scratch, l, false)
			}
			lines = append(lines, "block")
		}
	}

	var c *verifx.Chain
	for _, l := range lines {
		f := verifh.Fields(l)
		if len(f) == 4 && f[0] == "reset" {
			u, err1 := verifx.ParseKeys(f[2])
			init, err2 := verifx.ParseKV(f[3])
			if f[1] != "m" || err1 != nil || err2 != nil {
				r.Emit(l, "bad-op")
				c = nil
				continue
			}
			c = verifx.NewChain(u, init)
			seq = nil
			s, _ := supply(c.Visible())
			r.Emit(l, "ok sum="+s.String())
			continue
		}
		if len(f) == 1 && f[0] == "block" {
			if c == nil {
				r.Emit(l, "bad-op")
			} else {
				block(c, l)
			}
			continue
		}
		exec(c, l, true)
	}
}
