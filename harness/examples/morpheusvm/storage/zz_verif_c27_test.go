package storage_test

import (
	"testing"

	"github.com/ava-labs/hypersdk/chain"
	"github.com/ava-labs/hypersdk/codec"
	"github.com/ava-labs/hypersdk/examples/morpheusvm/storage"
	"github.com/ava-labs/hypersdk/internal/verifh"
	"github.com/ava-labs/hypersdk/internal/verifx"
	"github.com/ava-labs/hypersdk/state/metadata"
)

// C27 with the reference VM's balance handler (hard-wired prefix 0x03).
func TestVerifC27(t *testing.T) {
	r := verifh.Start("C27")
	defer r.Finish()
	verifx.RunC27(r, verifx.C27Handler{
		Fixed: []byte{metadata.DefaultMinimumPrefix},
		New: func([]byte) (chain.BalanceHandler, func(codec.Address) []byte) {
			return &storage.BalanceHandler{}, storage.BalanceKey
		},
	})
}
