package storage_test

import (
	"testing"

	"github.com/ava-labs/hypersdk/examples/morpheusvm/storage"
	"github.com/ava-labs/hypersdk/internal/verifh"
	"github.com/ava-labs/hypersdk/internal/verifx"
)

// C03 with the reference VM's balance handler (delete at zero).
func TestVerifC03(t *testing.T) {
	r := verifh.Start("C03")
	defer r.Finish()
	verifx.RunC03(r, &storage.BalanceHandler{}, "m")
}
