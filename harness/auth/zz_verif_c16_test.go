package auth_test

import (
	"context"
	"fmt"
	"strconv"
	"strings"
	"sync"
	"testing"
	"time"

	"github.com/ava-labs/avalanchego/ids"
	"github.com/ava-labs/avalanchego/utils/logging"

	"github.com/ava-labs/hypersdk/auth"
	"github.com/ava-labs/hypersdk/chain"
	"github.com/ava-labs/hypersdk/chain/chaintest"
	"github.com/ava-labs/hypersdk/crypto/bls"
	"github.com/ava-labs/hypersdk/crypto/ed25519"
	"github.com/ava-labs/hypersdk/crypto/secp256r1"
	"github.com/ava-labs/hypersdk/internal/verifh"
	"github.com/ava-labs/hypersdk/internal/workers"
)

// C16: block signature verification (per-type batching + worker pool) succeeds iff every
// transaction's auth verifies over its unsigned bytes.
//
//   facts                                  -> minbatch=<n> batched=<ids> ids=<ed>,<secp>,<bls>
//   block w=<workers> <item>*              item = e|s|b (ed25519|secp256r1|bls) + 1 valid | 0 corrupted signature | 2 other message signed
//        -> <ok|fail|hang> direct=<n> early=<batch sizes handed out by Add> done=<#closures from Done>:<items not handed out early>
// The block is pushed through the code path of Processor.verifySignatures / waitSignatures:
// workers.NewJob, chain.NewAuthBatch(auth.DefaultEngines()), Add per tx, go Done, job.Wait.

type c16RecBV struct {
	inner   chain.AuthBatchVerifier
	mu      sync.Mutex
	pending int
	early   []int
	done    int
	total   int
}

func (b *c16RecBV) Add(msg []byte, a chain.Auth) func() error {
	j := b.inner.Add(msg, a)
	b.mu.Lock()
	b.pending++
	b.total++
	if j != nil {
		b.early = append(b.early, b.pending)
		b.pending = 0
	}
	b.mu.Unlock()
	return j
}

func (b *c16RecBV) Done() []func() error {
	js := b.inner.Done()
	b.mu.Lock()
	b.done = len(js)
	b.mu.Unlock()
	return js
}

type c16Engines struct {
	inner auth.Engines
	mu    sync.Mutex
	recs  map[uint8]*c16RecBV
}

func (e *c16Engines) GetAuthBatchVerifier(t uint8, cores int, count int) (chain.AuthBatchVerifier, bool) {
	bv, ok := e.inner.GetAuthBatchVerifier(t, cores, count)
	if !ok {
		return nil, false
	}
	r := &c16RecBV{inner: bv}
	e.mu.Lock()
	e.recs[t] = r
	e.mu.Unlock()
	return r, true
}

type c16Signer struct {
	factories map[byte][]chain.AuthFactory
	cache     map[string]*chain.Transaction
}

func c16NewSigner(t *testing.T) *c16Signer {
	s := &c16Signer{factories: map[byte][]chain.AuthFactory{}, cache: map[string]*chain.Transaction{}}
	for i := 0; i < 3; i++ {
		ep, err := ed25519.GeneratePrivateKey()
		if err != nil {
			t.Fatal(err)
		}
		sp, err := secp256r1.GeneratePrivateKey()
		if err != nil {
			t.Fatal(err)
		}
		bp, err := bls.GeneratePrivateKey()
		if err != nil {
			t.Fatal(err)
		}
		s.factories['e'] = append(s.factories['e'], auth.NewED25519Factory(ep))
		s.factories['s'] = append(s.factories['s'], auth.NewSECP256R1Factory(sp))
		s.factories['b'] = append(s.factories['b'], auth.NewBLSFactory(bp))
	}
	return s
}

// tx returns a transaction of auth type ty for block position pos; kind 1 = correctly signed,
// 0 = signature bytes corrupted (bls: signature of another key), 2 = signature over another message.
func (s *c16Signer) tx(ty byte, pos int, kind byte) *chain.Transaction {
	slot := pos % 64
	key := fmt.Sprintf("%c/%d/%c", ty, slot, kind)
	if tx, ok := s.cache[key]; ok {
		return tx
	}
	fs := s.factories[ty]
	f := fs[slot%len(fs)]
	act := chaintest.NewDummyTestAction()
	act.Nonce = uint64(slot)
	base := chain.Base{Timestamp: int64(1_000_000 + slot*1000), ChainID: ids.ID{1, 2, 3}, MaxFee: uint64(1000 + slot)}
	actions := []chain.Action{act}
	td := chain.NewTxData(base, actions)
	var a chain.Auth
	var err error
	switch kind {
	case '1':
		a, err = f.Sign(td.UnsignedBytes())
	case '2':
		other := append(append([]byte{}, td.UnsignedBytes()...), 0x01)
		a, err = f.Sign(other)
	default:
		a, err = f.Sign(td.UnsignedBytes())
		if err == nil {
			switch v := a.(type) {
			case *auth.ED25519:
				v.Signature[7] ^= 0x40
			case *auth.SECP256R1:
				v.Signature[9] ^= 0x40
			case *auth.BLS:
				var b chain.Auth
				b, err = fs[(slot+1)%len(fs)].Sign(td.UnsignedBytes())
				if err == nil {
					v.Signature = b.(*auth.BLS).Signature
				}
			}
		}
	}
	if err != nil {
		panic(err)
	}
	tx, err := chain.NewTransaction(base, actions, a)
	if err != nil {
		panic(err)
	}
	s.cache[key] = tx
	return tx
}

func TestVerifC16(t *testing.T) {
	r := verifh.Start("C16")
	defer r.Finish()
	lines := r.ReplayLines()
	if lines == nil {
		lines = c16Generate(r)
	}
	signer := c16NewSigner(t)
	hangs := 0
	for _, l := range lines {
		f := verifh.Fields(l)
		switch {
		case len(f) == 1 && f[0] == "facts":
			var batched []string
			for _, id := range []uint8{auth.ED25519ID, auth.SECP256R1ID, auth.BLSID} {
				if _, ok := auth.DefaultEngines().GetAuthBatchVerifier(id, 1, 1); ok {
					batched = append(batched, strconv.Itoa(int(id)))
				}
			}
			r.Emit(l, fmt.Sprintf("minbatch=%d batched=%s ids=%d,%d,%d", ed25519.MinBatchSize, strings.Join(batched, ","), auth.ED25519ID, auth.SECP256R1ID, auth.BLSID))
		case len(f) >= 2 && f[0] == "block" && strings.HasPrefix(f[1], "w="):
			w, err := strconv.Atoi(f[1][2:])
			ok := err == nil && w >= 1 && w <= 64
			for _, it := range f[2:] {
				if len(it) != 2 || !strings.ContainsRune("esb", rune(it[0])) || !strings.ContainsRune("012", rune(it[1])) {
					ok = false
				}
			}
			if !ok {
				r.Emit(l, "bad-op")
				continue
			}
			txs := make([]*chain.Transaction, 0, len(f)-2)
			for i, it := range f[2:] {
				txs = append(txs, signer.tx(it[0], i, it[1]))
			}
			var vios [][2]string
			viol := func(key, format string, a ...any) { vios = append(vios, [2]string{key, fmt.Sprintf(format, a...)}) }
			// oracle: one-by-one verification
			want := true
			ninv := 0
			for _, tx := range txs {
				if tx.VerifyAuth(context.Background()) != nil {
					want = false
					ninv++
				}
			}
			for i, it := range f[2:] {
				if (it[1] == '1') != (txs[i].VerifyAuth(context.Background()) == nil) {
					viol("test-vector-broken", "item %d (%s): individual verification says %v", i, it, txs[i].VerifyAuth(context.Background()))
				}
			}
			// the code path of Processor.verifySignatures / waitSignatures
			authCounts := map[uint8]int{} // NewExecutionBlock
			for _, tx := range txs {
				authCounts[tx.Auth.GetTypeID()]++
			}
			pool := workers.NewParallel(w, 4)
			job, err := pool.NewJob(len(txs))
			if err != nil {
				t.Fatal(err)
			}
			eng := &c16Engines{inner: auth.DefaultEngines(), recs: map[uint8]*c16RecBV{}}
			bv := chain.NewAuthBatch(logging.NoLog{}, eng, job, authCounts)
			for _, tx := range txs {
				bv.Add(tx.UnsignedBytes(), tx.Auth)
			}
			doneCalled := make(chan struct{})
			go bv.Done(func() { close(doneCalled) })
			res := make(chan error, 1)
			go func() { res <- job.Wait() }()
			to := 10 * time.Second
			if hangs >= 2 {
				to = 1500 * time.Millisecond
			}
			status := ""
			select {
			case err := <-res:
				if err == nil {
					status = "ok"
				} else {
					status = "fail"
				}
				go pool.Stop()
			case <-time.After(to):
				status = "hang"
				hangs++
				viol("sig-job-hang", "signature job of a block with %d invalid of %d signatures, %d workers never completed", ninv, len(txs), w)
			}
			direct := 0
			for _, tx := range txs {
				if _, ok := eng.recs[tx.Auth.GetTypeID()]; !ok {
					direct++
				}
			}
			early, done := "-", "0:0"
			if rb, ok := eng.recs[auth.ED25519ID]; ok {
				rb.mu.Lock()
				if len(rb.early) > 0 {
					ss := make([]string, len(rb.early))
					for i, n := range rb.early {
						ss[i] = strconv.Itoa(n)
					}
					early = strings.Join(ss, ",")
				}
				done = fmt.Sprintf("%d:%d", rb.done, rb.pending)
				rb.mu.Unlock()
			}
			if status != "hang" && (status == "ok") != want {
				viol("batch-ne-individual", "batched/parallel verification says %s but one-by-one verification says all-valid=%v (%s)", status, want, l)
			}
			r.Count(fmt.Sprintf("workers:%d", w))
			r.Count(fmt.Sprintf("invalid:%d", ninv))
			if ninv > 0 || len(txs)%4 == 0 {
				r.Distinct(strings.Join(f[1:], " "))
			}
			r.Emit(l, fmt.Sprintf("%s direct=%d early=%s done=%s", status, direct, early, done))
			for _, v := range vios {
				r.Violation(v[0], "%s", v[1])
			}
		default:
			r.Emit(l, "bad-op")
		}
	}
}

func c16Line(w int, items []string) string {
	return strings.TrimSpace(fmt.Sprintf("block w=%d %s", w, strings.Join(items, " ")))
}

func c16Generate(r *verifh.Run) []string {
	out := []string{"facts", "block w=1", "block w=3 s1", "block w=2 b0", "block w=4 e2"}
	rep := func(tok string, n int) []string {
		s := make([]string, n)
		for i := range s {
			s[i] = tok
		}
		return s
	}
	// boundary table: ed25519 counts around multiples of the batch size, invalid at chosen positions
	for _, w := range []int{1, 2, 3, 4, 5, 8, 16} {
		for _, n := range []int{1, 3, 4, 5, 7, 8, 9, 12, 4 * w, 4*w + 1, 8*w - 1, 8 * w, 8*w + 1, 8*w + 5} {
			if n > 140 {
				continue
			}
			bs := n / w
			if bs < 4 {
				bs = 4
			}
			out = append(out, c16Line(w, rep("e1", n)))
			for _, p := range []int{0, bs - 1, bs, n - bs, n - 1} {
				if p < 0 || p >= n {
					continue
				}
				it := rep("e1", n)
				it[p] = "e0"
				out = append(out, c16Line(w, it))
			}
		}
	}
	nrand := r.N(500, 12000)
	for i := 0; i < nrand; i++ {
		w := 1 + r.RNG.Intn(16)
		if r.RNG.Chance(30) {
			w = 1 + r.RNG.Intn(3)
		}
		n := r.RNG.Intn(36)
		if r.RNG.Chance(25) { // exact multiples / neighbours of the batch size
			bs := 4 + r.RNG.Intn(4)
			n = bs*(1+r.RNG.Intn(4)) + r.RNG.Intn(3) - 1
		}
		mix := r.RNG.Intn(4) // 0: mostly ed, 1: uniform, 2: mostly unbatched, 3: ed only
		items := make([]string, n)
		for j := range items {
			var ty byte
			switch mix {
			case 0:
				ty = "eeeeeesb"[r.RNG.Intn(8)]
			case 1:
				ty = "esb"[r.RNG.Intn(3)]
			case 2:
				ty = "essssbbb"[r.RNG.Intn(8)]
			default:
				ty = 'e'
			}
			items[j] = string(ty) + "1"
		}
		ninv := r.RNG.Intn(4)
		if r.RNG.Chance(40) {
			ninv = 0
		}
		for q := 0; q < ninv && n > 0; q++ {
			p := r.RNG.Intn(n)
			if r.RNG.Chance(30) {
				p = []int{0, n - 1, n / 2}[r.RNG.Intn(3)]
			}
			k := "0"
			if r.RNG.Bool() {
				k = "2"
			}
			items[p] = items[p][:1] + k
		}
		out = append(out, c16Line(w, items))
	}
	return out
}
