package auth

import (
	"bytes"
	"context"
	"crypto/ecdsa"
	stded "crypto/ed25519"
	"crypto/elliptic"
	"crypto/sha256"
	"crypto/sha512"
	"fmt"
	"math/big"
	"strings"
	"testing"

	"filippo.io/edwards25519"
	blst "github.com/supranational/blst/bindings/go"

	"github.com/ava-labs/hypersdk/chain"
	"github.com/ava-labs/hypersdk/codec"
	"github.com/ava-labs/hypersdk/crypto/bls"
	"github.com/ava-labs/hypersdk/crypto/ed25519"
	"github.com/ava-labs/hypersdk/crypto/secp256r1"
	"github.com/ava-labs/hypersdk/internal/verifh"
	"github.com/ava-labs/hypersdk/utils"
)

// C17: signatures non-malleable and bound to the actor's address (logic only).
//
// Line protocol (all self-contained, hex):
//   unm  <scheme> <auth bytes> <pkValid> <sigValid>
//   addr <scheme> <pk> <id=ToID(pk)>
//   orig|mut <scheme> <kind> <pk> <sig> <msg> <pkValid> <sigValid> <groupOK>
// pkValid/sigValid (BLS point decoding) and groupOK (the group equation, evaluated by an
// independent path on the range-reduced scalar) are the model's parameters; they are
// recomputed from the bytes on every execution (the hint fields in a replay file are
// overwritten), so a line cannot lie about them.

var c17EllBig, _ = new(big.Int).SetString("7237005577332262213973186563042994240857116359379907606001950938285454250989", 10)

type c17Scheme struct {
	name           string
	id             uint8
	pkLen, sigLen  int
	size           int
	unmarshal      func([]byte) (chain.Auth, error)
	addrOf         func(pk []byte) (codec.Address, bool)
	groupOK        func(pk, sig, msg []byte) bool
	pkValid, sigOK func([]byte) bool
}

func c17Schemes() map[string]*c17Scheme {
	yes := func([]byte) bool { return true }
	return map[string]*c17Scheme{
		"ed25519": {
			name: "ed25519", id: ED25519ID, pkLen: ed25519.PublicKeyLen, sigLen: ed25519.SignatureLen, size: ED25519Size,
			unmarshal: UnmarshalED25519,
			addrOf: func(pk []byte) (codec.Address, bool) {
				return NewED25519Address(ed25519.PublicKey(pk)), true
			},
			groupOK: c17EdGroupOK, pkValid: yes, sigOK: yes,
		},
		"secp256r1": {
			name: "secp256r1", id: SECP256R1ID, pkLen: secp256r1.PublicKeyLen, sigLen: secp256r1.SignatureLen, size: SECP256R1Size,
			unmarshal: UnmarshalSECP256R1,
			addrOf: func(pk []byte) (codec.Address, bool) {
				return NewSECP256R1Address(secp256r1.PublicKey(pk)), true
			},
			groupOK: c17SecpGroupOK, pkValid: yes, sigOK: yes,
		},
		"bls": {
			name: "bls", id: BLSID, pkLen: bls.PublicKeyLen, sigLen: bls.SignatureLen, size: BLSSize,
			unmarshal: UnmarshalBLS,
			addrOf: func(pk []byte) (codec.Address, bool) {
				if !c17BLSPkValid(pk) {
					return codec.Address{}, false
				}
				return NewBLSAddress(new(blst.P1Affine).Uncompress(pk)), true
			},
			// the pairing equation on whatever decompresses (no subgroup / infinity checks):
			// the group parameter, evaluated on blst directly and not through crypto/bls' decoders
			groupOK: func(pk, sig, msg []byte) bool {
				if len(pk) != bls.PublicKeyLen || len(sig) != bls.SignatureLen {
					return false
				}
				p := new(blst.P1Affine).Uncompress(pk)
				s := new(blst.P2Affine).Uncompress(sig)
				if p == nil || s == nil {
					return false
				}
				return bls.Verify(msg, p, s)
			},
			pkValid: c17BLSPkValid,
			sigOK:   c17BLSSigValid,
		},
	}
}

// encodings of the eight small-order points of edwards25519, canonical and non-canonical
// (sign bit on x = 0, y + p for y < 19): all are accepted by ZIP-215 point decoding.
var c17TorsionHex = []string{
	"0100000000000000000000000000000000000000000000000000000000000000", // (0,1)
	"ecffffffffffffffffffffffffffffffffffffffffffffffffffffffffffff7f", // (0,-1)
	"0000000000000000000000000000000000000000000000000000000000000000", // order 4
	"0000000000000000000000000000000000000000000000000000000000000080", // order 4
	"26e8958fc2b227b045c3f489f2ef98f0d5dfac05d3c63339b13802886d53fc05", // order 8
	"26e8958fc2b227b045c3f489f2ef98f0d5dfac05d3c63339b13802886d53fc85",
	"c7176a703d4dd84fba3c0b760d10670f2a2053fa2c39ccc64ec7fd7792ac037a",
	"c7176a703d4dd84fba3c0b760d10670f2a2053fa2c39ccc64ec7fd7792ac03fa",
	"0100000000000000000000000000000000000000000000000000000000000080", // (0,1), sign bit set
	"ecffffffffffffffffffffffffffffffffffffffffffffffffffffffffffffff", // (0,-1), sign bit set
	"eeffffffffffffffffffffffffffffffffffffffffffffffffffffffffffff7f", // y = p+1
	"eeffffffffffffffffffffffffffffffffffffffffffffffffffffffffffffff",
	"edffffffffffffffffffffffffffffffffffffffffffffffffffffffffffff7f", // y = p
	"edffffffffffffffffffffffffffffffffffffffffffffffffffffffffffffff",
}

func c17Torsion() [][]byte {
	var out [][]byte
	for _, h := range c17TorsionHex {
		b := verifh.MustUnHex(h)
		if c17EdSmallOrder(b) {
			out = append(out, b)
		}
	}
	return out
}

// the bytes decode (ZIP-215 rules) to a point P with [8]P = 0
func c17EdSmallOrder(b []byte) bool {
	if len(b) != 32 {
		return false
	}
	p, err := new(edwards25519.Point).SetBytes(b)
	if err != nil {
		return false
	}
	q := new(edwards25519.Point).MultByCofactor(p)
	return q.Equal(edwards25519.NewIdentityPoint()) == 1
}

// b + t as points, re-encoded canonically
func c17EdAdd(b, t []byte) ([]byte, bool) {
	p, e1 := new(edwards25519.Point).SetBytes(b)
	q, e2 := new(edwards25519.Point).SetBytes(t)
	if e1 != nil || e2 != nil {
		return nil, false
	}
	return new(edwards25519.Point).Add(p, q).Bytes(), true
}

// validPk: the bytes decompress to a point of the prime-order subgroup G1 other than infinity
// (blst KeyValidate), evaluated on blst directly — independent of crypto/bls.PublicKeyFromBytes.
func c17BLSPkValid(b []byte) bool {
	if len(b) != bls.PublicKeyLen {
		return false
	}
	p := new(blst.P1Affine).Uncompress(b)
	return p != nil && p.KeyValidate()
}

// validSig: decompresses to a point of G2 (infinity allowed, as in avalanchego's SigValidate(false))
func c17BLSSigValid(b []byte) bool {
	if len(b) != bls.SignatureLen {
		return false
	}
	p := new(blst.P2Affine).Uncompress(b)
	return p != nil && p.SigValidate(false)
}

// a point of E1(Fp) outside the prime-order subgroup: [r]P for a decompressible P not in G1
func c17CofactorPoint(seed byte) *blst.P1 {
	order, _ := new(big.Int).SetString("73eda753299d7d483339d80809a1d80553bda402fffe5bfeffffffff00000001", 16)
	le := c17PutLE(order, 32)
	for i := 0; i < 256; i++ {
		h := sha256.Sum256([]byte{seed, byte(i)})
		buf := make([]byte, bls.PublicKeyLen)
		copy(buf[16:], h[:])
		buf[0] = 0x80
		p := new(blst.P1Affine).Uncompress(buf)
		if p == nil {
			continue
		}
		var pp blst.P1
		pp.FromAffine(p)
		tp := pp.Mult(le)
		if tp.ToAffine().InG1() {
			continue
		}
		return tp
	}
	panic("no cofactor point")
}

// an on-curve point with a G1 component and a cofactor component (not multiplied by r)
func c17NonSubgroupPoint(seed byte) []byte {
	for i := 0; i < 256; i++ {
		h := sha256.Sum256([]byte{seed, 0xee, byte(i)})
		buf := make([]byte, bls.PublicKeyLen)
		copy(buf[16:], h[:])
		buf[0] = 0x80
		if p := new(blst.P1Affine).Uncompress(buf); p != nil && !p.InG1() {
			return buf
		}
	}
	panic("no point")
}

// (pk, r‖s) such that (r, s) satisfies the ECDSA equation over msg for pk, for a chosen s:
// d = (s·k − z)·r⁻¹ mod n.
func c17CraftSecp(msg []byte, k, s *big.Int) (pk []byte, r *big.Int, ok bool) {
	curve := elliptic.P256()
	n := curve.Params().N
	d := sha256.Sum256(msg)
	z := new(big.Int).SetBytes(d[:])
	rx, _ := curve.ScalarBaseMult(k.FillBytes(make([]byte, 32)))
	r = new(big.Int).Mod(rx, n)
	if r.Sign() == 0 {
		return nil, nil, false
	}
	x := new(big.Int).Mul(s, k)
	x.Sub(x, z)
	x.Mul(x, new(big.Int).ModInverse(r, n))
	x.Mod(x, n)
	if x.Sign() == 0 {
		return nil, nil, false
	}
	var priv secp256r1.PrivateKey
	x.FillBytes(priv[:])
	pub := priv.PublicKey()
	return pub[:], r, true
}

func c17RS(r, s *big.Int) []byte {
	return append(r.FillBytes(make([]byte, 32)), s.FillBytes(make([]byte, 32))...)
}

// the ZIP-215 group equation [8]([s]B - [k]A - R) == 0 with s taken mod l: a function of the
// residue class of s only (independent of ed25519consensus).
func c17EdGroupOK(pk, sig, msg []byte) bool {
	if len(pk) != 32 || len(sig) != 64 {
		return false
	}
	A, err := new(edwards25519.Point).SetBytes(pk)
	if err != nil {
		return false
	}
	R, err := new(edwards25519.Point).SetBytes(sig[:32])
	if err != nil {
		return false
	}
	h := sha512.New()
	h.Write(sig[:32])
	h.Write(pk)
	h.Write(msg)
	k, err := new(edwards25519.Scalar).SetUniformBytes(h.Sum(nil))
	if err != nil {
		return false
	}
	// s mod l
	le := make([]byte, 32)
	for i := 0; i < 32; i++ {
		le[i] = sig[63-i]
	}
	sv := new(big.Int).Mod(new(big.Int).SetBytes(le), c17EllBig)
	be := sv.FillBytes(make([]byte, 32))
	for i, j := 0, 31; i < j; i, j = i+1, j-1 {
		be[i], be[j] = be[j], be[i]
	}
	s, err := new(edwards25519.Scalar).SetCanonicalBytes(be)
	if err != nil {
		return false
	}
	sB := new(edwards25519.Point).ScalarBaseMult(s)
	kA := new(edwards25519.Point).ScalarMult(k, A)
	p := new(edwards25519.Point).Subtract(sB, kA)
	p.Subtract(p, R)
	p.MultByCofactor(p)
	return p.Equal(edwards25519.NewIdentityPoint()) == 1
}

// compressed-key parsing and the ECDSA equation without any low-s rule (Go stdlib).
func c17SecpGroupOK(pk, sig, msg []byte) bool {
	if len(pk) != 33 || len(sig) != 64 {
		return false
	}
	x, y := elliptic.UnmarshalCompressed(elliptic.P256(), pk)
	if x == nil || y == nil {
		return false
	}
	r := new(big.Int).SetBytes(sig[:32])
	s := new(big.Int).SetBytes(sig[32:])
	d := sha256.Sum256(msg)
	return ecdsa.Verify(&ecdsa.PublicKey{Curve: elliptic.P256(), X: x, Y: y}, d[:], r, s)
}

func c17Bit(b bool) string {
	if b {
		return "1"
	}
	return "0"
}

func c17SigLine(op string, sc *c17Scheme, kind string, pk, sig, msg []byte) string {
	return fmt.Sprintf("%s %s %s %s %s %s %s %s %s", op, sc.name, kind, verifh.Hex(pk), verifh.Hex(sig), verifh.Hex(msg),
		c17Bit(sc.pkValid(pk)), c17Bit(sc.sigOK(sig)), c17Bit(sc.groupOK(pk, sig, msg)))
}

func c17UnmLine(sc *c17Scheme, b []byte) string {
	pv, sv := true, true
	if sc.name == "bls" && len(b) == sc.size {
		pv, sv = sc.pkValid(b[1:1+sc.pkLen]), sc.sigOK(b[1+sc.pkLen:])
	}
	return fmt.Sprintf("unm %s %s %s %s", sc.name, verifh.Hex(b), c17Bit(pv), c17Bit(sv))
}

func c17PutLE(v *big.Int, n int) []byte {
	be := v.FillBytes(make([]byte, n))
	for i, j := 0, n-1; i < j; i, j = i+1, j-1 {
		be[i], be[j] = be[j], be[i]
	}
	return be
}

func c17GetLE(b []byte) *big.Int {
	be := make([]byte, len(b))
	for i := range b {
		be[len(b)-1-i] = b[i]
	}
	return new(big.Int).SetBytes(be)
}

func c17Clone(b []byte) []byte { return append([]byte{}, b...) }

// sign with the real factories, from RNG-derived keys
func c17Sign(r *verifh.Run, sc *c17Scheme, msg []byte) (pk, sig []byte) {
	var f chain.AuthFactory
	switch sc.name {
	case "ed25519":
		f = NewED25519Factory(ed25519.PrivateKey(stded.NewKeyFromSeed(r.RNG.Bytes(32))))
	case "secp256r1":
		k := r.RNG.Bytes(32)
		k[0] &= 0x7f
		k[31] |= 1
		f = NewSECP256R1Factory(secp256r1.PrivateKey(k))
	default:
		for {
			p, err := bls.PrivateKeyFromBytes(r.RNG.Bytes(32))
			if err == nil {
				f = NewBLSFactory(p)
				break
			}
		}
	}
	a, err := f.Sign(msg)
	if err != nil {
		panic(err)
	}
	b := a.Bytes()
	return c17Clone(b[1 : 1+sc.pkLen]), c17Clone(b[1+sc.pkLen:])
}

func c17Generate(r *verifh.Run) []string {
	var lines []string
	scs := c17Schemes()
	n := elliptic.P256().Params().N
	// --- boundary table for the P-256 low-s rule: signatures constructed for a chosen s
	// (the key is solved for), at ⌊n/2⌋ exactly, just above, through the whole window up to
	// 2^255 and beyond; each low/high pair goes through the real unmarshaler and Auth.Verify.
	{
		sc := scs["secp256r1"]
		half := new(big.Int).Rsh(n, 1)
		two255 := new(big.Int).Lsh(big.NewInt(1), 255)
		var highs []*big.Int
		for _, off := range []int64{1, 2, 3, 0xdeadbeef} {
			highs = append(highs, new(big.Int).Add(half, big.NewInt(off)))
		}
		for _, sh := range []uint{64, 128, 200, 222} {
			highs = append(highs, new(big.Int).Add(half, new(big.Int).Lsh(big.NewInt(1), sh)))
		}
		highs = append(highs, new(big.Int).Sub(two255, big.NewInt(1)), new(big.Int).Set(two255),
			new(big.Int).Add(two255, big.NewInt(1)), new(big.Int).Sub(n, big.NewInt(1)), new(big.Int).Sub(n, big.NewInt(2)))
		win := new(big.Int).Sub(two255, half)
		for i := 0; i < r.N(6, 60); i++ {
			off := new(big.Int).Mod(new(big.Int).SetBytes(r.RNG.Bytes(32)), win)
			highs = append(highs, new(big.Int).Add(half, off.Add(off, big.NewInt(1))))
		}
		for i := 0; i < r.N(4, 40); i++ { // anywhere above the half order
			off := new(big.Int).Mod(new(big.Int).SetBytes(r.RNG.Bytes(32)), half)
			highs = append(highs, new(big.Int).Add(half, off.Add(off, big.NewInt(1))))
		}
		for i, hs := range highs {
			msg := r.RNG.Bytes(1 + r.RNG.Intn(64))
			k := new(big.Int).SetBytes(r.RNG.Bytes(31))
			k.Add(k, big.NewInt(int64(i+1)))
			pk, rr, ok := c17CraftSecp(msg, k, hs)
			if !ok {
				continue
			}
			low := new(big.Int).Sub(n, hs) // ≤ ⌊n/2⌋: the canonical twin
			lines = append(lines, c17SigLine("orig", sc, "crafted-low-s", pk, c17RS(rr, low), msg))
			lines = append(lines, c17SigLine("mut", sc, "crafted-n-s", pk, c17RS(rr, hs), msg))
		}
		// s exactly ⌊n/2⌋ (must be accepted) next to ⌊n/2⌋+1 = n − ⌊n/2⌋ (must be rejected)
		for i := 0; i < 3; i++ {
			msg := r.RNG.Bytes(8)
			k := new(big.Int).SetBytes(r.RNG.Bytes(30))
			k.Add(k, big.NewInt(7))
			if pk, rr, ok := c17CraftSecp(msg, k, half); ok {
				lines = append(lines, c17SigLine("orig", sc, "crafted-s=half", pk, c17RS(rr, half), msg))
				lines = append(lines, c17SigLine("mut", sc, "crafted-s=half+1", pk, c17RS(rr, new(big.Int).Sub(n, half)), msg))
			}
		}
	}
	// --- ed25519 (ZIP-215): small-order public keys with s = 0 and every small-order R encoding
	{
		sc := scs["ed25519"]
		tors := c17Torsion()
		zero := make([]byte, 32)
		one := make([]byte, 32)
		one[0] = 1
		for ai, a := range tors {
			msg := []byte{byte(ai)}
			if ai%2 == 1 {
				msg = r.RNG.Bytes(33)
			}
			lines = append(lines, c17SigLine("orig", sc, "small-order-key", a, append(c17Clone(tors[0]), zero...), msg))
			for ri, rb := range tors[1:] {
				lines = append(lines, c17SigLine("mut", sc, fmt.Sprintf("small-order-R%d", ri+1), a, append(c17Clone(rb), zero...), msg))
			}
			lines = append(lines, c17SigLine("mut", sc, "small-order-s=1", a, append(c17Clone(tors[0]), one...), msg))
			lines = append(lines, c17SigLine("mut", sc, "other-msg", a, append(c17Clone(tors[0]), zero...), append(c17Clone(msg), 7)))
		}
	}
	// --- BLS public keys / signatures that decompress but are not valid group elements
	{
		sc := scs["bls"]
		inf1 := make([]byte, bls.PublicKeyLen)
		inf1[0] = 0xc0
		inf2 := make([]byte, bls.SignatureLen)
		inf2[0] = 0xc0
		for seed := byte(0); seed < byte(r.N(3, 12)); seed++ {
			tp := c17CofactorPoint(seed).ToAffine().Compress()
			for _, msg := range [][]byte{{}, []byte("transfer everything"), r.RNG.Bytes(40)} {
				lines = append(lines, c17SigLine("mut", sc, "cofactor-pk-identity-sig", tp, inf2, msg))
			}
			lines = append(lines, c17UnmLine(sc, append(append([]byte{sc.id}, tp...), inf2...)))
			ns := c17NonSubgroupPoint(seed)
			lines = append(lines, c17SigLine("mut", sc, "non-subgroup-pk-identity-sig", ns, inf2, []byte{1}))
			lines = append(lines, c17UnmLine(sc, append(append([]byte{sc.id}, ns...), inf2...)))
		}
		lines = append(lines, c17SigLine("mut", sc, "infinity-pk-identity-sig", inf1, inf2, []byte("x")),
			c17UnmLine(sc, append(append([]byte{sc.id}, inf1...), inf2...)))
	}
	for _, name := range []string{"ed25519", "secp256r1", "bls"} {
		sc := scs[name]
		nOrig := r.N(16, 120)
		if name == "bls" {
			nOrig = r.N(5, 30)
		}
		for o := 0; o < nOrig; o++ {
			var msg []byte
			switch o % 4 {
			case 0:
				msg = []byte{}
			case 1:
				msg = r.RNG.Bytes(1 + r.RNG.Intn(8))
			default:
				msg = r.RNG.Bytes(32 + r.RNG.Intn(200))
			}
			pk, sig := c17Sign(r, sc, msg)
			lines = append(lines, c17SigLine("orig", sc, "orig", pk, sig, msg))
			full := append(append([]byte{sc.id}, pk...), sig...)
			lines = append(lines, c17UnmLine(sc, full))
			if addr, ok := sc.addrOf(pk); ok {
				_ = addr
				id := utils.ToID(pk)
				lines = append(lines, fmt.Sprintf("addr %s %s %s", sc.name, verifh.Hex(pk), verifh.Hex(id[:])))
			}
			mut := func(kind string, p, s []byte) {
				lines = append(lines, c17SigLine("mut", sc, kind, p, s, msg))
			}
			// algebraic re-encodings
			switch name {
			case "ed25519":
				s := c17GetLE(sig[32:])
				for k := int64(1); k <= 15; k++ {
					v := new(big.Int).Add(s, new(big.Int).Mul(big.NewInt(k), c17EllBig))
					if v.BitLen() > 256 {
						break
					}
					m := c17Clone(sig)
					copy(m[32:], c17PutLE(v, 32))
					mut(fmt.Sprintf("s+%dl", k), pk, m)
				}
				// l - s (negated scalar), s with top bits set
				m := c17Clone(sig)
				copy(m[32:], c17PutLE(new(big.Int).Sub(c17EllBig, s), 32))
				mut("l-s", pk, m)
				for _, bit := range []byte{0x80, 0x40, 0x20, 0x10} {
					m := c17Clone(sig)
					m[63] ^= bit
					mut(fmt.Sprintf("s-topbit-%02x", bit), pk, m)
				}
				// sign bit of R and of A; y+p non-canonical encodings where they fit
				m = c17Clone(sig)
				m[31] ^= 0x80
				mut("R-signbit", pk, m)
				p2 := c17Clone(pk)
				p2[31] ^= 0x80
				mut("A-signbit", p2, sig)
				// R and A shifted by / replaced with every small-order point encoding
				for ti, tb := range c17Torsion() {
					if q, ok := c17EdAdd(sig[:32], tb); ok && !bytes.Equal(q, sig[:32]) {
						m := c17Clone(sig)
						copy(m[:32], q)
						mut(fmt.Sprintf("R+torsion%d", ti), pk, m)
					}
					if q, ok := c17EdAdd(pk, tb); ok && !bytes.Equal(q, pk) {
						mut(fmt.Sprintf("A+torsion%d", ti), q, sig)
					}
					m := c17Clone(sig)
					copy(m[:32], tb)
					mut(fmt.Sprintf("R=torsion%d", ti), pk, m)
					mut(fmt.Sprintf("A=torsion%d", ti), tb, sig)
				}
			case "secp256r1":
				rr := new(big.Int).SetBytes(sig[:32])
				s := new(big.Int).SetBytes(sig[32:])
				m := c17Clone(sig)
				copy(m[32:], new(big.Int).Sub(n, s).FillBytes(make([]byte, 32)))
				mut("n-s", pk, m)
				if v := new(big.Int).Add(s, n); v.BitLen() <= 256 {
					m := c17Clone(sig)
					copy(m[32:], v.FillBytes(make([]byte, 32)))
					mut("s+n", pk, m)
				}
				if v := new(big.Int).Add(rr, n); v.BitLen() <= 256 {
					m := c17Clone(sig)
					copy(m[:32], v.FillBytes(make([]byte, 32)))
					mut("r+n", pk, m)
				}
				m = c17Clone(sig)
				copy(m[:32], new(big.Int).Sub(n, rr).FillBytes(make([]byte, 32)))
				mut("n-r", pk, m)
				m = c17Clone(sig)
				copy(m[:32], new(big.Int).Sub(n, rr).FillBytes(make([]byte, 32)))
				copy(m[32:], new(big.Int).Sub(n, s).FillBytes(make([]byte, 32)))
				mut("n-r,n-s", pk, m)
				for _, pre := range []byte{2, 3, 4, 0, 6, 7} {
					if pre != pk[0] {
						p2 := c17Clone(pk)
						p2[0] = pre
						mut(fmt.Sprintf("pk-prefix-%02x", pre), p2, sig)
					}
				}
				zero := make([]byte, 32)
				m = c17Clone(sig)
				copy(m[32:], zero)
				mut("s=0", pk, m)
				m = c17Clone(sig)
				copy(m[:32], zero)
				mut("r=0", pk, m)
			case "bls":
				// the honest key shifted by points outside the subgroup, the identity signature,
				// the infinity key
				if hp := new(blst.P1Affine).Uncompress(pk); hp != nil {
					for seed := byte(0); seed < 2; seed++ {
						var pp blst.P1
						pp.FromAffine(hp)
						mut(fmt.Sprintf("pk+cofactor%d", seed), pp.Add(c17CofactorPoint(seed)).ToAffine().Compress(), sig)
					}
				}
				inf2 := make([]byte, bls.SignatureLen)
				inf2[0] = 0xc0
				mut("identity-sig", pk, inf2)
				inf1 := make([]byte, bls.PublicKeyLen)
				inf1[0] = 0xc0
				mut("infinity-pk", inf1, sig)
				mut("infinity-pk-identity-sig", inf1, inf2)
				for _, bit := range []byte{0x80, 0x40, 0x20} {
					m := c17Clone(sig)
					m[0] ^= bit
					mut(fmt.Sprintf("sig-flag-%02x", bit), pk, m)
					p2 := c17Clone(pk)
					p2[0] ^= bit
					mut(fmt.Sprintf("pk-flag-%02x", bit), p2, sig)
				}
			}
			// every single-byte mutation of the signature and of the key
			nv := r.N(2, 6)
			if name == "bls" {
				nv = r.N(1, 3)
			}
			for i := range sig {
				for v := 0; v < nv; v++ {
					m := c17Clone(sig)
					var x byte
					switch v {
					case 0:
						x = 1 << uint(r.RNG.Intn(8))
					case 1:
						x = 0xff
					default:
						x = byte(1 + r.RNG.Intn(255))
					}
					m[i] ^= x
					mut(fmt.Sprintf("sig-byte-%d", i), pk, m)
				}
			}
			for i := range pk {
				p2 := c17Clone(pk)
				p2[i] ^= 1 << uint(r.RNG.Intn(8))
				mut(fmt.Sprintf("pk-byte-%d", i), p2, sig)
			}
			// other message
			lines = append(lines, c17SigLine("mut", sc, "other-msg", pk, sig, append(c17Clone(msg), 0)))
			// malformed auth byte strings
			lines = append(lines,
				c17UnmLine(sc, full[:len(full)-1]), c17UnmLine(sc, append(c17Clone(full), 0)),
				c17UnmLine(sc, nil), c17UnmLine(sc, full[:1]), c17UnmLine(sc, full[1:]),
				c17UnmLine(sc, full[:r.RNG.Intn(len(full))]),
				c17UnmLine(sc, append(c17Clone(full), r.RNG.Bytes(1+r.RNG.Intn(40))...)))
			for _, id := range []byte{0, 1, 2, 3, 0xff} {
				m := c17Clone(full)
				m[0] = id
				lines = append(lines, c17UnmLine(sc, m))
			}
			for _, other := range scs {
				if other.size != sc.size {
					m := make([]byte, other.size)
					copy(m, full)
					lines = append(lines, c17UnmLine(sc, m))
				}
			}
			lines = append(lines, c17UnmLine(sc, append([]byte{sc.id}, r.RNG.Bytes(sc.size-1)...)))
		}
	}
	return lines
}

func TestVerifC17(t *testing.T) {
	r := verifh.Start("C17")
	defer r.Finish()
	scs := c17Schemes()

	// constants the model depends on, read from the running code
	r.Fact("ed25519ID", ED25519ID)
	r.Fact("secp256r1ID", SECP256R1ID)
	r.Fact("blsID", BLSID)
	r.Fact("ed25519PkLen", ed25519.PublicKeyLen)
	r.Fact("ed25519SigLen", ed25519.SignatureLen)
	r.Fact("ed25519Size", ED25519Size)
	r.Fact("secp256r1PkLen", secp256r1.PublicKeyLen)
	r.Fact("secp256r1SigLen", secp256r1.SignatureLen)
	r.Fact("secp256r1Size", SECP256R1Size)
	r.Fact("blsPkLen", bls.PublicKeyLen)
	r.Fact("blsSigLen", bls.SignatureLen)
	r.Fact("blsSize", BLSSize)
	r.Fact("addressLen", codec.AddressLen)
	r.Fact("idLen", len(utils.ToID(nil)))
	r.Fact("p256N", elliptic.P256().Params().N.String())

	lines := r.ReplayLines()
	if lines == nil {
		lines = c17Generate(r)
	}

	// current valid (scheme, msg, pk, sig) for the malleability oracle
	var cur struct {
		scheme       string
		msg, pk, sig []byte
		ok           bool
	}
	ctx := context.Background()
	for _, l := range lines {
		f := verifh.Fields(l)
		if len(f) < 2 {
			r.Emit(l, "bad-op")
			continue
		}
		sc := scs[f[1]]
		if sc == nil {
			r.Emit(l, "bad-op")
			continue
		}
		switch {
		case f[0] == "unm" && len(f) == 5:
			b, err := verifh.UnHex(f[2])
			if err != nil {
				r.Emit(l, "bad-op")
				continue
			}
			l = c17UnmLine(sc, b) // hints recomputed
			a, err := sc.unmarshal(b)
			if err != nil {
				out := "err-point"
				switch {
				case strings.Contains(err.Error(), "auth size"):
					out = "err-size"
				case strings.Contains(err.Error(), "typeID"):
					out = "err-type"
				}
				r.Emit(l, out)
				r.Count("unm:" + out)
				if len(b) == sc.size && b[0] == sc.id && sc.name != "bls" {
					r.Violation("wellformed-auth-rejected-"+sc.name, "%s", l)
				}
				continue
			}
			ab := a.Bytes()
			r.Emit(l, "ok "+verifh.Hex(ab[1:1+sc.pkLen])+" "+verifh.Hex(ab[1+sc.pkLen:]))
			r.Count("unm:ok")
			if !sc.pkValid(b[1 : 1+sc.pkLen]) {
				r.Violation("invalid-pubkey-accepted-"+sc.name, "the unmarshaler admits a public key that is not a valid group element: %s", l)
			}
			if !sc.sigOK(b[1+sc.pkLen:]) {
				r.Violation("invalid-signature-point-accepted-"+sc.name, "%s", l)
			}
			if !bytes.Equal(ab, b) {
				r.Violation("auth-roundtrip-"+sc.name, "Unmarshal(b).Bytes() != b for %s", l)
			}
			if a.GetTypeID() != sc.id || len(b) != sc.size {
				r.Violation("auth-roundtrip-"+sc.name, "type id / size accepted wrongly: %s", l)
			}
			// address checks on every successfully decoded auth
			id := utils.ToID(b[1 : 1+sc.pkLen])
			want := append([]byte{sc.id}, id[:]...)
			act, sp := a.Actor(), a.Sponsor()
			if !bytes.Equal(act[:], want) || act != sp {
				r.Violation("address-not-typed-"+sc.name, "actor %x sponsor %x want %x", act[:], sp[:], want)
			}
		case f[0] == "addr" && len(f) == 4:
			pk, e1 := verifh.UnHex(f[2])
			if e1 != nil || len(pk) != sc.pkLen {
				r.Emit(l, "bad-op")
				continue
			}
			id := utils.ToID(pk)
			l = fmt.Sprintf("addr %s %s %s", sc.name, verifh.Hex(pk), verifh.Hex(id[:]))
			addr, ok := sc.addrOf(pk)
			if !ok {
				r.Emit(l, "bad-op")
				continue
			}
			r.Emit(l, verifh.Hex(addr[:]))
			if addr[0] != sc.id || len(addr) != codec.AddressLen || !bytes.Equal(addr[1:], id[:]) {
				r.Violation("address-not-typed-"+sc.name, "%x", addr[:])
			}
			for _, o := range scs {
				if o != sc && o.pkLen == sc.pkLen {
					if oa, ok := o.addrOf(pk); ok && oa == addr {
						r.Violation("address-collides-across-schemes", "%s/%s", sc.name, o.name)
					}
				}
			}
		case (f[0] == "orig" || f[0] == "mut") && len(f) == 9:
			pk, e1 := verifh.UnHex(f[3])
			sig, e2 := verifh.UnHex(f[4])
			msg, e3 := verifh.UnHex(f[5])
			if e1 != nil || e2 != nil || e3 != nil || len(pk) != sc.pkLen || len(sig) != sc.sigLen {
				r.Emit(l, "bad-op")
				continue
			}
			l = c17SigLine(f[0], sc, f[2], pk, sig, msg) // hints recomputed
			full := append(append([]byte{sc.id}, pk...), sig...)
			a, err := sc.unmarshal(full)
			verified := false
			if err != nil {
				r.Emit(l, "unm-fail")
				r.Count("ver:unm-fail")
			} else {
				verified = a.Verify(ctx, msg) == nil
				r.Emit(l, fmt.Sprint(verified))
				r.Count("ver:" + fmt.Sprint(verified))
			}
			if err == nil && !sc.pkValid(pk) {
				r.Violation("invalid-pubkey-accepted-"+sc.name, "public key outside the group admitted by the unmarshaler (verify=%v): %s", verified, l)
			}
			if verified && !sc.pkValid(pk) {
				r.Violation("invalid-pubkey-verifies-"+sc.name, "a signature verifies under a public key that is not a valid group element: %s", l)
			}
			kind := f[2]
			if i := strings.LastIndexByte(kind, '-'); i > 0 && (strings.HasPrefix(kind, "sig-byte") || strings.HasPrefix(kind, "pk-byte")) {
				kind = kind[:i]
			}
			r.Count("kind:" + sc.name + ":" + kind)
			if f[0] == "orig" {
				cur.scheme, cur.msg, cur.pk, cur.sig, cur.ok = sc.name, msg, pk, sig, verified
				if !verified {
					r.Violation("valid-signature-rejected-"+sc.name, "%s", l)
				}
				continue
			}
			r.Distinct(sc.name + ":" + f[2] + ":" + f[3][:8] + f[4][len(f[4])-8:])
			if verified && cur.ok && cur.scheme == sc.name && bytes.Equal(cur.msg, msg) &&
				!(bytes.Equal(cur.pk, pk) && bytes.Equal(cur.sig, sig)) {
				if bytes.Equal(cur.pk, pk) {
					key := "malleable-signature-" + sc.name
					if sc.name == "ed25519" {
						p1, e1 := new(edwards25519.Point).SetBytes(sig[:32])
						p2, e2 := new(edwards25519.Point).SetBytes(cur.sig[:32])
						switch {
						case c17EdSmallOrder(pk):
							// ZIP-215 admits small-order keys: [8][k]A = 0, so s = 0 with any small-order R verifies
							key += "-small-order-key"
						case e1 == nil && e2 == nil && p1.Equal(p2) == 1 && !bytes.Equal(sig[:32], cur.sig[:32]):
							key += "-noncanonical-R"
						}
					}
					r.Violation(key, "a different signature encoding (%s) verifies for the same message and key: %s", f[2], l)
				} else {
					r.Violation("alternative-pubkey-verifies-"+sc.name, "a different public key encoding (%s) verifies the same signature: %s", f[2], l)
				}
			}
			if verified && cur.ok && cur.scheme == sc.name && !bytes.Equal(cur.msg, msg) && bytes.Equal(cur.pk, pk) && bytes.Equal(cur.sig, sig) {
				key := "signature-verifies-other-message-" + sc.name
				if sc.name == "ed25519" && c17EdSmallOrder(pk) {
					key += "-small-order-key"
				}
				r.Violation(key, "%s", l)
			}
		default:
			r.Emit(l, "bad-op")
		}
	}
}
