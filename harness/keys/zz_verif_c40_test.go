package keys

import (
	"bytes"
	"fmt"
	"strconv"
	"testing"

	"github.com/ava-labs/hypersdk/consts"
	"github.com/ava-labs/hypersdk/internal/verifh"
)

// C40: size-suffixed keys bound the values they can hold (keys package).
// Tie: Model/Keys.lean. Oracle: the property's statement, evaluated on the real outputs.
func TestVerifC40(t *testing.T) {
	r := verifh.Start("C40")
	defer r.Finish()
	r.Fact("chunkSize", chunkSize)
	r.Fact("maxUint16", int(consts.MaxUint16))
	r.Fact("uint16Len", consts.Uint16Len)

	lines := r.ReplayLines()
	if lines == nil {
		lines = c40Generate(r)
	}
	zeros := make([]byte, 1<<23)
	val := func(n uint64) ([]byte, bool) {
		if n > uint64(len(zeros)) {
			return nil, false
		}
		return zeros[:n], true
	}
	// the property's notion of "chunk count of a length": the c with (c-1)*chunk <= n < c*chunk,
	// 0 for the empty value, undefined above the 16-bit limit
	specChunks := func(n uint64) (uint64, bool) {
		if n == 0 {
			return 0, true
		}
		c := uint64(1)
		for c*chunkSize <= n { // jump, then settle
			c += (n-c*chunkSize)/chunkSize + 1
		}
		if c > 65535 {
			return 0, false
		}
		return c, true
	}
	specMax := func(k []byte) (uint64, bool) {
		if len(k) < 2 {
			return 0, false
		}
		return uint64(k[len(k)-2])<<8 | uint64(k[len(k)-1]), true
	}
	on := func(v uint16, ok bool) string {
		if !ok {
			return "none"
		}
		return strconv.Itoa(int(v))
	}
	for _, l := range lines {
		f := verifh.Fields(l)
		bad := func() { r.Emit(l, "bad-op") }
		if len(f) < 2 {
			bad()
			continue
		}
		switch f[0] {
		case "valid", "maxchunks", "decodechunks":
			k, err := verifh.UnHex(f[1])
			if err != nil || len(f) != 2 {
				bad()
				continue
			}
			sm, sok := specMax(k)
			switch f[0] {
			case "valid":
				got := Valid(string(k))
				r.Emit(l, strconv.FormatBool(got))
				if got != (len(k) >= 2) {
					r.Violation("short-key-validity", "Valid(%x)=%v", k, got)
				}
			case "maxchunks":
				v, ok := MaxChunks(k)
				r.Emit(l, on(v, ok))
				if ok != sok || (ok && uint64(v) != sm) {
					r.Violation("maxchunks-not-be-suffix", "MaxChunks(%x)=%d,%v but the last two bytes big-endian are %d,%v", k, v, ok, sm, sok)
				}
				if ok {
					r.Distinct("mc:" + f[1])
				}
			default:
				v, ok := DecodeChunks(k)
				r.Emit(l, on(v, ok))
				if ok != sok || (ok && uint64(v) != sm) {
					r.Violation("maxchunks-not-be-suffix", "DecodeChunks(%x)=%d,%v want %d,%v", k, v, ok, sm, sok)
				}
			}
		case "numchunks":
			n, err := strconv.ParseUint(f[1], 10, 64)
			v, okv := val(n)
			if err != nil || !okv || len(f) != 2 {
				bad()
				continue
			}
			c, ok := NumChunks(v)
			r.Emit(l, on(c, ok))
			sc, sok := specChunks(n)
			if ok != sok || (ok && uint64(c) != sc) {
				r.Violation("numchunks-mismatch", "NumChunks(len %d)=%d,%v; chunk count by the bracket rule is %d,%v", n, c, ok, sc, sok)
			}
			r.Distinct("nc:" + on(c, ok))
		case "numchunksint":
			n, err := strconv.ParseInt(f[1], 10, 64)
			if err != nil || len(f) != 2 {
				bad()
				continue
			}
			c, ok := numChunks(int(n))
			r.Emit(l, on(c, ok))
		case "verify":
			if len(f) != 4 {
				bad()
				continue
			}
			a, e1 := strconv.ParseUint(f[1], 10, 32)
			b, e2 := strconv.ParseUint(f[2], 10, 16)
			k, e3 := verifh.UnHex(f[3])
			if e1 != nil || e2 != nil || e3 != nil {
				bad()
				continue
			}
			got := Verify(uint32(a), uint16(b), k)
			r.Emit(l, strconv.FormatBool(got))
			sm, sok := specMax(k)
			want := sok && uint64(len(k)) <= a && sm <= b
			if got != want {
				r.Violation("verify-mismatch", "Verify(%d,%d,%x)=%v want %v", a, b, k, got, want)
			}
		case "verifyvalue":
			if len(f) != 3 {
				bad()
				continue
			}
			k, e1 := verifh.UnHex(f[1])
			n, e2 := strconv.ParseUint(f[2], 10, 64)
			v, okv := val(n)
			if e1 != nil || e2 != nil || !okv {
				bad()
				continue
			}
			got := VerifyValue(k, v)
			r.Emit(l, strconv.FormatBool(got))
			sc, cok := specChunks(n)
			sm, mok := specMax(k)
			want := cok && mok && sc <= sm
			if got != want {
				key := "verifyvalue-mismatch"
				if len(k) < 2 {
					key = "short-key-accepted"
				}
				r.Violation(key, "VerifyValue(%x, len %d)=%v; value chunks %d,%v key chunks %d,%v", k, n, got, sc, cok, sm, mok)
			}
			if mok && cok && (sc == sm || sc == sm+1) {
				r.Distinct(fmt.Sprintf("vv:%d:%d", sm, sc))
			}
		case "encode":
			if len(f) != 3 {
				bad()
				continue
			}
			k, e1 := verifh.UnHex(f[1])
			n, e2 := strconv.ParseInt(f[2], 10, 64)
			if e1 != nil || e2 != nil {
				bad()
				continue
			}
			kc := append([]byte{}, k...)
			enc, ok := Encode(kc, int(n))
			if !ok {
				r.Emit(l, "none")
			} else {
				r.Emit(l, verifh.Hex(enc))
			}
			if n >= 0 {
				_, sok := specChunks(uint64(n))
				if ok != sok {
					r.Violation("encode-definedness", "Encode(%x,%d) ok=%v but the size has a chunk count: %v", k, n, ok, sok)
				}
				if ok {
					if len(enc) != len(k)+2 || !bytes.HasPrefix(enc, k) {
						r.Violation("encode-shape", "Encode(%x,%d)=%x is not the key plus a two-byte suffix", k, n, enc)
					}
					// a key encoded for a maximum size admits every value up to that size
					probe := []uint64{0, uint64(n) / 2, uint64(n)}
					if n > 0 {
						probe = append(probe, 1, uint64(n)-1, uint64(r.RNG.Intn(int(n)+1)))
					}
					for _, m := range probe {
						if v, okv := val(m); okv && !VerifyValue(enc, v) {
							r.Violation("encode-rejects-value-within-size", "Encode(%x,%d)=%x rejects a value of %d bytes", k, n, enc, m)
							break
						}
					}
					r.Distinct("enc:" + verifh.Hex(enc[len(enc)-2:]))
				}
			}
		case "encodechunks":
			if len(f) != 3 {
				bad()
				continue
			}
			k, e1 := verifh.UnHex(f[1])
			c, e2 := strconv.ParseUint(f[2], 10, 16)
			if e1 != nil || e2 != nil {
				bad()
				continue
			}
			enc := EncodeChunks(append([]byte{}, k...), uint16(c))
			r.Emit(l, verifh.Hex(enc))
			if mc, ok := MaxChunks(enc); !ok || uint64(mc) != c {
				r.Violation("maxchunks-not-be-suffix", "MaxChunks(EncodeChunks(%x,%d))=%d,%v", k, c, mc, ok)
			}
		default:
			bad()
		}
	}
}

func c40Suffixes() [][]byte {
	return [][]byte{{0, 0}, {0, 1}, {0, 2}, {0, 3}, {0, 0xff}, {1, 0}, {1, 1}, {0x7f, 0xff}, {0x80, 0}, {0xff, 0xfe}, {0xff, 0xff}}
}

func c40Lens() []uint64 {
	var out []uint64
	add := func(c uint64) {
		for d := int64(-2); d <= 2; d++ {
			if int64(c)+d >= 0 {
				out = append(out, uint64(int64(c)+d))
			}
		}
	}
	for _, m := range []uint64{0, 1, 2, 3, 4, 255, 256, 257, 32767, 32768, 65534, 65535, 65536} {
		add(m * chunkSize)
	}
	out = append(out, 10, 100, 1000, 1<<20, 1<<22, 1<<23)
	return out
}

func c40Generate(r *verifh.Run) []string {
	var lines []string
	var ks [][]byte
	// key lengths 0..8 x suffixes of interest (short keys have no suffix to speak of)
	ks = append(ks, []byte{}, []byte{0}, []byte{1}, []byte{0xff})
	for l := 2; l <= 8; l++ {
		for _, s := range c40Suffixes() {
			k := append(r.RNG.Bytes(l-2), s...)
			ks = append(ks, k)
		}
	}
	for _, k := range ks {
		h := verifh.Hex(k)
		lines = append(lines, "valid "+h, "maxchunks "+h, "decodechunks "+h)
		for _, a := range []int{0, 1, 2, 3, 8, 1 << 16} {
			for _, b := range []int{0, 1, 255, 256, 65535} {
				lines = append(lines, fmt.Sprintf("verify %d %d %s", a, b, h))
			}
		}
	}
	lens := c40Lens()
	for _, n := range lens {
		lines = append(lines, fmt.Sprintf("numchunks %d", n), fmt.Sprintf("numchunksint %d", n))
		for _, k := range [][]byte{{}, {7}, {7, 7}, {1, 2, 3}} {
			lines = append(lines, fmt.Sprintf("encode %s %d", verifh.Hex(k), n))
		}
	}
	for _, n := range []int64{-1, -2, -63, -64, -65, -127, -128, -6400, -4194240, -4194304, -1 << 40} {
		lines = append(lines, fmt.Sprintf("numchunksint %d", n), fmt.Sprintf("encode 6b %d", n))
	}
	for _, k := range ks {
		for _, n := range lens {
			lines = append(lines, fmt.Sprintf("verifyvalue %s %d", verifh.Hex(k), n))
		}
	}
	for _, c := range []int{0, 1, 2, 255, 256, 257, 32767, 32768, 65534, 65535} {
		lines = append(lines, fmt.Sprintf("encodechunks %s %d", verifh.Hex(r.RNG.Bytes(r.RNG.Intn(4))), c))
	}
	// random
	for i := 0; i < r.N(20000, 400000); i++ {
		k := r.RNG.Bytes(r.RNG.Intn(9))
		var n uint64
		switch r.RNG.Intn(4) {
		case 0:
			n = uint64(r.RNG.Intn(400))
		case 1:
			n = uint64(r.RNG.Intn(65537))*chunkSize + uint64(r.RNG.Intn(3)) - 1
			if n > 1<<23 {
				n = 1 << 23
			}
		case 2:
			if len(k) >= 2 { // around the key's own bound
				mc := uint64(k[len(k)-2])<<8 | uint64(k[len(k)-1])
				n = mc*chunkSize + uint64(r.RNG.Intn(5)) - 2
				if mc == 0 && n > 10 {
					n = 0
				}
			}
		default:
			n = r.RNG.Pick64() % (1<<23 + 1)
		}
		switch r.RNG.Intn(6) {
		case 0:
			lines = append(lines, fmt.Sprintf("numchunks %d", n))
		case 1:
			lines = append(lines, fmt.Sprintf("encode %s %d", verifh.Hex(k), n))
		case 2:
			lines = append(lines, fmt.Sprintf("verify %d %d %s", r.RNG.Intn(10), r.RNG.Pick64()%65536, verifh.Hex(k)))
		case 3:
			lines = append(lines, "maxchunks "+verifh.Hex(k))
		default:
			lines = append(lines, fmt.Sprintf("verifyvalue %s %d", verifh.Hex(k), n))
		}
	}
	return lines
}
