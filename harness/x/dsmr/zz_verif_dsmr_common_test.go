package dsmr

// Shared part of the C35 / C36 / C37 harnesses (one Lean model, three properties): the chunk
// universe built with the package's own test nodes, a system under test made of the real
// ChunkStorage + ChunkVerifier + Node + TimeValidityWindow, a scripted get-chunk peer, and
// the interpreter of the line protocol of lean/Driver/DSMR.lean.

import (
	"context"
	"errors"
	"fmt"
	"sort"
	"strconv"
	"strings"
	"sync"
	"sync/atomic"
	"testing"
	"time"

	"github.com/ava-labs/avalanchego/database"
	"github.com/ava-labs/avalanchego/database/memdb"
	"github.com/ava-labs/avalanchego/ids"
	"github.com/ava-labs/avalanchego/network/p2p"
	"github.com/ava-labs/avalanchego/network/p2p/acp118"
	"github.com/ava-labs/avalanchego/proto/pb/sdk"
	"github.com/ava-labs/avalanchego/utils/crypto/bls"
	"github.com/ava-labs/avalanchego/utils/wrappers"
	"github.com/ava-labs/avalanchego/snow/engine/common"
	"github.com/ava-labs/avalanchego/trace"
	"github.com/ava-labs/avalanchego/utils/logging"
	"github.com/ava-labs/avalanchego/utils/set"
	"github.com/ava-labs/avalanchego/vms/platformvm/warp"
	"google.golang.org/protobuf/proto"

	"github.com/ava-labs/hypersdk/codec"
	"github.com/ava-labs/hypersdk/internal/typedclient"
	"github.com/ava-labs/hypersdk/internal/validitywindow"
	"github.com/ava-labs/hypersdk/internal/validitywindow/validitywindowtest"
	"github.com/ava-labs/hypersdk/internal/verifh"
	"github.com/ava-labs/hypersdk/x/dsmr/dsmrtest"

	pb "github.com/ava-labs/hypersdk/proto/pb/dsmr"
)

type vChunk struct {
	idx      int
	chunk    Chunk[dsmrtest.Tx]
	cert     *ChunkCertificate // honest certificate (nil for invalid chunks)
	badCert  *ChunkCertificate // same reference, signature that does not verify
	partCert *ChunkCertificate // honest reference, signer set reduced to the producer (quorum < 1/1)
	producer int
	valid    bool
}

type vUniverse struct {
	chunks []*vChunk // idx = position+1
	byID   map[ids.ID]*vChunk
	nodes  []*Node[dsmrtest.Tx]
	// features of the running code the model is told about (header lines)
	nilCertGuard  bool // VerifyRemoteChunk survives a pending chunk without certificate
	checksMessage bool // the signature-request verifier compares the message with the chunk
	forged        map[int]*ChunkCertificate // chunk idx -> valid certificate over a reference with another expiry
	forgedOrder   []int
}

// expiry written into the forged reference of chunk idx
var vForgedExpiry = map[int]int64{1: 20, 4: 27}

// vReference builds the warp message over a chunk reference
func vReference(t *testing.T, ref ChunkReference) *warp.UnsignedMessage {
	p := wrappers.Packer{MaxSize: MaxMessageSize}
	if err := codec.LinearCodec.MarshalInto(ref, &p); err != nil {
		t.Fatal(err)
	}
	um, err := warp.NewUnsignedMessage(networkID, chainID, p.Bytes)
	if err != nil {
		t.Fatal(err)
	}
	return um
}

// probe reads the two features from the running code and tries to obtain, from the universe's
// own validators, certificates over references that do not match the chunk they were shown.
func (u *vUniverse) probe(t *testing.T) {
	ctx := context.Background()
	n0 := u.nodes[0]
	rf := testRuleFactory
	ver := NewChunkVerifier[dsmrtest.Tx](n0.chainState, rf)
	st, err := NewChunkStorage[dsmrtest.Tx](ver, memdb.New(), rf)
	if err != nil {
		t.Fatal(err)
	}
	c := u.chunks[6]
	_ = st.AddLocalChunkWithCert(c.chunk, nil)
	func() {
		defer func() { u.nilCertGuard = recover() == nil }()
		_, _ = st.VerifyRemoteChunk(c.chunk)
	}()
	// mismatching request against a scratch handler
	h := acp118.NewHandler(ChunkSignatureRequestVerifier[dsmrtest.Tx]{verifier: ver, storage: st}, n0.Signer)
	a, b := u.chunks[7], u.chunks[8]
	um := vReference(t, ChunkReference{ChunkID: a.chunk.id, Producer: a.chunk.Producer, Expiry: a.chunk.Expiry + 1})
	rb, _ := proto.Marshal(&sdk.SignatureRequest{Message: um.Bytes(), Justification: b.chunk.bytes})
	_, appErr := h.AppRequest(ctx, n0.ID, time.Now().Add(time.Second), rb)
	u.checksMessage = appErr != nil
	// forged certificates through the real aggregation path (what BuildChunk does)
	u.forged = map[int]*ChunkCertificate{}
	for _, idx := range []int{1, 4} {
		x := u.get(idx)
		ref := ChunkReference{ChunkID: x.chunk.id, Producer: x.chunk.Producer, Expiry: vForgedExpiry[idx]}
		just, err := signChunk[dsmrtest.Tx](UnsignedChunk[dsmrtest.Tx]{Producer: n0.ID, Beneficiary: codec.Address{0xf0, byte(idx)},
			Expiry: 50, Txs: []dsmrtest.Tx{{ID: ids.ID{0xf0, byte(idx)}, Expiry: 1_000_000}}}, networkID, chainID, n0.PublicKey, n0.Signer)
		if err != nil {
			t.Fatal(err)
		}
		msg, err := warp.NewMessage(vReference(t, ref), &warp.BitSetSignature{Signature: [bls.SignatureLen]byte{}})
		if err != nil {
			t.Fatal(err)
		}
		vals, err := n0.chainState.GetCanonicalValidatorSet(ctx)
		if err != nil {
			t.Fatal(err)
		}
		agg, _, _, err := n0.chunkSignatureAggregator.AggregateSignatures(ctx, msg, just.bytes, vals.Validators,
			n0.chainState.GetQuorumNum(), n0.chainState.GetQuorumDen())
		if err != nil {
			continue
		}
		sig, ok := agg.Signature.(*warp.BitSetSignature)
		if !ok {
			continue
		}
		cert := &ChunkCertificate{ChunkReference: ref, Signature: sig}
		if cert.Verify(ctx, n0.chainState) != nil {
			continue
		}
		u.forged[idx] = cert
		u.forgedOrder = append(u.forgedOrder, idx)
	}
}

// expiry of universe chunk i+1. 1..10: certified chunks of two producers; 11, 12: chunks whose
// signature does not verify; 13: a well signed chunk with expiry 0 (boundary: never tracked by the
// expiry map) without certificate; 14: a certified chunk larger than InitialChunkSize (250 KiB).
var vExpiries = []int64{3, 6, 6, 10, 14, 20, 8, 12, 30, 4, 9, 15, 0, 9}

const (
	vValid  = 10 // 1..vValid are small certified chunks
	vZero   = 13
	vBig    = 14
	vBigTxs = 3600
)

// vCertified lists the chunks that have an honest certificate
var vCertified = []int{1, 2, 3, 4, 5, 6, 7, 8, 9, 10, vBig}

func newVUniverse(t *testing.T) *vUniverse {
	ctx := context.Background()
	nodes := newTestNodes(t, 2)
	u := &vUniverse{byID: map[ids.ID]*vChunk{}, nodes: nodes}
	prodIdx := map[ids.NodeID]int{nodes[0].ID: 1, nodes[1].ID: 2}
	for i, e := range vExpiries {
		txID := ids.ID{0xc3, byte(i + 1)}
		if i+1 == vZero {
			c, err := signChunk[dsmrtest.Tx](UnsignedChunk[dsmrtest.Tx]{
				Producer: nodes[0].ID, Beneficiary: codec.Address{byte(i + 1)}, Expiry: e,
				Txs: []dsmrtest.Tx{{ID: txID, Expiry: 1_000_000}},
			}, networkID, chainID, nodes[0].PublicKey, nodes[0].Signer)
			if err != nil {
				t.Fatal(err)
			}
			bad := &ChunkCertificate{
				ChunkReference: ChunkReference{ChunkID: c.id, Producer: c.Producer, Expiry: c.Expiry},
				Signature:      &warp.BitSetSignature{Signers: set.NewBits(0).Bytes(), Signature: [96]byte{1, 2, 3}},
			}
			u.chunks = append(u.chunks, &vChunk{idx: i + 1, chunk: c, badCert: bad, producer: 1, valid: true})
			continue
		}
		if i < vValid || i+1 == vBig {
			n := nodes[0]
			if i >= 6 && i < vValid {
				n = nodes[1]
			}
			// sizes differ so that weights are informative
			ntx := 1 + i%3
			if i+1 == vBig {
				ntx = vBigTxs
			}
			txs := make([]dsmrtest.Tx, ntx)
			for k := range txs {
				txs[k] = dsmrtest.Tx{ID: ids.ID{0xc3, byte(i + 1), byte(k), byte(k >> 8)}, Expiry: 1_000_000}
			}
			txs[0].ID = txID
			if err := n.BuildChunk(ctx, txs, e, codec.Address{byte(i + 1)}); err != nil {
				t.Fatalf("BuildChunk %d: %v", i+1, err)
			}
			var found *StoredChunkSignature[dsmrtest.Tx]
			for _, sc := range n.storage.pendingChunkMap {
				if sc.Chunk.Txs[0].ID == txID {
					found = sc
				}
			}
			if found == nil || found.Cert == nil {
				t.Fatalf("chunk %d not stored with certificate", i+1)
			}
			bad := *found.Cert
			sig := *found.Cert.Signature
			sig.Signature[5] ^= 0xff
			bad.Signature = &sig
			part := *found.Cert
			psig := *found.Cert.Signature
			psig.Signers = getSignerBitSet(t, n.chainState, n.ID).Bytes()
			part.Signature = &psig
			vc := &vChunk{idx: i + 1, chunk: found.Chunk, cert: found.Cert, badCert: &bad, partCert: &part, producer: prodIdx[n.ID], valid: true}
			u.chunks = append(u.chunks, vc)
		} else {
			c, err := newChunk(UnsignedChunk[dsmrtest.Tx]{
				Producer: nodes[0].ID, Beneficiary: codec.Address{byte(i + 1)}, Expiry: e,
				Txs: []dsmrtest.Tx{{ID: txID, Expiry: 1_000_000}},
			}, [48]byte{}, [96]byte{})
			if err != nil {
				t.Fatal(err)
			}
			bad := &ChunkCertificate{
				ChunkReference: ChunkReference{ChunkID: c.id, Producer: c.Producer, Expiry: c.Expiry},
				Signature:      &warp.BitSetSignature{Signers: set.NewBits(0).Bytes(), Signature: [96]byte{1, 2, 3}},
			}
			u.chunks = append(u.chunks, &vChunk{idx: i + 1, chunk: c, badCert: bad, producer: 1, valid: false})
		}
	}
	for _, c := range u.chunks {
		u.byID[c.chunk.id] = c
	}
	if len(u.byID) != len(u.chunks) {
		t.Fatal("chunk ids not distinct")
	}
	u.probe(t)
	return u
}

func (u *vUniverse) get(i int) *vChunk {
	if i < 1 || i > len(u.chunks) {
		return nil
	}
	return u.chunks[i-1]
}

// header lines describing the universe to the model
func (u *vUniverse) header() []string {
	var out []string
	for _, c := range u.chunks {
		v := 0
		if c.valid {
			v = 1
		}
		out = append(out, fmt.Sprintf("chunk %d %d %d %d %d", c.idx, c.producer, c.chunk.Expiry, len(c.chunk.bytes), v))
	}
	b := map[bool]int{false: 0, true: 1}
	out = append(out, fmt.Sprintf("feature nilcertguard %d", b[u.nilCertGuard]), fmt.Sprintf("feature checksmessage %d", b[u.checksMessage]))
	for _, idx := range u.forgedOrder {
		out = append(out, fmt.Sprintf("forge %d %d", idx, vForgedExpiry[idx]))
	}
	return out
}

// ---- scripted get-chunk peer -------------------------------------------------------------

type vScriptClient struct {
	u      *vUniverse
	script   []string
	calls    int
	panicked atomic.Bool
	peer     *GetChunkHandler[dsmrtest.Tx]
	dead     set.Set[ids.NodeID] // validators that are unreachable during this accept
	deadHits int
}

// a node that keeps asking unreachable validators only is cut off after this many attempts
const vMaxDeadHits = 300

var errVSend = errors.New("scripted send failure")

// guard keeps the harness alive when the response callback panics (the panic is reported)
func (s *vScriptClient) guard(f func()) {
	defer func() {
		if r := recover(); r != nil {
			s.panicked.Store(true)
		}
	}()
	f()
}

func (*vScriptClient) AppRequestAny(context.Context, []byte, p2p.AppResponseCallback) error {
	return errVSend
}
func (*vScriptClient) AppGossip(context.Context, common.SendConfig, []byte) error { return nil }

func (s *vScriptClient) AppRequest(ctx context.Context, to set.Set[ids.NodeID], reqBytes []byte, cb p2p.AppResponseCallback) error {
	s.calls++
	if s.dead.Overlaps(to) {
		// the addressed validator is unreachable: the request fails, nothing of the script is consumed
		s.deadHits++
		if s.deadHits > vMaxDeadHits {
			return errVSend
		}
		go s.guard(func() { cb(ctx, ids.EmptyNodeID, nil, common.ErrTimeout) })
		return nil
	}
	if len(s.script) == 0 {
		return errVSend
	}
	tok := s.script[0]
	s.script = s.script[1:]
	switch tok {
	case "S":
		return errVSend
	case "P":
		// the peer node's real handler; the answer travels back through the real typed client
		rb, appErr := s.peer.AppRequest(ctx, ids.EmptyNodeID, time.Now().Add(time.Second), reqBytes)
		if appErr != nil {
			go s.guard(func() { cb(ctx, ids.EmptyNodeID, nil, appErr) })
		} else {
			go s.guard(func() { cb(ctx, ids.EmptyNodeID, rb, nil) })
		}
	case "E":
		go s.guard(func() { cb(ctx, ids.EmptyNodeID, nil, ErrChunkNotAvailable) })
	default:
		j, _ := strconv.Atoi(tok)
		c := s.u.get(j)
		rb, err := proto.Marshal(&pb.GetChunkResponse{Chunk: c.chunk.bytes})
		if err != nil {
			return err
		}
		go s.guard(func() { cb(ctx, ids.EmptyNodeID, rb, nil) })
	}
	return nil
}

// vGateDB lets the harness hold a batch write right before it reaches the database
type vGateDB struct {
	database.Database
	mu               sync.Mutex
	entered, release chan struct{}
}

func (db *vGateDB) gate() (entered, release chan struct{}) {
	db.mu.Lock()
	defer db.mu.Unlock()
	db.entered, db.release = make(chan struct{}), make(chan struct{})
	return db.entered, db.release
}

func (db *vGateDB) NewBatch() database.Batch { return &vGateBatch{Batch: db.Database.NewBatch(), db: db} }

type vGateBatch struct {
	database.Batch
	db *vGateDB
}

func (b *vGateBatch) Write() error {
	b.db.mu.Lock()
	entered, release := b.db.entered, b.db.release
	b.db.entered, b.db.release = nil, nil
	b.db.mu.Unlock()
	if entered != nil {
		close(entered)
		<-release
	}
	return b.Batch.Write()
}

// ---- system under test -------------------------------------------------------------------

type vBlock struct {
	blk      Block
	parent   int
	certIdx  []int // universe index per certificate
	verified bool
}

type vSUT struct {
	t        *testing.T
	u        *vUniverse
	window   int64
	limit    uint64
	rf       ruleFactory
	verifier *ChunkVerifier[dsmrtest.Tx]
	db       database.Database
	node     *Node[dsmrtest.Tx]
	index    *validitywindowtest.MockChainIndex[*emapChunkCertificate]
	client   *vScriptClient
	peer     *ChunkStorage[dsmrtest.Tx] // a second node: its real GetChunkHandler answers "P" tokens
	blocks   map[int]*vBlock
	lastH    int  // handle of the last accepted block
	poisoned bool // a SetMin failed in this sequence
	defined  map[int]bool
}

func newVSUT(t *testing.T, u *vUniverse) *vSUT {
	s := &vSUT{t: t, u: u, window: 5, limit: 1000000, defined: map[int]bool{}}
	s.reset()
	return s
}

func vBlockID(h int) ids.ID {
	if h == 0 {
		return ids.Empty // genesis Block{}
	}
	return ids.ID{0xb1, byte(h), byte(h >> 8), byte(h >> 16)}
}

func (s *vSUT) reset() {
	ctx := context.Background()
	chainState := s.u.nodes[0].chainState
	s.rf = ruleFactory{rules: rules{validityWindow: s.window, maxProducerChunkWeight: s.limit}}
	s.verifier = NewChunkVerifier[dsmrtest.Tx](chainState, s.rf)
	s.db = &vGateDB{Database: memdb.New()}
	st, err := NewChunkStorage[dsmrtest.Tx](s.verifier, s.db, s.rf)
	if err != nil {
		s.t.Fatal(err)
	}
	s.index = &validitywindowtest.MockChainIndex[*emapChunkCertificate]{}
	gen := Block{}
	s.index.Set(gen.GetID(), NewValidityWindowBlock(gen))
	w := s.window
	tw, err := validitywindow.NewTimeValidityWindow[*emapChunkCertificate](ctx, logging.NoLog{}, trace.Noop, s.index,
		NewValidityWindowBlock(gen), func(int64) int64 { return w })
	if err != nil {
		s.t.Fatal(err)
	}
	n0 := s.u.nodes[0]
	node, err := New[dsmrtest.Tx](logging.NoLog{}, ids.GenerateTestNodeID(), chainState, n0.PublicKey, n0.Signer, st,
		nil, nil, nil, nil, nil, nil, gen, tw, s.rf)
	if err != nil {
		s.t.Fatal(err)
	}
	pst, err := NewChunkStorage[dsmrtest.Tx](NewChunkVerifier[dsmrtest.Tx](chainState, s.rf), memdb.New(), s.rf)
	if err != nil {
		s.t.Fatal(err)
	}
	s.peer = pst
	s.client = &vScriptClient{u: s.u, peer: &GetChunkHandler[dsmrtest.Tx]{storage: pst}}
	node.getChunkClient = typedclient.NewTypedClient[*pb.GetChunkRequest, Chunk[dsmrtest.Tx], []byte](s.client, getChunkMarshaler[dsmrtest.Tx]{})
	s.node = node
	s.blocks = map[int]*vBlock{0: {blk: gen, parent: 0, verified: true}}
	s.lastH = 0
	s.poisoned = false
}

func vJoin(l []int) string {
	if len(l) == 0 {
		return "-"
	}
	sort.Ints(l)
	ss := make([]string, len(l))
	for i, v := range l {
		ss[i] = strconv.Itoa(v)
	}
	return strings.Join(ss, ",")
}

func vJoinOrdered(l []int) string {
	if len(l) == 0 {
		return "-"
	}
	ss := make([]string, len(l))
	for i, v := range l {
		ss[i] = strconv.Itoa(v)
	}
	return strings.Join(ss, ",")
}

// peerHolds: the peer node stores chunk i (pending, or accepted under its expiry slot)
func (s *vSUT) peerHolds(i int) bool {
	c := s.u.get(i)
	if c == nil {
		return false
	}
	if _, ok := s.peer.pendingChunkMap[c.chunk.id]; ok {
		return true
	}
	ok, err := s.peer.chunkDB.Has(acceptedChunkKey(c.chunk.Expiry, c.chunk.id))
	return err == nil && ok
}

func (s *vSUT) idxOf(id ids.ID) int {
	if c, ok := s.u.byID[id]; ok {
		return c.idx
	}
	return -1
}

type vAbs struct {
	pending, accepted []int
	min               int64
	weights           map[int]uint64
}

func (s *vSUT) abs() vAbs {
	st := s.node.storage
	a := vAbs{min: st.minimumExpiry, weights: map[int]uint64{}}
	for id := range st.pendingChunkMap {
		a.pending = append(a.pending, s.idxOf(id))
	}
	it := s.db.NewIteratorWithPrefix([]byte{acceptedByte})
	for it.Next() {
		_, _, id, err := parseChunkKey(it.Key())
		if err != nil {
			a.accepted = append(a.accepted, -2)
			continue
		}
		a.accepted = append(a.accepted, s.idxOf(id))
	}
	it.Release()
	prod := map[ids.NodeID]int{s.u.nodes[0].ID: 1, s.u.nodes[1].ID: 2}
	for p, w := range st.pendingChunksSizes {
		a.weights[prod[p]] = w
	}
	sort.Ints(a.pending)
	sort.Ints(a.accepted)
	return a
}

func (a vAbs) String() string {
	var ps []int
	for p, w := range a.weights {
		if w != 0 {
			ps = append(ps, p)
		}
	}
	sort.Ints(ps)
	ws := make([]string, len(ps))
	for i, p := range ps {
		ws[i] = fmt.Sprintf("%d:%d", p, a.weights[p])
	}
	w := "-"
	if len(ws) > 0 {
		w = strings.Join(ws, ",")
	}
	return fmt.Sprintf("p=%s a=%s min=%d w=%s", vJoin(a.pending), vJoin(a.accepted), a.min, w)
}

func (s *vSUT) certTok(tok string) (*ChunkCertificate, int) {
	if strings.HasSuffix(tok, "q") {
		i, err := strconv.Atoi(strings.TrimSuffix(tok, "q"))
		if err != nil || s.u.get(i) == nil || s.u.get(i).partCert == nil {
			return nil, 0
		}
		return s.u.get(i).partCert, i
	}
	if strings.HasSuffix(tok, "f") {
		i, err := strconv.Atoi(strings.TrimSuffix(tok, "f"))
		if err != nil || s.u.forged[i] == nil {
			return nil, 0
		}
		return s.u.forged[i], i
	}
	bad := strings.HasSuffix(tok, "x")
	i, err := strconv.Atoi(strings.TrimSuffix(tok, "x"))
	if err != nil {
		return nil, 0
	}
	c := s.u.get(i)
	if c == nil {
		return nil, 0
	}
	if bad {
		return c.badCert, i
	}
	return c.cert, i // nil for invalid chunks: the generator never asks for it
}

func vVerifyErr(err error) string {
	switch {
	case err == nil:
		return "ok"
	case errors.Is(err, ErrInvalidBlockParent):
		return "parent"
	case errors.Is(err, ErrInvalidBlockHeight):
		return "height"
	case errors.Is(err, ErrInvalidBlockTimestamp):
		return "timestamp"
	case errors.Is(err, ErrEmptyBlock):
		return "empty"
	case errors.Is(err, validitywindow.ErrDuplicateContainer):
		return "dup"
	case errors.Is(err, database.ErrNotFound):
		return "index"
	case errors.Is(err, ErrInvalidWarpSignature):
		return "sig"
	case errors.Is(err, validitywindow.ErrTimestampExpired):
		return "expired"
	case errors.Is(err, validitywindow.ErrFutureTimestamp):
		return "future"
	}
	return "err:" + strings.ReplaceAll(err.Error(), " ", "_")
}

// exec runs one op line on the real code and returns the canonical output.
func (s *vSUT) exec(line string) (out string) {
	ctx := context.Background()
	f := verifh.Fields(line)
	if len(f) == 0 {
		return "bad-op"
	}
	num := func(w string) (int, bool) {
		v, err := strconv.Atoi(w)
		return v, err == nil && v >= 0
	}
	st := s.node.storage
	switch f[0] {
	case "chunk":
		if len(f) != 6 {
			return "bad-op"
		}
		i, ok := num(f[1])
		if !ok || s.u.get(i) == nil || s.defined[i] {
			return "bad-op"
		}
		s.defined[i] = true
		return "ok"
	case "feature":
		b := map[bool]string{false: "0", true: "1"}
		if len(f) == 3 && ((f[1] == "nilcertguard" && f[2] == b[s.u.nilCertGuard]) || (f[1] == "checksmessage" && f[2] == b[s.u.checksMessage])) {
			return "ok"
		}
		return "bad-op"
	case "forge":
		if len(f) != 3 {
			return "bad-op"
		}
		i, ok := num(f[1])
		if !ok || s.u.forged[i] == nil || f[2] != strconv.FormatInt(vForgedExpiry[i], 10) || s.defined[1000+i] {
			return "bad-op"
		}
		s.defined[1000+i] = true
		return "ok"
	case "sigreq":
		if len(f) != 4 {
			return "bad-op"
		}
		i, ok1 := num(f[1])
		e, ok2 := num(f[2])
		j, ok3 := num(f[3])
		ci, cj := s.u.get(i), s.u.get(j)
		if !ok1 || !ok2 || !ok3 || ci == nil || cj == nil {
			return "bad-op"
		}
		defer func() {
			if r := recover(); r != nil {
				out = "panic"
			}
		}()
		h := acp118.NewHandler(ChunkSignatureRequestVerifier[dsmrtest.Tx]{verifier: s.verifier, storage: st}, s.u.nodes[0].Signer)
		um := vReference(s.t, ChunkReference{ChunkID: ci.chunk.id, Producer: ci.chunk.Producer, Expiry: int64(e)})
		rb, _ := proto.Marshal(&sdk.SignatureRequest{Message: um.Bytes(), Justification: cj.chunk.bytes})
		resp, appErr := h.AppRequest(ctx, s.u.nodes[0].ID, time.Now().Add(time.Second), rb)
		if appErr != nil {
			return "refused"
		}
		// the answer must be a signature of this validator over exactly the requested message
		sr := &sdk.SignatureResponse{}
		if err := proto.Unmarshal(resp, sr); err != nil {
			return "bad-response"
		}
		sig, err := bls.SignatureFromBytes(sr.Signature)
		if err != nil || !bls.Verify(s.u.nodes[0].PublicKey, sig, um.Bytes()) {
			return "bad-signature"
		}
		return "signed"
	case "cfg":
		if len(f) != 4 {
			return "bad-op"
		}
		w, ok1 := num(f[1])
		l, ok2 := num(f[2])
		k, ok3 := num(f[3])
		if !ok1 || !ok2 || !ok3 || int64(k) != maxTimeSkew.Nanoseconds() {
			return "bad-op"
		}
		s.window, s.limit = int64(w), uint64(l)
		s.reset()
		return "ok"
	case "reset":
		if len(f) != 1 {
			return "bad-op"
		}
		s.reset()
		return "ok"
	case "addlocal":
		if len(f) != 3 {
			return "bad-op"
		}
		i, ok := num(f[1])
		c := s.u.get(i)
		if !ok || c == nil {
			return "bad-op"
		}
		var cert *ChunkCertificate
		switch f[2] {
		case "c":
			cert = c.cert
			if cert == nil {
				return "bad-op"
			}
		case "n":
		default:
			return "bad-op"
		}
		if err := st.AddLocalChunkWithCert(c.chunk, cert); err != nil {
			return "err"
		}
		return "ok"
	case "paddlocal":
		if len(f) != 2 {
			return "bad-op"
		}
		i, ok := num(f[1])
		c := s.u.get(i)
		if !ok || c == nil {
			return "bad-op"
		}
		if err := s.peer.AddLocalChunkWithCert(c.chunk, nil); err != nil {
			return "err"
		}
		return "ok"
	case "psetmin":
		if len(f) < 2 {
			return "bad-op"
		}
		m, ok := num(f[1])
		if !ok {
			return "bad-op"
		}
		var save []ids.ID
		for _, w := range f[2:] {
			i, ok := num(w)
			c := s.u.get(i)
			if !ok || c == nil {
				return "bad-op"
			}
			save = append(save, c.chunk.id)
		}
		if err := s.peer.SetMin(int64(m), save); err != nil {
			return "err"
		}
		return "ok"
	case "vremote":
		if len(f) != 2 {
			return "bad-op"
		}
		i, ok := num(f[1])
		c := s.u.get(i)
		if !ok || c == nil {
			return "bad-op"
		}
		defer func() {
			if r := recover(); r != nil {
				out = "panic"
			}
		}()
		_, hadBefore := st.pendingChunkMap[c.chunk.id]
		_, err := st.VerifyRemoteChunk(c.chunk)
		switch {
		case err == nil && hadBefore:
			return "known"
		case err == nil:
			return "stored"
		case errors.Is(err, validitywindow.ErrTimestampExpired):
			return "expired"
		case errors.Is(err, validitywindow.ErrFutureTimestamp):
			return "future"
		default:
			return "invalid"
		}
	case "setcert":
		if len(f) != 3 || (f[2] != "g" && f[2] != "b") {
			return "bad-op"
		}
		i, ok := num(f[1])
		c := s.u.get(i)
		if !ok || c == nil {
			return "bad-op"
		}
		cert := c.cert
		if f[2] == "b" {
			cert = c.badCert
		}
		if cert == nil {
			return "bad-op"
		}
		_, had := st.pendingChunkMap[cert.ChunkID]
		err := st.SetChunkCert(ctx, cert.ChunkID, cert)
		switch {
		case err == nil:
			return "ok"
		case !had:
			return "nochunk"
		default:
			return "badcert"
		}
	case "setmin":
		if len(f) < 2 {
			return "bad-op"
		}
		m, ok := num(f[1])
		if !ok {
			return "bad-op"
		}
		var save []ids.ID
		for _, w := range f[2:] {
			i, ok := num(w)
			c := s.u.get(i)
			if !ok || c == nil {
				return "bad-op"
			}
			save = append(save, c.chunk.id)
		}
		if err := st.SetMin(int64(m), save); err != nil {
			s.poisoned = true
			return "err"
		}
		return "ok"
	case "racesetmin":
		if len(f) < 3 {
			return "bad-op"
		}
		m, ok1 := num(f[1])
		j, ok2 := num(f[2])
		cj := s.u.get(j)
		if !ok1 || !ok2 || cj == nil {
			return "bad-op"
		}
		var save []ids.ID
		for _, w := range f[3:] {
			i, ok := num(w)
			c := s.u.get(i)
			if !ok || c == nil {
				return "bad-op"
			}
			save = append(save, c.chunk.id)
		}
		gdb := s.db.(*vGateDB)
		entered, release := gdb.gate()
		setDone := make(chan error, 1)
		go func() { setDone <- st.SetMin(int64(m), save) }()
		var setErr error
		finished := false
		select {
		case <-entered:
		case setErr = <-setDone: // failed before writing its batch
			finished = true
			gdb.mu.Lock()
			gdb.entered, gdb.release = nil, nil
			gdb.mu.Unlock()
		}
		addDone := make(chan error, 1)
		go func() { addDone <- st.AddLocalChunkWithCert(cj.chunk, nil) }()
		if !finished {
			// the batch write is held: give the concurrent add the chance to run if nothing stops it
			select {
			case err := <-addDone:
				addDone <- err
			case <-time.After(15 * time.Millisecond):
			}
			close(release)
			setErr = <-setDone
		}
		if err := <-addDone; err != nil {
			return "add-err"
		}
		if setErr != nil {
			s.poisoned = true
			return "err"
		}
		return "ok"
	case "gather":
		var l []int
		for _, c := range st.GatherChunkCerts() {
			l = append(l, s.idxOf(c.ChunkID))
		}
		return vJoin(l)
	case "getbytes":
		if len(f) != 3 {
			return "bad-op"
		}
		e, ok1 := num(f[1])
		i, ok2 := num(f[2])
		c := s.u.get(i)
		if !ok1 || !ok2 || c == nil {
			return "bad-op"
		}
		b, err := st.GetChunkBytes(int64(e), c.chunk.id)
		switch {
		case err == nil && string(b) == string(c.chunk.bytes):
			return "ok"
		case err == nil:
			return "wrong-bytes"
		case errors.Is(err, database.ErrNotFound):
			return "notfound"
		}
		return "err"
	case "rate":
		if len(f) != 2 {
			return "bad-op"
		}
		i, ok := num(f[1])
		c := s.u.get(i)
		if !ok || c == nil {
			return "bad-op"
		}
		if err := st.CheckRateLimit(c.chunk); err != nil {
			return "limit"
		}
		return "ok"
	case "reopen":
		if len(f) != 1 {
			return "bad-op"
		}
		nst, err := NewChunkStorage[dsmrtest.Tx](s.verifier, s.db, s.rf)
		if err != nil {
			return "err"
		}
		s.node.storage = nst
		return "ok"
	case "abs":
		if len(f) != 1 {
			return "bad-op"
		}
		return s.abs().String()
	case "mk":
		if len(f) < 5 {
			return "bad-op"
		}
		h, ok1 := num(f[1])
		p, ok2 := num(f[2])
		ts, ok3 := num(f[3])
		ht, ok4 := num(f[4])
		if !ok1 || !ok2 || !ok3 || !ok4 || s.blocks[h] != nil || s.blocks[p] == nil {
			return "bad-op"
		}
		vb := &vBlock{parent: p}
		var certs []*ChunkCertificate
		for _, tok := range f[5:] {
			c, i := s.certTok(tok)
			if c == nil {
				return "bad-op"
			}
			certs = append(certs, c)
			vb.certIdx = append(vb.certIdx, i)
		}
		vb.blk = Block{BlockHeader: BlockHeader{ParentID: vBlockID(p), Height: uint64(ht), Timestamp: int64(ts)}, ChunkCerts: certs, blkID: vBlockID(h)}
		s.blocks[h] = vb
		return "ok"
	case "verify":
		if len(f) != 3 {
			return "bad-op"
		}
		h, ok1 := num(f[1])
		p, ok2 := num(f[2])
		if !ok1 || !ok2 || s.blocks[h] == nil || s.blocks[p] == nil {
			return "bad-op"
		}
		vb := s.blocks[h]
		err := s.node.Verify(ctx, s.blocks[p].blk, vb.blk)
		if err == nil {
			vb.verified = true
			s.index.Set(vb.blk.GetID(), NewValidityWindowBlock(vb.blk))
		}
		return vVerifyErr(err)
	case "build":
		if len(f) != 4 {
			return "bad-op"
		}
		h, ok1 := num(f[1])
		p, ok2 := num(f[2])
		ts, ok3 := num(f[3])
		if !ok1 || !ok2 || !ok3 || s.blocks[h] != nil || s.blocks[p] == nil {
			return "bad-op"
		}
		blk, err := s.node.BuildBlock(ctx, s.blocks[p].blk, int64(ts))
		switch {
		case err == nil:
		case errors.Is(err, ErrTimestampNotMonotonicallyIncreasing):
			return "timestamp"
		case errors.Is(err, ErrNoAvailableChunkCerts):
			return "none"
		case errors.Is(err, database.ErrNotFound):
			return "index"
		default:
			return "err:" + strings.ReplaceAll(err.Error(), " ", "_")
		}
		// canonical order: by universe index (the builder iterates a Go map)
		certs := append([]*ChunkCertificate{}, blk.ChunkCerts...)
		sort.Slice(certs, func(a, b int) bool { return s.idxOf(certs[a].ChunkID) < s.idxOf(certs[b].ChunkID) })
		vb := &vBlock{parent: p}
		for _, c := range certs {
			vb.certIdx = append(vb.certIdx, s.idxOf(c.ChunkID))
		}
		if blk.ParentID != vBlockID(p) || blk.Height != s.blocks[p].blk.Height+1 || blk.Timestamp != int64(ts) {
			return "bad-header"
		}
		vb.blk = Block{BlockHeader: blk.BlockHeader, ChunkCerts: certs, blkID: vBlockID(h)}
		s.blocks[h] = vb
		return "ok " + vJoinOrdered(vb.certIdx)
	case "accept":
		if len(f) < 2 {
			return "bad-op"
		}
		h, ok := num(f[1])
		if !ok || s.blocks[h] == nil {
			return "bad-op"
		}
		for _, tok := range f[2:] {
			if tok == "E" || tok == "S" || tok == "P" || tok == "D1" || tok == "D2" {
				continue
			}
			if j, ok := num(tok); !ok || s.u.get(j) == nil {
				return "bad-op"
			}
		}
		s.client.script = s.client.script[:0]
		s.client.dead = set.Set[ids.NodeID]{}
		s.client.deadHits = 0
		for _, tok := range f[2:] {
			switch tok {
			case "D1":
				s.client.dead.Add(s.u.nodes[0].ID)
			case "D2":
				s.client.dead.Add(s.u.nodes[1].ID)
			default:
				s.client.script = append(s.client.script, tok)
			}
		}
		vb := s.blocks[h]
		type res struct {
			eb  ExecutedBlock[dsmrtest.Tx]
			err error
		}
		ch := make(chan res, 1)
		go func() {
			eb, err := s.node.Accept(ctx, vb.blk)
			ch <- res{eb, err}
		}()
		var eb ExecutedBlock[dsmrtest.Tx]
		var err error
		select {
		case r := <-ch:
			eb, err = r.eb, r.err
		case <-time.After(20 * time.Second):
			s.poisoned = true
			return "hang"
		}
		if s.client.panicked.Swap(false) {
			s.poisoned = true
			return "panic"
		}
		switch {
		case err == nil:
			s.lastH = h
			var l []int
			for _, c := range eb.Chunks {
				l = append(l, s.idxOf(c.id))
			}
			return "ok " + vJoinOrdered(l)
		case strings.Contains(err.Error(), "failed to prune chunks"):
			s.poisoned = true
			return "prune"
		default:
			return "fetch"
		}
	}
	return "bad-op"
}

// vRun wires a Run to a SUT: every executed line is emitted.
type vRun struct {
	r   *verifh.Run
	sut *vSUT
}

func (v *vRun) do(format string, a ...any) string {
	line := fmt.Sprintf(format, a...)
	out := v.sut.exec(line)
	v.r.Emit(line, out)
	if op := strings.SplitN(line, " ", 2)[0]; op != "abs" && op != "gather" && op != "chunk" && op != "feature" && op != "forge" {
		v.r.Count("res:" + op + ":" + strings.SplitN(out, " ", 2)[0])
	}
	return out
}

func vStart(t *testing.T, id string) (*vRun, []string) {
	r := verifh.Start(id)
	u := newVUniverse(t)
	v := &vRun{r: r, sut: newVSUT(t, u)}
	// the universe is deterministic and always described first (replays start at a `cfg` line)
	for _, l := range u.header() {
		v.do("%s", l)
	}
	lines := r.ReplayLines()
	if lines != nil {
		kept := lines[:0]
		for _, l := range lines {
			if !strings.HasPrefix(l, "chunk ") && !strings.HasPrefix(l, "feature ") && !strings.HasPrefix(l, "forge ") {
				kept = append(kept, l)
			}
		}
		lines = kept
	}
	return v, lines
}

func vCfg(w int, limit int) string {
	return fmt.Sprintf("cfg %d %d %d", w, limit, maxTimeSkew.Nanoseconds())
}
