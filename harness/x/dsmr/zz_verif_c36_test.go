package dsmr

import (
	"fmt"
	"strings"
	"testing"

	"github.com/ava-labs/hypersdk/internal/verifh"
)

// C36: reopening the chunk storage on the same db changes nothing observable
// (pending set, accepted set, minimum expiry, per-producer pending weight).

type c36 struct{ v *vRun }

func (o *c36) snapshot() (string, vAbs) {
	s := o.v.sut
	a := s.abs()
	var sb strings.Builder
	sb.WriteString(a.String())
	for _, c := range s.u.chunks {
		_, err := s.node.storage.GetChunkBytes(c.chunk.Expiry, c.chunk.id)
		fmt.Fprintf(&sb, " g%d=%v", c.idx, err == nil)
		fmt.Fprintf(&sb, " r%d=%v", c.idx, s.node.storage.CheckRateLimit(c.chunk) == nil)
	}
	return sb.String(), a
}

// known: the answer of VerifyRemoteChunk for every pending chunk (no state change for those):
// "known" or "panic" (nil dereference of the missing certificate)
func (o *c36) known() map[int]string {
	s := o.v.sut
	out := map[int]string{}
	for _, c := range s.u.chunks {
		if _, ok := s.node.storage.pendingChunkMap[c.chunk.id]; !ok {
			continue
		}
		func() {
			defer func() {
				if recover() != nil {
					out[c.idx] = "panic"
				}
			}()
			if _, err := s.node.storage.VerifyRemoteChunk(c.chunk); err != nil {
				out[c.idx] = "err"
			} else {
				out[c.idx] = "known"
			}
		}()
	}
	return out
}

func (o *c36) step(line string) string {
	s := o.v.sut
	if line != "reopen" || s.poisoned {
		out := o.v.do("%s", line)
		if out == "panic" && (strings.HasPrefix(line, "vremote ") || strings.HasPrefix(line, "sigreq ")) {
			o.v.r.Violation("verify-remote-chunk-panics-on-pending-chunk-without-cert",
				"VerifyRemoteChunk dereferences the nil certificate of a pending chunk: %s", line)
		}
		return out
	}
	before, ab := o.snapshot()
	kb := o.known()
	out := o.v.do("%s", line)
	after, aa := o.snapshot()
	if out == "ok" {
		ka := o.known()
		for i, b := range kb {
			if a, ok := ka[i]; ok && a != b && b == "known" && a == "panic" {
				o.v.r.Violation("reopen-turns-known-into-panic",
					"VerifyRemoteChunk(chunk %d) answered %q before the reopen and %q after it (certificates are not persisted and the nil certificate is dereferenced)", i, b, a)
				break
			}
		}
	}
	if len(ab.pending)+len(ab.accepted) > 0 {
		o.v.r.Distinct(before)
	}
	if out != "ok" {
		o.v.r.Violation("reopen-fails", "NewChunkStorage on the same db failed (%s); before: %s", out, before)
		return out
	}
	if before != after {
		key := "reopen-changes-state"
		was := map[int]bool{}
		for _, i := range ab.pending {
			was[i] = true
		}
		acc := map[int]bool{}
		for _, i := range ab.accepted {
			acc[i] = true
		}
		for _, i := range aa.pending {
			if !was[i] && acc[i] {
				key = "reopen-resurrects-saved-chunk"
			}
		}
		o.v.r.Violation(key, "before reopen: %s  after: %s", before, after)
	}
	return out
}

func TestVerifC36(t *testing.T) {
	v, lines := vStart(t, "C36")
	defer v.r.Finish()
	o := &c36{v: v}
	if lines != nil {
		for _, l := range lines {
			o.step(l)
		}
		return
	}
	rng := v.r.RNG
	// corpus: the witness of the defect repaired by fixes/C36-*: a saved chunk kept its pending key
	for _, l := range []string{vCfg(5, 1000000), "addlocal 1 c", "setmin 2 1", "abs", "reopen", "abs", "rate 1",
		// boundary: a chunk with expiry 0 is never tracked by the expiry map: it stays pending in memory
		// and on disk across minimum advances and restarts
		vCfg(5, 1000000), "vremote 13", "addlocal 1 c", "setmin 4", "abs", "getbytes 0 13", "reopen", "abs", "setmin 9 13", "reopen", "abs",
		vCfg(5, 1000000), "addlocal 13 n", "setmin 2", "addlocal 1 n", "reopen", "abs", "setmin 7", "reopen", "abs",
		// a chunk that the in-flight SetMin has just expired (3) / saved (4) arrives again from another
		// goroutine while the batch is being written: the lock serialises the two operations
		vCfg(12, 1000000), "addlocal 1 n", "addlocal 6 n", "racesetmin 5 1", "abs", "reopen", "abs",
		vCfg(12, 1000000), "addlocal 4 c", "addlocal 6 n", "racesetmin 5 4 4", "abs", "reopen", "abs",
		vCfg(5, 1000000), "vremote 4", "setcert 4 g", "addlocal 2 c", "setmin 5 4", "reopen", "abs", "gather", "setmin 20", "reopen", "abs"} {
		o.step(l)
	}
	nseq := v.r.N(220, 5000)
	races := 0
	for n := 0; n < nseq; n++ {
		w := []int{5, 12, 40}[rng.Intn(3)]
		limit := []int{1000000, 1000000, 700, 400}[rng.Intn(4)]
		o.step(vCfg(w, limit))
		cur := 0
		nops := 6 + rng.Intn(18)
		for k := 0; k < nops; k++ {
			i := 1 + rng.Intn(len(v.sut.u.chunks))
			if rng.Chance(8) {
				i = vZero
			}
			if i == vBig && !rng.Chance(15) {
				i = 1 + rng.Intn(vValid) // the 260 KiB chunk is slow to verify: keep it rare here
			}
			valid := v.sut.u.get(i).cert != nil // has an honest certificate
			switch x := rng.Intn(100); {
			case x < 22:
				c := "n"
				if valid && rng.Chance(70) {
					c = "c"
				}
				o.step(fmt.Sprintf("addlocal %d %s", i, c))
			case x < 42:
				o.step(fmt.Sprintf("vremote %d", i))
			case x < 52:
				g := "g"
				if !valid || rng.Chance(20) {
					g = "b"
				}
				o.step(fmt.Sprintf("setcert %d %s", i, g))
			case x < 72:
				if v.sut.poisoned {
					continue
				}
				cur += rng.Intn(6)
				var save []string
				pend := v.sut.abs().pending
				for _, p := range pend {
					if rng.Chance(35) {
						save = append(save, fmt.Sprint(p))
					}
				}
				if rng.Chance(4) {
					save = append(save, fmt.Sprint(i)) // possibly not pending / duplicate: SetMin fails
				}
				for a := len(save) - 1; a > 0; a-- {
					b := rng.Intn(a + 1)
					save[a], save[b] = save[b], save[a]
				}
				if races < v.r.N(25, 400) && rng.Chance(12) {
					// the same, with a chunk (often one this SetMin expires or saves) re-added concurrently
					races++
					j := i
					if len(pend) > 0 && rng.Chance(75) {
						j = pend[rng.Intn(len(pend))]
					}
					o.step(strings.TrimSpace(fmt.Sprintf("racesetmin %d %d %s", cur, j, strings.Join(save, " "))))
				} else {
					o.step(strings.TrimSpace(fmt.Sprintf("setmin %d %s", cur, strings.Join(save, " "))))
				}
			case x < 86:
				o.step("reopen")
			case x < 90:
				o.step("gather")
			case x < 95:
				c := v.sut.u.get(i)
				e := c.chunk.Expiry
				if rng.Chance(15) {
					e++
				}
				o.step(fmt.Sprintf("getbytes %d %d", e, i))
			case x < 97:
				o.step(fmt.Sprintf("rate %d", i))
			default:
				o.step(fmt.Sprintf("sigreq %d %d %d", i, v.sut.u.get(i).chunk.Expiry, i))
			}
			if rng.Chance(60) {
				o.step("abs")
			}
		}
		o.step("reopen")
		o.step("abs")
		o.step("gather")
	}
	_ = verifh.Hex
}
