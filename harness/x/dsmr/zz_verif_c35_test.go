package dsmr

import (
	"fmt"
	"strconv"
	"strings"
	"testing"

	"github.com/ava-labs/hypersdk/internal/verifh"
)

// C35: Accept returns exactly the chunks referenced by the block's certificates, in order,
// whether they were local or fetched, and succeeds once a peer serves a valid chunk.

type c35 struct{ v *vRun }

func (o *c35) step(line string) string {
	s := o.v.sut
	f := verifh.Fields(line)
	if len(f) < 2 || f[0] != "accept" {
		return o.v.do("%s", line)
	}
	h, err := strconv.Atoi(f[1])
	vb := s.blocks[h]
	if err != nil || vb == nil {
		return o.v.do("%s", line)
	}
	st := s.node.storage
	// the statement's premises, evaluated on the state before the call
	pre := !s.poisoned
	seen := map[int]bool{}
	certPos := map[int]int{}
	var missing []int
	for k, i := range vb.certIdx {
		certPos[i] = k
		if seen[i] {
			pre = false // Verify rejects blocks that repeat a chunk
		}
		seen[i] = true
		c := s.u.get(i)
		_, gerr := st.GetChunkBytes(vb.blk.ChunkCerts[k].Expiry, c.chunk.id)
		_, pending := st.pendingChunkMap[c.chunk.id]
		if gerr != nil {
			missing = append(missing, i)
		} else if !pending {
			pre = false // stored as accepted only: the chunk was already included before (C37)
		}
	}
	var script []string
	for _, tok := range f[2:] {
		if tok != "D1" && tok != "D2" { // unreachable validators: routing, not answers
			script = append(script, tok)
		}
	}
	served := true
	beyond := 0 // served chunks that are valid at the block but not for the node's chunk verifier
	pos := 0
	for _, want := range missing {
		found := false
		for pos < len(script) && !found {
			tok := script[pos]
			pos++
			if tok == "S" {
				break
			}
			j, err := strconv.Atoi(tok)
			if tok == "P" && s.peerHolds(want) && vb.blk.ChunkCerts[certPos[want]].Expiry == s.u.get(want).chunk.Expiry {
				// the peer node holds the chunk (pending or accepted) and is asked under the right slot
				j, err = want, nil
			}
			if err == nil && j == want && o.validAt(vb, j) {
				found = true
				// (arithmetic on the verifier's minimum, not its verdict: the verdict is under test)
				if e := s.u.get(j).chunk.Expiry; e < s.verifier.min || e > s.verifier.min+s.window {
					beyond++
				}
			}
		}
		if !found {
			served = false
			break
		}
	}
	atLimit := 0
	for _, i := range missing {
		if st.CheckRateLimit(s.u.get(i).chunk) != nil {
			atLimit++
		}
	}
	out := o.v.do("%s", line)
	if atLimit > 0 {
		o.v.r.Count(fmt.Sprintf("c35:missing-chunk-of-producer-at-limit,served=%v,ok=%v", served && pre, strings.HasPrefix(out, "ok")))
	}
	sig := fmt.Sprintf("n=%d missing=%d script=%d pre=%v served=%v", len(vb.certIdx), len(missing), len(script), pre, served)
	if len(missing) > 0 {
		o.v.r.Distinct(sig + " " + strings.Join(script, ","))
	}
	o.v.r.Count("c35:" + fmt.Sprintf("missing=%d,served=%v,ok=%v", len(missing), served && pre, strings.HasPrefix(out, "ok")))
	if out == "hang" {
		o.v.r.Violation("accept-hangs", "Accept did not return within 20s: %s (%s)", line, sig)
		return out
	}
	if out == "panic" {
		o.v.r.Violation("accept-panics-in-response-callback", "the get-chunk response callback panicked: %s (%s)", line, sig)
		return out
	}
	if strings.HasPrefix(out, "ok") {
		want := "ok " + vJoinOrdered(vb.certIdx)
		if out != want {
			o.v.r.Violation("accept-chunks-differ-from-certs", "executed chunks %q, certificates reference %q (%s)", out, want, sig)
		}
	} else if pre && served {
		key := "accept-fails-after-valid-chunk-served"
		if len(missing) == 0 {
			key = "accept-fails-with-all-chunks-local"
		} else if beyond > 0 {
			// known finding: the fetched chunk is verified against the node's last SetMin, not
			// against the block that references it
			key = "accept-rejects-chunk-valid-at-block-timestamp"
		}
		o.v.r.Violation(key, "Accept returned %s although every missing chunk %v is served valid by the peer script %v (%s)", out, missing, script, sig)
	}
	return out
}

// validAt: chunk j is a valid chunk for block vb in the terms Verify uses for its certificate:
// well signed by a validator and vb.timestamp <= expiry <= vb.timestamp + validity window.
func (o *c35) validAt(vb *vBlock, j int) bool {
	c := o.v.sut.u.get(j)
	ts := vb.blk.Timestamp
	return c != nil && c.valid && ts <= c.chunk.Expiry && c.chunk.Expiry <= ts+o.v.sut.window
}

func TestVerifC35(t *testing.T) {
	v, lines := vStart(t, "C35")
	defer v.r.Finish()
	o := &c35{v: v}
	if lines != nil {
		for _, l := range lines {
			o.step(l)
		}
		return
	}
	rng := v.r.RNG
	// corpus: witnesses of the defect repaired by fixes/C35-*
	for _, l := range []string{
		vCfg(5, 1000000), "mk 1 0 2 1 1", "accept 1 1", "abs", // remote fetch of the right chunk
		vCfg(12, 1000000), "mk 1 0 2 1 2", "accept 1 1 2", "abs", "getbytes 3 1", // a different valid chunk first
		vCfg(12, 1000000), "addlocal 2 n", "mk 1 0 2 1 2 4 1", "accept 1 E 11 4 7 1", "abs",
		// lagging validator: it missed chunk 1 and its block, meanwhile it stored newer pending chunks
		// of the same producer up to exactly its pending-weight limit (355+282 = 637), resp. beyond
		// it; the chunk required by the accepted block must still be fetched and stored.
		// lagging validator fetching from a peer that is ahead: the peer accepted chunk 1 (expiry 3) and
		// later blocks (minimum slot 9 > 3); it still holds the chunk and its real handler serves it
		vCfg(12, 1000000), "paddlocal 1", "paddlocal 4", "psetmin 2 1", "psetmin 9", "mk 1 0 2 1 1", "accept 1 P", "abs",
		vCfg(12, 1000000), "paddlocal 2", "mk 1 0 2 1 2 1", "accept 1 P P 1", "abs", "paddlocal 1", "accept 1 P P",
		// certificate signed by the producer only (quorum below 1/1); the producer is unreachable, another
		// validator relays the chunk: Accept must get it from whoever serves it
		vCfg(12, 1000000), "mk 1 0 2 1 1q", "accept 1 D1 E 1", "abs",
		vCfg(12, 1000000), "addlocal 2 n", "mk 1 0 2 1 7q 2 1q", "accept 1 D2 7 1", "abs",
		// a chunk the node declined earlier (expiry beyond min+window at that time) has to be fetched
		// after the node caught up: the earlier verdict must not stick
		vCfg(5, 1000000), "vremote 4", "vremote 4", "setmin 5", "vremote 5", "mk 1 0 6 1 4", "accept 1 4", "abs",
		vCfg(5, 1000000), "vremote 4", "setmin 5", "vremote 4", "abs",
		// a certified chunk larger than InitialChunkSize travels through the real typed client
		vCfg(12, 1000000), "mk 1 0 2 1 14 1", "accept 1 E 14 1", "abs",
		vCfg(12, 1000000), "paddlocal 14", "psetmin 5 14", "psetmin 20", "mk 1 0 2 1 14", "accept 1 P", "abs",
		// known finding: verifier minimum 0, window 5; block at 3 references chunk 2 (expiry 6 <= 3+5):
		// valid at the block, "future" for the chunk verifier, so the fetch can never succeed
		vCfg(5, 1000000), "mk 1 0 3 1 2", "accept 1 2 2 2", "abs",
		vCfg(40, 637), "vremote 2", "vremote 4", "rate 1", "mk 1 0 2 1 1", "accept 1 1", "abs",
		vCfg(40, 600), "addlocal 2 n", "addlocal 4 c", "rate 1", "mk 1 0 2 1 1 7", "accept 1 E 1 7", "abs",
		vCfg(40, 300), "addlocal 3 n", "rate 1", "mk 1 0 2 1 5 1", "accept 1 5 S", "accept 1 1", "abs",
	} {
		o.step(l)
	}
	nseq := v.r.N(250, 6000)
	nu := len(v.sut.u.chunks)
	for n := 0; n < nseq; n++ {
		w := []int{5, 12, 40, 40}[rng.Intn(4)]
		// every third sequence runs under a small per-producer pending-weight limit (chunks weigh
		// 282..428 bytes), so that producers sit at or beyond their limit when a chunk is fetched
		limit := 1000000
		if n%3 == 0 {
			limit = []int{282, 400, 637, 700, 1000, 1065}[rng.Intn(6)]
		}
		o.step(vCfg(w, limit))
		// chunks offered while the node is still behind: many are declined as "future"
		for k := rng.Intn(4); k > 0; k-- {
			o.step(fmt.Sprintf("vremote %d", 1+rng.Intn(vValid)))
		}
		m := rng.Intn(5)
		if rng.Chance(25) {
			m = 3 + rng.Intn(10) // the node catches up
		}
		if m > 0 {
			o.step(fmt.Sprintf("setmin %d", m))
		}
		for i := 1; i <= nu; i++ {
			switch x := rng.Intn(100); {
			case x < 12:
				o.step(fmt.Sprintf("addlocal %d n", i))
			case x < 24 && i <= vValid:
				o.step(fmt.Sprintf("addlocal %d c", i))
			case x < 34:
				o.step(fmt.Sprintf("vremote %d", i))
			case x < 38 && i <= vValid:
				o.step(fmt.Sprintf("addlocal %d c", i))
				o.step(fmt.Sprintf("setmin %d %d", m, i)) // accepted only
			}
		}
		if limit < 1000000 {
			// fill: newer chunks of both producers attested while the node was lagging
			for k := 0; k < 4; k++ {
				i := 1 + rng.Intn(vValid)
				if rng.Bool() {
					o.step(fmt.Sprintf("vremote %d", i))
				} else {
					o.step(fmt.Sprintf("addlocal %d n", i))
				}
			}
			o.step(fmt.Sprintf("rate %d", 1+rng.Intn(vValid)))
		}
		// the peer node: holds some chunks as pending, some as accepted, and may be far ahead
		usePeer := rng.Chance(40)
		if usePeer {
			var padded []int
			for _, i := range vCertified {
				if rng.Chance(45) {
					o.step(fmt.Sprintf("paddlocal %d", i))
					padded = append(padded, i)
				}
			}
			pm := m
			for k := rng.Intn(3); k > 0 && len(padded) > 0; k-- {
				pm += rng.Intn(12)
				var save []string
				for _, i := range padded {
					if _, ok := v.sut.peer.pendingChunkMap[v.sut.u.get(i).chunk.id]; ok && rng.Chance(50) {
						save = append(save, strconv.Itoa(i))
					}
				}
				o.step(strings.TrimSpace(fmt.Sprintf("psetmin %d %s", pm, strings.Join(save, " "))))
			}
		}
		ts := m
		parent := 0
		nblk := 1 + rng.Intn(2)
		for b := 1; b <= nblk; b++ {
			ts += 1 + rng.Intn(3)
			k := 1 + rng.Intn(4)
			var certs []string
			var idx []int
			var partial []int // producers of the certificates signed by the producer only
			used := map[int]bool{}
			for len(certs) < k {
				i := 1 + rng.Intn(vValid)
				if rng.Chance(v.r.N(4, 8)) {
					i = vBig
				}
				if used[i] && !rng.Chance(8) {
					continue
				}
				used[i] = true
				idx = append(idx, i)
				tok := strconv.Itoa(i)
				if rng.Chance(5) {
					tok += "x" // Accept does not look at signatures
				} else if rng.Chance(25) {
					tok += "q" // signed by the producer only
					partial = append(partial, v.sut.u.get(i).producer)
				}
				certs = append(certs, tok)
			}
			o.step(fmt.Sprintf("mk %d %d %d %d %s", b, parent, ts, b, strings.Join(certs, " ")))
			var script []string
			for _, i := range idx {
				c := v.sut.u.get(i)
				if _, err := v.sut.node.storage.GetChunkBytes(c.chunk.Expiry, c.chunk.id); err == nil && !rng.Chance(10) {
					continue
				}
				for j := rng.Intn(4); j > 0; j-- {
					switch x := rng.Intn(100); {
					case x < 30:
						script = append(script, "E")
					case x < 33:
						script = append(script, "S")
					case x < 45:
						script = append(script, strconv.Itoa(vValid+1+rng.Intn(nu-vValid)))
					default:
						script = append(script, strconv.Itoa(1+rng.Intn(vValid)))
					}
				}
				if usePeer && rng.Chance(70) {
					script = append(script, "P")
					if rng.Chance(50) {
						script = append(script, strconv.Itoa(i))
					}
				} else if rng.Chance(93) {
					script = append(script, strconv.Itoa(i))
				}
			}
			// unreachable validators (never both): requests to them fail and must be retried elsewhere
			if len(partial) > 0 && rng.Chance(60) {
				script = append([]string{fmt.Sprintf("D%d", partial[rng.Intn(len(partial))])}, script...)
			} else if rng.Chance(10) {
				script = append([]string{fmt.Sprintf("D%d", 1+rng.Intn(2))}, script...)
			}
			o.step(strings.TrimSpace(fmt.Sprintf("accept %d %s", b, strings.Join(script, " "))))
			o.step("abs")
			if rng.Chance(30) {
				o.step("gather")
			}
			if rng.Chance(15) {
				o.step(strings.TrimSpace(fmt.Sprintf("accept %d %s", b, strings.Join(script, " ")))) // retry / re-accept
				o.step("abs")
			}
			parent = b
		}
	}
}
