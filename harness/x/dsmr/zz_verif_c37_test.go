package dsmr

import (
	"fmt"
	"strconv"
	"strings"
	"testing"

	"github.com/ava-labs/hypersdk/internal/verifh"
)

// C37: Verify rejects a block that references a chunk twice, a chunk referenced by an
// ancestor, or an expired chunk; BuildBlock never produces one; no chunk is delivered twice
// along an accepted chain.

type c37 struct {
	v         *vRun
	delivered map[int]int   // chunk -> handle of the accepted block that delivered it
	delivExp  map[int]int64 // chunk -> expiry of the certificate it was delivered with
}

// extendsAccepted: the ancestry of block h passes through the last accepted block
func (o *c37) extendsAccepted(h int) bool {
	s := o.v.sut
	lastHeight := s.blocks[s.lastH].blk.Height
	for k := 0; k < 10000; k++ {
		vb := s.blocks[h]
		if vb == nil {
			return false
		}
		if vb.blk.Height <= lastHeight {
			return h == s.lastH
		}
		h = vb.parent
	}
	return false
}

// check evaluates the three "such a block" clauses on block h
func (o *c37) check(who string, h int, line string) {
	s := o.v.sut
	vb := s.blocks[h]
	seen := map[int]bool{}
	for k, i := range vb.certIdx {
		if seen[i] {
			o.v.r.Violation(who+"-dup-in-block", "block %d references chunk %d twice: %s", h, i, line)
		}
		seen[i] = true
		if e := vb.blk.ChunkCerts[k].Expiry; e < vb.blk.Timestamp {
			o.v.r.Violation(who+"-expired-cert", "block %d (timestamp %d) references chunk %d with expiry %d: %s", h, vb.blk.Timestamp, i, e, line)
		}
	}
	exp := map[int]int64{}
	for k, i := range vb.certIdx {
		exp[i] = vb.blk.ChunkCerts[k].Expiry
	}
	a := vb.parent
	for k := 0; k < 10000 && h != 0; k++ {
		ab := s.blocks[a]
		for ka, i := range ab.certIdx {
			if seen[i] {
				key := who + "-ancestor-dup"
				if ab.blk.ChunkCerts[ka].Expiry != exp[i] {
					// not a re-used certificate: a second certificate over a reference with another expiry
					key += "-certificate-with-different-expiry"
				}
				o.v.r.Violation(key, "block %d references chunk %d already referenced by its ancestor %d: %s", h, i, a, line)
				seen[i] = false
			}
		}
		if a == 0 {
			break
		}
		a = ab.parent
	}
}

func (o *c37) step(line string) string {
	s := o.v.sut
	f := verifh.Fields(line)
	if len(f) == 0 {
		return o.v.do("%s", line)
	}
	switch f[0] {
	case "cfg", "reset":
		o.delivered = map[int]int{}
		o.delivExp = map[int]int64{}
		return o.v.do("%s", line)
	case "sigreq":
		out := o.v.do("%s", line)
		if len(f) == 4 && out == "signed" {
			i, _ := strconv.Atoi(f[1])
			e, _ := strconv.Atoi(f[2])
			j, _ := strconv.Atoi(f[3])
			if c := s.u.get(j); i != j || (c != nil && int64(e) != c.chunk.Expiry) {
				o.v.r.Violation("validator-signs-reference-not-matching-chunk",
					"signed the reference (chunk %d, expiry %d) with chunk %d (expiry %d) as justification", i, e, j, c.chunk.Expiry)
			}
		}
		return out
	case "verify":
		out := o.v.do("%s", line)
		h, _ := strconv.Atoi(f[1])
		p, _ := strconv.Atoi(f[2])
		if vb := s.blocks[h]; out == "ok" && vb != nil && p == vb.parent && o.extendsAccepted(h) && vb.blk.Height > s.blocks[s.lastH].blk.Height {
			// the bounded ancestor walk (and with it every ancestor clause of C37) relies on timestamps
			// increasing along a verified chain; Verify itself has to enforce it
			if pb := s.blocks[vb.parent]; vb.blk.Timestamp <= pb.blk.Timestamp {
				o.v.r.Violation("verify-accepts-block-not-after-parent",
					"block %d (timestamp %d) verifies on its parent %d (timestamp %d): %s", h, vb.blk.Timestamp, vb.parent, pb.blk.Timestamp, line)
			}
			o.check("verify-accepts", h, line)
			o.v.r.Distinct(fmt.Sprintf("%d@%d:%v", vb.blk.Height, vb.blk.Timestamp, vb.certIdx))
		}
		return out
	case "build":
		out := o.v.do("%s", line)
		h, _ := strconv.Atoi(f[1])
		// the builder is only ever asked to build on a verified (preferred) parent
		if vb := s.blocks[h]; strings.HasPrefix(out, "ok") && vb != nil && s.blocks[vb.parent].verified && o.extendsAccepted(h) {
			o.check("builder-produces", h, line)
		}
		return out
	case "accept":
		h, _ := strconv.Atoi(f[1])
		vb := s.blocks[h]
		inOrder := vb != nil && vb.verified && vb.parent == s.lastH && h != s.lastH
		out := o.v.do("%s", line)
		if strings.HasPrefix(out, "ok") && inOrder {
			for k, w := range strings.Split(strings.TrimPrefix(out, "ok "), ",") {
				i, err := strconv.Atoi(w)
				if err != nil {
					continue
				}
				var e int64 = -1
				if k < len(vb.blk.ChunkCerts) {
					e = vb.blk.ChunkCerts[k].Expiry
				}
				if prev, ok := o.delivered[i]; ok {
					key := "chunk-delivered-twice"
					if o.delivExp[i] != e {
						key += "-by-certificates-with-different-expiry"
					}
					o.v.r.Violation(key, "chunk %d delivered by accepted block %d (certificate expiry %d) and again by its descendant %d (certificate expiry %d)", i, prev, o.delivExp[i], h, e)
				}
				o.delivered[i] = h
				o.delivExp[i] = e
			}
		}
		return out
	}
	return o.v.do("%s", line)
}

func TestVerifC37(t *testing.T) {
	v, lines := vStart(t, "C37")
	defer v.r.Finish()
	o := &c37{v: v, delivered: map[int]int{}, delivExp: map[int]int64{}}
	if lines != nil {
		for _, l := range lines {
			o.step(l)
		}
		return
	}
	rng := v.r.RNG
	// corpus: witness of the defect repaired by fixes/C37-*: a certificate (chunk 4, expiry 10) is
	// included at timestamp 8, evicted from the accepted set at 11, and verifies again at 12.
	for _, l := range []string{
		vCfg(5, 1000000), "addlocal 4 c", "addlocal 8 c", "mk 1 0 8 1 4", "verify 1 0", "accept 1",
		"mk 2 1 11 2 8", "verify 2 1", "accept 2", "addlocal 4 c", "mk 3 2 12 3 4", "verify 3 2", "accept 3",
		// far-future certificate outside the window of the processing ancestors
		vCfg(4, 1000000), "addlocal 9 c", "mk 1 0 2 1 9", "verify 1 0", "mk 2 1 3 2 1", "verify 2 1",
		"build 3 0 1", "build 4 0 27", "verify 4 0",
		// boundary: chunk 4 (expiry 10) included at 6 = 10 - window, re-included at 10 = its expiry,
		// first with the inclusion still processing, then accepted
		vCfg(4, 1000000), "addlocal 1 c", "addlocal 4 c", "mk 1 0 3 1 1", "verify 1 0", "mk 2 1 6 2 4", "verify 2 1",
		"mk 3 2 10 3 4", "verify 3 2", "accept 1", "accept 2", "verify 3 2", "mk 4 2 10 3 4 2", "verify 4 2", "build 5 2 10",
		vCfg(4, 1000000), "addlocal 4 c", "addlocal 2 c", "mk 1 0 6 1 4", "verify 1 0", "mk 2 1 7 2 2x", "verify 2 1",
		"mk 3 1 7 2 2", "verify 3 1", "mk 4 3 10 3 4", "verify 4 3", "mk 5 3 11 3 4", "verify 5 3",
		// timestamp dip on a processing chain: A (6, chunk 4, expiry 10), B below A but above the accepted
		// tip, C more than a window after B re-using chunk 4: the walk from C would stop at B
		vCfg(4, 1000000), "addlocal 4 c", "addlocal 1 c", "addlocal 10 c", "mk 1 0 6 1 4", "verify 1 0", "mk 2 1 1 2 1", "verify 2 1",
		"mk 3 2 6 3 4", "verify 3 2", "mk 4 1 6 2 10", "verify 4 1", "build 5 2 7",
		// a block on an unverified parent: the chain index has no parent
		vCfg(8, 1000000), "addlocal 1 c", "mk 1 0 0 1 1", "verify 1 0", "mk 2 1 2 2 1", "verify 2 1",
		// validators sign references that do not match the chunk they are shown
		vCfg(40, 1000000), "sigreq 2 6 2", "sigreq 3 13 3", "sigreq 5 14 6", "abs",
	} {
		o.step(l)
	}
	if v.sut.u.forged[1] != nil {
		// known finding: chunk 1 (expiry 3) is certified a second time over a reference with expiry 20;
		// after its first inclusion left the accepted set the second certificate verifies and the
		// chunk is delivered twice
		for _, l := range []string{
			vCfg(5, 1000000), "addlocal 1 c", "addlocal 5 c", "mk 1 0 2 1 1", "verify 1 0", "accept 1",
			"mk 2 1 12 2 5", "verify 2 1", "accept 2", "addlocal 1 c", "mk 3 2 16 3 1f", "verify 3 2", "accept 3",
			// the same with the first inclusion still processing
			vCfg(5, 1000000), "addlocal 1 c", "addlocal 5 c", "mk 1 0 2 1 1", "verify 1 0", "mk 2 1 12 2 5", "verify 2 1",
			"mk 3 2 16 3 1f", "verify 3 2",
		} {
			o.step(l)
		}
	}
	nseq := v.r.N(160, 4000)
	for n := 0; n < nseq; n++ {
		w := []int{4, 8, 12, 30}[rng.Intn(4)]
		o.step(vCfg(w, 1000000))
		for i := 1; i <= vValid; i++ {
			if rng.Chance(85) {
				o.step(fmt.Sprintf("addlocal %d c", i))
			}
		}
		type bi struct{ h, parent, height, ts int }
		blocks := map[int]bi{0: {}}
		verified := []int{0}
		var unverified []int
		accTip, procTip := 0, 0
		var included []int
		next := 1
		steps := 8 + rng.Intn(14)
		for k := 0; k < steps; k++ {
			x := rng.Intn(100)
			switch {
			case x < 60: // hand-made block
				par := procTip
				if y := rng.Intn(10); y < 3 {
					par = accTip
				} else if y == 3 {
					par = verified[rng.Intn(len(verified))]
				}
				if len(unverified) > 0 && rng.Chance(4) {
					par = unverified[rng.Intn(len(unverified))] // Verify cannot find the parent in the index
				}
				pb := blocks[par]
				ts := pb.ts + 1 + rng.Intn(3)
				if rng.Chance(4) {
					ts = pb.ts - rng.Intn(2)
					if ts < 0 {
						ts = 0
					}
				} else if at := blocks[accTip].ts; par != accTip && pb.ts > at+1 && rng.Chance(8) {
					ts = at + 1 + rng.Intn(pb.ts-at) // not after the processing parent, but after the accepted tip
				}
				ht := pb.height + 1
				if rng.Chance(3) {
					ht += 1
				}
				nc := 1 + rng.Intn(3)
				if rng.Chance(3) {
					nc = 0
				}
				var certs []string
				var idx []int
				for len(certs) < nc {
					i := 1 + rng.Intn(vValid)
					if len(included) > 0 && rng.Chance(35) {
						i = included[rng.Intn(len(included))]
					}
					if len(idx) > 0 && rng.Chance(6) {
						i = idx[rng.Intn(len(idx))]
					}
					tok := strconv.Itoa(i)
					if rng.Chance(4) {
						tok += "x"
					} else if v.sut.u.forged[i] != nil && rng.Chance(40) {
						tok += "f"
					}
					certs = append(certs, tok)
					idx = append(idx, i)
				}
				h := next
				next++
				o.step(strings.TrimSpace(fmt.Sprintf("mk %d %d %d %d %s", h, par, ts, ht, strings.Join(certs, " "))))
				vp := par
				if rng.Chance(3) {
					vp = verified[rng.Intn(len(verified))]
				}
				if out := o.step(fmt.Sprintf("verify %d %d", h, vp)); out != "ok" {
					if out == "sig" || out == "dup" || out == "expired" || out == "future" {
						blocks[h] = bi{h, par, ht, ts}
						unverified = append(unverified, h)
					}
				} else {
					blocks[h] = bi{h, par, ht, ts}
					verified = append(verified, h)
					included = append(included, idx...)
					if par == procTip || rng.Chance(50) {
						procTip = h
					}
				}
			case x < 75: // builder
				par := procTip
				if rng.Chance(30) {
					par = accTip
				}
				pb := blocks[par]
				ts := pb.ts + 1 + rng.Intn(3)
				if rng.Chance(5) {
					ts = pb.ts
				}
				h := next
				out := o.step(fmt.Sprintf("build %d %d %d", h, par, ts))
				if strings.HasPrefix(out, "ok") {
					next++
					if o.step(fmt.Sprintf("verify %d %d", h, par)) == "ok" {
						blocks[h] = bi{h, par, pb.height + 1, ts}
						verified = append(verified, h)
						for _, wd := range strings.Split(strings.TrimPrefix(out, "ok "), ",") {
							if i, err := strconv.Atoi(wd); err == nil {
								included = append(included, i)
							}
						}
						procTip = h
					}
				}
			case x < 95: // accept the next block on the way to the processing tip
				if procTip == accTip {
					continue
				}
				h := procTip
				for blocks[h].parent != accTip {
					h = blocks[h].parent
					if h == 0 {
						break
					}
				}
				if h == 0 || blocks[h].parent != accTip {
					procTip = accTip
					continue
				}
				// chunks of the block that this node no longer holds as pending are re-added, as if
				// fetched (otherwise a repeated inclusion only shows up as a prune error)
				for _, i := range v.sut.blocks[h].certIdx {
					c := v.sut.u.get(i)
					if _, ok := v.sut.node.storage.pendingChunkMap[c.chunk.id]; !ok && c.cert != nil {
						o.step(fmt.Sprintf("addlocal %d c", i))
					}
				}
				if strings.HasPrefix(o.step(fmt.Sprintf("accept %d", h)), "ok") {
					accTip = h
				} else {
					break
				}
			default:
				if rng.Bool() {
					o.step("gather")
				} else {
					i, j := 1+rng.Intn(vValid), 1+rng.Intn(len(v.sut.u.chunks))
					if rng.Chance(40) {
						j = i
					}
					e := v.sut.u.get(i).chunk.Expiry
					if rng.Chance(40) {
						e += int64(1 + rng.Intn(9))
					}
					o.step(fmt.Sprintf("sigreq %d %d %d", i, e, j))
				}
			}
			if v.sut.poisoned {
				break
			}
		}
		o.step("abs")
	}
}
