//go:build verif

package fdsmr

import "github.com/ava-labs/avalanchego/ids"

// VerifPendingHas exposes membership of the node's pending-expiry heap to the /verif C38
// harness (overlaid at build time, never committed to /repo).
func (n *Node[T, U]) VerifPendingHas(id ids.ID) bool { return n.pending.Has(id) }

// VerifPendingLen exposes the size of the pending-expiry heap.
func (n *Node[T, U]) VerifPendingLen() int { return n.pending.Len() }
