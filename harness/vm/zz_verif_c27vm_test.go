package vm

import (
	"context"
	"encoding/json"
	"fmt"
	"path/filepath"
	"sort"
	"strconv"
	"strings"
	"testing"

	"github.com/ava-labs/avalanchego/x/merkledb"

	"github.com/ava-labs/hypersdk/codec"
	"github.com/ava-labs/hypersdk/genesis"
	"github.com/ava-labs/hypersdk/internal/verifh"
	"github.com/ava-labs/hypersdk/state/balance"
)

// C27 at VM level (oracle only): "initialising a chain from a genesis produces a state holding
// exactly the configured allocations" must also hold for the state a node holds after it is
// shut down before any block was accepted and started again on the same data directory.
//
//	restart <k> <addr:bal>*     initialise, then k times: shut down, initialise again on the same dir
//
// The VM is built by the C18 harness helper (c18Start: real vm.New + snow.VM on a persistent dir).
func TestVerifC27VM(t *testing.T) {
	r := verifh.Start("C27")
	defer r.Finish()
	lines := r.ReplayLines()
	if lines == nil {
		addr := func(b byte) string {
			a := make([]byte, codec.AddressLen)
			a[0], a[codec.AddressLen-1] = b, b^0x5a
			return verifh.Hex(a)
		}
		lines = []string{
			"restart 2 " + addr(1) + ":5 " + addr(1) + ":7 " + addr(2) + ":3",
			"restart 1",
			"restart 3 " + addr(1) + ":18446744073709551615",
		}
		for i := 0; i < r.N(3, 60); i++ {
			l := "restart " + strconv.Itoa(1+r.RNG.Intn(3))
			for j, n := 0, r.RNG.Intn(5); j < n; j++ {
				l += fmt.Sprintf(" %s:%d", addr(byte(1+r.RNG.Intn(3))), r.RNG.U64()>>uint(4+r.RNG.Intn(60)))
			}
			lines = append(lines, l)
		}
	}
	for i, l := range lines {
		c27vmExec(t, r, l, filepath.Join(t.TempDir(), strconv.Itoa(i)))
	}
}

type c27vmSnap struct {
	state, root, id string
	height          uint64
}

func c27vmSnapshot(n *c18Node) c27vmSnap {
	var ents []string
	it := n.vm.stateDB.NewIterator()
	for it.Next() {
		ents = append(ents, verifh.Hex(it.Key())+"="+verifh.Hex(it.Value()))
	}
	it.Release()
	sort.Strings(ents)
	h, id, _ := n.lastAccepted()
	return c27vmSnap{state: strings.Join(ents, " "), root: n.root(), id: id, height: h}
}

func c27vmExec(t *testing.T, r *verifh.Run, l, dir string) {
	f := verifh.Fields(l)
	if len(f) < 2 || f[0] != "restart" {
		r.Emit(l, "bad-op")
		return
	}
	k, err := strconv.Atoi(f[1])
	if err != nil || k < 0 || k > 8 {
		r.Emit(l, "bad-op")
		return
	}
	g := &genesis.DefaultGenesis{StateBranchFactor: merkledb.BranchFactor16, Rules: genesis.NewDefaultRules()}
	sums := map[codec.Address]uint64{}
	total, overflow := uint64(0), false
	for _, w := range f[2:] {
		ab := strings.Split(w, ":")
		if len(ab) != 2 {
			r.Emit(l, "bad-op")
			return
		}
		a, e1 := verifh.UnHex(ab[0])
		b, e2 := strconv.ParseUint(ab[1], 10, 64)
		if e1 != nil || e2 != nil || len(a) != codec.AddressLen {
			r.Emit(l, "bad-op")
			return
		}
		g.CustomAllocation = append(g.CustomAllocation, &genesis.CustomAllocation{Address: codec.Address(a), Balance: b})
		sums[codec.Address(a)] += b
		if total+b < total {
			overflow = true
		}
		total += b
	}
	if overflow {
		r.Emit(l, "skip-overflow")
		return
	}
	gb, err := json.Marshal(g)
	if err != nil {
		panic(err)
	}
	ctx := context.Background()
	noop := func(uint64) {}
	n, err := c18Start(t, dir, gb, noop, noop)
	if err != nil {
		r.Emit(l, "start-error")
		r.Violation("vm-genesis-start-failed", "first initialisation failed: %v", err)
		return
	}
	first := c27vmSnapshot(n)
	bh := balance.NewPrefixBalanceHandler([]byte{0}) // the handler c18Start configures
	var bad []string
	for a, want := range sums {
		if got, gerr := bh.GetBalance(ctx, a, n.vm.stateDB); gerr != nil || got != want {
			bad = append(bad, fmt.Sprintf("first init: balance %d want %d", got, want))
		}
	}
	_ = n.snowVM.Shutdown(ctx)
	same := true
	for i := 1; i <= k; i++ {
		n, err = c18Start(t, dir, gb, noop, noop)
		if err != nil {
			same = false
			bad = append(bad, fmt.Sprintf("restart %d failed: %v", i, err))
			break
		}
		s := c27vmSnapshot(n)
		for a, want := range sums {
			if got, gerr := bh.GetBalance(ctx, a, n.vm.stateDB); gerr != nil || got != want {
				bad = append(bad, fmt.Sprintf("after restart %d: balance %d want %d", i, got, want))
			}
		}
		if s != first {
			same = false
			what := "state"
			if s.state == first.state {
				what = "root/genesis block id"
			}
			bad = append(bad, fmt.Sprintf("after restart %d the %s differs (genesis id %s -> %s, root %s -> %s, height %d)", i, what, first.id, s.id, first.root, s.root, s.height))
		}
		_ = n.snowVM.Shutdown(ctx)
	}
	r.Emit(l, fmt.Sprintf("ok same=%v", same))
	r.Distinct(fmt.Sprintf("k=%d n=%d", k, len(g.CustomAllocation)))
	if len(bad) > 0 {
		r.Violation("genesis-reinitialised-on-restart", "%s: %s", l, strings.Join(bad, "; "))
	}
}
