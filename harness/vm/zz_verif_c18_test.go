package vm

import (
	"bytes"
	"context"
	stded "crypto/ed25519"
	"crypto/sha256"
	"encoding/binary"
	"encoding/hex"
	"encoding/json"
	"errors"
	"fmt"
	"os"
	"os/exec"
	"path/filepath"
	"strconv"
	"strings"
	"sync"
	"testing"
	"time"

	"github.com/ava-labs/avalanchego/database"
	"github.com/ava-labs/avalanchego/snow/engine/common"
	"github.com/ava-labs/avalanchego/snow/engine/enginetest"
	"github.com/ava-labs/avalanchego/snow/snowtest"
	"github.com/ava-labs/avalanchego/utils/hashing"
	"github.com/ava-labs/avalanchego/utils/logging"
	"github.com/ava-labs/avalanchego/x/merkledb"

	"github.com/ava-labs/hypersdk/api"
	"github.com/ava-labs/hypersdk/auth"
	"github.com/ava-labs/hypersdk/chain"
	"github.com/ava-labs/hypersdk/chain/chaintest"
	"github.com/ava-labs/hypersdk/codec"
	"github.com/ava-labs/hypersdk/crypto/ed25519"
	"github.com/ava-labs/hypersdk/event"
	"github.com/ava-labs/hypersdk/genesis"
	"github.com/ava-labs/hypersdk/internal/verifh"
	"github.com/ava-labs/hypersdk/snow"
	"github.com/ava-labs/hypersdk/state/balance"
	"github.com/ava-labs/hypersdk/state/metadata"
)

// C18: a restarted node recovers the accepted chain after a crash at any point of the accept
// pipeline.
//
// Hook-free: a real vm.VM (pebble databases on disk) runs in a child process of this test
// binary; the accept pipeline is stalled at the chosen point of the chosen block (a wrapper
// around vm.executionResultsDB blocks before/after the results write; an accepted-subscriber
// blocks before/after recording the notification) while the consensus thread keeps accepting
// blocks, then the child calls os.Exit without any shutdown. A second child re-opens the same
// directory. A never-crashed node (third kind of child) accepts the same blocks.
//
// Line protocol:
//   chain <N>            -> ok n=<N>         a builder node builds, verifies and accepts N blocks
//                                            (never crashed; reference for ids/roots/results)
//   crash <a> <p> <k>    -> idx=<a> st=<..> res=<..> pre=<notified before the crash>
//                           restart=<ok|err-…|panic-…> la=<h> agree=<t|f> re=<notified at restart> cont=<ok|…>
//      blocks 1..a are accepted by consensus (index update + enqueue); processing of block k
//      stops at point p: 1 = (k = a) consensus is stopped INSIDE the chain-index write of block a
//      (the batch is never written) while the async accepter is left running: blocks 1..a-1 are
//      fully processed and nothing of block a may reach the state; 2 = before its execution results are written, 3 = after the results
//      write and before the state commit, 4 = after the state commit and before the first
//      accepted-subscriber (A) is notified, 5 = after A and before the second subscriber (B),
//      6 = after both notifications (before block k+1 is touched). pre/re are A's logs,
//      preB/reB are B's. A is attached directly to the snow VM before Initialize; B is a block
//      subscription passed through the VM's options (like the indexer), so it sits behind the
//      VM's own mempool subscriber in the notification order.
//      (Point 1, after the index update and before the enqueue of block a, has the same
//      persistent state as `crash a 2 k`: the queue is volatile.)

const (
	c18EnvMode = "VERIF_C18_MODE"
	c18EnvDir  = "VERIF_C18_DIR"   // chain data dir of the node
	c18EnvWork = "VERIF_C18_WORK"  // shared dir: genesis, blocks, reports
	c18EnvArgs = "VERIF_C18_ARGS"
)

type c18Snow = snow.VM[*chain.ExecutionBlock, *chain.OutputBlock, *chain.OutputBlock]
type c18Blk = snow.StatefulBlock[*chain.ExecutionBlock, *chain.OutputBlock, *chain.OutputBlock]

type c18Node struct {
	vm     *VM
	snowVM *c18Snow
}

func c18AuthFactory() chain.AuthFactory {
	// deterministic key (all processes must agree on the genesis): seed(32) || public(32)
	var seed [32]byte
	copy(seed[:], "verif-c18-deterministic-seed-000")
	var priv ed25519.PrivateKey
	copy(priv[:], stded.NewKeyFromSeed(seed[:]))
	return auth.NewED25519Factory(priv)
}

func c18Genesis() []byte {
	rules := genesis.NewDefaultRules()
	rules.MinBlockGap = 0
	rules.MinEmptyBlockGap = 0
	g := &genesis.DefaultGenesis{
		StateBranchFactor: merkledb.BranchFactor16,
		CustomAllocation:  []*genesis.CustomAllocation{{Address: c18AuthFactory().Address(), Balance: 1_000_000_000_000_000}},
		Rules:             rules,
	}
	b, err := json.Marshal(g)
	if err != nil {
		panic(err)
	}
	return b
}

// c18Start creates and initializes a VM over dir. The accepted subscriber is registered before
// Initialize so that it sees the notifications delivered while the VM starts up.
func c18Start(t *testing.T, dir string, genesisBytes []byte, sub func(h uint64), subB func(h uint64)) (n *c18Node, err error) {
	actionParser := codec.NewTypeParser[chain.Action]()
	authParser := codec.NewTypeParser[chain.Auth]()
	outputParser := codec.NewTypeParser[codec.Typed]()
	if err := errors.Join(
		actionParser.Register(&chaintest.TestAction{}, chaintest.UnmarshalTestAction),
		authParser.Register(&auth.ED25519{}, auth.UnmarshalED25519),
		outputParser.Register(&chaintest.TestOutput{}, chaintest.UnmarshalTestOutput),
	); err != nil {
		return nil, err
	}
	// subscriber B is registered the way the indexer / websocket / external subscribers are:
	// through the VM's own options path (vm.WithBlockSubscriptions -> applyOptions), so that the
	// place where vm.go attaches the block subscriptions is part of what is observed.
	subOpt := NewOption[struct{}]("verifc18", struct{}{}, func(_ api.VM, _ struct{}) (Opt, error) {
		return WithBlockSubscriptions(event.SubscriptionFuncFactory[*chain.ExecutedBlock]{
			NotifyF: func(_ context.Context, b *chain.ExecutedBlock) error {
				subB(b.Block.Hght)
				return nil
			},
		}), nil
	})
	v, err := New(genesis.DefaultGenesisFactory{}, balance.NewPrefixBalanceHandler([]byte{0}), metadata.NewDefaultManager(),
		actionParser, authParser, outputParser, auth.DefaultEngines(), WithManual(), subOpt)
	if err != nil {
		return nil, err
	}
	snowVM := snow.NewVM("v0.0.1", v)
	// subscriber A is registered directly on the snow VM before Initialize (first in the list)
	snowVM.AddAcceptedSub(event.SubscriptionFunc[*chain.OutputBlock]{NotifyF: func(_ context.Context, b *chain.OutputBlock) error {
		sub(b.GetHeight())
		return nil
	}})
	chainID := hashing.ComputeHash256Array(genesisBytes)
	snowCtx := snowtest.Context(t, chainID)
	snowCtx.Log = logging.NoLog{}
	snowCtx.ChainDataDir = dir
	toEngine := make(chan common.Message, 16)
	defer func() {
		if r := recover(); r != nil {
			err = fmt.Errorf("panic: %v", r)
		}
	}()
	if err := snowVM.Initialize(context.Background(), snowCtx, nil, genesisBytes, nil, nil, toEngine, nil, &enginetest.Sender{T: t}); err != nil {
		return nil, err
	}
	return &c18Node{vm: v, snowVM: snowVM}, nil
}

// stallDB wraps the execution results database: Put of the results of block `height` blocks
// before (point 2) or after (point 3) the real write.
type c18StallDB struct {
	database.Database
	point   int
	height  uint64
	reached chan struct{}
	once    sync.Once
}

func (d *c18StallDB) Put(k, v []byte) error {
	h := uint64(0)
	if len(v) >= 8 {
		h = binary.BigEndian.Uint64(v[len(v)-8:])
	}
	if d.point == 2 && h == d.height {
		d.once.Do(func() { close(d.reached) })
		select {} // never returns: the process is killed
	}
	err := d.Database.Put(k, v)
	if d.point == 3 && h == d.height {
		d.once.Do(func() { close(d.reached) })
		select {}
	}
	return err
}

// c18StallIndexDB wraps the chain index database: the batch that sets the last accepted height
// to `height` is never written (Write blocks forever after signalling).
type c18StallIndexDB struct {
	database.Database
	height  uint64
	reached chan struct{}
}

type c18StallBatch struct {
	database.Batch
	db     *c18StallIndexDB
	target bool
}

func (d *c18StallIndexDB) NewBatch() database.Batch {
	return &c18StallBatch{Batch: d.Database.NewBatch(), db: d}
}

func (b *c18StallBatch) Put(k, v []byte) error {
	// chainindex: lastAcceptedKey is the only 1-byte key; its value is the big-endian height
	if len(k) == 1 && len(v) == 8 && binary.BigEndian.Uint64(v) == b.db.height {
		b.target = true
	}
	return b.Batch.Put(k, v)
}

func (b *c18StallBatch) Write() error {
	if b.target {
		close(b.db.reached)
		select {}
	}
	return b.Batch.Write()
}

type c18Report struct {
	Outcome  string   `json:"outcome"`
	Err      string   `json:"err,omitempty"`
	Notified []uint64 `json:"notified"`
	NotifiedB []uint64 `json:"notified_b"`
	LA       uint64   `json:"la"`
	LAID     string   `json:"laid"`
	Root     string   `json:"root"`
	Results  string   `json:"results"`
	Idx      uint64   `json:"idx"`
	St       uint64   `json:"st"`
	Res      int64    `json:"res"`
	Cont     string   `json:"cont,omitempty"`
	FinalLA  uint64   `json:"final_la"`
	FinalID  string   `json:"final_id"`
	FinalRt  string   `json:"final_root"`
	PerH     []c18H   `json:"per_height,omitempty"`
}

type c18H struct {
	ID, Root, Results string
}

func c18WriteJSON(path string, v any) {
	b, _ := json.Marshal(v)
	if err := os.WriteFile(path, b, 0o644); err != nil {
		panic(err)
	}
}

func (n *c18Node) root() string {
	r, err := n.vm.stateDB.GetMerkleRoot(context.Background())
	if err != nil {
		return "err"
	}
	return r.String()
}

func c18ResultsHash(b *chain.OutputBlock) string {
	if b == nil || b.ExecutionResults == nil {
		return "nil"
	}
	s := sha256.Sum256(b.ExecutionResults.Marshal())
	return hex.EncodeToString(s[:8])
}

func (n *c18Node) lastAccepted() (uint64, string, string) {
	la := n.snowVM.LastAcceptedBlock(context.Background())
	res := "unprocessed"
	if out, err := n.snowVM.GetConsensusIndex().GetLastAccepted(context.Background()); err == nil && out.GetID() == la.ID() {
		res = c18ResultsHash(out)
	}
	return la.Height(), la.ID().String(), res
}

// persistent markers read straight from the databases
func (n *c18Node) markers() (idx, st uint64, res int64) {
	idx, _ = n.vm.chainStore.GetLastAcceptedHeight(context.Background())
	st, _ = n.vm.extractStateHeight()
	res = -1
	if rb, err := n.vm.executionResultsDB.Get([]byte{lastResultKey}); err == nil && len(rb) >= 8 {
		res = int64(binary.BigEndian.Uint64(rb[len(rb)-8:]))
	}
	return
}

func c18ReadBlocks(work string) [][]byte {
	data, err := os.ReadFile(filepath.Join(work, "blocks.txt"))
	if err != nil {
		panic(err)
	}
	var out [][]byte
	for _, l := range strings.Fields(string(data)) {
		b, err := hex.DecodeString(l)
		if err != nil {
			panic(err)
		}
		out = append(out, b)
	}
	return out
}

func (n *c18Node) parseVerify(ctx context.Context, b []byte) (*c18Blk, error) {
	blk, err := n.snowVM.ParseBlock(ctx, b)
	if err != nil {
		return nil, err
	}
	if err := blk.Verify(ctx); err != nil {
		return nil, err
	}
	return blk, n.snowVM.SetPreference(ctx, blk.ID())
}

// TestVerifC18Child is the body of the child processes (no-op unless VERIF_C18_MODE is set).
func TestVerifC18Child(t *testing.T) {
	mode := os.Getenv(c18EnvMode)
	if mode == "" {
		t.Skip("child of TestVerifC18 only")
	}
	ctx := context.Background()
	dir, work := os.Getenv(c18EnvDir), os.Getenv(c18EnvWork)
	args := strings.Fields(os.Getenv(c18EnvArgs))
	var mu sync.Mutex
	var notified, notifiedB []uint64
	var stallSub, stallSubB func(h uint64) // set in crash mode
	sub := func(h uint64) {
		if stallSub != nil {
			stallSub(h)
			return
		}
		mu.Lock()
		notified = append(notified, h)
		mu.Unlock()
	}
	subB := func(h uint64) {
		if stallSubB != nil {
			stallSubB(h)
			return
		}
		mu.Lock()
		notifiedB = append(notifiedB, h)
		mu.Unlock()
	}
	report := filepath.Join(work, "report-"+mode+".json")
	_ = os.Remove(report)
	switch mode {
	case "build":
		nblocks, _ := strconv.Atoi(args[0])
		genesisBytes := c18Genesis()
		if err := os.WriteFile(filepath.Join(work, "genesis.json"), genesisBytes, 0o644); err != nil {
			t.Fatal(err)
		}
		n, err := c18Start(t, dir, genesisBytes, sub, subB)
		if err != nil {
			t.Fatal(err)
		}
		rep := c18Report{Outcome: "ok"}
		var blocks []string
		// height 0: what the never-crashed node itself reports for genesis (hash of the empty
		// execution results), so that a restart at height 0 is compared like with like
		_, gid, gres := n.lastAccepted()
		rep.PerH = append(rep.PerH, c18H{ID: gid, Root: n.root(), Results: gres})
		factory := c18AuthFactory()
		for i := 0; i < nblocks; i++ {
			up, err := n.vm.UnitPrices(ctx)
			if err != nil {
				t.Fatal(err)
			}
			act := chaintest.NewDummyTestActions(nblocks + 1)[i]
			tx, err := chain.GenerateTransaction(n.vm.GetRuleFactory(), up, time.Now().UnixMilli(), []chain.Action{act}, factory)
			if err != nil {
				t.Fatal(err)
			}
			if err := errors.Join(n.vm.Submit(ctx, []*chain.Transaction{tx})...); err != nil {
				t.Fatal(err)
			}
			blk, err := n.snowVM.BuildBlock(ctx)
			if err != nil {
				t.Fatal(err)
			}
			if err := blk.Verify(ctx); err != nil {
				t.Fatal(err)
			}
			if err := n.snowVM.SetPreference(ctx, blk.ID()); err != nil {
				t.Fatal(err)
			}
			// under load the builder's time budget can run out before the tx is packed: the block is
			// then empty and the tx goes into a later block; either way the chain is what it is
			if err := blk.SyncAccept(ctx); err != nil {
				t.Fatal(err)
			}
			blocks = append(blocks, hex.EncodeToString(blk.Bytes()))
			_, id, res := n.lastAccepted()
			rep.PerH = append(rep.PerH, c18H{ID: id, Root: n.root(), Results: res})
			time.Sleep(2 * time.Millisecond) // distinct ms timestamps
		}
		if err := os.WriteFile(filepath.Join(work, "blocks.txt"), []byte(strings.Join(blocks, "\n")+"\n"), 0o644); err != nil {
			t.Fatal(err)
		}
		rep.Notified, rep.NotifiedB = notified, notifiedB
		rep.LA, rep.LAID, rep.Results = n.lastAccepted()
		rep.Root = n.root()
		if err := n.snowVM.Shutdown(ctx); err != nil {
			t.Fatal(err)
		}
		c18WriteJSON(report, rep)

	case "crash":
		a, _ := strconv.Atoi(args[0])
		p, _ := strconv.Atoi(args[1])
		k, _ := strconv.Atoi(args[2])
		genesisBytes, _ := os.ReadFile(filepath.Join(work, "genesis.json"))
		blocks := c18ReadBlocks(work)
		reached := make(chan struct{})
		var once sync.Once
		if p == 4 {
			stallSub = func(h uint64) {
				if h == uint64(k) {
					once.Do(func() { close(reached) })
					select {}
				}
				mu.Lock()
				notified = append(notified, h)
				mu.Unlock()
			}
		}
		if p == 5 || p == 6 {
			stallSubB = func(h uint64) {
				if p == 5 && h == uint64(k) {
					once.Do(func() { close(reached) })
					select {}
				}
				mu.Lock()
				notifiedB = append(notifiedB, h)
				mu.Unlock()
				if p == 6 && h == uint64(k) {
					once.Do(func() { close(reached) })
					select {}
				}
			}
		}
		n, err := c18Start(t, dir, genesisBytes, sub, subB)
		if err != nil {
			t.Fatal(err)
		}
		if p == 2 || p == 3 {
			n.vm.executionResultsDB = &c18StallDB{Database: n.vm.executionResultsDB, point: p, height: uint64(k), reached: reached}
		}
		if p == 1 {
			n.vm.chainStore.VerifWrapDB(func(db database.Database) database.Database {
				return &c18StallIndexDB{Database: db, height: uint64(a), reached: reached}
			})
		}
		var blks []*c18Blk
		for i := 0; i < a; i++ {
			blk, err := n.parseVerify(ctx, blocks[i])
			if err != nil {
				t.Fatal(err)
			}
			blks = append(blks, blk)
		}
		// the consensus thread: it may block for good (inside the stalled index write, or on the
		// full accepted queue), so it runs beside the watcher below
		acceptErr := make(chan error, 1)
		go func() {
			for _, blk := range blks {
				if err := blk.Accept(ctx); err != nil {
					acceptErr <- err
					return
				}
			}
		}()
		rep := c18Report{Outcome: "stalled"}
		select {
		case <-reached:
		case err := <-acceptErr:
			t.Fatal(err)
		case <-time.After(30 * time.Second):
			rep.Outcome = "nostall"
		}
		// wait until everything that can reach the disk has reached it
		wantIdx, wantSt := uint64(a), uint64(0)
		if p == 1 {
			wantIdx, wantSt = uint64(a-1), uint64(a-1)
		}
		deadline := time.Now().Add(30 * time.Second)
		for rep.Outcome == "stalled" {
			idx, st, _ := n.markers()
			if idx >= wantIdx && st >= wantSt {
				break
			}
			if time.Now().After(deadline) {
				rep.Outcome = "nostall"
			}
			time.Sleep(5 * time.Millisecond)
		}
		if p == 1 && rep.Outcome == "stalled" {
			// the accepter is idle now unless block a was handed to it before its index write
			// finished; give it the chance to run ahead of the index
			for end := time.Now().Add(1500 * time.Millisecond); time.Now().Before(end); time.Sleep(10 * time.Millisecond) {
				if _, st, _ := n.markers(); st >= uint64(a) {
					break
				}
			}
		}
		mu.Lock()
		rep.Notified = append([]uint64{}, notified...)
		rep.NotifiedB = append([]uint64{}, notifiedB...)
		mu.Unlock()
		rep.Idx, rep.St, rep.Res = n.markers()
		c18WriteJSON(report, rep)
		os.Exit(0) // abrupt stop: no Shutdown, queue and caches are lost

	case "restart":
		genesisBytes, _ := os.ReadFile(filepath.Join(work, "genesis.json"))
		blocks := c18ReadBlocks(work)
		rep := c18Report{}
		n, err := c18Start(t, dir, genesisBytes, sub, subB)
		mu.Lock()
		rep.Notified = append([]uint64{}, notified...)
		rep.NotifiedB = append([]uint64{}, notifiedB...)
		mu.Unlock()
		if err != nil {
			rep.Outcome, rep.Err = c18ClassifyErr(err), err.Error()
			c18WriteJSON(report, rep)
			os.Exit(0)
		}
		rep.Outcome = "ok"
		rep.LA, rep.LAID, rep.Results = n.lastAccepted()
		rep.Root = n.root()
		rep.Idx, rep.St, rep.Res = n.markers()
		// liveness after the restart: accept the rest of the chain
		rep.Cont = "ok"
		for i := int(rep.LA); i < len(blocks); i++ {
			blk, err := n.parseVerify(ctx, blocks[i])
			if err == nil {
				err = blk.SyncAccept(ctx)
			}
			if err != nil {
				rep.Cont = "err"
				rep.Err = err.Error()
				break
			}
		}
		rep.FinalLA, rep.FinalID, _ = n.lastAccepted()
		rep.FinalRt = n.root()
		c18WriteJSON(report, rep)
		_ = n.snowVM.Shutdown(ctx)
	default:
		t.Fatalf("unknown mode %q", mode)
	}
}

func c18ClassifyErr(err error) string {
	s := err.Error()
	switch {
	case strings.Contains(s, "panic:") && strings.Contains(s, "nil pointer"):
		return "panic-nil"
	case strings.Contains(s, "panic:"):
		return "panic"
	case strings.Contains(s, "Compact start") && strings.Contains(s, "is not less than end"):
		// merkledb rebuilds after an unclean shutdown and compacts (nil, nil); internal/pebble
		// rejects that range (fixes/C18-pebble-compact-nil-limit.patch)
		return "err-statedb-compact"
	case strings.Contains(s, "cannot extract latest output block from invalid state"):
		return "err-index-ahead"
	case strings.Contains(s, "does not match state height"):
		return "err-results-height"
	case strings.Contains(s, "failed to fetch last execution results"):
		return "err-results-missing"
	default:
		return "err-other"
	}
}

func c18Child(t *testing.T, mode, dir, work, args string) (*c18Report, string) {
	cmd := exec.Command(os.Args[0], "-test.run", "^TestVerifC18Child$", "-test.count=1", "-test.timeout=900s")
	cmd.Env = append(os.Environ(), c18EnvMode+"="+mode, c18EnvDir+"="+dir, c18EnvWork+"="+work, c18EnvArgs+"="+args)
	var out bytes.Buffer
	cmd.Stdout, cmd.Stderr = &out, &out
	err := cmd.Run()
	data, rerr := os.ReadFile(filepath.Join(work, "report-"+mode+".json"))
	if rerr != nil {
		o := out.String()
		if len(o) > 3000 { // the reason (panic / fatal) is at the end
			o = "…" + o[len(o)-3000:]
		}
		return nil, fmt.Sprintf("child %s failed: %v\n%s", mode, err, o)
	}
	var rep c18Report
	if jerr := json.Unmarshal(data, &rep); jerr != nil {
		return nil, jerr.Error()
	}
	return &rep, ""
}

func c18List(x []uint64) string {
	if len(x) == 0 {
		return "-"
	}
	s := make([]string, len(x))
	for i, v := range x {
		s[i] = strconv.FormatUint(v, 10)
	}
	return strings.Join(s, ",")
}

// ---------------------------------------------------------------- parent

func TestVerifC18(t *testing.T) {
	if os.Getenv(c18EnvMode) != "" {
		t.Skip("child process")
	}
	r := verifh.Start("C18")
	defer r.Finish()
	lines := r.ReplayLines()
	if lines == nil {
		lines = c18Generate(r)
	}
	work := t.TempDir()
	var ref *c18Report
	nref := 0
	for ci, l := range lines {
		f := verifh.Fields(l)
		switch {
		case len(f) == 2 && f[0] == "chain":
			n, err := strconv.Atoi(f[1])
			if err != nil || n < 1 || n > 24 {
				r.Emit(l, "bad-op")
				continue
			}
			dir := filepath.Join(work, fmt.Sprintf("ref%d", ci))
			_ = os.MkdirAll(dir, 0o755)
			rep, msg := c18Child(t, "build", dir, work, f[1])
			if rep == nil {
				t.Fatalf("reference node failed: %s", msg)
			}
			ref, nref = rep, n
			r.Emit(l, fmt.Sprintf("ok n=%d notified=%s notifiedB=%s", n, c18List(rep.Notified), c18List(rep.NotifiedB)))
			// the never-crashed node itself: every block notified exactly once, in order, to both
			for _, log := range [][]uint64{rep.Notified, rep.NotifiedB} {
				bad := len(log) != n+1
				for i, h := range log {
					if h != uint64(i) {
						bad = true
					}
				}
				if bad {
					r.Violation("reference-notifications", "never-crashed node notified %v / %v", rep.Notified, rep.NotifiedB)
				}
			}
		case len(f) == 4 && f[0] == "crash":
			a, e1 := strconv.Atoi(f[1])
			p, e2 := strconv.Atoi(f[2])
			k, e3 := strconv.Atoi(f[3])
			if e1 != nil || e2 != nil || e3 != nil || ref == nil || k < 1 || k > a || a > nref || p < 1 || p > 6 || a-k > 17 || (p == 1 && k != a) {
				r.Emit(l, "bad-op")
				continue
			}
			dir := filepath.Join(work, fmt.Sprintf("case%d", ci))
			_ = os.MkdirAll(dir, 0o755)
			pre, msg := c18Child(t, "crash", dir, work, strings.Join(f[1:], " "))
			if pre == nil {
				t.Fatalf("crash child failed: %s", msg)
			}
			if pre.Outcome != "stalled" {
				r.Emit(l, "nostall")
				r.Violation("pipeline-did-not-reach-point", "%s: the accept pipeline never reached the point (hang?)", l)
				continue
			}
			re, msg := c18Child(t, "restart", dir, work, "")
			if re == nil && strings.Contains(msg, "test timed out") {
				// the child process ran into the go test timeout (machine overload), which says
				// nothing about the start-up: that attempt counts as one more abrupt stop
				r.Count("restart-child-timeout-retried")
				re, msg = c18Child(t, "restart", dir, work, "")
			}
			if re == nil {
				// the restart child died without a report (e.g. a panic on another goroutine)
				re = &c18Report{Outcome: "died", Err: msg}
				_ = os.WriteFile(filepath.Join(r.OutDir, fmt.Sprintf("died-case%d.txt", ci)), []byte(l+"\n"+msg), 0o644)
			}
			la := "-"
			agree := "-"
			if re.Outcome == "ok" {
				la = strconv.FormatUint(re.LA, 10)
				agree = "false"
				if int(re.LA) < len(ref.PerH) && re.LAID == ref.PerH[re.LA].ID && re.Root == ref.PerH[re.LA].Root && re.Results == ref.PerH[re.LA].Results {
					agree = "true"
				}
			}
			r.Emit(l, fmt.Sprintf("idx=%d st=%d res=%d pre=%s preB=%s restart=%s la=%s re=%s reB=%s", pre.Idx, pre.St, pre.Res, c18List(pre.Notified), c18List(pre.NotifiedB), re.Outcome, la, c18List(re.Notified), c18List(re.NotifiedB)))
			r.Count("restart:" + re.Outcome)
			r.Count(fmt.Sprintf("point:%d", p))
			r.Count(fmt.Sprintf("ahead:%d", int(pre.Idx)-int(pre.St)))
			r.Distinct(fmt.Sprintf("%d/%d/%d", pre.Idx, pre.St, pre.Res))
			// ---- oracle: the property's statement
			ahead := int(pre.Idx) - int(pre.St)
			if re.Outcome != "ok" {
				// class of the failing input, by the reason of the failure and the relation of the markers
				var key string
				switch {
				case re.Outcome == "err-statedb-compact":
					key = "restart-fails-after-any-unclean-shutdown-statedb-compact"
				case ahead < 0:
					// only possible if a block reaches the accepter before its index write completed
					key = "restart-fails-state-ahead-of-index"
				case re.Outcome == "panic-nil" && ahead == 1:
					key = "restart-fails-index-ahead-of-state-by-1"
				case re.Outcome == "err-index-ahead" && ahead >= 2:
					key = "restart-fails-index-ahead-of-state-by-2+"
				case (re.Outcome == "err-results-height" || re.Outcome == "err-results-missing") && pre.Res < int64(pre.St):
					// only possible if the state is committed before the execution results are written
					key = "restart-fails-results-height-behind-state-height"
				case re.Outcome == "err-results-height":
					key = fmt.Sprintf("restart-fails-results-height-%+d-vs-state-index-ahead-%d", pre.Res-int64(pre.St), ahead)
				default:
					key = fmt.Sprintf("restart-fails-%s-index-ahead-%d", re.Outcome, ahead)
				}
				r.Violation(key, "%s: restart %s (%s) with index height %d, state height %d, results height %d", l, re.Outcome, c18Short(re.Err), pre.Idx, pre.St, pre.Res)
				continue
			}
			wantLA := a
			if p == 1 {
				wantLA = a - 1 // Accept of block a never got past its index write
			}
			if int(re.LA) != wantLA || agree != "true" {
				r.Violation("restart-disagrees", "%s: restarted node last accepted %d id=%s root=%s results=%s; never-crashed node at height %d: %+v", l, re.LA, re.LAID, re.Root, re.Results, wantLA, ref.PerH[wantLA])
			}
			if re.Cont != "ok" || int(re.FinalLA) != nref || re.FinalID != ref.PerH[nref].ID || re.FinalRt != ref.PerH[nref].Root {
				r.Violation("restart-cannot-continue", "%s: after the restart the rest of the chain gives cont=%s final=%d/%s (%s)", l, re.Cont, re.FinalLA, re.FinalRt, c18Short(re.Err))
			}
			// every accepted block delivered to each subscriber at least once across the restart, in height order
			for si, logs := range [][2][]uint64{{pre.Notified, re.Notified}, {pre.NotifiedB, re.NotifiedB}} {
				name := string(rune('A' + si))
				seen := map[uint64]bool{}
				inOrder := true
				for _, run := range logs {
					for i, h := range run {
						seen[h] = true
						if i > 0 && h < run[i-1] {
							inOrder = false
						}
					}
				}
				var missing []uint64
				for h := uint64(1); h <= uint64(wantLA); h++ {
					if !seen[h] {
						missing = append(missing, h)
					}
				}
				if len(missing) > 0 {
					// classes, by a predicate on the missing block:
					//  (1) the block at the state height whose delivery to this subscriber had not
					//      happened when the node stopped, index ahead (known finding) / level;
					//  (2) a block strictly above the state height: it was re-processed by the start-up
					//      (or accepted after it) and still never reached this subscriber;
					//  (3) anything else.
					var atState, above, other []uint64
					inWindow := p == 4 || (p == 5 && si == 1)
					for _, h := range missing {
						switch {
						case h == pre.St && h == uint64(k) && inWindow:
							atState = append(atState, h)
						case h > pre.St:
							above = append(above, h)
						default:
							other = append(other, h)
						}
					}
					report := func(key string, hs []uint64) {
						if len(hs) > 0 {
							r.Violation(key, "%s: subscriber %s: blocks %v were accepted but never delivered before or after the restart (index %d, state %d; pre=%v re=%v)", l, name, hs, pre.Idx, pre.St, logs[0], logs[1])
						}
					}
					if ahead >= 1 {
						report("accepted-block-never-notified-index-ahead-crash-between-commit-and-notify", atState)
					} else {
						report("accepted-block-never-notified-index-level-with-state-crash-between-commit-and-notify", atState)
					}
					report("reprocessed-block-above-state-height-never-notified", above)
					report("accepted-block-never-notified-other", other)
				}
				if !inOrder {
					r.Violation("notifications-out-of-order", "%s: subscriber %s pre=%v re=%v", l, name, logs[0], logs[1])
				}
			}
		default:
			r.Emit(l, "bad-op")
		}
	}
}

func c18Short(s string) string {
	if i := strings.Index(s, "panic:"); i >= 0 && len(s) > 300 { // show the reason, not the preamble
		s = s[i:]
	}
	s = strings.ReplaceAll(s, "\n", " ")
	if len(s) > 300 {
		s = s[:300]
	}
	return s
}

func c18Generate(r *verifh.Run) []string {
	var out []string
	add := func(f string, a ...any) { out = append(out, fmt.Sprintf(f, a...)) }
	n := 18 // acceptedQueueSize + 2: the deepest backlog consensus can build up
	add("chain %d", n)
	// corpus: accept, accept, crash before anything is processed (index 2 ahead);
	// one block accepted, crash at each of the points (index 1 ahead / level)
	add("crash 2 2 1")
	for p := 2; p <= 6; p++ {
		add("crash 1 %d 1", p)
	}
	add("crash 2 4 1") // committed, not notified, index ahead: the notification of block 1 is lost
	add("crash 2 5 1") // the same between subscriber A and subscriber B
	add("crash 3 3 2") // results one ahead of the state, index two ahead
	add("crash 3 1 3") // consensus stopped inside the index write of block 3, accepter running
	add("crash 1 1 1") // the same for the very first block: restart at genesis (height 0)
	// completely full queue: block 1 in flight, 16 queued, the 18th Accept blocked on the send
	// after its index write: 18 accepted blocks outstanding
	add("crash 18 2 1")
	add("crash 0 2 0")
	add("crash 2 9 1")
	add("frob")
	if r.Thorough() {
		add("crash %d 2 1", n-1) // 16 blocks queued behind the stalled one (acceptedQueueSize = 16)
		add("crash %d 4 2", n)
		add("crash %d 3 1", n)
		for a := 1; a <= 6; a++ {
			add("crash %d 1 %d", a, a)
		}
		for a := 1; a <= n; a++ {
			for k := 1; k <= a; k++ {
				for p := 2; p <= 6; p++ {
					if a-k <= 17 && (a <= 4 || r.RNG.Chance(8)) {
						add("crash %d %d %d", a, p, k)
					}
				}
			}
		}
	}
	extra := r.N(1, 20)
	for i := 0; i < extra; i++ {
		a := 1 + r.RNG.Intn(n)
		k := 1 + r.RNG.Intn(a)
		add("crash %d %d %d", a, 2+r.RNG.Intn(5), k)
	}
	return out
}
