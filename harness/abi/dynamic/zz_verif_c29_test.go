package dynamic

import (
	"bytes"
	"encoding/json"
	"fmt"
	"reflect"
	"sort"
	"strconv"
	"strings"
	"testing"
	"unicode/utf8"

	"github.com/ava-labs/avalanchego/ids"
	"github.com/ava-labs/avalanchego/utils/wrappers"

	"github.com/ava-labs/hypersdk/abi"
	"github.com/ava-labs/hypersdk/chain/chaintest"
	"github.com/ava-labs/hypersdk/codec"
	"github.com/ava-labs/hypersdk/consts"
	"github.com/ava-labs/hypersdk/internal/verifh"
)

// ---- the framework's mock types (abi/mockabi_test.go, re-declared: they are test-only there)

type MockObjectSingleNumber struct {
	Field1 uint16 `serialize:"true"`
}
type MockActionTransfer struct {
	To    codec.Address `serialize:"true" json:"to"`
	Value uint64        `serialize:"true" json:"value"`
	Memo  []uint8       `serialize:"true" json:"memo"`
}
type MockObjectAllNumbers struct {
	Uint8  uint8  `serialize:"true" json:"uint8"`
	Uint16 uint16 `serialize:"true" json:"uint16"`
	Uint32 uint32 `serialize:"true" json:"uint32"`
	Uint64 uint64 `serialize:"true" json:"uint64"`
	Int8   int8   `serialize:"true" json:"int8"`
	Int16  int16  `serialize:"true" json:"int16"`
	Int32  int32  `serialize:"true" json:"int32"`
	Int64  int64  `serialize:"true" json:"int64"`
}
type MockObjectStringAndBytes struct {
	Field1 string  `serialize:"true" json:"field1"`
	Field2 []uint8 `serialize:"true" json:"field2"`
}
type MockObjectArrays struct {
	Strings []string  `serialize:"true" json:"strings"`
	Bytes   [][]uint8 `serialize:"true" json:"bytes"`
	Uint8s  []uint8   `serialize:"true" json:"uint8s"`
	Uint16s []uint16  `serialize:"true" json:"uint16s"`
	Uint32s []uint32  `serialize:"true" json:"uint32s"`
	Uint64s []uint64  `serialize:"true" json:"uint64s"`
	Int8s   []int8    `serialize:"true" json:"int8s"`
	Int16s  []int16   `serialize:"true" json:"int16s"`
	Int32s  []int32   `serialize:"true" json:"int32s"`
	Int64s  []int64   `serialize:"true" json:"int64s"`
}
type MockActionWithTransfer struct {
	Transfer MockActionTransfer `serialize:"true" json:"transfer"`
}
type MockActionWithTransferArray struct {
	Transfers []MockActionTransfer `serialize:"true" json:"transfers"`
}
type Outer struct {
	Inner    Inner   `serialize:"true" json:"inner"`
	InnerArr []Inner `serialize:"true" json:"innerArr"`
}
type Inner struct {
	Field1 uint8 `serialize:"true" json:"field1"`
}
type FixedBytes struct {
	TwoBytes       [2]uint8  `serialize:"true" json:"twoBytes"`
	ThirtyTwoBytes [32]uint8 `serialize:"true" json:"thirtyTwoBytes"`
}
type Bools struct {
	Bool1     bool   `serialize:"true" json:"bool1"`
	Bool2     bool   `serialize:"true" json:"bool2"`
	BoolArray []bool `serialize:"true" json:"boolArray"`
}

// ---- further shapes (tie only; outside the registered set, not judged by the oracle)

type XNested struct {
	A [2][3]uint16  `serialize:"true" json:"a"`
	B [][2][]uint8  `serialize:"true" json:"b"`
	C [3]Inner      `serialize:"true" json:"c"`
	D [][]Outer     `serialize:"true" json:"d"`
	E [0]uint64     `serialize:"true" json:"e"`
	F []codec.Address `serialize:"true" json:"f"`
}
type XPtr struct {
	P *Inner `serialize:"true" json:"p"`
}
type XMap struct {
	M map[string]uint8 `serialize:"true" json:"m"`
}
type XNamed struct {
	B codec.Bytes `serialize:"true" json:"b"`
	I ids.ID      `serialize:"true" json:"i"`
}
type XEmbedded struct {
	Inner `serialize:"true"`
	X     uint8 `serialize:"true" json:"x"`
}
type XEmbeddedTagged struct {
	Inner `serialize:"true" json:"inner"`
	X     uint8 `serialize:"true" json:"x"`
}
type XUnserialized struct {
	A uint8 `json:"a"`
	B uint8 `serialize:"true" json:"b"`
	C uint8 `serialize:"false" json:"c"`
}
type XJSONDash struct {
	A uint8 `serialize:"true" json:"-"`
	B uint8 `serialize:"true" json:"b"`
}
type XOmitEmpty struct {
	A []uint8 `serialize:"true" json:"a,omitempty"`
}
type XEmptyTagName struct {
	A uint8 `serialize:"true" json:",omitempty"`
}
type XDupTitle struct {
	AB uint8 `serialize:"true" json:"aB"`
	Ab uint8 `serialize:"true" json:"Ab"`
}
type XUnderscore struct {
	X uint8 `serialize:"true" json:"_x"`
}
type XDigitName struct {
	X uint8 `serialize:"true" json:"1x"`
}
type XSnake struct {
	SenderBalance   uint64 `serialize:"true" json:"sender_balance"`
	ReceiverBalance uint64 `serialize:"true" json:"receiver_balance"`
}
type XEmpty struct{}

func (MockObjectSingleNumber) GetTypeID() uint8 { return 0 }
func (MockActionTransfer) GetTypeID() uint8 { return 0 }
func (MockObjectAllNumbers) GetTypeID() uint8 { return 0 }
func (MockObjectStringAndBytes) GetTypeID() uint8 { return 0 }
func (MockObjectArrays) GetTypeID() uint8 { return 0 }
func (MockActionWithTransfer) GetTypeID() uint8 { return 0 }
func (MockActionWithTransferArray) GetTypeID() uint8 { return 0 }
func (Outer) GetTypeID() uint8 { return 0 }
func (Inner) GetTypeID() uint8 { return 0 }
func (FixedBytes) GetTypeID() uint8 { return 0 }
func (Bools) GetTypeID() uint8 { return 0 }
func (XNested) GetTypeID() uint8 { return 0 }
func (XPtr) GetTypeID() uint8 { return 0 }
func (XMap) GetTypeID() uint8 { return 0 }
func (XNamed) GetTypeID() uint8 { return 0 }
func (XEmbedded) GetTypeID() uint8 { return 0 }
func (XEmbeddedTagged) GetTypeID() uint8 { return 0 }
func (XUnserialized) GetTypeID() uint8 { return 0 }
func (XJSONDash) GetTypeID() uint8 { return 0 }
func (XOmitEmpty) GetTypeID() uint8 { return 0 }
func (XEmptyTagName) GetTypeID() uint8 { return 0 }
func (XDupTitle) GetTypeID() uint8 { return 0 }
func (XUnderscore) GetTypeID() uint8 { return 0 }
func (XDigitName) GetTypeID() uint8 { return 0 }
func (XSnake) GetTypeID() uint8 { return 0 }
func (XEmpty) GetTypeID() uint8 { return 0 }

type c29Entry struct {
	t          reflect.Type
	inst       codec.Typed
	id         uint8
	registered bool // in the property's quantifier: judged by the oracle
}

func c29Pool() (map[string]*c29Entry, []string) {
	m := map[string]*c29Entry{}
	var names []string
	add := func(v codec.Typed, reg bool) {
		t := reflect.TypeOf(v)
		if t.Kind() == reflect.Ptr {
			t = t.Elem()
		}
		m[t.Name()] = &c29Entry{t: t, inst: v, id: uint8(len(names)), registered: reg}
		names = append(names, t.Name())
	}
	for _, v := range []codec.Typed{MockObjectSingleNumber{}, MockActionTransfer{}, MockObjectAllNumbers{}, MockObjectStringAndBytes{},
		MockObjectArrays{}, MockActionWithTransfer{}, MockActionWithTransferArray{}, Outer{}, Inner{}, FixedBytes{}, Bools{},
		&chaintest.TestAction{}, &chaintest.TestOutput{}, XSnake{}} {
		add(v, true)
	}
	for _, v := range []codec.Typed{XNested{}, XEmpty{}} {
		add(v, true) // supported fragment
	}
	for _, v := range []codec.Typed{XPtr{}, XMap{}, XNamed{}, XEmbedded{}, XEmbeddedTagged{}, XUnserialized{}, XJSONDash{}, XOmitEmpty{},
		XEmptyTagName{}, XDupTitle{}, XUnderscore{}, XDigitName{}} {
		add(v, false)
	}
	return m, names
}

var c29AddrT = reflect.TypeOf(codec.Address{})

// ---- reflect.Type -> line syntax (the model's GoTy)

func c29Name(s string) string {
	if s == "" {
		return "-"
	}
	return s
}

func c29Line(t reflect.Type, top string) string {
	var sb strings.Builder
	c29WriteTy(&sb, t, top)
	return sb.String()
}

func c29WriteTy(sb *strings.Builder, t reflect.Type, top string) {
	if t == c29AddrT {
		sb.WriteString("addr")
		return
	}
	if t.Kind() != reflect.Struct && t.PkgPath() != "" {
		sb.WriteString("named " + t.Name() + " ")
		c29WriteKind(sb, t)
		return
	}
	c29WriteKindTop(sb, t, top)
}

func c29WriteKind(sb *strings.Builder, t reflect.Type) { c29WriteKindTop(sb, t, "") }

func c29WriteKindTop(sb *strings.Builder, t reflect.Type, top string) {
	switch t.Kind() {
	case reflect.Uint8:
		sb.WriteString("u8")
	case reflect.Uint16:
		sb.WriteString("u16")
	case reflect.Uint32:
		sb.WriteString("u32")
	case reflect.Uint64:
		sb.WriteString("u64")
	case reflect.Int8:
		sb.WriteString("i8")
	case reflect.Int16:
		sb.WriteString("i16")
	case reflect.Int32:
		sb.WriteString("i32")
	case reflect.Int64:
		sb.WriteString("i64")
	case reflect.String:
		sb.WriteString("str")
	case reflect.Bool:
		sb.WriteString("bool")
	case reflect.Slice:
		sb.WriteString("slice ")
		c29WriteTy(sb, t.Elem(), "")
	case reflect.Array:
		fmt.Fprintf(sb, "array %d ", t.Len())
		c29WriteTy(sb, t.Elem(), "")
	case reflect.Ptr:
		sb.WriteString("ptr ")
		c29WriteTy(sb, t.Elem(), "")
	case reflect.Map:
		sb.WriteString("map ")
		c29WriteTy(sb, t.Key(), "")
		sb.WriteString(" ")
		c29WriteTy(sb, t.Elem(), "")
	case reflect.Struct:
		name := t.Name()
		if name == "" {
			name = top
		}
		fmt.Fprintf(sb, "struct %s %d", c29Name(name), t.NumField())
		for i := 0; i < t.NumField(); i++ {
			f := t.Field(i)
			tag := "~"
			if jt := f.Tag.Get("json"); jt != "" {
				tag = "=" + strings.Split(jt, ",")[0]
			}
			fmt.Fprintf(sb, " %s %s %s %s ", f.Name, tag, c29B(f.Tag.Get("serialize") == "true"), c29B(f.Anonymous))
			c29WriteTy(sb, f.Type, "")
		}
	default:
		sb.WriteString("unsupported-kind-" + t.Kind().String())
	}
}

func c29B(b bool) string {
	if b {
		return "1"
	}
	return "0"
}

// ---- shape of a reflect.Type, printed in the model's normal form

func c29Shape(t reflect.Type) string {
	var sb strings.Builder
	c29WriteShape(&sb, t)
	return sb.String()
}

type c29SF struct {
	json string
	ser  bool
	t    reflect.Type
}

func c29ShapeFields(t reflect.Type) []c29SF {
	var out []c29SF
	for i := 0; i < t.NumField(); i++ {
		f := t.Field(i)
		jt := f.Tag.Get("json")
		if f.Anonymous && jt == "" && f.Type.Kind() == reflect.Struct {
			out = append(out, c29ShapeFields(f.Type)...)
			continue
		}
		name := f.Name
		if jt != "" {
			if p := strings.Split(jt, ",")[0]; p != "" {
				name = p
			}
		}
		out = append(out, c29SF{name, f.Tag.Get("serialize") == "true", f.Type})
	}
	return out
}

func c29WriteShape(sb *strings.Builder, t reflect.Type) {
	if t == c29AddrT {
		sb.WriteString("addr")
		return
	}
	if t.Kind() != reflect.Struct && t.PkgPath() != "" {
		sb.WriteString("named " + t.Name() + " ")
		c29WriteShapeKind(sb, t)
		return
	}
	c29WriteShapeKind(sb, t)
}

func c29WriteShapeKind(sb *strings.Builder, t reflect.Type) {
	switch t.Kind() {
	case reflect.Slice:
		sb.WriteString("slice ")
		c29WriteShape(sb, t.Elem())
	case reflect.Array:
		fmt.Fprintf(sb, "array %d ", t.Len())
		c29WriteShape(sb, t.Elem())
	case reflect.Ptr:
		sb.WriteString("ptr ")
		c29WriteShape(sb, t.Elem())
	case reflect.Map:
		sb.WriteString("map ")
		c29WriteShape(sb, t.Key())
		sb.WriteString(" ")
		c29WriteShape(sb, t.Elem())
	case reflect.Struct:
		fs := c29ShapeFields(t)
		fmt.Fprintf(sb, "struct - %d", len(fs))
		for _, f := range fs {
			fmt.Fprintf(sb, " - =%s %s 0 ", f.json, c29B(f.ser))
			c29WriteShape(sb, f.t)
		}
	default:
		c29WriteKind(sb, t)
	}
}

// ---- line syntax -> reflect.Type (pool structs by name, anonymous structs via StructOf)

type c29Parser struct {
	toks []string
	pool map[string]*c29Entry
	bad  bool
}

func (p *c29Parser) next() string {
	if len(p.toks) == 0 {
		p.bad = true
		return ""
	}
	t := p.toks[0]
	p.toks = p.toks[1:]
	return t
}

var c29Prims = map[string]reflect.Type{
	"u8": reflect.TypeOf(uint8(0)), "u16": reflect.TypeOf(uint16(0)), "u32": reflect.TypeOf(uint32(0)), "u64": reflect.TypeOf(uint64(0)),
	"i8": reflect.TypeOf(int8(0)), "i16": reflect.TypeOf(int16(0)), "i32": reflect.TypeOf(int32(0)), "i64": reflect.TypeOf(int64(0)),
	"str": reflect.TypeOf(""), "bool": reflect.TypeOf(false), "addr": c29AddrT,
}

var c29NamedTypes = map[string]reflect.Type{"Bytes": reflect.TypeOf(codec.Bytes{}), "ID": reflect.TypeOf(ids.ID{}),
	"Permissions": reflect.TypeOf(chaintest.TestAction{}.SpecifiedStateKeyPermissions).Elem()}

func (p *c29Parser) ty(top bool) reflect.Type {
	w := p.next()
	if t, ok := c29Prims[w]; ok {
		return t
	}
	switch w {
	case "named":
		n := p.next()
		p.ty(false)
		if t, ok := c29NamedTypes[n]; ok {
			return t
		}
		p.bad = true
	case "slice":
		if e := p.ty(false); e != nil {
			return reflect.SliceOf(e)
		}
	case "ptr":
		if e := p.ty(false); e != nil {
			return reflect.PointerTo(e)
		}
	case "array":
		n, err := strconv.Atoi(p.next())
		e := p.ty(false)
		if err == nil && e != nil && n >= 0 && n < 1<<16 {
			return reflect.ArrayOf(n, e)
		}
		p.bad = true
	case "map":
		k, v := p.ty(false), p.ty(false)
		if k != nil && v != nil && k.Comparable() {
			return reflect.MapOf(k, v)
		}
		p.bad = true
	case "struct":
		name := p.next()
		n, err := strconv.Atoi(p.next())
		if err != nil || n < 0 || n > 64 {
			p.bad = true
			return nil
		}
		fs := make([]reflect.StructField, 0, n)
		for i := 0; i < n && !p.bad; i++ {
			g, tag, ser, emb := p.next(), p.next(), p.next(), p.next()
			ft := p.ty(false)
			if ft == nil {
				p.bad = true
				return nil
			}
			st := ""
			if ser == "1" {
				st = `serialize:"true"`
			}
			if strings.HasPrefix(tag, "=") {
				st = strings.TrimSpace(st + ` json:"` + tag[1:] + `"`)
			}
			fs = append(fs, reflect.StructField{Name: g, Type: ft, Tag: reflect.StructTag(st), Anonymous: emb == "1"})
		}
		if e, ok := p.pool[name]; ok {
			return e.t
		}
		if top && name == "Top" && !p.bad {
			var t reflect.Type
			func() {
				defer func() {
					if recover() != nil {
						p.bad = true
					}
				}()
				t = reflect.StructOf(fs)
			}()
			return t
		}
		p.bad = true
	default:
		p.bad = true
	}
	return nil
}

// ---- ABI for a type

func c29ABI(t reflect.Type, top string, id uint8, pool map[string]*c29Entry, names []string, asOutput ...bool) (a abi.ABI, panicked bool, err error) {
	out := len(asOutput) > 0 && asOutput[0]
	defer func() {
		if r := recover(); r != nil {
			panicked = true
		}
	}()
	if t.Name() != "" {
		if out {
			a, err = abi.NewABI(nil, []codec.Typed{pool[t.Name()].inst})
		} else {
			a, err = abi.NewABI([]codec.Typed{pool[t.Name()].inst}, nil)
		}
		return a, false, err
	}
	fields, _, err := abi.VerifDescribeStruct(t)
	if err != nil {
		return abi.ABI{}, false, err
	}
	var insts []codec.Typed
	for _, n := range names {
		insts = append(insts, pool[n].inst)
	}
	pa, err := abi.NewABI(insts, nil)
	if err != nil {
		return abi.ABI{}, false, err
	}
	if out {
		a.Outputs = []abi.TypedStruct{{ID: id, Name: top}}
	} else {
		a.Actions = []abi.TypedStruct{{ID: id, Name: top}}
	}
	a.Types = append([]abi.Type{{Name: top, Fields: fields}}, pa.Types...)
	return a, false, nil
}

func c29Supported(t reflect.Type) (ok bool, why string) {
	if t == c29AddrT {
		return true, ""
	}
	if t.Kind() != reflect.Struct && t.PkgPath() != "" {
		return false, "named-nonstruct-field"
	}
	switch t.Kind() {
	case reflect.Slice, reflect.Array:
		return c29Supported(t.Elem())
	case reflect.Ptr:
		return false, "ptr-field"
	case reflect.Map:
		return false, "map-field"
	case reflect.Struct:
		seen := map[string]bool{}
		for i := 0; i < t.NumField(); i++ {
			f := t.Field(i)
			if f.Anonymous || f.Tag.Get("serialize") != "true" {
				return false, "struct-layout"
			}
			// the rebuilt struct names its fields Title(json name): must be an exported identifier, unique
			jn := f.Name
			if jt := f.Tag.Get("json"); jt != "" {
				jn = strings.Split(jt, ",")[0]
			}
			tn := strings.ToLower(jn)
			if jn == "" || !(jn[0] >= 'a' && jn[0] <= 'z' || jn[0] >= 'A' && jn[0] <= 'Z') || seen[tn] ||
				strings.IndexFunc(jn, func(c rune) bool {
					return !(c >= 'a' && c <= 'z' || c >= 'A' && c <= 'Z' || c >= '0' && c <= '9' || c == '_')
				}) >= 0 {
				return false, "field-name-not-titleable"
			}
			seen[tn] = true
			if jt := f.Tag.Get("json"); jt != "" {
				parts := strings.Split(jt, ",")
				if parts[0] == "" || parts[0] == "-" || len(parts) > 1 {
					return false, "json-tag-options"
				}
			}
			if ok, why := c29Supported(f.Type); !ok {
				return false, why
			}
		}
		return true, ""
	}
	return true, ""
}

func c29GenTy(r *verifh.Run, pool map[string]*c29Entry, names []string, depth int, exotic bool) reflect.Type {
	prims := []string{"u8", "u16", "u32", "u64", "i8", "i16", "i32", "i64", "str", "addr", "bool"}
	c := r.RNG.Intn(100)
	switch {
	case depth <= 0 || c < 45:
		if exotic && r.RNG.Chance(10) {
			return []reflect.Type{reflect.TypeOf(false), reflect.TypeOf(codec.Bytes{}), reflect.TypeOf(ids.ID{})}[r.RNG.Intn(3)]
		}
		return c29Prims[prims[r.RNG.Intn(len(prims))]]
	case c < 65:
		return reflect.SliceOf(c29GenTy(r, pool, names, depth-1, exotic))
	case c < 80:
		return reflect.ArrayOf([]int{0, 1, 2, 3, 5, 32, 33}[r.RNG.Intn(7)], c29GenTy(r, pool, names, depth-1, exotic))
	case c < 95 || !exotic:
		for {
			e := pool[names[r.RNG.Intn(len(names))]]
			if ok, _ := c29Supported(e.t); ok || exotic {
				return e.t
			}
		}
	case c < 97:
		return reflect.PointerTo(c29GenTy(r, pool, names, depth-1, exotic))
	default:
		return reflect.MapOf(reflect.TypeOf(""), c29GenTy(r, pool, names, depth-1, exotic))
	}
}

func c29GenTop(r *verifh.Run, pool map[string]*c29Entry, names []string, exotic bool) reflect.Type {
	n := 1 + r.RNG.Intn(5)
	jsonNames := []string{"a", "value", "fooBar", "x_y", "memo2", "to", "Zed", "q9"}
	fs := make([]reflect.StructField, n)
	for i := range fs {
		jn := jsonNames[r.RNG.Intn(len(jsonNames))] + strconv.Itoa(i)
		if exotic && r.RNG.Chance(8) {
			jn = []string{"aB", "Ab", "_u", "9z", "a b"}[r.RNG.Intn(4)]
		}
		tag := `serialize:"true" json:"` + jn + `"`
		if exotic && r.RNG.Chance(5) {
			tag = `json:"` + jn + `"`
		}
		if r.RNG.Chance(10) {
			tag = `serialize:"true"`
		}
		fs[i] = reflect.StructField{Name: "F" + strconv.Itoa(i), Type: c29GenTy(r, pool, names, 3, exotic), Tag: reflect.StructTag(tag)}
	}
	return reflect.StructOf(fs)
}

func c29Generate(r *verifh.Run, pool map[string]*c29Entry, names []string) []string {
	var lines []string
	emit := func(t reflect.Type, top string) {
		l := c29Line(t, top)
		lines = append(lines, "fields "+l, "rt "+l, "nshape "+l)
		if top == "" {
			lines = append(lines, "types "+l)
		}
	}
	for _, n := range names {
		emit(pool[n].t, "")
	}
	for i := 0; i < r.N(600, 20000); i++ {
		emit(c29GenTop(r, pool, names, i%3 == 2), "Top")
	}
	return lines
}

func TestVerifC29(t *testing.T) {
	r := verifh.Start("C29")
	defer r.Finish()
	pool, names := c29Pool()
	lines := r.ReplayLines()
	if lines == nil {
		lines = c29Generate(r, pool, names)
	}
	for _, l := range lines {
		f := verifh.Fields(l)
		if len(f) < 2 {
			r.Emit(l, "bad-op")
			continue
		}
		p := &c29Parser{toks: f[1:], pool: pool}
		ty := p.ty(true)
		if p.bad || ty == nil || len(p.toks) != 0 || ty.Kind() != reflect.Struct {
			r.Emit(l, "bad-op")
			continue
		}
		top := ""
		if ty.Name() == "" {
			top = "Top"
		}
		if c29Line(ty, top) != strings.Join(f[1:], " ") {
			r.Emit(l, "bad-op") // the line does not describe the Go type it names
			continue
		}
		name := ty.Name() + top
		a, panicked, err := c29ABI(ty, top, 0, pool, names)
		switch f[0] {
		case "fields":
			if panicked || err != nil {
				r.Emit(l, "panic")
				continue
			}
			at, _ := a.FindTypeByName(name)
			var parts []string
			for _, fl := range at.Fields {
				parts = append(parts, fl.Name+":"+fl.Type)
			}
			out := strings.Join(parts, ",")
			if out == "" {
				out = "-"
			}
			r.Emit(l, out)
		case "types":
			if panicked || err != nil {
				r.Emit(l, "panic")
				continue
			}
			set := map[string]bool{}
			for _, at := range a.Types {
				set[at.Name] = true
			}
			var ns []string
			for n := range set {
				ns = append(ns, n)
			}
			sort.Strings(ns)
			r.Emit(l, strings.Join(ns, " "))
		case "nshape":
			r.Emit(l, c29Shape(ty))
		case "rt":
			sup, why := c29Supported(ty)
			judged := top == "Top" && sup || top == "" && pool[name].registered
			if panicked || err != nil {
				r.Emit(l, "panic")
				r.Count("rt:describe-panic")
				if judged {
					r.Violation("abi-describe-fails", "%s", l)
				}
				continue
			}
			var dyn reflect.Type
			var rerr error
			rp := false
			func() {
				defer func() {
					if recover() != nil {
						rp = true
					}
				}()
				dyn, rerr = getReflectType(name, a, map[string]reflect.Type{})
			}()
			switch {
			case rp:
				r.Emit(l, "panic")
				r.Count("rt:panic")
			case rerr != nil:
				r.Emit(l, "err")
				r.Count("rt:err")
			default:
				r.Emit(l, c29Shape(dyn))
				r.Count("rt:ok")
			}
			if sup {
				r.Distinct(l)
			}
			if !judged {
				r.Count("rt:not-judged:" + why)
				continue
			}
			if rp || rerr != nil {
				if !sup {
					r.Violation("dynamic-unsupported-"+why, "registered type %s cannot be rebuilt from its ABI: %v", name, rerr)
				} else {
					r.Violation("dynamic-error-on-supported-type", "%s: %v", l, rerr)
				}
			} else if c29Shape(dyn) != c29Shape(ty) {
				r.Violation("shape-mismatch", "native %s dynamic %s", c29Shape(ty), c29Shape(dyn))
			}
		default:
			r.Emit(l, "bad-op")
		}
	}
}

// ---------------------------------------------------------------- value level (oracle only)

func c29Fill(r *verifh.Run, v reflect.Value, depth int) {
	switch v.Kind() {
	case reflect.Uint8, reflect.Uint16, reflect.Uint32, reflect.Uint64:
		v.SetUint(r.RNG.Pick64() & (uint64(1)<<uint(v.Type().Bits()) - 1 | ^uint64(0)>>(64-uint(v.Type().Bits()))))
	case reflect.Int8, reflect.Int16, reflect.Int32, reflect.Int64:
		bits := uint(v.Type().Bits())
		x := int64(r.RNG.Pick64())
		switch r.RNG.Intn(6) {
		case 0:
			x = -1 << (bits - 1)
		case 1:
			x = 1<<(bits-1) - 1
		case 2:
			x = -1
		}
		v.SetInt(x << (64 - bits) >> (64 - bits))
	case reflect.Bool:
		v.SetBool(r.RNG.Bool())
	case reflect.String:
		n := []int{0, 0, 1, 5, 40, 300}[r.RNG.Intn(6)]
		var sb strings.Builder
		for i := 0; i < n; i++ {
			switch r.RNG.Intn(12) {
			case 0:
				sb.WriteRune('é')
			case 1:
				sb.WriteRune('"')
			case 2:
				sb.WriteRune('\\')
			case 3:
				sb.WriteRune(0)
			case 4:
				sb.WriteRune('世')
			case 5:
				sb.WriteRune('<')
			default:
				sb.WriteByte(byte('a' + r.RNG.Intn(26)))
			}
		}
		v.SetString(sb.String())
	case reflect.Slice:
		n := []int{0, 0, 1, 2, 3, 5}[r.RNG.Intn(6)]
		if v.Type().Elem().Kind() == reflect.Uint8 && r.RNG.Chance(15) {
			n = []int{255, 256, 257, 1000}[r.RNG.Intn(4)]
		}
		if depth <= 0 && n > 1 {
			n = 1
		}
		if r.RNG.Chance(10) {
			return // nil slice
		}
		s := reflect.MakeSlice(v.Type(), n, n)
		for i := 0; i < n; i++ {
			c29Fill(r, s.Index(i), depth-1)
		}
		v.Set(s)
	case reflect.Array:
		for i := 0; i < v.Len(); i++ {
			c29Fill(r, v.Index(i), depth-1)
		}
	case reflect.Struct:
		for i := 0; i < v.NumField(); i++ {
			c29Fill(r, v.Field(i), depth-1)
		}
	}
}

func c29NativeBytes(id uint8, ptr any) ([]byte, error) {
	p := &wrappers.Packer{Bytes: make([]byte, 0, 256), MaxSize: consts.NetworkSizeLimit}
	p.PackByte(id)
	if err := codec.LinearCodec.MarshalInto(ptr, p); err != nil {
		return nil, err
	}
	return p.Bytes, p.Err
}

func c29JSONEq(a, b []byte) bool {
	var x, y any
	da, db := json.NewDecoder(bytes.NewReader(a)), json.NewDecoder(bytes.NewReader(b))
	da.UseNumber()
	db.UseNumber()
	if da.Decode(&x) != nil || db.Decode(&y) != nil {
		return false
	}
	return reflect.DeepEqual(x, y)
}

type c29Viol struct{ k, m string }

// val <json hex> <type tokens…>
func TestVerifC29Values(t *testing.T) {
	r := verifh.Start("C29")
	defer r.Finish()
	pool, names := c29Pool()
	lines := r.ReplayLines()
	if lines == nil {
		gen := func(ty reflect.Type, top string) {
			v := reflect.New(ty)
			c29Fill(r, v.Elem(), 3)
			js, err := json.Marshal(v.Interface())
			if err != nil || !utf8.Valid(js) {
				return
			}
			lines = append(lines, "val "+verifh.Hex(js)+" "+c29Line(ty, top))
		}
		for _, n := range names {
			e := pool[n]
			if !e.registered {
				continue
			}
			lines = append(lines, "val "+verifh.Hex([]byte("{}"))+" "+c29Line(e.t, ""))
			lines = append(lines, "valout "+verifh.Hex([]byte("{}"))+" "+c29Line(e.t, ""))
			for i := 0; i < r.N(60, 2000); i++ {
				gen(e.t, "")
			}
			// the same type registered as an OUTPUT of the VM (NewABI(nil, outputs))
			n0 := len(lines)
			for i := 0; i < r.N(6, 200); i++ {
				gen(e.t, "")
			}
			for i := n0; i < len(lines); i++ {
				lines[i] = "valout" + lines[i][3:]
			}
		}
		for i := 0; i < r.N(400, 20000); i++ {
			gen(c29GenTop(r, pool, names, false), "Top")
		}
	}
	// results handed out by earlier Marshal calls: the slice as returned, a private copy, the line
	type c29Kept struct {
		got, want []byte
		line      int
		name      string
	}
	var kept []c29Kept
	for _, l := range lines {
		f := verifh.Fields(l)
		if len(f) < 3 || (f[0] != "val" && f[0] != "valout") {
			r.Emit(l, "bad-op")
			continue
		}
		js, err := verifh.UnHex(f[1])
		p := &c29Parser{toks: f[2:], pool: pool}
		ty := p.ty(true)
		if err != nil || p.bad || ty == nil || len(p.toks) != 0 || ty.Kind() != reflect.Struct {
			r.Emit(l, "bad-op")
			continue
		}
		top := ""
		if ty.Name() == "" {
			top = "Top"
		}
		name := ty.Name() + top
		id := uint8(7)
		if top == "" {
			id = pool[name].inst.GetTypeID() // what NewABI records
		}
		asOut := f[0] == "valout"
		v0 := reflect.New(ty)
		if err := json.Unmarshal(js, v0.Interface()); err != nil {
			r.Emit(l, "bad-op")
			continue
		}
		native, err := c29NativeBytes(id, v0.Interface())
		if err != nil {
			r.Emit(l, "native-err")
			r.Count("val:native-err")
			continue
		}
		// the value as the native decoder sees it
		v := reflect.New(ty)
		if err := codec.LinearCodec.UnmarshalFrom(&wrappers.Packer{Bytes: native[1:], MaxSize: consts.NetworkSizeLimit}, v.Interface()); err != nil {
			r.Emit(l, "native-decode-err")
			r.Violation("native-roundtrip", "%s: %v", name, err)
			continue
		}
		vjs, _ := json.Marshal(v.Interface())
		sup, why := c29Supported(ty)
		a, panicked, aerr := c29ABI(ty, top, id, pool, names, asOut)
		if panicked || aerr != nil {
			r.Emit(l, "abi-err")
			r.Violation("abi-describe-fails", "%s", name)
			continue
		}
		out := "eq"
		var vs []c29Viol
		func() {
			defer func() {
				if rec := recover(); rec != nil {
					out = "panic"
					vs = append(vs, c29Viol{"dynamic-panic", fmt.Sprintf("%s: %v", name, rec)})
				}
			}()
			db, derr := Marshal(a, name, string(vjs))
			if derr == nil {
				kept = append(kept, c29Kept{db, append([]byte{}, db...), r.Line() + 1, name})
				if len(kept) > 24 {
					kept = kept[1:]
				}
			}
			var dj string
			var uerr error
			if asOut {
				dj, uerr = UnmarshalOutput(a, native)
			} else {
				dj, uerr = UnmarshalAction(a, native)
			}
			switch {
			case derr != nil || uerr != nil:
				out = "err"
				if !sup {
					vs = append(vs, c29Viol{"dynamic-unsupported-"+why, fmt.Sprintf("registered type %s: Marshal err=%v Unmarshal err=%v", name, derr, uerr)})
				} else {
					vs = append(vs, c29Viol{"dynamic-error-on-supported-type", fmt.Sprintf("%s: %v / %v json=%s", name, derr, uerr, vjs)})
				}
			case !bytes.Equal(db, native):
				out = "bytes-differ"
				vs = append(vs, c29Viol{"dynamic-marshal-mismatch", fmt.Sprintf("%s json=%s native=%x dynamic=%x", name, vjs, native, db)})
			case !c29JSONEq([]byte(dj), vjs):
				out = "json-differ"
				vs = append(vs, c29Viol{"dynamic-unmarshal-json-mismatch", fmt.Sprintf("%s native=%s dynamic=%s", name, vjs, dj)})
			}
		}()
		r.Emit(l, out)
		for _, x := range vs {
			r.Violation(x.k, "%s", x.m)
		}
		// every earlier result must still be what it was when it was returned
		for i := range kept {
			if k := &kept[i]; k.line < r.Line() && !bytes.Equal(k.got, k.want) {
				r.ViolationAt("marshal-result-aliased", k.line, r.Line(), "the bytes returned by Marshal(%s) at line %d were overwritten by a later call: was %x now %x", k.name, k.line, k.want, k.got)
				k.want = append([]byte{}, k.got...) // report once
			}
		}
		r.Count("val:" + out)
		if out == "eq" {
			r.Distinct(name + ":" + f[1])
		}
	}
}
