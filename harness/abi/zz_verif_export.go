package abi

import "reflect"

// VerifDescribeStruct exposes describeStruct to the /verif harness (overlay only, never in /repo).
func VerifDescribeStruct(t reflect.Type) ([]Field, []reflect.Type, error) { return describeStruct(t) }
