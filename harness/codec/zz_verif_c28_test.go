package codec

import (
	"bytes"
	"encoding/hex"
	"errors"
	"strings"
	"testing"

	"github.com/ava-labs/avalanchego/utils/hashing"

	"github.com/ava-labs/hypersdk/internal/verifh"
)

// C28: address text encoding round-trips; parsing accepts only the checksummed hex encoding
// (either case, optional 0x) of exactly one full-length address.
//
// ops:  parse  <hex of the input string's bytes> <hashing.Checksum(payload) hex | ->
//       format <address hex> <hashing.Checksum(address) hex>
func TestVerifC28(t *testing.T) {
	r := verifh.Start("C28")
	defer r.Finish()
	r.Fact("addressLen", AddressLen)
	r.Fact("checksumLen", checksumLen)

	lines := r.ReplayLines()
	if lines == nil {
		lines = c28Generate(r)
	}
	for _, l := range lines {
		f := verifh.Fields(l)
		switch {
		case len(f) == 3 && f[0] == "parse":
			in, e1 := verifh.UnHex(f[1])
			_, e2 := verifh.UnHex(f[2])
			if e1 != nil || e2 != nil {
				r.Emit(l, "bad-op")
				continue
			}
			c28Parse(r, l, string(in))
		case len(f) == 3 && f[0] == "format":
			ab, e1 := verifh.UnHex(f[1])
			_, e2 := verifh.UnHex(f[2])
			if e1 != nil || e2 != nil || len(ab) != AddressLen {
				r.Emit(l, "bad-op")
				continue
			}
			var a Address
			copy(a[:], ab)
			s := a.String()
			r.Emit(l, s)
			mt, err := a.MarshalText()
			if err != nil || string(mt) != s {
				r.Violation("marshaltext-differs", "MarshalText=%q String=%q", mt, s)
			}
			// oracle: round trip
			back, err := StringToAddress(s)
			if err != nil || back != a {
				r.Violation("roundtrip", "StringToAddress(String(%x)) = %x, %v", ab, back[:], err)
			}
			r.Distinct("f" + f[1])
		default:
			r.Emit(l, "bad-op")
		}
	}
}

func c28ErrName(err error) string {
	var ibe hex.InvalidByteError
	switch {
	case err == nil:
		return "ok"
	case errors.Is(err, ErrBadChecksum):
		return "badsum"
	case errors.Is(err, ErrMissingChecksum):
		return "missing"
	case errors.Is(err, ErrInvalidSize):
		return "size"
	case errors.Is(err, hex.ErrLength) || errors.As(err, &ibe):
		return "hex"
	}
	return "other"
}

// c28Payload is the harness' own reading of the text: strip 0x, hex-decode.
func c28Payload(s string) ([]byte, bool) {
	if strings.HasPrefix(s, "0x") {
		s = s[2:]
	}
	d, err := hex.DecodeString(s)
	return d, err == nil
}

func c28Parse(r *verifh.Run, l string, s string) {
	a, err := StringToAddress(s)
	out := c28ErrName(err)
	if err == nil {
		out = "ok " + verifh.Hex(a[:])
	}
	r.Emit(l, out)
	r.Count("parse:" + c28ErrName(err))

	// UnmarshalText on a pre-filled address must agree (and leave it untouched on error)
	var u Address
	for i := range u {
		u[i] = 0xEE
	}
	pre := u
	uerr := u.UnmarshalText([]byte(s))
	if (uerr == nil) != (err == nil) || (uerr == nil && u != a) || (uerr != nil && u != pre) {
		r.Violation("unmarshal-mismatch", "UnmarshalText(%q) -> %x, %v but StringToAddress -> %x, %v", s, u[:], uerr, a[:], err)
	}

	// oracle: s is accepted iff it is the checksummed encoding of exactly one full-length address
	d, hexOK := c28Payload(s)
	valid := false
	if hexOK && len(d) == AddressLen+checksumLen {
		valid = bytes.Equal(d[AddressLen:], hashing.Checksum(d[:AddressLen], checksumLen))
	}
	// accepted ⇒ the input is, up to the case of a-f and the optional 0x, exactly String()
	if err == nil {
		t := strings.ToLower(s)
		if !strings.HasPrefix(s, "0x") {
			t = "0x" + t
		}
		if a.String() != t {
			key := "accepted-not-canonical-text"
			if (len(s)-2*strings.Count(s[:min(2, len(s))], "0x"))%2 == 1 {
				key = "odd-length-hex-accepted"
			}
			r.Violation(key, "StringToAddress(%q) accepted as %x although String() = %q", s, a[:], a.String())
		}
	}
	if err == nil && !hexOK {
		r.Violation("non-hex-string-accepted", "StringToAddress(%q) accepted as %x although the text (after an optional leading 0x) is not hexadecimal", s, a[:])
	}
	switch {
	case err == nil && !valid:
		key := "accepted-not-an-encoding"
		if hexOK && len(d) >= checksumLen && len(d) != AddressLen+checksumLen &&
			bytes.Equal(d[len(d)-checksumLen:], hashing.Checksum(d[:len(d)-checksumLen], checksumLen)) {
			key = "wrong-length-payload-accepted"
		}
		r.Violation(key, "StringToAddress(%q) accepted (payload %d bytes) -> %x", s, len(d)-checksumLen, a[:])
	case err == nil && valid:
		if !bytes.Equal(a[:], d[:AddressLen]) {
			r.Violation("wrong-address", "StringToAddress(%q) = %x", s, a[:])
		}
		// the lower-cased, prefixed text is exactly String()
		t := strings.ToLower(s)
		if !strings.HasPrefix(t, "0x") {
			t = "0x" + t
		}
		if a.String() != t {
			r.Violation("not-canonical-text", "String()=%q for accepted %q", a.String(), s)
		}
		r.Distinct("p" + hex.EncodeToString(a[:]))
	case err != nil && valid:
		r.Violation("valid-rejected", "StringToAddress(%q) = %v", s, err)
	}
	if err != nil && a != EmptyAddress {
		r.Violation("nonempty-on-error", "StringToAddress(%q) = %x, %v", s, a[:], err)
	}
	if err != nil {
		r.Distinct("e" + c28ErrName(err) + "/" + l)
	}
}

func c28ParseLine(s string) string {
	ck := "-"
	if d, ok := c28Payload(s); ok && len(d) >= checksumLen {
		ck = verifh.Hex(hashing.Checksum(d[:len(d)-checksumLen], checksumLen))
	}
	return "parse " + verifh.Hex([]byte(s)) + " " + ck
}

func c28WithSum(payload []byte) string {
	return hex.EncodeToString(append(append([]byte{}, payload...), hashing.Checksum(payload, checksumLen)...))
}

func c28Generate(r *verifh.Run) []string {
	var lines []string
	add := func(s string) { lines = append(lines, c28ParseLine(s)) }
	// corpus first: the design-time witness (payload 010203 with a valid checksum) and relatives
	add("0x" + c28WithSum([]byte{1, 2, 3}))
	add(c28WithSum([]byte{1, 2, 3}))
	add("0x" + c28WithSum(nil))
	add("0x" + c28WithSum(make([]byte, AddressLen-1)))
	add("0x" + c28WithSum(make([]byte, AddressLen+1)))
	add("0x" + c28WithSum(make([]byte, AddressLen)))
	add("0x000102030405060708090a0b0c0d0e0f101112131415161718191a1b1c1d1e1f20a10df6ab")
	add("0x0000")
	add("")
	add("0x")
	add("0")
	add("0X" + c28WithSum(make([]byte, AddressLen)))
	add("0x0x" + c28WithSum(make([]byte, AddressLen)))
	// "0x" that is not at the very start must never be stripped (seeded change C28-m4)
	{
		g := c28WithSum(append([]byte{0x03, 0x01, 0x02, 0x03}, make([]byte, AddressLen-4)...))
		add(g[:1] + "0x" + g[1:]) // "00x3010203..."
		add(g + "0x")             // <74 hex>0x
		add(g[:len(g)-2] + "0x" + g[len(g)-2:])
		add(g[:36] + "0x" + g[36:])
		add("0x" + g[:36] + "0x" + g[36:])
		add(g[:1] + "0X" + g[1:])
	}
	// odd-length relatives of valid encodings (a lenient decoder that pads would accept them)
	for _, typeID := range []byte{0, 1, 2, 0x0f, 0x10} {
		var a Address
		a[0] = typeID
		for j := 1; j < AddressLen; j++ {
			a[j] = byte(j)
		}
		g := c28WithSum(a[:])
		for _, p := range []string{"0x", ""} {
			add(p + g[1:])          // 73 digits: leading digit dropped
			add(p + g[:len(g)-1])   // 73 digits: last digit dropped
			add(p + "0" + g)        // 75 digits: extra leading zero
			add(p + g + "0")        // 75 digits
			add(p + "00" + g)       // 76 digits: extra leading zero byte
		}
	}

	rng := r.RNG
	n := r.N(6000, 200000)
	for i := 0; i < n; i++ {
		var a Address
		switch rng.Intn(4) {
		case 0:
			a[0] = byte(rng.Intn(4))
			copy(a[1:], rng.Bytes(32))
		case 1: // sparse
			a[rng.Intn(AddressLen)] = byte(rng.U64())
		case 2:
			for j := range a {
				a[j] = 0xff
			}
			a[rng.Intn(AddressLen)] = byte(rng.U64())
		default:
			copy(a[:], rng.Bytes(AddressLen))
		}
		good := c28WithSum(a[:])
		switch k := rng.Intn(18); k {
		case 0:
			lines = append(lines, "format "+verifh.Hex(a[:])+" "+verifh.Hex(hashing.Checksum(a[:], checksumLen)))
		case 1:
			add("0x" + good)
		case 2:
			add(good)
		case 3: // case variations
			b := []byte(good)
			for j := range b {
				if rng.Chance(40) {
					b[j] = strings.ToUpper(string(b[j]))[0]
				}
			}
			p := "0x"
			if rng.Bool() {
				p = ""
			}
			add(p + string(b))
		case 4: // truncated / extended payload, valid checksum
			ln := rng.Intn(2*AddressLen + 2)
			if rng.Bool() {
				ln = AddressLen - 2 + rng.Intn(5)
			}
			p := rng.Bytes(ln)
			if ln <= AddressLen {
				copy(p, a[:ln])
			} else {
				copy(p, a[:])
			}
			add("0x" + c28WithSum(p))
		case 5: // bad checksum: flip one hex digit anywhere
			b := []byte(good)
			j := rng.Intn(len(b))
			b[j] = "0123456789abcdef"[(strings.IndexByte("0123456789abcdef", b[j])+1+rng.Intn(15))%16]
			add("0x" + string(b))
		case 6: // non-hex character somewhere
			b := []byte(good)
			junk := "gGxX _-.:zZ\x00\xff/@`"
			b[rng.Intn(len(b))] = junk[rng.Intn(len(junk))]
			add("0x" + string(b))
		case 7: // odd length: derived from a valid encoding (low type ids: leading digit is 0)
			if rng.Bool() {
				a[0] = byte(rng.Intn(16))
				good = c28WithSum(a[:])
			}
			p := "0x"
			if rng.Bool() {
				p = ""
			}
			switch rng.Intn(5) {
			case 0:
				add(p + good[1:])
			case 1:
				add(p + good[:len(good)-1])
			case 2:
				add(p + "0" + good)
			case 3:
				add(p + good + "0123456789abcdef"[rng.Intn(16):][:1])
			default:
				cut := rng.Intn(len(good))
				add(p + good[:cut|1])
			}
		case 8: // cut off inside/at the checksum
			add("0x" + good[:len(good)-2*rng.Intn(6)])
		case 9: // prefix variants
			add([]string{"0X", "0x0x", "x", " 0x", "0x ", "00x", "0x0X"}[rng.Intn(7)] + good)
		case 10: // trailing / leading junk
			add("0x" + good + []string{" ", "\n", "00", "0", "0x"}[rng.Intn(5)])
		case 11: // short strings
			add(string(rng.Bytes(rng.Intn(12))))
		case 12: // short hex strings
			add(hex.EncodeToString(rng.Bytes(rng.Intn(8))))
		case 13: // payload whose own leading bytes read as the prefix "0x" is impossible in hex; use leading 30 78
			p := append([]byte{0x30, 0x78}, a[2:]...)
			add(c28WithSum(p))
		case 14: // all upper case incl. payload, lower prefix
			add("0x" + strings.ToUpper(good))
		case 15, 16: // a valid encoding (un-prefixed or prefixed) with a prefix-like fragment spliced in
			// at offset 1, somewhere in the middle, len-2 or the end: only an ANCHORED "0x" may be stripped
			base := good
			if rng.Bool() {
				base = "0x" + good
			}
			if rng.Chance(30) {
				base = strings.ToUpper(good)
			}
			frag := []string{"0x", "0x", "0X", "x", "0", "0x0x", "X"}[rng.Intn(7)]
			var off int
			switch rng.Intn(5) {
			case 0:
				off = 1
			case 1:
				off = 2 + rng.Intn(len(base)-3)
			case 2:
				off = len(base) - 2
			case 3:
				off = len(base)
			default:
				off = 2 * (1 + rng.Intn(len(base)/2-1)) // byte boundary
			}
			add(base[:off] + frag + base[off:])
		default: // checksum of a different address
			var o Address
			copy(o[:], rng.Bytes(AddressLen))
			add("0x" + hex.EncodeToString(a[:]) + hex.EncodeToString(hashing.Checksum(o[:], checksumLen)))
		}
	}
	return lines
}
