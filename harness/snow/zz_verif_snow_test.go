package snow

// Differential harness for properties C20 (consensus wrapper lifecycle) and C21 (state-sync
// handover). Overlaid into /repo/snow at build time. The line protocol and the expected outputs
// are defined by /verif/lean/Driver/Snow.lean over /verif/lean/HyperModel/Model/Snow.lean.

import (
	"context"
	"encoding/json"
	"errors"
	"fmt"
	"sort"
	"strconv"
	"strings"
	"sync"
	"sync/atomic"
	"testing"
	"time"

	"github.com/ava-labs/avalanchego/database"
	"github.com/ava-labs/avalanchego/database/memdb"
	"github.com/ava-labs/avalanchego/ids"
	"github.com/ava-labs/avalanchego/snow/engine/common"
	"github.com/ava-labs/avalanchego/snow/engine/enginetest"
	"github.com/ava-labs/avalanchego/snow/engine/snowman/block"
	"github.com/ava-labs/avalanchego/snow/snowtest"
	"github.com/ava-labs/avalanchego/utils/hashing"
	"github.com/prometheus/client_golang/prometheus"

	"github.com/ava-labs/hypersdk/chainindex"
	"github.com/ava-labs/hypersdk/event"
	"github.com/ava-labs/hypersdk/internal/verifh"
)

const vNil = uint64(999999999)

var errVInvalid = errors.New("verif: invalid block")

// ---------------------------------------------------------------- blocks and the logging chain

type vReg struct {
	// gate is write-locked by the executor while StatefulBlock.Accept runs, so that the accepter
	// goroutine (whose first action is b.Parent()) looks its parent up only after Accept returned.
	gate sync.RWMutex
	mu   sync.RWMutex
	// touched: when armed for block number touchN, any read of that block's bytes/id is signalled
	touchN  atomic.Uint64
	touched chan struct{}
	byN map[uint64]*vBlk
	nOf map[ids.ID]uint64
}

func (g *vReg) idOf(n uint64) ids.ID {
	g.mu.RLock()
	b, ok := g.byN[n]
	g.mu.RUnlock()
	if ok {
		return b.GetID()
	}
	return hashing.ComputeHash256Array([]byte("unknown-" + strconv.FormatUint(n, 10)))
}

func (g *vReg) numOf(id ids.ID) uint64 {
	g.mu.RLock()
	defer g.mu.RUnlock()
	return g.nOf[id]
}

// register returns the canonical block for number b.N, or nil if the number is taken by other fields.
func (g *vReg) register(b *vBlk) *vBlk {
	g.mu.Lock()
	defer g.mu.Unlock()
	if old, ok := g.byN[b.N]; ok {
		if !old.same(b) {
			return nil
		}
		return old
	}
	b.reg = g
	g.byN[b.N] = b
	g.nOf[b.GetID()] = b.N
	return b
}

type vBlk struct {
	N   uint64 `json:"n"`
	P   uint64 `json:"p"`
	H   uint64 `json:"h"`
	Inv bool   `json:"inv"`
	C   *uint64 `json:"c,omitempty"` // embedded P-Chain context (nil = none)
	reg *vReg
}

func sameCtx(a, b *uint64) bool { return (a == nil) == (b == nil) && (a == nil || *a == *b) }

func (b *vBlk) same(o *vBlk) bool {
	return b.N == o.N && b.P == o.P && b.H == o.H && b.Inv == o.Inv && sameCtx(b.C, o.C)
}

func (b *vBlk) GetBytes() []byte {
	if g := b.reg; g != nil && g.touched != nil && g.touchN.Load() == b.N && b.N != 0 {
		select {
		case g.touched <- struct{}{}:
		default:
		}
	}
	bs, err := json.Marshal(b)
	if err != nil {
		panic(err)
	}
	return bs
}
func (b *vBlk) GetID() ids.ID              { return hashing.ComputeHash256Array(b.GetBytes()) }
func (b *vBlk) GetParent() ids.ID {
	b.reg.gate.RLock()
	defer b.reg.gate.RUnlock()
	return b.reg.idOf(b.P)
}
func (*vBlk) GetTimestamp() int64          { return 0 }
func (b *vBlk) GetHeight() uint64          { return b.H }
func (b *vBlk) GetContext() *block.Context {
	if b.C == nil {
		return nil
	}
	return &block.Context{PChainHeight: *b.C}
}
func (b *vBlk) String() string             { return fBlk(b) }

type vOut struct {
	blk *vBlk
	st  []uint64
}

func (o *vOut) GetID() ids.ID            { return o.blk.GetID() }
func (o *vOut) GetParent() ids.ID        { return o.blk.GetParent() }
func (*vOut) GetTimestamp() int64        { return 0 }
func (o *vOut) GetBytes() []byte         { return o.blk.GetBytes() }
func (o *vOut) GetHeight() uint64        { return o.blk.H }
func (*vOut) GetContext() *block.Context { return nil }
func (o *vOut) String() string           { return fOut(o) }

type vAcc struct {
	blk *vBlk
	st  []uint64
}

func (o *vAcc) GetID() ids.ID            { return o.blk.GetID() }
func (o *vAcc) GetParent() ids.ID        { return o.blk.GetParent() }
func (*vAcc) GetTimestamp() int64        { return 0 }
func (o *vAcc) GetBytes() []byte         { return o.blk.GetBytes() }
func (o *vAcc) GetHeight() uint64        { return o.blk.H }
func (*vAcc) GetContext() *block.Context { return nil }
func (o *vAcc) String() string           { return fAcc(o) }

func b01(b bool) string {
	if b {
		return "1"
	}
	return "0"
}
func fBlk(b *vBlk) string {
	if b.C != nil {
		return fmt.Sprintf("B(%d,%d,%d,%s,c%d)", b.N, b.P, b.H, b01(b.Inv), *b.C)
	}
	return fmt.Sprintf("B(%d,%d,%d,%s)", b.N, b.P, b.H, b01(b.Inv))
}
func fSt(l []uint64) string {
	if len(l) == 0 {
		return "-"
	}
	s := make([]string, len(l))
	for i, v := range l {
		s[i] = strconv.FormatUint(v, 10)
	}
	return strings.Join(s, ".")
}
func fOut(o *vOut) string {
	if o == nil {
		return "nil"
	}
	return fmt.Sprintf("O(%d;%s)", o.blk.N, fSt(o.st))
}
func fAcc(a *vAcc) string {
	if a == nil {
		return "nil"
	}
	return fmt.Sprintf("A(%d;%s)", a.blk.N, fSt(a.st))
}

type vSB = StatefulBlock[*vBlk, *vOut, *vAcc]

func fObj(o *vSB) string {
	return fmt.Sprintf("%s v=%s a=%s o=%s acc=%s", fBlk(o.Input), b01(o.verified), b01(o.accepted), fOut(o.Output), fAcc(o.Accepted))
}

type vEvent struct {
	kind  string // P Bd V Ac nV nA nR npA npR
	po    *vOut
	b     *vBlk
	res   *vOut
	pa    *vAcc
	a     *vAcc
	async bool
}

func (e vEvent) String() string {
	switch e.kind {
	case "P":
		return "P:" + fBlk(e.b)
	case "Bd":
		return "Bd:" + fOut(e.po) + "=>" + fOut(e.res)
	case "V":
		return "V:" + fOut(e.po) + "," + fBlk(e.b) + "=>" + fOut(e.res)
	case "Ac":
		return "Ac:" + fAcc(e.pa) + "," + fOut(e.po) + "=>" + fAcc(e.a)
	case "nV":
		return "nV:" + fOut(e.res)
	case "nA":
		return "nA:" + fAcc(e.a)
	case "nR":
		return "nR:" + fOut(e.res)
	case "npA":
		return "npA:" + fBlk(e.b)
	default:
		return "npR:" + fBlk(e.b)
	}
}

// key for canonical ordering of the verifyProcessingBlocks phase
func (e vEvent) hk() (uint64, uint64) {
	if e.kind == "V" {
		return e.b.H, e.b.N
	}
	if e.res != nil {
		return e.res.blk.H, e.res.blk.N
	}
	return 0, 0
}

type vParser struct{ x *sx }

func (p vParser) ParseBlock(_ context.Context, bs []byte) (*vBlk, error) {
	b := &vBlk{reg: p.x.reg}
	if err := json.Unmarshal(bs, b); err != nil {
		return nil, err
	}
	return b, nil
}

// index wrapper: a failing parent lookup by the accepter goroutine would panic the process;
// record it as a crash of the sequence instead.
type vIndex struct {
	*chainindex.ChainIndex[*vBlk]
	x *sx
}

func (i *vIndex) GetBlock(ctx context.Context, id ids.ID) (*vBlk, error) {
	b, err := i.ChainIndex.GetBlock(ctx, id)
	if err != nil && (i.x.awaiting.Load() || i.x.draining.Load()) {
		i.x.crashedFlag.Store(true)
		return &vBlk{N: vNil - 1, P: vNil - 1, reg: i.x.reg}, nil
	}
	return b, err
}

type vChain struct {
	x      *sx
	g      *vBlk
	ready  bool
	window uint64
	nextN  uint64
}

func (c *vChain) Initialize(ctx context.Context, in ChainInput, vm *VM[*vBlk, *vOut, *vAcc]) (ChainIndex[*vBlk], *vOut, *vAcc, bool, error) {
	ci, err := chainindex.New[*vBlk](ctx, in.SnowCtx.Log, prometheus.NewRegistry(),
		chainindex.Config{AcceptedBlockWindow: c.window, BlockCompactionFrequency: 32}, vParser{c.x}, memdb.New())
	if err != nil {
		return nil, nil, nil, false, err
	}
	if err := ci.UpdateLastAccepted(ctx, c.g); err != nil {
		return nil, nil, nil, false, err
	}
	x := c.x
	vm.AddVerifiedSub(event.SubscriptionFunc[*vOut]{NotifyF: func(_ context.Context, o *vOut) error { x.log(vEvent{kind: "nV", res: o}); return nil }})
	vm.AddAcceptedSub(event.SubscriptionFunc[*vAcc]{NotifyF: func(_ context.Context, a *vAcc) error { x.log(vEvent{kind: "nA", a: a}); return nil }})
	vm.AddRejectedSub(event.SubscriptionFunc[*vOut]{NotifyF: func(_ context.Context, o *vOut) error { x.log(vEvent{kind: "nR", res: o}); return nil }})
	vm.AddPreReadyAcceptedSub(event.SubscriptionFunc[*vBlk]{NotifyF: func(_ context.Context, b *vBlk) error { x.log(vEvent{kind: "npA", b: b}); return nil }})
	vm.AddPreRejectedSub(event.SubscriptionFunc[*vBlk]{NotifyF: func(_ context.Context, b *vBlk) error { x.log(vEvent{kind: "npR", b: b}); return nil }})
	st := []uint64{c.g.N}
	return &vIndex{ci, x}, &vOut{c.g, st}, &vAcc{c.g, st}, c.ready, nil
}

func (*vChain) SetConsensusIndex(*ConsensusIndex[*vBlk, *vOut, *vAcc]) {}

func (c *vChain) BuildBlock(_ context.Context, bctx *block.Context, parent *vOut) (*vBlk, *vOut, error) {
	if parent == nil {
		c.x.log(vEvent{kind: "Bd"})
		return nil, nil, errors.New("verif: build on nil parent")
	}
	b := &vBlk{N: c.nextN, P: parent.blk.N, H: parent.blk.H + 1}
	if bctx != nil {
		k := bctx.PChainHeight
		b.C = &k
	}
	if rb := c.x.reg.register(b); rb != nil {
		b = rb
	} else {
		b.reg = c.x.reg
		c.x.regConflict = true
	}
	o := &vOut{b, append(append([]uint64{}, parent.st...), b.N)}
	c.x.log(vEvent{kind: "Bd", po: parent, res: o})
	return b, o, nil
}

func (c *vChain) ParseBlock(_ context.Context, bs []byte) (*vBlk, error) {
	b := &vBlk{}
	if err := json.Unmarshal(bs, b); err != nil {
		return nil, err
	}
	b.reg = c.x.reg
	c.x.log(vEvent{kind: "P", b: b})
	return b, nil
}

func (c *vChain) VerifyBlock(_ context.Context, parent *vOut, b *vBlk) (*vOut, error) {
	if c.x.pauseArmed.CompareAndSwap(true, false) {
		close(c.x.paused)
		<-c.x.resume
	}
	if b.Inv {
		c.x.log(vEvent{kind: "V", po: parent, b: b})
		return nil, errVInvalid
	}
	st := []uint64{vNil}
	if parent != nil {
		st = parent.st
	}
	o := &vOut{b, append(append([]uint64{}, st...), b.N)}
	c.x.log(vEvent{kind: "V", po: parent, b: b, res: o})
	return o, nil
}

func (c *vChain) AcceptBlock(_ context.Context, pa *vAcc, o *vOut) (*vAcc, error) {
	x := c.x
	async := !x.inSync.Load()
	if async && !x.draining.Load() {
		x.arrivedCh <- struct{}{}
		<-x.tokenCh
	}
	var a *vAcc
	if o != nil {
		a = &vAcc{o.blk, o.st}
	} else {
		a = &vAcc{&vBlk{N: vNil, P: vNil, reg: x.reg}, nil}
	}
	x.log(vEvent{kind: "Ac", pa: pa, po: o, a: a, async: async})
	return a, nil
}

// ---------------------------------------------------------------- engine tracker (mirrors Lean Eng / pre / upd)

type vEng struct {
	processing []int
	lastAcc    *vBlk
	decided    map[uint64]bool
	accepts    []*vBlk
	rejects    []*vBlk
	syncing    bool
	synced     bool
	syncChain  []*vBlk
	// extras for the oracle
	readyAccepts []*vSB
	acceptedAt   map[uint64]*vBlk // height -> accepted block
	acceptedNum  map[uint64]*vBlk
	rejectedNum  map[uint64]bool
}

// ---------------------------------------------------------------- executor

type sx struct {
	t   *testing.T
	r   *verifh.Run
	ctx context.Context
	vm  *VM[*vBlk, *vOut, *vAcc]
	ch  *vChain
	reg *vReg

	objs []*vSB
	hOf  map[*vSB]int

	mu     sync.Mutex
	events []vEvent

	arrivedCh                               chan struct{}
	tokenCh                                 chan struct{}
	draining, inSync, awaiting, crashedFlag atomic.Bool
	queued, arrived, finished               int
	dead                                    bool
	pauseArmed                              atomic.Bool
	paused, resume                          chan struct{}
	finishFailed                            bool
	regConflict                             bool

	window  uint64
	prefNum uint64
	eng     vEng
	broken  bool // EngineOK violated or sequence crashed: oracle suspended

	// oracle state
	produced   map[string]bool
	expectN    *vEvent
	asyncAc    int
	acSeen     map[uint64]bool
	lastAcH    int64
	everSynced bool
	failedSet  map[uint64]bool // processing blocks unverified right after finish
	feats      map[string]bool
	nops       int
}

func (x *sx) log(e vEvent) {
	x.mu.Lock()
	x.events = append(x.events, e)
	x.mu.Unlock()
}

func (x *sx) take() []vEvent {
	x.mu.Lock()
	ev := x.events
	x.events = nil
	x.mu.Unlock()
	return ev
}

func (x *sx) handle(b *vSB) int {
	if h, ok := x.hOf[b]; ok {
		return h
	}
	h := len(x.objs)
	x.objs = append(x.objs, b)
	x.hOf[b] = h
	return h
}

func (x *sx) feat(r *verifh.Run, f string) {
	if !x.feats[f] {
		x.feats[f] = true
	}
	r.Count("feat:" + f)
}

func (x *sx) shutdown() {
	if x == nil || x.vm == nil {
		return
	}
	x.draining.Store(true)
	close(x.tokenCh)
	done := make(chan struct{})
	go func() { _ = x.vm.Shutdown(context.Background()); close(done) }()
	select {
	case <-done:
	case <-time.After(20 * time.Second):
		x.r.Violation("accepter-hang", "VM shutdown did not finish")
	}
}

func newSeq(t *testing.T, r *verifh.Run, c, p int, w uint64, g *vBlk, ready bool) *sx {
	x := &sx{t: t, r: r, ctx: context.Background(), hOf: map[*vSB]int{}, window: w,
		reg:       &vReg{byN: map[uint64]*vBlk{}, nOf: map[ids.ID]uint64{}},
		arrivedCh: make(chan struct{}, 4096), tokenCh: make(chan struct{}),
		produced: map[string]bool{}, acSeen: map[uint64]bool{}, feats: map[string]bool{}, lastAcH: -1}
	g = x.reg.register(g)
	x.ch = &vChain{x: x, g: g, ready: ready, window: w}
	vm := NewVM[*vBlk, *vOut, *vAcc]("verif", x.ch)
	snowCtx := snowtest.Context(t, ids.GenerateTestID())
	snowCtx.ChainDataDir = t.TempDir()
	cfg, _ := json.Marshal(map[string]any{SnowVMConfigKey: VMConfig{ParsedBlockCacheSize: p, AcceptedBlockWindowCache: c}})
	toEngine := make(chan common.Message, 1)
	if err := vm.Initialize(x.ctx, snowCtx, nil, nil, nil, cfg, toEngine, nil, &enginetest.Sender{T: t}); err != nil {
		t.Fatalf("initialize: %v", err)
	}
	x.vm = vm
	x.handle(vm.lastAcceptedBlock)
	x.prefNum = g.N
	x.eng = vEng{lastAcc: g, decided: map[uint64]bool{g.N: true}, syncing: !ready,
		acceptedAt: map[uint64]*vBlk{g.H: g}, acceptedNum: map[uint64]*vBlk{g.N: g}, rejectedNum: map[uint64]bool{}}
	if !ready {
		x.eng.syncChain = []*vBlk{g}
		x.everSynced = true
	}
	x.produced[fOut(&vOut{g, []uint64{g.N}})] = ready
	return x
}

func (x *sx) pending() int {
	if x.dead {
		return x.queued - x.arrived + 1 // the model keeps the block whose parent lookup failed in the queue
	}
	return x.queued - x.finished
}

func (x *sx) queueLen() int {
	if x.dead {
		return x.queued - x.arrived + 1
	}
	return x.queued - x.arrived
}

func (x *sx) procNums() map[uint64]int {
	m := map[uint64]int{}
	for _, p := range x.eng.processing {
		m[x.objs[p].Input.N] = p
	}
	return m
}

func (x *sx) inProcessing(h int) bool {
	for _, p := range x.eng.processing {
		if p == h {
			return true
		}
	}
	return false
}

func (x *sx) prefOK(id uint64) bool {
	if id == x.eng.lastAcc.N {
		return true
	}
	_, ok := x.procNums()[id]
	return ok
}

// pre mirrors Lean `pre`.
func (x *sx) pre(f []string) bool {
	e := &x.eng
	hArg := func() (int, *vBlk, bool) {
		h, err := strconv.Atoi(f[1])
		if err != nil || h < 0 {
			return 0, nil, false
		}
		if h >= len(x.objs) {
			// Lean: (s.obj h) of an unallocated handle is the default object (all-zero block)
			return h, &vBlk{}, false
		}
		return h, x.objs[h].Input, true
	}
	switch f[0] {
	case "build":
		return x.prefOK(x.prefNum)
	case "verify":
		h, b, ok := hArg()
		if !ok || x.inProcessing(h) || e.decided[b.N] {
			return false
		}
		pn := x.procNums()
		if _, dup := pn[b.N]; dup {
			return false
		}
		if b.P == e.lastAcc.N && b.H == e.lastAcc.H+1 {
			return true
		}
		for _, p := range e.processing {
			pb := x.objs[p].Input
			if pb.N == b.P && b.H == pb.H+1 {
				return true
			}
		}
		return false
	case "accept":
		h, b, ok := hArg()
		if !ok || !x.inProcessing(h) {
			return false
		}
		return b.P == e.lastAcc.N && b.H == e.lastAcc.H+1 && !b.Inv && (x.window == 0 || uint64(x.pending()+1) < x.window)
	case "reject":
		h, b, ok := hArg()
		if !ok || !x.inProcessing(h) {
			return false
		}
		_, pp := x.procNums()[b.P]
		return b.P != e.lastAcc.N && !pp
	case "pref":
		return x.prefOK(verifh.U(f[1]))
	case "start":
		b := &vBlk{N: verifh.U(f[1]), P: verifh.U(f[2]), H: verifh.U(f[3]), Inv: f[4] == "1"}
		same := b.same(e.lastAcc)
		inflight := !x.dead && x.arrived > x.finished
		return !e.syncing && !e.synced && len(e.processing) == 0 && x.queueLen() == 0 && !inflight && !b.Inv &&
			(same || b.H > e.lastAcc.H)
	case "finish":
		if !e.syncing {
			return true
		}
		for _, c := range e.syncChain {
			if c.same(&vBlk{N: verifh.U(f[1]), P: verifh.U(f[2]), H: verifh.U(f[3]), Inv: f[4] == "1"}) {
				// the blocks target+1..tip must still be in the index (retention)
				return x.window == 0 || e.lastAcc.H-c.H <= x.window
			}
		}
		return false
	}
	return true
}

func isUint(s string) bool { _, err := strconv.ParseUint(s, 10, 64); return err == nil }

func validLine(f []string) bool {
	n := map[string]int{"build": 2, "parse": 5, "verify": 2, "accept": 2, "reject": 2, "pref": 2, "get": 2, "geth": 2,
		"last": 1, "fin": 1, "start": 5, "finish": 6, "health": 1, "cila": 1, "cipref": 1}
	want, ok := n[f[0]]
	if !ok || len(f) != want {
		return false
	}
	lim := len(f)
	if f[0] == "finish" {
		lim = 5
		if f[5] != "-" {
			for _, p := range strings.Split(f[5], ".") {
				if !isUint(p) {
					return false
				}
			}
		}
	}
	for i := 1; i < lim; i++ {
		if !isUint(f[i]) {
			return false
		}
		if (f[0] == "parse" || f[0] == "start" || f[0] == "finish") && i == 4 && f[i] != "0" && f[i] != "1" {
			return false
		}
	}
	return true
}

func (x *sx) waitArrival() {
	x.awaiting.Store(true)
	select {
	case <-x.arrivedCh:
		x.arrived++
	case <-time.After(10 * time.Second):
		x.r.Violation("accepter-hang", "accepter did not reach AcceptBlock within 10s")
		x.dead = true
	}
}

// autoDeq: the idle accepter immediately receives the next queued block.
func (x *sx) autoDeq() string {
	defer x.awaiting.Store(false)
	if x.dead {
		return ""
	}
	if x.arrived == x.finished && x.queued > x.arrived {
		x.waitArrival()
		if x.crashedFlag.Load() {
			x.dead = true
			x.broken = true
			return " CRASH"
		}
	}
	return ""
}

func (x *sx) violation(key, format string, a ...any) {
	if x.broken {
		return
	}
	x.r.Violation(key, format, a...)
}

// run executes one (non-init) op line and returns the canonical output.
func (x *sx) run(line string) string {
	f := verifh.Fields(line)
	// ops carrying a P-Chain context: parsec n p h inv k | verifyc h k | buildc n k
	var ctxArg *uint64
	if len(f) > 0 {
		if base, ok := map[string]string{"parsec": "parse", "verifyc": "verify", "buildc": "build"}[f[0]]; ok {
			if len(f) < 3 || !isUint(f[len(f)-1]) {
				return "bad-op"
			}
			k := verifh.U(f[len(f)-1])
			ctxArg = &k
			f = append([]string{base}, f[1:len(f)-1]...)
		}
	}
	if len(f) == 0 || !validLine(f) {
		return "bad-op"
	}
	// block-number consistency (model ids are numbers)
	var argBlk *vBlk
	if f[0] == "parse" || f[0] == "start" || f[0] == "finish" {
		nb := &vBlk{N: verifh.U(f[1]), P: verifh.U(f[2]), H: verifh.U(f[3]), Inv: f[4] == "1"}
		if f[0] == "parse" {
			nb.C = ctxArg
		}
		argBlk = x.reg.register(nb)
		if argBlk == nil {
			return "bad-op"
		}
	}
	x.nops++
	okE := x.pre(f)
	eng := ""
	if !okE {
		eng = " !eng"
		x.broken = true
		x.r.Count("eng-violations")
	}
	res, info, crash := "", "", ""
	var ev []vEvent
	if x.dead {
		res = "err:dead"
		if f[0] == "verify" || f[0] == "accept" || f[0] == "reject" {
			if h, _ := strconv.Atoi(f[1]); h < len(x.objs) {
				info = " " + fObj(x.objs[h])
			}
		}
		return res + info + eng
	}
	vm := x.vm
	wasReady := vm.ready
	var hobj *vSB
	hIdx := -1
	if f[0] == "verify" || f[0] == "accept" || f[0] == "reject" {
		h, _ := strconv.Atoi(f[1])
		if h >= len(x.objs) {
			return "err:bad-handle" + eng
		}
		hobj, hIdx = x.objs[h], h
	}
	retHandle := func(b *vSB, err error) string {
		if err != nil {
			if errors.Is(err, database.ErrNotFound) {
				return "err:notfound"
			}
			return "err:other"
		}
		_, known := x.hOf[b]
		h := x.handle(b)
		if !known && !b.verified && (f[0] == "get" || f[0] == "geth") {
			x.feat(x.r, "evicted-lookup")
		}
		return fmt.Sprintf("h=%d %s", h, fObj(b))
	}
	switch f[0] {
	case "build":
		x.ch.nextN = verifh.U(f[1])
		var b *vSB
		var err error
		if ctxArg != nil {
			b, err = vm.BuildBlockWithContext(x.ctx, &block.Context{PChainHeight: *ctxArg})
		} else {
			b, err = vm.BuildBlock(x.ctx)
		}
		switch {
		case err == nil:
			res = retHandle(b, nil)
		case strings.Contains(err.Error(), "failed to get preferred block"):
			res = "err:notfound"
		default:
			res = "err:build"
		}
		if x.regConflict {
			x.broken = true
		}
	case "parse":
		b, err := vm.ParseBlock(x.ctx, argBlk.GetBytes())
		res = retHandle(b, err)
	case "verify":
		wasVerified := hobj.verified
		var err error
		if ctxArg != nil {
			err = hobj.VerifyWithContext(x.ctx, &block.Context{PChainHeight: *ctxArg})
		} else {
			err = hobj.Verify(x.ctx)
		}
		switch {
		case err == nil:
			res = "ok"
			x.eng.processing = append(x.eng.processing, hIdx)
			if wasVerified && wasReady {
				x.feat(x.r, "verify-built-or-verified")
			}
		case errors.Is(err, errMismatchedPChainContext):
			res = "err:ctx"
			x.feat(x.r, "ctx-mismatch")
		case errors.Is(err, errParentFailedVerification):
			res = "err:parent"
		case errors.Is(err, errVInvalid):
			res = "err:invalid"
			x.feat(x.r, "invalid")
		case errors.Is(err, database.ErrNotFound):
			res = "err:notfound"
		default:
			res = "err:other"
		}
		ev = x.take()
		// oracle: a Verify that returns an error must not have produced a verified notification, nor
		// a successful inner VerifyBlock, nor a verified wrapper block, nor a processing entry
		if err != nil {
			for _, e := range ev {
				if e.kind == "nV" || (e.kind == "V" && e.res != nil) {
					x.violation("verify-failed-but-notified", "Verify of %s returned %v but emitted %s", fBlk(hobj.Input), err, e.String())
				}
			}
			if hobj.verified && !wasVerified {
				x.violation("verify-failed-but-notified", "Verify of %s returned %v but the block is now verified", fBlk(hobj.Input), err)
			}
			vm.verifiedL.RLock()
			_, inVB := vm.verifiedBlocks[hobj.ID()]
			vm.verifiedL.RUnlock()
			if _, p := x.procNums()[hobj.Input.N]; inVB && !p {
				x.violation("verify-failed-but-processing", "Verify of %s returned %v but the block is in verifiedBlocks", fBlk(hobj.Input), err)
			}
		}
		// oracle: notifications of this decision
		if err == nil && wasReady && !wasVerified {
			if len(ev) != 2 || ev[0].kind != "V" || ev[1].kind != "nV" || ev[1].res != hobj.Output {
				x.violation("notification-mismatch", "verify of %s: events %v", fBlk(hobj.Input), ev)
			}
		} else if err == nil && len(ev) != 0 {
			x.violation("notification-mismatch", "skipped verification of %s emitted %v", fBlk(hobj.Input), ev)
		}
		info = " " + fObj(hobj)
	case "accept":
		if wasReady && x.queueLen() >= acceptedQueueSize {
			res = "err:would-block"
			info = " " + fObj(hobj)
			break
		}
		x.awaiting.Store(true)
		x.reg.gate.Lock()
		err := hobj.Accept(x.ctx)
		x.reg.gate.Unlock()
		switch {
		case err == nil:
			res = "ok"
			b := hobj.Input
			e := &x.eng
			e.processing = removeInt(e.processing, hIdx)
			e.lastAcc = b
			e.decided[b.N] = true
			e.accepts = append(e.accepts, b)
			e.acceptedAt[b.H] = b
			e.acceptedNum[b.N] = b
			if e.syncing {
				e.syncChain = append(e.syncChain, b)
			}
			if e.rejectedNum[b.N] {
				x.violation("rejected-then-accepted", "accept of rejected %s", fBlk(b))
			}
			if wasReady {
				x.queued++
				e.readyAccepts = append(e.readyAccepts, hobj)
				if x.queued-x.finished >= 3 {
					x.feat(x.r, "queue-lag>=3")
				}
			}
		case errors.Is(err, errParentFailedVerification):
			res = "err:unverified"
		default:
			res = "err:index"
		}
		ev = x.take()
		if err == nil {
			if wasReady && len(ev) != 0 {
				x.violation("notification-mismatch", "ready accept emitted %v synchronously", ev)
			}
			if !wasReady && (len(ev) != 1 || ev[0].kind != "npA" || ev[0].b.N != hobj.Input.N) {
				x.violation("notification-mismatch", "pre-ready accept of %s: events %v", fBlk(hobj.Input), ev)
			}
		}
		info = " " + fObj(hobj)
		crash = x.autoDeq()
	case "reject":
		wasVerified := hobj.verified
		err := hobj.Reject(x.ctx)
		res = "ok"
		if err != nil {
			res = "err:other"
		}
		b := hobj.Input
		e := &x.eng
		e.processing = removeInt(e.processing, hIdx)
		e.decided[b.N] = true
		e.rejects = append(e.rejects, b)
		e.rejectedNum[b.N] = true
		ev = x.take()
		if x.acSeen[b.N] || e.acceptedNum[b.N] != nil {
			x.violation("rejected-then-accepted", "reject of accepted %s", fBlk(b))
		}
		vm.verifiedL.RLock()
		_, still := vm.verifiedBlocks[hobj.ID()]
		vm.verifiedL.RUnlock()
		if still {
			x.violation("rejected-block-still-served", "%s is still in verifiedBlocks after Reject", fBlk(b))
		}
		if wasVerified {
			if len(ev) != 1 || ev[0].kind != "nR" || ev[0].res != hobj.Output {
				x.violation("notification-mismatch", "reject of verified %s: events %v", fBlk(b), ev)
			}
		} else if len(ev) != 1 || ev[0].kind != "npR" || ev[0].b.N != b.N {
			x.violation("notification-mismatch", "reject of unverified %s: events %v", fBlk(b), ev)
		}
		info = " " + fObj(hobj)
	case "pref":
		n := verifh.U(f[1])
		_ = vm.SetPreference(x.ctx, x.reg.idOf(n))
		x.prefNum = n
		res = "ok"
	case "get":
		n := verifh.U(f[1])
		b, err := vm.GetBlock(x.ctx, x.reg.idOf(n))
		res = retHandle(b, err)
		if err == nil && x.eng.rejectedNum[n] && x.eng.acceptedNum[n] == nil {
			x.violation("rejected-block-still-served", "GetBlock(%d) serves %s after the engine rejected it", n, fObj(b))
		}
		if want := x.eng.acceptedNum[n]; want != nil && x.retained(want.H) {
			if err != nil || !b.Input.same(want) {
				x.violation("lookup-mismatch", "GetBlock(%d) = %s, accepted block is %s", n, res, fBlk(want))
			}
		}
	case "geth":
		hh := verifh.U(f[1])
		b, err := vm.GetBlockByHeight(x.ctx, hh)
		res = retHandle(b, err)
		if want := x.eng.acceptedAt[hh]; want != nil && x.retained(hh) {
			if err != nil || !b.Input.same(want) {
				x.violation("lookup-mismatch", "GetBlockByHeight(%d) = %s, accepted block is %s", hh, res, fBlk(want))
			}
		}
	case "last":
		id, _ := vm.LastAccepted(x.ctx)
		n := x.reg.numOf(id)
		res = fmt.Sprintf("id=%d", n)
		if n != x.eng.lastAcc.N {
			x.violation("lookup-mismatch", "LastAccepted = %d, engine accepted %d last", n, x.eng.lastAcc.N)
		}
	case "fin":
		if x.arrived == x.finished {
			res = "err:idle"
			if n := len(x.eng.readyAccepts); n > 0 && x.queued == x.finished {
				vm.metaLock.Lock()
				lp := vm.lastProcessedBlock
				vm.metaLock.Unlock()
				if lp != x.eng.readyAccepts[n-1] && !x.everSynced {
					x.violation("queue-not-drained", "accepter idle but last processed is not the last accepted block")
				}
			}
			break
		}
		blk := x.eng.readyAccepts[x.finished]
		x.awaiting.Store(true)
		x.tokenCh <- struct{}{}
		deadline := time.Now().Add(10 * time.Second)
		for {
			vm.metaLock.Lock()
			lp := vm.lastProcessedBlock
			vm.metaLock.Unlock()
			if lp == blk {
				break
			}
			if time.Now().After(deadline) {
				x.r.Violation("accepter-hang", "block %s not processed within 10s", fBlk(blk.Input))
				x.dead = true
				break
			}
			time.Sleep(20 * time.Microsecond)
		}
		x.finished++
		res = "ok"
		info = " " + fObj(blk)
		ev = x.take()
		if len(ev) != 2 || ev[0].kind != "Ac" || ev[1].kind != "nA" || ev[1].a != blk.Accepted {
			x.violation("notification-mismatch", "processing of %s: events %v", fBlk(blk.Input), ev)
		}
		if len(ev) > 0 && ev[0].kind == "Ac" && ev[0].pa == nil {
			x.feat(x.r, "nil-parent-accept")
		}
		crash = x.autoDeq()
	case "start":
		err := vm.StartStateSync(x.ctx, argBlk)
		if err != nil {
			res = "err:index"
			break
		}
		res = "ok"
		info = fmt.Sprintf(" h=%d", x.handle(vm.lastAcceptedBlock))
		e := &x.eng
		e.syncing = true
		e.lastAcc = argBlk
		e.decided[argBlk.N] = true
		e.syncChain = []*vBlk{argBlk}
		e.acceptedAt[argBlk.H] = argBlk
		e.acceptedNum[argBlk.N] = argBlk
		x.everSynced = true
	case "finish":
		st := []uint64{}
		if f[5] != "-" {
			for _, p := range strings.Split(f[5], ".") {
				st = append(st, verifh.U(p))
			}
		}
		out := &vOut{argBlk, st}
		x.produced[fOut(out)] = true // the synced state is handed in by the caller
		x.inSync.Store(true)
		err := vm.FinishStateSync(x.ctx, argBlk, out, &vAcc{argBlk, st})
		x.inSync.Store(false)
		ev = canonFinish(x.take())
		switch {
		case err == nil:
			res = "ok"
			la := vm.lastAcceptedBlock
			info = fmt.Sprintf(" h=%d %s", x.handle(la), fObj(la))
			x.oracleFinish(argBlk, st)
			x.eng.syncing, x.eng.synced = false, true
		case strings.Contains(err.Error(), "normal operation"):
			res = "err:ready"
			if len(ev) != 0 {
				x.violation("finish-twice-not-rejected", "finish while ready emitted %v", ev)
			}
		case strings.Contains(err.Error(), "reprocessing"):
			res = "err:reprocess"
			x.violation("finish-fatal-reprocess", "FinishStateSync fails while reprocessing to the tip: %v", err)
			x.finishFailed = true
		case strings.Contains(err.Error(), "duplicate health checker"):
			res = "err:duplicate-checker"
		case strings.Contains(err.Error(), "failed to fetch parent"):
			res = "err:parentfetch"
			// FinishStateSync failed fatally and the VM stays not ready. Classify: is there a processing
			// block whose parent the engine has already rejected (finish ran between the rejects of a
			// transitive rejection; Reject does not take chainLock)?
			orphan := ""
			pn := x.procNums()
			for _, p := range x.eng.processing {
				b := x.objs[p].Input
				if _, ok := pn[b.P]; !ok && x.eng.rejectedNum[b.P] {
					orphan = fBlk(b)
				}
			}
			if orphan != "" {
				x.violation("finish-fatal-child-of-rejected-still-processing", "FinishStateSync fails (VM never ready): processing %s has a rejected parent", orphan)
			} else {
				x.violation("finish-fatal-parentfetch", "FinishStateSync fails with a parent fetch error")
			}
			x.finishFailed = true
		default:
			res = "err:other"
		}
	case "health":
		details, herr := vm.HealthCheck(x.ctx)
		m := details.(map[string]any)
		rd, _ := m[vmReadinessHealthChecker].(bool)
		un := "none"
		unN := -1
		if v, ok := m[unresolvedBlocksHealthChecker]; ok {
			unN = v.(int)
			un = strconv.Itoa(unN)
		}
		res = fmt.Sprintf("ready=%s unresolved=%s err=%s notready=%s unres=%s", b01(rd), un, b01(herr != nil),
			b01(errors.Is(herr, errVMNotReady)), b01(errors.Is(herr, errUnresolvedBlocks)))
		// oracle: the verdict itself — an error exactly while not ready or some block is unresolved
		if (herr != nil) != (!vm.ready || unN > 0) || errors.Is(herr, errVMNotReady) != !vm.ready || errors.Is(herr, errUnresolvedBlocks) != (unN > 0) || rd != vm.ready {
			x.violation("health-verdict-mismatch", "HealthCheck err=%v with ready=%v unresolved=%s", herr, vm.ready, un)
		}
		if x.failedSet != nil {
			want := 0
			for n := range x.failedSet {
				if !x.eng.rejectedNum[n] {
					want++
				}
			}
			if want > 0 {
				x.feat(x.r, "unresolved>0")
			}
			if want > 0 && (unN <= 0 || herr == nil) {
				x.violation("healthy-with-unrejected-invalid-block", "%d failed processing blocks not rejected, health reports %s", want, un)
			} else if want == 0 && unN > 0 {
				x.violation("unhealthy-forever", "every failed processing block has been rejected but health still reports %s unresolved", un)
			} else if want != unN {
				x.violation("unhealthy-count-mismatch", "expected %d unresolved, health reports %s", want, un)
			}
		}
	case "cila":
		a, err := vm.consensusIndex.GetLastAccepted(x.ctx)
		if err != nil {
			res = "err:unpopulated"
		} else {
			res = fAcc(a)
		}
	case "cipref":
		o, err := vm.consensusIndex.GetPreferredBlock(x.ctx)
		switch {
		case err == nil:
			res = fOut(o)
			x.wrongPreference("ConsensusIndex.GetPreferredBlock", o.blk.N)
		case strings.Contains(err.Error(), "has not been verified"):
			res = "err:unverified"
		default:
			res = "err:notfound"
		}
	}
	if ev == nil {
		ev = x.take()
	}
	x.oracleEvents(ev)
	out := res + info + crash + eng
	if len(ev) > 0 {
		ss := make([]string, len(ev))
		for i, e := range ev {
			ss[i] = e.String()
		}
		out += " | " + strings.Join(ss, " ")
	}
	return out
}

func removeInt(l []int, v int) []int {
	out := l[:0:0]
	done := false
	for _, e := range l {
		if e == v && !done {
			done = true
			continue
		}
		out = append(out, e)
	}
	return out
}

func canonFinish(ev []vEvent) []vEvent {
	k := -1
	for i, e := range ev {
		if e.kind == "Ac" || e.kind == "nA" {
			k = i
		}
	}
	tail := ev[k+1:]
	sort.SliceStable(tail, func(i, j int) bool {
		hi, ni := tail[i].hk()
		hj, nj := tail[j].hk()
		if hi != hj {
			return hi < hj
		}
		return ni < nj
	})
	return ev
}

// wrongPreference: the VM used block `got` as its preference although the engine's last
// SetPreference target (still last accepted or processing, i.e. a legal preference) is another block.
func (x *sx) wrongPreference(what string, got uint64) {
	if !x.prefOK(x.prefNum) || got == x.prefNum {
		return
	}
	if got == x.eng.lastAcc.N {
		if _, proc := x.procNums()[x.prefNum]; proc {
			x.violation("preference-reset-by-accept", "%s uses last accepted block %d, the engine's preference is the processing block %d (no SetPreference since)", what, got, x.prefNum)
			return
		}
	}
	x.violation("preference-mismatch", "%s uses block %d, the engine's last SetPreference target is %d", what, got, x.prefNum)
}

func (x *sx) retained(h uint64) bool {
	return x.window == 0 || h+x.window > x.eng.lastAcc.H
}

// oracleEvents evaluates the lifecycle claims on the callbacks/notifications of one op.
func (x *sx) oracleEvents(ev []vEvent) {
	for i := range ev {
		e := ev[i]
		if x.expectN != nil {
			w := x.expectN
			x.expectN = nil
			if (w.kind == "nV" && (e.kind != "nV" || e.res != w.res)) || (w.kind == "nA" && (e.kind != "nA" || e.a != w.a)) {
				x.violation("notification-mismatch", "expected %s, got %s", w.String(), e.String())
			}
			continue
		}
		if (e.kind == "V" && x.eng.rejectedNum[e.b.N]) || (e.kind == "nV" && e.res != nil && x.eng.rejectedNum[e.res.blk.N]) {
			x.violation("verified-notification-after-reject", "%s for a block the engine has rejected", e.String())
		}
		switch e.kind {
		case "V":
			if e.po == nil || e.po.blk.N != e.b.P || !x.produced[fOut(e.po)] {
				x.violation("verify-on-unverified-parent", "%s", e.String())
			}
			if e.res != nil {
				x.produced[fOut(e.res)] = true
				x.expectN = &vEvent{kind: "nV", res: e.res}
			}
		case "Bd":
			if e.po == nil && !x.everSynced {
				x.violation("build-on-unverified-parent", "%s", e.String())
			}
			if e.po != nil && !x.produced[fOut(e.po)] {
				x.violation("build-on-unverified-parent", "%s", e.String())
			}
			if e.po != nil {
				x.wrongPreference("inner BuildBlock", e.po.blk.N)
			}
			if e.res != nil {
				x.produced[fOut(e.res)] = true
			}
		case "Ac":
			x.expectN = &vEvent{kind: "nA", a: e.a}
			if e.po == nil || !x.produced[fOut(e.po)] {
				x.violation("accept-unverified", "%s", e.String())
				break
			}
			n := e.po.blk.N
			if x.acSeen[n] {
				x.violation("accept-twice", "%s", e.String())
			}
			x.acSeen[n] = true
			if x.eng.rejectedNum[n] {
				x.violation("rejected-then-accepted", "%s", e.String())
			}
			if x.lastAcH >= 0 && int64(e.po.blk.H) != x.lastAcH+1 && !x.everSynced {
				x.violation("accept-out-of-order", "height %d after %d", e.po.blk.H, x.lastAcH)
			}
			x.lastAcH = int64(e.po.blk.H)
			if e.async {
				if x.asyncAc >= len(x.eng.readyAccepts) || x.eng.readyAccepts[x.asyncAc].Input.N != n {
					x.violation("accept-out-of-order", "%d-th processed block is %d", x.asyncAc, n)
				}
				x.asyncAc++
			}
		case "nV", "nA":
			if !(e.kind == "nA" && x.nops == 0) {
				x.violation("notification-mismatch", "unexpected %s", e.String())
			}
		}
	}
}

// oracleFinish: C21 claims right after a successful FinishStateSync(target, st).
func (x *sx) oracleFinish(target *vBlk, st []uint64) {
	vm := x.vm
	want := append([]uint64{}, st...)
	found := false
	for _, b := range x.eng.syncChain {
		if found {
			want = append(want, b.N)
		}
		if b.N == target.N {
			found = true
		}
	}
	la := vm.lastAcceptedBlock
	if found {
		if len(want) > len(st) {
			x.feat(x.r, "finish-behind")
		} else {
			x.feat(x.r, "finish-at-tip")
		}
		ok := la.verified && la.accepted && la.Output != nil && la.Accepted != nil && la.Input.N == x.eng.lastAcc.N &&
			fSt(la.Output.st) == fSt(want) && fSt(la.Accepted.st) == fSt(want) && vm.lastProcessedBlock == la && vm.ready
		if ok {
			a, err := vm.consensusIndex.GetLastAccepted(x.ctx)
			ok = err == nil && a == la.Accepted
		}
		if !ok {
			x.violation("statesync-final-state-mismatch", "after finish at %s st=%s: last accepted %s, want state %s", fBlk(target), fSt(st), fObj(la), fSt(want))
		}
	}
	// processing blocks: verified iff itself and all processing ancestors are valid
	x.failedSet = map[uint64]bool{}
	pn := x.procNums()
	for _, p := range x.eng.processing {
		o := x.objs[p]
		valid := true
		cur := o.Input
		for steps := 0; steps < 10000; steps++ {
			if cur.Inv {
				valid = false
				break
			}
			ph, ok := pn[cur.P]
			if !ok {
				if cur.P != x.eng.lastAcc.N {
					valid = false // orphan (its parent was decided): cannot be verified
				}
				break
			}
			cur = x.objs[ph].Input
		}
		if o.verified != valid {
			x.violation("reverify-mismatch", "processing %s verified=%v, valid ancestry=%v", fBlk(o.Input), o.verified, valid)
		}
		if !o.verified {
			x.failedSet[o.Input.N] = true
		}
	}
}

// ---------------------------------------------------------------- generators

type vGen struct {
	r      *verifh.Run
	c21    bool
	sync   bool // this sequence is a state-sync history
	corpus []string
	seqs   int
	maxSeq int
	// per sequence
	step   int
	budget int
	phase  int
	nextN  uint64
	tail   []string
	gBlk   *vBlk
	syncAt int
	finAt  int
	did2   bool
}

func (g *vGen) fresh() uint64 { g.nextN++; return g.nextN }

func (g *vGen) initLine() string {
	rn := g.r.RNG
	caps := []int{1, 2, 3, 128}
	c, p := caps[rn.Intn(4)], caps[rn.Intn(4)]
	w := []uint64{0, 0, 50000, uint64(4 + rn.Intn(5))}[rn.Intn(4)]
	ready := 1
	// state-sync histories: all of C21's sequences and a sixth of C20's (reject / lookup / notification
	// behaviour of vacuously verified blocks belongs to the lifecycle too)
	g.sync = g.c21 || rn.Intn(6) == 0
	if g.sync {
		w = []uint64{0, 50000, uint64(2 + rn.Intn(7)), uint64(2 + rn.Intn(3))}[rn.Intn(4)]
		if rn.Intn(4) == 0 {
			ready = 0
		}
	}
	g.nextN = 100
	// the initial block is usually the genesis, sometimes a later block (restart / fresh index above the window)
	gh := uint64(0)
	if rn.Intn(4) == 0 {
		gh = uint64(1 + rn.Intn(12))
	}
	g.gBlk = &vBlk{N: 100, P: 99, H: gh}
	g.step, g.phase, g.tail, g.did2 = 0, 0, nil, false
	g.budget = 10 + rn.Intn(50)
	g.syncAt = rn.Intn(6)
	g.finAt = g.syncAt + 2 + rn.Intn(14)
	if ready == 0 {
		g.syncAt = -1
	}
	return fmt.Sprintf("init %d %d %d 100 99 %d %d", c, p, w, gh, ready)
}

func blkLine(op string, b *vBlk) string {
	if b.C != nil {
		return fmt.Sprintf("%sc %d %d %d %s %d", op, b.N, b.P, b.H, b01(b.Inv), *b.C)
	}
	return fmt.Sprintf("%s %d %d %d %s", op, b.N, b.P, b.H, b01(b.Inv))
}

// next returns the next op line ("" = done). x is the executor state of the current sequence.
func (g *vGen) next(x *sx) string {
	if len(g.corpus) > 0 {
		l := g.corpus[0]
		g.corpus = g.corpus[1:]
		return l
	}
	if x == nil || g.phase == 9 {
		if g.seqs >= g.maxSeq {
			return ""
		}
		g.seqs++
		return g.initLine()
	}
	rn := g.r.RNG
	if len(g.tail) > 0 {
		l := g.tail[0]
		g.tail = g.tail[1:]
		if len(g.tail) == 0 && g.phase == 8 {
			g.phase = 9
		}
		return l
	}
	g.step++
	if x.dead {
		g.phase = 9
		return "last"
	}
	if x.finishFailed {
		g.phase = 8
		g.tail = []string{"cila", "last"}
		return "health"
	}
	// state-sync script points
	if g.sync {
		e := &x.eng
		if !e.syncing && !e.synced && g.step > g.syncAt && g.syncAt >= 0 {
			if x.pending() > 0 {
				return "fin"
			}
			for _, p := range e.processing { // state sync starts with nothing in consensus
				if x.pre([]string{"reject", strconv.Itoa(p)}) {
					return "reject " + strconv.Itoa(p)
				}
			}
			if len(e.processing) > 0 {
				for _, p := range e.processing {
					if x.pre([]string{"accept", strconv.Itoa(p)}) {
						return "accept " + strconv.Itoa(p)
					}
				}
				g.phase = 8
				g.tail = []string{"last", "health"}
				return "health"
			}
			t := e.lastAcc
			if rn.Intn(3) > 0 {
				hgt := e.lastAcc.H + 1 + uint64(rn.Intn(3))
				par := e.lastAcc.N
				if hgt > e.lastAcc.H+1 {
					par = g.fresh() // unknown parent
				}
				t = &vBlk{N: g.fresh(), P: par, H: hgt}
			}
			return blkLine("start", t)
		}
		if e.syncing && g.step > g.finAt {
			t := e.syncChain[rn.Intn(len(e.syncChain))]
			if rn.Intn(3) == 0 {
				t = e.syncChain[len(e.syncChain)-1]
			}
			if x.window != 0 && e.lastAcc.H-t.H > x.window && rn.Intn(10) > 0 {
				// target+1..tip must still be indexed; 1 in 10 keeps the out-of-retention target (flagged !eng)
				for _, c := range e.syncChain {
					if e.lastAcc.H-c.H <= x.window {
						t = c
						break
					}
				}
			}
			st := []uint64{}
			for i := rn.Intn(3); i > 0; i-- {
				st = append(st, uint64(7000+rn.Intn(5)))
			}
			st = append(st, t.N)
			g.tail = []string{"health", "cila", "cipref", "last"}
			return blkLine("finish", t) + " " + fSt(st)
		}
		if e.synced && !g.did2 && g.step > g.finAt+4+rn.Intn(6) {
			g.did2 = true
			g.tail = []string{"health"}
			return blkLine("finish", e.lastAcc) + " 1.2"
		}
		if e.syncing && rn.Intn(100) < 35 { // keep the tip moving while syncing (finish behind the tip)
			for _, p := range e.processing {
				if x.pre([]string{"accept", strconv.Itoa(p)}) {
					return "accept " + strconv.Itoa(p)
				}
			}
		}
		if (e.syncing || e.synced) && rn.Intn(3) == 0 {
			return []string{"health", "cila", "cipref"}[rn.Intn(3)]
		}
	}
	if g.step > g.budget+g.finAt*b2i(g.sync) {
		// drain and final lookups
		if x.pending() > 0 {
			return "fin"
		}
		// reject whatever conflicts, then look everything up
		for _, p := range x.eng.processing {
			if x.pre([]string{"reject", strconv.Itoa(p)}) {
				g.tail = []string{"health"}
				return "reject " + strconv.Itoa(p)
			}
		}
		g.phase = 8
		g.tail = []string{"fin", "last", "cila", "cipref", "health"}
		nums := make([]uint64, 0)
		for n := range x.eng.acceptedNum {
			nums = append(nums, n)
		}
		sort.Slice(nums, func(i, j int) bool { return nums[i] < nums[j] })
		for _, n := range nums {
			g.tail = append(g.tail, fmt.Sprintf("get %d", n), fmt.Sprintf("geth %d", x.eng.acceptedNum[n].H))
		}
		return "fin"
	}
	return g.randomOp(x)
}

func b2i(b bool) int {
	if b {
		return 1
	}
	return 0
}

func (g *vGen) randomOp(x *sx) string {
	rn := g.r.RNG
	e := &x.eng
	// pending rejects have priority (the engine rejects conflicts right after an accept)
	if rn.Intn(100) < 85 {
		for _, p := range e.processing {
			if x.pre([]string{"reject", strconv.Itoa(p)}) {
				// often look the rejected block up / re-parse it right away
				switch rb := x.objs[p].Input; rn.Intn(4) {
				case 0:
					g.tail = []string{fmt.Sprintf("get %d", rb.N)}
				case 1:
					g.tail = []string{blkLine("parse", rb), fmt.Sprintf("get %d", rb.N)}
				}
				return "reject " + strconv.Itoa(p)
			}
		}
	}
	parents := []*vBlk{e.lastAcc}
	for _, p := range e.processing {
		parents = append(parents, x.objs[p].Input)
	}
	known := func() *vBlk {
		x.reg.mu.RLock()
		defer x.reg.mu.RUnlock()
		ns := make([]uint64, 0, len(x.reg.byN))
		for n := range x.reg.byN {
			ns = append(ns, n)
		}
		sort.Slice(ns, func(i, j int) bool { return ns[i] < ns[j] })
		return x.reg.byN[ns[rn.Intn(len(ns))]]
	}
	for try := 0; try < 20; try++ {
		switch k := rn.Intn(100); {
		case k < 12:
			// no locally built blocks before a planned state sync (a node that is about to sync has just booted)
			preSync := g.sync && !e.syncing && !e.synced
			if !preSync && x.pre([]string{"build"}) && (x.vm.ready || rn.Intn(4) == 0) {
				if !g.sync && rn.Intn(100) < 15 {
					return fmt.Sprintf("buildc %d %d", g.fresh(), 1+rn.Intn(2))
				}
				return fmt.Sprintf("build %d", g.fresh())
			}
		case k < 30:
			par := parents[rn.Intn(len(parents))]
			if rn.Intn(3) == 0 { // deepen: prefer the highest
				for _, q := range parents {
					if q.H > par.H {
						par = q
					}
				}
			}
			nb := &vBlk{N: g.fresh(), P: par.N, H: par.H + 1, Inv: rn.Intn(100) < 20}
			if !g.sync && rn.Intn(100) < 20 {
				k := uint64(1 + rn.Intn(2))
				nb.C = &k
			}
			return blkLine("parse", nb)
		case k < 36:
			x.feat(g.r, "reparse-known")
			return blkLine("parse", known())
		case k < 58:
			var c []int
			for h := range x.objs {
				if x.pre([]string{"verify", strconv.Itoa(h)}) {
					c = append(c, h)
				}
			}
			if len(c) > 0 {
				h := c[len(c)-1-rn.Intn(min(len(c), 3))]
				// the engine supplies the P-Chain context: usually the embedded one, sometimes none / another
				bc := x.objs[h].Input.C
				switch q := rn.Intn(100); {
				case bc != nil && q < 70:
					return fmt.Sprintf("verifyc %d %d", h, *bc)
				case bc != nil && q < 85:
					return fmt.Sprintf("verifyc %d %d", h, *bc+1)
				case bc == nil && q < 8 && !g.sync:
					return fmt.Sprintf("verifyc %d 1", h)
				}
				return "verify " + strconv.Itoa(h)
			}
		case k < 70:
			var c []int
			for _, p := range e.processing {
				if x.pre([]string{"accept", strconv.Itoa(p)}) && x.queueLen() < acceptedQueueSize {
					// never accept an object that is not verified once the VM is ready (fatal by design)
					if x.vm.ready && !x.objs[p].verified {
						continue
					}
					c = append(c, p)
				}
			}
			if len(c) > 0 {
				if len(c) > 1 {
					x.feat(g.r, "fork-choice")
				}
				if _, prefProc := x.procNums()[x.prefNum]; prefProc && x.vm.ready && rn.Intn(2) == 0 {
					// the preference is a processing block: after accepting (a prefix of its chain) keep building on it
					g.tail = []string{"cipref", fmt.Sprintf("build %d", g.fresh())}
				}
				return "accept " + strconv.Itoa(c[rn.Intn(len(c))])
			}
		case k < 76:
			par := parents[rn.Intn(len(parents))]
			if rn.Intn(2) == 0 { // the engine usually prefers the deepest processing block
				for _, q := range parents {
					if q.H > par.H {
						par = q
					}
				}
			}
			return fmt.Sprintf("pref %d", par.N)
		case k < 86:
			if x.pending() > 0 {
				return "fin"
			}
		case k < 90:
			return fmt.Sprintf("get %d", known().N)
		case k < 94:
			return fmt.Sprintf("geth %d", rn.Intn(int(e.lastAcc.H)+3))
		case k < 96:
			return "last"
		case k < 97:
			return "cila"
		case k < 98:
			return "cipref"
		default:
			return "health"
		}
	}
	return "last"
}

var corpusC20 = []string{
	// cache size 1: the accepted parent has left the cache when the accepter looks it up
	"init 1 1 0 100 99 0 1", "build 101", "verify 1", "accept 1", "fin", "last", "get 100", "geth 0", "geth 1", "cila", "cipref",
	// fork, accept the non-preferred branch, transitive rejects, lagging accepter
	"init 2 2 0 100 99 0 1", "build 101", "verify 1", "pref 101", "build 102", "verify 2", "parse 103 100 1 0", "verify 3",
	"parse 104 103 2 0", "verify 4", "parse 105 103 2 1", "verify 5", "parse 104 103 2 0", "accept 3", "reject 1", "reject 2", "pref 104",
	"accept 4", "fin", "get 100", "get 103", "geth 1", "fin", "fin", "last", "cila", "cipref", "health",
	// accepter parent lookup outside the index window: crash of the sequence
	"init 1 1 2 100 99 0 1", "build 101", "verify 1", "pref 101", "build 102", "verify 2", "pref 102", "build 103", "verify 3",
	"accept 1", "accept 2", "accept 3", "fin", "fin", "last", "verify 3", "health",
}

// fork rejected while syncing, then looked up / re-parsed / finish / health
var corpusSyncReject = []string{
	"init 2 2 0 100 99 0 1", "start 100 99 0 0", "parse 101 100 1 0", "verify 2", "parse 102 100 1 0", "verify 3", "accept 3", "reject 2",
	"get 101", "parse 101 100 1 0", "finish 102 100 1 0 102", "health", "get 101", "cila",
	"init 2 2 0 100 99 0 1", "start 100 99 0 0", "parse 101 100 1 0", "verify 2", "parse 102 100 1 0", "verify 3", "accept 3", "reject 2",
	"finish 100 99 0 0 100", "health", "get 101", "cila", "last",
}

// a preferred chain of three blocks of which only a prefix is accepted: BuildBlock / GetPreferredBlock keep
// using the engine's preference
var corpusPref = []string{
	"init 3 3 0 100 99 0 1", "build 101", "verify 1", "pref 101", "build 102", "verify 2", "pref 102", "build 103", "verify 3", "pref 103",
	"accept 1", "cipref", "build 104", "fin", "accept 2", "cipref", "build 105", "verify 5", "fin", "cipref", "last",
}

// P-Chain context supplied by the engine: none / mismatching / matching, parsed and built blocks
var corpusCtx = []string{
	"init 2 2 0 100 99 0 1", "parsec 101 100 1 0 1", "verifyc 1 2", "verify 1", "get 101", "parsec 101 100 1 0 1", "verifyc 1 1", "accept 1", "fin",
	"pref 101", "buildc 102 7", "verify 2", "verifyc 2 8", "verifyc 2 7", "parse 103 101 2 0", "verifyc 3 1", "verify 3", "cipref", "last",
}

var corpusC21 = []string{
	// finish at the original target
	"init 2 2 0 100 99 0 1", "start 100 99 0 0", "health", "parse 101 100 1 0", "verify 2", "pref 101", "accept 2", "cila",
	"finish 101 100 1 0 7.101", "health", "cila", "cipref", "parse 102 101 2 1", "verify 3", "parse 103 101 2 0", "verify 4", "accept 4", "fin", "cila",
	"finish 103 101 2 0 1", "health",
	// finish behind the tip, invalid processing descendants, health until rejected
	"init 2 2 0 100 99 0 1", "start 100 99 0 0", "parse 101 100 1 0", "verify 2", "accept 2", "parse 102 101 2 0", "verify 3", "accept 3",
	"parse 103 102 3 1", "verify 4", "parse 104 103 4 0", "verify 5", "parse 105 102 3 0", "verify 6", "pref 104", "health",
	"finish 100 99 0 0 100", "health", "cila", "cipref", "parse 106 103 4 0", "verify 8", "accept 6", "health", "reject 4", "health", "reject 5", "health", "fin", "cila", "last",
	// KNOWN FINDING witness: finish between the two rejects of a transitive rejection -> fatal error, never ready
	"init 2 2 0 100 99 0 1", "start 100 99 0 0", "parse 101 100 1 0", "verify 2", "parse 102 101 2 0", "verify 3", "parse 103 100 1 0", "verify 4",
	"accept 4", "reject 2", "finish 103 100 1 0 103", "health", "cila", "last",
	// finite index window: more than `window` blocks accepted while syncing, finish at the original target:
	// target+1 was pruned, reprocessing fails (outside EngineOK's retention condition: flagged !eng)
	"init 2 2 2 100 99 0 1", "start 100 99 0 0", "parse 101 100 1 0", "verify 2", "accept 2", "parse 102 101 2 0", "verify 3", "accept 3",
	"parse 103 102 3 0", "verify 4", "accept 4", "geth 1", "finish 100 99 0 0 100", "health", "cila",
	// same window, target within retention
	"init 2 2 2 100 99 5 1", "start 100 99 5 0", "parse 101 100 6 0", "verify 2", "accept 2", "parse 102 101 7 0", "verify 3", "accept 3",
	"parse 103 102 8 0", "verify 4", "accept 4", "geth 6", "finish 101 100 6 0 101", "health", "cila", "geth 5",
	// restart mid-sync (not ready at initialize)
	"init 3 3 0 100 99 0 0", "health", "cila", "parse 101 100 1 0", "verify 1", "accept 1", "finish 100 99 0 0 100", "cila", "health", "last",
}

func runSnow(t *testing.T, id string, c21 bool) {
	r := verifh.Start(id)
	defer r.Finish()
	lines := r.ReplayLines()
	g := &vGen{r: r, c21: c21}
	if c21 {
		g.corpus = append(append([]string{}, corpusC21...), corpusSyncReject...)
		g.maxSeq = r.N(300, 6000)
	} else {
		g.corpus = append(append(append([]string{}, corpusC20...), corpusSyncReject...), append(append([]string{}, corpusCtx...), corpusPref...)...)
		g.maxSeq = r.N(400, 8000)
	}
	var x *sx
	seqs := 0
	i := 0
	for {
		var line string
		if lines != nil {
			if i >= len(lines) {
				break
			}
			line = lines[i]
			i++
		} else {
			line = g.next(x)
			if line == "" {
				break
			}
		}
		f := verifh.Fields(line)
		if len(f) > 0 && f[0] == "init" {
			ok := len(f) == 8
			for j := 1; ok && j < 8; j++ {
				ok = isUint(f[j])
			}
			if ok && (verifh.U(f[1]) < 1 || verifh.U(f[1]) > 1<<20 || verifh.U(f[2]) > 1<<20 || (f[7] != "0" && f[7] != "1")) {
				ok = false
			}
			if !ok {
				r.Emit(line, "bad-op")
				continue
			}
			if x != nil {
				x.endSeq()
			}
			seqs++
			gb := &vBlk{N: verifh.U(f[4]), P: verifh.U(f[5]), H: verifh.U(f[6])}
			x = newSeq(t, r, int(verifh.U(f[1])), int(verifh.U(f[2])), verifh.U(f[3]), gb, f[7] == "1")
			ev := x.take()
			out := "ok " + fObj(x.objs[0])
			if len(ev) > 0 {
				ss := make([]string, len(ev))
				for k, e := range ev {
					ss[k] = e.String()
				}
				out += " | " + strings.Join(ss, " ")
			}
			if len(ev) != 1 || (f[7] == "1" && ev[0].kind != "nA") || (f[7] == "0" && ev[0].kind != "npA") {
				r.Violation("notification-mismatch", "startup notifications %v", ev)
			}
			r.Emit(line, out)
			continue
		}
		if x == nil {
			r.Emit(line, "bad-op")
			continue
		}
		r.Emit(line, x.run(line))
	}
	if x != nil {
		x.endSeq()
	}
	r.Extra("sequences", seqs)
}

func (x *sx) endSeq() {
	sig := make([]string, 0, len(x.feats))
	for f := range x.feats {
		sig = append(sig, f)
	}
	sort.Strings(sig)
	if len(sig) > 0 {
		x.r.Distinct(fmt.Sprintf("%s|acc=%d|rej=%d|objs=%d", strings.Join(sig, ","), len(x.eng.accepts), len(x.eng.rejects), len(x.objs)))
	}
	x.shutdown()
}

func TestVerifC20(t *testing.T) { runSnow(t, "C20", false) }
func TestVerifC21(t *testing.T) { runSnow(t, "C21", true) }


// ---------------------------------------------------------------- C21: Verify racing with the hand-over (oracle only)

// raceRound: state sync with `behind` blocks accepted while syncing and nproc vacuously verified
// processing blocks; FinishStateSync is paused inside its first inner VerifyBlock (it holds chainLock),
// meanwhile another goroutine calls Verify on a new block; then the hand-over is released.
// Claim checked: after the hand-over every block whose Verify returned nil is either really verified
// (inner VerifyBlock ran) or tracked by the unresolved-blocks health check.
func raceRound(t *testing.T, r *verifh.Run, f []string) string {
	nproc, invMask, childOf, candInv, behind := int(verifh.U(f[1])), verifh.U(f[2]), int(verifh.U(f[3])), f[4] == "1", int(verifh.U(f[5]))
	x := newSeq(t, r, 3, 128, 0, &vBlk{N: 100, P: 99, H: 0}, true)
	defer x.shutdown()
	x.take() // startup notification
	x.reg.touched = make(chan struct{}, 1)
	x.paused, x.resume = make(chan struct{}), make(chan struct{})
	x.run("start 100 99 0 0")
	next := uint64(100)
	tip := x.eng.lastAcc
	for i := 0; i < behind; i++ {
		next++
		x.run(blkLine("parse", &vBlk{N: next, P: tip.N, H: tip.H + 1}))
		x.run(fmt.Sprintf("verify %d", len(x.objs)-1))
		x.run(fmt.Sprintf("accept %d", len(x.objs)-1))
		tip = x.eng.lastAcc
	}
	// processing blocks: a chain hanging off the tip
	procs := []*vSB{}
	par := tip
	for i := 0; i < nproc; i++ {
		next++
		b := &vBlk{N: next, P: par.N, H: par.H + 1, Inv: invMask&(1<<uint(i)) != 0}
		x.run(blkLine("parse", b))
		x.run(fmt.Sprintf("verify %d", len(x.objs)-1))
		procs = append(procs, x.objs[len(x.objs)-1])
		par = b
	}
	// the candidate the engine verifies during the hand-over
	cp := tip
	if childOf > 0 && childOf <= len(procs) {
		cp = procs[childOf-1].Input
	}
	next++
	x.run(blkLine("parse", &vBlk{N: next, P: cp.N, H: cp.H + 1, Inv: candInv}))
	cand := x.objs[len(x.objs)-1]
	x.take()

	target := x.eng.syncChain[0]
	st := []uint64{target.N}
	x.pauseArmed.Store(true)
	x.inSync.Store(true)
	finDone, verDone := make(chan error, 1), make(chan error, 1)
	go func() { finDone <- x.vm.FinishStateSync(x.ctx, target, &vOut{target, st}, &vAcc{target, st}) }()
	select {
	case <-x.paused:
	case err := <-finDone: // no inner VerifyBlock happened (cannot be: the tip has a processing child)
		x.inSync.Store(false)
		return fmt.Sprintf("finish-not-paused err=%v", err)
	case <-time.After(10 * time.Second):
		r.Violation("handover-hang", "FinishStateSync neither paused nor returned")
		return "hang"
	}
	// FinishStateSync is inside verifyProcessingBlocks/reprocessing and holds chainLock
	x.reg.touchN.Store(cand.Input.N)
	go func() { verDone <- cand.Verify(x.ctx) }()
	early := false
	select {
	case <-x.reg.touched: // Verify got past its entry while the hand-over is in progress
		early = true
		time.Sleep(5 * time.Millisecond)
	case err := <-verDone:
		verDone <- err
		early = true
	case <-time.After(60 * time.Millisecond): // blocked on chainLock (expected)
	}
	x.reg.touchN.Store(0)
	close(x.resume)
	var ferr, verr error
	for i := 0; i < 2; i++ {
		select {
		case ferr = <-finDone:
		case verr = <-verDone:
		case <-time.After(10 * time.Second):
			r.Violation("handover-hang", "FinishStateSync / Verify did not return after the hand-over was released")
			return "hang"
		}
	}
	x.inSync.Store(false)
	ev := x.take()
	// inspection
	unresolved := map[ids.ID]bool{}
	nun := -1
	if hc, ok := x.vm.healthCheckers.Load(unresolvedBlocksHealthChecker); ok {
		u := hc.(*unresolvedBlockHealthCheck[*vBlk])
		u.lock.RLock()
		nun = u.unresolvedBlocks.Len()
		for _, p := range append(append([]*vSB{}, procs...), cand) {
			if u.unresolvedBlocks.Contains(p.ID()) {
				unresolved[p.ID()] = true
			}
		}
		u.lock.RUnlock()
	}
	innerVerified := map[uint64]bool{}
	for _, e := range ev {
		if e.kind == "V" && e.res != nil {
			innerVerified[e.b.N] = true
		}
	}
	if ferr == nil {
		held := append([]*vSB{}, procs...)
		if verr == nil {
			held = append(held, cand)
		}
		for _, p := range held {
			really := p.verified && innerVerified[p.Input.N]
			if !really && !unresolved[p.ID()] {
				r.Violation("vacuous-verify-after-handover", "after the hand-over %s (Verify returned nil) is neither really verified nor in the unresolved set (verify overlapped finish: early=%v)", fObj(p), early)
			}
		}
		// what the engine must get for the candidate once the VM is ready
		parentOK := cp == tip
		if !parentOK {
			parentOK = procs[childOf-1].verified
		}
		wantOK := parentOK && !candInv
		if x.vm.ready && (verr == nil) != wantOK && !unresolved[cand.ID()] {
			r.Violation("handover-verify-result", "Verify of %s during the hand-over returned %v, parent verified=%v", fBlk(cand.Input), verr, parentOK)
		}
	}
	r.Count(fmt.Sprintf("race:early=%v", early))
	return fmt.Sprintf("finish=%s verify=%s cand=[%s] unresolved=%d", verifh.Err(ferr), verifh.Err(verr), fObj(cand), nun)
}

func TestVerifC21Race(t *testing.T) {
	r := verifh.Start("C21")
	defer r.Finish()
	lines := r.ReplayLines()
	if lines == nil {
		// corpus: the plain scenario, then random shapes
		lines = []string{"race 1 0 1 0 0", "race 1 0 0 0 0", "race 2 1 2 0 1", "race 1 0 1 1 0"}
		for i := 0; i < r.N(30, 400); i++ {
			np := 1 + r.RNG.Intn(3)
			mask := uint64(0)
			if r.RNG.Intn(3) == 0 {
				mask = uint64(r.RNG.Intn(1 << uint(np)))
			}
			lines = append(lines, fmt.Sprintf("race %d %d %d %s %d", np, mask, r.RNG.Intn(np+1), b01(r.RNG.Intn(5) == 0), r.RNG.Intn(3)))
		}
	}
	for _, l := range lines {
		f := verifh.Fields(l)
		ok := len(f) == 6 && f[0] == "race"
		for i := 1; ok && i < 6; i++ {
			ok = isUint(f[i]) && verifh.U(f[i]) < 64
		}
		if !ok || verifh.U(f[1]) < 1 || verifh.U(f[1]) > 6 {
			r.Emit(l, "bad-op")
			continue
		}
		out := raceRound(t, r, f)
		if out != "hang" && out[:6] != "finish" {
			out = "bad-round"
		}
		r.Emit(l, out)
		r.Distinct(l)
	}
}
