package jsonrpc

import (
	"context"
	"encoding/json"
	"errors"
	"fmt"
	"net/http"
	"sort"
	"strconv"
	"strings"
	"testing"

	"github.com/ava-labs/avalanchego/database"
	"github.com/ava-labs/avalanchego/trace"

	"github.com/ava-labs/hypersdk/api"
	"github.com/ava-labs/hypersdk/chain"
	"github.com/ava-labs/hypersdk/chain/chaintest"
	"github.com/ava-labs/hypersdk/codec"
	"github.com/ava-labs/hypersdk/genesis"
	internalfees "github.com/ava-labs/hypersdk/internal/fees"
	"github.com/ava-labs/hypersdk/internal/verifh"
	"github.com/ava-labs/hypersdk/keys"
	"github.com/ava-labs/hypersdk/state"
	"github.com/ava-labs/hypersdk/state/tstate"
)

// C30 with the framework's test actions (arbitrary declared keys / reads / writes):
//
//	tstate <k=v,…|->
//	texec (K<k:perm,…> R<k,…> W<k=v,…> E<0|1>)+      JSON-RPC ExecuteActions
//	tsim  (…)+                                        JSON-RPC SimulateActions
//	ttx   (…)+                                        the same actions in a transaction
const c30tN = 6

type c30tVM struct {
	api.VM
	store  map[string][]byte
	rules  *genesis.Rules
	parser chain.Parser
}

func (*c30tVM) Tracer() trace.Tracer                 { return trace.Noop }
func (v *c30tVM) GetParser() chain.Parser            { return v.parser }
func (v *c30tVM) GetRuleFactory() chain.RuleFactory  { return &genesis.ImmutableRuleFactory{Rules: v.rules} }
func (*c30tVM) BalanceHandler() chain.BalanceHandler { return c30tBH{} }
func (v *c30tVM) ImmutableState(context.Context) (state.Immutable, error) {
	return state.ImmutableStorage(v.store), nil
}

func (v *c30tVM) ReadState(_ context.Context, ks [][]byte) ([][]byte, []error) {
	vals, errs := make([][]byte, len(ks)), make([]error, len(ks))
	for i, k := range ks {
		if b, ok := v.store[string(k)]; ok {
			vals[i] = b
		} else {
			errs[i] = database.ErrNotFound
		}
	}
	return vals, errs
}

// a balance handler that charges nothing and touches no key
type c30tBH struct{}

func (c30tBH) SponsorStateKeys(codec.Address) state.Keys                           { return state.Keys{} }
func (c30tBH) CanDeduct(context.Context, codec.Address, state.Immutable, uint64) error { return nil }
func (c30tBH) Deduct(context.Context, codec.Address, state.Mutable, uint64) error      { return nil }
func (c30tBH) AddBalance(context.Context, codec.Address, state.Mutable, uint64) error  { return nil }
func (c30tBH) GetBalance(context.Context, codec.Address, state.Immutable) (uint64, error) {
	return 0, nil
}

func c30tKey(i int) []byte { return keys.EncodeChunks([]byte{0x7, byte(i)}, 1) }

// value 0 is the EMPTY value: a non-nil zero-length slice, as merkledb returns for a key that
// exists with an empty value (legal: zero chunks)
func c30tVal(v int) []byte {
	if v == 0 {
		return []byte{}
	}
	return []byte{byte(v)}
}

func c30tList(s string) []string {
	if s == "-" || s == "" {
		return nil
	}
	return strings.Split(s, ",")
}

func c30tPair(s, sep string) (int, int, bool) {
	p := strings.Split(s, sep)
	if len(p) != 2 {
		return 0, 0, false
	}
	a, e1 := strconv.Atoi(p[0])
	b, e2 := strconv.Atoi(p[1])
	return a, b, e1 == nil && e2 == nil && a >= 0 && a < c30tN && b >= 0 && b < 256
}

func c30tActions(f []string) ([]*chaintest.TestAction, bool) {
	if len(f) == 0 || len(f)%4 != 0 {
		return nil, false
	}
	var out []*chaintest.TestAction
	for i := 0; i < len(f); i += 4 {
		k, rd, w, e := f[i], f[i+1], f[i+2], f[i+3]
		if k[0] != 'K' || rd[0] != 'R' || w[0] != 'W' || (e != "E0" && e != "E1") {
			return nil, false
		}
		a := &chaintest.TestAction{NumComputeUnits: 1, SpecifiedStateKeys: []string{}, SpecifiedStateKeyPermissions: []state.Permissions{},
			ReadKeys: [][]byte{}, WriteKeys: [][]byte{}, WriteValues: [][]byte{}, Start: -1, End: -1, Nonce: uint64(i), ExecuteErr: e == "E1"}
		for _, kp := range c30tList(k[1:]) {
			x, p, ok := c30tPair(kp, ":")
			if !ok || p > 7 {
				return nil, false
			}
			a.SpecifiedStateKeys = append(a.SpecifiedStateKeys, string(c30tKey(x)))
			a.SpecifiedStateKeyPermissions = append(a.SpecifiedStateKeyPermissions, state.Permissions(p))
		}
		for _, r := range c30tList(rd[1:]) {
			x, err := strconv.Atoi(r)
			if err != nil || x < 0 || x >= c30tN {
				return nil, false
			}
			a.ReadKeys = append(a.ReadKeys, c30tKey(x))
		}
		for _, kv := range c30tList(w[1:]) {
			x, v, ok := c30tPair(kv, "=")
			if !ok {
				return nil, false
			}
			a.WriteKeys = append(a.WriteKeys, c30tKey(x))
			a.WriteValues = append(a.WriteValues, c30tVal(v))
		}
		out = append(out, a)
	}
	return out, true
}

func c30tErr(msg string) string {
	switch {
	case strings.Contains(msg, tstate.ErrInvalidKeyOrPermission.Error()):
		return "perm"
	case strings.Contains(msg, chaintest.ErrTestActionExecute.Error()):
		return "err9"
	case strings.Contains(msg, database.ErrNotFound.Error()):
		return "err3"
	}
	return "err?" + strings.ReplaceAll(msg, " ", "_")
}

func c30tGenVal(r *verifh.Run) int {
	if r.RNG.Chance(25) {
		return 0 // empty value
	}
	return 1 + r.RNG.Intn(9)
}

func c30tGenAction(r *verifh.Run, sloppy bool) string {
	var ks, rs, ws []string
	declared := map[int]int{}
	nk := r.RNG.Intn(4)
	for i := 0; i < nk; i++ {
		k := r.RNG.Intn(c30tN)
		p := []int{1, 3, 5, 7, 7, 5, 0, 2, 4, 6}[r.RNG.Intn(10)]
		if !sloppy {
			p = []int{1, 5, 7, 7, 7}[r.RNG.Intn(5)]
		}
		ks = append(ks, fmt.Sprintf("%d:%d", k, p))
		declared[k] = p
	}
	pick := func(need int) (int, bool) {
		if !sloppy || r.RNG.Chance(80) {
			for k := 0; k < c30tN; k++ {
				kk := (k + r.RNG.Intn(c30tN)) % c30tN
				if p, ok := declared[kk]; ok && p&need == need {
					return kk, true
				}
			}
			if !sloppy {
				return 0, false
			}
		}
		return r.RNG.Intn(c30tN), true
	}
	for i := r.RNG.Intn(3); i > 0; i-- {
		if k, ok := pick(1); ok {
			rs = append(rs, strconv.Itoa(k))
		}
	}
	for i := r.RNG.Intn(3); i > 0; i-- {
		need := 7
		if sloppy {
			need = 5
		}
		if k, ok := pick(need); ok {
			ws = append(ws, fmt.Sprintf("%d=%d", k, c30tGenVal(r)))
		}
	}
	sort.Strings(rs)
	e := "E0"
	if r.RNG.Chance(4) {
		e = "E1"
	}
	j := func(x []string) string {
		if len(x) == 0 {
			return "-"
		}
		return strings.Join(x, ",")
	}
	return "K" + j(ks) + " R" + j(rs) + " W" + j(ws) + " " + e
}

func TestVerifC30T(t *testing.T) {
	r := verifh.Start("C30")
	defer r.Finish()
	vm := &c30tVM{store: map[string][]byte{}, rules: genesis.NewDefaultRules(), parser: chaintest.NewTestParser()}
	srv := NewJSONRPCServer(vm)
	r.Fact("maxActionsPerTx", vm.rules.GetMaxActionsPerTx())
	index := map[string]int{}
	for i := 0; i < c30tN; i++ {
		index[string(c30tKey(i))] = i
	}
	lines := r.ReplayLines()
	if lines == nil {
		// corpus: a key that exists with an empty value is read / overwritten
		lines = append(lines, "tstate 0=0,1=0", "texec K0:1 R0 W- E0", "tsim K0:1 R0 W- E0", "ttx K0:1 R0 W- E0",
			"texec K1:5 R1 W1=3 E0", "ttx K1:5 R1 W1=3 E0", "texec K2:7 R- W2=0 E0 K2:1 R2 W- E0", "ttx K2:7 R- W2=0 E0 K2:1 R2 W- E0")
		lines = append(lines, "tstate 0=5", "texec K0:1 R0 W- E0 K- R0 W- E0", "ttx K0:1 R0 W- E0 K- R0 W- E0", "tsim K- R0 W1=3 E0")
		for i := 0; i < r.N(2500, 60000); i++ {
			var kv []string
			for k := 0; k < c30tN; k++ {
				if r.RNG.Chance(50) {
					kv = append(kv, fmt.Sprintf("%d=%d", k, c30tGenVal(r)))
				}
			}
			st := "-"
			if len(kv) > 0 {
				st = strings.Join(kv, ",")
			}
			lines = append(lines, "tstate "+st)
			var as []string
			n := 1 + r.RNG.Intn(3)
			if r.RNG.Chance(2) {
				n = 17
			}
			for ; n > 0; n-- {
				as = append(as, c30tGenAction(r, i%2 == 1))
			}
			a := strings.Join(as, " ")
			lines = append(lines, "texec "+a, "tsim "+a, "ttx "+a)
		}
	}
	req := &http.Request{}
	ctx := context.Background()
	lastExec := map[string]string{}
	keysStr := func(ks state.Keys) string {
		var p []string
		for k, perm := range ks {
			p = append(p, fmt.Sprintf("%d:%d", index[k], int(perm)&7))
		}
		if len(p) == 0 {
			return "-"
		}
		sort.Strings(p)
		return strings.Join(p, ",")
	}
	for _, l := range lines {
		f := verifh.Fields(l)
		if len(f) < 2 {
			r.Emit(l, "bad-op")
			continue
		}
		if f[0] == "tstate" && len(f) == 2 {
			store := map[string][]byte{}
			ok := true
			for _, kv := range c30tList(f[1]) {
				k, v, good := c30tPair(kv, "=")
				if !good {
					ok = false
					break
				}
				if _, dup := store[string(c30tKey(k))]; dup {
					ok = false
					break
				}
				store[string(c30tKey(k))] = c30tVal(v)
			}
			if !ok {
				r.Emit(l, "bad-op")
				continue
			}
			vm.store = store
			lastExec = map[string]string{}
			r.Emit(l, "ok")
			continue
		}
		acts, ok := c30tActions(f[1:])
		if !ok {
			r.Emit(l, "bad-op")
			continue
		}
		sig := strings.Join(f[1:], " ")
		var raw [][]byte
		var cas []chain.Action
		for _, a := range acts {
			raw = append(raw, a.Bytes())
			cas = append(cas, a)
		}
		switch f[0] {
		case "texec":
			var reply ExecuteActionReply
			if err := srv.ExecuteActions(req, &ExecuteActionArgs{Actions: raw}, &reply); err != nil {
				r.Emit(l, "rpc-err")
				continue
			}
			if b, err := json.Marshal(&reply); err != nil || json.Unmarshal(b, &ExecuteActionReply{}) != nil {
				r.Emit(l, "json-err")
				continue
			}
			out := fmt.Sprintf("ok %d", len(reply.Outputs))
			if reply.Error != "" {
				out = fmt.Sprintf("fail %d %s", len(reply.Outputs), c30tErr(reply.Error))
			}
			lastExec[sig] = out
			r.Emit(l, out)
			r.Count("texec:" + strings.Fields(out)[len(strings.Fields(out))-1])
		case "tsim":
			args := &SimulatActionsArgs{}
			for _, b := range raw {
				args.Actions = append(args.Actions, b)
			}
			var reply SimulateActionsReply
			if err := srv.SimulateActions(req, args, &reply); err != nil {
				r.Emit(l, "err")
				r.Count("tsim:err")
				continue
			}
			if b, err := json.Marshal(&reply); err != nil {
				r.Emit(l, "json-err")
				continue
			} else {
				var wire SimulateActionsReply
				if err := json.Unmarshal(b, &wire); err != nil {
					r.Emit(l, "json-err")
					continue
				}
				reply = wire
			}
			var p []string
			for _, ar := range reply.ActionResults {
				p = append(p, keysStr(ar.StateKeys))
			}
			r.Emit(l, strings.Join(p, " "))
			r.Count("tsim:ok")
			r.Distinct("tsim " + sig + fmt.Sprint(vm.store))
			// sufficiency: each action under exactly its reported keys
			ts := tstate.New(1)
			for i, a := range acts {
				tsv := ts.NewView(reply.ActionResults[i].StateKeys, state.ImmutableStorage(vm.store), 4)
				if _, err := a.Execute(ctx, vm.rules, tsv, 0, codec.EmptyAddress, [32]byte{}); err != nil {
					r.Violation("simulated-keys-insufficient", "%s action %d: %v keys=%s", l, i, err, keysStr(reply.ActionResults[i].StateKeys))
					break
				}
				tsv.Commit()
			}
		case "ttx":
			auth := &chaintest.TestAuth{NumComputeUnits: 1, Start: -1, End: -1}
			tx, err := chain.NewTransaction(chain.Base{Timestamp: 1_010_000, ChainID: vm.rules.GetChainID(), MaxFee: 1}, cas, auth)
			if err != nil {
				r.Emit(l, "tx-build-err")
				continue
			}
			bh := c30tBH{}
			fm := internalfees.NewManager(nil)
			sk, err := tx.StateKeys(bh)
			if err != nil {
				r.Emit(l, "keys-err")
				continue
			}
			tsv := tstate.New(1).NewView(sk, state.ImmutableStorage(vm.store), len(sk))
			if err := tx.PreExecute(ctx, fm, bh, vm.rules, tsv, 1_000_000); err != nil {
				if errors.Is(err, chain.ErrTooManyActions) {
					r.Emit(l, "too-many")
				} else {
					r.Emit(l, "unpayable")
				}
				continue
			}
			res, err := tx.Execute(ctx, fm, bh, vm.rules, tsv, 1_000_000)
			if err != nil {
				r.Emit(l, "unpayable")
				continue
			}
			out := fmt.Sprintf("ok %d", len(res.Outputs))
			if !res.Success {
				out = fmt.Sprintf("fail %d %s", len(res.Outputs), c30tErr(string(res.Error)))
			}
			r.Emit(l, out)
			r.Count("ttx:" + strings.Fields(out)[len(strings.Fields(out))-1])
			if ex, have := lastExec[sig]; have {
				switch {
				case ex == out:
					r.Distinct("ttx " + sig + fmt.Sprint(vm.store))
				case strings.HasSuffix(ex, " perm"):
					// an action touched a key it did not declare itself (excluded by C05): the
					// API scopes each action to its own keys, the transaction to the union
					r.Count("undeclared-access-differs")
				default:
					r.Violation("api-differs-from-onchain", "API %q on-chain %q for %s", ex, out, l)
				}
			}
		default:
			r.Emit(l, "bad-op")
		}
	}
}
