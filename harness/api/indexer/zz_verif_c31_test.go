package indexer

import (
	"context"
	"fmt"
	"sort"
	"strconv"
	"strings"
	"testing"

	"github.com/ava-labs/avalanchego/ids"

	"github.com/ava-labs/hypersdk/chain"
	"github.com/ava-labs/hypersdk/chain/chaintest"
	"github.com/ava-labs/hypersdk/fees"
	"github.com/ava-labs/hypersdk/internal/verifh"
)

// C31: the indexer serves exactly the recent accepted blocks and transaction results.
//
// Ops (one sequence = one directory, started by `new`):
//   new <window> | restart <window> | notify <height> <timestamp> <variant> <tx,tx,...|->
// A block is named `<height>/<timestamp>/<variant>/<txs>`; variant = first byte of the parent
// id (so two different blocks can share a height); variant >= 2 drops the last result.
// Output: `ok L=<latest> H:<height>=<block>,.. B:<block>=<GetBlock>,.. T:<tx>=<answer>,.. D:<height>=<block>,..`
// over all heights/blocks seen in the sequence and the fixed pool of 8 transactions; D is the
// content of the pebble store.

const c31NTxs = 8

type c31Env struct {
	parser *chain.TxTypeParser
	txs    []*chain.Transaction
	txIdx  map[ids.ID]int
	blocks map[string]*chain.ExecutedBlock
	names  map[ids.ID]string
}

func c31NewEnv(t *testing.T) *c31Env {
	e := &c31Env{parser: chaintest.NewTestParser(), txIdx: map[ids.ID]int{}, blocks: map[string]*chain.ExecutedBlock{}, names: map[ids.ID]string{}}
	actions := chaintest.NewDummyTestActions(c31NTxs)
	for i := 0; i < c31NTxs; i++ {
		tx, err := chain.NewTransaction(chain.Base{Timestamp: 1000, ChainID: ids.Empty, MaxFee: 1}, []chain.Action{actions[i]}, chaintest.NewDummyTestAuth())
		if err != nil {
			t.Fatal(err)
		}
		e.txs = append(e.txs, tx)
		e.txIdx[tx.GetID()] = i
	}
	return e
}

func c31Result(h uint64, v, idx int) uint64 { return (h%1000)*100 + uint64(v)*10 + uint64(idx) }

func (e *c31Env) block(t *testing.T, h uint64, ts int64, v int, txl []int, name string) *chain.ExecutedBlock {
	if b, ok := e.blocks[name]; ok {
		return b
	}
	txs := make([]*chain.Transaction, len(txl))
	for i, x := range txl {
		txs[i] = e.txs[x]
	}
	// non-zero state root: an all-zero block (height 0, timestamp 0, no txs) encodes to zero bytes and
	// is reloaded as ExecutedBlock{Block: nil}; a real genesis block carries the genesis state root
	sb, err := chain.NewStatelessBlock(ids.ID{byte(v)}, ts, h, txs, ids.ID{0xaa}, nil)
	if err != nil {
		t.Fatal(err)
	}
	sb, err = chain.UnmarshalBlock(sb.GetBytes(), e.parser)
	if err != nil {
		t.Fatal(err)
	}
	results := make([]*chain.Result, 0, len(txl))
	for i := range txl {
		results = append(results, &chain.Result{Success: true, Error: []byte{}, Outputs: [][]byte{}, Fee: c31Result(h, v, i)})
	}
	if v >= 2 && len(results) > 1 { // keep one: a stored block without results is reloaded with ExecutionResults == nil
		results = results[:len(results)-1]
	}
	b := chain.NewExecutedBlock(sb, results, fees.Dimensions{}, fees.Dimensions{})
	e.blocks[name] = b
	e.names[sb.GetID()] = name
	return b
}

func (e *c31Env) name(b *chain.ExecutedBlock, err error) string {
	if err != nil || b == nil {
		return "nf"
	}
	if n, ok := e.names[b.Block.GetID()]; ok {
		return n
	}
	return "?"
}

// the property's own bookkeeping for one sequence (the oracle)
type c31Spec struct {
	w         uint64
	any       bool
	maxH      uint64
	floor     uint64            // heights below were outside some earlier window: legitimately dropped
	byHeight  map[uint64]string // the accepted block per height
	txBlock   map[int]string    // the block holding each transaction
	coherent  bool              // one block per height, each tx in one block, full results
	gap       bool
	redeliver bool
	wchange   bool

	// Bookkeeping used only to key a mismatch precisely (never to decide whether it is one):
	// what the known single-height eviction (evict exactly height-window from cache and store,
	// lastHeight = last delivered height, reload-then-trim on start) would answer.
	refCache      map[uint64]bool
	refStore      map[uint64]bool
	refLast       uint64
	refHas        bool
	opIdx         int
	lastNotifyIdx map[uint64]int  // op index of the last notification per height
	lateDelivery  map[uint64]bool // the last notification of this height came when it was already below the window
	lastWChange   int             // op index of the last restart that changed the window (-1: none)
}

func (s *c31Spec) refNotify(h uint64) {
	if h >= s.w {
		delete(s.refCache, h-s.w)
		delete(s.refStore, h-s.w)
	}
	s.refCache[h], s.refStore[h] = true, true
	s.refLast, s.refHas = h, true
}

func (s *c31Spec) refRestart(w uint64) {
	hs := make([]uint64, 0, len(s.refStore))
	for h := range s.refStore {
		hs = append(hs, h)
	}
	sort.Slice(hs, func(i, j int) bool { return hs[i] < hs[j] })
	s.refCache, s.refHas = map[uint64]bool{}, false
	for _, h := range hs {
		if h >= w {
			delete(s.refCache, h-w)
		}
		s.refCache[h] = true
		s.refLast, s.refHas = h, true
	}
	if s.refHas && s.refLast > w {
		for _, h := range hs {
			if h < s.refLast-w {
				delete(s.refStore, h)
			}
		}
	}
}

// key of one mismatching answer. `kind` is latest|height|id|tx, hB the height of the block the
// query is about, got/want the implementation's and the property's answer, ref the answer of the
// known single-height eviction. Only an answer that is exactly the known defective one, on exactly
// the inputs the defect explains, gets a known-finding key; everything else is keyed `unknown`.
func (s *c31Spec) classify(kind string, hB uint64, got, want, ref, unknown string) string {
	if got != ref {
		return unknown
	}
	if kind == "latest" {
		if s.refHas && s.any && s.refLast < s.maxH {
			return "latest-ne-max-height-after-redelivery"
		}
		return unknown
	}
	if want != "nf" || got == "nf" || !s.any || hB > s.maxH || s.maxH-hB < s.w {
		return unknown // not "a block below the window is served"
	}
	last, ok := s.lastNotifyIdx[hB]
	if !ok {
		return unknown
	}
	switch {
	case s.lateDelivery[hB]:
		return "stale-block-below-window-served-after-late-delivery"
	case s.lastWChange > last:
		return "stale-block-below-window-served-after-window-change"
	}
	if i, ok := s.lastNotifyIdx[hB+s.w]; !ok || i < last {
		return "stale-block-below-window-served-after-gap" // height hB+window was skipped
	}
	return unknown
}

func (s *c31Spec) inWindow(h uint64) bool {
	return s.any && h <= s.maxH && s.maxH-h < s.w && h >= s.floor
}

// inside the current window but below the floor: the block was dropped legitimately under an
// earlier, smaller window; after the window grew again the property neither requires nor forbids
// serving it (only a same-window restart must not change the answer)
func (s *c31Spec) dontCare(h uint64) bool {
	return s.any && h <= s.maxH && s.maxH-h < s.w && h < s.floor
}

func (s *c31Spec) bump() {
	if s.any && s.maxH+1 > s.w && s.maxH+1-s.w > s.floor {
		s.floor = s.maxH + 1 - s.w
	}
}

func TestVerifC31(t *testing.T) {
	r := verifh.Start("C31")
	defer r.Finish()
	ctx := context.Background()
	env := c31NewEnv(t)

	lines := r.ReplayLines()
	if lines == nil {
		lines = c31Generate(r)
	}

	var (
		idx     *Indexer
		dir     string
		heights []uint64
		blocks  []string
		spec    *c31Spec
		seq     int
	)
	defer func() {
		if idx != nil {
			_ = idx.Close()
		}
	}()
	type answers struct {
		latest string
		byH    map[uint64]string
		byID   map[string]string
		tx     map[int]string
	}
	query := func() (string, answers) {
		a := answers{byH: map[uint64]string{}, byID: map[string]string{}, tx: map[int]string{}}
		a.latest = env.name(idx.GetLatestBlock())
		hs := make([]string, 0, len(heights))
		for _, h := range heights {
			a.byH[h] = env.name(idx.GetBlockByHeight(h))
			hs = append(hs, fmt.Sprintf("%d=%s", h, a.byH[h]))
		}
		bs := make([]string, 0, len(blocks))
		for _, n := range blocks {
			a.byID[n] = env.name(idx.GetBlock(env.blocks[n].Block.GetID()))
			bs = append(bs, n+"="+a.byID[n])
		}
		ts := make([]string, 0, c31NTxs)
		for i, tx := range env.txs {
			found, gtx, tm, res, err := idx.GetTransaction(tx.GetID())
			var s string
			switch {
			case err != nil && strings.Contains(err.Error(), errInternalIndexerMismatch.Error()):
				s = "e-mismatch"
			case err != nil && strings.Contains(err.Error(), errTxResultNotFound.Error()):
				s = "e-noresult"
			case err != nil:
				s = "err"
			case !found:
				s = "nf"
			default:
				s = fmt.Sprintf("%d.%d.%d", env.txIdx[gtx.GetID()], tm, res.Fee)
			}
			a.tx[i] = s
			ts = append(ts, fmt.Sprintf("%d=%s", i, s))
		}
		var ds []string
		it := idx.blockDB.NewIteratorWithPrefix(blockEntryKeyPrefix)
		for it.Next() {
			k := it.Key()
			b, err := chain.UnmarshalExecutedBlock(it.Value(), env.parser)
			ds = append(ds, verifh.Hex(k)+"="+env.name(b, err)) // raw key: the model encodes 0x02 ++ be64 height
		}
		it.Release()
		return fmt.Sprintf("L=%s H:%s B:%s T:%s D:%s", a.latest, strings.Join(hs, ","), strings.Join(bs, ","), strings.Join(ts, ","), strings.Join(ds, ",")), a
	}
	// answers over the universe when exactly the heights in `in` are served and `latest` is the tip
	expected := func(in func(uint64) bool, hasLatest bool, latestH uint64) answers {
		e := answers{latest: "nf", byH: map[uint64]string{}, byID: map[string]string{}, tx: map[int]string{}}
		if hasLatest && in(latestH) {
			if n, ok := spec.byHeight[latestH]; ok {
				e.latest = n
			}
		}
		for _, h := range heights {
			e.byH[h] = "nf"
			if n, ok := spec.byHeight[h]; ok && in(h) {
				e.byH[h] = n
			}
		}
		for _, n := range blocks {
			e.byID[n] = "nf"
			h := env.blocks[n].Block.Hght
			if spec.byHeight[h] == n && in(h) {
				e.byID[n] = n
			}
		}
		for i := 0; i < c31NTxs; i++ {
			e.tx[i] = "nf"
			if n, ok := spec.txBlock[i]; ok {
				b := env.blocks[n]
				if in(b.Block.Hght) {
					for j, tx := range b.Block.Txs {
						if env.txIdx[tx.GetID()] == i {
							e.tx[i] = fmt.Sprintf("%d.%d.%d", i, b.Block.Tmstmp, b.ExecutionResults.Results[j].Fee)
						}
					}
				}
			}
		}
		return e
	}
	type query1 struct {
		kind, what string
		hB         uint64
		get        func(a answers) string
	}
	allQueries := func() []query1 {
		qs := []query1{{"latest", "GetLatestBlock", 0, func(a answers) string { return a.latest }}}
		for _, h := range heights {
			h := h
			qs = append(qs, query1{"height", fmt.Sprintf("GetBlockByHeight(%d)", h), h, func(a answers) string { return a.byH[h] }})
		}
		for _, n := range blocks {
			n := n
			qs = append(qs, query1{"id", "GetBlock(" + n + ")", env.blocks[n].Block.Hght, func(a answers) string { return a.byID[n] }})
		}
		for i := 0; i < c31NTxs; i++ {
			i := i
			var hB uint64
			if n, ok := spec.txBlock[i]; ok {
				hB = env.blocks[n].Block.Hght
			}
			qs = append(qs, query1{"tx", fmt.Sprintf("GetTransaction(%d)", i), hB, func(a answers) string { return a.tx[i] }})
		}
		return qs
	}
	wantNow := func() answers { return expected(spec.inWindow, spec.any, spec.maxH) }
	refNow := func() answers {
		return expected(func(h uint64) bool { return spec.refCache[h] }, spec.refHas, spec.refLast)
	}
	// the property's statement evaluated on the answers
	oracle := func(op string, a answers) {
		if spec == nil || !spec.coherent {
			return
		}
		want, ref := wantNow(), refNow()
		for _, q := range allQueries() {
			if q.kind != "latest" && spec.dontCare(q.hB) {
				continue
			}
			if got := q.get(a); got != q.get(want) {
				key := spec.classify(q.kind, q.hB, got, q.get(want), q.get(ref), "answers-differ-from-window-spec")
				r.Violation(key, "%s: got %s want %s (window %d, highest %d; seq %d, %s)", q.what, got, q.get(want), spec.w, spec.maxH, seq, op)
			}
		}
	}

	for _, l := range lines {
		f := verifh.Fields(l)
		switch {
		case len(f) == 2 && f[0] == "new":
			w, err := strconv.ParseUint(f[1], 10, 64)
			if err != nil {
				r.Emit(l, "bad-op")
				continue
			}
			if idx != nil {
				_ = idx.Close()
				idx = nil
			}
			seq++
			dir = t.TempDir()
			heights, blocks = []uint64{0, 1, 2}, nil
			spec = &c31Spec{w: w, byHeight: map[uint64]string{}, txBlock: map[int]string{}, coherent: true,
				refCache: map[uint64]bool{}, refStore: map[uint64]bool{}, lastNotifyIdx: map[uint64]int{}, lateDelivery: map[uint64]bool{}, lastWChange: -1}
			idx, err = NewIndexer(dir, env.parser, w)
			if err != nil {
				idx = nil
				r.Emit(l, "err-config")
				continue
			}
			out, a := query()
			r.Emit(l, "ok "+out)
			oracle(l, a)
		case len(f) == 2 && f[0] == "restart":
			w, err := strconv.ParseUint(f[1], 10, 64)
			if err != nil {
				r.Emit(l, "bad-op")
				continue
			}
			if idx == nil {
				r.Emit(l, "no-index")
				continue
			}
			if w == 0 || w > maxBlockWindow {
				r.Emit(l, "bad-op")
				continue
			}
			_, before := query()
			var wantB, refB answers
			var keyB map[string]string // known-finding key of every answer that was already wrong before
			if spec.coherent {
				wantB, refB = wantNow(), refNow()
				keyB = map[string]string{}
				for _, q := range allQueries() {
					if q.kind != "latest" && spec.dontCare(q.hB) {
						continue
					}
					if got := q.get(before); got != q.get(wantB) {
						keyB[q.what] = spec.classify(q.kind, q.hB, got, q.get(wantB), q.get(refB), "restart-changes-answers")
					}
				}
			}
			if err := idx.Close(); err != nil {
				t.Fatal(err)
			}
			idx, err = NewIndexer(dir, env.parser, w)
			if err != nil {
				t.Fatal(err)
			}
			out, a := query()
			r.Emit(l, "ok "+out)
			r.Count("restart")
			spec.opIdx++
			sameWindow := w == spec.w
			if !sameWindow {
				spec.wchange = true
				spec.lastWChange = spec.opIdx
				spec.w = w
				spec.bump()
			}
			spec.refRestart(w)
			if spec.coherent && sameWindow {
				// a restart does not change any answer
				want, ref := wantNow(), refNow()
				for _, q := range allQueries() {
					if q.get(before) == q.get(a) {
						continue
					}
					key, wrongBefore := keyB[q.what]
					if !wrongBefore && q.kind != "latest" && spec.dontCare(q.hB) {
						key = "restart-changes-answers"
					} else if !wrongBefore {
						// the answer was right before the restart and is wrong now
						key = spec.classify(q.kind, q.hB, q.get(a), q.get(want), q.get(ref), "restart-changes-answers")
					}
					if key == "answers-differ-from-window-spec" {
						key = "restart-changes-answers"
					}
					r.Violation(key, "restart changed %s: %s -> %s (window %d; seq %d, %s)", q.what, q.get(before), q.get(a), w, seq, l)
				}
			}
			oracle(l, a)
		case len(f) == 5 && f[0] == "notify":
			h, e1 := strconv.ParseUint(f[1], 10, 64)
			ts, e2 := strconv.ParseInt(f[2], 10, 64)
			v, e3 := strconv.ParseUint(f[3], 10, 64)
			var txl []int
			ok := e1 == nil && e2 == nil && e3 == nil
			if ok && f[4] != "-" {
				for _, s := range strings.Split(f[4], ",") {
					x, err := strconv.Atoi(s)
					if err != nil || x < 0 || x >= c31NTxs || strings.Trim(s, "0123456789") != "" {
						ok = false
						break
					}
					txl = append(txl, x)
				}
			}
			if !ok {
				r.Emit(l, "bad-op")
				continue
			}
			if idx == nil {
				r.Emit(l, "no-index")
				continue
			}
			if v >= 4 || ts < 0 {
				r.Emit(l, "bad-op")
				continue
			}
			name := fmt.Sprintf("%d/%d/%d/%s", h, ts, v, f[4])
			_, seen := env.blocks[name]
			b := env.block(t, h, ts, int(v), txl, name)
			_ = seen
			if err := idx.Notify(ctx, b); err != nil {
				t.Fatal(err)
			}
			// universe
			if i := sort.Search(len(heights), func(i int) bool { return heights[i] >= h }); i == len(heights) || heights[i] != h {
				heights = append(heights, 0)
				copy(heights[i+1:], heights[i:])
				heights[i] = h
			}
			known := false
			for _, n := range blocks {
				known = known || n == name
			}
			if !known {
				blocks = append(blocks, name)
			}
			// spec bookkeeping
			if old, ok := spec.byHeight[h]; ok && old != name {
				spec.coherent = false
			}
			if v >= 2 || h > 1<<62 {
				spec.coherent = false
			}
			dupTx := map[int]bool{}
			for _, x := range txl {
				if n, ok := spec.txBlock[x]; (ok && n != name) || dupTx[x] {
					spec.coherent = false
				}
				dupTx[x] = true
				spec.txBlock[x] = name
			}
			switch {
			case !spec.any:
			case h > spec.maxH+1:
				spec.gap = true
				r.Count("notify-gap")
			case h == spec.maxH+1:
				r.Count("notify-next")
			case h == spec.maxH:
				r.Count("notify-latest-again")
			default:
				spec.redeliver = true
				r.Count("notify-older")
			}
			spec.opIdx++
			spec.lastNotifyIdx[h] = spec.opIdx
			spec.lateDelivery[h] = spec.any && h <= spec.maxH && spec.maxH-h >= spec.w
			spec.refNotify(h)
			spec.byHeight[h] = name
			if !spec.any || h > spec.maxH {
				spec.maxH = h
			}
			spec.any = true
			spec.bump()
			out, a := query()
			r.Emit(l, "ok "+out)
			oracle(l, a)
			if spec.coherent && (spec.gap || spec.redeliver || spec.wchange) {
				r.Distinct(fmt.Sprintf("seq%d", seq))
			}
		default:
			r.Emit(l, "bad-op")
		}
	}
}

func c31Generate(r *verifh.Run) []string {
	var lines []string
	add := func(format string, a ...any) { lines = append(lines, fmt.Sprintf(format, a...)) }

	// corpus first: witnesses of the suspected defects
	// stale blocks after a height gap, and the second restart changes answers
	add("new 2")
	add("notify 1 10 0 0")
	add("notify 2 20 0 1")
	add("notify 10 100 0 2")
	add("restart 2")
	add("restart 2")
	// gap of exactly one block
	add("new 2")
	add("notify 1 10 0 0")
	add("notify 4 40 0 1")
	add("restart 2")
	add("restart 2")
	// window change, then consecutive blocks, then restart: stale block reappears
	add("new 3")
	for h := 1; h <= 5; h++ {
		add("notify %d %d 0 %d", h, 10*h, h)
	}
	add("restart 1")
	add("notify 6 60 0 6")
	add("restart 1")
	// re-delivery of an older block moves `latest` backwards
	add("new 3")
	for h := 1; h <= 4; h++ {
		add("notify %d %d 0 %d", h, 10*h, h)
	}
	add("notify 3 30 0 3")
	add("restart 3")
	// the suite's scenario
	add("new 2")
	for h := 1; h <= 4; h++ {
		add("notify %d %d 0 -", h, h)
	}
	add("restart 2")
	add("restart 1")
	// configuration errors, uint64 boundaries, malformed
	add("new 0")
	add("notify 1 1 0 -")
	add("new 1000001")
	add("new 1000000")
	add("notify 0 5 0 0,1")
	add("notify 18446744073709551615 6 0 2")
	add("restart 1")
	add("new 3")
	add("notify 1 1 1 0,0")
	add("notify 2 2 2 1,2")
	add("notify 3 3 3 3")
	add("notify 2 2 0 4")
	add("restart 0")
	add("notify 1 1 4 -")
	add("notify 1 1 0 9")
	add("frobnicate")

	// consecutive heights from genesis (height 0), constant window, more than two full windows,
	// a restart at every point (and a double restart at the end)
	for _, w := range []int{1, 2, 3, 5} {
		add("new %d", w)
		for h := 0; h <= 2*w+1; h++ {
			tx := "-"
			if h < c31NTxs {
				tx = strconv.Itoa(h)
			}
			add("notify %d %d 0 %s", h, 10*h, tx)
			add("restart %d", w)
		}
		add("restart %d", w)
		// the same without intermediate restarts
		add("new %d", w)
		for h := 0; h <= 2*w+1; h++ {
			tx := "-"
			if h < c31NTxs {
				tx = strconv.Itoa(h)
			}
			add("notify %d %d 0 %s", h, 10*h, tx)
		}
		add("restart %d", w)
		add("restart %d", w)
	}

	// consecutive heights across a byte boundary of the height encoding (255/256/257, and 65535/65536),
	// constant window, a restart at every point: the store's key order must be the numeric order
	for _, c := range [][2]int{{2, 252}, {3, 251}, {5, 250}, {3, 65533}} {
		w, start := c[0], c[1]
		add("new %d", w)
		for h := start; h <= start+2*w+3; h++ {
			tx := "-"
			if h-start < c31NTxs {
				tx = strconv.Itoa(h - start)
			}
			add("notify %d %d 0 %s", h, 10*h, tx)
			add("restart %d", w)
		}
		add("restart %d", w)
	}

	windows := []uint64{1, 2, 3, 5}
	nseq := r.N(60, 1500)
	for i := 0; i < nseq; i++ {
		w := windows[r.RNG.Intn(len(windows))]
		add("new %d", w)
		clean := r.RNG.Chance(40) // consecutive heights, same-window restarts: the partial theorems' histories
		wild := !clean && r.RNG.Chance(25)
		h := uint64(r.RNG.Intn(4))
		switch p := r.RNG.Intn(100); {
		case p < 40:
			h = 0 // genesis is delivered first
		case p < 65:
			h = 256*uint64(1+r.RNG.Intn(3)) - 1 - uint64(r.RNG.Intn(int(w)+3)) // the window will straddle a multiple of 256
		}
		first := true
		nextTx := 0
		var hist []string // notifications so far (for re-delivery)
		n := 5 + r.RNG.Intn(14)
		if clean && n < 2*int(w)+5 {
			n = 2*int(w) + 5 // more than two full windows
		}
		for j := 0; j < n; j++ {
			p := r.RNG.Intn(100)
			mk := func(h uint64) string {
				txs := "-"
				if wild {
					k := r.RNG.Intn(3)
					var xs []string
					for q := 0; q < k; q++ {
						xs = append(xs, strconv.Itoa(r.RNG.Intn(c31NTxs)))
					}
					if k > 0 {
						txs = strings.Join(xs, ",")
					}
					return fmt.Sprintf("notify %d %d %d %s", h, 10*h+uint64(r.RNG.Intn(3)), r.RNG.Intn(4), txs)
				}
				k := r.RNG.Intn(3)
				var xs []string
				for q := 0; q < k && nextTx < c31NTxs; q++ {
					xs = append(xs, strconv.Itoa(nextTx))
					nextTx++
				}
				if len(xs) > 0 {
					txs = strings.Join(xs, ",")
				}
				return fmt.Sprintf("notify %d %d 0 %s", h, 10*h, txs)
			}
			switch {
			case p < 62 || (clean && p < 80) || first:
				if !first {
					h++
				}
				first = false
				l := mk(h)
				hist = append(hist, l)
				lines = append(lines, l)
			case p < 72:
				h += 2 + uint64(r.RNG.Intn(int(w)+3))
				l := mk(h)
				hist = append(hist, l)
				lines = append(lines, l)
			case p < 80:
				if len(hist) > 0 {
					k := r.RNG.Intn(min(len(hist), 4))
					lines = append(lines, hist[len(hist)-1-k:]...) // re-deliver a suffix
				}
			case p < 86 && clean:
				if len(hist) > 0 {
					lines = append(lines, hist[len(hist)-1]) // latest again
				}
			case p < 93 || clean:
				add("restart %d", w)
			default:
				w = windows[r.RNG.Intn(len(windows))]
				add("restart %d", w)
			}
		}
	}
	return lines
}
