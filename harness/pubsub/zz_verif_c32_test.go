package pubsub

import (
	"bytes"
	"fmt"
	"hash/fnv"
	"reflect"
	"strconv"
	"strings"
	"sync"
	"testing"
	"time"
	"unsafe"

	"github.com/ava-labs/avalanchego/utils/logging"
	"go.uber.org/zap"

	"github.com/ava-labs/hypersdk/internal/verifh"
)

// c32Log observes the only externally visible trace of a dropped batch.
type c32Log struct {
	logging.NoLog
	dropped int
}

func (l *c32Log) Debug(msg string, _ ...zap.Field) {
	if msg == "dropped pending message" {
		l.dropped++
	}
}

// c32Handler extracts the real timer callback (the closure built by NewMessageBuffer) so that
// the harness can fire it deterministically; the timer itself is armed with a 1h timeout.
func c32Handler(m *MessageBuffer) func() {
	f := reflect.ValueOf(m.pendingTimer).Elem().FieldByName("handler")
	return *(*func())(unsafe.Pointer(f.UnsafeAddr()))
}

// c32Armed reads the real timer's state: SetTimeoutIn sets shouldExecute, Cancel clears it.
func c32Armed(m *MessageBuffer) bool {
	t := reflect.ValueOf(m.pendingTimer).Elem()
	lk := (*sync.Mutex)(unsafe.Pointer(t.FieldByName("lock").UnsafeAddr()))
	lk.Lock()
	defer lk.Unlock()
	return *(*bool)(unsafe.Pointer(t.FieldByName("shouldExecute").UnsafeAddr()))
}

func c32Msg(n, seed int) []byte {
	b := make([]byte, n)
	for i := range b {
		b[i] = byte((seed + 7*i + i/256) % 256)
	}
	return b
}

func c32Fnv(b []byte) uint64 {
	h := fnv.New64a()
	h.Write(b)
	return h.Sum64()
}

func c32Dec(b []byte) (string, [][]byte) {
	ms, err := ParseBatchMessage(b)
	if err != nil {
		return "err", nil
	}
	var lens []string
	for i, m := range ms {
		if i < 6 {
			lens = append(lens, strconv.Itoa(len(m)))
		}
	}
	return fmt.Sprintf("%d/%d/%s", len(ms), c32Fnv(bytes.Join(ms, nil)), strings.Join(lens, ",")), ms
}

type c32Seq struct {
	m        *MessageBuffer
	log      *c32Log
	fire     func()
	max      int
	accepted [][]byte // messages for which Send returned nil, in order
	received [][]byte // messages decoded from the batches taken from Queue, in order
	drops    int
	from     int
	eof      bool
}

// C32: MessageBuffer batching.
//
// ops: new <queue capacity> <maxSize> | send <len> <seed> | fire | late | close | recv | dec <hex>
func TestVerifC32(t *testing.T) {
	r := verifh.Start("C32")
	defer r.Finish()

	lines := r.ReplayLines()
	if lines == nil {
		lines = c32Generate(r)
	}
	var s *c32Seq
	finish := func() {
		if s == nil {
			return
		}
		c32Final(r, s)
		_ = s.m.Close() // stops the timer goroutine
		s = nil
	}
	for _, l := range lines {
		f := verifh.Fields(l)
		if len(f) == 3 && f[0] == "new" {
			finish()
			capacity, e1 := strconv.Atoi(f[1])
			mx, e2 := strconv.Atoi(f[2])
			if e1 != nil || e2 != nil || capacity < 0 || mx < 0 {
				r.Emit(l, "bad-op")
				continue
			}
			lg := &c32Log{}
			m := NewMessageBuffer(lg, capacity, mx, time.Hour)
			s = &c32Seq{m: m, log: lg, fire: c32Handler(m), max: mx}
			r.Emit(l, "ok")
			s.from = r.Line()
			continue
		}
		if len(f) == 2 && f[0] == "dec" {
			b, err := verifh.UnHex(f[1])
			if err != nil {
				r.Emit(l, "bad-op")
				continue
			}
			d, ms := c32Dec(b)
			r.Emit(l, d)
			// oracle: whatever decodes re-encodes to the same bytes (canonical encoding)
			if ms != nil && !bytes.Equal(CreateBatchMessage(ms), b) {
				r.Violation("decode-not-canonical", "ParseBatchMessage(%x) re-encodes to %x", b, CreateBatchMessage(ms))
			}
			continue
		}
		if s == nil {
			r.Emit(l, "bad-op")
			continue
		}
		m := s.m
		q0, d0 := len(m.Queue), s.log.dropped
		res := ""
		switch {
		case len(f) == 3 && f[0] == "send":
			n, e1 := strconv.Atoi(f[1])
			seed, e2 := strconv.Atoi(f[2])
			if e1 != nil || e2 != nil || n < 0 {
				r.Emit(l, "bad-op")
				continue
			}
			msg := c32Msg(n, seed)
			switch err := m.Send(msg); err {
			case nil:
				res = "ok"
				s.accepted = append(s.accepted, msg)
			case ErrClosed:
				res = "closed"
			case ErrMessageTooLarge:
				res = "toolarge"
			default:
				res = "other"
			}
			r.Count(fmt.Sprintf("send:%s", res))
		case len(f) == 1 && f[0] == "fire":
			// the timer (1h timeout here) calls the callback only while armed, and once
			if !c32Armed(m) {
				// the real callback can still run unarmed (dispatched, blocked on the mutex while
				// Send cancelled the timer): run it and require a no-op
				m.l.Lock()
				ps0, np0 := m.pendingSize, len(m.pending)
				m.l.Unlock()
				s.fire()
				m.l.Lock()
				ps1, np1 := m.pendingSize, len(m.pending)
				m.l.Unlock()
				if ps1 != ps0 || np1 != np0 || len(m.Queue) != q0 || s.log.dropped != d0 || c32Armed(m) {
					r.ViolationAt("unarmed-callback-not-a-noop", s.from, r.Line()+1,
						"callback run while the timer is unarmed changed the buffer: pending %d->%d, queue %d->%d", np0, np1, q0, len(m.Queue))
				}
				r.Count("fire:unarmed-callback-run")
				res = "notarmed"
				break
			}
			m.l.Lock()
			cl := m.closed
			m.l.Unlock()
			s.fire()
			m.pendingTimer.Cancel() // one-shot: a fired timer stays quiet until the next SetTimeoutIn
			res = "ok"
			if cl {
				res = "closed"
			}
		case len(f) == 1 && f[0] == "late":
			// a callback dispatched by an earlier arming runs now; it does not consume the arming
			m.l.Lock()
			cl := m.closed
			m.l.Unlock()
			s.fire()
			res = "ok"
			if cl {
				res = "closed"
			}
		case len(f) == 1 && f[0] == "close":
			switch err := m.Close(); err {
			case nil:
				res = "ok"
			case ErrClosed:
				res = "closed"
			default:
				res = "other"
			}
		case len(f) == 1 && f[0] == "recv":
			select {
			case b, ok := <-m.Queue:
				if !ok {
					res = "eof"
					s.eof = true
					break
				}
				q0-- // the receive itself
				d, ms := c32Dec(b)
				res = fmt.Sprintf("batch len=%d fnv=%d dec=%s", len(b), c32Fnv(b), d)
				r.Count("batch-msgs:" + c32Bucket(len(ms)))
				// oracle: every emitted batch encodes to at most the configured maximum ...
				if len(b) > s.max {
					r.ViolationAt("encoded-batch-exceeds-max", s.from, r.Line()+1,
						"batch of %d messages is %d bytes, maxSize %d", len(ms), len(b), s.max)
				}
				// ... and decodes back to messages
				if ms == nil && d == "err" {
					r.ViolationAt("batch-does-not-decode", s.from, r.Line()+1, "batch %x", b)
				}
				s.received = append(s.received, ms...)
				if len(b) > 0 && len(b) >= s.max-2 {
					r.Distinct(fmt.Sprintf("near-limit/%d/%d", s.max, len(b)))
				}
			default:
				res = "empty"
			}
		default:
			r.Emit(l, "bad-op")
			continue
		}
		m.l.Lock()
		ps, np, closed := m.pendingSize, len(m.pending), m.closed
		m.l.Unlock()
		armed := c32Armed(m)
		fl := "none"
		switch {
		case s.log.dropped > d0:
			fl = "drop"
			s.drops++
		case len(m.Queue) > q0:
			fl = "enq"
		}
		r.Count("flush:" + f[0] + ":" + fl)
		arm := 0
		if armed {
			arm = 1
		}
		r.Emit(l, fmt.Sprintf("%s ps=%d np=%d q=%d fl=%s arm=%d", res, ps, np, len(m.Queue), fl, arm))
		// oracle: an accepted message must not depend on a later Send/Close to get out
		if np > 0 && !closed && !armed {
			r.ViolationAt("pending-without-armed-timer", s.from, r.Line(),
				"%d accepted message(s) pending but the flush timer is not armed: they are emitted only by a later overflow or Close", np)
		}
		if fl == "drop" && q0 < cap(m.Queue) {
			r.ViolationAt("dropped-although-queue-not-full", s.from, r.Line(), "queue %d/%d", q0, cap(m.Queue))
		}
	}
	finish()
}

func c32Bucket(n int) string {
	switch {
	case n <= 2:
		return strconv.Itoa(n)
	case n <= 8:
		return "3-8"
	}
	return ">8"
}

// c32Final: exactly-once, in-order delivery, evaluated when a sequence ends.
func c32Final(r *verifh.Run, s *c32Seq) {
	// received must be an in-order sub-sequence of accepted (nothing duplicated, reordered or invented)
	i := 0
	for _, m := range s.received {
		for i < len(s.accepted) && !bytes.Equal(s.accepted[i], m) {
			i++
		}
		if i == len(s.accepted) {
			r.ViolationAt("reordered-duplicated-or-invented", s.from, r.Line(),
				"received %d messages are not an in-order subsequence of the %d accepted", len(s.received), len(s.accepted))
			return
		}
		i++
	}
	// if the sequence was closed and drained and nothing was dropped, everything arrived exactly once
	if s.eof && s.drops == 0 {
		if len(s.received) != len(s.accepted) {
			r.ViolationAt("lost-without-full-queue", s.from, r.Line(),
				"accepted %d messages, received %d, no batch was dropped", len(s.accepted), len(s.received))
		}
		r.Distinct(fmt.Sprintf("complete/%d/%d", s.max, len(s.accepted)))
	}
}

func c32Generate(r *verifh.Run) []string {
	var lines []string
	add := func(f string, a ...any) { lines = append(lines, fmt.Sprintf(f, a...)) }
	drain := func() {
		add("close")
		for i := 0; i < 4; i++ {
			add("recv")
		}
	}
	// corpus first: the design-time witness (two 5-byte messages, max 10 -> 14 bytes) ...
	add("new 4 10")
	add("send 5 1")
	add("send 5 2")
	add("fire")
	add("recv")
	drain()
	// ... overflow flush followed by silence: the message that started the new batch must still
	// be covered by an armed timer (seeded change C32-m2 left it stranded)
	add("new 4 20")
	add("send 8 1")
	add("send 8 2")
	add("fire")
	add("recv")
	add("recv")
	add("fire")
	add("send 8 3")
	add("send 3 4")
	add("send 8 5")
	add("late")
	add("fire")
	add("fire")
	add("late")
	drain()
	add("late")
	// ... a message of exactly maxSize, and the varint boundary 127/128
	add("new 4 10")
	add("send 10 1")
	add("send 8 1")
	add("send 9 1")
	drain()
	add("new 2 300")
	add("send 127 3")
	add("send 128 4")
	add("send 40 5")
	drain()
	// close at the very start / double close / use after close / empty queue
	add("new 1 16")
	add("recv")
	add("fire")
	add("close")
	add("close")
	add("send 1 1")
	add("fire")
	add("recv")
	add("recv")
	// capacity 0: every batch is dropped
	add("new 0 16")
	add("send 3 1")
	add("fire")
	drain()
	for _, h := range []string{"-", "0a00", "0a0101", "0a0101" + "0a00", "0a8100", "0a80", "0a", "0b00", "0a02ff", "1200", "0a0001",
		"0a" + "ffffffffffffffffff01", "0a" + "ffffffffffffffffff02", "0a" + "8080808080808080808000", "0a00" + "0a", "0a00" + "08", "8a0000"} {
		add("dec %s", h)
	}

	rng := r.RNG
	nseq := r.N(700, 20000)
	for q := 0; q < nseq; q++ {
		var mx int
		switch rng.Intn(8) {
		case 0:
			mx = rng.Intn(6)
		case 1:
			mx = 126 + rng.Intn(8) // one-byte / two-byte length prefix
		case 2:
			mx = 250 + rng.Intn(16)
		case 3:
			if q%40 == 0 {
				mx = 16380 + rng.Intn(12) // two-byte / three-byte length prefix
			} else {
				mx = 60 + rng.Intn(8)
			}
		default:
			mx = 6 + rng.Intn(40)
		}
		capacity := rng.Intn(4)
		if rng.Chance(15) {
			capacity = 8
		}
		add("new %d %d", capacity, mx)
		nops := 4 + rng.Intn(30)
		closeAt := -1
		if rng.Chance(30) {
			closeAt = rng.Intn(nops)
		}
		recvBias := 5 + rng.Intn(40)
		for i := 0; i < nops; i++ {
			if i == closeAt {
				add("close")
				if nops > i+5 {
					nops = i + 5 // a short tail of use-after-close
				}
				continue
			}
			switch k := rng.Intn(100); {
			case k < recvBias:
				add("recv")
			case k < recvBias+8:
				add("fire")
			case k < recvBias+11:
				add("late")
			default:
				var n int
				switch rng.Intn(7) {
				case 0: // at / near the limit (payload, payload+overhead)
					n = mx - rng.Intn(5)
				case 1:
					n = mx + 1 + rng.Intn(3)
				case 2:
					n = 0
				case 3:
					n = mx / 2
				case 4:
					n = mx/2 - 1 - rng.Intn(3)
				default:
					n = rng.Intn(mx/3 + 2)
				}
				if n < 0 {
					n = 0
				}
				add("send %d %d", n, rng.Intn(256))
			}
		}
		if rng.Chance(75) {
			add("close")
			for i := 0; i < capacity+2; i++ {
				add("recv")
			}
		}
		if rng.Chance(10) { // decoder on mutated encoder output
			var ms [][]byte
			for i := rng.Intn(4); i >= 0; i-- {
				ms = append(ms, rng.Bytes(rng.Intn(5)))
			}
			b := CreateBatchMessage(ms)
			if len(b) > 0 && rng.Chance(70) {
				switch rng.Intn(4) {
				case 0:
					b[rng.Intn(len(b))] ^= byte(1 << uint(rng.Intn(8)))
				case 1:
					b = b[:rng.Intn(len(b))]
				case 2:
					b = append(b, rng.Bytes(1+rng.Intn(2))...)
				default:
					b[rng.Intn(len(b))] = []byte{0x0a, 0x00, 0x80, 0x81}[rng.Intn(4)]
				}
			}
			add("dec %s", verifh.Hex(b))
		}
	}
	return lines
}
