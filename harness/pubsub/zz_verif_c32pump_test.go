package pubsub

import (
	"bytes"
	"fmt"
	"net/http"
	"net/http/httptest"
	"strconv"
	"strings"
	"testing"
	"time"

	"github.com/ava-labs/avalanchego/utils/logging"
	"github.com/gorilla/websocket"

	"github.com/ava-labs/hypersdk/internal/verifh"
)

// C32, oracle-only tie for what goes on the wire: the real Connection.writePump writes the
// batches of the real MessageBuffer to a real (loopback, httptest) websocket peer.
// "Every emitted batch encodes to at most the configured maximum size" is checked per frame
// received by the peer; the frames must decode to the accepted messages in order.
//
// op: pump <maxSize> <#msgs> <msg len lo> <msg len hi> <prefill 0|1> <seed>
//     prefill=1: the producer is ahead of the writer (everything queued, buffer closed, then the
//     write pump starts: a backlog of batches); prefill=0: writer and producer run concurrently.
func TestVerifC32Pump(t *testing.T) {
	r := verifh.Start("C32")
	defer r.Finish()
	lines := r.ReplayLines()
	if lines == nil {
		// corpus first: a backlog of 8 one-message batches (seeded change C32-m3)
		lines = append(lines, "pump 1000 8 600 600 1 1", "pump 1000 8 600 600 0 2", "pump 20 6 8 8 1 3", "pump 300 5 127 128 1 4")
		n := r.N(40, 1500)
		for i := 0; i < n; i++ {
			mx := []int{16, 40, 64, 130, 260, 1000, 5000}[r.RNG.Intn(7)]
			lo := r.RNG.Intn(mx)
			hi := lo + r.RNG.Intn(mx-lo+3)
			lines = append(lines, fmt.Sprintf("pump %d %d %d %d %d %d", mx, 1+r.RNG.Intn(40), lo, hi, r.RNG.Intn(2), r.RNG.Intn(1<<30)))
		}
	}
	for _, l := range lines {
		f := verifh.Fields(l)
		var a [6]int
		bad := len(f) != 7 || f[0] != "pump"
		for i := 0; !bad && i < 6; i++ {
			v, err := strconv.Atoi(f[i+1])
			if err != nil || v < 0 {
				bad = true
			}
			a[i] = v
		}
		if bad || a[1] > 60 || a[2] > a[3] {
			r.Emit(l, "bad-op")
			continue
		}
		r.Emit(l, "done")
		c32PumpScenario(r, a[0], a[1], a[2], a[3], a[4] == 1, uint64(a[5]))
	}
}

func c32PumpScenario(r *verifh.Run, mx, n, lo, hi int, prefill bool, seed uint64) {
	cfg := NewDefaultServerConfig()
	cfg.MaxWriteMessageSize = mx
	cfg.MaxPendingMessages = 64 // >= number of batches: nothing is dropped
	cfg.MaxMessageWait = time.Hour
	if !prefill {
		cfg.MaxMessageWait = 200 * time.Microsecond
	}
	s := New(logging.NoLog{}, cfg, nil)
	rng := verifh.NewRNG(seed)
	msgs := make([][]byte, n)
	for i := range msgs {
		msgs[i] = c32Msg(lo+rng.Intn(hi-lo+1), rng.Intn(256))
		if len(msgs[i]) > 0 {
			msgs[i][0] = byte(i) // distinguishable
		}
	}
	acceptedCh := make(chan [][]byte, 1)
	srv := httptest.NewServer(http.HandlerFunc(func(w http.ResponseWriter, req *http.Request) {
		wsConn, err := s.upgrader.Upgrade(w, req, nil)
		if err != nil {
			acceptedCh <- nil
			return
		}
		c := &Connection{
			s:    s,
			conn: wsConn,
			mb:   NewMessageBuffer(s.log, cfg.MaxPendingMessages, cfg.MaxWriteMessageSize, cfg.MaxMessageWait),
		}
		c.active.Store(true)
		s.conns.Add(c)
		if !prefill {
			go c.writePump()
		}
		var acc [][]byte
		for i, m := range msgs {
			if c.Send(m) {
				acc = append(acc, m)
			}
			if !prefill && i%5 == 4 {
				time.Sleep(300 * time.Microsecond)
			}
		}
		_ = c.mb.Close() // flushes the last batch; writePump sends the close frame and exits
		if prefill {
			go c.writePump()
		}
		acceptedCh <- acc
	}))
	defer srv.Close()

	client, resp, err := websocket.DefaultDialer.Dial("ws"+strings.TrimPrefix(srv.URL, "http"), nil)
	if err != nil {
		r.Violation("pump-harness-dial", "dial: %v", err)
		return
	}
	defer resp.Body.Close()
	defer client.Close()
	_ = client.SetReadDeadline(time.Now().Add(10 * time.Second))
	var got [][]byte
	frames, maxFrame := 0, 0
	for {
		_, frame, err := client.ReadMessage()
		if err != nil {
			if !websocket.IsCloseError(err, websocket.CloseNormalClosure, websocket.CloseNoStatusReceived, websocket.CloseAbnormalClosure) &&
				!strings.Contains(err.Error(), "EOF") && !strings.Contains(err.Error(), "closed") {
				r.Violation("pump-read-error", "peer read failed: %v", err)
			}
			break
		}
		frames++
		if len(frame) > maxFrame {
			maxFrame = len(frame)
		}
		if len(frame) > mx {
			r.Violation("frame-exceeds-max", "websocket frame of %d bytes, MaxWriteMessageSize %d (%d messages, prefill=%v)", len(frame), mx, n, prefill)
		}
		ms, err := ParseBatchMessage(frame)
		if err != nil {
			r.Violation("frame-does-not-decode", "frame %x", frame)
			continue
		}
		got = append(got, ms...)
	}
	var acc [][]byte
	select {
	case acc = <-acceptedCh:
	case <-time.After(10 * time.Second):
		r.Violation("hang", "server handler did not finish")
		return
	}
	if len(got) != len(acc) {
		r.Violation("frame-order", "peer decoded %d messages from %d frames, %d were accepted (nothing dropped: queue 64)", len(got), frames, len(acc))
		return
	}
	for i := range acc {
		if !bytes.Equal(acc[i], got[i]) {
			r.Violation("frame-order", "message %d differs on the wire", i)
			return
		}
	}
	r.Count(fmt.Sprintf("pump:prefill=%v", prefill))
	if frames >= 2 {
		r.Distinct(fmt.Sprintf("pump/%d/%d/%d/%v", mx, n, frames, prefill))
	}
}
