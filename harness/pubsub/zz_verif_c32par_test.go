package pubsub

import (
	"bytes"
	"encoding/binary"
	"fmt"
	"strconv"
	"sync"
	"sync/atomic"
	"testing"
	"time"

	"github.com/ava-labs/hypersdk/internal/verifh"
)

// C32, oracle-only tie with real goroutines: several producers, the real timer (short
// timeout), a consumer draining Queue, Close at a random point. No output depends on the
// schedule (one "done" line per scenario); the property is evaluated on what was observed.
//
// op: par <producers> <msgs per producer> <maxSize> <queue capacity> <close after n sends | -1> <seed>
//     strand <maxSize> <len1> <len2>  two Sends, then silence: with the REAL timer (2ms) every
//                               accepted message must come out of Queue within a generous deadline
//     closerace <iterations>    Close racing with the timer callback (Send; wait ~timeout; Close)
//     closerace-det <iterations> the same schedule forced: while another lock holder (standing
//                               for a Send in progress) has the mutex, Close queues for it first and
//                               the due timer callback second
func TestVerifC32Par(t *testing.T) {
	r := verifh.Start("C32")
	defer r.Finish()
	lines := r.ReplayLines()
	if lines == nil {
		// corpus first: Close while the timer callback is running (deadlocked in the unrepaired
		// code: Close held the mutex while Timer.Stop waited for the callback, which needs the mutex)
		for _, st := range []string{"strand 20 8 8", "strand 10 5 5", "strand 300 127 128", "strand 40 30 30"} {
			lines = append(lines, st)
		}
		lines = append(lines, "closerace-det 3", fmt.Sprintf("closerace %d", r.N(1000, 60000)))
		n := r.N(150, 4000)
		for i := 0; i < n; i++ {
			closeAfter := -1
			if r.RNG.Chance(50) {
				closeAfter = r.RNG.Intn(200)
			}
			mx := 12 + r.RNG.Intn(60)
			if r.RNG.Chance(20) {
				mx = 126 + r.RNG.Intn(10)
			}
			lines = append(lines, fmt.Sprintf("par %d %d %d %d %d %d", 1+r.RNG.Intn(4), 1+r.RNG.Intn(60), mx,
				[]int{0, 1, 2, 64, 1024}[r.RNG.Intn(5)], closeAfter, r.RNG.Intn(1<<30)))
		}
	}
	for _, l := range lines {
		f := verifh.Fields(l)
		if len(f) == 2 && f[0] == "closerace" {
			n, err := strconv.Atoi(f[1])
			if err != nil || n < 0 {
				r.Emit(l, "bad-op")
				continue
			}
			r.Emit(l, "done")
			c32CloseRace(r, n)
			continue
		}
		if len(f) == 4 && f[0] == "strand" {
			mx, e1 := strconv.Atoi(f[1])
			n1, e2 := strconv.Atoi(f[2])
			n2, e3 := strconv.Atoi(f[3])
			if e1 != nil || e2 != nil || e3 != nil || mx < 0 || n1 < 0 || n2 < 0 {
				r.Emit(l, "bad-op")
				continue
			}
			r.Emit(l, "done")
			c32Strand(r, mx, n1, n2)
			continue
		}
		if len(f) == 2 && f[0] == "closerace-det" {
			n, err := strconv.Atoi(f[1])
			if err != nil || n < 0 {
				r.Emit(l, "bad-op")
				continue
			}
			r.Emit(l, "done")
			for i := 0; i < n; i++ {
				if !c32CloseRaceDet(r) {
					break
				}
			}
			continue
		}
		if len(f) != 7 || f[0] != "par" {
			r.Emit(l, "bad-op")
			continue
		}
		var a [6]int
		bad := false
		for i := range a {
			v, err := strconv.Atoi(f[i+1])
			if err != nil {
				bad = true
			}
			a[i] = v
		}
		if bad || a[0] < 1 || a[0] > 16 || a[1] < 0 || a[2] < 0 || a[3] < 0 {
			r.Emit(l, "bad-op")
			continue
		}
		r.Emit(l, "done")
		c32ParScenario(r, a[0], a[1], a[2], a[3], a[4], uint64(a[5]))
	}
}

// c32CloseRaceDet forces the schedule "a producer holds the mutex; Close arrives; the timer
// fires; the producer releases the mutex": Close is the first waiter, the callback the second.
func c32CloseRaceDet(r *verifh.Run) bool {
	m := NewMessageBuffer(&c32Log{}, 4, 100, 20*time.Millisecond)
	_ = m.Send([]byte{1, 2, 3}) // arms the timer
	m.l.Lock()                  // a lock holder (e.g. a Send in progress)
	done := make(chan struct{})
	go func() { _ = m.Close(); close(done) }() // first waiter
	time.Sleep(60 * time.Millisecond)          // the timer fires: the callback is the second waiter
	m.l.Unlock()
	select {
	case <-done:
	case <-time.After(8 * time.Second):
		r.Violation("close-deadlocks-with-timer", "Close did not return within 8s: it holds the mutex inside Timer.Stop while the timer callback waits for the mutex")
		return false
	}
	got := 0
	for b := range m.Queue {
		ms, _ := ParseBatchMessage(b)
		got += len(ms)
	}
	if got != 1 {
		r.Violation("lost-without-full-queue", "closerace-det: 1 message accepted, %d received", got)
		return false
	}
	r.Count("closerace-det:ok")
	return true
}

// c32Strand: no further Send/Close after the two Sends - only the timer can emit what is pending.
func c32Strand(r *verifh.Run, mx, n1, n2 int) {
	m := NewMessageBuffer(&c32Log{}, 8, mx, 2*time.Millisecond)
	defer func() { _ = m.Close() }()
	accepted := 0
	for i, n := range []int{n1, n2} {
		if m.Send(c32Msg(n, i+1)) == nil {
			accepted++
		}
	}
	got := 0
	deadline := time.After(5 * time.Second)
	for got < accepted {
		select {
		case b := <-m.Queue:
			ms, _ := ParseBatchMessage(b)
			got += len(ms)
		case <-deadline:
			r.Violation("accepted-message-never-flushed",
				"maxSize %d, Send(%d bytes), Send(%d bytes), then silence: %d accepted, only %d emitted within 5s (timer timeout 2ms)", mx, n1, n2, accepted, got)
			return
		}
	}
	r.Count("strand:ok")
}

func c32CloseRace(r *verifh.Run, n int) {
	for i := 0; i < n; i++ {
		m := NewMessageBuffer(&c32Log{}, 4, 100, 50*time.Microsecond)
		_ = m.Send([]byte{1, 2, 3})
		time.Sleep(time.Duration(40+i%30) * time.Microsecond)
		done := make(chan struct{})
		go func() { _ = m.Close(); close(done) }()
		select {
		case <-done:
		case <-time.After(8 * time.Second):
			r.Violation("close-deadlocks-with-timer", "Close did not return within 8s while the timer callback was due (iteration %d)", i)
			return
		}
		// everything accepted must have been flushed by Close
		got := 0
		for b := range m.Queue {
			ms, _ := ParseBatchMessage(b)
			got += len(ms)
		}
		if got != 1 {
			r.Violation("lost-without-full-queue", "closerace iteration %d: 1 message accepted, %d received", i, got)
			return
		}
	}
	r.Count("closerace:iterations-ok")
}

func c32ParScenario(r *verifh.Run, producers, per, mx, capacity, closeAfter int, seed uint64) {
	lg := &c32Log{}
	m := NewMessageBuffer(lg, capacity, mx, 200*time.Microsecond)
	var (
		wg       sync.WaitGroup
		sends    atomic.Int64
		accepted = make([][]uint32, producers) // sequence numbers accepted per producer
		received = make([][]uint32, producers)
		tooBig   atomic.Int64
		badBatch atomic.Int64
		consumed = make(chan struct{})
	)
	go func() { // consumer
		defer close(consumed)
		for b := range m.Queue {
			if len(b) > mx {
				tooBig.Add(1)
			}
			ms, err := ParseBatchMessage(b)
			if err != nil {
				badBatch.Add(1)
				continue
			}
			for _, msg := range ms {
				if len(msg) < 5 || int(msg[0]) >= producers {
					badBatch.Add(1)
					continue
				}
				received[msg[0]] = append(received[msg[0]], binary.BigEndian.Uint32(msg[1:5]))
			}
		}
	}()
	closeOnce := func() { _ = m.Close() }
	for p := 0; p < producers; p++ {
		wg.Add(1)
		go func(p int) {
			defer wg.Done()
			rng := verifh.NewRNG(seed + uint64(p)*7919)
			for i := 0; i < per; i++ {
				msg := make([]byte, 5+rng.Intn(mx/2+1))
				msg[0] = byte(p)
				binary.BigEndian.PutUint32(msg[1:5], uint32(i))
				err := m.Send(msg)
				if err == nil {
					accepted[p] = append(accepted[p], uint32(i))
				} else if err == ErrClosed {
					return
				}
				if n := sends.Add(1); closeAfter >= 0 && int(n) == closeAfter {
					closeOnce()
				}
				if rng.Chance(5) {
					time.Sleep(time.Duration(rng.Intn(400)) * time.Microsecond) // lets the timer fire
				}
			}
		}(p)
	}
	done := make(chan struct{})
	go func() { wg.Wait(); closeOnce(); <-consumed; close(done) }()
	select {
	case <-done:
	case <-time.After(8 * time.Second):
		r.Violation("hang", "producers/consumer/Close did not finish within 8s (par %d %d %d %d %d)", producers, per, mx, capacity, closeAfter)
		return
	}
	if tooBig.Load() > 0 {
		r.Violation("encoded-batch-exceeds-max", "%d batches larger than maxSize %d (concurrent run)", tooBig.Load(), mx)
	}
	if badBatch.Load() > 0 {
		r.Violation("batch-does-not-decode", "%d undecodable batches/messages (concurrent run)", badBatch.Load())
	}
	for p := 0; p < producers; p++ {
		// strictly increasing sub-sequence of what this producer had accepted
		j := 0
		for _, s := range received[p] {
			for j < len(accepted[p]) && accepted[p][j] != s {
				j++
			}
			if j == len(accepted[p]) {
				r.Violation("reordered-duplicated-or-invented", "producer %d: received %v, accepted %v", p, received[p], accepted[p])
				return
			}
			j++
		}
		if lg.dropped == 0 && len(received[p]) != len(accepted[p]) {
			r.Violation("lost-without-full-queue", "producer %d: accepted %d, received %d, nothing dropped", p, len(accepted[p]), len(received[p]))
			return
		}
	}
	if lg.dropped == 0 {
		r.Distinct(fmt.Sprintf("%d/%d/%d/%d/%d", producers, per, mx, capacity, closeAfter))
		r.Count("par:complete")
	} else {
		r.Count("par:with-drops")
	}
	_ = bytes.MinRead
}
