package validitywindow

import (
	"context"
	"encoding/binary"
	"errors"
	"fmt"
	"math"
	"strconv"
	"strings"
	"sync"
	"sync/atomic"
	"testing"
	"time"

	"github.com/ava-labs/avalanchego/ids"
	"github.com/ava-labs/avalanchego/trace"
	"github.com/ava-labs/avalanchego/utils/logging"

	"github.com/ava-labs/hypersdk/internal/verifh"
)

// C22: real BlockFetcherClient + Syncer against a scripted (adversarial) NetworkBlockFetcher,
// with forward targets (UpdateSyncTarget) delivered at quiescent points: while the backfill
// goroutine is parked inside the scripted fetcher and the consumer has drained the channel.

type c22Item struct {
	line   int    // index into seq.lines
	target uint64 // kind == "target"
	kind   string // target | err | honest | blocks
	keep   bool   // resp with "=": leave minTimestamp to the syncer
	newMin int64
	k      int
	raws   [][]byte
}

type c22Seq struct {
	lines   []string // op lines of this sequence, reset first
	outs    []string
	W       int64
	U       int
	failAt  int
	blocks  map[uint64]*vfBlock
	index   *vfIndex
	target  *vfBlock // current sync target (guarded by fetcher.mu once started)
	items   []c22Item
	viol    []string
	counts  []string
	nontriv bool
}

func c22Enc(n uint64) []byte { return binary.BigEndian.AppendUint64(nil, n) }

// the BlockParser: exactly 8 bytes naming a known block; returns a fresh copy whose
// GetContainers call (made once by AcceptHistorical) is counted.
type c22Parser struct {
	s        *c22Seq
	histDone *atomic.Int64
}

func (p c22Parser) ParseBlock(_ context.Context, b []byte) (*vfBlock, error) {
	if len(b) == 8 {
		if blk, ok := p.s.blocks[binary.BigEndian.Uint64(b)]; ok {
			cp := *blk
			cp.onContainers = func() { p.histDone.Add(1) }
			return &cp, nil
		}
	}
	return nil, errors.New("unparsable")
}

type c22Sampler struct{}

func (c22Sampler) Sample(context.Context, int) []ids.NodeID { return []ids.NodeID{{1}} }

type c22Store struct {
	mu     sync.Mutex
	saved  []*vfBlock
	failAt int
	n      int
	failed atomic.Bool
}

func (s *c22Store) SaveHistorical(b *vfBlock) error {
	s.mu.Lock()
	defer s.mu.Unlock()
	if s.failAt >= 0 && s.n == s.failAt {
		s.failed.Store(true)
		return errors.New("disk full")
	}
	s.n++
	s.saved = append(s.saved, b)
	return nil
}

type c22Req struct {
	height uint64
	min    int64
	item   int
}

type c22Fetcher struct {
	mu        sync.Mutex
	s         *c22Seq
	syncer    *Syncer[vfTx, *vfBlock]
	client    *BlockFetcherClient[*vfBlock]
	tvw       *TimeValidityWindow[vfTx]
	store     *c22Store
	histDone  atomic.Int64
	oldest    *vfBlock
	pos       int // next script item
	stopped   bool
	forced    bool // some served event set minTimestamp explicitly (environment, not the syncer)
	reqs      []c22Req
	exhausted chan struct{}
	once      sync.Once
}

func (s *c22Seq) mainChain() map[uint64]*vfBlock { // height → block, for ancestors-or-self of target
	m := map[uint64]*vfBlock{}
	cur := s.target
	for {
		m[cur.height] = cur
		if cur.height == 0 {
			return m
		}
		p, ok := s.blocks[cur.parent]
		if !ok {
			return m
		}
		cur = p
	}
}

func (f *c22Fetcher) isDone() bool {
	select {
	case <-f.syncer.doneChan:
		return true
	default:
		return false
	}
}

// quiesce waits until the consumer goroutine has handled everything the client emitted.
// fromClient: called on the client goroutine (inside the fetch hook), where reading
// client.lastBlock is race free; otherwise the client goroutine has exited or is irrelevant
// (consumer finished or gone) and nothing is in flight.
func (f *c22Fetcher) quiesce(fromClient bool) {
	if !fromClient || f.client.lastBlock == nil {
		return
	}
	emitted := 0
	last := f.client.lastBlock.GetID()
	for cur := f.oldest; cur.GetID() != last; emitted++ {
		p, ok := f.s.blocks[cur.parent]
		if !ok {
			break
		}
		cur = p
	}
	want := int64(emitted)
	if f.s.failAt >= 0 && emitted > f.s.failAt {
		want = int64(f.s.failAt)
	}
	deadline := time.Now().Add(30 * time.Second)
	for time.Now().Before(deadline) {
		if f.histDone.Load() >= want && (want == int64(emitted) || f.store.failed.Load()) {
			break
		}
		time.Sleep(200 * time.Microsecond)
	}
	f.tvw.mu.Lock() // AcceptHistorical holds the mutex from before GetContainers until seen.Add is done
	f.tvw.mu.Unlock() //nolint:staticcheck
}

// runTargets executes the target items at the current script position (f.mu held).
func (f *c22Fetcher) runTargets(fromClient bool) {
	for f.pos < len(f.s.items) && f.s.items[f.pos].kind == "target" {
		it := f.s.items[f.pos]
		f.pos++
		f.quiesce(fromClient)
		t := f.s.blocks[it.target]
		_ = f.syncer.UpdateSyncTarget(context.Background(), t)
		f.s.target = t
		done := f.isDone()
		f.s.outs[it.line] = fmt.Sprintf("done=%v", done)
		if done {
			f.s.strongOracle("target "+strconv.FormatUint(t.n, 10), f)
		}
	}
}

func (f *c22Fetcher) FetchBlocksFromPeer(ctx context.Context, _ ids.NodeID, req *BlockFetchRequest) (*BlockFetchResponse, error) {
	f.mu.Lock()
	if f.stopped {
		f.mu.Unlock()
		<-ctx.Done()
		return nil, ctx.Err()
	}
	f.runTargets(true)
	if f.isDone() { // forward sync completed the window: Close() cancelled the fetch context
		f.mu.Unlock()
		<-ctx.Done()
		return nil, ctx.Err()
	}
	if f.pos >= len(f.s.items) {
		f.mu.Unlock()
		f.once.Do(func() { close(f.exhausted) })
		<-ctx.Done()
		return nil, ctx.Err()
	}
	it := f.s.items[f.pos]
	f.reqs = append(f.reqs, c22Req{req.BlockHeight, req.MinTimestamp, f.pos})
	f.pos++
	if !it.keep {
		f.syncer.minTimestamp.Store(it.newMin)
		f.forced = true
	}
	var resp *BlockFetchResponse
	var err error
	switch it.kind {
	case "err":
		err = errors.New("peer error")
	case "honest":
		mc := f.s.mainChain()
		resp = &BlockFetchResponse{}
		for i := 0; i < it.k; i++ {
			if uint64(i) > req.BlockHeight {
				break
			}
			if b, ok := mc[req.BlockHeight-uint64(i)]; ok {
				resp.Blocks = append(resp.Blocks, c22Enc(b.n))
			}
		}
	default:
		resp = &BlockFetchResponse{Blocks: it.raws}
	}
	f.mu.Unlock()
	return resp, err
}

func (s *c22Seq) violation(key, format string, a ...any) {
	s.viol = append(s.viol, key+"\x00"+fmt.Sprintf(format, a...))
}

func (s *c22Seq) seenSet(tvw *TimeValidityWindow[vfTx]) map[int]bool {
	m := map[int]bool{}
	for i := 0; i < s.U; i++ {
		if tvw.seen.Any([]vfTx{{n: uint64(i)}}) {
			m[i] = true
		}
	}
	return m
}

// strongOracle: the property's statement whenever the syncer reports done — every tx of the
// current target or of one of its ancestors that VerifyTimestamp could still admit in a later
// block (expiry >= target.ts; hence ancestor timestamp >= target.ts - window) must be tracked.
// Only when minTimestamp was never overridden by the script (f.forced) and no save failed.
func (s *c22Seq) strongOracle(where string, f *c22Fetcher) {
	if f.forced || f.store.failed.Load() {
		return
	}
	seen := s.seenSet(f.tvw)
	t := s.target
	for cur := t; ; {
		for _, x := range cur.txs {
			if x.expiry >= t.ts && x.expiry != 0 && x.expiry >= cur.ts && x.expiry <= cur.ts+s.W && int(x.n) < s.U && !seen[int(x.n)] {
				s.violation("done-before-window-complete", "%s: syncer reports done but tx %d (expiry %d) of ancestor %d (ts %d) of target %d (ts %d, window %d) is not tracked",
					where, x.n, x.expiry, cur.n, cur.ts, t.n, t.ts, s.W)
				return
			}
		}
		p, ok := s.blocks[cur.parent]
		if !ok || cur.height == 0 {
			break
		}
		cur = p
	}
	s.counts = append(s.counts, "strong-oracle-evaluated")
}

func (s *c22Seq) run() {
	ctx, cancel := context.WithCancel(context.Background())
	defer cancel()
	s.outs = make([]string, len(s.lines))
	s.blocks = map[uint64]*vfBlock{}
	s.index = &vfIndex{blocks: map[ids.ID]*vfBlock{}}
	started := false
	for i, l := range s.lines {
		f := verifh.Fields(l)
		switch {
		case f[0] == "reset" && len(f) == 4:
			s.W, s.U, s.failAt = verifh.I(f[1]), int(verifh.U(f[2])), int(verifh.I(f[3]))
			s.outs[i] = "ok"
		case f[0] == "blk" && len(f) >= 6 && len(f) == 6+2*int(verifh.U(f[5])) && !started:
			b := newVfBlock(verifh.U(f[1]), verifh.U(f[2]), verifh.I(f[3]), verifh.U(f[4]), vfParseTxs(f[6:]))
			b.bytes = c22Enc(b.n)
			s.blocks[b.n] = b
			s.outs[i] = "ok"
		case f[0] == "idx+" && len(f) == 2 && s.blocks[verifh.U(f[1])] != nil && !started:
			s.index.blocks[vfID(verifh.U(f[1]))] = s.blocks[verifh.U(f[1])]
			s.outs[i] = "ok"
		case f[0] == "start" && len(f) == 2 && s.blocks[verifh.U(f[1])] != nil && !started:
			started = true
			s.target = s.blocks[verifh.U(f[1])]
			s.parseScript(i + 1)
			s.execute(ctx, cancel, i)
		case f[0] == "resp" || f[0] == "end" || f[0] == "target":
			if s.outs[i] == "" {
				s.outs[i] = "bad-op"
			}
		default:
			s.outs[i] = "bad-op"
		}
	}
}

// parseScript turns the lines after `start` into script items.
func (s *c22Seq) parseScript(from int) {
	for j := from; j < len(s.lines); j++ {
		g := verifh.Fields(s.lines[j])
		switch {
		case g[0] == "target" && len(g) == 2:
			n, err := strconv.ParseUint(g[1], 10, 64)
			if err != nil || s.blocks[n] == nil {
				s.outs[j] = "bad-op"
				continue
			}
			s.items = append(s.items, c22Item{line: j, kind: "target", target: n})
		case g[0] == "resp" && len(g) >= 3:
			it := c22Item{line: j, kind: g[2]}
			ok := true
			if g[1] == "=" {
				it.keep = true
			} else if v, err := strconv.ParseInt(g[1], 10, 64); err == nil {
				it.newMin = v
			} else {
				ok = false
			}
			switch {
			case g[2] == "err" && len(g) == 3:
			case g[2] == "honest" && len(g) == 4:
				k, err := strconv.ParseUint(g[3], 10, 32)
				ok = ok && err == nil
				it.k = int(k)
			case g[2] == "blocks":
				for _, tok := range g[3:] {
					switch {
					case strings.HasPrefix(tok, "b"):
						n, err := strconv.ParseUint(tok[1:], 10, 64)
						ok = ok && err == nil
						it.raws = append(it.raws, c22Enc(n))
					case strings.HasPrefix(tok, "x"):
						raw, err := verifh.UnHex(tok[1:])
						ok = ok && err == nil
						it.raws = append(it.raws, raw)
					default:
						ok = false
					}
				}
			default:
				ok = false
			}
			if !ok {
				s.outs[j] = "bad-op"
				continue
			}
			s.items = append(s.items, it)
		}
	}
}

func (s *c22Seq) execute(ctx context.Context, cancel context.CancelFunc, startLine int) {
	getW := func(int64) int64 { return s.W }
	target0 := s.target
	tvw, err := NewTimeValidityWindow[vfTx](ctx, logging.NoLog{}, trace.Noop, s.index, s.target, getW)
	if err != nil {
		s.outs[startLine] = "err"
		return
	}
	store := &c22Store{failAt: s.failAt}
	fetcher := &c22Fetcher{s: s, exhausted: make(chan struct{}), tvw: tvw, store: store}
	client := NewBlockFetcherClient[*vfBlock](fetcher, c22Parser{s, &fetcher.histDone}, c22Sampler{})
	syncer := NewSyncer[vfTx, *vfBlock](store, tvw, client, getW)
	fetcher.syncer, fetcher.client = syncer, client
	// oldestBlock is what populate finds locally; needed by the hook before Start returns
	probe, _ := NewTimeValidityWindow[vfTx](ctx, logging.NoLog{}, trace.Noop, s.index, s.target, getW)
	parents, _ := probe.populate(ctx, s.target)
	fetcher.oldest = parents[0].(*vfBlock)
	if err := syncer.Start(ctx, s.target); err != nil {
		s.outs[startLine] = "err"
		return
	}
	oldest := syncer.oldestBlock.(*vfBlock)
	if syncer.cancel == nil { // no fetch was started: window complete from local blocks
		s.outs[startLine] = "done"
	} else {
		o := target0.ts - s.W
		if o < 0 {
			o = 0
		}
		s.outs[startLine] = fmt.Sprintf("fetch oldest=%d min=%d", oldest.n, o)
	}
	// wait for completion, save error, or script exhaustion
	waitErr := make(chan error, 1)
	go func() { waitErr <- syncer.Wait(ctx) }()
	status := ""
	select {
	case <-waitErr:
	case <-fetcher.exhausted:
		time.Sleep(300 * time.Millisecond) // replayed scripts without a final closing event only
		status = "running"
	case <-time.After(120 * time.Second):
		status = "hang"
		s.violation("backfill-hang", "syncer neither finished nor asked for another peer response within 120 s")
	}
	// stop the script: whatever targets remain are delivered now (consumer finished or gone)
	fetcher.mu.Lock()
	fetcher.stopped = true
	for fetcher.pos < len(s.items) {
		if s.items[fetcher.pos].kind == "target" {
			fetcher.runTargets(false)
		} else {
			fetcher.pos++
		}
	}
	reqs := fetcher.reqs
	fetcher.mu.Unlock()
	done, failed := fetcher.isDone(), store.failed.Load()
	if status == "" {
		switch {
		case done:
			status = "done"
		case failed:
			status = "failed"
		default:
			status = "running"
		}
	}
	cancel()
	// per-event outputs
	served := map[int]c22Req{}
	for _, rq := range reqs {
		served[rq.item] = rq
	}
	for k, it := range s.items {
		if it.kind == "target" {
			continue
		}
		rq, ok := served[k]
		switch {
		case s.failAt >= 0:
			s.outs[it.line] = "-"
		case ok:
			s.outs[it.line] = fmt.Sprintf("req %d %d", rq.height, rq.min)
		default:
			s.outs[it.line] = "closed"
		}
	}
	s.oracle(status, done, fetcher, store, oldest, target0)
	for j := startLine + 1; j < len(s.lines); j++ {
		if s.lines[j] != "end" {
			continue
		}
		store.mu.Lock()
		var sv []string
		for _, b := range store.saved {
			sv = append(sv, strconv.FormatUint(b.n, 10))
		}
		store.mu.Unlock()
		svs := "-"
		if len(sv) > 0 {
			svs = strings.Join(sv, ",")
		}
		var seen []string
		ss := s.seenSet(tvw)
		for u := 0; u < s.U; u++ {
			if ss[u] {
				seen = append(seen, strconv.Itoa(u))
			}
		}
		sns := "-"
		if len(seen) > 0 {
			sns = strings.Join(seen, ",")
		}
		tvw.mu.Lock()
		la := tvw.lastAcceptedBlockHeight
		tvw.mu.Unlock()
		s.outs[j] = fmt.Sprintf("done=%v failed=%v saved=%s la=%d seen=%s", done, failed, svs, la, sns)
	}
}

// oracle: the property's statement on what the real syncer recorded.
func (s *c22Seq) oracle(status string, done bool, f *c22Fetcher, store *c22Store, oldest, target0 *vfBlock) {
	store.mu.Lock()
	saved := append([]*vfBlock(nil), store.saved...)
	store.mu.Unlock()
	reqs := f.reqs
	hasTargets := false
	for _, it := range s.items {
		hasTargets = hasTargets || it.kind == "target"
	}
	// (1) only the hash-linked ancestry, in order
	exp := oldest.parent
	for i, b := range saved {
		if b.n != exp {
			s.violation("saved-unlinked-block", "saved[%d]=block %d but the expected parent id is %d", i, b.n, exp)
			break
		}
		exp = b.parent
	}
	// (2) without forward targets: tracked set = populated set ∪ txs of the saved blocks
	if !hasTargets {
		seenAfter := s.seenSet(f.tvw)
		tvw2, _ := NewTimeValidityWindow[vfTx](context.Background(), logging.NoLog{}, trace.Noop, s.index, target0, func(int64) int64 { return s.W })
		tvw2.populate(context.Background(), target0)
		want := s.seenSet(tvw2)
		for _, b := range saved {
			for _, t := range b.txs {
				if t.expiry != 0 && int(t.n) < s.U {
					want[int(t.n)] = true
				}
			}
		}
		for u := 0; u < s.U; u++ {
			if want[u] != seenAfter[u] {
				s.violation("tracked-set-mismatch", "tx %d tracked=%v but ancestry says %v", u, seenAfter[u], want[u])
				break
			}
		}
	}
	// (3) done ⇒ the window is covered
	if done {
		s.strongOracle("end", f)
		if f.forced && !hasTargets && len(reqs) > 0 { // scripted minimum timestamps: done only past the largest of them, or at genesis
			maxMin := target0.ts - s.W
			if maxMin < 0 {
				maxMin = 0
			}
			for _, rq := range reqs {
				if it := s.items[rq.item]; !it.keep && it.newMin > maxMin {
					maxMin = it.newMin
				}
			}
			last := oldest
			if len(saved) > 0 {
				last = saved[len(saved)-1]
			}
			if !(last.ts < maxMin || last.height == 0) {
				s.violation("done-before-min-timestamp", "finished with oldest block %d (ts %d, height %d) and min timestamp never above %d", last.n, last.ts, last.height, maxMin)
			}
		}
	}
	// (4) progress / completion once a peer serves the real ancestry
	mc := s.mainChain()
	for k, rq := range reqs {
		if s.failAt >= 0 {
			break
		}
		if rq.height == math.MaxUint64 {
			s.violation("backfill-never-completes-at-genesis", "after receiving genesis (timestamp inside the window) the client requests height 0-1 = %d (event %d)", rq.height, k)
			break
		}
		it := s.items[rq.item]
		if it.kind == "honest" && it.k > 0 {
			if _, ok := mc[rq.height]; ok {
				s.nontriv = true
				if k+1 < len(reqs) && reqs[k+1].height >= rq.height && reqs[k+1].height != math.MaxUint64 {
					s.violation("no-progress-on-honest-response", "request %d for height %d was answered with the real ancestry but the next request asks for height %d", k, rq.height, reqs[k+1].height)
				}
			}
		}
	}
	if hasTargets {
		s.nontriv = true
		s.counts = append(s.counts, "seq:with-forward-targets")
	}
	s.counts = append(s.counts, "status:"+status, fmt.Sprintf("saved:%d", min(len(saved), 8)))
}

func TestVerifC22(t *testing.T) {
	r := verifh.Start("C22")
	defer r.Finish()
	lines := r.ReplayLines()
	if lines == nil {
		lines = c22Generate(r)
	}
	var seqs []*c22Seq
	var pre []string // lines before the first reset
	for _, l := range lines {
		if strings.HasPrefix(l, "reset") {
			seqs = append(seqs, &c22Seq{})
		}
		if len(seqs) == 0 {
			pre = append(pre, l)
			continue
		}
		s := seqs[len(seqs)-1]
		s.lines = append(s.lines, l)
	}
	for _, l := range pre {
		r.Emit(l, "bad-op")
	}
	// every sequence sleeps 500 ms per peer event inside the real client: run them concurrently
	var wg sync.WaitGroup
	sem := make(chan struct{}, 400)
	for _, s := range seqs {
		wg.Add(1)
		sem <- struct{}{}
		go func(s *c22Seq) {
			defer wg.Done()
			defer func() { <-sem }()
			s.run()
		}(s)
	}
	wg.Wait()
	for _, s := range seqs {
		first := r.Line() + 1
		for i, l := range s.lines {
			r.Emit(l, s.outs[i])
		}
		for _, c := range s.counts {
			r.Count(c)
		}
		if s.nontriv {
			r.Distinct(strings.Join(s.lines, "|"))
		}
		for _, v := range s.viol {
			kv := strings.SplitN(v, "\x00", 2)
			r.ViolationAt(kv[0], first, r.Line(), "%s", kv[1])
		}
	}
}

// ---- generator ----

func c22Generate(r *verifh.Run) []string {
	var out []string
	add := func(format string, a ...any) { out = append(out, fmt.Sprintf(format, a...)) }
	const MAX = int64(math.MaxInt64)
	// corpus: genesis inside the window (the C22 finding, fixed): chain 0..3, W=100, node knows only block 3
	add("reset 100 6 -1")
	add("blk 0 999999 0 0 0")
	add("blk 1 0 10 1 1 1 20")
	add("blk 2 1 20 2 1 2 30")
	add("blk 3 2 30 3 1 3 40")
	add("idx+ 3")
	add("start 3")
	add("resp 0 honest 1")
	add("resp 0 honest 5")
	add("resp 0 honest 1")
	add("resp 0 err")
	add("resp 0 honest 1")
	add("resp %d err", MAX)
	add("end")
	// corpus: malicious peer (wrong order, fork block, garbage), then honest
	add("reset 15 6 -1")
	add("blk 0 999999 0 0 0")
	add("blk 1 0 10 1 1 1 20")
	add("blk 2 1 20 2 1 2 30")
	add("blk 3 2 30 3 1 3 40")
	add("blk 4 3 40 4 0")
	add("blk 12 1 20 2 1 5 30") // fork sibling of 2
	add("idx+ 4")
	add("start 4")
	add("resp 25 blocks b2 b3")
	add("resp 25 blocks xdeadbeef b3")
	add("resp 25 blocks b3 b12 b1")
	add("resp 25 blocks b3")
	add("resp 25 blocks b12")
	add("resp 25 blocks b2 b1 b0")
	add("resp %d err", MAX)
	add("end")
	// corpus: forward path at the boundary. Blocks 1 and 2 share timestamp 5; the node holds 2 and 3
	// (oldestBlock = 2). Targets at oldest.ts+W-1, exactly +W (must NOT complete: tx 7 of block 1,
	// expiry 15, is still includable at time 15 and is not tracked), then +W+1 (completes).
	add("reset 10 9 -1")
	add("blk 0 999999 0 0 0")
	add("blk 1 0 5 1 1 7 15")
	add("blk 2 1 5 2 0")
	add("blk 3 2 6 3 1 1 12")
	add("blk 4 3 14 4 0")
	add("blk 5 4 15 5 1 2 20")
	add("blk 6 5 16 6 0")
	add("idx+ 2")
	add("idx+ 3")
	add("start 3")
	add("resp = err")
	add("target 4")
	add("resp = err")
	add("target 5")
	add("resp = blocks xdead")
	add("target 6")
	add("resp = err")
	add("resp %d err", MAX)
	add("end")
	rng := r.RNG
	nseq := r.N(320, 4000)
	for q := 0; q < nseq; q++ {
		forward := q%2 == 1
		W := []int64{0, 5, 15, 30, 100, 1000}[rng.Intn(6)]
		if forward {
			W = []int64{3, 5, 8, 15}[rng.Intn(4)]
		}
		failAt := -1
		if !forward && rng.Chance(10) {
			failAt = rng.Intn(4)
		}
		n := 3 + rng.Intn(8)     // start target height
		have := 1 + rng.Intn(2) // blocks held locally
		if rng.Chance(10) {
			have = n + 1
		}
		if forward {
			have = 1 + rng.Intn(3)
		}
		m := 0 // forward targets
		if forward {
			m = 2 + rng.Intn(4)
		}
		var body []string
		nextTx := 0
		txs := func(ts int64) string {
			nt := rng.Intn(3)
			var sb strings.Builder
			fmt.Fprintf(&sb, "%d", nt)
			for j := 0; j < nt; j++ {
				e := ts + int64(rng.Intn(int(W)+1))
				if rng.Chance(50) {
					e = ts + W
				}
				fmt.Fprintf(&sb, " %d %d", nextTx, e)
				nextTx++
			}
			return sb.String()
		}
		ts := int64([]int{0, 0, 3, 50}[rng.Intn(4)])
		tss := []int64{ts}
		body = append(body, fmt.Sprintf("blk 0 999999 %d 0 0", ts))
		var forks []uint64
		oldestH := n - have + 1
		if oldestH < 0 {
			oldestH = 0
		}
		for h := 1; h <= n+m; h++ {
			switch {
			case h > n && forward: // forward targets: aim at oldest.ts + W - 1, + W, + W + 1
				want := tss[oldestH] + W + int64(h-n) - 2 + int64(rng.Intn(2))
				if rng.Chance(25) {
					want = ts + int64(rng.Intn(3))
				}
				if want < ts {
					want = ts
				}
				ts = want
			case forward && rng.Chance(45): // runs of blocks sharing one timestamp
			case forward:
				ts += int64(1 + rng.Intn(3))
			default:
				ts += int64(rng.Intn(12))
			}
			if ts == 0 {
				ts = 1 // only genesis may have timestamp 0 (expiry 0 is never tracked)
			}
			tss = append(tss, ts)
			body = append(body, fmt.Sprintf("blk %d %d %d %d %s", h, h-1, ts, h, txs(ts)))
			if !forward && rng.Chance(25) { // a fork sibling (same height, other content)
				fid := uint64(100 + h)
				body = append(body, fmt.Sprintf("blk %d %d %d %d 1 %d %d", fid, h-1, ts, h, nextTx, ts+W))
				nextTx++
				forks = append(forks, fid)
			}
		}
		add("reset %d %d %d", W, nextTx+1, failAt)
		out = append(out, body...)
		for h := n; h > n-have && h >= 0; h-- {
			add("idx+ %d", h)
		}
		add("start %d", n)
		if forward {
			// slow / failing / lying peers while consensus keeps delivering targets
			for t := 1; t <= m; t++ {
				for e := rng.Intn(2); e >= 0; e-- {
					switch k := rng.Intn(100); {
					case k < 40:
						add("resp = err")
					case k < 55:
						add("resp = honest 0")
					case k < 70:
						add("resp = blocks x%s", verifh.Hex(rng.Bytes(1+rng.Intn(5))))
					case k < 80:
						add("resp = blocks b%d", rng.Intn(n+1))
					default:
						add("resp = honest %d", 1+rng.Intn(2))
					}
				}
				add("target %d", n+t)
			}
			if rng.Chance(50) {
				add("resp = honest %d", 1+rng.Intn(4))
			}
			add("resp %d err", MAX)
			add("end")
			continue
		}
		nev := 1 + rng.Intn(7)
		min0 := tss[n] - W
		if min0 < 0 {
			min0 = 0
		}
		curMin := min0
		for e := 0; e < nev; e++ {
			if rng.Chance(15) {
				curMin += int64(rng.Intn(15))
			}
			switch k := rng.Intn(100); {
			case k < 45:
				add("resp %d honest %d", curMin, 1+rng.Intn(4))
			case k < 55:
				add("resp %d err", curMin)
			case k < 60:
				add("resp %d honest 0", curMin)
			default:
				// adversarial: random mix of real blocks (any order), fork blocks, garbage
				var toks []string
				mm := 1 + rng.Intn(4)
				for j := 0; j < mm; j++ {
					switch x := rng.Intn(10); {
					case x < 6:
						toks = append(toks, fmt.Sprintf("b%d", rng.Intn(n+1)))
					case x < 8 && len(forks) > 0:
						toks = append(toks, fmt.Sprintf("b%d", forks[rng.Intn(len(forks))]))
					case x < 9:
						toks = append(toks, "x"+verifh.Hex(rng.Bytes(1+rng.Intn(9))))
					default:
						toks = append(toks, fmt.Sprintf("b%d", 5000+rng.Intn(5)))
					}
				}
				add("resp %d blocks %s", curMin, strings.Join(toks, " "))
			}
		}
		add("resp %d err", MAX)
		add("end")
	}
	return out
}
