package validitywindow

import (
	"context"
	"encoding/binary"
	"errors"
	"fmt"
	"math"
	"strconv"
	"strings"
	"sync"
	"testing"
	"time"

	"github.com/ava-labs/avalanchego/ids"
	"github.com/ava-labs/avalanchego/trace"
	"github.com/ava-labs/avalanchego/utils/logging"

	"github.com/ava-labs/hypersdk/internal/verifh"
)

// C22: real BlockFetcherClient + Syncer against a scripted (adversarial) NetworkBlockFetcher.

type c22Event struct {
	newMin int64
	kind   string // err | honest | blocks
	k      int
	raws   [][]byte
}

type c22Seq struct {
	lines   []string // op lines of this sequence, reset first
	outs    []string
	W       int64
	U       int
	failAt  int
	blocks  map[uint64]*vfBlock
	index   *vfIndex
	target  *vfBlock
	events  []c22Event
	evLine  []int // index into lines of every resp line
	viol    []string
	counts  []string
	nontriv bool
}

func c22Enc(n uint64) []byte { return binary.BigEndian.AppendUint64(nil, n) }

type c22Parser struct{ s *c22Seq }

func (p c22Parser) ParseBlock(_ context.Context, b []byte) (*vfBlock, error) {
	if len(b) == 8 {
		if blk, ok := p.s.blocks[binary.BigEndian.Uint64(b)]; ok {
			return blk, nil
		}
	}
	return nil, errors.New("unparsable")
}

type c22Sampler struct{}

func (c22Sampler) Sample(context.Context, int) []ids.NodeID { return []ids.NodeID{{1}} }

type c22Store struct {
	mu     sync.Mutex
	saved  []*vfBlock
	failAt int
	n      int
}

func (s *c22Store) SaveHistorical(b *vfBlock) error {
	s.mu.Lock()
	defer s.mu.Unlock()
	if s.failAt >= 0 && s.n == s.failAt {
		return errors.New("disk full")
	}
	s.n++
	s.saved = append(s.saved, b)
	return nil
}

type c22Req struct {
	height uint64
	min    int64
}

type c22Fetcher struct {
	mu        sync.Mutex
	s         *c22Seq
	syncer    *Syncer[vfTx, *vfBlock]
	k         int
	reqs      []c22Req
	exhausted chan struct{}
	once      sync.Once
}

func (s *c22Seq) mainChain() map[uint64]*vfBlock { // height → block, for ancestors-or-self of target
	m := map[uint64]*vfBlock{}
	cur := s.target
	for {
		m[cur.height] = cur
		if cur.height == 0 {
			return m
		}
		p, ok := s.blocks[cur.parent]
		if !ok {
			return m
		}
		cur = p
	}
}

func (f *c22Fetcher) FetchBlocksFromPeer(ctx context.Context, _ ids.NodeID, req *BlockFetchRequest) (*BlockFetchResponse, error) {
	f.mu.Lock()
	k := f.k
	f.k++
	if k < len(f.s.events) {
		f.reqs = append(f.reqs, c22Req{req.BlockHeight, req.MinTimestamp})
	}
	f.mu.Unlock()
	if k >= len(f.s.events) {
		f.once.Do(func() { close(f.exhausted) })
		<-ctx.Done()
		return nil, ctx.Err()
	}
	ev := f.s.events[k]
	f.syncer.minTimestamp.Store(ev.newMin)
	switch ev.kind {
	case "err":
		return nil, errors.New("peer error")
	case "honest":
		mc := f.s.mainChain()
		resp := &BlockFetchResponse{}
		for i := 0; i < ev.k; i++ {
			if uint64(i) > req.BlockHeight {
				break
			}
			if b, ok := mc[req.BlockHeight-uint64(i)]; ok {
				resp.Blocks = append(resp.Blocks, c22Enc(b.n))
			}
		}
		return resp, nil
	default:
		return &BlockFetchResponse{Blocks: ev.raws}, nil
	}
}

func (s *c22Seq) violation(key, format string, a ...any) {
	s.viol = append(s.viol, key+"\x00"+fmt.Sprintf(format, a...))
}

func (s *c22Seq) run() {
	ctx, cancel := context.WithCancel(context.Background())
	defer cancel()
	s.outs = make([]string, len(s.lines))
	s.blocks = map[uint64]*vfBlock{}
	s.index = &vfIndex{blocks: map[ids.ID]*vfBlock{}}
	var syncer *Syncer[vfTx, *vfBlock]
	var fetcher *c22Fetcher
	var store *c22Store
	var tvw *TimeValidityWindow[vfTx]
	var seenBefore map[int]bool
	var oldest *vfBlock
	started := false
	seenSet := func() map[int]bool {
		m := map[int]bool{}
		for i := 0; i < s.U; i++ {
			if tvw.seen.Any([]vfTx{{n: uint64(i)}}) {
				m[i] = true
			}
		}
		return m
	}
	for i, l := range s.lines {
		f := verifh.Fields(l)
		switch {
		case f[0] == "reset" && len(f) == 4:
			s.W, s.U, s.failAt = verifh.I(f[1]), int(verifh.U(f[2])), int(verifh.I(f[3]))
			s.outs[i] = "ok"
		case f[0] == "blk" && len(f) >= 6 && len(f) == 6+2*int(verifh.U(f[5])):
			b := newVfBlock(verifh.U(f[1]), verifh.U(f[2]), verifh.I(f[3]), verifh.U(f[4]), vfParseTxs(f[6:]))
			b.bytes = c22Enc(b.n)
			s.blocks[b.n] = b
			s.outs[i] = "ok"
		case f[0] == "idx+" && len(f) == 2 && s.blocks[verifh.U(f[1])] != nil:
			s.index.blocks[vfID(verifh.U(f[1]))] = s.blocks[verifh.U(f[1])]
			s.outs[i] = "ok"
		case f[0] == "start" && len(f) == 2 && s.blocks[verifh.U(f[1])] != nil && !started:
			started = true
			s.target = s.blocks[verifh.U(f[1])]
			// the script = all following resp lines
			for j := i + 1; j < len(s.lines); j++ {
				g := verifh.Fields(s.lines[j])
				if g[0] != "resp" || len(g) < 3 {
					continue
				}
				ev := c22Event{newMin: verifh.I(g[1]), kind: g[2]}
				ok := true
				switch {
				case g[2] == "err" && len(g) == 3:
				case g[2] == "honest" && len(g) == 4:
					ev.k = int(verifh.U(g[3]))
				case g[2] == "blocks":
					for _, tok := range g[3:] {
						switch {
						case strings.HasPrefix(tok, "b"):
							n, err := strconv.ParseUint(tok[1:], 10, 64)
							ok = ok && err == nil
							ev.raws = append(ev.raws, c22Enc(n))
						case strings.HasPrefix(tok, "x"):
							raw, err := verifh.UnHex(tok[1:])
							ok = ok && err == nil
							ev.raws = append(ev.raws, raw)
						default:
							ok = false
						}
					}
				default:
					ok = false
				}
				if !ok {
					s.outs[j] = "bad-op"
					continue
				}
				s.events = append(s.events, ev)
				s.evLine = append(s.evLine, j)
			}
			getW := func(int64) int64 { return s.W }
			var err error
			tvw, err = NewTimeValidityWindow[vfTx](ctx, logging.NoLog{}, trace.Noop, s.index, s.target, getW)
			if err != nil {
				s.outs[i] = "err"
				continue
			}
			store = &c22Store{failAt: s.failAt}
			fetcher = &c22Fetcher{s: s, exhausted: make(chan struct{})}
			client := NewBlockFetcherClient[*vfBlock](fetcher, c22Parser{s}, c22Sampler{})
			syncer = NewSyncer[vfTx, *vfBlock](store, tvw, client, getW)
			fetcher.syncer = syncer
			// what populate will find locally (for the oracle): seen set and oldest block
			if err := syncer.Start(ctx, s.target); err != nil {
				s.outs[i] = "err"
				continue
			}
			oldest = syncer.oldestBlock.(*vfBlock)
			// wait for completion, save error, or script exhaustion
			waitErr := make(chan error, 1)
			go func() { waitErr <- syncer.Wait(ctx) }()
			status := ""
			select {
			case err := <-waitErr:
				if err != nil {
					status = "failed"
				} else {
					status = "done"
				}
			case <-fetcher.exhausted:
				time.Sleep(300 * time.Millisecond) // replayed scripts without a final closing event only
				status = "running"
			case <-time.After(120 * time.Second):
				status = "hang"
				s.violation("backfill-hang", "syncer neither finished nor asked for another peer response within 120 s")
			}
			if syncer.cancel == nil { // no fetch was started: window complete from local blocks
				s.outs[i] = "done"
			}
			cancel()
			if s.outs[i] == "" {
				s.outs[i] = fmt.Sprintf("fetch oldest=%d min=%d", oldest.n, func() int64 {
					o := s.target.ts - s.W
					if o < 0 {
						o = 0
					}
					return o
				}())
			}
			_ = seenBefore
			// per-event outputs
			fetcher.mu.Lock()
			reqs := fetcher.reqs
			fetcher.mu.Unlock()
			for k, j := range s.evLine {
				switch {
				case s.failAt >= 0:
					s.outs[j] = "-"
				case k < len(reqs):
					s.outs[j] = fmt.Sprintf("req %d %d", reqs[k].height, reqs[k].min)
				default:
					s.outs[j] = "closed"
				}
			}
			s.oracle(status, reqs, store, oldest, seenSet())
			// end line
			for j := i + 1; j < len(s.lines); j++ {
				if s.lines[j] == "end" {
					store.mu.Lock()
					var sv []string
					for _, b := range store.saved {
						sv = append(sv, strconv.FormatUint(b.n, 10))
					}
					store.mu.Unlock()
					svs := "-"
					if len(sv) > 0 {
						svs = strings.Join(sv, ",")
					}
					var seen []string
					ss := seenSet()
					for u := 0; u < s.U; u++ {
						if ss[u] {
							seen = append(seen, strconv.Itoa(u))
						}
					}
					sns := "-"
					if len(seen) > 0 {
						sns = strings.Join(seen, ",")
					}
					tvw.mu.Lock()
					la := tvw.lastAcceptedBlockHeight
					tvw.mu.Unlock()
					s.outs[j] = fmt.Sprintf("done=%v failed=%v saved=%s la=%d seen=%s", status == "done", status == "failed", svs, la, sns)
				}
			}
		case f[0] == "resp" || f[0] == "end":
			if s.outs[i] == "" {
				s.outs[i] = "bad-op"
			}
		default:
			s.outs[i] = "bad-op"
		}
	}
}

// oracle: the property's statement on what the real syncer recorded.
func (s *c22Seq) oracle(status string, reqs []c22Req, store *c22Store, oldest *vfBlock, seenAfter map[int]bool) {
	store.mu.Lock()
	saved := append([]*vfBlock(nil), store.saved...)
	store.mu.Unlock()
	// (1) only the hash-linked ancestry, in order
	exp := oldest.parent
	for i, b := range saved {
		if b.n != exp {
			s.violation("saved-unlinked-block", "saved[%d]=block %d but the expected parent id is %d", i, b.n, exp)
			break
		}
		exp = b.parent
	}
	// (2) tracked set = populated set ∪ txs of the saved blocks (expiry 0 is never tracked)
	tvw2, _ := NewTimeValidityWindow[vfTx](context.Background(), logging.NoLog{}, trace.Noop, s.index, s.target, func(int64) int64 { return s.W })
	tvw2.populate(context.Background(), s.target)
	want := map[int]bool{}
	for u := 0; u < s.U; u++ {
		if tvw2.seen.Any([]vfTx{{n: uint64(u)}}) {
			want[u] = true
		}
	}
	for _, b := range saved {
		for _, t := range b.txs {
			if t.expiry != 0 && int(t.n) < s.U {
				want[int(t.n)] = true
			}
		}
	}
	for u := 0; u < s.U; u++ {
		if want[u] != seenAfter[u] {
			s.violation("tracked-set-mismatch", "tx %d tracked=%v but ancestry says %v", u, seenAfter[u], want[u])
			break
		}
	}
	// (3) done only past the window or at genesis
	maxMin := int64(math.MinInt64)
	o := s.target.ts - s.W
	if o < 0 {
		o = 0
	}
	maxMin = o
	for k := range reqs {
		if s.events[k].newMin > maxMin {
			maxMin = s.events[k].newMin
		}
	}
	last := oldest
	if len(saved) > 0 {
		last = saved[len(saved)-1]
	}
	if status == "done" && len(reqs) > 0 && !(last.ts < maxMin || last.height == 0) {
		s.violation("done-before-window-complete", "finished with oldest block %d (ts %d, height %d) and min timestamp never above %d", last.n, last.ts, last.height, maxMin)
	}
	// (4) progress / completion once a peer serves the real ancestry
	mc := s.mainChain()
	for k, rq := range reqs {
		if s.failAt >= 0 {
			break
		}
		if rq.height == math.MaxUint64 {
			s.violation("backfill-never-completes-at-genesis", "after receiving genesis (timestamp inside the window) the client requests height 0-1 = %d (event %d)", rq.height, k)
			break
		}
		ev := s.events[k]
		if ev.kind == "honest" && ev.k > 0 {
			if _, ok := mc[rq.height]; ok {
				s.nontriv = true
				if k+1 < len(reqs) && reqs[k+1].height >= rq.height && reqs[k+1].height != math.MaxUint64 {
					s.violation("no-progress-on-honest-response", "request %d for height %d was answered with the real ancestry but the next request asks for height %d", k, rq.height, reqs[k+1].height)
				}
			}
		}
	}
	s.counts = append(s.counts, "status:"+status, fmt.Sprintf("saved:%d", min(len(saved), 8)))
}

func TestVerifC22(t *testing.T) {
	r := verifh.Start("C22")
	defer r.Finish()
	lines := r.ReplayLines()
	if lines == nil {
		lines = c22Generate(r)
	}
	var seqs []*c22Seq
	var pre []string // lines before the first reset
	for _, l := range lines {
		if strings.HasPrefix(l, "reset") {
			seqs = append(seqs, &c22Seq{})
		}
		if len(seqs) == 0 {
			pre = append(pre, l)
			continue
		}
		s := seqs[len(seqs)-1]
		s.lines = append(s.lines, l)
	}
	for _, l := range pre {
		r.Emit(l, "bad-op")
	}
	// every sequence sleeps 500 ms per peer event inside the real client: run them concurrently
	var wg sync.WaitGroup
	sem := make(chan struct{}, 400)
	for _, s := range seqs {
		wg.Add(1)
		sem <- struct{}{}
		go func(s *c22Seq) {
			defer wg.Done()
			defer func() { <-sem }()
			s.run()
		}(s)
	}
	wg.Wait()
	for _, s := range seqs {
		first := r.Line() + 1
		for i, l := range s.lines {
			r.Emit(l, s.outs[i])
		}
		for _, c := range s.counts {
			r.Count(c)
		}
		if s.nontriv {
			r.Distinct(strings.Join(s.lines, "|"))
		}
		for _, v := range s.viol {
			kv := strings.SplitN(v, "\x00", 2)
			r.ViolationAt(kv[0], first, r.Line(), "%s", kv[1])
		}
	}
}

// ---- generator ----

func c22Generate(r *verifh.Run) []string {
	var out []string
	add := func(format string, a ...any) { out = append(out, fmt.Sprintf(format, a...)) }
	const MAX = int64(math.MaxInt64)
	// corpus: genesis inside the window (the C22 finding): chain 0..3, W=100, node knows only block 3
	add("reset 100 6 -1")
	add("blk 0 999999 0 0 0")
	add("blk 1 0 10 1 1 1 20")
	add("blk 2 1 20 2 1 2 30")
	add("blk 3 2 30 3 1 3 40")
	add("idx+ 3")
	add("start 3")
	add("resp 0 honest 1")
	add("resp 0 honest 5")
	add("resp 0 honest 1")
	add("resp 0 err")
	add("resp 0 honest 1")
	add("resp %d err", MAX)
	add("end")
	// corpus: malicious peer (wrong order, fork block, garbage), then honest
	add("reset 15 6 -1")
	add("blk 0 999999 0 0 0")
	add("blk 1 0 10 1 1 1 20")
	add("blk 2 1 20 2 1 2 30")
	add("blk 3 2 30 3 1 3 40")
	add("blk 4 3 40 4 0")
	add("blk 12 1 20 2 1 5 30") // fork sibling of 2
	add("idx+ 4")
	add("start 4")
	add("resp 25 blocks b2 b3")
	add("resp 25 blocks xdeadbeef b3")
	add("resp 25 blocks b3 b12 b1")
	add("resp 25 blocks b3")
	add("resp 25 blocks b12")
	add("resp 25 blocks b2 b1 b0")
	add("resp %d err", MAX)
	add("end")
	rng := r.RNG
	nseq := r.N(250, 4000)
	for q := 0; q < nseq; q++ {
		W := []int64{0, 5, 15, 30, 100, 1000}[rng.Intn(6)]
		U := 10
		failAt := -1
		if rng.Chance(10) {
			failAt = rng.Intn(4)
		}
		add("reset %d %d %d", W, U, failAt)
		n := 3 + rng.Intn(8)
		ts := int64([]int{0, 0, 3, 50}[rng.Intn(4)])
		type bl struct {
			id, parent uint64
			ts         int64
			h          uint64
		}
		chain := []bl{{0, 999999, ts, 0}}
		add("blk 0 999999 %d 0 0", ts)
		var forks []uint64
		for h := 1; h <= n; h++ {
			ts += int64(rng.Intn(12))
			nt := rng.Intn(3)
			var sb strings.Builder
			for j := 0; j < nt; j++ {
				fmt.Fprintf(&sb, " %d %d", rng.Intn(U), ts+int64(rng.Intn(int(W)+1)))
			}
			chain = append(chain, bl{uint64(h), uint64(h - 1), ts, uint64(h)})
			add("blk %d %d %d %d %d%s", h, h-1, ts, h, nt, sb.String())
			if rng.Chance(25) { // a fork sibling (same height, other content), and sometimes a child of it
				fid := uint64(100 + h)
				add("blk %d %d %d %d 1 %d %d", fid, h-1, ts, h, rng.Intn(U), ts+1)
				forks = append(forks, fid)
			}
		}
		// what the node has locally: the target and maybe some blocks right below it
		have := 1 + rng.Intn(2)
		if rng.Chance(10) {
			have = n + 1
		}
		for h := n; h > n-have && h >= 0; h-- {
			add("idx+ %d", h)
		}
		add("start %d", n)
		nev := 1 + rng.Intn(7)
		min0 := chain[n].ts - W
		if min0 < 0 {
			min0 = 0
		}
		curMin := min0
		for e := 0; e < nev; e++ {
			if rng.Chance(15) {
				curMin += int64(rng.Intn(15))
			}
			switch k := rng.Intn(100); {
			case k < 45:
				add("resp %d honest %d", curMin, 1+rng.Intn(4))
			case k < 55:
				add("resp %d err", curMin)
			case k < 60:
				add("resp %d honest 0", curMin)
			default:
				// adversarial: random mix of real blocks (any order), fork blocks, garbage
				var toks []string
				m := 1 + rng.Intn(4)
				for j := 0; j < m; j++ {
					switch x := rng.Intn(10); {
					case x < 6:
						toks = append(toks, fmt.Sprintf("b%d", rng.Intn(n+1)))
					case x < 8 && len(forks) > 0:
						toks = append(toks, fmt.Sprintf("b%d", forks[rng.Intn(len(forks))]))
					case x < 9:
						toks = append(toks, "x"+verifh.Hex(rng.Bytes(1+rng.Intn(9))))
					default:
						toks = append(toks, fmt.Sprintf("b%d", 5000+rng.Intn(5)))
					}
				}
				add("resp %d blocks %s", curMin, strings.Join(toks, " "))
			}
		}
		add("resp %d err", MAX)
		add("end")
	}
	return out
}
