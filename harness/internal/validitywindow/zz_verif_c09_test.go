package validitywindow

import (
	"context"
	"encoding/binary"
	"fmt"
	"sort"
	"strconv"
	"strings"
	"testing"

	"github.com/ava-labs/avalanchego/database"
	"github.com/ava-labs/avalanchego/ids"
	"github.com/ava-labs/avalanchego/trace"
	"github.com/ava-labs/avalanchego/utils/logging"
	"github.com/ava-labs/avalanchego/utils/set"

	"github.com/ava-labs/hypersdk/internal/verifh"
)

// ---- test doubles shared by the C09 and C22 harnesses (prefix vf) ----

type vfTx struct {
	n      uint64
	expiry int64
}

func vfID(n uint64) ids.ID {
	var id ids.ID
	binary.BigEndian.PutUint64(id[:8], n)
	id[31] = 0x5a
	return id
}

func (t vfTx) GetID() ids.ID    { return vfID(t.n) }
func (t vfTx) GetExpiry() int64 { return t.expiry }

type vfBlock struct {
	n, parent uint64
	ts        int64
	height    uint64
	txs       []vfTx
	ids       set.Set[ids.ID]
	bytes     []byte
	// onContainers, when set, is called at every GetContainers (C22: counts AcceptHistorical calls)
	onContainers func()
}

func newVfBlock(n, parent uint64, ts int64, height uint64, txs []vfTx) *vfBlock {
	b := &vfBlock{n: n, parent: parent, ts: ts, height: height, txs: txs, ids: set.NewSet[ids.ID](len(txs))}
	for _, t := range txs {
		b.ids.Add(t.GetID())
	}
	return b
}

func (b *vfBlock) GetID() ids.ID          { return vfID(b.n) }
func (b *vfBlock) GetParent() ids.ID      { return vfID(b.parent) }
func (b *vfBlock) GetTimestamp() int64    { return b.ts }
func (b *vfBlock) GetHeight() uint64      { return b.height }
func (b *vfBlock) GetBytes() []byte       { return b.bytes }
func (b *vfBlock) GetContainers() []vfTx {
	if b.onContainers != nil {
		b.onContainers()
	}
	return b.txs
}
func (b *vfBlock) Contains(id ids.ID) bool { return b.ids.Contains(id) }
func (b *vfBlock) String() string         { return fmt.Sprintf("vf%d", b.n) }

type vfIndex struct {
	blocks map[ids.ID]*vfBlock
}

func (x *vfIndex) GetExecutionBlock(_ context.Context, id ids.ID) (ExecutionBlock[vfTx], error) {
	if b, ok := x.blocks[id]; ok {
		return b, nil
	}
	return nil, database.ErrNotFound
}

func vfBits(b set.Bits, n int) string {
	var out []string
	for i := 0; i < n; i++ {
		if b.Contains(i) {
			out = append(out, strconv.Itoa(i))
		}
	}
	if len(out) == 0 {
		return "-"
	}
	return strings.Join(out, ",")
}

func vfParseTxs(f []string) []vfTx {
	txs := make([]vfTx, 0, len(f)/2)
	for i := 0; i+1 < len(f); i += 2 {
		txs = append(txs, vfTx{n: verifh.U(f[i]), expiry: verifh.I(f[i+1])})
	}
	return txs
}

// ---- C09 ----

type c09World struct {
	r      *verifh.Run
	W      int64
	U      int
	blocks map[uint64]*vfBlock
	index  *vfIndex
	vw     *TimeValidityWindow[vfTx]

	// ghost state for the oracle (the hypotheses of no_repeat_on_verified_chain)
	la          *vfBlock // block last given to Accept / head of the last populate
	ready       bool     // window complete (populate full, or backfilled past the window)
	disciplined bool     // every state-changing op since the last restart obeyed the discipline
	idExpiry    map[uint64]int64
	idFunc      bool // every id always carried the same expiry
	seqLine     int
}

func (w *c09World) ancestors(b *vfBlock) []*vfBlock { // proper ancestors, nearest first, via the full block table
	var out []*vfBlock
	cur := b
	for cur.height > 0 {
		p, ok := w.blocks[cur.parent]
		if !ok {
			break
		}
		out = append(out, p)
		cur = p
	}
	return out
}

// validAt: would the chain admit a tx with this expiry in a block at time ts? In the millisecond
// sequences (W >= 2000: block timestamps in ms around second boundaries, expiries whole seconds) this
// is the code's own check, VerifyTimestamp with the chain's divisor 1000 — the theorem's hypothesis
// "valid at its block" is exactly that comparison (ts <= expiry <= ts + W on the raw timestamp).
func (w *c09World) validAt(expiry, ts int64) bool {
	if expiry == 0 {
		return false
	}
	if w.W >= 2000 {
		return VerifyTimestamp(expiry, ts, 1000, w.W) == nil
	}
	return expiry >= ts && expiry <= ts+w.W
}

func (w *c09World) txsValid(b *vfBlock) bool {
	for _, t := range b.txs {
		if !w.validAt(t.expiry, b.ts) {
			return false
		}
	}
	return true
}

// chainValid: the block and all ancestors down to height 0 exist, are linked with height+1 and
// non-decreasing non-negative timestamps, and carry only txs valid at their block (C10, C11).
func (w *c09World) chainValid(b *vfBlock) bool {
	cur := b
	for {
		if !w.txsValid(cur) || cur.ts < 0 {
			return false
		}
		if cur.height == 0 {
			return len(cur.txs) == 0
		}
		p, ok := w.blocks[cur.parent]
		if !ok || p.height+1 != cur.height || p.ts > cur.ts {
			return false
		}
		cur = p
	}
}

func (w *c09World) descendsFrom(b, a *vfBlock) bool { // a is a proper ancestor of b
	for _, x := range w.ancestors(b) {
		if x == a {
			return true
		}
	}
	return false
}

func (w *c09World) dump() string {
	w.vw.mu.Lock()
	la := w.vw.lastAcceptedBlockHeight
	w.vw.mu.Unlock()
	var seen []string
	for i := 0; i < w.U; i++ {
		if w.vw.seen.Any([]vfTx{{n: uint64(i)}}) {
			seen = append(seen, strconv.Itoa(i))
		}
	}
	s := "-"
	if len(seen) > 0 {
		s = strings.Join(seen, ",")
	}
	return fmt.Sprintf("la=%d seen=%s", la, s)
}

// coveredByBackfill: every ancestor-or-self of la down to the first with ts < oldestAllowed(la.ts)
// (inclusive) or to height 0 has been given to the window since the restart.
func (w *c09World) windowCovered(fed map[uint64]bool) bool {
	oldest := w.la.ts - w.W
	if oldest < 0 {
		oldest = 0
	}
	cur := w.la
	for {
		if !fed[cur.n] {
			return false
		}
		if cur.height == 0 || cur.ts < oldest {
			return true
		}
		p, ok := w.blocks[cur.parent]
		if !ok {
			return false
		}
		cur = p
	}
}

func (w *c09World) noteTxs(txs []vfTx) {
	for _, t := range txs {
		if e, ok := w.idExpiry[t.n]; ok && e != t.expiry {
			w.idFunc = false
		}
		w.idExpiry[t.n] = t.expiry
	}
}

func TestVerifC09(t *testing.T) {
	r := verifh.Start("C09")
	defer r.Finish()
	lines := r.ReplayLines()
	if lines == nil {
		lines = c09Generate(r)
	}
	ctx := context.Background()
	var w *c09World
	fed := map[uint64]bool{}
	for _, l := range lines {
		f := verifh.Fields(l)
		bad := func() { r.Emit(l, "bad-op") }
		if len(f) == 0 {
			continue
		}
		if f[0] == "reset" {
			if len(f) != 3 {
				bad()
				continue
			}
			w = &c09World{r: r, W: verifh.I(f[1]), U: int(verifh.U(f[2])), blocks: map[uint64]*vfBlock{},
				index: &vfIndex{blocks: map[ids.ID]*vfBlock{}}, idExpiry: map[uint64]int64{}, idFunc: true}
			fed = map[uint64]bool{}
			r.Emit(l, "ok")
			w.seqLine = r.Line()
			continue
		}
		if w == nil {
			bad()
			continue
		}
		blk := func(s string) *vfBlock { return w.blocks[verifh.U(s)] }
		switch {
		case f[0] == "blk" && len(f) >= 6:
			n := int(verifh.U(f[5]))
			if len(f) != 6+2*n {
				bad()
				continue
			}
			txs := vfParseTxs(f[6:])
			w.noteTxs(txs)
			b := newVfBlock(verifh.U(f[1]), verifh.U(f[2]), verifh.I(f[3]), verifh.U(f[4]), txs)
			w.blocks[b.n] = b
			r.Emit(l, "ok")
		case f[0] == "idx+" && len(f) == 2 && blk(f[1]) != nil:
			w.index.blocks[vfID(verifh.U(f[1]))] = blk(f[1])
			r.Emit(l, "ok")
		case f[0] == "idx-" && len(f) == 2:
			delete(w.index.blocks, vfID(verifh.U(f[1])))
			r.Emit(l, "ok")
		case f[0] == "new" && len(f) == 2 && blk(f[1]) != nil:
			head := blk(f[1])
			vw, err := NewTimeValidityWindow[vfTx](ctx, logging.NoLog{}, trace.Noop, w.index, head, func(int64) int64 { return w.W })
			if err != nil {
				r.Emit(l, "err")
				continue
			}
			w.vw = vw
			w.la, w.ready, w.disciplined = head, false, w.chainValid(head)
			fed = map[uint64]bool{}
			r.Emit(l, w.dump())
		case f[0] == "complete" && len(f) == 2 && blk(f[1]) != nil && w.vw != nil:
			head := blk(f[1])
			parents, full := w.vw.populate(ctx, head)
			if head != w.la {
				w.disciplined = false
			}
			for _, p := range parents {
				fed[p.(*vfBlock).n] = true
			}
			w.ready = full
			r.Emit(l, fmt.Sprintf("full=%v n=%d %s", full, len(parents), w.dump()))
			if full {
				r.Count("populate:full")
			} else {
				r.Count("populate:partial")
			}
		case f[0] == "accept" && len(f) == 2 && blk(f[1]) != nil && w.vw != nil:
			b := blk(f[1])
			if w.la == nil || b.parent != w.la.n || b.height != w.la.height+1 || !w.chainValid(b) {
				w.disciplined = false
			}
			w.vw.Accept(b)
			w.la = b
			fed[b.n] = true
			if !w.ready && w.windowCovered(fed) { // state sync: forward targets complete the window
				w.ready = true
				r.Count("ready-by-forward-accept")
			}
			r.Emit(l, w.dump())
		case f[0] == "hist" && len(f) == 2 && blk(f[1]) != nil && w.vw != nil:
			b := blk(f[1])
			if w.la == nil || !(b == w.la || w.descendsFrom(w.la, b)) {
				w.disciplined = false
			}
			w.vw.AcceptHistorical(b)
			fed[b.n] = true
			if w.la != nil && !w.ready && w.windowCovered(fed) {
				w.ready = true
				r.Count("ready-by-backfill")
			}
			r.Emit(l, w.dump())
		case f[0] == "verify" && len(f) == 2 && blk(f[1]) != nil && w.vw != nil:
			b := blk(f[1])
			err := w.vw.VerifyExpiryReplayProtection(ctx, b)
			out := "ok"
			switch {
			case err == nil:
			case strings.Contains(err.Error(), "failed to fetch parent of") && !strings.Contains(err.Error(), "failed to check for repeats"):
				out = "no-parent"
			case strings.Contains(err.Error(), "failed to check for repeats"):
				out = "walk-err"
			case strings.Contains(err.Error(), "duplicates out of"):
				out = "dup-anc"
			case strings.Contains(err.Error(), ErrDuplicateContainer.Error()):
				out = "dup-block"
			default:
				out = "other"
			}
			r.Emit(l, out)
			// oracle: the property's statement on every verification that obeys the discipline
			if w.la != nil && w.ready && w.disciplined && w.idFunc && w.chainValid(b) && w.descendsFrom(b, w.la) {
				anc := w.ancestors(b)
				rep := ""
				seen := map[uint64]bool{}
				for _, t := range b.txs {
					if seen[t.n] {
						rep = fmt.Sprintf("tx %d twice in block %d", t.n, b.n)
					}
					seen[t.n] = true
				}
				for _, a := range anc {
					for _, t := range a.txs {
						if seen[t.n] {
							rep = fmt.Sprintf("tx %d of block %d already in ancestor %d", t.n, b.n, a.n)
						}
					}
				}
				r.Count("oracle:verify-disciplined")
				if rep != "" {
					r.Distinct(fmt.Sprintf("%d/%s", w.seqLine, l))
					r.Count("oracle:repeat-offered")
					if err == nil {
						r.ViolationAt("repeat-on-verified-chain", w.seqLine, r.Line(), "verification accepted %s (W=%d)", rep, w.W)
					}
				}
			}
		case f[0] == "isrepeat" && len(f) >= 4 && blk(f[1]) != nil && w.vw != nil:
			n := int(verifh.U(f[3]))
			if len(f) != 4+2*n {
				bad()
				continue
			}
			p, now, txs := blk(f[1]), verifh.I(f[2]), vfParseTxs(f[4:])
			w.noteTxs(txs)
			bits, err := w.vw.IsRepeat(ctx, p, now, txs)
			st := "ok"
			if err != nil {
				st = "err"
			}
			r.Emit(l, st+" "+vfBits(bits, n))
			// builder oracle: an unmarked tx that is valid at `now` is in no ancestor-or-self of the parent
			if err == nil && w.la != nil && w.ready && w.disciplined && w.idFunc && w.chainValid(p) &&
				(p == w.la || w.descendsFrom(p, w.la)) && now >= p.ts {
				chain := append([]*vfBlock{p}, w.ancestors(p)...)
				for i, t := range txs {
					if bits.Contains(i) || !w.validAt(t.expiry, now) {
						continue
					}
					for _, a := range chain {
						if a.ids.Contains(t.GetID()) {
							r.ViolationAt("builder-repeat-unmarked", w.seqLine, r.Line(), "IsRepeat left tx %d unmarked although block %d on the parent chain contains it", t.n, a.n)
						}
					}
				}
				r.Count("oracle:isrepeat-disciplined")
			}
		default:
			bad()
		}
	}
}

// ---- generator ----

type c09Gen struct {
	ms    bool // millisecond timestamps around second boundaries, expiries whole seconds
	rng   *verifh.RNG
	out   []string
	W     int64
	U     int
	next  uint64
	blks  map[uint64]*vfBlock
	order []uint64
	inIdx map[uint64]bool
	exp   map[uint64]int64
	la    uint64
	ok    map[uint64]bool // believed verified/accepted (heuristic only; the executor recomputes everything)
}

func (g *c09Gen) emit(format string, a ...any) { g.out = append(g.out, fmt.Sprintf(format, a...)) }

func c09TxStr(txs []vfTx) string {
	var sb strings.Builder
	fmt.Fprintf(&sb, "%d", len(txs))
	for _, t := range txs {
		fmt.Fprintf(&sb, " %d %d", t.n, t.expiry)
	}
	return sb.String()
}

func (g *c09Gen) chainIDs(b *vfBlock) map[uint64]bool {
	m := map[uint64]bool{}
	for cur := b; ; {
		for _, t := range cur.txs {
			m[t.n] = true
		}
		p, ok := g.blks[cur.parent]
		if !ok || cur.height == 0 {
			return m
		}
		cur = p
	}
}

func (g *c09Gen) pickTxs(parent *vfBlock, ts int64, mode int) []vfTx {
	n := g.rng.Intn(4)
	if g.rng.Chance(10) {
		n = 4 + g.rng.Intn(3)
	}
	used := g.chainIDs(parent)
	var usedList []uint64
	for id := range used {
		usedList = append(usedList, id)
	}
	sort.Slice(usedList, func(i, j int) bool { return usedList[i] < usedList[j] })
	var txs []vfTx
	have := map[uint64]bool{}
	for i := 0; i < n; i++ {
		var id uint64
		reuse := len(usedList) > 0 && g.rng.Chance(map[int]int{0: 12, 1: 45, 2: 3}[mode])
		if reuse {
			// prefer ids that are still valid at ts
			id = usedList[g.rng.Intn(len(usedList))]
			for k := 0; k < 4; k++ {
				c := usedList[g.rng.Intn(len(usedList))]
				if e := g.exp[c]; (e >= ts || (g.ms && e > ts-1000)) && e <= ts+g.W {
					id = c // still valid at ts (ms sequences: or expired less than a second ago)
					break
				}
			}
		} else {
			id = uint64(g.rng.Intn(g.U))
		}
		if have[id] && !g.rng.Chance(8) {
			continue
		}
		e, known := g.exp[id]
		fresh := !known || (!used[id] && g.rng.Chance(70)) // ids not on this chain may be re-minted
		if fresh && g.ms {
			up := (ts + 999) / 1000 * 1000
			e = up + int64(g.rng.Intn(int(g.W/1000)))*1000
			if g.rng.Chance(40) {
				e = up // expires at the next second boundary
			}
			if g.rng.Chance(4) {
				e = (ts+g.W)/1000*1000 + 1000 // invalid: too far
			}
			if g.rng.Chance(3) {
				e = (ts - 1) / 1000 * 1000 // invalid: expired less than a second ago
			}
			if e <= 0 {
				e = 1000
			}
			if known && e != g.exp[id] && used[id] {
				e = g.exp[id]
			}
		} else if fresh {
			e = ts + int64(g.rng.Intn(int(g.W)+1))
			if g.rng.Chance(4) {
				e = ts + g.W + 1 + int64(g.rng.Intn(2)) // invalid: too far
			}
			if g.rng.Chance(3) {
				e = ts - 1 // invalid: expired
			}
			if known && e != g.exp[id] && used[id] {
				e = g.exp[id]
			}
		} else if g.rng.Chance(2) && g.ms {
			e += 1000
		} else if g.rng.Chance(2) {
			e++ // same id, other expiry (breaks id ↦ expiry; oracle then stays silent)
		}
		g.exp[id] = e
		have[id] = true
		txs = append(txs, vfTx{n: id, expiry: e})
	}
	return txs
}

func (g *c09Gen) newBlock(parent *vfBlock, mode int) *vfBlock {
	gap := int64(g.rng.Intn(3))
	if g.rng.Chance(15) {
		gap = int64(g.rng.Intn(int(g.W) + 3))
	}
	if g.ms {
		gap = []int64{0, 100, 300, 700, 900, 1000, 1500}[g.rng.Intn(7)]
	}
	ts := parent.ts + gap
	h := parent.height + 1
	if g.rng.Chance(1) {
		h = parent.height + uint64(g.rng.Intn(3))
	}
	b := newVfBlock(g.next, parent.n, ts, h, g.pickTxs(parent, ts, mode))
	g.next++
	g.blks[b.n] = b
	g.order = append(g.order, b.n)
	g.emit("blk %d %d %d %d %s", b.n, b.parent, b.ts, b.height, c09TxStr(b.txs))
	return b
}

func (g *c09Gen) descendants(of uint64) []uint64 { // ids (in creation order) of blocks strictly below `of` in the tree
	var out []uint64
	for _, id := range g.order {
		for cur := g.blks[id]; cur.height > 0 && cur.n != of; {
			p, ok := g.blks[cur.parent]
			if !ok {
				break
			}
			if p.n == of {
				out = append(out, id)
				break
			}
			cur = p
		}
	}
	return out
}

func (g *c09Gen) sequence(mode int) {
	rng := g.rng
	g.W = []int64{0, 1, 2, 3, 5, 8, 1000}[rng.Intn(7)]
	g.ms = rng.Chance(30)
	if g.ms {
		g.W = []int64{2000, 3000, 5000}[rng.Intn(3)]
	}
	g.U = 6 + rng.Intn(8)
	g.next, g.blks, g.order, g.inIdx, g.exp, g.ok = 1, map[uint64]*vfBlock{}, nil, map[uint64]bool{}, map[uint64]int64{}, map[uint64]bool{}
	g.emit("reset %d %d", g.W, g.U)
	gts := int64([]int{0, 0, 1, 7, 100}[rng.Intn(5)])
	if g.ms {
		gts = int64([]int{0, 300, 1000}[rng.Intn(3)])
	}
	gen := newVfBlock(0, 999999, gts, 0, nil)
	g.blks[0] = gen
	g.order = append(g.order, 0)
	g.emit("blk 0 999999 %d 0 0", gts)
	g.emit("idx+ 0")
	g.inIdx[0] = true
	g.emit("new 0")
	g.emit("complete 0")
	g.la = 0
	g.ok[0] = true
	steps := 10 + rng.Intn(40)
	for s := 0; s < steps; s++ {
		la := g.blks[g.la]
		cands := append([]uint64{g.la}, g.descendants(g.la)...)
		switch k := rng.Intn(100); {
		case k < 50: // extend: new block on the accepted tip or a processing descendant, index it, verify it
			var parent *vfBlock
			if rng.Chance(70) {
				parent = g.blks[cands[len(cands)-1-rng.Intn(min(3, len(cands)))]]
			} else {
				parent = g.blks[cands[rng.Intn(len(cands))]]
			}
			if rng.Chance(3) {
				parent = g.blks[g.order[rng.Intn(len(g.order))]] // anywhere (also below the last accepted)
			}
			b := g.newBlock(parent, mode)
			if !rng.Chance(3) {
				g.emit("idx+ %d", b.n)
				g.inIdx[b.n] = true
			}
			g.emit("verify %d", b.n)
			g.ok[b.n] = true
		case k < 68: // accept a child of the last accepted block (rarely: anything)
			var kids []uint64
			for _, id := range g.order {
				if b := g.blks[id]; b.parent == g.la && b.height == la.height+1 && id != 0 {
					kids = append(kids, id)
				}
			}
			if rng.Chance(3) {
				kids = g.order
			}
			if len(kids) == 0 {
				continue
			}
			id := kids[rng.Intn(len(kids))]
			g.emit("accept %d", id)
			g.la = id
		case k < 76: // re-verify an existing block
			g.emit("verify %d", g.order[rng.Intn(len(g.order))])
		case k < 88: // builder query
			parent := g.blks[cands[rng.Intn(len(cands))]]
			now := parent.ts + int64(rng.Intn(3))
			if g.ms {
				now = parent.ts + []int64{0, 100, 900, 1000}[rng.Intn(4)]
			}
			if rng.Chance(5) {
				now = parent.ts - 1
			}
			txs := g.pickTxs(parent, now, 1)
			g.emit("isrepeat %d %d %s", parent.n, now, c09TxStr(txs))
		case k < 93: // prune old blocks from the index
			for _, id := range g.order {
				if b := g.blks[id]; g.inIdx[id] && b.height+uint64(rng.Intn(4)) < la.height && rng.Chance(60) {
					g.emit("idx- %d", id)
					g.inIdx[id] = false
				}
			}
		default: // restart over the same index; if the window is incomplete, maybe backfill
			if rng.Chance(30) { // drop some history first so that populate runs out of blocks
				cut := uint64(rng.Intn(int(la.height) + 1))
				for _, id := range g.order {
					if b := g.blks[id]; g.inIdx[id] && b.height < cut {
						g.emit("idx- %d", id)
						g.inIdx[id] = false
					}
				}
			}
			if !g.inIdx[g.la] {
				g.emit("idx+ %d", g.la)
				g.inIdx[g.la] = true
			}
			g.emit("new %d", g.la)
			if rng.Chance(35) {
				// state-sync route (syncer.go): new window over a partial index, then AcceptHistorical
				// (backfill, newest → oldest) interleaved with Accept of new targets, then Complete()
				cur := g.blks[g.la]
				for k := 0; k < 2+rng.Intn(6); k++ {
					if rng.Chance(50) {
						if p, ok := g.blks[cur.parent]; ok && cur.height > 0 {
							if !g.inIdx[p.n] {
								g.emit("idx+ %d", p.n)
								g.inIdx[p.n] = true
							}
							g.emit("hist %d", p.n)
							cur = p
						}
					} else {
						b := g.newBlock(g.blks[g.la], 2)
						g.emit("idx+ %d", b.n)
						g.inIdx[b.n] = true
						g.emit("accept %d", b.n)
						g.la = b.n
						la = b
					}
					if rng.Chance(30) {
						t := g.newBlock(g.blks[g.la], 1)
						g.emit("idx+ %d", t.n)
						g.inIdx[t.n] = true
						g.emit("verify %d", t.n)
					}
				}
				g.emit("complete %d", g.la)
				continue
			}
			if rng.Chance(85) {
				g.emit("complete %d", g.la)
			}
			if rng.Chance(70) { // backfill: feed missing ancestors newest → oldest (as the syncer does)
				cur := la
				for cur.height > 0 {
					p, ok := g.blks[cur.parent]
					if !ok {
						break
					}
					if !g.inIdx[p.n] {
						g.emit("idx+ %d", p.n)
						g.inIdx[p.n] = true
						g.emit("hist %d", p.n)
						if rng.Chance(10) {
							break
						}
					}
					cur = p
				}
			}
		}
	}
}

func c09Generate(r *verifh.Run) []string {
	g := &c09Gen{rng: r.RNG}
	// corpus first: fixed chains of the unit tests' shape plus the quirks the model keeps
	g.out = append(g.out,
		// duplicate in accepted ancestor, in processing ancestor, within block, outside window
		"reset 5 8", "blk 0 999999 0 0 0", "idx+ 0", "new 0", "complete 0",
		"blk 1 0 1 1 2 1 3 2 4", "idx+ 1", "verify 1", "accept 1",
		"blk 2 1 2 2 1 2 4", "idx+ 2", "verify 2",
		"blk 3 1 2 2 1 3 5", "idx+ 3", "verify 3",
		"blk 4 3 3 3 1 3 5", "idx+ 4", "verify 4",
		"blk 5 3 3 3 2 4 6 4 6", "idx+ 5", "verify 5",
		"blk 6 3 9 3 1 1 3", "idx+ 6", "verify 6",
		"isrepeat 3 3 3 1 3 3 5 5 7", "new 1", "complete 1", "verify 2", "verify 4",
		// expiry 0 is never tracked; first expiry wins
		"reset 3 4", "blk 0 999999 0 0 0", "idx+ 0", "new 0", "complete 0",
		"blk 1 0 0 1 1 1 0", "idx+ 1", "verify 1", "accept 1",
		"blk 2 1 0 2 1 1 0", "idx+ 2", "verify 2",
		"blk 3 1 1 2 1 2 2", "idx+ 3", "accept 3", "blk 4 3 3 3 1 2 9", "idx+ 4", "accept 4",
		// restart with a pruned index: incomplete, then backfill
		"reset 2 6", "blk 0 999999 0 0 0", "blk 1 0 1 1 1 1 3", "blk 2 1 2 2 1 2 3", "blk 3 2 3 3 0",
		"idx+ 3", "new 3", "complete 3", "blk 4 3 3 4 1 1 3", "idx+ 4", "verify 4",
		"idx+ 2", "hist 2", "idx+ 1", "hist 1", "idx+ 0", "hist 0", "verify 4",
	)
	g.out = append(g.out,
		// millisecond timestamps: tx expiring at second 1000 included at t=500, evicted at t=1100, offered again at t=1500
		"reset 5000 4", "blk 0 999999 0 0 0", "idx+ 0", "new 0", "complete 0",
		"blk 1 0 500 1 1 1 1000", "idx+ 1", "verify 1", "accept 1",
		"blk 2 1 1100 2 0", "idx+ 2", "verify 2", "accept 2",
		"blk 3 2 1500 3 1 1 1000", "idx+ 3", "verify 3",
		"blk 4 2 1100 3 1 1 1000", "idx+ 4", "verify 4")
	nseq := r.N(2000, 30000)
	for i := 0; i < nseq; i++ {
		g.sequence(i % 3)
	}
	return g.out
}
