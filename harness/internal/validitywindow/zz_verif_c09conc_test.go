package validitywindow

import (
	"context"
	"fmt"
	"strings"
	"sync"
	"sync/atomic"
	"testing"
	"time"

	"github.com/ava-labs/avalanchego/ids"
	"github.com/ava-labs/avalanchego/trace"
	"github.com/ava-labs/avalanchego/utils/logging"
	"github.com/ava-labs/avalanchego/utils/set"

	"github.com/ava-labs/hypersdk/internal/verifh"
)

// C09, concurrent tie (oracle only): checks the atomicity assumption of the Lean theorem —
// Accept's update of lastAcceptedBlockHeight and of `seen` is one atomic step w.r.t.
// verification / IsRepeat — against the real code, without hooks in /repo.
//
// The block handed to Accept is a wrapper that parks the accepting goroutine inside the k-th
// accessor call Accept makes on it (GetTimestamp / GetID / GetContainers / GetHeight, whatever
// the current code calls, in its order). While Accept(B) is parked at each such point, another
// goroutine verifies a child of B that repeats a tx of B and asks IsRepeat(parent=B) for that
// tx. Either the verifier blocks on the window's mutex until Accept is released (correct), or
// it answers while Accept is half done; in both cases the verdict must be "duplicate": B is
// either still a processing ancestor (walk checks B itself) or accepted (seen holds its txs).

type vfGate struct {
	*vfBlock
	calls   atomic.Int32
	parkAt  int32 // 1-based accessor call to park in; 0 = never
	parked  chan string
	release chan struct{}
}

func (g *vfGate) hit(site string) {
	n := g.calls.Add(1)
	if g.parkAt != 0 && n == g.parkAt {
		g.parked <- site
		select {
		case <-g.release:
		case <-time.After(30 * time.Second):
		}
	}
}

func (g *vfGate) GetID() ids.ID         { g.hit("GetID"); return g.vfBlock.GetID() }
func (g *vfGate) GetParent() ids.ID     { g.hit("GetParent"); return g.vfBlock.GetParent() }
func (g *vfGate) GetTimestamp() int64   { g.hit("GetTimestamp"); return g.vfBlock.GetTimestamp() }
func (g *vfGate) GetHeight() uint64     { g.hit("GetHeight"); return g.vfBlock.GetHeight() }
func (g *vfGate) GetContainers() []vfTx { g.hit("GetContainers"); return g.vfBlock.GetContainers() }

type c09ConcCase struct {
	W, tsG, gapA, gapB, gapC int64
	nA, nB, rep              int   // #txs of A and B, index of B's tx repeated by C
	expOff                   int64 // expiry of the repeated tx = C.ts + expOff (0..W)
	extra                    int   // further fresh txs in C
}

func (c c09ConcCase) line() string {
	return fmt.Sprintf("conc %d %d %d %d %d %d %d %d %d %d", c.W, c.tsG, c.gapA, c.gapB, c.gapC, c.nA, c.nB, c.rep, c.expOff, c.extra)
}

type c09ConcResult struct {
	outs  []string // one per park point
	viols []string
	sites []string
}

const c09ConcWait = 250 * time.Millisecond

func (c c09ConcCase) run() c09ConcResult {
	ctx := context.Background()
	var res c09ConcResult
	tsA := c.tsG + 1 + c.gapA
	tsB := tsA + c.gapB
	tsC := tsB + c.gapC
	repExp := tsC + c.expOff
	if repExp < tsB || repExp > tsB+c.W || repExp == 0 || c.expOff < 0 || c.expOff > c.W || c.nB < 1 || c.rep >= c.nB {
		return res // not a valid scenario (the repeated tx must be valid in both B and C)
	}
	mk := func() (*vfIndex, *vfBlock, *vfBlock, *vfBlock, *vfBlock) {
		gen := newVfBlock(0, 999999, c.tsG, 0, nil)
		var atx, btx, ctx2 []vfTx
		for i := 0; i < c.nA; i++ {
			atx = append(atx, vfTx{n: uint64(100 + i), expiry: tsA + c.W})
		}
		for i := 0; i < c.nB; i++ {
			e := tsB + c.W
			if i == c.rep {
				e = repExp
			}
			btx = append(btx, vfTx{n: uint64(200 + i), expiry: e})
		}
		for i := 0; i < c.extra; i++ {
			ctx2 = append(ctx2, vfTx{n: uint64(300 + i), expiry: tsC + c.W})
		}
		ctx2 = append(ctx2, btx[c.rep])
		a := newVfBlock(1, 0, tsA, 1, atx)
		b := newVfBlock(2, 1, tsB, 2, btx)
		ch := newVfBlock(3, 2, tsC, 3, ctx2)
		idx := &vfIndex{blocks: map[ids.ID]*vfBlock{gen.GetID(): gen, a.GetID(): a, b.GetID(): b, ch.GetID(): ch}}
		return idx, gen, a, b, ch
	}
	getW := func(int64) int64 { return c.W }
	// dry run: how many accessor calls does Accept make on the block?
	idx0, _, a0, b0, _ := mk()
	w0, _ := NewTimeValidityWindow[vfTx](ctx, logging.NoLog{}, trace.Noop, idx0, a0, getW)
	g0 := &vfGate{vfBlock: b0}
	w0.Accept(g0)
	ncalls := int(g0.calls.Load())
	for k := 1; k <= ncalls; k++ {
		idx, _, a, b, ch := mk()
		w, _ := NewTimeValidityWindow[vfTx](ctx, logging.NoLog{}, trace.Noop, idx, a, getW)
		if _, full := w.populate(ctx, a); !full {
			res.viols = append(res.viols, "conc-setup\x00populate of a complete chain not full")
			return res
		}
		g := &vfGate{vfBlock: b, parkAt: int32(k), parked: make(chan string, 1), release: make(chan struct{})}
		accDone := make(chan struct{})
		go func() { w.Accept(g); close(accDone) }()
		site := "none"
		select {
		case site = <-g.parked:
		case <-accDone:
		case <-time.After(20 * time.Second):
			res.viols = append(res.viols, "conc-accept-hang\x00Accept neither parked nor finished")
			return res
		}
		// verifier + builder query from other goroutines while Accept is parked
		type verdict struct {
			verify error
			bits   set.Bits
			isErr  error
		}
		vch := make(chan verdict, 1)
		go func() {
			var v verdict
			var wg sync.WaitGroup
			wg.Add(2)
			go func() { defer wg.Done(); v.verify = w.VerifyExpiryReplayProtection(ctx, ch) }()
			go func() {
				defer wg.Done()
				v.bits, v.isErr = w.IsRepeat(ctx, b, ch.ts, ch.txs)
			}()
			wg.Wait()
			vch <- v
		}()
		var v verdict
		blocked := false
		select {
		case v = <-vch:
		case <-time.After(c09ConcWait):
			blocked = true // waiting for the window's mutex: correct; let Accept finish, then read the verdict
		}
		close(g.release)
		<-accDone
		if blocked {
			select {
			case v = <-vch:
			case <-time.After(20 * time.Second):
				res.viols = append(res.viols, "conc-verify-hang\x00verification did not return after Accept finished")
				return res
			}
		}
		repIdx := len(ch.txs) - 1
		vs := "ok"
		if v.verify != nil {
			vs = "dup"
		}
		marked := v.isErr == nil && v.bits.Contains(repIdx)
		res.sites = append(res.sites, site)
		res.outs = append(res.outs, fmt.Sprintf("park=%d/%d site=%s verify=%s isrepeat-marked=%v", k, ncalls, site, vs, marked))
		if v.verify == nil {
			res.viols = append(res.viols, fmt.Sprintf("repeat-accepted-during-concurrent-accept\x00while Accept(B) was parked in its call #%d (%s), verification of a child of B repeating tx %d of B returned nil (verifier blocked on the mutex: %v)", k, site, ch.txs[repIdx].n, blocked))
		}
		if !marked {
			res.viols = append(res.viols, fmt.Sprintf("builder-repeat-unmarked-during-concurrent-accept\x00while Accept(B) was parked in its call #%d (%s), IsRepeat(parent=B) left tx %d of B unmarked (err=%v, blocked: %v)", k, site, ch.txs[repIdx].n, v.isErr, blocked))
		}
	}
	return res
}


// hammer: free-running verifiers while Accept(B) runs (no parking). Covers unsafe gaps that contain
// no accessor call (e.g. an Accept that copies the block's fields first, publishes the height,
// unlocks, and only then evicts / fills `seen`): `seen` is pre-filled with nA entries that expire
// just before B, so that the eviction inside Accept takes a while. Detection of such a variant is
// probabilistic (never a false alarm); the parked scenarios above are the deterministic part.
func c09Hammer(rounds, nA int) (verdicts int, viols []string) {
	ctx := context.Background()
	const W = int64(1000)
	for round := 0; round < rounds; round++ {
		gen := newVfBlock(0, 999999, 0, 0, nil)
		var atx []vfTx
		for i := 0; i < nA; i++ {
			atx = append(atx, vfTx{n: uint64(1000 + i), expiry: 9})
		}
		a := newVfBlock(1, 0, 5, 1, atx)
		btx := []vfTx{{n: 200, expiry: 20}, {n: 201, expiry: 30}}
		b := newVfBlock(2, 1, 10, 2, btx)
		ch := newVfBlock(3, 2, 11, 3, []vfTx{{n: 300, expiry: 40}, btx[round%2]})
		idx := &vfIndex{blocks: map[ids.ID]*vfBlock{gen.GetID(): gen, a.GetID(): a, b.GetID(): b, ch.GetID(): ch}}
		w, _ := NewTimeValidityWindow[vfTx](ctx, logging.NoLog{}, trace.Noop, idx, a, func(int64) int64 { return W })
		var stop atomic.Bool
		var bad atomic.Int32
		var n atomic.Int32
		var wg sync.WaitGroup
		for g := 0; g < 3; g++ {
			wg.Add(1)
			go func(g int) {
				defer wg.Done()
				for last := false; ; {
					if g%2 == 0 {
						if w.VerifyExpiryReplayProtection(ctx, ch) == nil {
							bad.Add(1)
						}
					} else if bits, err := w.IsRepeat(ctx, b, ch.ts, ch.txs); err != nil || !bits.Contains(1) {
						bad.Add(1)
					}
					n.Add(1)
					if last {
						return
					}
					last = stop.Load() // one more iteration after Accept has returned
				}
			}(g)
		}
		for n.Load() < 3 { // let the verifiers start
			time.Sleep(50 * time.Microsecond)
		}
		w.Accept(b)
		stop.Store(true)
		wg.Wait()
		verdicts += int(n.Load())
		if k := bad.Load(); k > 0 {
			viols = append(viols, fmt.Sprintf("repeat-accepted-during-concurrent-accept\x00round %d: %d free-running verifications / IsRepeat calls concurrent with Accept(B) did not report the repeat of a tx of B", round, k))
		}
	}
	return verdicts, viols
}

func c09ConcParse(l string) (c c09ConcCase, ok bool) {
	f := strings.Fields(l)
	if len(f) != 11 || f[0] != "conc" {
		return c, false
	}
	defer func() {
		if recover() != nil {
			ok = false
		}
	}()
	c = c09ConcCase{W: verifh.I(f[1]), tsG: verifh.I(f[2]), gapA: verifh.I(f[3]), gapB: verifh.I(f[4]), gapC: verifh.I(f[5]),
		nA: int(verifh.U(f[6])), nB: int(verifh.U(f[7])), rep: int(verifh.U(f[8])), expOff: verifh.I(f[9]), extra: int(verifh.U(f[10]))}
	if c.W < 0 || c.W > 1_000_000 || c.nA > 50 || c.nB > 50 || c.extra > 50 || c.tsG < 0 || c.gapA < 0 || c.gapB < 0 || c.gapC < 0 {
		return c, false
	}
	return c, true
}

func TestVerifC09Conc(t *testing.T) {
	r := verifh.Start("C09")
	defer r.Finish()
	lines := r.ReplayLines()
	if lines == nil {
		// corpus first: the smallest scenario, then random ones
		lines = append(lines, c09ConcCase{W: 5, tsG: 0, gapA: 0, gapB: 1, gapC: 1, nA: 1, nB: 1, rep: 0, expOff: 2}.line())
		rng := r.RNG
		for i := 0; i < r.N(24, 400); i++ {
			c := c09ConcCase{W: []int64{1, 2, 5, 10, 1000}[rng.Intn(5)], tsG: int64(rng.Intn(3)), gapA: int64(rng.Intn(3)),
				gapB: int64(rng.Intn(3)), nA: rng.Intn(3), nB: 1 + rng.Intn(3), extra: rng.Intn(3)}
			c.gapC = int64(rng.Intn(int(min(c.W, 3)) + 1))
			c.rep = rng.Intn(c.nB)
			c.expOff = int64(rng.Intn(int(c.W-c.gapC) + 1)) // keeps the repeated tx valid in B: C.ts+off <= B.ts+W
			lines = append(lines, c.line())
		}
		lines = append(lines, fmt.Sprintf("hammer %d 4000", r.N(15, 300)))
	}
	// every park point waits up to c09ConcWait for a blocked verifier: run scenarios concurrently
	results := make([]c09ConcResult, len(lines))
	cases := make([]c09ConcCase, len(lines))
	oks := make([]bool, len(lines))
	var wg sync.WaitGroup
	sem := make(chan struct{}, 16)
	for i, l := range lines {
		if hf := strings.Fields(l); len(hf) == 3 && hf[0] == "hammer" {
			continue // handled after the parked scenarios
		}
		cases[i], oks[i] = c09ConcParse(l)
		if !oks[i] {
			continue
		}
		wg.Add(1)
		sem <- struct{}{}
		go func(i int) {
			defer wg.Done()
			defer func() { <-sem }()
			results[i] = cases[i].run()
		}(i)
	}
	wg.Wait()
	for i, l := range lines {
		if hf := strings.Fields(l); len(hf) == 3 && hf[0] == "hammer" {
			rounds, nA := int(verifh.U(hf[1])), int(verifh.U(hf[2]))
			if rounds > 10000 || nA > 1_000_000 {
				r.Emit(l, "bad-op")
				continue
			}
			n, viols := c09Hammer(rounds, nA)
			r.Emit(l, fmt.Sprintf("rounds=%d verdicts=%d not-duplicate=%d", rounds, n, len(viols)))
			r.Distinct(l)
			for _, v := range viols {
				kv := strings.SplitN(v, "\x00", 2)
				r.Violation(kv[0], "%s: %s", kv[1], l)
			}
			continue
		}
		if !oks[i] {
			r.Emit(l, "bad-op")
			continue
		}
		res := results[i]
		if len(res.outs) == 0 && len(res.viols) == 0 {
			r.Emit(l, "skipped-invalid-scenario")
			continue
		}
		r.Emit(l, strings.Join(res.outs, " | "))
		r.Distinct(l)
		for _, s := range res.sites {
			r.Count("park-site:" + s)
		}
		for _, v := range res.viols {
			kv := strings.SplitN(v, "\x00", 2)
			r.Violation(kv[0], "%s: %s", kv[1], l)
		}
	}
}
