package validitywindow

import (
	"context"
	"errors"
	"fmt"
	"strings"
	"sync"
	"sync/atomic"
	"testing"
	"time"

	"github.com/ava-labs/avalanchego/ids"
	"github.com/ava-labs/avalanchego/trace"
	"github.com/ava-labs/avalanchego/utils/logging"

	"github.com/ava-labs/hypersdk/internal/verifh"
)

// C22, oracle-only tie with the REAL serving side: BlockFetcherClient + Syncer against the real
// BlockFetcherHandler (handler.go) over a test BlockRetriever, request/response going through the
// real canoto (un)marshalling (types.go). An honest peer = the real handler. Oracle: the syncer
// completes, saves exactly the hash-linked ancestors down to the first one older than the minimum
// timestamp (or genesis), and every still-includable tx of the target's chain is tracked.

type c22Retriever struct{ byHeight map[uint64]*vfBlock }

func (r c22Retriever) GetBlockByHeight(_ context.Context, h uint64) (*vfBlock, error) {
	if b, ok := r.byHeight[h]; ok {
		return b, nil
	}
	return nil, errors.New("not found")
}

type c22HandlerFetcher struct {
	h    *BlockFetcherHandler[*vfBlock]
	reqs atomic.Int32
}

func (f *c22HandlerFetcher) FetchBlocksFromPeer(ctx context.Context, node ids.NodeID, req *BlockFetchRequest) (*BlockFetchResponse, error) {
	f.reqs.Add(1)
	out, appErr := f.h.AppRequest(ctx, node, time.Now(), req.MarshalCanoto())
	if appErr != nil {
		return nil, appErr
	}
	resp := new(BlockFetchResponse)
	if err := resp.UnmarshalCanoto(out); err != nil {
		return nil, err
	}
	return resp, nil
}

type c22hCase struct {
	W    int64
	have int
	tss  []int64   // timestamps by height
	txs  [][]int64 // expiries of the txs by height (ids are assigned sequentially)
}

func (c c22hCase) line() string {
	var sb strings.Builder
	fmt.Fprintf(&sb, "handler %d %d %d", c.W, c.have, len(c.tss))
	for h, ts := range c.tss {
		fmt.Fprintf(&sb, " %d:%d", ts, len(c.txs[h]))
		for _, e := range c.txs[h] {
			fmt.Fprintf(&sb, ":%d", e)
		}
	}
	return sb.String()
}

func c22hParse(l string) (c c22hCase, ok bool) {
	f := strings.Fields(l)
	defer func() {
		if recover() != nil {
			ok = false
		}
	}()
	if len(f) < 4 || f[0] != "handler" {
		return c, false
	}
	c.W, c.have = verifh.I(f[1]), int(verifh.U(f[2]))
	n := int(verifh.U(f[3]))
	if len(f) != 4+n || n < 1 || n > 64 || c.have < 1 {
		return c, false
	}
	for _, tok := range f[4:] {
		p := strings.Split(tok, ":")
		c.tss = append(c.tss, verifh.I(p[0]))
		k := int(verifh.U(p[1]))
		if len(p) != 2+k {
			return c, false
		}
		var es []int64
		for _, e := range p[2:] {
			es = append(es, verifh.I(e))
		}
		c.txs = append(c.txs, es)
	}
	return c, true
}

func (c c22hCase) run() (out string, viols []string) {
	ctx, cancel := context.WithCancel(context.Background())
	defer cancel()
	s := &c22Seq{W: c.W, blocks: map[uint64]*vfBlock{}, index: &vfIndex{blocks: map[ids.ID]*vfBlock{}}, failAt: -1}
	ret := c22Retriever{byHeight: map[uint64]*vfBlock{}}
	next := uint64(0)
	for h, ts := range c.tss {
		var txs []vfTx
		for _, e := range c.txs[h] {
			txs = append(txs, vfTx{n: next, expiry: e})
			next++
		}
		parent := uint64(h) - 1
		if h == 0 {
			parent = 999999
		}
		b := newVfBlock(uint64(h), parent, ts, uint64(h), txs)
		b.bytes = c22Enc(b.n)
		s.blocks[b.n] = b
		ret.byHeight[uint64(h)] = b
	}
	s.U = int(next)
	n := len(c.tss) - 1
	for h := n; h > n-c.have && h >= 0; h-- {
		s.index.blocks[vfID(uint64(h))] = s.blocks[uint64(h)]
	}
	s.target = s.blocks[uint64(n)]
	getW := func(int64) int64 { return c.W }
	tvw, _ := NewTimeValidityWindow[vfTx](ctx, logging.NoLog{}, trace.Noop, s.index, s.target, getW)
	store := &c22Store{failAt: -1}
	hf := &c22HandlerFetcher{h: NewBlockFetcherHandler[*vfBlock](ret)}
	var histDone atomic.Int64
	client := NewBlockFetcherClient[*vfBlock](hf, c22Parser{s, &histDone}, c22Sampler{})
	syncer := NewSyncer[vfTx, *vfBlock](store, tvw, client, getW)
	if err := syncer.Start(ctx, s.target); err != nil {
		return "err", nil
	}
	oldest := syncer.oldestBlock.(*vfBlock)
	waitCtx, wcancel := context.WithTimeout(ctx, 60*time.Second)
	defer wcancel()
	if err := syncer.Wait(waitCtx); err != nil {
		viols = append(viols, "handler-backfill-incomplete\x00real client against the real handler did not complete: "+err.Error())
		return "not-done", viols
	}
	min := s.target.ts - c.W
	if min < 0 {
		min = 0
	}
	// expected: ancestors of oldest down to the first with ts < min, or genesis (nothing if oldest is already past)
	var want []uint64
	if !(oldest.ts < min || oldest.height == 0) && syncer.cancel != nil {
		for cur := oldest; cur.height > 0; {
			p := s.blocks[cur.parent]
			want = append(want, p.n)
			if p.ts < min {
				break
			}
			cur = p
		}
	}
	var got []uint64
	for _, b := range store.saved {
		got = append(got, b.n)
	}
	out = fmt.Sprintf("done saved=%v requests=%d", got, hf.reqs.Load())
	if fmt.Sprint(got) != fmt.Sprint(want) {
		viols = append(viols, fmt.Sprintf("handler-saved-not-exact-window\x00saved %v, the hash-linked ancestry back past the window is %v (oldest local %d, min %d)", got, want, oldest.n, min))
	}
	f := &c22Fetcher{s: s, tvw: tvw, store: store}
	s.strongOracle("handler", f)
	viols = append(viols, s.viol...)
	return out, viols
}

func TestVerifC22Handler(t *testing.T) {
	r := verifh.Start("C22")
	defer r.Finish()
	lines := r.ReplayLines()
	if lines == nil {
		// corpus: young chain (genesis inside the window), and a window cut in the middle of a run of equal timestamps
		lines = append(lines,
			c22hCase{W: 100, have: 1, tss: []int64{0, 10, 20, 30}, txs: [][]int64{nil, {20}, {30}, {40}}}.line(),
			c22hCase{W: 10, have: 1, tss: []int64{0, 5, 5, 5, 8, 15, 16}, txs: [][]int64{nil, {15}, {15}, nil, {16}, nil, nil}}.line())
		rng := r.RNG
		for i := 0; i < r.N(40, 600); i++ {
			c := c22hCase{W: []int64{0, 3, 5, 10, 30, 1000}[rng.Intn(6)], have: 1 + rng.Intn(3)}
			n := 3 + rng.Intn(12)
			ts := int64(rng.Intn(3))
			for h := 0; h <= n; h++ {
				if h > 0 {
					if !rng.Chance(40) {
						ts += int64(1 + rng.Intn(6))
					}
					if ts == 0 {
						ts = 1
					}
				}
				var es []int64
				for k := rng.Intn(3); k > 0 && h > 0; k-- {
					e := ts + int64(rng.Intn(int(c.W)+1))
					if rng.Chance(50) {
						e = ts + c.W
					}
					es = append(es, e)
				}
				c.tss = append(c.tss, ts)
				c.txs = append(c.txs, es)
			}
			lines = append(lines, c.line())
		}
	}
	type res struct {
		out   string
		viols []string
	}
	results := make([]res, len(lines))
	var wg sync.WaitGroup
	for i, l := range lines {
		c, ok := c22hParse(l)
		if !ok {
			results[i].out = "bad-op"
			continue
		}
		wg.Add(1)
		go func(i int, c c22hCase) {
			defer wg.Done()
			results[i].out, results[i].viols = c.run()
		}(i, c)
	}
	wg.Wait()
	for i, l := range lines {
		r.Emit(l, results[i].out)
		r.Distinct(l)
		for _, v := range results[i].viols {
			kv := strings.SplitN(v, "\x00", 2)
			r.Violation(kv[0], "%s: %s", kv[1], l)
		}
	}
}
