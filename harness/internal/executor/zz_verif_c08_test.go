package executor

import (
	"errors"
	"fmt"
	"runtime"
	"sort"
	"strconv"
	"strings"
	"sync"
	"sync/atomic"
	"testing"
	"time"
	"unsafe"

	"github.com/ava-labs/hypersdk/internal/verifh"
	"github.com/ava-labs/hypersdk/state"
)

// C08: the executor never runs conflicting tasks concurrently or out of order.
//
// Gated mode (tie): each task body logs start, blocks on its own gate, logs end. Ops are applied
// at quiescent points; after each op the harness prints the running bodies, len(e.executable)
// and a dump of the executor's dependency state (per task: counter, executed, blocked, readers;
// nodes), which the Lean driver (Driver/C08.lean, finest relation) must reproduce. The order
// in which a completion sent newly executable tasks to the channel is OBSERVED (the channel is
// drained and refilled at quiescence) and handed to the model as the `order` of its step.
// `hold`/`unhold` take/release a task's own lock t.l from the harness (in-package), so that the
// task's notification section blocks after its reader deregistrations ran: Run and other
// completions are then interleaved with a half-finished completion.
// Quiescence is detected by polling until counters equal what a small sequential mirror
// predicts (the mirror decides only *when* to sample; the judge is the Lean model).
// Free mode: real timing, oracle on the start/end log + hang detector.

type c08Err struct{ id int }

func (e c08Err) Error() string { return "task " + strconv.Itoa(e.id) }

type c08Key struct {
	key  int
	perm int
}

type c08Ev struct {
	start bool
	id    int
	fail  bool
	stop  bool // Stop() call (gated mode only: it happens at a quiescent point)
}

// ---- sequential mirror (used for quiescence detection only)

type c08MTask struct {
	keys                      []c08Key
	status                    int // 0 waiting 1 queued 2 running 3 done 4 skipped 5 body over, notification pending
	ran                       bool
	deps                      int
	blocked, readers, reading map[int]bool
}

type c08Mirror struct {
	workers int
	tasks   []*c08MTask
	nodes   map[int]int
	queue   []int
	err     string
	waited  bool
	held    int // task whose lock the harness holds, -1 = none
}

func (m *c08Mirror) executed(i int) bool { s := m.tasks[i].status; return s == 3 || s == 4 }

func (m *c08Mirror) running() []int {
	var out []int
	for i, t := range m.tasks {
		if t.status == 2 {
			out = append(out, i)
		}
	}
	return out
}

func (m *c08Mirror) busy() int {
	n := 0
	for _, t := range m.tasks {
		if t.status == 2 || t.status == 5 {
			n++
		}
	}
	return n
}

func (m *c08Mirror) run(keys []c08Key) {
	id := len(m.tasks)
	t := &c08MTask{keys: keys, blocked: map[int]bool{}, readers: map[int]bool{}, reading: map[int]bool{}}
	m.tasks = append(m.tasks, t)
	deps := map[int]bool{}
	for _, kr := range keys {
		lt, ok := m.nodes[kr.key]
		if !ok {
			m.nodes[kr.key] = id
			continue
		}
		l := m.tasks[lt]
		if kr.perm == 1 {
			t.reading[lt] = true
			l.readers[id] = true
		} else {
			for r := range l.readers {
				if r == id {
					continue
				}
				m.tasks[r].blocked[id] = true
				deps[r] = true
			}
			m.nodes[kr.key] = id
		}
		if !m.executed(lt) {
			l.blocked[id] = true
			deps[lt] = true
		}
	}
	t.deps = len(deps)
	if t.deps == 0 {
		t.status = 1
		m.queue = append(m.queue, id)
	}
}

// needsHeld: would Run(keys) have to take the lock the harness holds?
func (m *c08Mirror) needsHeld(keys []c08Key) bool {
	if m.held < 0 {
		return false
	}
	for _, kr := range keys {
		if lt, ok := m.nodes[kr.key]; ok {
			if lt == m.held || (kr.perm != 1 && m.tasks[lt].readers[m.held]) {
				return true
			}
		}
	}
	return false
}

func (m *c08Mirror) deregAll(d int) {
	t := m.tasks[d]
	for r := range t.reading {
		delete(m.tasks[r].readers, d)
	}
	t.reading = map[int]bool{}
}

// notify returns the tasks it made executable (sorted; the real order is observed)
func (m *c08Mirror) notify(d int) []int {
	t := m.tasks[d]
	var bl []int
	for j := range t.blocked {
		bl = append(bl, j)
	}
	sort.Ints(bl)
	var pushed []int
	for _, j := range bl {
		m.tasks[j].deps--
		if m.tasks[j].deps <= 0 {
			m.tasks[j].status = 1
			m.queue = append(m.queue, j)
			pushed = append(pushed, j)
		}
	}
	t.blocked = map[int]bool{}
	if t.ran {
		t.status = 3
	} else {
		t.status = 4
	}
	return pushed
}

func (m *c08Mirror) settle() {
	for len(m.queue) > 0 && m.busy() < m.workers {
		j := m.queue[0]
		m.queue = m.queue[1:]
		if m.err == "" {
			m.tasks[j].status = 2
		} else {
			m.tasks[j].status, m.tasks[j].ran = 5, false
			m.deregAll(j)
			m.notify(j)
		}
	}
}

func (m *c08Mirror) allExecuted() bool {
	for i := range m.tasks {
		if !m.executed(i) {
			return false
		}
	}
	return true
}

// ---- one case on the real executor

type c08Case struct {
	r       *verifh.Run
	e       *Executor
	workers int
	mu      sync.Mutex
	log     []c08Ev
	running map[int]bool
	gates   []chan struct{}
	fails   []bool
	keys    [][]c08Key
	ptr     []*task // task structs of the executor (nil for tasks without keys)
	m       *c08Mirror
	waitRes error
	hung    bool
	start   int  // op line of the `case` marker
	pending bool // an op is being executed whose line has not been emitted yet
}

// viol reports a violation for the op sequence of this case up to the op being executed.
func (c *c08Case) viol(key, format string, a ...any) {
	to := c.r.Line()
	if c.pending {
		to++
	}
	c.r.ViolationAt(key, c.start, to, format, a...)
}

var c08Timeout = 10 * time.Second

// c08WGCount reads the counter of a sync.WaitGroup (go1.2x layout: noCopy, state
// atomic.Uint64 with the counter in the high 32 bits). It lets the harness see that every
// completion section (which ends in outstanding.Done()) has finished, so that a sample is
// taken at a really quiescent point. c08WGOK is a self-test of that layout assumption; if it
// fails the extra condition is switched off (and counted in the stats).
func c08WGCount(wg *sync.WaitGroup) int {
	return int((*atomic.Uint64)(unsafe.Pointer(wg)).Load() >> 32)
}

var c08WGOK = func() bool {
	var wg sync.WaitGroup
	if unsafe.Sizeof(wg) < 8 || c08WGCount(&wg) != 0 {
		return false
	}
	wg.Add(3)
	ok := c08WGCount(&wg) == 3
	wg.Add(-3)
	return ok && c08WGCount(&wg) == 0
}()

func c08Set(l []int) string {
	if len(l) == 0 {
		return "-"
	}
	s := make([]string, len(l))
	for i, v := range l {
		s[i] = strconv.Itoa(v)
	}
	return strings.Join(s, ",")
}

func (c *c08Case) observe() ([]int, int) {
	c.mu.Lock()
	var out []int
	for i := range c.running {
		out = append(out, i)
	}
	c.mu.Unlock()
	sort.Ints(out)
	return out, len(c.e.executable)
}

// lock / unlock a task's mutex unless the harness already holds it
func (c *c08Case) lockT(id int) {
	if id != c.m.held {
		c.ptr[id].l.Lock()
	}
}

func (c *c08Case) unlockT(id int) {
	if id != c.m.held {
		c.ptr[id].l.Unlock()
	}
}

// find locates the struct of the task just registered (it owns one of its keys or is a
// reader of the owner).
func (c *c08Case) find(id int, ks []c08Key) *task {
	for _, k := range ks {
		lt := c.e.nodes["k"+strconv.Itoa(k.key)]
		if lt == nil {
			continue
		}
		if lt.id == id {
			return lt
		}
		if lt.id < len(c.ptr) && c.ptr[lt.id] == nil {
			c.ptr[lt.id] = lt
		}
		c.lockT(lt.id)
		rt := lt.readers[id]
		c.unlockT(lt.id)
		if rt != nil {
			return rt
		}
	}
	return nil
}

func c08Ids(m map[int]*task) string {
	var l []int
	for i := range m {
		l = append(l, i)
	}
	sort.Ints(l)
	return c08Set(l)
}

// dump prints the dependency state of the executor in the format of Driver/C08.lean.
func (c *c08Case) dump() string {
	var parts []string
	owner := map[int]bool{}
	for _, t := range c.e.nodes {
		owner[t.id] = true
	}
	for id, ks := range c.keys {
		// a task without keys, or an executed task that owns no key, is referenced by nothing in
		// the executor any more (its struct may never have been reachable): no row
		if len(ks) == 0 || (c.m.executed(id) && !owner[id]) {
			continue
		}
		t := c.ptr[id]
		if t == nil {
			parts = append(parts, fmt.Sprintf("T%d=?", id))
			continue
		}
		c.lockT(id)
		ex := 0
		if t.executed {
			ex = 1
		}
		parts = append(parts, fmt.Sprintf("T%d=%d/%d/%s/%s", id, t.dependencies.Load(), ex, c08Ids(t.blocked), c08Ids(t.readers)))
		c.unlockT(id)
	}
	var ns []string
	var kk []int
	for k := range c.e.nodes {
		n, _ := strconv.Atoi(k[1:])
		kk = append(kk, n)
	}
	sort.Ints(kk)
	for _, k := range kk {
		ns = append(ns, fmt.Sprintf("%d:%d", k, c.e.nodes["k"+strconv.Itoa(k)].id))
	}
	n := "-"
	if len(ns) > 0 {
		n = strings.Join(ns, ",")
	}
	return strings.Join(parts, " ") + " N=" + n
}

// deregVisible: every deregistration the mirror has performed is visible in the executor
// (needed when a task's notification section is blocked by `hold`: the counters do not move).
func (c *c08Case) deregVisible() bool {
	h := c.m.held
	if h < 0 || c.m.tasks[h].status != 5 {
		return true
	}
	for id, t := range c.ptr {
		if t == nil || id == h {
			continue
		}
		c.lockT(id)
		_, in := t.readers[h]
		c.unlockT(id)
		if in && !c.m.tasks[id].readers[h] {
			return false
		}
	}
	return true
}

// quiesce polls until the executor shows the mirror's counters, then reads the real running
// set and the real channel order, which the mirror adopts. pushed = tasks the last completion
// made executable; the returned order is the order in which they were sent (those already
// dequeued first).
func (c *c08Case) quiesce(pushed []int) (string, []int) {
	wantRun, wantQ := len(c.m.running()), len(c.m.queue)
	wantOut := 0
	for i := range c.m.tasks {
		if !c.m.executed(i) {
			wantOut++
		}
	}
	deadline := time.Now().Add(c08Timeout)
	for spins := 0; ; spins++ {
		got, q := c.observe()
		errSet := c.e.err.Load() != nil
		if q == wantQ && len(got) == wantRun && errSet == (c.m.err != "") &&
			(!c08WGOK || c08WGCount(&c.e.outstanding) == wantOut) && c.deregVisible() {
			// the reads above are not one snapshot: accept only if a second look agrees
			if got2, q2 := c.observe(); q2 != q || c08Set(got2) != c08Set(got) {
				continue
			}
			// read the channel (nobody receives: the queue is non-empty only when every worker is busy)
			var ch []*task
			for i := 0; i < q; i++ {
				ch = append(ch, <-c.e.executable)
			}
			var qo []int
			for _, t := range ch {
				c.e.executable <- t
				qo = append(qo, t.id)
			}
			exp := append(append([]int{}, c.m.running()...), c.m.queue...)
			obs := append(append([]int{}, got...), qo...)
			sort.Ints(exp)
			sort.Ints(obs)
			if c08Set(exp) != c08Set(obs) {
				c.viol("quiescence-mismatch", "executor shows started=%s queue=%s, sequential mirror expects the set %s", c08Set(got), c08Set(qo), c08Set(exp))
				c.hung = true
				return fmt.Sprintf("started=%s q=%d | %s", c08Set(got), q, c.dump()), nil
			}
			// adopt the observed split / order
			for _, id := range got {
				c.m.tasks[id].status = 2
			}
			for _, id := range qo {
				c.m.tasks[id].status = 1
			}
			c.m.queue = qo
			var order []int
			inP := map[int]bool{}
			for _, p := range pushed {
				inP[p] = true
			}
			for _, id := range got {
				if inP[id] {
					order = append(order, id)
				}
			}
			for _, id := range qo {
				if inP[id] {
					order = append(order, id)
				}
			}
			return fmt.Sprintf("started=%s q=%d | %s", c08Set(got), q, c.dump()), order
		}
		if spins < 200 {
			runtime.Gosched()
		} else {
			time.Sleep(50 * time.Microsecond)
		}
		if time.Now().After(deadline) {
			c.viol("quiescence-mismatch", "executor shows started=%s q=%d outstanding=%d err=%v, sequential mirror expects #started=%d q=%d outstanding=%d err=%q",
				c08Set(got), q, c08WGCount(&c.e.outstanding), errSet, wantRun, wantQ, wantOut, c.m.err)
			c.hung = true
			c08Timeout = 2 * time.Second
			c.mu.Lock()
			c08Oracle(c.r, c.keys, append([]c08Ev(nil), c.log...), nil, true, false, true)
			c.mu.Unlock()
			return fmt.Sprintf("started=%s q=%d", c08Set(got), q), nil
		}
	}
}

func (c *c08Case) body(id int) func() error {
	return func() error {
		c.mu.Lock()
		c.log = append(c.log, c08Ev{start: true, id: id})
		c.running[id] = true
		g := c.gates[id]
		c.mu.Unlock()
		<-g
		c.mu.Lock()
		f := c.fails[id]
		c.log = append(c.log, c08Ev{start: false, id: id, fail: f})
		delete(c.running, id)
		c.mu.Unlock()
		if f {
			return c08Err{id}
		}
		return nil
	}
}

func c08Keys(ks []c08Key) state.Keys {
	out := state.Keys{}
	for _, k := range ks {
		out["k"+strconv.Itoa(k.key)] = state.Permissions(k.perm)
	}
	return out
}

// c08SafeRun calls e.Run and turns a panic inside it into a value (Run is called by the
// block processor's own goroutine: a panic there takes the node down).
func c08SafeRun(e *Executor, keys state.Keys, f func() error) (p any) {
	defer func() { p = recover() }()
	e.Run(keys, f)
	return nil
}

func c08ErrStr(err error) string {
	var te c08Err
	switch {
	case err == nil:
		return "ok"
	case errors.As(err, &te):
		return "task:" + strconv.Itoa(te.id)
	case errors.Is(err, ErrStopped):
		return "stopped"
	}
	return "other"
}

func (c *c08Case) doWait() (string, bool) {
	done := make(chan error, 1)
	pan := make(chan any, 1)
	go func() {
		defer func() {
			if p := recover(); p != nil {
				pan <- p
			}
		}()
		done <- c.e.Wait()
	}()
	suffix := ""
	if c.m.err != "" {
		suffix = "-after-error"
	}
	select {
	case err := <-done:
		c.waitRes = err
		return c08ErrStr(err), true
	case p := <-pan:
		c.viol("wait-panics"+suffix, "Wait panicked: %v", p)
		c.hung = true
		return "panic", false
	case <-time.After(c08Timeout):
		c.viol("wait-hang"+suffix, "Wait did not return within %v although every task was released (recorded error: %q)", c08Timeout, c.m.err)
		c.hung = true
		return "hang", false
	}
}

// finish releases everything, waits, and runs the oracle on the complete log.
func (c *c08Case) finish(gated bool) {
	if c == nil {
		return
	}
	if c.m.held >= 0 && c.ptr[c.m.held] != nil {
		c.ptr[c.m.held].l.Unlock()
		c.m.held = -1
	}
	c.mu.Lock()
	for _, g := range c.gates {
		if g != nil {
			select {
			case <-g:
			default:
				close(g)
			}
		}
	}
	c.mu.Unlock()
	if !c.m.waited && !c.hung {
		c.doWait()
		c.m.waited = true
	}
	if c.hung {
		return
	}
	c.mu.Lock()
	defer c.mu.Unlock()
	c08Oracle(c.r, c.keys, c.log, c.waitRes, gated, false, false)
}

func c08Conflict(a, b []c08Key) bool {
	for _, x := range a {
		for _, y := range b {
			if x.key == y.key && (x.perm != 1 || y.perm != 1) {
				return true
			}
		}
	}
	return false
}

// c08Oracle evaluates the property on a start/end log.
func c08Oracle(r *verifh.Run, keys [][]c08Key, log []c08Ev, waitRes error, gated bool, stopped bool, partial bool) {
	n := len(keys)
	startAt, endAt := make([]int, n), make([]int, n)
	for i := range startAt {
		startAt[i], endAt[i] = -1, -1
	}
	firstErr := -1 // log position of first failing end
	anyFail := false
	for p, ev := range log {
		if ev.stop {
			stopped = true
			if firstErr < 0 {
				firstErr = p
			}
			continue
		}
		if ev.start {
			if startAt[ev.id] >= 0 {
				r.Violation("started-twice", "task %d started twice", ev.id)
			}
			startAt[ev.id] = p
			if gated && firstErr >= 0 {
				r.Violation("start-after-error", "task %d started after a failure/stop at log position %d (quiescent schedule)", ev.id, firstErr)
			}
		} else {
			endAt[ev.id] = p
			if ev.fail {
				anyFail = true
				if firstErr < 0 {
					firstErr = p
				}
			}
		}
	}
	for j := 0; j < n; j++ {
		if startAt[j] < 0 {
			continue
		}
		for i := 0; i < j; i++ {
			if !c08Conflict(keys[i], keys[j]) {
				continue
			}
			if endAt[i] < 0 || endAt[i] > startAt[j] {
				r.Violation("conflict-order", "task %d (keys %v) started before earlier conflicting task %d (keys %v) ended", j, keys[j], i, keys[i])
			}
		}
	}
	if partial {
		return
	}
	if waitRes == nil {
		if anyFail || stopped {
			r.Violation("wait-lost-error", "Wait returned nil although a task failed or Stop was called")
		}
		for j := 0; j < n; j++ {
			if startAt[j] < 0 || endAt[j] < 0 {
				r.Violation("not-exactly-once", "Wait returned nil but task %d did not run", j)
			}
		}
	} else {
		var te c08Err
		if errors.As(waitRes, &te) {
			if te.id >= n || endAt[te.id] < 0 || !log[endAt[te.id]].fail {
				r.Violation("wait-wrong-error", "Wait returned the error of task %d which did not fail", te.id)
			}
			if gated && firstErr >= 0 && (log[firstErr].stop || log[firstErr].id != te.id) {
				r.Violation("wait-not-first-error", "Wait returned error of task %d, but the first error was at log position %d", te.id, firstErr)
			}
		} else if !errors.Is(waitRes, ErrStopped) {
			r.Violation("wait-wrong-error", "Wait returned an unknown error %v", waitRes)
		} else if !stopped {
			r.Violation("wait-wrong-error", "Wait returned ErrStopped but Stop was never called")
		} else if gated && firstErr >= 0 && !log[firstErr].stop {
			r.Violation("wait-not-first-error", "Wait returned ErrStopped, but task %d failed before Stop", log[firstErr].id)
		}
	}
}

func c08ParseKeys(f []string) ([]c08Key, bool) {
	var ks []c08Key
	seen := map[int]bool{}
	for _, w := range f {
		p := strings.Split(w, ":")
		if len(p) != 2 {
			return nil, false
		}
		k, e1 := strconv.Atoi(p[0])
		pm, e2 := strconv.Atoi(p[1])
		if e1 != nil || e2 != nil || k < 0 || pm < 0 || pm > 255 || seen[k] {
			return nil, false
		}
		seen[k] = true
		ks = append(ks, c08Key{k, pm})
	}
	return ks, true
}

var c08Perms = []int{1, 1, 1, 1, 1, 5, 5, 3, 7, 1, 5, 0, 2, 4, 6}

func c08GenKeys(g *verifh.RNG, nkeys int) string {
	cnt := 1 + g.Intn(3)
	if g.Chance(6) {
		cnt = 0
	}
	if cnt > nkeys {
		cnt = nkeys
	}
	perm := g.Intn(nkeys)
	var ws []string
	for i := 0; i < cnt; i++ {
		k := (perm + i) % nkeys
		ws = append(ws, fmt.Sprintf("%d:%d", k, c08Perms[g.Intn(len(c08Perms))]))
	}
	sort.Strings(ws)
	return strings.Join(ws, " ")
}

func c08Generate(r *verifh.Run) []string {
	g := verifh.NewRNG(r.Seed*1000003 + 17) // decorrelate neighbouring seeds
	lines := []string{
		// corpus: reader/writer hand-off shapes
		"case 16", "run 0:5", "run 0:1", "run 0:1", "run 0:5", "rel 0 0", "rel 1 0", "rel 0 0", "run 0:1", "rel 0 0", "rel 0 0", "wait",
		// a task reading and writing keys owned by the same earlier task
		"case 4", "run 0:5 1:5", "run 0:1 1:5", "run 0:1", "run 1:1", "rel 0 0", "run 0:5", "rel 1 0", "rel 0 0", "rel 0 0", "rel 0 0", "wait",
		// first reader owns the key
		"case 2", "run 0:1", "run 0:1", "run 0:5", "run 0:1", "rel 0 0", "rel 0 0", "rel 0 0", "rel 0 0", "wait",
		// failure and stop
		"case 1", "run 0:5", "run 0:5", "run 1:1", "rel 0 1", "rel 0 0", "wait",
		"case 3", "run 0:5", "run 0:1", "run 1:5", "stop", "run 1:1", "rel 0 0", "rel 0 0", "rel 0 0", "wait",
		// tasks queued AFTER a failure / stop are registered and skipped
		"case 2", "run 0:5", "run 0:5", "rel 0 1", "run 0:1", "run 0:5", "run 0:1", "run 0:5", "wait",
		"case 1", "run 0:5", "stop", "rel 0 0", "run 0:1", "run 0:1", "run 0:5", "run 0:7", "wait",
		"case 4", "run 0:5 1:1", "run 1:5", "rel 0 1", "rel 0 0", "run 0:1 1:1", "run 1:5", "run 0:3", "run 0:1", "wait",
		"case 2", "run 0:1", "run 0:1", "stop", "run 0:5", "rel 0 0", "rel 0 0", "run 0:1", "run 0:5", "wait",
		// several tasks made executable by one completion with fewer free workers: send order observed
		"case 1", "run 0:5", "run 0:1", "run 0:1", "run 0:1", "run 1:5", "rel 0 0", "rel 0 0", "rel 0 0", "rel 0 0", "rel 0 0", "wait",
		"case 2", "run 0:5 1:5", "run 0:1", "run 1:1", "run 0:1", "run 1:1", "rel 0 0", "rel 0 0", "rel 0 0", "rel 0 0", "rel 0 0", "wait",
		// a reader finishing while a writer enqueues: reader 1 has deregistered from task 0 but its
		// notification section is blocked (hold); writer 2 is registered in that window
		"case 4", "run 0:5", "run 0:1", "rel 0 0", "hold 0", "rel 0 0", "run 0:5", "run 0:1", "unhold", "rel 0 0", "rel 0 0", "wait",
		// same while the owner is still running; and a second completion overtaking the held one
		"case 4", "run 0:5", "run 0:1", "run 0:1", "rel 0 0", "hold 0", "rel 0 0", "rel 0 0", "run 0:5", "unhold", "rel 0 0", "wait",
		"case 3", "run 0:5 1:5", "run 0:1", "run 1:1", "rel 0 0", "hold 1", "rel 1 0", "run 1:5", "run 0:5", "rel 0 0", "unhold", "rel 0 0", "rel 0 0", "wait",
		// the held task has dependents of its own: they are released only by unhold
		"case 4", "run 0:5", "run 0:5", "run 0:1", "hold 0", "rel 0 0", "run 1:5", "run 0:1", "unhold", "rel 0 0", "rel 0 0", "rel 0 0", "wait",
	}
	ncases := r.N(2500, 36000)
	for c := 0; c < ncases; c++ {
		nt := 1 + g.Intn(12)
		nk := 1 + g.Intn(4)
		var w int
		switch g.Intn(4) {
		case 0:
			w = 1 + g.Intn(3)
		case 1:
			w = 1 + g.Intn(16)
		default:
			w = nt + g.Intn(3)
			if w > 16 {
				w = 16
			}
		}
		lines = append(lines, fmt.Sprintf("case %d", w))
		failing := g.Chance(30)
		stopping := g.Chance(10)
		early := g.Chance(50)   // releases interleaved with registration
		holding := g.Chance(35) // half-finished completions interleaved with registration
		rels := 0
		for i := 0; i < nt; i++ {
			lines = append(lines, strings.TrimSpace("run "+c08GenKeys(g, nk)))
			for early && g.Chance(35) {
				if holding && g.Chance(40) {
					x := g.Intn(64)
					lines = append(lines, fmt.Sprintf("hold %d", x), fmt.Sprintf("rel %d 0", x))
					for k, n := 0, 1+g.Intn(3); k < n; k++ {
						kk := g.Intn(nk)
						lines = append(lines, fmt.Sprintf("run %d:%d", kk, c08Perms[g.Intn(len(c08Perms))]))
						if g.Chance(30) {
							lines = append(lines, c08Rel(g, false))
						}
					}
					lines = append(lines, "unhold")
					rels++
					continue
				}
				lines = append(lines, c08Rel(g, failing))
				rels++
			}
			if stopping && g.Chance(10) {
				lines = append(lines, "stop")
			}
		}
		for ; rels < nt+1; rels++ {
			lines = append(lines, c08Rel(g, failing))
			if stopping && g.Chance(10) {
				lines = append(lines, "stop")
			}
		}
		if g.Chance(30) {
			// keep queueing after a failure / stop has been observed
			if g.Chance(50) {
				lines = append(lines, strings.TrimSpace("run "+c08GenKeys(g, nk)), fmt.Sprintf("rel %d 1", g.Intn(64)))
			} else {
				lines = append(lines, "stop")
			}
			for i, n := 0, 2+g.Intn(6); i < n; i++ {
				k := g.Intn(nk)
				perm := 1
				if i%2 == 1 || g.Chance(30) {
					perm = c08Perms[g.Intn(len(c08Perms))]
				}
				l := fmt.Sprintf("run %d:%d", k, perm)
				if g.Chance(25) && nk > 1 {
					l += fmt.Sprintf(" %d:%d", (k+1)%nk, c08Perms[g.Intn(len(c08Perms))])
				}
				lines = append(lines, l)
				if g.Chance(20) {
					lines = append(lines, c08Rel(g, false))
				}
			}
			for i := 0; i < 3; i++ {
				lines = append(lines, c08Rel(g, false))
			}
		}
		lines = append(lines, "wait")
	}
	nfree := r.N(300, 4000)
	for c := 0; c < nfree; c++ {
		lines = append(lines, fmt.Sprintf("free %d %d %d %d", g.U64()%1000000007, 1+g.Intn(16), 1+g.Intn(40), 1+g.Intn(5)))
	}
	return lines
}

func c08Rel(g *verifh.RNG, failing bool) string {
	f := 0
	if failing && g.Chance(15) {
		f = 1
	}
	return fmt.Sprintf("rel %d %d", g.Intn(64), f)
}

// c08MaxDeps: maxDependencies passed to New (the Lean driver uses the same rule)
func c08MaxDeps(w int) int64 {
	if w%2 == 0 {
		return 64
	}
	return 1 << 20
}

func TestVerifC08(t *testing.T) {
	r := verifh.Start("C08")
	defer r.Finish()
	if !c08WGOK {
		r.Count("waitgroup-introspection-off")
	}
	lines := r.ReplayLines()
	if lines == nil {
		lines = c08Generate(r)
	}
	var c *c08Case
	broken := false
	emit := func(l, out string, order []int, pushed []int) {
		if len(pushed) >= 2 && order != nil {
			l += " | " + c08Set(order) // observed send order, consumed by the Lean driver
			r.Count("order-observed")
		}
		r.Emit(l, out)
	}
	for _, l := range lines {
		if broken {
			break // a hang was reported; goroutines of that case may be stuck
		}
		if i := strings.Index(l, "|"); i >= 0 {
			l = strings.TrimSpace(l[:i]) // observed order of an earlier run: re-observed now
		}
		f := verifh.Fields(l)
		if len(f) == 0 {
			continue
		}
		if c != nil {
			c.pending = f[0] != "case" && f[0] != "free"
		}
		switch {
		case f[0] == "case" && len(f) == 2:
			w, err := strconv.Atoi(f[1])
			if err != nil || w < 1 || w > 64 {
				r.Emit(l, "bad-op")
				continue
			}
			c.finish(true)
			if c != nil && c.hung {
				broken = true
				continue
			}
			c = &c08Case{r: r, workers: w, running: map[int]bool{}, m: &c08Mirror{workers: w, nodes: map[int]int{}, held: -1}}
			c.e = New(64, w, c08MaxDeps(w), nil)
			r.Emit(l, "ok")
			c.start = r.Line()
			r.Count("workers:" + strconv.Itoa(w))
		case f[0] == "free" && len(f) == 5:
			c.finish(true)
			c = nil
			if !c08Free(r, f[1:]) {
				r.Emit(l, "bad-op")
				continue
			}
			r.Emit(l, "ok")
		case c == nil:
			r.Emit(l, "bad-op")
		case f[0] == "run":
			ks, ok := c08ParseKeys(f[1:])
			if !ok || len(c.keys) >= 60 {
				r.Emit(l, "bad-op")
				continue
			}
			if c.m.waited {
				r.Emit(l, "not-enabled")
				continue
			}
			if c.m.needsHeld(ks) {
				r.Emit(l, "blocked-by-hold") // Run would block on the lock the harness holds
				continue
			}
			id := len(c.keys)
			c.mu.Lock()
			c.keys = append(c.keys, ks)
			c.gates = append(c.gates, make(chan struct{}))
			c.fails = append(c.fails, false)
			c.mu.Unlock()
			c.ptr = append(c.ptr, nil)
			if p := c08SafeRun(c.e, c08Keys(ks), c.body(id)); p != nil {
				key := "run-panics"
				if c.m.err != "" {
					key = "run-panics-after-error" // tasks queued after a failure/stop must be registered and skipped
				}
				r.Emit(l, "panic")
				r.Violation(key, "Run(%v) of task %d panicked: %v (recorded error before the call: %q)", ks, id, p, c.m.err)
				c.hung = true // the panic left task locks held: the executor cannot be used further
				break
			}
			if len(ks) > 0 {
				c.ptr[id] = c.find(id, ks)
			}
			c.m.run(ks)
			c.m.settle()
			out, _ := c.quiesce(nil)
			r.Emit(l, fmt.Sprintf("t=%d %s", id, out))
			r.Count(fmt.Sprintf("nkeys:%d", len(ks)))
			if c.m.held >= 0 {
				r.Count("run-during-hold")
			}
		case f[0] == "rel" && len(f) == 3 && (f[2] == "0" || f[2] == "1"):
			rr, err := strconv.Atoi(f[1])
			if err != nil || rr < 0 {
				r.Emit(l, "bad-op")
				continue
			}
			if c.m.waited {
				r.Emit(l, "not-enabled")
				continue
			}
			run := c.m.running()
			if len(run) == 0 {
				r.Emit(l, "none")
				continue
			}
			j := run[rr%len(run)]
			fail := f[2] == "1"
			if c.m.held >= 0 && (fail || c.m.tasks[j].reading[c.m.held]) {
				// its deregistration from the held task (or, after an error, that of a skipped
				// reader of it) would block on the held lock half-way: not driven
				r.Emit(l, "blocked-by-hold")
				continue
			}
			if fail && c.m.err == "" {
				c.m.err = "task:" + strconv.Itoa(j)
			}
			c.m.tasks[j].status, c.m.tasks[j].ran = 5, true
			c.m.deregAll(j)
			var pushed []int
			if j != c.m.held {
				pushed = c.m.notify(j)
			} else {
				r.Count("completion-blocked-by-hold")
			}
			c.mu.Lock()
			c.fails[j] = fail
			close(c.gates[j])
			c.mu.Unlock()
			c.m.settle()
			out, order := c.quiesce(pushed)
			if c.m.err != "" {
				pushed = nil // everything is skipped: the order is immaterial
			}
			emit(l, fmt.Sprintf("rel=%d %s", j, out), order, pushed)
			if fail {
				r.Count("fail")
			}
		case f[0] == "hold" && len(f) == 2:
			rr, err := strconv.Atoi(f[1])
			if err != nil || rr < 0 {
				r.Emit(l, "bad-op")
				continue
			}
			if c.m.waited {
				r.Emit(l, "not-enabled")
				continue
			}
			run := c.m.running()
			if len(run) == 0 || c.m.held >= 0 || c.m.err != "" {
				r.Emit(l, "none")
				continue
			}
			j := run[rr%len(run)]
			if len(c.keys[j]) == 0 || c.ptr[j] == nil {
				r.Emit(l, "none")
				continue
			}
			c.ptr[j].l.Lock() // the body is gated: nobody else holds or wants t.l now
			c.m.held = j
			r.Emit(l, fmt.Sprintf("held=%d", j))
			r.Count("hold")
		case f[0] == "unhold" && len(f) == 1:
			if c.m.held < 0 {
				r.Emit(l, "none")
				continue
			}
			j := c.m.held
			var pushed []int
			pendingNotify := c.m.tasks[j].status == 5
			c.ptr[j].l.Unlock()
			c.m.held = -1
			if pendingNotify {
				pushed = c.m.notify(j)
			}
			c.m.settle()
			out, order := c.quiesce(pushed)
			if c.m.err != "" {
				pushed = nil
			}
			emit(l, fmt.Sprintf("unheld=%d %s", j, out), order, pushed)
		case f[0] == "stop" && len(f) == 1:
			if c.m.waited {
				r.Emit(l, "not-enabled")
				continue
			}
			if c.m.held >= 0 {
				r.Emit(l, "blocked-by-hold")
				continue
			}
			c.mu.Lock()
			c.log = append(c.log, c08Ev{stop: true})
			c.mu.Unlock()
			c.e.Stop()
			if c.m.err == "" {
				c.m.err = "stopped"
			}
			c.m.settle()
			out, _ := c.quiesce(nil)
			r.Emit(l, out)
			r.Count("stop")
		case f[0] == "wait" && len(f) == 1:
			if c.m.waited {
				r.Emit(l, "not-enabled")
				continue
			}
			if c.m.held >= 0 || !c.m.allExecuted() {
				r.Emit(l, "notready")
				continue
			}
			res, _ := c.doWait()
			c.m.waited = true
			c.mu.Lock()
			ranSet := map[int]bool{}
			for _, ev := range c.log {
				if ev.start && !ev.stop {
					ranSet[ev.id] = true
				}
			}
			var ran, skipped []int
			for i := range c.keys {
				if ranSet[i] {
					ran = append(ran, i)
				} else {
					skipped = append(skipped, i)
				}
			}
			sig := fmt.Sprintf("%d|%v|%s", c.workers, c.keys, res)
			c.mu.Unlock()
			r.Emit(l, fmt.Sprintf("wait=%s ran=%s skipped=%s", res, c08Set(ran), c08Set(skipped)))
			if len(c.keys) >= 3 {
				r.Distinct(sig)
			}
		default:
			r.Emit(l, "bad-op")
		}
		if c != nil {
			c.pending = false
			if c.hung {
				broken = true
			}
		}
	}
	if !broken {
		c.finish(true)
	}
}

// c08Free runs one free-running case: real timing, random delays, failures, Stop from
// another goroutine. Only the oracle looks at the schedule-dependent log.
func c08Free(r *verifh.Run, f []string) bool {
	seed, e0 := strconv.ParseUint(f[0], 10, 64)
	w, e1 := strconv.Atoi(f[1])
	nt, e2 := strconv.Atoi(f[2])
	nk, e3 := strconv.Atoi(f[3])
	if e0 != nil || e1 != nil || e2 != nil || e3 != nil || w < 1 || w > 64 || nt < 1 || nt > 200 || nk < 1 || nk > 16 {
		return false
	}
	g := verifh.NewRNG(seed)
	keys := make([][]c08Key, nt)
	delays := make([]int, nt)
	fails := make([]bool, nt)
	failing := g.Chance(30)
	for i := range keys {
		keys[i], _ = c08ParseKeys(verifh.Fields(c08GenKeys(g, nk)))
		delays[i] = g.Intn(4)
		fails[i] = failing && g.Chance(8)
	}
	stopAt := -1
	if g.Chance(15) {
		stopAt = g.Intn(nt)
	}
	e := New(nt, w, 1<<20, nil)
	var mu sync.Mutex
	var log []c08Ev
	var stopped bool
	var stopWG sync.WaitGroup
	for i := 0; i < nt; i++ {
		id := i
		if id == stopAt {
			stopWG.Add(1)
			mu.Lock()
			stopped = true
			mu.Unlock()
			go func() { defer stopWG.Done(); e.Stop() }()
		}
		body := func() error {
			mu.Lock()
			log = append(log, c08Ev{start: true, id: id})
			mu.Unlock()
			switch delays[id] {
			case 1:
				runtime.Gosched()
			case 2:
				time.Sleep(time.Duration(1+id%7) * time.Microsecond)
			case 3:
				for k := 0; k < 200*(1+id%5); k++ {
					_ = k * k
				}
			}
			mu.Lock()
			log = append(log, c08Ev{start: false, id: id, fail: fails[id]})
			mu.Unlock()
			if fails[id] {
				return c08Err{id}
			}
			return nil
		}
		if p := c08SafeRun(e, c08Keys(keys[id]), body); p != nil {
			mu.Lock()
			after := stopped
			for _, ev := range log {
				if !ev.start && ev.fail {
					after = true
				}
			}
			mu.Unlock()
			key := "run-panics"
			if after {
				key = "run-panics-after-error"
			}
			r.Violation(key, "free-running case seed=%d workers=%d: Run(%v) of task %d panicked: %v", seed, w, keys[id], id, p)
			return true
		}
		if g.Chance(10) {
			runtime.Gosched()
		}
	}
	done := make(chan error, 1)
	go func() { done <- e.Wait() }()
	select {
	case err := <-done:
		stopWG.Wait()
		mu.Lock()
		defer mu.Unlock()
		// Stop may have lost the race against Wait's final err.Load only if it ran after it;
		// it was started before Wait here but is asynchronous: accept nil in that case.
		c08Oracle(r, keys, log, err, false, stopped && err != nil, false)
		if err == nil && !stopped {
			r.Count("free:ok")
		} else {
			r.Count("free:err")
		}
	case <-time.After(10 * time.Second):
		r.Violation("wait-hang", "free-running case seed=%d workers=%d tasks=%d: Wait did not return", seed, w, nt)
	}
	return true
}
