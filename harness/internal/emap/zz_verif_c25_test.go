package emap

import (
	"fmt"
	"sort"
	"strconv"
	"strings"
	"testing"

	"github.com/ava-labs/avalanchego/ids"
	"github.com/ava-labs/avalanchego/utils/set"

	"github.com/ava-labs/hypersdk/internal/verifh"
)

// C25 (emap part): EMap behaves like a set of IDs (non-zero expiry) ordered by expiry.
// Protocol: see /verif/lean/Driver/C25.lean.

type c25Item struct {
	id  int
	exp int64
}

func c25ID(n int) ids.ID  { return ids.ID{byte(n), byte(n >> 8), 0xC2, 0x5E} }
func c25Un(id ids.ID) int { return int(id[0]) | int(id[1])<<8 }

func (i *c25Item) GetID() ids.ID    { return c25ID(i.id) }
func (i *c25Item) GetExpiry() int64 { return i.exp }

func c25Join(l []string, sep string) string {
	if len(l) == 0 {
		return "-"
	}
	return strings.Join(l, sep)
}

func c25IDs(l []ids.ID) string {
	s := make([]string, len(l))
	for i, id := range l {
		s[i] = strconv.Itoa(c25Un(id))
	}
	return strings.Join(s, ",")
}

func c25Dump(e *EMap[*c25Item], u int) string {
	var es, ks, ss, ts []string
	for _, en := range e.bh.Items() {
		es = append(es, fmt.Sprintf("%d:%d:%d:%d/%s", c25Un(en.ID), en.Val, en.Index, en.Item.t, c25IDs(en.Item.items)))
	}
	for i := 0; i < u; i++ {
		if e.bh.Has(c25ID(i)) {
			ks = append(ks, strconv.Itoa(i))
		}
		if e.seen.Contains(c25ID(i)) {
			ss = append(ss, strconv.Itoa(i))
		}
	}
	keys := make([]int64, 0, len(e.times))
	for t := range e.times {
		keys = append(keys, t)
	}
	sort.Slice(keys, func(i, j int) bool { return keys[i] < keys[j] })
	for _, t := range keys {
		ts = append(ts, fmt.Sprintf("%d=%s", t, c25IDs(e.times[t].items)))
	}
	return c25Join(es, " ") + " ; " + c25Join(ks, " ") + " ; " + c25Join(ss, " ") + " ; " + c25Join(ts, " ")
}

func c25Gen(r *verifh.Run) []string {
	var L []string
	add := func(s ...string) { L = append(L, s...) }
	// corpus: expiry 0 ignored; duplicate id ignored; eviction then re-add; strict <; negative expiry
	add("reset emap 6", "add 1/5 2/5 3/0 4/2", "add 1/9 3/7", "any 3", "any 0 5", "contains 0 - 1 2 3 0", "contains 1 - 0 1 2", "contains 0 1 1 2 3", "contains 1 0,2 1 2 3", "setmin 5", "setmin 6", "add 1/3 2/3", "setmin 3", "setmin 4")
	add("reset emap 6", "add 0/4 1/4 2/4 3/4", "setmin 4", "setmin 5", "add 0/4", "add 1/4 0/6", "setmin 5", "setmin 100", "setmin 0")
	add("reset emap 4", "setmin 3", "any 1", "add 1/-3 2/-3 3/-1", "setmin -2", "add 0/0", "any 0", "setmin 1", "add 1/0 1/2", "setmin 1")
	add("reset emap 8", "add 0/1 1/10 2/2 3/11 4/12 5/3 6/1 7/10", "setmin 3", "add 0/5 6/5 2/11", "setmin 11", "setmin 13")
	nseq := r.N(4000, 200000)
	for s := 0; s < nseq; s++ {
		u := 3 + r.RNG.Intn(8)
		n := 1 + r.RNG.Intn(30)
		span := 8
		if s%50 == 0 {
			u = 10 + r.RNG.Intn(31)
			n = 100 + r.RNG.Intn(150)
			span = 5 + r.RNG.Intn(40)
		}
		add(fmt.Sprintf("reset emap %d", u))
		idl := func(k int) []string {
			out := make([]string, k)
			for i := range out {
				out[i] = strconv.Itoa(r.RNG.Intn(u))
			}
			return out
		}
		for k := 0; k < n; k++ {
			switch c := r.RNG.Intn(100); {
			case c < 50:
				m := 1 + r.RNG.Intn(4)
				its := make([]string, m)
				for i := range its {
					its[i] = fmt.Sprintf("%d/%d", r.RNG.Intn(u), -2+r.RNG.Intn(span))
				}
				add("add " + strings.Join(its, " "))
			case c < 70:
				add(fmt.Sprintf("setmin %d", -3+r.RNG.Intn(span+3)))
			case c < 82:
				add("any " + strings.Join(idl(r.RNG.Intn(4)), " "))
			default:
				m := r.RNG.Intn(6)
				var mk []string
				for i := 0; i < m+2; i++ {
					if r.RNG.Intn(4) == 0 {
						mk = append(mk, strconv.Itoa(i))
					}
				}
				add(strings.TrimSpace(fmt.Sprintf("contains %d %s %s", r.RNG.Intn(2), c25Join(mk, ","), strings.Join(idl(m), " "))))
			}
		}
	}
	return L
}

func TestVerifC25EMap(t *testing.T) {
	r := verifh.Start("C25")
	defer r.Finish()
	lines := r.ReplayLines()
	if lines == nil {
		lines = c25Gen(r)
	}
	var (
		e      *EMap[*c25Item]
		u      int
		spec   map[int]int64 // tracked ids (non-zero expiry) with their expiry
		order  map[int]int   // insertion counter, for the within-bucket order
		tick   int
		seq    []string
		dupAdd bool
		rem    bool
		maxLen int
	)
	flush := func() {
		if dupAdd && rem && maxLen >= 3 {
			r.Distinct(strings.Join(seq, "|"))
		}
	}
	nat := func(s string) (int, bool) {
		v, err := strconv.ParseUint(s, 10, 31)
		return int(v), err == nil
	}
	for _, l := range lines {
		f := verifh.Fields(l)
		if len(f) >= 1 && f[0] == "reset" {
			flush()
			seq, dupAdd, rem, maxLen = nil, false, false, 0
			e = nil
			if len(f) != 3 || f[1] != "emap" {
				r.Emit(l, "bad-op")
				continue
			}
			n, err := strconv.Atoi(f[2])
			if err != nil || n < 0 {
				r.Emit(l, "bad-op")
				continue
			}
			u = n
			e = NewEMap[*c25Item]()
			spec, order = map[int]int64{}, map[int]int{}
			r.Emit(l, "ok ; "+c25Dump(e, u))
			continue
		}
		if e == nil || len(f) == 0 {
			r.Emit(l, "bad-op")
			continue
		}
		seq = append(seq, l)
		res, bad := "", false
		parseIDs := func(ss []string) []*c25Item {
			out := make([]*c25Item, 0, len(ss))
			for _, s := range ss {
				id, ok := nat(s)
				if !ok {
					bad = true
					return nil
				}
				out = append(out, &c25Item{id: id, exp: 1})
			}
			return out
		}
		switch {
		case f[0] == "add":
			var items []*c25Item
			for _, s := range f[1:] {
				p := strings.Split(s, "/")
				if len(p) != 2 {
					bad = true
					break
				}
				id, ok := nat(p[0])
				exp, err := strconv.ParseInt(p[1], 10, 64)
				if !ok || err != nil {
					bad = true
					break
				}
				items = append(items, &c25Item{id, exp})
			}
			if bad {
				break
			}
			e.Add(items)
			res = "ok"
			for _, it := range items {
				if it.exp == 0 {
					r.Count("ev:add-zero-expiry")
					continue
				}
				if _, held := spec[it.id]; held {
					dupAdd = true
					r.Count("ev:dup-add")
					continue
				}
				spec[it.id] = it.exp
				tick++
				order[it.id] = tick
			}
		case len(f) == 2 && f[0] == "setmin":
			v, err := strconv.ParseInt(f[1], 10, 64)
			if err != nil {
				bad = true
				break
			}
			out := e.SetMin(v)
			var ss []string
			var want []int
			for id, ex := range spec {
				if ex < v {
					want = append(want, id)
				}
			}
			sort.Slice(want, func(i, j int) bool {
				a, b := want[i], want[j]
				if spec[a] != spec[b] {
					return spec[a] < spec[b]
				}
				return order[a] < order[b]
			})
			okSet := len(out) == len(want)
			for k, id := range out {
				ss = append(ss, strconv.Itoa(c25Un(id)))
				if okSet && want[k] != c25Un(id) {
					okSet = false
				}
			}
			if !okSet {
				r.Violation("emap-setmin", "setmin %d evicted %v, spec says exactly %v (by expiry, then insertion order)", v, ss, want)
			}
			for _, id := range want {
				delete(spec, id)
			}
			if len(out) > 0 {
				rem = true
			}
			r.Count(fmt.Sprintf("ev:setmin-evicted-%d", min(len(out), 5)))
			res = c25Join(ss, " ")
		case f[0] == "any":
			items := parseIDs(f[1:])
			if bad {
				break
			}
			got := e.Any(items)
			want := false
			for _, it := range items {
				if _, held := spec[it.id]; held {
					want = true
				}
			}
			if got != want {
				r.Violation("emap-any", "Any(%v)=%v but membership says %v", f[1:], got, want)
			}
			res = strconv.FormatBool(got)
		case len(f) >= 3 && f[0] == "contains":
			stop, ok := nat(f[1])
			if !ok || stop > 1 {
				bad = true
				break
			}
			marker := set.NewBits()
			init := map[int]bool{}
			if f[2] != "-" {
				for _, s := range strings.Split(f[2], ",") {
					i, ok := nat(s)
					if !ok || i > 63 {
						bad = true
						break
					}
					marker.Add(i)
					init[i] = true
				}
			}
			items := parseIDs(f[3:])
			if bad {
				break
			}
			got := e.Contains(items, marker, stop == 1)
			want := map[int]bool{}
			for i := range init {
				want[i] = true
			}
			for i, it := range items {
				if _, held := spec[it.id]; held && !init[i] {
					want[i] = true
					if stop == 1 {
						break
					}
				}
			}
			var bits []string
			okBits := true
			for i := 0; i < 64; i++ {
				if got.Contains(i) {
					bits = append(bits, strconv.Itoa(i))
				}
				if got.Contains(i) != want[i] {
					okBits = false
				}
			}
			if !okBits {
				r.Violation("emap-contains", "%s returned bits %v, membership says %v", l, bits, want)
			}
			res = c25Join(bits, ",")
		default:
			bad = true
		}
		if bad {
			r.Emit(l, "bad-op")
			continue
		}
		r.Emit(l, res+" ; "+c25Dump(e, u))
		// ---- oracle on the state
		if len(spec) > maxLen {
			maxLen = len(spec)
		}
		for i := 0; i < u; i++ {
			if _, held := spec[i]; held != e.seen.Contains(c25ID(i)) {
				r.Violation("emap-seen", "seen(%d)=%v but membership is %v", i, !held, held)
			}
		}
		if e.seen.Len() != len(spec) {
			r.Violation("emap-seen", "seen has %d ids, spec %d", e.seen.Len(), len(spec))
		}
		total := 0
		for t, b := range e.times {
			total += len(b.items)
			if b.t != t || len(b.items) == 0 {
				r.Violation("emap-times", "bucket under key %d has t=%d and %d items", t, b.t, len(b.items))
			}
			for _, id := range b.items {
				if ex, held := spec[c25Un(id)]; !held || ex != t {
					r.Violation("emap-times", "bucket %d lists id %d (spec held=%v expiry=%d)", t, c25Un(id), held, ex)
				}
			}
		}
		if total != len(spec) || e.bh.Len() != len(e.times) {
			r.Violation("emap-times", "buckets list %d ids for %d tracked; %d heap entries for %d buckets", total, len(spec), e.bh.Len(), len(e.times))
		}
		items := e.bh.Items()
		for k, en := range items {
			if en.Index != k || e.times[en.Val] != en.Item || en.Item.t != en.Val {
				r.Violation("emap-heap-order", "slot %d: index %d val %d bucket t %d", k, en.Index, en.Val, en.Item.t)
			}
			if k > 0 && items[(k-1)/2].Val > en.Val {
				r.Violation("emap-heap-order", "slot %d val %d below parent val %d", k, en.Val, items[(k-1)/2].Val)
			}
		}
	}
	flush()
}
