package emap

import (
	"fmt"
	"sync"
	"testing"
	"time"

	"github.com/ava-labs/avalanchego/utils/set"

	"github.com/ava-labs/hypersdk/internal/verifh"
)

// C25, goroutine-parallel mode for EMap (oracle only, built with -race, thorough tier): the model
// treats every exported method as one atomic step because it holds e.mu throughout. Here adders,
// an evictor and readers hammer one EMap concurrently; -race reports an unlocked access, and the
// final state must be the set semantics: every ID added with a non-zero expiry is either still
// tracked (expiry >= final minimum) or was evicted (exactly once if only one goroutine added it).
func TestVerifC25EMapParallel(t *testing.T) {
	r := verifh.Start("C25")
	defer r.Finish()
	rounds := r.N(30, 400)
	for k := 0; k < rounds; k++ {
		const U = 96
		const adders = 4
		final := int64(4 + r.RNG.Intn(8))
		exp := make([]int64, U)   // expiry of id (same for every adder)
		owners := make([]int, U)  // how many adders add this id
		plans := make([][]*c25Item, adders)
		for id := 0; id < U; id++ {
			exp[id] = int64(r.RNG.Intn(16)) // 0 = never tracked
			n := 1
			if r.RNG.Intn(4) == 0 {
				n = 2 + r.RNG.Intn(2) // shared id: concurrent Adds of the same unseen id
			}
			first := r.RNG.Intn(adders)
			for j := 0; j < n; j++ {
				a := (first + j) % adders
				plans[a] = append(plans[a], &c25Item{id, exp[id]})
				owners[id]++
			}
		}
		e := NewEMap[*c25Item]()
		line := fmt.Sprintf("round %d final=%d", k, final)
		var wg sync.WaitGroup
		var mu sync.Mutex
		evicted := map[int]int{}
		var problems []string
		note := func(ids []int, tmin int64) {
			mu.Lock()
			defer mu.Unlock()
			for _, id := range ids {
				evicted[id]++
				if exp[id] >= tmin || exp[id] == 0 {
					problems = append(problems, fmt.Sprintf("SetMin(%d) evicted id %d with expiry %d", tmin, id, exp[id]))
				}
			}
		}
		for a := 0; a < adders; a++ {
			wg.Add(1)
			go func(plan []*c25Item, rng *verifh.RNG) {
				defer wg.Done()
				for len(plan) > 0 {
					n := 1 + rng.Intn(4)
					if n > len(plan) {
						n = len(plan)
					}
					e.Add(plan[:n])
					plan = plan[n:]
				}
			}(plans[a], verifh.NewRNG(r.RNG.U64()))
		}
		wg.Add(1)
		go func() { // evictor: rising minimum, never above `final`
			defer wg.Done()
			for tmin := int64(0); tmin <= final; tmin++ {
				var ids []int
				for _, id := range e.SetMin(tmin) {
					ids = append(ids, c25Un(id))
				}
				note(ids, tmin)
			}
		}()
		for q := 0; q < 2; q++ {
			wg.Add(1)
			go func(rng *verifh.RNG) { // readers
				defer wg.Done()
				for i := 0; i < 200; i++ {
					items := []*c25Item{{rng.Intn(U), 1}, {rng.Intn(U), 1}, {rng.Intn(U), 1}}
					e.Any(items)
					m := e.Contains(items, set.NewBits(), rng.Bool())
					for j, it := range items {
						if m.Contains(j) && exp[it.id] == 0 {
							mu.Lock()
							problems = append(problems, fmt.Sprintf("Contains reports id %d which only ever had expiry 0", it.id))
							mu.Unlock()
						}
					}
				}
			}(verifh.NewRNG(r.RNG.U64()))
		}
		done := make(chan struct{})
		go func() { wg.Wait(); close(done) }()
		select {
		case <-done:
		case <-time.After(30 * time.Second):
			r.Emit(line, "hang")
			r.Violation("emap-parallel-hang", "goroutines did not finish within 30 s (%s)", line)
			continue
		}
		var last []int
		for _, id := range e.SetMin(final) {
			last = append(last, c25Un(id))
		}
		note(last, final)
		r.Emit(line, "ok")
		for _, p := range problems {
			r.Violation("emap-parallel-setmin", "%s (%s)", p, line)
		}
		// final state = set semantics
		inBuckets := map[int]int{}
		for tm, b := range e.times {
			for _, id := range b.items {
				inBuckets[c25Un(id)]++
				if exp[c25Un(id)] != tm {
					r.Violation("emap-parallel-times", "id %d listed under %d, expiry %d (%s)", c25Un(id), tm, exp[c25Un(id)], line)
				}
			}
		}
		for id := 0; id < U; id++ {
			tracked := e.seen.Contains(c25ID(id))
			want := exp[id] != 0 && exp[id] >= final
			if tracked != want || inBuckets[id] != map[bool]int{true: 1, false: 0}[want] {
				r.Violation("emap-parallel-seen", "id %d expiry %d: seen=%v buckets=%d, set semantics says tracked=%v (%s)", id, exp[id], tracked, inBuckets[id], want, line)
			}
			n := evicted[id]
			switch {
			case exp[id] == 0 || exp[id] >= final:
				if n != 0 {
					r.Violation("emap-parallel-setmin", "id %d expiry %d evicted %d times (%s)", id, exp[id], n, line)
				}
			case n < 1 || n > owners[id]:
				r.Violation("emap-parallel-setmin", "id %d expiry %d added by %d goroutines, evicted %d times (%s)", id, exp[id], owners[id], n, line)
			}
		}
		if e.bh.Len() != len(e.times) || e.seen.Len() != len(inBuckets) {
			r.Violation("emap-parallel-times", "%d heap entries, %d buckets, %d seen, %d listed (%s)", e.bh.Len(), len(e.times), e.seen.Len(), len(inBuckets), line)
		}
		r.Distinct(line)
	}
}
