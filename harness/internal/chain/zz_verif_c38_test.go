package chain

import (
	"context"
	"encoding/binary"
	"errors"
	"fmt"
	"math"
	"math/bits"
	"sort"
	"strconv"
	"strings"
	"testing"

	"github.com/ava-labs/avalanchego/database"
	"github.com/ava-labs/avalanchego/database/memdb"
	"github.com/ava-labs/avalanchego/ids"

	"github.com/ava-labs/hypersdk/chain"
	"github.com/ava-labs/hypersdk/codec"
	"github.com/ava-labs/hypersdk/internal/verifh"
	"github.com/ava-labs/hypersdk/state"
	"github.com/ava-labs/hypersdk/x/dsmr"
	"github.com/ava-labs/hypersdk/x/fdsmr"
)

// C38: fee bonds are released exactly once per bonded transaction.
//
// Real internal/chain.Bonder on memdb + real fdsmr.Node over a stub DSMR. Line protocol
// (one sequence per `reset`; s = sponsor 0|1; i = tx index of the sequence's universe):
//   reset                          -> ok
//   deftx <i> <s> <size> <expiry>  -> ok          a tx of exactly <size> bytes signed by sponsor s
//   setmax <s> <max>               -> ok          Bonder.SetMaxBalance on the state view
//   bond <i> <rate>                -> true|false  Bonder.Bond directly   (raw sequences only)
//   unbond <i>                     -> ok          Bonder.Unbond directly
//   build <rate> <i>*              -> b <bonded i,…> Node.BuildChunk; the txs handed to the inner DSMR
//   buildfail <rate> <i>*          -> e <bonded i,…> the same, but the inner DSMR.BuildChunk returns an error
//   accept <ts> <i>*               -> ok          Node.Accept of a block with timestamp ts executing txs
// every output is followed by ` p=<pending0>,<pending1> rec=<i:fee,…> heap=<i,…> dw=<n>` read back
// from the bonder db / the node's pending heap; dw = number of bonder db writes made outside a
// batch so far (the model writes balance and fee record in one atomic batch: always 0).

type c38Auth struct {
	sponsor byte
	pad     []byte
}

func c38Addr(s byte) codec.Address { var a codec.Address; a[0] = 0x77; a[1] = s; a[32] = s + 1; return a }

func (c38Auth) GetTypeID() uint8                          { return 0 }
func (c38Auth) ValidRange(chain.Rules) (int64, int64)     { return 0, math.MaxInt64 }
func (a c38Auth) Bytes() []byte                           { return append([]byte{a.sponsor}, a.pad...) }
func (c38Auth) ComputeUnits(chain.Rules) uint64           { return 0 }
func (c38Auth) Verify(context.Context, []byte) error      { return nil }
func (a c38Auth) Actor() codec.Address                    { return c38Addr(a.sponsor) }
func (a c38Auth) Sponsor() codec.Address                  { return c38Addr(a.sponsor) }

// c38Tx makes a transaction of sponsor s, expiry e, unique by idx, with padLen auth padding bytes.
func c38Tx(idx int, s byte, expiry int64, padLen int) *chain.Transaction {
	pad := make([]byte, padLen)
	for j := range pad {
		pad[j] = byte(idx)
	}
	tx, err := chain.NewTransaction(chain.Base{Timestamp: expiry, ChainID: ids.Empty, MaxFee: uint64(idx)}, nil, c38Auth{sponsor: s, pad: pad})
	if err != nil {
		panic(err)
	}
	return tx
}

// c38TxOfSize searches the padding that yields exactly size bytes.
func c38TxOfSize(idx int, s byte, expiry int64, size int) *chain.Transaction {
	base := c38Tx(idx, s, expiry, 1).Size()
	for _, d := range []int{0, -1, -2, 1, -3} {
		p := 1 + size - base + d
		if p < 1 {
			continue
		}
		if tx := c38Tx(idx, s, expiry, p); tx.Size() == size {
			return tx
		}
	}
	return nil
}

// mapMutable is a plain in-memory state.Mutable (the bonder only reads/writes one key).
type c38Mutable map[string][]byte

func (m c38Mutable) GetValue(_ context.Context, k []byte) ([]byte, error) {
	v, ok := m[string(k)]
	if !ok {
		return nil, database.ErrNotFound
	}
	return v, nil
}
func (m c38Mutable) Insert(_ context.Context, k, v []byte) error { m[string(k)] = v; return nil }
func (m c38Mutable) Remove(_ context.Context, k []byte) error    { delete(m, string(k)); return nil }

var _ state.Mutable = c38Mutable{}

type c38DSMR struct {
	built  []*chain.Transaction
	accept []*chain.Transaction
	fail   bool // scripted: the next inner BuildChunk refuses the chunk (duplicate chunk / rate limit / storage error)
}

var errC38Inner = errors.New("inner dsmr refuses the chunk")

func (d *c38DSMR) BuildChunk(_ context.Context, txs []*chain.Transaction, _ int64, _ codec.Address) error {
	d.built = txs
	if d.fail {
		d.fail = false
		return errC38Inner
	}
	return nil
}

func (d *c38DSMR) Accept(_ context.Context, b dsmr.Block) (dsmr.ExecutedBlock[*chain.Transaction], error) {
	// split the executed txs over two chunks to exercise the nested loop
	h := len(d.accept) / 2
	mk := func(txs []*chain.Transaction) dsmr.Chunk[*chain.Transaction] {
		return dsmr.Chunk[*chain.Transaction]{UnsignedChunk: dsmr.UnsignedChunk[*chain.Transaction]{Txs: txs}}
	}
	return dsmr.ExecutedBlock[*chain.Transaction]{
		BlockHeader: b.BlockHeader,
		Chunks:      []dsmr.Chunk[*chain.Transaction]{mk(d.accept[:h]), mk(d.accept[h:])},
	}, nil
}

// c38DB counts the writes that bypass a batch: the model (and the property's accounting) relies
// on Bond/Unbond changing the pending balance and the fee record in ONE atomic batch.
type c38DB struct {
	database.Database
	direct int
}

func (d *c38DB) Put(k, v []byte) error { d.direct++; return d.Database.Put(k, v) }
func (d *c38DB) Delete(k []byte) error { d.direct++; return d.Database.Delete(k) }

type c38Seq struct {
	db      *c38DB
	bonder  Bonder
	view    c38Mutable
	inner   *c38DSMR
	node    *fdsmr.Node[*c38DSMR, *chain.Transaction]
	txs     map[int]*chain.Transaction
	// oracle bookkeeping (the property's statement, evaluated on the implementation's outputs)
	max       [2]uint64
	maxSet    [2]bool
	raw       bool              // raw bond/unbond used: node-level oracle does not apply
	unsettled map[int]uint64    // tx -> fee of its bonding, for bonded txs neither accepted nor expired
	dupBond   bool              // some tx was bonded while it was already unsettled
	start     int
}

func newC38Seq(line int) *c38Seq {
	db := &c38DB{Database: memdb.New()}
	s := &c38Seq{db: db, bonder: NewBonder(db), view: c38Mutable{}, inner: &c38DSMR{}, txs: map[int]*chain.Transaction{}, unsettled: map[int]uint64{}, start: line}
	s.node = fdsmr.New[*c38DSMR, *chain.Transaction](s.inner, s.bonder)
	return s
}

func (s *c38Seq) pending(sp byte) uint64 {
	a := c38Addr(sp)
	v, err := s.db.Get(a[:])
	if errors.Is(err, database.ErrNotFound) || len(v) == 0 {
		return 0
	}
	if err != nil {
		panic(err)
	}
	return binary.BigEndian.Uint64(v)
}

func (s *c38Seq) observe() string {
	idx := make([]int, 0, len(s.txs))
	for i := range s.txs {
		idx = append(idx, i)
	}
	sort.Ints(idx)
	var recs, heap []string
	for _, i := range idx {
		id := s.txs[i].GetID()
		if v, err := s.db.Get(id[:]); err == nil {
			recs = append(recs, fmt.Sprintf("%d:%d", i, binary.BigEndian.Uint64(v)))
		}
		if s.node.VerifPendingHas(id) {
			heap = append(heap, strconv.Itoa(i))
		}
	}
	j := func(x []string) string {
		if len(x) == 0 {
			return "-"
		}
		return strings.Join(x, ",")
	}
	return fmt.Sprintf(" p=%d,%d rec=%s heap=%s dw=%d", s.pending(0), s.pending(1), j(recs), j(heap), s.db.direct)
}

func TestVerifC38(t *testing.T) {
	r := verifh.Start("C38")
	defer r.Finish()
	lines := r.ReplayLines()
	if lines == nil {
		lines = c38Generate(r)
	}
	ctx := context.Background()
	var s *c38Seq
	for _, l := range lines {
		f := verifh.Fields(l)
		bad := func() { r.Emit(l, "bad-op") }
		if len(f) == 0 {
			continue
		}
		if f[0] == "reset" && len(f) == 1 {
			s = newC38Seq(r.Line() + 1)
			r.Emit(l, "ok")
			continue
		}
		if s == nil {
			bad()
			continue
		}
		args, okArgs := c38Ints(f[1:])
		if !okArgs {
			bad()
			continue
		}
		getTx := func(a c38Arg) (*chain.Transaction, bool) {
			if !a.isUint || a.u > 250 {
				return nil, false
			}
			tx, ok := s.txs[int(a.u)]
			return tx, ok
		}
		getTxs := func(a []c38Arg) ([]*chain.Transaction, []int, bool) {
			var txs []*chain.Transaction
			var is []int
			for _, v := range a {
				tx, ok := getTx(v)
				if !ok {
					return nil, nil, false
				}
				txs = append(txs, tx)
				is = append(is, int(v.u))
			}
			return txs, is, true
		}
		switch {
		case f[0] == "deftx" && len(f) == 5:
			if !args[0].isUint || !args[1].isUint || !args[2].isUint || !args[3].isInt || args[0].u > 250 || args[1].u > 1 || args[2].u > 4096 {
				bad()
				continue
			}
			i, sp, size, exp := int(args[0].u), args[1].u, int(args[2].u), args[3].i
			if _, dup := s.txs[i]; dup {
				bad()
				continue
			}
			tx := c38TxOfSize(i, byte(sp), exp, size)
			if tx == nil {
				t.Fatalf("deftx: no transaction of %d bytes with expiry %d can be constructed (generator/replay error): %s", size, exp, l)
			}
			s.txs[i] = tx
			r.Emit(l, "ok"+s.observe())
		case f[0] == "setmax" && len(f) == 3 && args[0].isUint && args[0].u <= 1 && args[1].isUint:
			sp := args[0].u
			if err := s.bonder.SetMaxBalance(ctx, s.view, c38Addr(byte(sp)), args[1].u); err != nil {
				t.Fatal(err)
			}
			s.max[sp], s.maxSet[sp] = args[1].u, true
			r.Emit(l, "ok"+s.observe())
		case f[0] == "bond" && len(f) == 3 && args[1].isUint:
			tx, ok := getTx(args[0])
			if !ok {
				bad()
				continue
			}
			s.raw = true
			sp := tx.Auth.(c38Auth).sponsor
			before := s.pending(sp)
			txID := tx.GetID()
			hadRec, _ := s.db.Has(txID[:])
			got, err := s.bonder.Bond(ctx, s.view, tx, args[1].u)
			if err != nil {
				t.Fatal(err)
			}
			r.Emit(l, strconv.FormatBool(got)+s.observe())
			if got && !hadRec {
				s.checkFee(r, l, int(args[0].u), tx, args[1].u)
			}
			if after := s.pending(sp); after > s.max[sp] && (after > before || (!got && after != before)) {
				r.ViolationAt("pending-exceeds-max", s.start, r.Line(), "sponsor %d pending rose %d -> %d > max %d after %s", sp, before, after, s.max[sp], l)
			}
		case f[0] == "unbond" && len(f) == 2:
			tx, ok := getTx(args[0])
			if !ok {
				bad()
				continue
			}
			s.raw = true
			if err := s.bonder.Unbond(tx); err != nil {
				t.Fatal(err)
			}
			r.Emit(l, "ok"+s.observe())
		case (f[0] == "build" || f[0] == "buildfail") && len(f) >= 2 && args[0].isUint:
			txs, is, ok := getTxs(args[1:])
			if !ok {
				bad()
				continue
			}
			rate := args[0].u
			before := [2]uint64{s.pending(0), s.pending(1)}
			alreadyBefore := map[int]struct{}{} // unsettled (per the oracle's history) before this build
			for i := range s.unsettled {
				alreadyBefore[i] = struct{}{}
			}
			recBefore := map[int]bool{} // fee record present before this build (e.g. from a raw Bond)
			for p, tx := range txs {
				id := tx.GetID()
				recBefore[is[p]], _ = s.db.Has(id[:])
			}
			s.inner.built = nil
			s.inner.fail = f[0] == "buildfail"
			if err := s.node.BuildChunk(ctx, s.view, txs, 0, codec.EmptyAddress, rate); (err != nil) != (f[0] == "buildfail") || (err != nil && !errors.Is(err, errC38Inner)) {
				t.Fatalf("%s: BuildChunk returned %v", l, err)
			}
			// which input positions were passed on (built is a subsequence of txs)
			var bondedIdx []string
			var bondedPos []int
			k := 0
			for p, tx := range txs {
				if k < len(s.inner.built) && s.inner.built[k] == tx {
					bondedIdx = append(bondedIdx, strconv.Itoa(is[p]))
					bondedPos = append(bondedPos, p)
					k++
				}
			}
			if k != len(s.inner.built) {
				r.Violation("build-passes-foreign-tx", "inner DSMR received txs that are not a subsequence of the input: %s", l)
			}
			out := "-"
			if len(bondedIdx) > 0 {
				out = strings.Join(bondedIdx, ",")
			}
			if f[0] == "buildfail" {
				// the txs handed to the failing inner build were bonded all the same: they count as
				// bonded-and-unsettled below and must be released by accept/expiry
				r.Emit(l, "e "+out+s.observe())
				if len(bondedPos) > 0 {
					r.Count("failed-build-with-bonds")
				}
			} else {
				r.Emit(l, "b "+out+s.observe())
			}
			// oracle bookkeeping: a tx passed on is bonded; if it was already unsettled this is a re-bond
			for _, p := range bondedPos {
				i := is[p]
				// a fee record that exists before the build means "still bonded" only if the oracle's own
				// history says so (node-level sequences) or a raw Bond may have created it (raw sequences)
				if _, already := s.unsettled[i]; already || (s.raw && recBefore[i]) {
					s.dupBond = true
					r.Count("dup-bond")
					if !already { // bonded by a raw Bond earlier: the fee of that bonding is held
						id := txs[p].GetID()
						if v, err := s.db.Get(id[:]); err == nil && len(v) == 8 {
							s.unsettled[i] = binary.BigEndian.Uint64(v)
						}
					}
					continue
				}
				s.unsettled[i] = s.checkFee(r, l, i, txs[p], rate)
			}
			// a tx admitted in this build must fit: the sponsor's unsettled fees (recomputed here from
			// sizes and rates, not read from the db) stay within its max balance
			if !s.raw {
				var want [2]uint64
				for i, fee := range s.unsettled {
					want[s.txs[i].Auth.(c38Auth).sponsor] += fee
				}
				for _, p := range bondedPos {
					sp := txs[p].Auth.(c38Auth).sponsor
					if _, already := alreadyBefore[is[p]]; !already && want[sp] > s.max[sp] {
						r.ViolationAt("pending-exceeds-max", s.start, r.Line(), "sponsor %d: tx %d admitted although the fees of its unsettled bonded txs sum to %d > max %d (%s)", sp, is[p], want[sp], s.max[sp], l)
						break
					}
				}
			}
			// pending never rises above the max balance
			for sp := byte(0); sp < 2; sp++ {
				if after := s.pending(sp); after > before[sp] && after > s.max[sp] {
					r.ViolationAt("pending-exceeds-max", s.start, r.Line(), "sponsor %d pending rose %d -> %d > max %d", sp, before[sp], after, s.max[sp])
				}
			}
			s.checkSum(r, l)
			if len(bondedPos) > 0 {
				r.Distinct(fmt.Sprintf("%d", s.start))
			}
		case f[0] == "accept" && len(f) >= 2 && args[0].isInt:
			txs, is, ok := getTxs(args[1:])
			if !ok {
				bad()
				continue
			}
			ts := args[0].i
			s.inner.accept = txs
			if _, err := s.node.Accept(ctx, dsmr.Block{BlockHeader: dsmr.BlockHeader{Timestamp: ts}}); err != nil {
				t.Fatal(err)
			}
			r.Emit(l, "ok"+s.observe())
			for i := range s.unsettled {
				if s.txs[i].GetExpiry() < ts {
					delete(s.unsettled, i)
				}
			}
			for _, i := range is {
				delete(s.unsettled, i)
			}
			s.checkSum(r, l)
		default:
			bad()
		}
	}
}

// checkFee: the fee of a newly bonded tx is size x rate computed in unbounded integers; a bond
// whose fee does not fit 64 bits must have been refused. Returns the fee held for the tx.
func (s *c38Seq) checkFee(r *verifh.Run, l string, i int, tx *chain.Transaction, rate uint64) uint64 {
	hi, lo := bits.Mul64(uint64(tx.Size()), rate)
	id := tx.GetID()
	rec := uint64(0)
	if v, err := s.db.Get(id[:]); err == nil && len(v) == 8 {
		rec = binary.BigEndian.Uint64(v)
	}
	if hi != 0 {
		r.ViolationAt("fee-wrapped", s.start, r.Line(), "tx %d of %d bytes bonded at rate %d: the fee %d*%d exceeds 2^64 but the bond was admitted with a recorded fee of %d (%s)", i, tx.Size(), rate, tx.Size(), rate, rec, l)
		return rec
	}
	if rec != lo {
		r.ViolationAt("fee-record-ne-size-times-rate", s.start, r.Line(), "tx %d: recorded fee %d, size*rate = %d (%s)", i, rec, lo, l)
	}
	return lo
}

// checkSum: pending(s) = sum of the fees of s's bonded txs neither accepted nor expired; in
// particular 0 when there are none. Node-level sequences only.
func (s *c38Seq) checkSum(r *verifh.Run, l string) {
	if s.raw {
		return
	}
	var want [2]uint64
	for i, fee := range s.unsettled {
		want[s.txs[i].Auth.(c38Auth).sponsor] += fee
	}
	for sp := byte(0); sp < 2; sp++ {
		if got := s.pending(sp); got != want[sp] {
			key := "pending-ne-sum-unsettled"
			if s.dupBond {
				// class: some tx was handed to Bond again while its bond was still unsettled
				key = "pending-ne-sum-after-duplicate-bond"
			}
			if want[sp] == 0 {
				key += "-never-returns-to-zero"
			}
			r.ViolationAt(key, s.start, r.Line(), "sponsor %d pending %d but unsettled bonded fees sum to %d after %s", sp, got, want[sp], l)
			return
		}
	}
}

type c38Arg struct {
	i      int64
	u      uint64
	isInt  bool
	isUint bool
}

func c38Ints(ws []string) ([]c38Arg, bool) {
	out := make([]c38Arg, len(ws))
	for k, w := range ws {
		var a c38Arg
		if v, err := strconv.ParseInt(w, 10, 64); err == nil {
			a.i, a.isInt = v, true
		}
		if v, err := strconv.ParseUint(w, 10, 64); err == nil {
			a.u, a.isUint = v, true
		}
		if !a.isInt && !a.isUint {
			return nil, false
		}
		out[k] = a
	}
	return out, true
}

// ---------------------------------------------------------------- generator

func c38Generate(r *verifh.Run) []string {
	var out []string
	add := func(f string, a ...any) { out = append(out, fmt.Sprintf(f, a...)) }
	sz := func(i int, s byte, e int64, pad int) int { return c38Tx(i, s, e, pad).Size() }
	// corpus: duplicate submission across chunks / within one chunk, then accept, then expiry
	s0 := sz(0, 0, 100, 3)
	add("reset")
	add("deftx 0 0 %d 100", s0)
	add("setmax 0 1000000")
	add("build 1 0")
	add("build 1 0")
	add("accept 50 0")
	add("accept 200")
	add("reset")
	add("deftx 0 0 %d 100", s0)
	add("setmax 0 1000000")
	add("build 2 0 0")
	add("accept 50 0")
	add("accept 200")
	// different rates on the two bonds of one tx
	add("reset")
	add("deftx 0 0 %d 100", s0)
	add("setmax 0 18446744073709551615")
	add("build 1 0")
	add("build 3 0")
	add("accept 101")
	// re-bond after accept is a fresh bonding and settles at expiry
	add("reset")
	add("deftx 0 0 %d 100", s0)
	add("setmax 0 %d", s0)
	add("build 1 0")
	add("accept 50 0")
	add("build 1 0")
	add("accept 101")
	// the inner DSMR refuses the chunk after the txs were bonded: they must still be released
	add("reset")
	add("deftx 0 0 %d 100", s0)
	add("deftx 1 0 %d 150", sz(1, 0, 150, 3))
	add("setmax 0 1000000")
	add("buildfail 1 0 1")
	add("accept 120")
	add("accept 200")
	add("reset")
	add("deftx 0 1 %d 100", s0)
	add("setmax 1 %d", s0)
	add("buildfail 1 0")
	add("accept 50 0")
	add("buildfail 1 0")
	add("build 1 0")
	add("accept 101")
	// a zero-fee bond is a bond like any other: once settled, re-submitting the tx is a new
	// bonding that is charged and limited (rate 0, accept / expiry, then a non-zero rate)
	add("reset")
	add("deftx 0 0 %d 100", s0)
	add("setmax 0 5")
	add("build 0 0")
	add("accept 50 0")
	add("build 1 0")
	add("accept 200")
	add("reset")
	add("deftx 0 1 %d 100", s0)
	add("setmax 1 1000")
	add("build 0 0")
	add("accept 101")
	add("build 3 0 0")
	add("accept 300")
	// fee rates around 2^64/size: the product must not wrap
	add("reset")
	add("deftx 0 0 %d 100", s0)
	add("setmax 0 18446744073709551615")
	add("build %d 0", uint64(math.MaxUint64)/uint64(s0)+1)
	add("build %d 0", uint64(math.MaxUint64)/uint64(s0))
	add("accept 101")
	add("build %d 0", uint64(math.MaxUint64)/uint64(s0)+2)
	add("bond 0 %d", uint64(math.MaxUint64)/uint64(s0)+1)
	// raw bonder: double bond, single unbond
	add("reset")
	add("deftx 0 0 %d 100", s0)
	add("setmax 0 %d", 2*s0)
	add("bond 0 1")
	add("bond 0 1")
	add("unbond 0")
	add("unbond 0")
	// malformed
	add("reset")
	add("deftx 0 2 80 1")
	add("build x")
	add("bond 7 1")
	add("accept")
	add("frob 1 2")

	rates := []uint64{0, 1, 1, 1, 2, 3, 7, 1 << 20, 1 << 56, 1 << 57, 1 << 58, 1<<63 - 1, 1 << 63, math.MaxUint64, math.MaxUint64 / 64}
	n := r.N(5000, 120000)
	for h := 0; h < n; h++ {
		add("reset")
		raw := r.RNG.Chance(20)
		ntx := 1 + r.RNG.Intn(4)
		sizes := make([]int, ntx)
		for i := 0; i < ntx; i++ {
			sp := byte(r.RNG.Intn(2))
			e := int64(1 + r.RNG.Intn(6))
			if r.RNG.Chance(5) {
				e = []int64{-3, 0, math.MaxInt64, math.MinInt64, 1 << 40}[r.RNG.Intn(5)]
			}
			sizes[i] = sz(i, sp, e, 1+r.RNG.Intn(60))
			add("deftx %d %d %d %d", i, sp, sizes[i], e)
		}
		rate := rates[r.RNG.Intn(len(rates))]
		boundary := func() uint64 { // around 2^64/size of one of this sequence's txs
			return uint64(math.MaxUint64)/uint64(sizes[r.RNG.Intn(ntx)]) + uint64(r.RNG.Intn(4)) - 1
		}
		if r.RNG.Chance(12) {
			rate = boundary()
		}
		pickMax := func() uint64 {
			fee := uint64(sizes[r.RNG.Intn(ntx)]) * rate
			switch r.RNG.Intn(8) {
			case 0:
				return 0
			case 1:
				return fee
			case 2:
				return 2 * fee
			case 3:
				return 3*fee - 1
			case 4:
				return math.MaxUint64
			case 5:
				return fee - 1
			case 6:
				return r.RNG.Pick64()
			default:
				return 4 * fee
			}
		}
		for sp := 0; sp < 2; sp++ {
			if r.RNG.Chance(85) {
				add("setmax %d %d", sp, pickMax())
			}
		}
		pickTxs := func(max int) string {
			var sb strings.Builder
			k := r.RNG.Intn(max + 1)
			for j := 0; j < k; j++ {
				fmt.Fprintf(&sb, " %d", r.RNG.Intn(ntx))
			}
			return sb.String()
		}
		if !raw && r.RNG.Chance(10) {
			// zero-fee bonding, settlement, re-submission at a non-zero rate
			tx := r.RNG.Intn(ntx)
			add("build 0 %d", tx)
			if r.RNG.Bool() {
				add("accept %d %d", r.RNG.Intn(3), tx)
			} else {
				add("accept %d", int64(math.MaxInt64))
			}
			add("build %d %d%s", 1+uint64(r.RNG.Intn(5)), tx, pickTxs(2))
		}
		nops := 3 + r.RNG.Intn(10)
		for k := 0; k < nops; k++ {
			rt := rate
			if r.RNG.Chance(25) {
				rt = rates[r.RNG.Intn(len(rates))]
			}
			if r.RNG.Chance(6) {
				rt = boundary()
			}
			c := r.RNG.Intn(100)
			switch {
			case c < 8:
				add("buildfail %d%s", rt, pickTxs(4))
			case c < 40:
				add("build %d%s", rt, pickTxs(5))
			case c < 75:
				ts := int64(r.RNG.Intn(9))
				if r.RNG.Chance(4) {
					ts = []int64{math.MaxInt64, math.MinInt64, -1}[r.RNG.Intn(3)]
				}
				add("accept %d%s", ts, pickTxs(3))
			case c < 85:
				add("setmax %d %d", r.RNG.Intn(2), pickMax())
			case raw && c < 93:
				add("bond %d %d", r.RNG.Intn(ntx), rt)
			case raw:
				add("unbond %d", r.RNG.Intn(ntx))
			default:
				add("build %d%s", rt, pickTxs(3))
			}
		}
		if r.RNG.Chance(50) {
			add("accept %d", int64(math.MaxInt64)) // settle everything by expiry
		}
	}
	return out
}
