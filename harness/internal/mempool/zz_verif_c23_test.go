package mempool

import (
	"context"
	"errors"
	"fmt"
	"sort"
	"strconv"
	"strings"
	"testing"
	"time"

	"github.com/ava-labs/avalanchego/ids"
	"github.com/ava-labs/avalanchego/trace"

	"github.com/ava-labs/hypersdk/codec"
	"github.com/ava-labs/hypersdk/internal/verifh"
)

// C23: the mempool keeps its bounds and ordering under any operation sequence.
// Protocol: see /verif/lean/Driver/C23.lean.

type c23Item struct {
	id, sponsor, size int
	exp               int64
}

func c23ID(n int) ids.ID  { return ids.ID{byte(n), byte(n >> 8), 0xC2, 0x3E} }
func c23Un(id ids.ID) int { return int(id[0]) | int(id[1])<<8 }
func c23Addr(s int) codec.Address {
	var a codec.Address
	a[0], a[1], a[2] = 7, byte(s), byte(s>>8)
	return a
}

func (i *c23Item) GetID() ids.ID             { return c23ID(i.id) }
func (i *c23Item) GetExpiry() int64          { return i.exp }
func (i *c23Item) GetSponsor() codec.Address { return c23Addr(i.sponsor) }
func (i *c23Item) Size() int                 { return i.size }
func (i *c23Item) String() string {
	return fmt.Sprintf("%d:%d:%d:%d", i.id, i.sponsor, i.size, i.exp)
}

func c23Items(l []*c23Item, sep string) string {
	if len(l) == 0 {
		return "-"
	}
	s := make([]string, len(l))
	for i, it := range l {
		s[i] = it.String()
	}
	return strings.Join(s, sep)
}

func c23ParseItem(s string) (*c23Item, bool) {
	p := strings.Split(s, ":")
	if len(p) != 4 {
		return nil, false
	}
	a, e1 := strconv.ParseUint(p[0], 10, 15)
	b, e2 := strconv.ParseUint(p[1], 10, 15)
	c, e3 := strconv.ParseUint(p[2], 10, 31)
	d, e4 := strconv.ParseInt(p[3], 10, 64)
	if e1 != nil || e2 != nil || e3 != nil || e4 != nil {
		return nil, false
	}
	return &c23Item{int(a), int(b), int(c), d}, true
}

func c23Queue(m *Mempool[*c23Item]) []*c23Item {
	var q []*c23Item
	for e := m.queue.First(); e != nil; e = e.Next() {
		q = append(q, e.Value())
	}
	return q
}

// dump mirrors Driver/C23.lean `dump` (no other goroutine may be running).
func c23Dump(m *Mempool[*c23Item], S int) string {
	ctx := context.Background()
	var ow []string
	for s := 0; s < S; s++ {
		ow = append(ow, strconv.Itoa(m.owned[c23Addr(s)]))
	}
	streamed := "nil"
	if m.streamedItems != nil {
		var l []int
		for id := range m.streamedItems {
			l = append(l, c23Un(id))
		}
		sort.Ints(l)
		ss := make([]string, len(l))
		for i, v := range l {
			ss[i] = strconv.Itoa(v)
		}
		streamed = "-"
		if len(ss) > 0 {
			streamed = strings.Join(ss, " ")
		}
	}
	fetched := 0
	if m.nextStreamFetched {
		fetched = 1
	}
	return fmt.Sprintf("%d %d ; %s ; %d %s ; %s ; %d %s", m.Len(ctx), m.Size(ctx), c23Items(c23Queue(m), " "),
		len(m.owned), strings.Join(ow, " "), streamed, fetched, c23Items(m.nextStream, " "))
}

// ---------------------------------------------------------------- generator

type c23Gen struct {
	r *verifh.Run
	L []string
}

func (g *c23Gen) add(s ...string) { g.L = append(g.L, s...) }

func (g *c23Gen) corpus() {
	a := g.add
	// universe used in the corpus: id k -> k:(k%3):(1+k%3):exp
	// fill to maxSize, then more; sponsor limit; remove absent; setmin with ties
	a("reset 4 2 3", "add 0:0:1:5 1:1:2:5 2:2:3:7", "add 3:0:1:7 4:1:2:7 5:2:3:9", "len", "size", "add 6:0:1:3", "has 6", "remove 7:1:2:3", "setmin 6", "add 6:0:1:3 3:0:1:7", "peek", "setmin 7", "setmin 8", "pop", "pop", "pop")
	a("reset 8 1 3", "add 0:0:1:5 3:0:1:7 1:1:2:5", "add 6:0:1:3", "remove 0:0:1:5", "add 6:0:1:3", "pop", "pop", "pop", "peek")
	// stream: streamed id not re-addable, finish restores at the front in reverse order
	a("reset 8 8 3", "add 0:0:1:5 1:1:2:5 2:2:3:7 3:0:1:7 4:1:2:7", "start", "stream 2", "add 0:0:1:5", "has 0", "stream 1", "add 5:2:3:9", "finish 0:0:1:5 1:1:2:5 2:2:3:7", "add 0:0:1:5", "pop", "pop", "pop", "pop", "pop", "pop")
	// prepare twice in a row: the first prefetch is lost; prepare then finish without stream
	a("reset 8 8 3", "add 0:0:1:5 1:1:2:5 2:2:3:7 3:0:1:7 4:1:2:7", "start", "prepare 2", "prepare 2", "stream 3", "stream 3", "prepare 1", "finish 2:2:3:7", "len", "start", "finish", "pop")
	// give-backs that no longer fit (pool refilled during the stream); restorable already held
	a("reset 2 2 3", "add 0:0:1:5 1:1:2:5", "start", "stream 2", "add 2:2:3:7 3:0:1:7", "finish 0:0:1:5 1:1:2:5", "len", "start", "stream 1", "finish 3:0:1:7 2:2:3:7 2:2:3:7", "pop", "pop")
	a("reset 4 1 3", "add 0:0:1:5 1:1:2:5", "start", "stream 2", "add 3:0:1:7", "finish 0:0:1:5 1:1:2:5", "pop", "pop", "pop")
	// top: restore order reversed; error; limits
	a("reset 8 8 3", "add 0:0:1:5 1:1:2:5 2:2:3:7 3:0:1:7", "top rrs", "top rrrr", "top -", "top cre", "top f", "top ccccc", "top r")
	// stream / prepare outside start..finish (set allocated lazily), then a real stream
	a("reset 8 8 3", "add 0:0:1:5 1:1:2:5 2:2:3:7", "stream 1", "add 0:0:1:5", "prepare 1", "start", "add 0:0:1:5", "stream 5", "finish 1:1:2:5", "pop", "pop")
	a("reset 1 1 3", "add 0:0:1:5 1:1:2:5", "start", "stream 0", "stream 4", "stream 4", "add 1:1:2:5", "finish 0:0:1:5", "pop", "pop")
	a("reset 0 0 3", "add 0:0:1:5", "len", "pop", "setmin 9", "start", "stream 1", "finish 0:0:1:5", "len")
	// API misuse (not builder.go): a prefetch made before start survives the reset of streamedItems,
	// so x (id 0) is returned by Stream twice within one stream (Props/C23 double_handout_without_protocol)
	a("reset 8 8 3", "add 0:0:1:5 1:1:2:5", "prepare 1", "start", "add 0:0:1:5", "stream 1", "stream 1", "stream 1", "finish")
	// hang detector: a second start before finish never returns
	a("reset 4 2 3", "add 0:0:1:5", "start", "stream 1", "start")
}

func (g *c23Gen) random(nseq int) {
	rng := g.r.RNG
	sizes := []int{1, 2, 4, 8}
	for s := 0; s < nseq; s++ {
		maxSize := sizes[rng.Intn(4)]
		maxSponsor := []int{1, 2, maxSize}[rng.Intn(3)]
		g.add(fmt.Sprintf("reset %d %d 3", maxSize, maxSponsor))
		// attribute table, fixed within the sequence (an ID identifies its content)
		var tab [8]*c23Item
		base := int64(rng.Intn(5))
		for k := range tab {
			tab[k] = &c23Item{k, rng.Intn(3), 1 + rng.Intn(3), base + int64(rng.Intn(4))}
		}
		alias := rng.Intn(20) == 0
		item := func() string {
			it := tab[rng.Intn(8)]
			if alias && rng.Intn(6) == 0 {
				c := *it
				switch rng.Intn(3) {
				case 0:
					c.sponsor = (c.sponsor + 1) % 3
				case 1:
					c.size = 1 + c.size%3
				default:
					c.exp++
				}
				return c.String()
			}
			return it.String()
		}
		items := func(lo, hi int) string {
			n := lo + rng.Intn(hi-lo+1)
			ss := make([]string, n)
			for i := range ss {
				ss[i] = item()
			}
			return strings.Join(ss, " ")
		}
		n := 1 + rng.Intn(60)
		builder := rng.Bool()
		locked := false
		var handed []int // ids handed out in the current stream period (generator's estimate: all ids)
		for k := 0; k < n; k++ {
			c := rng.Intn(100)
			if builder && locked {
				// builder.go: Stream / PrepareStream in a loop, other goroutines add/remove/expire
				switch {
				case c < 30:
					g.add(fmt.Sprintf("stream %d", rng.Intn(5)))
					continue
				case c < 40:
					g.add(fmt.Sprintf("prepare %d", rng.Intn(5)))
					continue
				case c < 55:
					c = 85 // finish
				default:
					c = rng.Intn(80)
				}
			}
			switch {
			case c < 30:
				g.add("add " + items(1, 4))
			case c < 40:
				g.add("remove " + items(1, 3))
			case c < 48:
				g.add(fmt.Sprintf("setmin %d", base-1+int64(rng.Intn(6))))
			case c < 56:
				g.add("pop")
			case c < 60:
				g.add("peek")
			case c < 64:
				g.add(fmt.Sprintf("has %d", rng.Intn(8)))
			case c < 67:
				g.add("len")
			case c < 70:
				g.add("size")
			case c < 76:
				m := rng.Intn(6)
				a := make([]byte, m)
				for i := range a {
					a[i] = "ccrrrstef"[rng.Intn(9)]
				}
				if m == 0 {
					g.add("top -")
				} else {
					g.add("top " + string(a))
				}
			case c < 84:
				if locked {
					g.add(fmt.Sprintf("stream %d", rng.Intn(5)))
				} else {
					g.add("start")
					locked = true
					handed = handed[:0]
				}
			case c < 90:
				if locked {
					// restorable: subset of the universe, biased to look like handed-out items
					var ss []string
					for _, it := range tab {
						if rng.Intn(3) == 0 {
							ss = append(ss, it.String())
						}
					}
					if rng.Intn(4) == 0 {
						ss = append(ss, item())
					}
					rng2 := rng.Intn(len(ss) + 1)
					ss = append(ss[rng2:], ss[:rng2]...)
					g.add(strings.TrimSpace("finish " + strings.Join(ss, " ")))
					locked = false
				} else {
					g.add(fmt.Sprintf("stream %d", rng.Intn(4))) // outside a stream: legal
				}
			case c < 95:
				g.add(fmt.Sprintf("stream %d", rng.Intn(5)))
			default:
				g.add(fmt.Sprintf("prepare %d", rng.Intn(5)))
			}
		}
		_ = handed
	}
}

// ---------------------------------------------------------------- reference (the property's reading)

// c23Ref is the plain reading of the property: a FIFO list of held items, give-backs first.
type c23Ref struct {
	maxSize, maxSponsor int
	q                   []*c23Item
	streamed            map[int]bool // nil when no stream period is open
	next                []*c23Item
	fetched             bool
}

func (s *c23Ref) held(id int) bool {
	for _, it := range s.q {
		if it.id == id {
			return true
		}
	}
	return false
}

func (s *c23Ref) count(sp int) int {
	n := 0
	for _, it := range s.q {
		if it.sponsor == sp {
			n++
		}
	}
	return n
}

func (s *c23Ref) add(it *c23Item, front bool) string {
	switch {
	case s.streamed != nil && s.streamed[it.id]:
		return "add-rejected-streamed"
	case s.held(it.id):
		return "add-dup"
	case s.count(it.sponsor) >= s.maxSponsor:
		return "add-rejected-sponsor"
	case len(s.q) >= s.maxSize:
		return "add-rejected-full"
	}
	if front {
		s.q = append([]*c23Item{it}, s.q...)
	} else {
		s.q = append(s.q, it)
	}
	return "add-accepted"
}

func (s *c23Ref) removeID(id int) {
	for i, it := range s.q {
		if it.id == id {
			s.q = append(s.q[:i:i], s.q[i+1:]...)
			return
		}
	}
}

func (s *c23Ref) take(n int) []*c23Item {
	var out []*c23Item
	for len(out) < n && len(s.q) > 0 {
		it := s.q[0]
		s.q = s.q[1:]
		if s.streamed == nil {
			s.streamed = map[int]bool{}
		}
		s.streamed[it.id] = true
		out = append(out, it)
	}
	return out
}

func c23Same(a, b []*c23Item) bool {
	if len(a) != len(b) {
		return false
	}
	for i := range a {
		if *a[i] != *b[i] {
			return false
		}
	}
	return true
}

// ---------------------------------------------------------------- executor

func TestVerifC23(t *testing.T) {
	r := verifh.Start("C23")
	defer r.Finish()
	lines := r.ReplayLines()
	if lines == nil {
		g := &c23Gen{r: r}
		g.corpus()
		g.random(r.N(6000, 400000))
		lines = g.L
	}
	ctx := context.Background()
	var (
		m       *Mempool[*c23Item]
		S       int
		locked  bool
		dead    bool
		ref     *c23Ref
		seen    map[int]c23Item // id -> tuple seen in this sequence (alias detection)
		aliased bool
		handed  map[int]bool // ids handed out in the current stream period
		retIDs  map[int]bool // ids RETURNED BY Stream since the last successful StartStreaming
		misuse  bool         // PrepareStream was called outside a stream (protocol assumption violated)
		seq     []string
		nontriv bool
	)
	flush := func() {
		if nontriv && !aliased {
			r.Distinct(strings.Join(seq, "|"))
		}
	}
	note := func(items []*c23Item) {
		for _, it := range items {
			if old, ok := seen[it.id]; ok && old != *it {
				if !aliased {
					r.Count("ev:alias-sequence")
				}
				aliased = true
			}
			seen[it.id] = *it
		}
	}
	for _, l := range lines {
		f := verifh.Fields(l)
		if len(f) >= 1 && f[0] == "reset" {
			flush()
			m, dead, locked, aliased, nontriv, seq = nil, false, false, false, false, nil
			if len(f) != 4 {
				r.Emit(l, "bad-op")
				continue
			}
			a, e1 := strconv.ParseUint(f[1], 10, 20)
			b, e2 := strconv.ParseUint(f[2], 10, 20)
			c, e3 := strconv.ParseUint(f[3], 10, 8)
			if e1 != nil || e2 != nil || e3 != nil {
				r.Emit(l, "bad-op")
				continue
			}
			m = New[*c23Item](trace.Noop, int(a), int(b))
			S = int(c)
			ref = &c23Ref{maxSize: int(a), maxSponsor: int(b)}
			seen, handed, retIDs, misuse = map[int]c23Item{}, map[int]bool{}, map[int]bool{}, false
			r.Emit(l, "ok ; "+c23Dump(m, S))
			continue
		}
		if m == nil || dead || len(f) == 0 {
			r.Emit(l, "bad-op")
			continue
		}
		seq = append(seq, l)
		parseItems := func(ss []string) ([]*c23Item, bool) {
			out := make([]*c23Item, 0, len(ss))
			for _, s := range ss {
				it, ok := c23ParseItem(s)
				if !ok {
					return nil, false
				}
				out = append(out, it)
			}
			return out, true
		}
		oracle := func(key, format string, a ...any) {
			if !aliased {
				r.Violation(key, format, a...)
			}
		}
		handout := func(items []*c23Item) {
			for _, it := range items {
				if handed[it.id] {
					oracle("double-handout", "id %d handed out twice within one stream period", it.id)
				}
				handed[it.id] = true
			}
		}
		res, bad := "", false
		switch {
		case f[0] == "add":
			items, ok := parseItems(f[1:])
			if !ok {
				bad = true
				break
			}
			note(items)
			m.Add(ctx, items)
			res = "ok"
			for _, it := range items {
				ev := ref.add(it, false)
				r.Count("ev:" + ev)
				if ev == "add-rejected-full" || ev == "add-rejected-sponsor" {
					nontriv = true
				}
				if ev == "add-rejected-streamed" && m.Has(ctx, it.GetID()) {
					oracle("streamed-readd", "id %d was handed out in the open stream but add put it back", it.id)
				}
			}
		case f[0] == "remove":
			items, ok := parseItems(f[1:])
			if !ok {
				bad = true
				break
			}
			note(items)
			m.Remove(ctx, items)
			res = "ok"
			for _, it := range items {
				ref.removeID(it.id)
			}
		case len(f) == 2 && f[0] == "setmin":
			v, err := strconv.ParseInt(f[1], 10, 64)
			if err != nil {
				bad = true
				break
			}
			before := c23Queue(m)
			out := m.SetMinTimestamp(ctx, v)
			res = c23Items(out, " ")
			want := map[int]bool{}
			var keep []*c23Item
			for _, it := range before {
				if it.exp < v {
					want[it.id] = true
				} else {
					keep = append(keep, it)
				}
			}
			okSet := len(out) == len(want)
			for _, it := range out {
				if !want[it.id] {
					okSet = false
				}
				ref.removeID(it.id)
			}
			if !okSet || !c23Same(c23Queue(m), keep) {
				oracle("expire-exact", "setmin %d on %s returned %s and left %s", v, c23Items(before, " "), res, c23Items(c23Queue(m), " "))
				ref.q = keep
			}
			if len(out) > 0 {
				nontriv = true
				r.Count("ev:expired-some")
			}
		case len(f) == 1 && f[0] == "pop":
			it, ok := m.PopNext(ctx)
			res = "none"
			if ok {
				res = it.String()
			}
			if (len(ref.q) > 0) != ok || (ok && *ref.q[0] != *it) {
				oracle("fifo", "pop returned %s, arrival order says %s", res, c23Items(ref.q, " "))
			}
			if len(ref.q) > 0 {
				ref.q = ref.q[1:]
			}
		case len(f) == 1 && f[0] == "peek":
			it, ok := m.PeekNext(ctx)
			res = "none"
			if ok {
				res = it.String()
			}
			if (len(ref.q) > 0) != ok || (ok && *ref.q[0] != *it) {
				oracle("fifo", "peek returned %s, arrival order says %s", res, c23Items(ref.q, " "))
			}
		case len(f) == 2 && f[0] == "has":
			id, err := strconv.ParseUint(f[1], 10, 15)
			if err != nil {
				bad = true
				break
			}
			res = strconv.FormatBool(m.Has(ctx, c23ID(int(id))))
		case len(f) == 1 && f[0] == "len":
			res = strconv.Itoa(m.Len(ctx))
		case len(f) == 1 && f[0] == "size":
			res = strconv.Itoa(m.Size(ctx))
		case len(f) == 1 && f[0] == "start":
			if locked {
				// hang detector: the real call must never return
				done := make(chan struct{})
				go func() { m.StartStreaming(ctx); close(done) }()
				select {
				case <-done:
					r.Violation("second-start-not-blocking", "StartStreaming returned although a stream is open")
					res = "ok"
				case <-time.After(2 * time.Second):
					r.Count("ev:second-start-blocked")
					r.Emit(l, "blocked")
					dead = true // m.mu is held forever by the stuck goroutine
					continue
				}
			} else {
				m.StartStreaming(ctx)
				res = "ok"
			}
			locked = true
			ref.streamed = map[int]bool{}
			handed = map[int]bool{}
			retIDs = map[int]bool{}
		case len(f) == 2 && (f[0] == "prepare" || f[0] == "stream"):
			n, err := strconv.ParseUint(f[1], 10, 16)
			if err != nil {
				bad = true
				break
			}
			if f[0] == "prepare" {
				if !locked {
					misuse = true // assumption "PrepareStream only inside a stream" does not hold here
					r.Count("ev:prepare-outside-stream")
				}
				if ref.fetched && len(ref.next) > 0 {
					r.Count("ev:prefetch-lost")
				}
				m.PrepareStream(ctx, int(n))
				res = "ok"
				ref.next, ref.fetched = ref.take(int(n)), true
				handout(ref.next)
				if !c23Same(ref.next, m.nextStream) {
					oracle("fifo", "prepare %d fetched %s, arrival order says %s", n, c23Items(m.nextStream, " "), c23Items(ref.next, " "))
				}
			} else {
				out := m.Stream(ctx, int(n))
				res = c23Items(out, " ")
				var want []*c23Item
				if ref.fetched {
					want, ref.next, ref.fetched = ref.next, nil, false
				} else {
					want = ref.take(int(n))
					handout(want)
				}
				if !c23Same(out, want) {
					oracle("fifo", "stream %d returned %s, arrival order says %s", n, res, c23Items(want, " "))
				}
				if locked {
					// history-level clause: no id is RETURNED by Stream twice between StartStreaming and
					// FinishStreaming (holds when PrepareStream is only used inside a stream)
					for _, it := range out {
						if retIDs[it.id] {
							if misuse {
								r.Count("ev:double-handout-prefetch-before-start")
							} else {
								oracle("double-handout-stream", "Stream returned id %d twice between StartStreaming and FinishStreaming", it.id)
							}
						}
						retIDs[it.id] = true
					}
				}
				if len(out) > 0 && locked {
					r.Count("ev:streamed-some")
				}
			}
		case f[0] == "finish":
			items, ok := parseItems(f[1:])
			if !ok {
				bad = true
				break
			}
			if !locked {
				r.Emit(l, "fatal") // unlock of unlocked mutex: never executed
				continue
			}
			note(items)
			pending := 0
			if ref.fetched {
				pending = len(ref.next)
			}
			got := m.FinishStreaming(ctx, items)
			res = strconv.Itoa(got)
			locked = false
			if got != len(items)+pending {
				oracle("finish-count", "finish returned %d for %d restorable + %d prefetched", got, len(items), pending)
			}
			ref.streamed = nil
			accepted := map[int]bool{}
			giveback := func(l []*c23Item) {
				for _, it := range l {
					ev := ref.add(it, true)
					if ev == "add-accepted" {
						accepted[it.id] = true
					} else {
						r.Count("ev:finish-dropped-" + ev)
					}
				}
			}
			giveback(items)
			if ref.fetched {
				giveback(ref.next)
				ref.next, ref.fetched = nil, false
			}
			for id := range accepted {
				if !m.Has(ctx, c23ID(id)) {
					oracle("finish-limits", "give-back %d fits the limits but is not held after finish", id)
				}
			}
			if len(items) > 0 && len(handed) > 0 {
				nontriv = true
			}
			handed = map[int]bool{}
			retIDs = map[int]bool{}
			misuse = false
		case len(f) == 2 && f[0] == "top":
			ans := f[1]
			if ans == "-" {
				ans = ""
			}
			if strings.Trim(ans, "crstef") != "" {
				bad = true
				break
			}
			var visited []*c23Item
			k := 0
			want := append([]*c23Item{}, ref.q...)
			err := m.Top(ctx, time.Hour, func(_ context.Context, it *c23Item) (bool, bool, error) {
				visited = append(visited, it)
				if k >= len(ans) {
					return false, false, nil
				}
				c := ans[k]
				k++
				switch c {
				case 'c':
					return true, false, nil
				case 'r':
					return true, true, nil
				case 's':
					return false, false, nil
				case 't':
					return false, true, nil
				case 'e':
					return true, false, errors.New("f failed")
				default:
					return true, true, errors.New("f failed")
				}
			})
			e := 0
			if err != nil {
				e = 1
			}
			res = fmt.Sprintf("v=%s err=%d", c23Items(visited, ","), e)
			if len(visited) > len(want) || !c23Same(visited, want[:len(visited)]) {
				oracle("fifo", "top visited %s, arrival order says %s", c23Items(visited, ","), c23Items(want, " "))
			}
			// reference: visited items leave; restored ones come back at the front, last restored first
			for _, it := range visited {
				ref.removeID(it.id)
			}
			for i, it := range visited {
				if i < len(ans) && strings.ContainsRune("rtf", rune(ans[i])) {
					ref.add(it, true)
				}
			}
		default:
			bad = true
		}
		if bad {
			r.Emit(l, "bad-op")
			continue
		}
		r.Emit(l, res+" ; "+c23Dump(m, S))
		if aliased {
			continue
		}
		// ---- oracle: the property's statement on the real state, after every op
		q := c23Queue(m)
		ids := map[int]bool{}
		per := map[int]int{}
		sum := 0
		for _, it := range q {
			if ids[it.id] {
				r.Violation("dup-id", "queue holds id %d twice: %s", it.id, c23Items(q, " "))
			}
			ids[it.id] = true
			per[it.sponsor]++
			sum += it.size
		}
		if len(q) > ref.maxSize || m.Len(ctx) != len(q) {
			r.Violation("len-gt-max", "queue has %d items, Len=%d, maxSize=%d", len(q), m.Len(ctx), ref.maxSize)
		}
		for s := 0; s < S; s++ {
			if per[s] > ref.maxSponsor || per[s] != m.owned[c23Addr(s)] {
				r.Violation("sponsor-gt-max", "sponsor %d holds %d items, owned=%d, maxSponsor=%d", s, per[s], m.owned[c23Addr(s)], ref.maxSponsor)
			}
		}
		if m.Size(ctx) != sum {
			r.Violation("size-sum", "Size=%d but held items sum to %d", m.Size(ctx), sum)
		}
		for id := 0; id < 8; id++ {
			if m.Has(ctx, c23ID(id)) != ids[id] {
				r.Violation("queue-heap-mismatch", "Has(%d)=%v but queue membership is %v", id, !ids[id], ids[id])
			}
		}
		if !c23Same(q, ref.q) {
			r.Violation("fifo", "queue is %s, arrival order with give-backs first says %s", c23Items(q, " "), c23Items(ref.q, " "))
			ref.q = q // resynchronise, report once
		}
		if m.streamedItems != nil {
			for id := range m.streamedItems {
				if ids[c23Un(id)] {
					r.Violation("streamed-readd", "id %d is held although it was handed out in the open stream", c23Un(id))
				}
			}
		}
	}
	flush()
}
