package mempool

import (
	"context"
	"fmt"
	"sync"
	"sync/atomic"
	"testing"
	"time"

	"github.com/ava-labs/avalanchego/trace"

	"github.com/ava-labs/hypersdk/internal/verifh"
)

// C23, goroutine-parallel mode (oracle only, built with -race): adders, an expirer, a reader
// and a streamer following chain/builder.go run concurrently on one mempool; the state
// invariants of the property are checked when all have finished.
func TestVerifC23Parallel(t *testing.T) {
	r := verifh.Start("C23")
	defer r.Finish()
	ctx := context.Background()
	rounds := r.N(40, 1500)
	sizes := []int{1, 2, 4, 8, 16}
	for k := 0; k < rounds; k++ {
		maxSize := sizes[r.RNG.Intn(len(sizes))]
		maxSponsor := []int{1, 2, maxSize}[r.RNG.Intn(3)]
		const U = 32
		var tab [U]*c23Item
		for i := range tab {
			tab[i] = &c23Item{i, r.RNG.Intn(3), 1 + r.RNG.Intn(3), int64(r.RNG.Intn(12))}
		}
		m := New[*c23Item](trace.Noop, maxSize, maxSponsor)
		line := fmt.Sprintf("round %d %d %d", k, maxSize, maxSponsor)
		var wg sync.WaitGroup
		var stop atomic.Bool
		var mu sync.Mutex
		var problems []string
		report := func(key, format string, a ...any) {
			mu.Lock()
			problems = append(problems, key+"\x00"+fmt.Sprintf(format, a...))
			mu.Unlock()
		}
		seeds := make([]*verifh.RNG, 6)
		for i := range seeds {
			seeds[i] = verifh.NewRNG(r.RNG.U64())
		}
		for a := 0; a < 3; a++ { // adders / removers
			wg.Add(1)
			go func(rng *verifh.RNG) {
				defer wg.Done()
				for i := 0; i < 300 && !stop.Load(); i++ {
					n := 1 + rng.Intn(3)
					its := make([]*c23Item, n)
					for j := range its {
						its[j] = tab[rng.Intn(U)]
					}
					if rng.Intn(4) == 0 {
						m.Remove(ctx, its)
					} else {
						m.Add(ctx, its)
					}
				}
			}(seeds[a])
		}
		wg.Add(1)
		go func(rng *verifh.RNG) { // expirer
			defer wg.Done()
			for i := 0; i < 100 && !stop.Load(); i++ {
				tmin := int64(rng.Intn(13))
				for _, it := range m.SetMinTimestamp(ctx, tmin) {
					if it.exp >= tmin {
						report("expire-exact", "SetMinTimestamp(%d) returned %s", tmin, it)
					}
				}
			}
		}(seeds[3])
		wg.Add(1)
		go func(rng *verifh.RNG) { // reader
			defer wg.Done()
			for i := 0; i < 300 && !stop.Load(); i++ {
				if n := m.Len(ctx); n > maxSize {
					report("len-gt-max", "Len=%d > maxSize=%d", n, maxSize)
				}
				m.Size(ctx)
				m.Has(ctx, c23ID(rng.Intn(U)))
				m.PeekNext(ctx)
			}
		}(seeds[4])
		wg.Add(1)
		go func(rng *verifh.RNG) { // streamer, as chain/builder.go
			defer wg.Done()
			for s := 0; s < 6 && !stop.Load(); s++ {
				m.StartStreaming(ctx)
				got := map[int]bool{}
				var all []*c23Item
				for b := 0; b < 1+rng.Intn(4); b++ {
					txs := m.Stream(ctx, 1+rng.Intn(4))
					for _, it := range txs {
						if got[it.id] {
							report("double-handout", "id %d streamed twice in one stream", it.id)
						}
						got[it.id] = true
						all = append(all, it)
					}
					if rng.Bool() {
						var pw sync.WaitGroup
						pw.Add(1)
						go func() { defer pw.Done(); m.PrepareStream(ctx, 1+rng.Intn(3)) }()
						// a streamed id must not be re-addable while the stream is open
						if len(all) > 0 {
							m.Add(ctx, []*c23Item{all[0]})
							if m.Has(ctx, all[0].GetID()) {
								report("streamed-readd", "id %d re-added during the stream", all[0].id)
							}
						}
						pw.Wait()
					}
				}
				var back []*c23Item
				for _, it := range all {
					if rng.Bool() {
						back = append(back, it)
					}
				}
				m.FinishStreaming(ctx, back)
			}
		}(seeds[5])
		done := make(chan struct{})
		go func() { wg.Wait(); close(done) }()
		select {
		case <-done:
		case <-time.After(20 * time.Second):
			stop.Store(true)
			r.Emit(line, "hang")
			r.Violation("parallel-hang", "goroutines did not finish within 20 s (%s)", line)
			continue
		}
		r.Emit(line, "ok")
		for _, p := range problems {
			var key, msg string
			for i := 0; i < len(p); i++ {
				if p[i] == 0 {
					key, msg = p[:i], p[i+1:]
				}
			}
			r.Violation(key, "%s (%s)", msg, line)
		}
		// all goroutines joined, no stream open: the state invariants of the property
		q := c23Queue(m)
		ids := map[int]bool{}
		per := map[int]int{}
		sum := 0
		for _, it := range q {
			if ids[it.id] {
				r.Violation("dup-id", "queue holds id %d twice (%s)", it.id, line)
			}
			ids[it.id] = true
			per[it.sponsor]++
			sum += it.size
		}
		if len(q) > maxSize || m.Len(ctx) != len(q) {
			r.Violation("len-gt-max", "queue has %d items, Len=%d (%s)", len(q), m.Len(ctx), line)
		}
		for s := 0; s < 3; s++ {
			if per[s] > maxSponsor || per[s] != m.owned[c23Addr(s)] {
				r.Violation("sponsor-gt-max", "sponsor %d holds %d, owned=%d (%s)", s, per[s], m.owned[c23Addr(s)], line)
			}
		}
		if m.Size(ctx) != sum {
			r.Violation("size-sum", "Size=%d, held items sum to %d (%s)", m.Size(ctx), sum, line)
		}
		for id := 0; id < U; id++ {
			if m.Has(ctx, c23ID(id)) != ids[id] {
				r.Violation("queue-heap-mismatch", "Has(%d)=%v, queue membership %v (%s)", id, !ids[id], ids[id], line)
			}
		}
		if m.streamedItems != nil || m.nextStreamFetched {
			r.Violation("stream-state-left", "streamedItems/nextStream not cleared after the last finish (%s)", line)
		}
		if len(q) > 0 {
			r.Distinct(line)
		}
	}
}
