package eheap

import (
	"fmt"
	"sort"
	"strconv"
	"strings"
	"testing"

	"github.com/ava-labs/avalanchego/ids"

	"github.com/ava-labs/hypersdk/internal/verifh"
)

// C25 (eheap part): ExpiryHeap behaves like a set of IDs ordered by expiry.
// Protocol: see /verif/lean/Driver/C25.lean.

type c25Item struct {
	id  int
	exp int64
}

func c25ID(n int) ids.ID { return ids.ID{byte(n), byte(n >> 8), 0xC2, 0x5E} }
func c25Un(id ids.ID) int { return int(id[0]) | int(id[1])<<8 }

func (i *c25Item) GetID() ids.ID    { return c25ID(i.id) }
func (i *c25Item) GetExpiry() int64 { return i.exp }
func (i *c25Item) String() string   { return fmt.Sprintf("%d/%d", i.id, i.exp) }

func c25Join(l []string) string {
	if len(l) == 0 {
		return "-"
	}
	return strings.Join(l, " ")
}

func c25Dump(eh *ExpiryHeap[*c25Item], u int) string {
	var es, ks []string
	for _, e := range eh.minHeap.Items() {
		es = append(es, fmt.Sprintf("%d:%d:%d:%s", c25Un(e.ID), e.Val, e.Index, e.Item))
	}
	for i := 0; i < u; i++ {
		if eh.Has(c25ID(i)) {
			ks = append(ks, strconv.Itoa(i))
		}
	}
	return c25Join(es) + " ; " + c25Join(ks)
}

func c25Gen(r *verifh.Run) []string {
	var L []string
	add := func(s ...string) { L = append(L, s...) }
	// corpus
	add("reset eheap 6", "add 1 5", "add 2 3", "add 1 9", "add 3 3", "add 4 -2", "has 1", "remove 2", "remove 2", "setmin 4", "len", "peekmin", "popmin", "popmin")
	add("reset eheap 8", "add 0 1", "add 1 10", "add 2 2", "add 3 11", "add 4 12", "add 5 3", "remove 3", "peekmin", "remove 0", "peekmin", "setmin 3", "setmin 3", "setmin 100")
	add("reset eheap 8", "add 0 4", "add 1 4", "add 2 4", "add 3 4", "add 4 4", "add 5 4", "setmin 4", "setmin 5")
	add("reset eheap 4", "setmin 5", "remove 1", "peekmin", "popmin", "add 1 -3", "add 1 -4", "setmin -3", "setmin -2")
	add("reset eheap 16", "add 0 1", "add 1 10", "add 2 2", "add 3 11", "add 4 12", "add 5 3", "add 6 4", "add 7 20", "add 8 21", "add 9 22", "add 10 23", "add 11 5", "add 12 6", "add 13 7", "remove 3", "remove 7", "remove 13", "remove 1", "setmin 6")
	nseq := r.N(5000, 250000)
	for s := 0; s < nseq; s++ {
		u := 3 + r.RNG.Intn(8)
		n := 1 + r.RNG.Intn(40)
		lo, span := -2, 9
		if s%50 == 0 { // long and deep
			u = 10 + r.RNG.Intn(31)
			n = 200 + r.RNG.Intn(200)
			span = 5 + r.RNG.Intn(40)
		}
		add(fmt.Sprintf("reset eheap %d", u))
		for k := 0; k < n; k++ {
			id := r.RNG.Intn(u)
			exp := lo + r.RNG.Intn(span)
			switch c := r.RNG.Intn(100); {
			case c < 45:
				add(fmt.Sprintf("add %d %d", id, exp))
			case c < 65:
				add(fmt.Sprintf("remove %d", id))
			case c < 75:
				add(fmt.Sprintf("setmin %d", lo-1+r.RNG.Intn(span+2)))
			case c < 81:
				add("peekmin")
			case c < 88:
				add("popmin")
			case c < 95:
				add(fmt.Sprintf("has %d", id))
			default:
				add("len")
			}
		}
	}
	return L
}

func TestVerifC25EHeap(t *testing.T) {
	r := verifh.Start("C25")
	defer r.Finish()
	lines := r.ReplayLines()
	if lines == nil {
		lines = c25Gen(r)
	}
	var (
		eh     *ExpiryHeap[*c25Item]
		u      int
		spec   map[int]int64 // the property's reference: set of IDs with their (first) expiry
		seq    []string
		dupAdd bool
		rem    bool
		maxLen int
	)
	flush := func() {
		if dupAdd && rem && maxLen >= 3 {
			r.Distinct(strings.Join(seq, "|"))
		}
	}
	optS := func(i *c25Item, ok bool) string {
		if !ok {
			return "none"
		}
		return i.String()
	}
	specMin := func() (int64, bool) {
		first, m := true, int64(0)
		for _, e := range spec {
			if first || e < m {
				m, first = e, false
			}
		}
		return m, !first
	}
	for _, l := range lines {
		f := verifh.Fields(l)
		if len(f) >= 1 && f[0] == "reset" {
			flush()
			seq, dupAdd, rem, maxLen = nil, false, false, 0
			if len(f) != 3 || f[1] != "eheap" {
				eh = nil
				r.Emit(l, "bad-op")
				continue
			}
			n, err := strconv.Atoi(f[2])
			if err != nil || n < 0 {
				eh = nil
				r.Emit(l, "bad-op")
				continue
			}
			u = n
			eh = New[*c25Item](4)
			spec = map[int]int64{}
			r.Emit(l, "ok ; "+c25Dump(eh, u))
			continue
		}
		if eh == nil {
			r.Emit(l, "bad-op")
			continue
		}
		seq = append(seq, l)
		nat := func(s string) (int, bool) {
			v, err := strconv.ParseUint(s, 10, 31)
			return int(v), err == nil
		}
		res, bad := "", false
		switch {
		case len(f) == 3 && f[0] == "add":
			id, ok := nat(f[1])
			exp, err := strconv.ParseInt(f[2], 10, 64)
			if !ok || err != nil {
				bad = true
				break
			}
			before := c25Dump(eh, u)
			eh.Add(&c25Item{id, exp})
			res = "ok"
			if old, held := spec[id]; held {
				dupAdd = true
				r.Count("ev:dup-add")
				if c25Dump(eh, u) != before {
					r.Violation("eheap-add-idempotent", "add of held id %d (held expiry %d, new %d) changed the heap: %s -> %s", id, old, exp, before, c25Dump(eh, u))
				}
			} else {
				spec[id] = exp
			}
		case len(f) == 2 && f[0] == "remove":
			id, ok := nat(f[1])
			if !ok {
				bad = true
				break
			}
			it, got := eh.Remove(c25ID(id))
			res = optS(it, got)
			exp, held := spec[id]
			if got != held || (got && (it.id != id || it.exp != exp)) {
				r.Violation("eheap-remove", "remove %d returned %s but spec held=%v exp=%d", id, res, held, exp)
			}
			if held {
				rem = true
				r.Count("ev:remove-present")
			} else {
				r.Count("ev:remove-absent")
			}
			delete(spec, id)
		case len(f) == 2 && f[0] == "setmin":
			v, err := strconv.ParseInt(f[1], 10, 64)
			if err != nil {
				bad = true
				break
			}
			out := eh.SetMin(v)
			var ss []string
			want := map[int]int64{}
			for id, e := range spec {
				if e < v {
					want[id] = e
				}
			}
			okSet := len(out) == len(want)
			for k, it := range out {
				ss = append(ss, it.String())
				if e, w := want[it.id]; !w || e != it.exp {
					okSet = false
				}
				if k > 0 && out[k-1].exp > it.exp {
					okSet = false
				}
				delete(spec, it.id)
			}
			if !okSet {
				r.Violation("eheap-setmin", "setmin %d returned %v, spec says exactly %v (in non-decreasing expiry order)", v, ss, want)
				for id := range want {
					delete(spec, id)
				}
			}
			if len(out) > 0 {
				rem = true
			}
			r.Count(fmt.Sprintf("ev:setmin-removed-%d", min(len(out), 5)))
			res = c25Join(ss)
		case len(f) == 1 && f[0] == "peekmin":
			it, ok := eh.PeekMin()
			res = optS(it, ok)
		case len(f) == 1 && f[0] == "popmin":
			m, held := specMin()
			it, ok := eh.PopMin()
			res = optS(it, ok)
			if ok != held || (ok && (it.exp != m || spec[it.id] != it.exp)) {
				r.Violation("eheap-min", "popmin returned %s but spec minimum is %d (nonempty=%v)", res, m, held)
			}
			if ok {
				rem = true
				delete(spec, it.id)
			}
		case len(f) == 2 && f[0] == "has":
			id, ok := nat(f[1])
			if !ok {
				bad = true
				break
			}
			res = strconv.FormatBool(eh.Has(c25ID(id)))
		case len(f) == 1 && f[0] == "len":
			res = strconv.Itoa(eh.Len())
		default:
			bad = true
		}
		if bad {
			r.Emit(l, "bad-op")
			continue
		}
		r.Emit(l, res+" ; "+c25Dump(eh, u))
		// ---- oracle: the property's statement on the real structure, after every op
		if eh.Len() > maxLen {
			maxLen = eh.Len()
		}
		if eh.Len() != len(spec) {
			r.Violation("eheap-len", "Len=%d but the set has %d ids", eh.Len(), len(spec))
		}
		for i := 0; i < u; i++ {
			if _, held := spec[i]; held != eh.Has(c25ID(i)) {
				r.Violation("eheap-has", "Has(%d)=%v but set membership is %v", i, !held, held)
			}
		}
		m, held := specMin()
		if it, ok := eh.PeekMin(); ok != held || (ok && (it.exp != m || spec[it.id] != it.exp)) {
			r.Violation("eheap-min", "PeekMin=%s but spec minimum is %d (nonempty=%v)", optS(it, ok), m, held)
		}
		items := eh.minHeap.Items()
		seen := map[ids.ID]bool{}
		for k, e := range items {
			if e.Index != k || e.Val != e.Item.exp || e.ID != e.Item.GetID() || seen[e.ID] {
				r.Violation("eheap-index", "slot %d holds entry id=%d val=%d index=%d item=%s", k, c25Un(e.ID), e.Val, e.Index, e.Item)
			}
			seen[e.ID] = true
			if k > 0 && items[(k-1)/2].Val > e.Val {
				r.Violation("eheap-heap-order", "slot %d val %d below parent val %d", k, e.Val, items[(k-1)/2].Val)
			}
		}
	}
	flush()
	_ = sort.Ints
}
