package heap

import (
	"fmt"
	"strconv"
	"strings"
	"testing"

	"github.com/ava-labs/avalanchego/ids"

	"github.com/ava-labs/hypersdk/internal/verifh"
)

// C25 (heap part): Heap[I,V] over container/heap = the array algorithm of Model/Heap.lean.
// Protocol: see /verif/lean/Driver/C25.lean.

func c25ID(n int) ids.ID  { return ids.ID{byte(n), byte(n >> 8), 0xC2, 0x5E} }
func c25Un(id ids.ID) int { return int(id[0]) | int(id[1])<<8 }

func c25Join(l []string) string {
	if len(l) == 0 {
		return "-"
	}
	return strings.Join(l, " ")
}

func c25Entry(e *Entry[int64, int64]) string {
	if e == nil {
		return "nil"
	}
	return fmt.Sprintf("%d:%d:%d:%d", c25Un(e.ID), e.Val, e.Index, e.Item)
}

func c25Dump(h *Heap[int64, int64], u int) string {
	var es, ks []string
	for _, e := range h.Items() {
		es = append(es, c25Entry(e))
	}
	for i := 0; i < u; i++ {
		if h.Has(c25ID(i)) {
			ks = append(ks, strconv.Itoa(i))
		}
	}
	return c25Join(es) + " ; " + c25Join(ks)
}

func c25Gen(r *verifh.Run) []string {
	var L []string
	add := func(s ...string) { L = append(L, s...) }
	// corpus: sift-up after Remove, duplicates, out-of-range index, empty heap
	add("reset heap min 8", "push 0 1 100", "push 1 10 101", "push 2 2 102", "push 3 11 103", "push 4 12 104", "push 5 3 105", "remove 3", "first", "remove 0", "remove 9", "remove 4", "remove 3", "pop", "pop", "pop", "pop", "pop")
	add("reset heap max 8", "push 0 1 100", "push 1 10 101", "push 2 2 102", "push 1 99 7", "get 1", "get 5", "has 1", "first", "pop", "remove 1", "len", "remove 0", "remove 0", "first", "pop")
	add("reset heap min 4", "pop", "first", "remove 0", "len", "push 2 -5 1", "push 2 -9 2", "push 3 -5 3", "get 2", "pop", "get 2", "has 2")
	nseq := r.N(4000, 200000)
	for s := 0; s < nseq; s++ {
		u := 3 + r.RNG.Intn(8)
		n := 1 + r.RNG.Intn(40)
		span := 9
		if s%50 == 0 {
			u = 10 + r.RNG.Intn(31)
			n = 200 + r.RNG.Intn(200)
			span = 5 + r.RNG.Intn(40)
		}
		mode := "min"
		if r.RNG.Intn(3) == 0 {
			mode = "max"
		}
		add(fmt.Sprintf("reset heap %s %d", mode, u))
		size := 0 // rough estimate to aim remove indices
		for k := 0; k < n; k++ {
			id := r.RNG.Intn(u)
			switch c := r.RNG.Intn(100); {
			case c < 48:
				add(fmt.Sprintf("push %d %d %d", id, -2+r.RNG.Intn(span), r.RNG.Intn(1000)))
				size++
			case c < 68:
				add(fmt.Sprintf("remove %d", r.RNG.Intn(min(size, u)+2)))
				if size > 0 {
					size--
				}
			case c < 78:
				add("pop")
				if size > 0 {
					size--
				}
			case c < 84:
				add("first")
			case c < 90:
				add(fmt.Sprintf("get %d", id))
			case c < 96:
				add(fmt.Sprintf("has %d", id))
			default:
				add("len")
			}
		}
	}
	return L
}

type c25Ref struct{ val, item int64 }

func TestVerifC25Heap(t *testing.T) {
	r := verifh.Start("C25")
	defer r.Finish()
	lines := r.ReplayLines()
	if lines == nil {
		lines = c25Gen(r)
	}
	var (
		h      *Heap[int64, int64]
		u      int
		isMin  bool
		spec   map[int]c25Ref
		seq    []string
		dupAdd bool
		rem    bool
		maxLen int
	)
	flush := func() {
		if dupAdd && rem && maxLen >= 3 {
			r.Distinct(strings.Join(seq, "|"))
		}
	}
	better := func(a, b int64) bool { // a strictly before b in heap order
		if isMin {
			return a < b
		}
		return a > b
	}
	for _, l := range lines {
		f := verifh.Fields(l)
		if len(f) >= 1 && f[0] == "reset" {
			flush()
			seq, dupAdd, rem, maxLen = nil, false, false, 0
			h = nil
			if len(f) != 4 || f[1] != "heap" || (f[2] != "min" && f[2] != "max") {
				r.Emit(l, "bad-op")
				continue
			}
			n, err := strconv.Atoi(f[3])
			if err != nil || n < 0 {
				r.Emit(l, "bad-op")
				continue
			}
			u, isMin = n, f[2] == "min"
			h = New[int64, int64](4, isMin)
			spec = map[int]c25Ref{}
			r.Emit(l, "ok ; "+c25Dump(h, u))
			continue
		}
		if h == nil {
			r.Emit(l, "bad-op")
			continue
		}
		seq = append(seq, l)
		nat := func(s string) (int, bool) {
			v, err := strconv.ParseUint(s, 10, 31)
			return int(v), err == nil
		}
		res, bad := "", false
		switch {
		case len(f) == 4 && f[0] == "push":
			id, ok := nat(f[1])
			v, e1 := strconv.ParseInt(f[2], 10, 64)
			it, e2 := strconv.ParseInt(f[3], 10, 64)
			if !ok || e1 != nil || e2 != nil {
				bad = true
				break
			}
			before := c25Dump(h, u)
			h.Push(&Entry[int64, int64]{ID: c25ID(id), Val: v, Item: it, Index: h.Len()})
			res = "ok"
			if _, held := spec[id]; held {
				dupAdd = true
				r.Count("ev:dup-push")
				if c25Dump(h, u) != before {
					r.Violation("heap-push-idempotent", "push of held id %d changed the heap: %s -> %s", id, before, c25Dump(h, u))
				}
			} else {
				spec[id] = c25Ref{v, it}
			}
		case len(f) == 1 && f[0] == "pop":
			first := h.First()
			e := h.Pop()
			res = c25Entry(e)
			if e != first || (e == nil) != (len(spec) == 0) {
				r.Violation("heap-pop", "Pop returned %s but First was %s (spec size %d)", res, c25Entry(first), len(spec))
			}
			if e != nil {
				rem = true
				delete(spec, c25Un(e.ID))
			}
		case len(f) == 2 && f[0] == "remove":
			i, ok := nat(f[1])
			if !ok {
				bad = true
				break
			}
			var at *Entry[int64, int64]
			if i < h.Len() {
				at = h.Items()[i]
				if i == h.Len()-1 {
					r.Count("ev:remove-last")
				} else if i == 0 {
					r.Count("ev:remove-root")
				} else {
					r.Count("ev:remove-middle")
				}
			} else {
				r.Count("ev:remove-out-of-range")
			}
			e := h.Remove(i)
			res = c25Entry(e)
			if e != at {
				r.Violation("heap-remove", "Remove(%d) returned %s but slot held %s", i, res, c25Entry(at))
			}
			if e != nil {
				rem = true
				delete(spec, c25Un(e.ID))
			}
		case len(f) == 1 && f[0] == "first":
			res = c25Entry(h.First())
		case len(f) == 2 && f[0] == "get":
			id, ok := nat(f[1])
			if !ok {
				bad = true
				break
			}
			e, found := h.Get(c25ID(id))
			if !found {
				e = nil
			}
			res = c25Entry(e)
		case len(f) == 2 && f[0] == "has":
			id, ok := nat(f[1])
			if !ok {
				bad = true
				break
			}
			res = strconv.FormatBool(h.Has(c25ID(id)))
		case len(f) == 1 && f[0] == "len":
			res = strconv.Itoa(h.Len())
		default:
			bad = true
		}
		if bad {
			r.Emit(l, "bad-op")
			continue
		}
		r.Emit(l, res+" ; "+c25Dump(h, u))
		// ---- oracle
		if h.Len() > maxLen {
			maxLen = h.Len()
		}
		if h.Len() != len(spec) {
			r.Violation("heap-len", "Len=%d but %d ids are held", h.Len(), len(spec))
		}
		for i := 0; i < u; i++ {
			ref, held := spec[i]
			e, found := h.Get(c25ID(i))
			if held != h.Has(c25ID(i)) || held != found || (found && (e.Val != ref.val || e.Item != ref.item || c25Un(e.ID) != i)) {
				r.Violation("heap-has", "Has/Get(%d) = %v/%s but reference held=%v %v", i, h.Has(c25ID(i)), c25Entry(e), held, ref)
			}
		}
		if first := h.First(); first != nil {
			for _, ref := range spec {
				if better(ref.val, first.Val) {
					r.Violation("heap-first", "First has val %d but %d is held", first.Val, ref.val)
					break
				}
			}
		} else if len(spec) != 0 {
			r.Violation("heap-first", "First is nil but %d ids are held", len(spec))
		}
		items := h.Items()
		seen := map[ids.ID]bool{}
		for k, e := range items {
			if e.Index != k || seen[e.ID] {
				r.Violation("heap-index", "slot %d holds %s", k, c25Entry(e))
			}
			seen[e.ID] = true
			if k > 0 && better(e.Val, items[(k-1)/2].Val) {
				r.Violation("heap-order", "slot %d val %d before parent val %d", k, e.Val, items[(k-1)/2].Val)
			}
		}
	}
	flush()
}
