package fetcher

import (
	"context"
	"errors"
	"fmt"
	"sort"
	"strconv"
	"strings"
	"sync"
	"testing"
	"time"

	"github.com/ava-labs/avalanchego/database"
	"github.com/ava-labs/avalanchego/ids"

	"github.com/ava-labs/hypersdk/internal/verifh"
	"github.com/ava-labs/hypersdk/state"
)

// C24: block execution reads exactly the declared keys from the parent state; Get returns
// exactly the parent's values; a failing read fails instead of hanging / reading as absence.
//
// Line protocol (one sequence = `reset` ... `wait`/`requested`), gated mode:
//   reset <conc> <key>=<rd>*     rd: v<value> | a (absent) | f (read error) | b (value with too many chunks)
//   fetch <tx> <key>*            Fetch(tx, keys)                               -> ok|err
//   fetchk <tx> <key>*           Fetch(tx, sorted(Keys{key:Read}.WithoutPermissions()))  -> ok|err
//   rel <key>                    let the pending parent read of <key> return   -> done|not-requested
//   sync <key>*                  wait until the reads of these keys are pending  -> synced|not-requested
//   probe <tx>                   white box: tx record                          -> missing|nowaiter|blocked <n>|ready
//   get <tx>                     Get(tx) (10 s hang detector)                   -> missing|err|err*|vals k=v,..|hang
//   geta <tx> / join <tx>        Get in a goroutine / its result               -> started / as get
//   stop                         Stop()                                        -> ok
//   wait                         open all gates, Wait()                        -> ok|err|hang
//   requested                    parent reads so far (sorted, with multiplicity; after an error: err-subset)
// free-running mode (real goroutine interleavings, only the final outcome is compared):
//   free <conc> <cap> P <key>=<rd>* T <tx>:<key>,<key>..*                       -> ok|err|hang

const c24Timeout = 10 * time.Second

// after a few detected hangs the remaining waits are shortened so that a broken build is
// reported within the time budget instead of timing out the whole run
var c24Slow int

func c24To() time.Duration {
	if c24Slow >= 3 {
		return 400 * time.Millisecond
	}
	return c24Timeout
}

var errC24Injected = errors.New("injected read error")

type c24View struct {
	mu       sync.Mutex
	parent   map[string]string // key -> rd token
	declared map[string]bool
	gated    bool
	pending  map[string]chan struct{}
	log      []string
	bigValue []byte
	undecl   []string
}

func (v *c24View) GetValue(_ context.Context, key []byte) ([]byte, error) {
	k := string(key)
	v.mu.Lock()
	v.log = append(v.log, k)
	var gate chan struct{}
	if !v.declared[k] {
		v.undecl = append(v.undecl, k)
	} else if v.gated {
		gate = make(chan struct{})
		v.pending[k] = gate
	}
	rd, ok := v.parent[k]
	v.mu.Unlock()
	if gate != nil {
		<-gate
	}
	if !ok {
		return nil, database.ErrNotFound
	}
	switch rd[0] {
	case 'v':
		return []byte(rd[1:]), nil
	case 'f':
		return nil, errC24Injected
	case 'b':
		return v.bigValue, nil
	default:
		return nil, database.ErrNotFound
	}
}

func (v *c24View) openAll() {
	v.mu.Lock()
	v.gated = false
	for k, g := range v.pending {
		close(g)
		delete(v.pending, k)
	}
	v.mu.Unlock()
}

func c24ID(tok string) ids.ID {
	var id ids.ID
	copy(id[:], tok)
	return id
}

type c24Seq struct {
	f        *Fetcher
	v        *c24View
	errored  bool // the harness released a failing read or called Stop
	waited   bool
	waitErr  bool
	async    map[string]chan c24GetRes
	fetched  map[string][]string // tx token -> keys of its latest Fetch
	released map[string]bool
}

func c24RenderVals(m map[string][]byte) string {
	ks := make([]string, 0, len(m))
	for k := range m {
		ks = append(ks, k)
	}
	sort.Strings(ks)
	if len(ks) == 0 {
		return "vals -"
	}
	parts := make([]string, len(ks))
	for i, k := range ks {
		parts[i] = k + "=" + string(m[k])
	}
	return "vals " + strings.Join(parts, ",")
}

// oracle for a successful Get: exactly the parent's value or absence for every declared key.
func (s *c24Seq) checkVals(r *verifh.Run, tx string, keys []string, m map[string][]byte) {
	for _, k := range keys {
		rd, ok := s.v.parent[k]
		got, has := m[k]
		switch {
		case ok && rd[0] == 'v':
			if !has || string(got) != rd[1:] {
				c24V(r, "get-wrong-value", "Get(%s) key %s: parent has %q, got present=%v %q", tx, k, rd[1:], has, got)
			}
		case ok && (rd[0] == 'f' || rd[0] == 'b'):
			c24V(r, "read-error-as-absence", "Get(%s) returned values although the read of %s fails", tx, k)
		default:
			if has {
				c24V(r, "get-wrong-value", "Get(%s) key %s: absent in parent, got %q", tx, k, got)
			}
		}
	}
	if len(m) > len(keys) {
		c24V(r, "get-wrong-value", "Get(%s) returned %d entries for %d keys", tx, len(m), len(keys))
	}
}

func (s *c24Seq) txState(tx string) (found, waiter, closed bool, blockers int) {
	s.f.l.RLock()
	defer s.f.l.RUnlock()
	t, ok := s.f.txs[c24ID(tx)]
	if !ok {
		return false, false, false, 0
	}
	if t.waiter == nil {
		return true, false, false, t.blockers
	}
	select {
	case <-t.waiter:
		return true, true, true, t.blockers
	default:
		return true, true, false, t.blockers
	}
}

type c24GetRes struct {
	m    map[string][]byte
	err  error
	hang bool
}

// rawGet runs Get with the hang detector.
func (s *c24Seq) rawGet(tx string) c24GetRes {
	ch := make(chan c24GetRes, 1)
	go func() {
		m, err := s.f.Get(c24ID(tx))
		ch <- c24GetRes{m: m, err: err}
	}()
	select {
	case out := <-ch:
		return out
	case <-time.After(c24To()):
		c24Slow++
		return c24GetRes{hang: true}
	}
}

// canonGet applies the oracle to a Get result and canonicalises it, using the tx state
// (waiter / closed) sampled by the caller in the main goroutine.
func (s *c24Seq) canonGet(r *verifh.Run, tx string, out c24GetRes, waiter, closed bool) string {
	if out.hang {
		c24V(r, "get-hang", "Get(%s) did not return within %s", tx, c24Timeout)
		return "hang"
	}
	failed := s.errored || s.waitErr
	if out.err != nil {
		if errors.Is(out.err, ErrMissingTx) {
			return "missing"
		}
		if !failed {
			c24V(r, "get-spurious-error", "Get(%s) failed (%v) although no read failed and Stop was not called", tx, out.err)
		}
	} else {
		s.checkVals(r, tx, s.fetched[tx], out.m)
	}
	if failed && waiter && (closed || s.waited) {
		// select between a closed waiter and the closed stop channel may go either way
		return "err*"
	}
	if out.err != nil {
		return "err"
	}
	return c24RenderVals(out.m)
}

func (s *c24Seq) doGet(r *verifh.Run, tx string) string {
	_, waiter, closed, _ := s.txState(tx)
	return s.canonGet(r, tx, s.rawGet(tx), waiter, closed)
}

func (s *c24Seq) finish() {
	if s == nil || s.f == nil {
		return
	}
	s.v.openAll()
	s.f.Stop()
}

func TestVerifC24(t *testing.T) {
	r := verifh.Start("C24")
	defer r.Finish()

	lines := r.ReplayLines()
	if lines == nil {
		lines = c24Generate(r)
	}
	big := make([]byte, 65535*64)
	var s *c24Seq
	for _, l := range lines {
		func() {
		f := verifh.Fields(l)
		if len(f) == 0 {
			return
		}
		if f[0] == "free" {
			r.Emit(l, c24Free(r, f, big))
			return
		}
		if f[0] == "reset" {
			s.finish()
			s = nil
			if len(f) < 2 {
				r.Emit(l, "bad-op")
				return
			}
			conc, err := strconv.Atoi(f[1])
			if err != nil || conc < 1 || conc > 64 {
				r.Emit(l, "bad-op")
				return
			}
			v := &c24View{parent: map[string]string{}, declared: map[string]bool{}, gated: true,
				pending: map[string]chan struct{}{}, bigValue: big}
			bad := false
			for _, kv := range f[2:] {
				p := strings.SplitN(kv, "=", 2)
				if len(p) != 2 || p[1] == "" || !strings.ContainsRune("vafb", rune(p[1][0])) {
					bad = true
					break
				}
				v.parent[p[0]] = p[1]
			}
			if bad {
				r.Emit(l, "bad-op")
				return
			}
			s = &c24Seq{f: New(v, 256, conc), v: v, async: map[string]chan c24GetRes{}, fetched: map[string][]string{}, released: map[string]bool{}}
			r.Count(fmt.Sprintf("conc:%d", conc))
			r.Emit(l, "ok")
			return
		}
		if s == nil {
			r.Emit(l, "bad-op")
			return
		}
		switch f[0] {
		case "fetch", "fetchk":
			if len(f) < 2 || s.waited {
				r.Emit(l, "bad-op")
				return
			}
			keys := append([]string{}, f[2:]...)
			s.v.mu.Lock()
			for _, k := range keys {
				s.v.declared[k] = true
			}
			s.v.mu.Unlock()
			if f[0] == "fetchk" {
				sk := state.Keys{}
				for _, k := range keys {
					sk[k] = state.Read
				}
				keys = sk.WithoutPermissions()
				sort.Strings(keys)
			}
			done := make(chan error, 1)
			go func() { done <- s.f.Fetch(context.Background(), c24ID(f[1]), keys) }()
			select {
			case err := <-done:
				if err != nil && !s.errored {
					c24V(r, "fetch-spurious-error", "Fetch failed (%v) with no failed read", err)
				}
				if err == nil {
					s.fetched[f[1]] = keys
				}
				r.Emit(l, verifh.Err(err))
			case <-time.After(c24To()):
		c24Slow++
				c24V(r, "fetch-hang", "Fetch did not return within %s", c24Timeout)
				r.Emit(l, "hang")
			}
			s.flushUndeclared(r)
		case "sync":
			// wait until the parent reads of all listed keys are pending (workers have picked them up)
			deadline := time.Now().Add(c24To())
			okAll := false
			for {
				okAll = true
				s.v.mu.Lock()
				for _, k := range f[1:] {
					if s.v.pending[k] == nil {
						okAll = false
					}
				}
				s.v.mu.Unlock()
				if okAll || time.Now().After(deadline) {
					break
				}
				time.Sleep(100 * time.Microsecond)
			}
			s.flushUndeclared(r)
			if okAll {
				r.Emit(l, "synced")
			} else {
				c24Slow++
				c24V(r, "declared-key-not-read", "keys %v should all be in flight but were not requested from the parent", f[1:])
				r.Emit(l, "not-requested")
			}
		case "rel":
			if len(f) != 2 {
				r.Emit(l, "bad-op")
				return
			}
			k := f[1]
			deadline := time.Now().Add(c24To())
			var gate chan struct{}
			for {
				s.v.mu.Lock()
				gate = s.v.pending[k]
				if gate != nil {
					delete(s.v.pending, k)
				}
				s.v.mu.Unlock()
				if gate != nil || time.Now().After(deadline) {
					break
				}
				time.Sleep(100 * time.Microsecond)
			}
			s.flushUndeclared(r)
			if gate == nil {
				c24Slow++
				c24V(r, "declared-key-not-read", "key %s was never requested from the parent although a worker should be fetching it", k)
				r.Emit(l, "not-requested")
				return
			}
			rd := s.v.parent[k]
			fails := rd != "" && (rd[0] == 'f' || rd[0] == 'b')
			if fails {
				s.errored = true
			}
			close(gate)
			s.released[k] = true
			// wait for the effect of the worker's set / handleErr
			effect := false
			for time.Now().Before(deadline) {
				s.f.l.RLock()
				effect = (fails && s.f.err != nil) || (!fails && s.f.keys[k] != nil && s.f.keys[k].cache != nil)
				s.f.l.RUnlock()
				if effect {
					break
				}
				time.Sleep(100 * time.Microsecond)
			}
			if !effect {
				c24Slow++
				if fails {
					c24V(r, "read-error-not-reported", "the parent read of %s failed but the fetcher has no error", k)
				} else {
					c24V(r, "fetched-value-not-cached", "the parent read of %s returned but the key is not cached", k)
				}
			}
			r.Emit(l, "done")
		case "probe":
			if len(f) != 2 {
				r.Emit(l, "bad-op")
				return
			}
			found, waiter, closed, blockers := s.txState(f[1])
			switch {
			case !found:
				r.Emit(l, "missing")
			case !waiter:
				r.Emit(l, "nowaiter")
			case closed:
				r.Emit(l, "ready")
			default:
				r.Emit(l, fmt.Sprintf("blocked %d", blockers))
			}
			// oracle: a tx whose declared keys have not all arrived must not be ready
			if found && (!waiter || closed) {
				s.f.l.RLock()
				for _, k := range s.fetched[f[1]] {
					if e := s.f.keys[k]; e == nil || e.cache == nil {
						c24V(r, "get-before-all-keys-arrived", "tx %s is ready although key %s has not been fetched", f[1], k)
					}
				}
				s.f.l.RUnlock()
			}
		case "get":
			if len(f) != 2 {
				r.Emit(l, "bad-op")
				return
			}
			r.Emit(l, s.doGet(r, f[1]))
		case "geta":
			if len(f) != 2 || s.async[f[1]] != nil {
				r.Emit(l, "bad-op")
				return
			}
			ch := make(chan c24GetRes, 1)
			s.async[f[1]] = ch
			tx := f[1]
			started := make(chan struct{})
			go func() {
				close(started)
				ch <- s.rawGet(tx)
			}()
			<-started
			time.Sleep(2 * time.Millisecond)
			r.Emit(l, "started")
		case "join":
			if len(f) != 2 || s.async[f[1]] == nil {
				r.Emit(l, "bad-op")
				return
			}
			select {
			case out := <-s.async[f[1]]:
				_, waiter, closed, _ := s.txState(f[1])
				r.Emit(l, s.canonGet(r, f[1], out, waiter, closed))
			case <-time.After(c24To() + 2*time.Second):
		c24Slow++
				c24V(r, "get-hang", "async Get(%s) never returned", f[1])
				r.Emit(l, "hang")
			}
			delete(s.async, f[1])
		case "stop":
			s.errored = true
			s.f.Stop()
			r.Emit(l, "ok")
		case "wait":
			// Wait is entered first (as the processor does after its Fetch loop); the pending parent
			// reads, including failing ones, return only afterwards
			done := make(chan error, 1)
			go func() { done <- s.f.Wait() }()
			time.Sleep(time.Millisecond)
			s.v.openAll()
			select {
			case err := <-done:
				s.waited = true
				s.waitErr = err != nil
				// oracle: Wait fails iff a declared key's read fails or Stop was called
				want := s.errored
				s.v.mu.Lock()
				for k := range s.v.declared {
					if rd := s.v.parent[k]; rd != "" && (rd[0] == 'f' || rd[0] == 'b') {
						want = true
					}
				}
				s.v.mu.Unlock()
				if want != (err != nil) {
					c24V(r, "wait-wrong-result", "Wait returned %v; a failing read / Stop happened: %v", err, want)
				}
				r.Emit(l, verifh.Err(err))
			case <-time.After(c24To()):
		c24Slow++
				c24V(r, "wait-hang", "Wait did not return within %s", c24Timeout)
				r.Emit(l, "hang")
			}
			s.flushUndeclared(r)
		case "requested":
			s.v.mu.Lock()
			lg := append([]string{}, s.v.log...)
			decl := map[string]bool{}
			for k := range s.v.declared {
				decl[k] = true
			}
			s.v.mu.Unlock()
			sort.Strings(lg)
			seen := map[string]bool{}
			for _, k := range lg {
				seen[k] = true
			}
			failed := s.errored || s.waitErr
			if !failed && s.waited {
				for k := range decl {
					if !seen[k] {
						c24V(r, "declared-key-not-read", "declared key %s was never read from the parent", k)
					}
				}
			}
			r.Distinct(fmt.Sprintf("%d/%d/%v", len(lg), len(decl), failed))
			if failed {
				r.Emit(l, "err-subset")
			} else if len(lg) == 0 {
				r.Emit(l, "-")
			} else {
				r.Emit(l, strings.Join(lg, ","))
			}
		default:
			r.Emit(l, "bad-op")
		}
		}()
		c24Flush(r)
	}
	s.finish()
}

func (s *c24Seq) flushUndeclared(r *verifh.Run) {
	s.v.mu.Lock()
	u := s.v.undecl
	s.v.undecl = nil
	s.v.mu.Unlock()
	for _, k := range u {
		c24V(r, "read-undeclared-key", "key %q was read from the parent state but no transaction declared it", k)
	}
}

// Violations are recorded after the op line they belong to has been emitted.
type c24Vio struct{ key, msg string }

var (
	c24VioMu   sync.Mutex
	c24Pending []c24Vio
)

func c24V(_ *verifh.Run, key, format string, a ...any) {
	c24VioMu.Lock()
	c24Pending = append(c24Pending, c24Vio{key, fmt.Sprintf(format, a...)})
	c24VioMu.Unlock()
}

func c24Flush(r *verifh.Run) {
	c24VioMu.Lock()
	p := c24Pending
	c24Pending = nil
	c24VioMu.Unlock()
	for _, v := range p {
		r.Violation(v.key, "%s", v.msg)
	}
	if len(p) > 0 {
		r.Flush()
	}
}

// ---------------------------------------------------------------- free-running mode

func c24Free(r *verifh.Run, f []string, big []byte) string {
	// free <conc> <cap> P kv* T tx:k,k*
	if len(f) < 5 || f[3] != "P" {
		return "bad-op"
	}
	conc, e1 := strconv.Atoi(f[1])
	capa, e2 := strconv.Atoi(f[2])
	if e1 != nil || e2 != nil || conc < 1 || capa < 1 {
		return "bad-op"
	}
	v := &c24View{parent: map[string]string{}, declared: map[string]bool{}, pending: map[string]chan struct{}{}, bigValue: big}
	i := 4
	for ; i < len(f) && f[i] != "T"; i++ {
		p := strings.SplitN(f[i], "=", 2)
		if len(p) != 2 || p[1] == "" || !strings.ContainsRune("vafb", rune(p[1][0])) {
			return "bad-op"
		}
		v.parent[p[0]] = p[1]
	}
	if i >= len(f) {
		return "bad-op"
	}
	type txd struct {
		id   string
		keys []string
	}
	var txs []txd
	anyFail := false
	for _, tk := range f[i+1:] {
		p := strings.SplitN(tk, ":", 2)
		if len(p) != 2 {
			return "bad-op"
		}
		var ks []string
		if p[1] != "" {
			ks = strings.Split(p[1], ",")
		}
		for _, k := range ks {
			v.declared[k] = true
			if rd := v.parent[k]; rd != "" && (rd[0] == 'f' || rd[0] == 'b') {
				anyFail = true
			}
		}
		txs = append(txs, txd{p[0], ks})
	}
	r.Count(fmt.Sprintf("free-conc:%d", conc))
	fe := New(v, capa, conc)
	s := &c24Seq{f: fe, v: v, fetched: map[string][]string{}}
	result := make(chan string, 1)
	go func() {
		// the shape of Processor.executeTxs: Fetch in order, Get from other goroutines, Wait
		var wg sync.WaitGroup
		var mu sync.Mutex
		failed := false
		for _, tx := range txs {
			if err := fe.Fetch(context.Background(), c24ID(tx.id), tx.keys); err != nil {
				failed = true
				break
			}
			wg.Add(1)
			go func(tx txd) {
				defer wg.Done()
				m, err := fe.Get(c24ID(tx.id))
				mu.Lock()
				defer mu.Unlock()
				if err != nil {
					if !anyFail {
						c24V(r, "get-spurious-error", "free: Get(%s) failed: %v", tx.id, err)
					}
					return
				}
				// duplicate tx ids: the latest Fetch with this id defines the keys
				s.checkVals(r, tx.id, tx.keys, m)
			}(tx)
		}
		if !failed {
			if err := fe.Wait(); err != nil {
				failed = true
			}
		}
		wg.Wait()
		if failed {
			result <- "err"
		} else {
			result <- "ok"
		}
	}()
	var out string
	select {
	case out = <-result:
	case <-time.After(c24To()):
		c24Slow++
		c24V(r, "free-hang", "Fetch/Get/Wait did not finish within %s", c24Timeout)
		fe.Stop()
		return "hang"
	}
	fe.Stop()
	v.mu.Lock()
	defer v.mu.Unlock()
	seen := map[string]int{}
	for _, k := range v.log {
		seen[k]++
		if !v.declared[k] {
			c24V(r, "read-undeclared-key", "free: key %q was read from the parent state but no transaction declared it", k)
		}
		if seen[k] == 2 {
			c24V(r, "key-read-twice", "free: key %q was read twice from the parent", k)
		}
	}
	if out == "ok" {
		for k := range v.declared {
			if seen[k] == 0 {
				c24V(r, "declared-key-not-read", "free: declared key %s never read", k)
			}
		}
	}
	if (out == "err") != anyFail {
		c24V(r, "wait-wrong-result", "free: outcome %s but failing declared key: %v", out, anyFail)
	}
	r.Distinct(fmt.Sprintf("free/%d/%d/%d/%v", conc, len(txs), len(v.declared), anyFail))
	return out
}

// ---------------------------------------------------------------- generator

// c24Sim is the generator's bookkeeping of which ops are sensible next (which reads are in
// flight, which txs are complete). It is not the oracle and not the model: a wrong guess only
// yields `not-requested` / `hang` lines, which the model then has to agree with.
type c24Sim struct {
	parent   map[string]string
	status   map[string]int // 0 unknown, 1 queued/in flight, 2 cached
	queue    []string
	inflight []string
	workers  int
	err      bool
	pendingK map[string]map[string]bool // tx -> keys not yet cached at its latest fetch
	txs      []string
}

func (m *c24Sim) fill() {
	for !m.err && len(m.queue) > 0 && len(m.inflight) < m.workers {
		m.inflight = append(m.inflight, m.queue[0])
		m.queue = m.queue[1:]
	}
}

func c24Generate(r *verifh.Run) []string {
	var out []string
	// corpus first: witnesses of the two defects found at design time.
	out = append(out,
		// (a) WithoutPermissions prepends len(k) empty strings: the empty key is read from the parent
		"reset 2 ka=v1 kb=v2",
		"fetchk t1 ka kb",
		"rel ka", "rel kb", "get t1", "wait", "requested",
		// (b) duplicate tx id: the second Fetch shares blocker bookkeeping with the first
		"reset 1 ka=v1 kb=v2",
		"fetch t1 ka kb", "fetch t1 ka kb", "rel ka", "probe t1", "rel kb", "probe t1", "get t1", "wait", "requested",
		// (b') Get started on the first record before the duplicate Fetch replaced it
		"reset 1 ka=v1 kb=v2",
		"fetch t1 ka kb", "geta t1", "fetch t1 ka kb", "rel ka", "rel kb", "join t1", "get t1", "wait", "requested",
		// read error while a Get is blocked; too-large value
		"reset 2 ka=v1 kb=f kc=v3",
		"fetch t1 ka kb", "fetch t2 kb kc", "geta t2", "rel ka", "probe t1", "sync kb kc", "rel kb", "join t2", "get t1", "fetch t3 ka", "wait", "requested",
		"reset 1 ka=b kb=v1",
		"fetch t1 ka kb", "rel ka", "get t1", "wait",
		"reset 3 ka=v1", "fetch t1 ka kb", "sync ka kb", "stop", "get t1", "fetch t2 ka", "wait", "get t0",
		"reset 1", "fetch t1", "probe t1", "get t1", "wait", "requested",
		// present values of length 0, 1, 63, 64, 65 (chunk boundaries) vs. absence
		"reset 2 ka=v kb=a kc=vx kd=v"+strings.Repeat("y", 63)+" ke=v"+strings.Repeat("z", 64)+" kf=v"+strings.Repeat("w", 65),
		"fetch t1 ka kb kc", "fetch t2 kd ke kf ka", "rel ka", "rel kb", "rel kc", "get t1", "rel kd", "rel ke", "rel kf", "get t2", "fetch t3 ka kb", "get t3", "wait", "requested",
		"free 3 2 P k0=v k1=a k2=vq T t0:k0,k1 t1:k2,k0 t2:k1",
	)
	nseq := r.N(1500, 40000)
	keyNames := []string{"ka", "kb", "kc", "kd", "ke", "kf", "kg", "kh"}
	for i := 0; i < nseq; i++ {
		conc := 1 + r.RNG.Intn(4)
		if r.RNG.Chance(25) {
			conc = 1 + r.RNG.Intn(16)
		}
		nk := 2 + r.RNG.Intn(len(keyNames)-1)
		ks := keyNames[:nk]
		m := &c24Sim{parent: map[string]string{}, status: map[string]int{}, workers: conc, pendingK: map[string]map[string]bool{}}
		line := fmt.Sprintf("reset %d", conc)
		errMode := r.RNG.Intn(3) // 0: no failing key, 1: one, 2: several
		for j, k := range ks {
			var rd string
			switch {
			case errMode == 1 && j == i%nk, errMode == 2 && r.RNG.Chance(30):
				rd = "f"
			case r.RNG.Chance(25):
				rd = "a"
			case r.RNG.Chance(10):
				continue // not listed = absent
			default:
				rd = c24Val(r)
			}
			m.parent[k] = rd
			line += " " + k + "=" + rd
		}
		out = append(out, line)
		ntx := 0
		asyncs := map[string]bool{}
		steps := 4 + r.RNG.Intn(14)
		for st := 0; st < steps; st++ {
			m.fill()
			switch c := r.RNG.Intn(10); {
			case c < 3 || ntx == 0: // fetch
				tx := "t" + strconv.Itoa(ntx)
				dup := ntx > 0 && r.RNG.Chance(20)
				var keys []string
				if dup {
					tx = m.txs[r.RNG.Intn(len(m.txs))]
				}
				if asyncs[tx] {
					continue
				}
				n := r.RNG.Intn(4)
				for q := 0; q < n; q++ {
					keys = append(keys, ks[r.RNG.Intn(nk)])
				}
				op := "fetch"
				if r.RNG.Chance(30) {
					op = "fetchk"
					sort.Strings(keys)
					keys = c24Uniq(keys)
				}
				out = append(out, op+" "+tx+" "+strings.Join(keys, " "))
				if !dup {
					ntx++
					m.txs = append(m.txs, tx)
				}
				if m.err {
					continue
				}
				pend := map[string]bool{}
				for _, k := range keys {
					switch m.status[k] {
					case 0:
						m.status[k] = 1
						m.queue = append(m.queue, k)
						pend[k] = true
					case 1:
						pend[k] = true
					}
				}
				m.pendingK[tx] = pend
			case c < 7: // release an in-flight read
				if len(m.inflight) == 0 {
					continue
				}
				idx := r.RNG.Intn(len(m.inflight))
				k := m.inflight[idx]
				m.inflight = append(m.inflight[:idx:idx], m.inflight[idx+1:]...)
				if rd := m.parent[k]; (rd == "f" || rd == "b") && !m.err {
					out = append(out, strings.TrimSpace("sync "+k+" "+strings.Join(m.inflight, " ")))
				}
				out = append(out, "rel "+k)
				if rd := m.parent[k]; rd == "f" || rd == "b" {
					m.err = true
					m.workers--
				} else {
					m.status[k] = 2
					for _, p := range m.pendingK {
						delete(p, k)
					}
				}
			case c < 8:
				if len(m.txs) > 0 {
					out = append(out, "probe "+m.txs[r.RNG.Intn(len(m.txs))])
				} else {
					out = append(out, "probe tx")
				}
			case c < 9: // get where it cannot block
				if len(m.txs) == 0 {
					out = append(out, "get tq")
					continue
				}
				tx := m.txs[r.RNG.Intn(len(m.txs))]
				if asyncs[tx] {
					continue
				}
				if len(m.pendingK[tx]) == 0 || m.err {
					out = append(out, "get "+tx)
				} else {
					out = append(out, "geta "+tx)
					asyncs[tx] = true
				}
			default:
				if r.RNG.Chance(15) {
					if !m.err {
						out = append(out, strings.TrimSpace("sync "+strings.Join(m.inflight, " ")))
					}
					out = append(out, "stop")
					m.err = true
				}
			}
		}
		// joins of async gets that can no longer block, then wait
		var as []string
		for tx := range asyncs {
			as = append(as, tx)
		}
		sort.Strings(as)
		var late []string
		for _, tx := range as {
			if len(m.pendingK[tx]) == 0 || m.err {
				out = append(out, "join "+tx)
			} else {
				late = append(late, tx)
			}
		}
		out = append(out, "wait")
		for _, tx := range late {
			out = append(out, "join "+tx)
		}
		for _, tx := range m.txs {
			if r.RNG.Chance(50) {
				out = append(out, "get "+tx)
			}
		}
		out = append(out, "requested")
	}
	// free-running blocks
	nfree := r.N(600, 20000)
	for i := 0; i < nfree; i++ {
		conc := 1 + r.RNG.Intn(16)
		ntx := 1 + r.RNG.Intn(12)
		capa := 1 + r.RNG.Intn(ntx)
		nk := 1 + r.RNG.Intn(10)
		line := fmt.Sprintf("free %d %d P", conc, capa)
		failAt := -1
		if r.RNG.Chance(40) {
			failAt = r.RNG.Intn(nk)
		}
		for j := 0; j < nk; j++ {
			switch {
			case j == failAt:
				line += fmt.Sprintf(" k%d=f", j)
			case r.RNG.Chance(30):
				line += fmt.Sprintf(" k%d=a", j)
			default:
				line += fmt.Sprintf(" k%d=%s", j, c24Val(r))
			}
		}
		line += " T"
		for j := 0; j < ntx; j++ {
			n := r.RNG.Intn(5)
			var keys []string
			for q := 0; q < n; q++ {
				keys = append(keys, fmt.Sprintf("k%d", r.RNG.Intn(nk)))
			}
			line += fmt.Sprintf(" t%d:%s", j, strings.Join(keys, ","))
			if r.RNG.Chance(10) { // duplicate transaction (same id, same keys)
				line += fmt.Sprintf(" t%d:%s", j, strings.Join(keys, ","))
			}
		}
		out = append(out, line)
	}
	return out
}

// c24Val returns a parent value token: mostly short, and often a chunk-boundary length
// (0, 1, 63, 64, 65 bytes; a present zero-length value is not the same as absence).
func c24Val(r *verifh.Run) string {
	if r.RNG.Chance(35) {
		n := []int{0, 0, 1, 63, 64, 65}[r.RNG.Intn(6)]
		return "v" + strings.Repeat(string(rune('a'+r.RNG.Intn(26))), n)
	}
	return "v" + strconv.Itoa(r.RNG.Intn(90)+10)
}

func c24Uniq(s []string) []string {
	var o []string
	for i, x := range s {
		if i == 0 || x != s[i-1] {
			o = append(o, x)
		}
	}
	return o
}
