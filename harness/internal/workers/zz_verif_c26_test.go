package workers

import (
	"errors"
	"fmt"
	"runtime"
	"sort"
	"strconv"
	"strings"
	"sync"
	"sync/atomic"
	"testing"
	"time"
	"unsafe"

	"github.com/ava-labs/hypersdk/internal/verifh"
)

// C26: verification worker pool. Gated mode (tie with Driver/C26.lean): every task body logs
// start, blocks on its own gate, logs end; ops are applied at quiescent points and the
// running set / available results / Stop-returned flag are printed. Quiescence is detected
// by polling until the observation equals what a sequential mirror predicts (the mirror only
// decides when to sample; the Lean model is the judge). Free mode: real timing + oracle.

type c26Err struct{ t int }

func (e c26Err) Error() string { return "task " + strconv.Itoa(e.t) }

type c26Ev struct {
	kind int // 0 start, 1 end, 2 callback(job)
	id   int
}

// ---- sequential mirror of the repaired pool

type c26MJob struct {
	ch     []int
	closed bool
	result string // "" = none
	cbNew  bool   // its Done callback calls NewJob (not fired yet)
}

type c26Mirror struct {
	workers, maxJobs int
	jobs             []*c26MJob
	taskJob          []int
	taskFail         []bool
	queue            []int
	queueClosed      bool
	pq, pqJob        int // 0 idle 1 feeding 2 waitSg 3 exited
	sg, err          int
	wst, wt          []int // 0 idle 2 running 3 acked
	shouldShutdown   bool
	ack, stopWorkers bool
	stop, acks       int // 0 notCalled 1 flagged 2 queueClosed 3 collecting 4 returned
	pending          int // NewJob calls blocked on the full queue
}

func c26NewMirror(w, mj int) *c26Mirror {
	return &c26Mirror{workers: w, maxJobs: mj, err: -1, wst: make([]int, w), wt: make([]int, w)}
}

func (m *c26Mirror) idle() int {
	for i, s := range m.wst {
		if s == 0 {
			return i
		}
	}
	return -1
}

func (m *c26Mirror) settle() {
	for {
		switch {
		case m.pending > 0 && !m.shouldShutdown && len(m.queue) < m.maxJobs:
			// a blocked `w.queue <- j` of NewJob goes through
			m.jobs = append(m.jobs, &c26MJob{})
			m.queue = append(m.queue, len(m.jobs)-1)
			m.pending--
		case m.stop == 1:
			m.stop, m.queueClosed = 2, true
		case m.stop == 2 && m.ack:
			m.stop, m.stopWorkers, m.acks = 3, true, 0
		case m.stop == 3 && m.acks == m.workers:
			m.stop = 4
		case m.stop == 3 && m.acks < m.workers && m.idle() >= 0:
			m.wst[m.idle()] = 3
			m.acks++
		case m.pq == 0 && len(m.queue) > 0:
			j := m.queue[0]
			m.queue = m.queue[1:]
			if m.shouldShutdown {
				m.jobs[j].result = "shutdown"
			} else {
				m.pq, m.pqJob = 1, j
			}
		case m.pq == 1 && len(m.jobs[m.pqJob].ch) > 0 && m.idle() >= 0:
			i := m.idle()
			t := m.jobs[m.pqJob].ch[0]
			m.jobs[m.pqJob].ch = m.jobs[m.pqJob].ch[1:]
			if m.err < 0 {
				m.sg++
				m.wst[i], m.wt[i] = 2, t
			}
		case m.pq == 1 && len(m.jobs[m.pqJob].ch) == 0 && m.jobs[m.pqJob].closed:
			m.pq = 2
		case m.pq == 2 && m.sg == 0:
			if m.err < 0 {
				m.jobs[m.pqJob].result = "ok"
			} else {
				m.jobs[m.pqJob].result = "err:" + strconv.Itoa(m.err)
			}
			if m.jobs[m.pqJob].cbNew {
				// completed is closed: the callback goroutine calls NewJob (concurrently with the
				// scheduler); after Stop's flag it is answered ErrShutdown
				m.jobs[m.pqJob].cbNew = false
				if !m.shouldShutdown {
					m.pending++
				}
			}
			m.err, m.pq = -1, 0
		case m.pq == 0 && len(m.queue) == 0 && m.queueClosed:
			m.pq = 3
			m.ack = m.ack || m.shouldShutdown
		default:
			return
		}
	}
}

// unfiredCb: some job's callback will call NewJob once the job completes
func (m *c26Mirror) unfiredCb() bool {
	for _, j := range m.jobs {
		if j.cbNew {
			return true
		}
	}
	return false
}

func (m *c26Mirror) running() []int {
	var out []int
	for i, s := range m.wst {
		if s == 2 {
			out = append(out, m.wt[i])
		}
	}
	sort.Ints(out)
	return out
}

func (m *c26Mirror) avail() []int {
	var out []int
	for j, jb := range m.jobs {
		if jb.result != "" {
			out = append(out, j)
		}
	}
	return out
}

func (m *c26Mirror) finish(t int) {
	for i, s := range m.wst {
		if s == 2 && m.wt[i] == t {
			if m.taskFail[t] && m.err < 0 {
				m.err = t
			}
			m.sg--
			m.wst[i] = 0
		}
	}
}

func (m *c26Mirror) obs() string {
	st := 0
	if m.stop == 4 {
		st = 1
	}
	return fmt.Sprintf("run=%s avail=%s stop=%d jobs=%d", c26Set(m.running()), c26Set(m.avail()), st, len(m.jobs))
}

func c26Set(l []int) string {
	if len(l) == 0 {
		return "-"
	}
	s := make([]string, len(l))
	for i, v := range l {
		s[i] = strconv.Itoa(v)
	}
	return strings.Join(s, ",")
}

// ---- one gated case on the real pool

type c26Case struct {
	r        *verifh.Run
	p        *ParallelWorkers
	m        *c26Mirror
	mu       sync.Mutex
	log      []c26Ev
	running  map[int]bool
	gates    []chan struct{}
	jobs     []*ParallelJob
	waited   []bool
	results  []string
	stopRet  atomic.Bool
	stopCall bool
	refused  int          // NewJob calls answered with ErrShutdown
	pends    []*c26Pend   // results of NewJob calls made from goroutines (blocked on a full queue / from callbacks)
	njStart  atomic.Int32 // NewJob calls started / returned in such goroutines
	njRet    atomic.Int32
	cbGate   chan struct{} // blocking callbacks wait here until Stop has returned
	cbBlock  atomic.Int32  // blocking callbacks that have been entered
	jobCb    []int         // per job: 0 plain/none, 1 blocking callback, 2 callback that calls NewJob
	useCb    bool          // Done gets a callback (for a shutdown job its goroutine blocks forever: only some cases)
	hung     bool
}

var c26Timeout = 10 * time.Second

type c26Pend struct {
	jb  Job
	err error
}

// c26WGCount reads the counter of a sync.WaitGroup (go1.2x layout: noCopy, state
// atomic.Uint64 with the counter in the high 32 bits): a worker's last action for a task is
// sg.Done(), so sg == mirror's sg means every released task has been fully accounted (its
// error recorded). c26WGOK self-tests the layout assumption; if it fails the extra condition
// is switched off (and counted in the stats).
func c26WGCount(wg *sync.WaitGroup) int {
	return int((*atomic.Uint64)(unsafe.Pointer(wg)).Load() >> 32)
}

var c26WGOK = func() bool {
	var wg sync.WaitGroup
	if unsafe.Sizeof(wg) < 8 || c26WGCount(&wg) != 0 {
		return false
	}
	wg.Add(3)
	ok := c26WGCount(&wg) == 3
	wg.Add(-3)
	return ok && c26WGCount(&wg) == 0
}()

func (c *c26Case) observe() string {
	c.mu.Lock()
	for _, pd := range c.pends {
		// a NewJob call made from a goroutine has returned
		switch {
		case pd.err == nil:
			c.jobs = append(c.jobs, pd.jb.(*ParallelJob))
			c.waited = append(c.waited, false)
			c.results = append(c.results, "")
			c.jobCb = append(c.jobCb, 0)
		case errors.Is(pd.err, ErrShutdown) && c.stopCall:
			c.refused++
		default:
			c.r.Violation("newjob-error", "NewJob (from a goroutine) returned %v before Stop", pd.err)
		}
	}
	c.pends = nil
	var run []int
	for t := range c.running {
		run = append(run, t)
	}
	c.mu.Unlock()
	sort.Ints(run)
	var av []int
	for j, jb := range c.jobs {
		if len(jb.result) == 1 {
			av = append(av, j)
		}
	}
	st := 0
	if c.stopRet.Load() {
		st = 1
	}
	return fmt.Sprintf("run=%s avail=%s stop=%d jobs=%d", c26Set(run), c26Set(av), st, len(c.jobs))
}

// cb is the Done callback of job j. kind 0: logs only (nil in the cases that run without
// callbacks); kind 1: blocks until the harness opens cbGate (after Stop returned) — a
// callback that depends on the pool's progress; kind 2: calls NewJob (a follow-up job).
// The real pool runs callbacks in their own goroutines: none of this may stop the scheduler.
func (c *c26Case) cb(j, kind int) func() {
	for len(c.jobCb) <= j {
		c.jobCb = append(c.jobCb, 0)
	}
	c.jobCb[j] = kind
	if kind == 0 && !c.useCb {
		return nil
	}
	return func() {
		if kind == 2 {
			c.njStart.Add(1)
		}
		c.mu.Lock()
		c.log = append(c.log, c26Ev{2, j})
		c.mu.Unlock()
		switch kind {
		case 1:
			c.cbBlock.Add(1)
			<-c.cbGate
		case 2:
			jb, err := c.p.NewJob(32)
			c.mu.Lock()
			c.pends = append(c.pends, &c26Pend{jb, err})
			c.mu.Unlock()
			c.njRet.Add(1)
		}
	}
}

// hangKey: a pool that stops making progress while a blocking callback is pending is stuck
// in (or behind) that callback
func (c *c26Case) hangKey() string {
	// a job whose result is already available while one of its started tasks has not ended
	c.mu.Lock()
	early := false
	for t := range c.running {
		if j := c.m.taskJob[t]; j < len(c.jobs) && len(c.jobs[j].result) == 1 {
			early = true
		}
	}
	c.mu.Unlock()
	if early {
		return "result-before-tasks-ended"
	}
	if c.cbBlock.Load() > 0 {
		return "callback-blocks-scheduler"
	}
	return "hang"
}

func (c *c26Case) quiesce() string {
	want := c.m.obs()
	// the scheduler does sg.Add(1) before its (blocking) hand-over of the next task
	wantSG := c.m.sg
	if c.m.pq == 1 && len(c.m.jobs[c.m.pqJob].ch) > 0 {
		wantSG++
	}
	deadline := time.Now().Add(c26Timeout)
	for spins := 0; ; spins++ {
		got := c.observe()
		if got == want && (!c26WGOK || c26WGCount(&c.p.sg) == wantSG) {
			return got
		}
		if spins < 200 {
			runtime.Gosched()
		} else {
			time.Sleep(50 * time.Microsecond)
		}
		if time.Now().After(deadline) {
			c.r.Violation(c.hangKey(), "pool stuck at [%s]; the repaired-pool mirror expects [%s] (a job never completes / Stop never returns; blocking callbacks entered: %d)", got, want, c.cbBlock.Load())
			c.hung = true
			return got
		}
	}
}

func (c *c26Case) body(t int, fail bool) func() error {
	return func() error {
		c.mu.Lock()
		c.log = append(c.log, c26Ev{0, t})
		c.running[t] = true
		g := c.gates[t]
		c.mu.Unlock()
		<-g
		c.mu.Lock()
		c.log = append(c.log, c26Ev{1, t})
		delete(c.running, t)
		c.mu.Unlock()
		if fail {
			return c26Err{t}
		}
		return nil
	}
}

// c26WaitSchedulerParked returns once every processQueue goroutine is blocked on a channel
// or on sg.Wait (or none exists).
func c26WaitSchedulerParked() {
	for dl := time.Now().Add(c26Timeout); time.Now().Before(dl); {
		parked := true
		for _, blk := range strings.Split(c26AllStacks(), "\n\n") {
			if !strings.Contains(blk, "processQueue.func1") {
				continue
			}
			a, b := strings.Index(blk, "["), strings.Index(blk, "]")
			if a < 0 || b < a {
				parked = false
				continue
			}
			st := strings.SplitN(blk[a+1:b], ",", 2)[0]
			if !strings.HasPrefix(st, "chan ") && !strings.HasPrefix(st, "sema") && !strings.HasPrefix(st, "sync.WaitGroup") {
				parked = false
			}
		}
		if parked {
			return
		}
		runtime.Gosched()
	}
}

// c26BlockedWorkers counts worker goroutines (startWorker) that are parked in their select or
// in the send on stoppedWorkers. Right after Stop returned there must be none: Stop received
// one ack from every worker, and a worker's ack is the last thing it does before returning.
var c26StackBuf = make([]byte, 2<<20)

// c26AllStacks returns the COMPLETE dump of all goroutines: the buffer grows until the dump
// fits (goroutines blocked forever accumulate in a long run — e.g. the Done-callback goroutines
// of jobs answered with ErrShutdown — and a truncated dump would silently hide the scheduler).
func c26AllStacks() string {
	for {
		n := runtime.Stack(c26StackBuf, true)
		if n < len(c26StackBuf) {
			return string(c26StackBuf[:n])
		}
		c26StackBuf = make([]byte, 2*len(c26StackBuf))
	}
}

func c26BlockedWorkers() int {
	cnt := 0
	for _, blk := range strings.Split(c26AllStacks(), "\n\n") {
		if !strings.Contains(blk, "startWorker.func1") {
			continue
		}
		a, b := strings.Index(blk, "["), strings.Index(blk, "]")
		if a < 0 || b < a {
			continue
		}
		st := strings.SplitN(blk[a+1:b], ",", 2)[0]
		if st == "select" || strings.HasPrefix(st, "chan ") {
			cnt++
		}
	}
	return cnt
}

// c26CheckStopped is called right after Stop returned (all pools of this process that were
// created before are stopped too): no worker goroutine may still be waiting.
var c26StopReported bool

func c26CheckStopped(r *verifh.Run, where string) {
	if c26StopReported {
		return // leaked workers of an earlier pool would be counted again
	}
	if n := c26BlockedWorkers(); n > 0 {
		c26StopReported = true
		r.Violation("stop-returned-before-workers-exit", "%s: Stop returned while %d worker goroutine(s) are still parked in select / on stoppedWorkers", where, n)
	}
}

// c26WaitCallbacks waits until the Done callbacks of the given jobs have run (they are
// asynchronous goroutines); returns the jobs whose callback did not run in time.
func c26WaitCallbacks(mu *sync.Mutex, log *[]c26Ev, want map[int]bool) []int {
	deadline := time.Now().Add(2 * time.Second)
	for {
		mu.Lock()
		seen := map[int]bool{}
		for _, ev := range *log {
			if ev.kind == 2 {
				seen[ev.id] = true
			}
		}
		mu.Unlock()
		var missing []int
		for j := range want {
			if !seen[j] {
				missing = append(missing, j)
			}
		}
		if len(missing) == 0 || time.Now().After(deadline) {
			sort.Ints(missing)
			return missing
		}
		time.Sleep(50 * time.Microsecond)
	}
}

// c26CallbackOracle: a job whose result came from the scheduler's normal path has its
// completed channel closed, so its Done callback runs; a job answered with ErrShutdown never
// gets completed closed: its callback never runs (and the goroutine started by Done leaks) —
// Model: `Props.C26.shutdown_job_never_completed`. The property does not promise callbacks
// for shutdown jobs; the behaviour is recorded (counter), a callback that DOES run for a
// shutdown job or is lost for a completed job is a violation.
func c26CallbackOracle(r *verifh.Run, mu *sync.Mutex, log *[]c26Ev, results []string, withCb map[int]bool) {
	want := map[int]bool{}
	for j, res := range results {
		if withCb[j] && res != "shutdown" && res != "" {
			want[j] = true
		}
	}
	for _, j := range c26WaitCallbacks(mu, log, want) {
		r.Violation("callback-lost", "job %d completed (%s) but its Done callback did not run", j, results[j])
	}
	mu.Lock()
	defer mu.Unlock()
	for _, ev := range *log {
		if ev.kind == 2 && ev.id < len(results) && results[ev.id] == "shutdown" {
			r.Violation("callback-ran-for-shutdown-job", "job %d was answered with ErrShutdown but its Done callback ran", ev.id)
		}
	}
	for j, res := range results {
		if withCb[j] && res == "shutdown" {
			r.Count("callback-never-runs-for-shutdown-job")
		}
	}
}

func c26Res(err error) string {
	var te c26Err
	switch {
	case err == nil:
		return "ok"
	case errors.As(err, &te):
		return "err:" + strconv.Itoa(te.t)
	case errors.Is(err, ErrShutdown):
		return "shutdown"
	}
	return "other"
}

func c26WaitJob(j Job) (string, bool) {
	ch := make(chan error, 1)
	go func() { ch <- j.Wait() }()
	select {
	case err := <-ch:
		return c26Res(err), true
	case <-time.After(c26Timeout):
		return "hang", false
	}
}

// finish: Done every job, open every gate, Stop, collect every result; then the oracle.
func (c *c26Case) finish() {
	if c == nil || c.hung {
		return
	}
	// Done every job, release every task, and let follow-up jobs created by callbacks appear
	// (they get Done too) until nothing is in flight: no NewJob may be running when Stop is called
	settleDl := time.Now().Add(c26Timeout)
	for {
		c.observe() // absorbs jobs created from goroutines
		for len(c.m.jobs) < len(c.jobs) {
			c.m.jobs = append(c.m.jobs, &c26MJob{})
		}
		for j, jb := range c.jobs {
			if !c.m.jobs[j].closed {
				c.m.jobs[j].closed = true
				jb.Done(c.cb(j, 0))
			}
		}
		c.mu.Lock()
		for _, g := range c.gates {
			select {
			case <-g:
			default:
				close(g)
			}
		}
		seen := map[int]bool{}
		for _, ev := range c.log {
			if ev.kind == 2 {
				seen[ev.id] = true
			}
		}
		npend := len(c.pends)
		c.mu.Unlock()
		quiet := npend == 0 && c.njStart.Load() == c.njRet.Load()
		for j, jb := range c.jobs {
			if !c.waited[j] && len(jb.result) == 0 {
				quiet = false
			}
			if c.jobCb[j] == 2 && !seen[j] {
				select {
				case <-jb.completed: // completed: its callback (which calls NewJob) must still come
					quiet = false
				default:
				}
			}
		}
		if quiet && c.njStart.Load() == c.njRet.Load() {
			c.mu.Lock()
			npend = len(c.pends)
			c.mu.Unlock()
			if npend == 0 {
				break
			}
		}
		if time.Now().After(settleDl) {
			c.r.Violation(c.hangKey(), "with every job Done and every task released the pool did not finish its jobs within %v (blocking callbacks entered: %d)", c26Timeout, c.cbBlock.Load())
			c.hung = true
			return
		}
		time.Sleep(50 * time.Microsecond)
	}
	if !c.stopCall {
		c.stopCall = true
		go func() { c.p.Stop(); c.stopRet.Store(true) }()
	}
	deadline := time.Now().Add(c26Timeout)
	for !c.stopRet.Load() {
		if time.Now().After(deadline) {
			c.r.Violation(c.hangKey(), "Stop did not return within %v after all jobs were Done and all tasks released (blocking callbacks entered: %d)", c26Timeout, c.cbBlock.Load())
			c.hung = true
			return
		}
		time.Sleep(50 * time.Microsecond)
	}
	close(c.cbGate) // only now may the blocking callbacks return
	for j, jb := range c.jobs {
		if c.waited[j] {
			continue
		}
		res, ok := c26WaitJob(jb)
		if !ok {
			c.r.Violation("hang", "Wait of job %d did not return after Stop returned", j)
			c.hung = true
			return
		}
		c.results[j] = res
	}
	c26CheckStopped(c.r, "gated case")
	withCb := map[int]bool{}
	for j := range c.jobs {
		withCb[j] = c.useCb || c.jobCb[j] != 0 // every job got Done (by a `done` op or just above)
	}
	c26CallbackOracle(c.r, &c.mu, &c.log, c.results, withCb)
	c.mu.Lock()
	defer c.mu.Unlock()
	c26Oracle(c.r, c.m.taskJob, c.m.taskFail, c.log, c.results)
}

// c26Oracle evaluates the property on a log. results[j] is what Wait returned.
func c26Oracle(r *verifh.Run, taskJob []int, taskFail []bool, log []c26Ev, results []string) {
	nt := len(taskJob)
	startAt, endAt := make([]int, nt), make([]int, nt)
	for i := range startAt {
		startAt[i], endAt[i] = -1, -1
	}
	cbAt := map[int]int{}
	for p, ev := range log {
		switch ev.kind {
		case 0:
			if startAt[ev.id] >= 0 {
				r.Violation("task-twice", "task %d started twice", ev.id)
			}
			startAt[ev.id] = p
		case 1:
			endAt[ev.id] = p
		case 2:
			cbAt[ev.id] = p
		}
	}
	firstStart, lastEnd := map[int]int{}, map[int]int{}
	for j, res := range results {
		anyFail, failedRan, all, none := false, false, true, true
		for t := 0; t < nt; t++ {
			if taskJob[t] != j {
				continue
			}
			if taskFail[t] {
				anyFail = true
			}
			if startAt[t] >= 0 {
				none = false
				if endAt[t] < 0 {
					r.Violation("task-unfinished", "job %d reported %s while task %d was still running", j, res, t)
				}
				if taskFail[t] {
					failedRan = true
				}
				if v, ok := firstStart[j]; !ok || startAt[t] < v {
					firstStart[j] = startAt[t]
				}
				if endAt[t] > lastEnd[j] {
					lastEnd[j] = endAt[t]
				}
				if cb, ok := cbAt[j]; ok && cb < endAt[t] {
					r.Violation("callback-early", "completion callback of job %d ran before task %d ended", j, t)
				}
			} else {
				all = false
			}
		}
		switch {
		case res == "shutdown":
			if !none {
				r.Violation("shutdown-ran-task", "job %d reported shutdown but ran a task", j)
			}
		case res == "ok":
			if failedRan {
				r.Violation("error-lost", "job %d reported ok although an executed task failed", j)
			}
			if !anyFail && !all {
				r.Violation("task-not-run", "job %d had no failing task and reported ok, but not all tasks ran", j)
			}
		case strings.HasPrefix(res, "err:"):
			t, _ := strconv.Atoi(res[4:])
			if !failedRan {
				r.Violation("spurious-error", "job %d reported an error although no executed task failed", j)
			} else if t >= nt || taskJob[t] != j || !taskFail[t] || startAt[t] < 0 {
				r.Violation("wrong-error", "job %d reported the error of task %d, which is not an executed failing task of it", j, t)
			}
			if !anyFail {
				r.Violation("spurious-error", "job %d has no failing task but reported %s", j, res)
			}
		default:
			r.Violation("bad-result", "job %d: result %s", j, res)
		}
	}
	for j := range results {
		for k := j + 1; k < len(results); k++ {
			if fs, ok := firstStart[k]; ok {
				if le, ok2 := lastEnd[j]; ok2 && le > fs {
					r.Violation("jobs-overlap", "a task of job %d started before job %d's tasks had all ended", k, j)
				}
			}
		}
	}
}

func c26Generate(r *verifh.Run) []string {
	g := verifh.NewRNG(r.Seed*1000003 + 17) // decorrelate neighbouring seeds
	lines := []string{
		// corpus: the witness of the confirmed defect (worker exits after seeing the error)
		"pool 1 4", "job", "go 0 1", "go 0 0", "go 0 0", "done 0", "rel 0", "wait 0",
		"pool 2 2", "job", "job", "go 0 1", "go 0 1", "go 0 0", "go 1 0", "done 0", "done 1", "rel 1", "rel 0", "wait 0", "rel 0", "wait 1", "stop",
		// stop with a job in progress and one queued
		"pool 2 2", "job", "go 0 0", "job", "go 1 0", "done 1", "stop", "job", "done 0", "rel 0", "wait 0", "wait 1",
		"serial 0 0 0", "serial 0 1 0 1", "serial", "serial 1",
		// several jobs, one after the other, on the same SerialWorkers, failures in more than one
		"serial 0 1 0 / 0 0 / 1 0 0 / 0 1 1 0", "serial 1 / 1 0 / 0 0 1",
		// NewJob on a full job queue blocks until the scheduler takes a job; the pool keeps working
		"pool 2 1", "job", "go 0 0", "job", "job", "go 1 0", "job", "done 0", "rel 0", "wait 0", "go 2 0", "done 1", "done 2", "rel 0", "rel 0", "wait 1", "wait 2",
		"pool 1 1", "job", "go 0 1", "go 0 0", "job", "job", "done 0", "done 1", "rel 0", "wait 0", "wait 1", "done 2", "wait 2", "stop",
		// completion callbacks that depend on the pool's progress: a callback that blocks until Stop
		// has returned, and a callback that submits a follow-up job (also onto a full queue); later
		// jobs must still complete and Stop must return
		"pool 2 2", "job", "go 0 0", "done 0 b", "job", "go 1 0", "done 1", "rel 0", "rel 0", "wait 0", "wait 1", "job", "go 2 1", "done 2", "rel 0", "wait 2", "stop",
		"pool 1 1", "job", "go 0 0", "done 0 n", "job", "rel 0", "wait 0", "go 1 0", "done 1 b", "rel 0", "wait 1", "go 2 0", "done 2", "rel 0", "wait 2",
		"pool 2 1", "job", "go 0 0", "done 0 n", "job", "go 1 0", "job", "rel 0", "done 1 n", "rel 0", "wait 0", "wait 1", "done 2", "done 3", "wait 2", "wait 3", "stop",
		// Stop while the scheduler is on a job that was never Done: Stop does not return, the
		// queued jobs are not answered (until the harness Dones the job at the end of the case)
		"pool 3 4", "done 0", "done 0", "rel 23", "go 0 0", "go 0 0", "wait 0", "wait 0", "job", "job", "go 1 1", "job", "stop",
		"pool 13 3", "wait 0", "job", "done 0", "rel 19", "job", "job", "rel 14", "go 0 0", "go 2 0", "rel 24", "rel 19", "done 2", "rel 10", "done 2", "stop",
	}
	ncases := r.N(1200, 30000)
	for c := 0; c < ncases; c++ {
		w := 1 + g.Intn(3)
		if g.Chance(40) {
			w = 1 + g.Intn(16)
		}
		mj := 1 + g.Intn(4)
		if g.Chance(45) {
			mj = 1 // small job queues: NewJob finds the queue full
		}
		lines = append(lines, fmt.Sprintf("pool %d %d", w, mj))
		nj := 0
		failing := g.Chance(50)
		nops := 10 + g.Intn(40)
		for i := 0; i < nops; i++ {
			x := g.Intn(100)
			pick := 0
			if nj > 0 {
				pick = g.Intn(nj)
				if g.Chance(50) {
					pick = nj - 1
				}
			}
			switch {
			case x < 16:
				lines = append(lines, "job")
				nj++
			case x < 45:
				f := 0
				if failing && g.Chance(25) {
					f = 1
				}
				lines = append(lines, fmt.Sprintf("go %d %d", pick, f))
			case x < 58:
				switch y := g.Intn(100); {
				case y < 15:
					lines = append(lines, fmt.Sprintf("done %d b", pick))
				case y < 27:
					lines = append(lines, fmt.Sprintf("done %d n", pick))
				default:
					lines = append(lines, fmt.Sprintf("done %d", pick))
				}
			case x < 85:
				lines = append(lines, fmt.Sprintf("rel %d", g.Intn(32)))
			case x < 97:
				lines = append(lines, fmt.Sprintf("wait %d", pick))
			default:
				lines = append(lines, "stop")
			}
		}
		if g.Chance(50) {
			for j := 0; j < nj; j++ {
				lines = append(lines, fmt.Sprintf("done %d", j))
			}
			for i := 0; i < 12; i++ {
				lines = append(lines, fmt.Sprintf("rel %d", g.Intn(32)))
			}
			for j := 0; j < nj; j++ {
				lines = append(lines, fmt.Sprintf("wait %d", j))
			}
		}
		if c%10 == 0 {
			l := "serial"
			for k, nj := 0, 1+g.Intn(4); k < nj; k++ {
				if k > 0 {
					l += " /"
				}
				for i, n := 0, g.Intn(6); i < n; i++ {
					if g.Chance(25) {
						l += " 1"
					} else {
						l += " 0"
					}
				}
			}
			lines = append(lines, l)
		}
	}
	// stress: free-running rounds of {job whose tasks all fail at the same moment, clean job}
	// (measured on the seeded late-error change with the lock contention below, load average
	// 15-40 on 16 cores: a 500-round line hits in 25-38 of 40 tries for every worker count,
	// i.e. first hit after ~170-500 rounds; the quick budget is 4100 rounds in 10 pools, ~2-5 s)
	for _, wr := range [][2]int{{32, 500}, {2, 500}, {64, 300}, {5, 400}, {16, 400}, {32, 500}, {3, 400},
		{9, 300}, {48, 300}, {2, 500}} {
		rounds := wr[1]
		if r.Thorough() {
			rounds *= 12
		}
		lines = append(lines, fmt.Sprintf("stress %d %d", wr[0], rounds))
	}
	for c, n := 0, r.N(300, 6000); c < n; c++ {
		lines = append(lines, fmt.Sprintf("free %d %d %d", g.U64()%1000000007, 1+g.Intn(16), 1+g.Intn(6)))
	}
	return lines
}

func TestVerifC26(t *testing.T) {
	r := verifh.Start("C26")
	defer r.Finish()
	if !c26WGOK {
		r.Count("waitgroup-introspection-off")
	}
	lines := r.ReplayLines()
	if lines == nil {
		lines = c26Generate(r)
	}
	var c *c26Case
	npools := 0
	broken := false
	for _, l := range lines {
		if broken {
			break // a hang was reported: goroutines of that pool are stuck
		}
		f := verifh.Fields(l)
		if len(f) == 0 {
			continue
		}
		atoi := func(s string) int {
			v, err := strconv.Atoi(s)
			if err != nil || v < 0 {
				return -1
			}
			return v
		}
		switch {
		case f[0] == "pool" && len(f) == 3:
			w, mj := atoi(f[1]), atoi(f[2])
			if w < 1 || w > 64 || mj < 1 || mj > 64 {
				r.Emit(l, "bad-op")
				continue
			}
			c.finish()
			if c != nil && c.hung {
				broken = true
				continue
			}
			c = &c26Case{r: r, running: map[int]bool{}, m: c26NewMirror(w, mj), cbGate: make(chan struct{})}
			npools++
			c.useCb = npools <= 12 || npools%6 == 0
			c.p = NewParallel(w, mj).(*ParallelWorkers)
			r.Emit(l, "ok")
			r.Count("workers:" + strconv.Itoa(w))
		case f[0] == "serial":
			ok := true
			for _, b := range f[1:] {
				if b != "0" && b != "1" && b != "/" {
					ok = false
				}
			}
			if !ok {
				r.Emit(l, "bad-op")
				continue
			}
			r.Emit(l, c26Serial(r, f[1:]))
		case f[0] == "stress" && len(f) == 3:
			c.finish()
			if c != nil && c.hung {
				broken = true
				continue
			}
			c = nil
			wk, rounds := atoi(f[1]), atoi(f[2])
			if wk < 2 || wk > 64 || rounds < 1 || rounds > 1000000 {
				r.Emit(l, "bad-op")
				continue
			}
			r.Emit(l, "ok")
			if !c26Stress(r, wk, rounds) {
				broken = true
			}
		case f[0] == "free" && len(f) == 4:
			c.finish()
			if c != nil && c.hung {
				broken = true
				continue
			}
			c = nil
			if !c26Free(r, f[1:]) {
				r.Emit(l, "bad-op")
				continue
			}
			r.Emit(l, "ok")
		case c == nil:
			r.Emit(l, "bad-op")
		case f[0] == "job" && len(f) == 1:
			if c.m.shouldShutdown {
				_, err := c.p.NewJob(32)
				if !errors.Is(err, ErrShutdown) {
					r.Violation("newjob-after-stop", "NewJob after Stop returned %v, want ErrShutdown", err)
				}
				r.Emit(l, "shutdown "+c.quiesce())
				continue
			}
			if c.m.pending > 0 {
				r.Emit(l, "busy")
				continue
			}
			if len(c.m.queue) >= c.m.maxJobs && c.m.unfiredCb() {
				// two NewJob calls blocked at the same time would enter the queue in an order
				// the harness cannot observe: at most one goroutine NewJob is in flight
				r.Emit(l, "busy")
				continue
			}
			if len(c.m.queue) >= c.m.maxJobs {
				// the queue is full: NewJob blocks on `w.queue <- j` (without holding anything) until
				// the scheduler takes a job; everything else must keep working meanwhile
				c.m.pending++
				cc := c
				cc.njStart.Add(1)
				go func() {
					jb, err := cc.p.NewJob(32)
					cc.mu.Lock()
					cc.pends = append(cc.pends, &c26Pend{jb, err})
					cc.mu.Unlock()
					cc.njRet.Add(1)
				}()
				r.Emit(l, "pending "+c.quiesce())
				r.Count("newjob-on-full-queue")
				continue
			}
			jb, err := c.p.NewJob(32)
			if err != nil {
				r.Violation("newjob-error", "NewJob returned %v before Stop", err)
				r.Emit(l, "error")
				continue
			}
			id := len(c.jobs)
			c.jobs = append(c.jobs, jb.(*ParallelJob))
			c.waited = append(c.waited, false)
			c.results = append(c.results, "")
			c.m.jobs = append(c.m.jobs, &c26MJob{})
			c.m.queue = append(c.m.queue, id)
			c.m.settle()
			r.Emit(l, fmt.Sprintf("j=%d %s", id, c.quiesce()))
		case f[0] == "go" && len(f) == 3 && (f[2] == "0" || f[2] == "1"):
			j := atoi(f[1])
			switch {
			case j < 0:
				r.Emit(l, "bad-op")
			case j >= len(c.jobs):
				r.Emit(l, "nojob")
			case c.m.jobs[j].closed:
				r.Emit(l, "closed")
			case len(c.m.jobs[j].ch) >= 32:
				r.Emit(l, "full")
			default:
				t := len(c.gates)
				fail := f[2] == "1"
				c.mu.Lock()
				c.gates = append(c.gates, make(chan struct{}))
				c.mu.Unlock()
				c.m.taskJob = append(c.m.taskJob, j)
				c.m.taskFail = append(c.m.taskFail, fail)
				c.m.jobs[j].ch = append(c.m.jobs[j].ch, t)
				c.jobs[j].Go(c.body(t, fail))
				c.m.settle()
				r.Emit(l, fmt.Sprintf("t=%d %s", t, c.quiesce()))
				if fail {
					r.Count("failing-task")
				}
			}
		case f[0] == "done" && (len(f) == 2 || (len(f) == 3 && (f[2] == "b" || f[2] == "n"))):
			j := atoi(f[1])
			kind := 0
			if len(f) == 3 && f[2] == "b" {
				kind = 1 // callback blocks until Stop has returned
			} else if len(f) == 3 {
				kind = 2 // callback submits a follow-up job
			}
			switch {
			case j < 0:
				r.Emit(l, "bad-op")
			case j >= len(c.jobs):
				r.Emit(l, "nojob")
			case c.m.jobs[j].closed:
				r.Emit(l, "closed")
			case kind == 2 && (c.m.pending > 0 || c.m.unfiredCb()):
				r.Emit(l, "busy") // see `job`: at most one goroutine NewJob in flight
			default:
				c.m.jobs[j].closed = true
				c.m.jobs[j].cbNew = kind == 2
				c.jobs[j].Done(c.cb(j, kind))
				c.m.settle()
				r.Emit(l, c.quiesce())
				if kind > 0 {
					r.Count(fmt.Sprintf("callback-kind:%d", kind))
				}
			}
		case f[0] == "rel" && len(f) == 2:
			rr := atoi(f[1])
			if rr < 0 {
				r.Emit(l, "bad-op")
				continue
			}
			run := c.m.running()
			if len(run) == 0 {
				r.Emit(l, "none")
				continue
			}
			t := run[rr%len(run)]
			c.m.finish(t)
			c.mu.Lock()
			close(c.gates[t])
			c.mu.Unlock()
			c.m.settle()
			r.Emit(l, fmt.Sprintf("rel=%d %s", t, c.quiesce()))
		case f[0] == "stop" && len(f) == 1:
			if c.stopCall {
				r.Emit(l, "again")
				continue
			}
			if c.m.pending > 0 {
				// Stop while a NewJob is blocked in its send is outside the modelled protocol
				// (close of the queue under a blocked sender panics in the real code)
				r.Emit(l, "busy")
				continue
			}
			c.stopCall = true
			cc := c
			// the scheduler reads shouldShutdown a moment after it received a job; that window
			// has no observable effect, so make sure the scheduler goroutine is parked first
			c26WaitSchedulerParked()
			go func() { cc.p.Stop(); cc.stopRet.Store(true) }()
			// NewJob concurrent with Stop is outside the modelled protocol (the real code can
			// panic with send-on-closed-channel): wait until Stop has set its flag
			for dl := time.Now().Add(c26Timeout); time.Now().Before(dl); {
				c.p.lock.Lock()
				set := c.p.shouldShutdown
				c.p.lock.Unlock()
				if set {
					break
				}
				runtime.Gosched()
			}
			c.m.shouldShutdown, c.m.stop = true, 1
			c.m.settle()
			r.Emit(l, c.quiesce())
			r.Count("stop")
		case f[0] == "wait" && len(f) == 2:
			j := atoi(f[1])
			switch {
			case j < 0:
				r.Emit(l, "bad-op")
			case j >= len(c.jobs):
				r.Emit(l, "nojob")
			case c.m.jobs[j].result == "":
				r.Emit(l, "notready")
			default:
				res, ok := c26WaitJob(c.jobs[j])
				if !ok {
					r.Violation("hang", "Wait of job %d did not return although its result should be available", j)
					c.hung = true
					r.Emit(l, "hang")
					break
				}
				c.waited[j], c.results[j] = true, res
				c.m.jobs[j].result = ""
				c.m.settle()
				r.Emit(l, fmt.Sprintf("res=%s %s", res, c.quiesce()))
				r.Count("res:" + strings.SplitN(res, ":", 2)[0])
				r.Distinct(fmt.Sprintf("%d|%v|%v|%s", c.m.workers, c.m.taskJob, c.m.taskFail, res))
			}
		default:
			r.Emit(l, "bad-op")
		}
		if c != nil && c.hung {
			broken = true
		}
	}
	if !broken {
		c.finish()
	}
}

// c26Serial runs a sequence of jobs (groups of fail bits separated by "/") one after the other
// on ONE SerialWorkers: each job is created after the previous one was waited on.
func c26Serial(r *verifh.Run, words []string) string {
	var groups [][]string
	cur := []string{}
	for _, b := range words {
		if b == "/" {
			groups = append(groups, cur)
			cur = []string{}
		} else {
			cur = append(cur, b)
		}
	}
	groups = append(groups, cur)
	w := NewSerial()
	var outs []string
	for gi, bits := range groups {
		j, err := w.NewJob(len(bits))
		if err != nil {
			r.Violation("serial-newjob", "SerialWorkers.NewJob: %v", err)
			return "error"
		}
		var ran []int
		count := map[int]int{}
		for i, b := range bits {
			i, fail := i, b == "1"
			j.Go(func() error {
				ran = append(ran, i)
				count[i]++
				if fail {
					return c26Err{i}
				}
				return nil
			})
		}
		cb := false
		j.Done(func() { cb = true })
		res := c26Res(j.Wait())
		// oracle (per job)
		failedRan, anyFail, firstFail := false, false, -1
		for i, b := range bits {
			if b == "1" {
				anyFail = true
				if firstFail < 0 {
					firstFail = i
				}
				if count[i] > 0 {
					failedRan = true
				}
			}
			if count[i] > 1 {
				r.Violation("task-twice", "serial job %d: task %d ran twice", gi, i)
			}
		}
		if !anyFail && len(ran) != len(bits) {
			r.Violation("task-not-run", "serial job %d: not all tasks ran", gi)
		}
		if (res != "ok") != failedRan {
			r.Violation("error-lost", "serial job %d of a sequence on one SerialWorkers: result %s, executed failing task: %v", gi, res, failedRan)
		}
		if firstFail >= 0 && len(ran) > firstFail+1 {
			r.Violation("task-after-failure", "serial job %d: %d task(s) ran after task %d had failed", gi, len(ran)-firstFail-1, firstFail)
		}
		if !cb {
			r.Violation("callback-early", "serial: Done callback not called")
		}
		outs = append(outs, fmt.Sprintf("res=%s ran=%s", res, c26Set(ran)))
	}
	w.Stop()
	return strings.Join(outs, " ; ")
}

// c26Stress: no gates, real timing. Each round submits a job whose tasks all fail at the
// same moment (start barrier), immediately followed by a clean job on the same pool. On
// correct code the outcome is deterministic: the failing job reports an error of one of its
// tasks, the clean job reports nil and runs every task. A worker that lets the scheduler see
// the job as finished before the error is recorded loses the error and leaks it into the
// next job. Returns false if the pool hung.
func c26Stress(r *verifh.Run, wk, rounds int) bool {
	p := NewParallel(wk, 4)
	lost, leaked := 0, 0
	// contention on the pool's lock (the harness is in-package): goroutines that keep taking
	// and releasing w.lock make a worker that still has to record its error likely to block
	// there, which is when the order "completion count first, error second" is exposed even
	// on a loaded machine. Harmless for correct code (outcomes stay deterministic).
	pw := p.(*ParallelWorkers)
	var stopHammer atomic.Bool
	var hammers sync.WaitGroup
	for h := 0; h < 2; h++ {
		hammers.Add(1)
		go func() {
			defer hammers.Done()
			x := 0
			for n := 0; !stopHammer.Load(); n++ {
				pw.lock.Lock()
				for k := 0; k < 150; k++ {
					x += k
				}
				pw.lock.Unlock()
				if n%64 == 0 {
					runtime.Gosched()
				}
			}
			_ = x
		}()
	}
	defer func() { stopHammer.Store(true); hammers.Wait() }()
	for i := 0; i < rounds; i++ {
		var arrived atomic.Int32
		fj, err := p.NewJob(wk)
		if err != nil {
			r.Violation("newjob-error", "stress: NewJob returned %v", err)
			return true
		}
		for k := 0; k < wk; k++ {
			t := k
			fj.Go(func() error {
				arrived.Add(1)
				deadline := time.Now().Add(5 * time.Millisecond)
				for int(arrived.Load()) < wk && time.Now().Before(deadline) {
					runtime.Gosched()
				}
				return c26Err{t}
			})
		}
		fj.Done(nil)
		var ran atomic.Int32
		cj, err := p.NewJob(wk)
		if err != nil {
			r.Violation("newjob-error", "stress: NewJob returned %v", err)
			return true
		}
		for k := 0; k < wk; k++ {
			cj.Go(func() error { ran.Add(1); return nil })
		}
		cj.Done(nil)
		fres, ok1 := c26WaitJob(fj)
		cres, ok2 := c26WaitJob(cj)
		if !ok1 || !ok2 {
			r.Violation("hang", "stress workers=%d round %d: Wait did not return", wk, i)
			return false
		}
		if !strings.HasPrefix(fres, "err:") && lost == 0 {
			lost++
			r.Violation("error-lost", "stress workers=%d round %d: every task of the job failed but Wait returned %s", wk, i, fres)
		}
		if (cres != "ok" || int(ran.Load()) != wk) && leaked == 0 {
			leaked++
			r.Violation("error-leaks-into-next-job", "stress workers=%d round %d: the job after a failing job has no failing task but Wait returned %s and %d of %d tasks ran", wk, i, cres, ran.Load(), wk)
		}
		if lost+leaked > 0 {
			break
		}
	}
	done := make(chan struct{})
	go func() { p.Stop(); close(done) }()
	select {
	case <-done:
	case <-time.After(c26Timeout):
		r.Violation("hang", "stress workers=%d: Stop did not return", wk)
		return false
	}
	c26CheckStopped(r, fmt.Sprintf("stress workers=%d", wk))
	r.Count("stress-pools")
	return true
}

// c26Free: free-running jobs (real timing, random delays, failures, Stop while jobs run).
func c26Free(r *verifh.Run, f []string) bool {
	seed, e0 := strconv.ParseUint(f[0], 10, 64)
	w, e1 := strconv.Atoi(f[1])
	nj, e2 := strconv.Atoi(f[2])
	if e0 != nil || e1 != nil || e2 != nil || w < 1 || w > 64 || nj < 1 || nj > 32 {
		return false
	}
	g := verifh.NewRNG(seed)
	useCb := seed%6 == 0 // callbacks of shutdown jobs block forever: only in some cases
	p := NewParallel(w, nj+1)
	var mu sync.Mutex
	var log []c26Ev
	var taskJob []int
	var taskFail []bool
	var jobs []Job
	stopEarly := g.Chance(40) // Stop right after submission, while jobs are queued / running
	stopRet := make(chan struct{})
	stopCalled := false
	callStop := func() {
		stopCalled = true
		go func() { p.Stop(); close(stopRet) }()
	}
	refusedOK := true
	for j := 0; j < nj; j++ {
		// (NewJob concurrent with Stop's close(queue) is outside the modelled protocol and
		// can panic in the real code: all jobs are submitted before Stop is called)
		jb, err := p.NewJob(64)
		if err != nil {
			refusedOK = false
			continue
		}
		jid := len(jobs)
		jobs = append(jobs, jb)
		failing := g.Chance(40)
		for k, n := 0, g.Intn(24); k < n; k++ {
			t := len(taskJob)
			fail := failing && g.Chance(15)
			taskJob = append(taskJob, jid)
			taskFail = append(taskFail, fail)
			d := g.Intn(4)
			jb.Go(func() error {
				mu.Lock()
				log = append(log, c26Ev{0, t})
				mu.Unlock()
				switch d {
				case 1:
					runtime.Gosched()
				case 2:
					time.Sleep(time.Duration(1+t%5) * time.Microsecond)
				}
				mu.Lock()
				log = append(log, c26Ev{1, t})
				mu.Unlock()
				if fail {
					return c26Err{t}
				}
				return nil
			})
		}
		if useCb {
			jb.Done(func() { mu.Lock(); log = append(log, c26Ev{2, jid}); mu.Unlock() })
		} else {
			jb.Done(nil)
		}
	}
	if !refusedOK {
		r.Violation("newjob-error", "NewJob failed before Stop")
	}
	if stopEarly {
		callStop()
	}
	results := make([]string, len(jobs))
	for j, jb := range jobs {
		res, ok := c26WaitJob(jb)
		if !ok {
			r.Violation("hang", "free-running case seed=%d workers=%d: Wait of job %d did not return", seed, w, j)
			return true
		}
		results[j] = res
	}
	if !stopCalled {
		callStop()
	}
	select {
	case <-stopRet:
	case <-time.After(c26Timeout):
		r.Violation("hang", "free-running case seed=%d workers=%d: Stop did not return", seed, w)
		return true
	}
	c26CheckStopped(r, fmt.Sprintf("free-running case seed=%d workers=%d", seed, w))
	if _, err := p.NewJob(1); !errors.Is(err, ErrShutdown) {
		r.Violation("newjob-after-stop", "NewJob after Stop returned %v, want ErrShutdown", err)
	}
	withCb := map[int]bool{}
	for j := range jobs {
		withCb[j] = useCb
	}
	c26CallbackOracle(r, &mu, &log, results, withCb)
	mu.Lock()
	defer mu.Unlock()
	c26Oracle(r, taskJob, taskFail, log, results)
	r.Count("free")
	return true
}
