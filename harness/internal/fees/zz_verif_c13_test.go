package fees

import (
	"encoding/binary"
	"fmt"
	"math/big"
	"strconv"
	"strings"
	"testing"

	"github.com/ava-labs/hypersdk/fees"
	"github.com/ava-labs/hypersdk/internal/verifh"
	"github.com/ava-labs/hypersdk/internal/window"
)

type c13Rules struct{ target, denom, min, max fees.Dimensions }

func (r *c13Rules) GetMinUnitPrice() fees.Dimensions               { return r.min }
func (r *c13Rules) GetUnitPriceChangeDenominator() fees.Dimensions { return r.denom }
func (r *c13Rules) GetWindowTargetUnits() fees.Dimensions          { return r.target }
func (r *c13Rules) GetMaxBlockUnits() fees.Dimensions              { return r.max }

var (
	c13Max = new(big.Int).SetUint64(^uint64(0))
	c13One = big.NewInt(1)
)

func c13b(x uint64) *big.Int { return new(big.Int).SetUint64(x) }

// c13Total is the window usage in exact arithmetic, saturating at MaxUint64: the window is
// rolled by `since` seconds and the parent's consumption is added into slot WindowSize-1-since.
func c13Total(w [window.WindowSize]uint64, consumed, since uint64) *big.Int {
	tot := new(big.Int)
	if since <= window.WindowSize {
		for i := int(since); i < window.WindowSize; i++ {
			tot.Add(tot, c13b(w[i]))
		}
	}
	if since < window.WindowSize {
		// slot WindowSize-1-since of the rolled window is slot WindowSize-1 of the old one
		slot := new(big.Int).Add(c13b(w[window.WindowSize-1]), c13b(consumed))
		if slot.Cmp(c13Max) > 0 {
			tot.Sub(tot, c13b(w[window.WindowSize-1]))
			tot.Add(tot, c13Max)
		} else {
			tot.Add(tot, c13b(consumed))
		}
	}
	if tot.Cmp(c13Max) > 0 {
		tot.Set(c13Max)
	}
	return tot
}

// c13Spec is the fee-market rule of the property in exact arithmetic (target, denom > 0).
// cls names the 64-bit product that would not fit, if any.
func c13Spec(total *big.Int, price, target, denom, minPrice, since uint64) (next *big.Int, cls string) {
	p, t := c13b(price), c13b(target)
	next = new(big.Int).Set(p)
	two64 := new(big.Int).Lsh(c13One, 64)
	switch total.Cmp(t) {
	case 1:
		delta := new(big.Int).Sub(total, t)
		x := new(big.Int).Mul(p, delta)
		if x.Cmp(two64) >= 0 {
			cls = "price-times-delta-exceeds-64-bits"
		}
		bd := x.Div(x, t)
		bd.Div(bd, c13b(denom))
		if bd.Cmp(c13One) < 0 {
			bd.Set(c13One)
		}
		next.Add(next, bd)
		if next.Cmp(c13Max) > 0 {
			next.Set(c13Max)
		}
	case -1:
		delta := new(big.Int).Sub(t, total)
		x := new(big.Int).Mul(p, delta)
		if x.Cmp(two64) >= 0 {
			cls = "price-times-delta-exceeds-64-bits"
		}
		bd := x.Div(x, t)
		bd.Div(bd, c13b(denom))
		if bd.Cmp(c13One) < 0 {
			bd.Set(c13One)
		}
		if since > window.WindowSize {
			bd.Mul(bd, c13b(since/window.WindowSize))
			if bd.Cmp(two64) >= 0 && cls == "" {
				cls = "elapsed-scaling-exceeds-64-bits"
			}
		}
		next.Sub(next, bd)
		if next.Sign() < 0 {
			next.SetInt64(0)
		}
	}
	if next.Cmp(c13b(minPrice)) < 0 {
		next = c13b(minPrice)
	}
	return next, cls
}

func c13Win(w [window.WindowSize]uint64) window.Window {
	var out window.Window
	for i, v := range w {
		binary.BigEndian.PutUint64(out[i*8:], v)
	}
	return out
}

func c13Slots(w window.Window) (out [window.WindowSize]uint64) {
	for i := range out {
		out[i] = binary.BigEndian.Uint64(w[i*8:])
	}
	return out
}

func c13Csv(xs []uint64) string {
	ss := make([]string, len(xs))
	for i, x := range xs {
		ss[i] = strconv.FormatUint(x, 10)
	}
	return strings.Join(ss, ",")
}

// c13Call evaluates the price/window step of one dimension (computeNextPriceWindow) through
// the exported Manager.ComputeNext, so that the harness does not depend on how the package
// splits that step internally: dimension 0 of a manager holds (price, window, consumed), its
// timestamp is -since (two's complement) and the call is made at time 0, hence the elapsed
// seconds are exactly `since` for every 64-bit value. A run-time panic is reported.
func c13Call(w window.Window, consumed, price, target, denom, minP, since uint64) (p uint64, nw window.Window, panicked string) {
	defer func() {
		if e := recover(); e != nil {
			panicked = fmt.Sprint(e)
		}
	}()
	raw := make([]byte, 8+fees.FeeDimensions*dimensionStateLen)
	binary.BigEndian.PutUint64(raw[0:8], uint64(0)-since)
	binary.BigEndian.PutUint64(raw[8:16], price)
	copy(raw[16:16+window.WindowSliceSize], w[:])
	binary.BigEndian.PutUint64(raw[16+window.WindowSliceSize:], consumed)
	rules := &c13Rules{
		target: fees.Dimensions{target, 1, 1, 1, 1},
		denom:  fees.Dimensions{denom, 1, 1, 1, 1},
		min:    fees.Dimensions{minP, 0, 0, 0, 0},
	}
	m := NewManager(raw).ComputeNext(0, rules)
	return m.UnitPrice(0), m.Window(0), ""
}

func c13Next(m *Manager, t int64, r Rules) (out *Manager, panicked string) {
	defer func() {
		if e := recover(); e != nil {
			panicked = fmt.Sprint(e)
		}
	}()
	return m.ComputeNext(t, r), ""
}

func c13ParseU(ss []string) ([]uint64, bool) {
	out := make([]uint64, len(ss))
	for i, s := range ss {
		v, err := strconv.ParseUint(s, 10, 64)
		if err != nil {
			return nil, false
		}
		out[i] = v
	}
	return out, true
}

// C13: computeNextPriceWindow / ComputeNext follow the fee-market rule in exact arithmetic;
// window roll/sum/update saturate; the manager's bytes decode to what was stored.
func TestVerifC13(t *testing.T) {
	r := verifh.Start("C13")
	defer r.Finish()
	r.RNG = verifh.NewRNG(c13Mix(r.Seed))

	lines := r.ReplayLines()
	if lines == nil {
		lines = c13Generate(r)
	}
	const rawLen = 8 + fees.FeeDimensions*dimensionStateLen
	panicsSeen := map[string]string{}

	for _, l := range lines {
		f := verifh.Fields(l)
		if len(f) == 0 {
			continue
		}
		switch {
		case f[0] == "consts" && len(f) == 1:
			r.Emit(l, fmt.Sprintf("%d %d %d %d", fees.FeeDimensions, window.WindowSize, dimensionStateLen, rawLen))

		case f[0] == "roll" && len(f) == 2+window.WindowSize:
			v, ok := c13ParseU(f[1:])
			if !ok {
				r.Emit(l, "bad-op")
				continue
			}
			var w [window.WindowSize]uint64
			copy(w[:], v[1:])
			got := c13Slots(window.Roll(c13Win(w), v[0]))
			r.Emit(l, "w "+c13Csv(got[:]))
			for i := range got {
				want := uint64(0)
				if v[0] <= window.WindowSize && uint64(i)+v[0] < window.WindowSize {
					want = w[uint64(i)+v[0]]
				}
				if got[i] != want {
					r.Violation("roll-not-shift", "Roll slot %d = %d, want %d: %s", i, got[i], want, l)
					break
				}
			}

		case f[0] == "sum" && len(f) == 1+window.WindowSize:
			v, ok := c13ParseU(f[1:])
			if !ok {
				r.Emit(l, "bad-op")
				continue
			}
			var w [window.WindowSize]uint64
			copy(w[:], v)
			got := window.Sum(c13Win(w))
			r.Emit(l, strconv.FormatUint(got, 10))
			want := new(big.Int)
			for _, x := range w {
				want.Add(want, c13b(x))
			}
			if want.Cmp(c13Max) > 0 {
				want.Set(c13Max)
				r.Count("sum:saturated")
			}
			if want.Cmp(c13b(got)) != 0 {
				r.Violation("sum-not-saturating-sum", "Sum = %d, want %s: %s", got, want, l)
			}

		case f[0] == "update" && len(f) == 3+window.WindowSize:
			v, ok := c13ParseU(f[1:])
			if !ok || v[0] >= window.WindowSize {
				r.Emit(l, "bad-op")
				continue
			}
			var w [window.WindowSize]uint64
			copy(w[:], v[2:])
			ww := c13Win(w)
			window.Update(&ww, int(v[0])*8, v[1])
			got := c13Slots(ww)
			r.Emit(l, "w "+c13Csv(got[:]))
			for i := range got {
				want := c13b(w[i])
				if uint64(i) == v[0] {
					want.Add(want, c13b(v[1]))
					if want.Cmp(c13Max) > 0 {
						want.Set(c13Max)
						r.Count("update:saturated")
					}
				}
				if want.Cmp(c13b(got[i])) != 0 {
					r.Violation("update-not-saturating-add", "Update slot %d = %d, want %s: %s", i, got[i], want, l)
					break
				}
			}

		case f[0] == "cnpw" && len(f) == 7+window.WindowSize:
			v, ok := c13ParseU(f[1:])
			if !ok {
				r.Emit(l, "bad-op")
				continue
			}
			since, consumed, price, target, denom, minP := v[0], v[1], v[2], v[3], v[4], v[5]
			var w [window.WindowSize]uint64
			copy(w[:], v[6:])
			p, nw, pan := c13Call(c13Win(w), consumed, price, target, denom, minP, since)
			if pan != "" {
				r.Emit(l, "panic")
				r.Count("panic")
				// outside the property (it assumes target > 0 and denominator > 0): recorded only
				key := "other"
				switch {
				case target == 0:
					key = "target=0"
				case denom == 0:
					key = "denominator=0"
				}
				panicsSeen[key] = pan
				if key == "other" {
					r.Violation("panic-with-positive-target-and-denominator", "computeNextPriceWindow panicked (%s): %s", pan, l)
				}
				continue
			}
			ns := c13Slots(nw)
			r.Emit(l, strconv.FormatUint(p, 10)+" "+c13Csv(ns[:]))
			if target == 0 || denom == 0 {
				r.Count("no-panic-with-zero-rule")
				continue
			}
			total := c13Total(w, consumed, since)
			want, cls := c13Spec(total, price, target, denom, minP, since)
			switch total.Cmp(c13b(target)) {
			case 1:
				r.Count("rule:increase")
			case -1:
				r.Count("rule:decrease")
			default:
				r.Count("rule:equal")
			}
			if cls != "" {
				r.Count("wide:" + cls)
				r.Distinct(l)
			}
			if p < minP {
				r.Violation("below-min-price", "next price %d < min %d: %s", p, minP, l)
			}
			if want.Cmp(c13b(p)) != 0 {
				key := "price-ne-exact-rule"
				if cls != "" {
					key = cls
				}
				r.Violation(key, "next price %d, exact rule gives %s (window usage %s): %s", p, want, total, l)
			}

		case f[0] == "mono" && len(f) == 8+2*window.WindowSize:
			v, ok := c13ParseU(f[1:])
			if !ok {
				r.Emit(l, "bad-op")
				continue
			}
			since, c1, c2, price, target, denom, minP := v[0], v[1], v[2], v[3], v[4], v[5], v[6]
			var w1, w2 [window.WindowSize]uint64
			copy(w1[:], v[7:7+window.WindowSize])
			copy(w2[:], v[7+window.WindowSize:])
			p1, _, pan1 := c13Call(c13Win(w1), c1, price, target, denom, minP, since)
			p2, _, pan2 := c13Call(c13Win(w2), c2, price, target, denom, minP, since)
			if pan1 != "" || pan2 != "" {
				r.Emit(l, "panic")
				continue
			}
			r.Emit(l, strconv.FormatUint(p1, 10)+" "+strconv.FormatUint(p2, 10))
			if target == 0 || denom == 0 {
				continue
			}
			le := c1 <= c2
			for i := range w1 {
				le = le && w1[i] <= w2[i]
			}
			if le {
				r.Count("mono:ordered")
				if p1 > p2 {
					t1, t2 := c13Total(w1, c1, since), c13Total(w2, c2, since)
					key := "not-monotone-in-usage"
					_, k1 := c13Spec(t1, price, target, denom, minP, since)
					_, k2 := c13Spec(t2, price, target, denom, minP, since)
					if k1 != "" {
						key = k1
					} else if k2 != "" {
						key = k2
					}
					r.Violation(key, "usage %s -> price %d but higher usage %s -> lower price %d: %s", t1, p1, t2, p2, l)
				}
			}

		case f[0] == "new" && len(f) == 1:
			r.Emit(l, verifh.Hex(NewManager(nil).Bytes()))

		case f[0] == "get" && len(f) == 2:
			raw, err := verifh.UnHex(f[1])
			if err != nil || len(raw) != rawLen {
				r.Emit(l, "bad-op")
				continue
			}
			m := NewManager(append([]byte(nil), raw...))
			var sb strings.Builder
			sb.WriteString(strconv.FormatUint(binary.BigEndian.Uint64(m.Bytes()[:8]), 10))
			sb.WriteByte(' ')
			for d := fees.Dimension(0); d < fees.FeeDimensions; d++ {
				if d > 0 {
					sb.WriteByte(';')
				}
				ws := c13Slots(m.Window(d))
				fmt.Fprintf(&sb, "%d,%d,%s", m.UnitPrice(d), m.LastConsumed(d), c13Csv(ws[:]))
			}
			r.Emit(l, sb.String())
			// round trip: re-encoding what was decoded gives the same bytes
			re := make([]byte, 0, rawLen)
			re = binary.BigEndian.AppendUint64(re, binary.BigEndian.Uint64(raw[:8]))
			for d := fees.Dimension(0); d < fees.FeeDimensions; d++ {
				re = binary.BigEndian.AppendUint64(re, m.UnitPrice(d))
				wd := m.Window(d)
				re = append(re, wd[:]...)
				re = binary.BigEndian.AppendUint64(re, m.LastConsumed(d))
			}
			if string(re) != string(raw) || string(m.Bytes()) != string(raw) {
				r.Violation("bytes-roundtrip", "decoded fields do not re-encode to the manager bytes: %s", l)
			}

		case (f[0] == "setp" || f[0] == "setc") && len(f) == 4:
			raw, err := verifh.UnHex(f[1])
			v, ok := c13ParseU(f[2:])
			if err != nil || len(raw) != rawLen || !ok || v[0] >= fees.FeeDimensions {
				r.Emit(l, "bad-op")
				continue
			}
			m := NewManager(append([]byte(nil), raw...))
			before := NewManager(append([]byte(nil), raw...))
			d := fees.Dimension(v[0])
			if f[0] == "setp" {
				m.SetUnitPrice(d, v[1])
			} else {
				m.SetLastConsumed(d, v[1])
			}
			r.Emit(l, verifh.Hex(m.Bytes()))
			// the stored value reads back, everything else is unchanged
			m2 := NewManager(append([]byte(nil), m.Bytes()...))
			for e := fees.Dimension(0); e < fees.FeeDimensions; e++ {
				wp, wc := before.UnitPrice(e), before.LastConsumed(e)
				if e == d && f[0] == "setp" {
					wp = v[1]
				}
				if e == d && f[0] == "setc" {
					wc = v[1]
				}
				if m2.UnitPrice(e) != wp || m2.LastConsumed(e) != wc || m2.Window(e) != before.Window(e) {
					r.Violation("bytes-roundtrip", "after %s dim %d reads price=%d consumed=%d: %s", f[0], e, m2.UnitPrice(e), m2.LastConsumed(e), l)
					break
				}
			}

		case f[0] == "next" && len(f) == 3+3*fees.FeeDimensions:
			ts, err0 := strconv.ParseInt(f[1], 10, 64)
			raw, err := verifh.UnHex(f[2])
			v, ok := c13ParseU(f[3:])
			if err0 != nil || err != nil || len(raw) != rawLen || !ok {
				r.Emit(l, "bad-op")
				continue
			}
			rules := &c13Rules{}
			copy(rules.target[:], v[0:5])
			copy(rules.denom[:], v[5:10])
			copy(rules.min[:], v[10:15])
			m := NewManager(append([]byte(nil), raw...))
			m2, pan := c13Next(m, ts, rules)
			if pan != "" {
				r.Emit(l, "panic")
				r.Count("panic")
				zero := false
				for k := 0; k < fees.FeeDimensions; k++ {
					zero = zero || rules.target[k] == 0 || rules.denom[k] == 0
				}
				if !zero {
					r.Violation("panic-with-positive-target-and-denominator", "ComputeNext panicked (%s): %s", pan, l)
				}
				continue
			}
			r.Emit(l, verifh.Hex(m2.Bytes()))
			if string(m.Bytes()) != string(raw) {
				r.Violation("computenext-mutates-parent", "ComputeNext changed the parent manager: %s", l)
			}
			// the encoded result decodes to exactly the per-dimension results
			last := int64(binary.BigEndian.Uint64(raw[:8]))
			since := uint64(ts/1000 - last)
			m3 := NewManager(append([]byte(nil), m2.Bytes()...))
			if len(m2.Bytes()) != rawLen || binary.BigEndian.Uint64(m2.Bytes()[:8]) != uint64(ts/1000) {
				r.Violation("bytes-roundtrip", "timestamp/length of ComputeNext result: %s", l)
			}
			r.Count(fmt.Sprintf("next:since-class:%s", c13SinceClass(since)))
			for d := fees.Dimension(0); d < fees.FeeDimensions; d++ {
				p, nw, pan := c13Call(m.Window(d), m.LastConsumed(d), m.UnitPrice(d), rules.target[d], rules.denom[d], rules.min[d], since)
				if pan != "" {
					continue
				}
				if m3.UnitPrice(d) != p || m3.Window(d) != nw || m3.LastConsumed(d) != 0 {
					r.Violation("bytes-roundtrip", "dimension %d of the encoded result decodes to price=%d consumed=%d, computed price=%d: %s", d, m3.UnitPrice(d), m3.LastConsumed(d), p, l)
					break
				}
				if rules.target[d] == 0 || rules.denom[d] == 0 {
					continue
				}
				total := c13Total(c13Slots(m.Window(d)), m.LastConsumed(d), since)
				want, cls := c13Spec(total, m.UnitPrice(d), rules.target[d], rules.denom[d], rules.min[d], since)
				if want.Cmp(c13b(p)) != 0 {
					key := "price-ne-exact-rule"
					if cls != "" {
						key = cls
					}
					r.Violation(key, "dimension %d: next price %d, exact rule gives %s: %s", d, p, want, l)
					break
				}
			}

		default:
			r.Emit(l, "bad-op")
		}
	}
	for k, v := range panicsSeen {
		r.Extra("panic["+k+"]", v)
	}
}

func c13SinceClass(s uint64) string {
	switch {
	case s == 0:
		return "0"
	case s < window.WindowSize:
		return "<W"
	case s == window.WindowSize:
		return "=W"
	case s < 1<<32:
		return ">W"
	default:
		return "huge"
	}
}

func c13Since(rng *verifh.RNG) uint64 {
	switch rng.Intn(8) {
	case 0:
		return 0
	case 1, 2:
		return uint64(rng.Intn(window.WindowSize))
	case 3:
		return window.WindowSize - 1 + uint64(rng.Intn(3))
	case 4:
		return window.WindowSize + 1 + uint64(rng.Intn(40))
	case 5:
		return uint64(rng.Intn(100000))
	default:
		return rng.Pick64()
	}
}

func c13Val(rng *verifh.RNG, around uint64) uint64 {
	switch rng.Intn(6) {
	case 0:
		return 0
	case 1:
		return uint64(rng.Intn(2000))
	case 2:
		return around / uint64(1+rng.Intn(12))
	case 3:
		return around
	default:
		return rng.Pick64()
	}
}

// c13Params: price, target, denom, min
func c13Params(rng *verifh.RNG) (price, target, denom, minP uint64) {
	price = rng.Pick64()
	if rng.Intn(3) == 0 {
		price = 1 + uint64(rng.Intn(100000))
	}
	switch rng.Intn(6) {
	case 0:
		target = rng.Pick64()
	case 1:
		target = 1 + uint64(rng.Intn(5))
	case 2:
		target = 0
		if rng.Intn(4) != 0 {
			target = 1000
		}
	default:
		target = 1 + rng.Pick64()>>uint(rng.Intn(40))
	}
	switch rng.Intn(6) {
	case 0:
		denom = rng.Pick64()
	case 1:
		denom = 0
		if rng.Intn(4) != 0 {
			denom = 1
		}
	default:
		denom = 1 + uint64(rng.Intn(64))
	}
	switch rng.Intn(4) {
	case 0:
		minP = rng.Pick64()
	case 1:
		minP = 0
	default:
		minP = 1 + uint64(rng.Intn(100))
	}
	return
}

func c13Window(rng *verifh.RNG, target uint64) (w [window.WindowSize]uint64) {
	mode := rng.Intn(6)
	for i := range w {
		switch mode {
		case 0:
			w[i] = 0
		case 1: // total near the target
			w[i] = target / window.WindowSize
		case 2:
			w[i] = c13Val(rng, target)
		case 3:
			if rng.Intn(3) == 0 {
				w[i] = c13Val(rng, target)
			}
		case 4:
			w[i] = rng.Pick64()
		default:
			w[i] = uint64(rng.Intn(1000))
		}
	}
	if mode == 1 || rng.Intn(4) == 0 {
		w[window.WindowSize-1] += uint64(rng.Intn(5)) - 2
	}
	return w
}

func c13Fmt(op string, head []uint64, ws ...[window.WindowSize]uint64) string {
	var sb strings.Builder
	sb.WriteString(op)
	for _, v := range head {
		sb.WriteByte(' ')
		sb.WriteString(strconv.FormatUint(v, 10))
	}
	for _, w := range ws {
		for _, v := range w {
			sb.WriteByte(' ')
			sb.WriteString(strconv.FormatUint(v, 10))
		}
	}
	return sb.String()
}

func c13RawOf(rng *verifh.RNG, ts uint64, targets fees.Dimensions) []byte {
	raw := make([]byte, 0, 8+fees.FeeDimensions*dimensionStateLen)
	raw = binary.BigEndian.AppendUint64(raw, ts)
	for d := 0; d < fees.FeeDimensions; d++ {
		price := rng.Pick64()
		if rng.Intn(2) == 0 {
			price = 1 + uint64(rng.Intn(100000))
		}
		raw = binary.BigEndian.AppendUint64(raw, price)
		w := c13Window(rng, targets[d])
		for _, v := range w {
			raw = binary.BigEndian.AppendUint64(raw, v)
		}
		raw = binary.BigEndian.AppendUint64(raw, c13Val(rng, targets[d]))
	}
	return raw
}

func c13Generate(r *verifh.Run) []string {
	rng := r.RNG
	var z [window.WindowSize]uint64
	at := func(slot int, v uint64) [window.WindowSize]uint64 { w := z; w[slot] = v; return w }
	lines := []string{"consts", "new"}
	// corpus: the wrap-around witnesses (price 2^62, target 1000: usage 1001 vs 1005) and
	// the behaviour with a zero target / denominator
	p62 := uint64(1) << 62
	lines = append(lines,
		c13Fmt("cnpw", []uint64{1, 1, p62, 1000, 2, 1}, at(9, 1000)),
		c13Fmt("cnpw", []uint64{1, 5, p62, 1000, 2, 1}, at(9, 1000)),
		c13Fmt("mono", []uint64{1, 1, 5, p62, 1000, 2, 1}, at(9, 1000), at(9, 1000)),
		c13Fmt("mono", []uint64{0, 0, 0, 1 << 40, 1 << 20, 1, 0}, at(9, 1<<20+1<<24-1), at(9, 1<<20+1<<24)),
		c13Fmt("cnpw", []uint64{1 << 62, 0, ^uint64(0), 100, 1, 0}, z),
		c13Fmt("cnpw", []uint64{1<<62 + 10, 0, 1 << 63, 100, 1, 0}, z),
		c13Fmt("cnpw", []uint64{0, 5, 100, 0, 2, 1}, z),
		c13Fmt("cnpw", []uint64{0, 0, 100, 0, 2, 1}, z),
		c13Fmt("cnpw", []uint64{0, 5, 100, 10, 0, 1}, z),
		c13Fmt("cnpw", []uint64{0, 50, 100, 10, 0, 1}, z),
		c13Fmt("cnpw", []uint64{0, 10, 100, 10, 0, 1}, z),
	)
	n := r.N(9000, 250000)
	for it := 0; it < n; it++ {
		price, target, denom, minP := c13Params(rng)
		since := c13Since(rng)
		switch k := rng.Intn(20); {
		case k < 9:
			w := c13Window(rng, target)
			lines = append(lines, c13Fmt("cnpw", []uint64{since, c13Val(rng, target), price, target, denom, minP}, w))
		case k < 13:
			w1 := c13Window(rng, target)
			w2 := w1
			c1 := c13Val(rng, target)
			c2 := c1
			// raise some entries (mostly by little, so that both stay on the same side of the target)
			for i := range w2 {
				if rng.Intn(3) == 0 {
					add := uint64(rng.Intn(50))
					if rng.Intn(4) == 0 {
						add = rng.Pick64()
					}
					if w2[i]+add >= w2[i] {
						w2[i] += add
					}
				}
			}
			if rng.Intn(2) == 0 {
				add := uint64(rng.Intn(50))
				if c2+add >= c2 {
					c2 += add
				}
			}
			lines = append(lines, c13Fmt("mono", []uint64{since, c1, c2, price, target, denom, minP}, w1, w2))
		case k < 14:
			lines = append(lines, c13Fmt("roll", []uint64{since}, c13Window(rng, target)))
		case k < 15:
			lines = append(lines, c13Fmt("sum", nil, c13Window(rng, target)))
		case k < 16:
			lines = append(lines, c13Fmt("update", []uint64{uint64(rng.Intn(window.WindowSize)), rng.Pick64()}, c13Window(rng, target)))
		default:
			var targets, denoms, mins fees.Dimensions
			for d := range targets {
				_, targets[d], denoms[d], mins[d] = c13Params(rng)
				if rng.Intn(8) != 0 {
					if targets[d] == 0 {
						targets[d] = 1000
					}
					if denoms[d] == 0 {
						denoms[d] = 48
					}
				}
			}
			var ts uint64
			switch rng.Intn(4) {
			case 0:
				ts = rng.Pick64()
			default:
				ts = 1_700_000_000 + uint64(rng.Intn(1000))
			}
			raw := c13RawOf(rng, ts, targets)
			var cur int64
			switch rng.Intn(6) {
			case 0:
				cur = int64(rng.Pick64())
			case 1:
				cur = int64(ts)*1000 - int64(rng.Intn(5000))
			default:
				cur = (int64(ts)+int64(c13Since(rng)%100000))*1000 + int64(rng.Intn(1000))
			}
			hexRaw := verifh.Hex(raw)
			var sb strings.Builder
			fmt.Fprintf(&sb, "next %d %s", cur, hexRaw)
			for _, dd := range []fees.Dimensions{targets, denoms, mins} {
				for _, v := range dd {
					sb.WriteByte(' ')
					sb.WriteString(strconv.FormatUint(v, 10))
				}
			}
			lines = append(lines, sb.String())
			switch rng.Intn(4) {
			case 0:
				lines = append(lines, "get "+hexRaw)
			case 1:
				lines = append(lines, fmt.Sprintf("setp %s %d %d", hexRaw, rng.Intn(fees.FeeDimensions), rng.Pick64()))
			case 2:
				lines = append(lines, fmt.Sprintf("setc %s %d %d", hexRaw, rng.Intn(fees.FeeDimensions), rng.Pick64()))
			}
		}
	}
	return lines
}

// c13Mix decorrelates seeds: verifh.NewRNG(k+1) is NewRNG(k)'s stream shifted by one draw, and
// generators with a varying number of draws per op re-align after a few ops.
func c13Mix(seed uint64) uint64 {
	z := seed + 0x9E3779B97F4A7C15
	z = (z ^ (z >> 30)) * 0xBF58476D1CE4E5B9
	z = (z ^ (z >> 27)) * 0x94D049BB133111EB
	return z ^ (z >> 31)
}
