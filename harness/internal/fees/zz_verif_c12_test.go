package fees

import (
	"fmt"
	"math/big"
	"strconv"
	"strings"
	"testing"

	"github.com/ava-labs/hypersdk/fees"
	"github.com/ava-labs/hypersdk/internal/verifh"
)

// C12 (second half): Manager.Consume is all-or-nothing, keeps consumption within the limit,
// and the recorded consumption is the sum of the units of the accepted transactions.
func TestVerifC12Consume(t *testing.T) {
	r := verifh.Start("C12")
	defer r.Finish()
	r.RNG = verifh.NewRNG(c12cMix(r.Seed))

	lines := r.ReplayLines()
	if lines == nil {
		lines = c12ConsumeGenerate(r)
	}

	m := NewManager(nil)
	// oracle state: exact consumption since the last reset, and whether one limit was used throughout
	var exact [fees.FeeDimensions]*big.Int
	var limit fees.Dimensions
	limitSet, sameLimit, withinAtReset := false, true, true
	resetOracle := func(c fees.Dimensions) {
		for k := range exact {
			exact[k] = new(big.Int).SetUint64(c[k])
		}
		limitSet, sameLimit = false, true
	}
	resetOracle(fees.Dimensions{})
	show := func() string {
		c, p := m.UnitsConsumed(), m.UnitPrices()
		return c12Csv(c[:]) + " " + c12Csv(p[:])
	}

	for _, l := range lines {
		f := verifh.Fields(l)
		if len(f) != 1+2*fees.FeeDimensions || (f[0] != "reset" && f[0] != "consume") {
			r.Emit(l, "bad-op")
			continue
		}
		var a, b fees.Dimensions
		bad := false
		for k := 0; k < fees.FeeDimensions; k++ {
			x, e1 := strconv.ParseUint(f[1+k], 10, 64)
			y, e2 := strconv.ParseUint(f[1+fees.FeeDimensions+k], 10, 64)
			if e1 != nil || e2 != nil {
				bad = true
			}
			a[k], b[k] = x, y
		}
		if bad {
			r.Emit(l, "bad-op")
			continue
		}
		if f[0] == "reset" {
			m = NewManager(nil)
			for k := fees.Dimension(0); k < fees.FeeDimensions; k++ {
				m.SetLastConsumed(k, a[k])
				m.SetUnitPrice(k, b[k])
			}
			resetOracle(a)
			r.Emit(l, "ok")
			continue
		}
		// consume <units> <limit>
		before := append([]byte(nil), m.Bytes()...)
		ok, dim := m.Consume(a, b)
		r.Emit(l, fmt.Sprintf("%v %d %s", ok, dim, show()))
		if !limitSet {
			limit, limitSet = b, true
			withinAtReset = true
			for k := range exact {
				if exact[k].Cmp(new(big.Int).SetUint64(b[k])) > 0 {
					withinAtReset = false
				}
			}
		} else if limit != b {
			sameLimit = false
		}
		// the statement: it fits iff in every dimension consumed+units <= limit (exact arithmetic)
		fits, first := true, -1
		for k := range exact {
			s := new(big.Int).Add(exact[k], new(big.Int).SetUint64(a[k]))
			if s.Cmp(new(big.Int).SetUint64(b[k])) > 0 {
				if fits {
					first = k
				}
				fits = false
			}
		}
		if fits {
			r.Count("consume:fits")
		} else {
			r.Count("consume:rejected")
			r.Distinct(l)
		}
		if ok != fits {
			r.Violation("consume-decision", "Consume returned %v but consumed+units<=limit is %v: %s", ok, fits, l)
		}
		if !ok {
			if string(m.Bytes()) != string(before) {
				r.Violation("consume-partial-update", "rejected Consume changed the manager: %s", l)
			}
			if !fits && int(dim) != first {
				r.Violation("consume-dimension", "rejected dimension %d, first exceeding dimension is %d: %s", dim, first, l)
			}
		} else {
			for k := range exact {
				exact[k].Add(exact[k], new(big.Int).SetUint64(a[k]))
			}
		}
		c := m.UnitsConsumed()
		for k := range exact {
			if exact[k].Cmp(new(big.Int).SetUint64(c[k])) != 0 {
				r.Violation("consumed-ne-sum", "dimension %d: recorded consumption %d, sum of accepted units %s: %s", k, c[k], exact[k], l)
				break
			}
			if sameLimit && withinAtReset && c[k] > b[k] {
				r.Violation("consumed-exceeds-max", "dimension %d: recorded consumption %d exceeds the block maximum %d: %s", k, c[k], b[k], l)
				break
			}
		}
		// everything but lastConsumed is untouched
		after := m.Bytes()
		for i := range after {
			off := (i - 8) % dimensionStateLen
			if i >= 8 && off >= dimensionStateLen-8 {
				continue
			}
			if after[i] != before[i] {
				r.Violation("consume-touches-other-state", "Consume changed byte %d (not a lastConsumed field): %s", i, l)
				break
			}
		}
	}
}

func c12Csv(xs []uint64) string {
	ss := make([]string, len(xs))
	for i, x := range xs {
		ss[i] = strconv.FormatUint(x, 10)
	}
	return strings.Join(ss, ",")
}

func c12Line(op string, a, b fees.Dimensions) string {
	return op + " " + strings.ReplaceAll(c12Csv(a[:]), ",", " ") + " " + strings.ReplaceAll(c12Csv(b[:]), ",", " ")
}

func c12ConsumeGenerate(r *verifh.Run) []string {
	rng := r.RNG
	m := ^uint64(0)
	lines := []string{
		c12Line("reset", fees.Dimensions{}, fees.Dimensions{1, 2, 3, 4, 5}),
		c12Line("consume", fees.Dimensions{2, 2, 2, 2, 2}, fees.Dimensions{2, 2, 2, 2, 2}),
		c12Line("consume", fees.Dimensions{0, 0, 0, 0, 1}, fees.Dimensions{2, 2, 2, 2, 2}),
		c12Line("consume", fees.Dimensions{0, 0, 0, 0, 0}, fees.Dimensions{2, 2, 2, 2, 2}),
		c12Line("reset", fees.Dimensions{m, 1, 1, 1, m - 1}, fees.Dimensions{}),
		c12Line("consume", fees.Dimensions{0, 1, 1, 1, 2}, fees.Dimensions{m, m, m, m, m}),
		c12Line("consume", fees.Dimensions{0, 1, 1, 1, 1}, fees.Dimensions{m, m, m, m, m}),
		c12Line("consume", fees.Dimensions{1, 0, 0, 0, 0}, fees.Dimensions{m, m, m, m, m}),
	}
	seqs := r.N(1500, 40000)
	for s := 0; s < seqs; s++ {
		var limit, start, prices fees.Dimensions
		lm := rng.Intn(5)
		for k := range limit {
			switch lm {
			case 0:
				limit[k] = rng.Pick64()
			case 1:
				limit[k] = m - uint64(rng.Intn(3))
			case 2:
				limit[k] = uint64(rng.Intn(20))
			default:
				limit[k] = 100 + uint64(rng.Intn(10000))
			}
			prices[k] = rng.Pick64()
			switch rng.Intn(4) {
			case 0:
				start[k] = 0
			case 1:
				if limit[k] == m {
					start[k] = rng.U64()
				} else {
					start[k] = rng.U64() % (limit[k] + 1)
				}
			default:
				start[k] = 0
			}
		}
		if rng.Intn(3) != 0 {
			start = fees.Dimensions{}
		}
		if rng.Intn(30) == 0 { // start above the limit / anywhere
			for k := range start {
				start[k] = rng.Pick64()
			}
		}
		lines = append(lines, c12Line("reset", start, prices))
		n := 1 + rng.Intn(12)
		for i := 0; i < n; i++ {
			var d fees.Dimensions
			dm := rng.Intn(6)
			for k := range d {
				switch dm {
				case 0:
					d[k] = rng.Pick64()
				case 1:
					d[k] = limit[k] / uint64(1+rng.Intn(8))
				case 2:
					if rng.Intn(5) == 0 {
						d[k] = limit[k] / 2
					}
				case 3:
					d[k] = 0
				default:
					d[k] = uint64(rng.Intn(1 + int(limit[k]%64) + 3))
				}
			}
			lim := limit
			if rng.Intn(40) == 0 { // a different limit in the middle of a sequence
				lim[rng.Intn(len(lim))] = rng.Pick64()
			}
			lines = append(lines, c12Line("consume", d, lim))
		}
	}
	return lines
}

// c12cMix decorrelates seeds: verifh.NewRNG(k+1) is NewRNG(k)'s stream shifted by one draw, and
// generators with a varying number of draws per op re-align after a few ops.
func c12cMix(seed uint64) uint64 {
	z := seed + 0x9E3779B97F4A7C15
	z = (z ^ (z >> 30)) * 0xBF58476D1CE4E5B9
	z = (z ^ (z >> 27)) * 0x94D049BB133111EB
	return z ^ (z >> 31)
}
