package utils

import (
	"errors"
	"fmt"
	"math/big"
	"regexp"
	"strconv"
	"strings"
	"testing"

	"github.com/ava-labs/hypersdk/consts"
	"github.com/ava-labs/hypersdk/internal/verifh"
)

var (
	c34Strict = regexp.MustCompile(`^([0-9]+(\.[0-9]*)?|\.[0-9]+)$`) // w, w.f, w., .f
	c34Unit   = new(big.Int).Exp(big.NewInt(10), big.NewInt(int64(consts.Decimals)), nil)
	c34Max    = new(big.Int).SetUint64(^uint64(0))
)

// C34: FormatBalance / ParseBalance round trip and exactness.
//
// ops:  fmt <uint64>                      -> the formatted text
//       parse <hex of the string's bytes> -> ok <n> | syntax | range | other
func TestVerifC34(t *testing.T) {
	r := verifh.Start("C34")
	defer r.Finish()
	r.Fact("decimals", consts.Decimals)

	lines := r.ReplayLines()
	if lines == nil {
		lines = c34Generate(r)
	}
	for _, l := range lines {
		f := verifh.Fields(l)
		switch {
		case len(f) == 2 && f[0] == "fmt":
			x, err := strconv.ParseUint(f[1], 10, 64)
			if err != nil {
				r.Emit(l, "bad-op")
				continue
			}
			s, pmsg := c34Format(x)
			if pmsg != "" {
				r.Emit(l, "panic")
				r.Violation("format-panics", "FormatBalance(%d) panics: %s", x, pmsg)
				continue
			}
			r.Emit(l, s)
			class := "<2^53"
			if x >= 1<<53 {
				class = ">=2^53"
			}
			r.Count("fmt" + class)
			// oracle 1: exact decimal rendering with Decimals fractional digits
			bx := new(big.Int).SetUint64(x)
			q, m := new(big.Int).QuoRem(bx, c34Unit, new(big.Int))
			want := fmt.Sprintf("%s.%0*s", q.String(), consts.Decimals, m.String())
			if s != want {
				r.Violation("format-inexact"+class, "FormatBalance(%d) = %q, exact is %q", x, s, want)
			}
			// oracle 2: round trip
			back, err, pmsg := c34ParseSafe(s)
			if pmsg != "" {
				r.Violation("parse-panics", "ParseBalance(%q) panics: %s", s, pmsg)
			} else if err != nil || back != x {
				r.Violation("roundtrip"+class, "ParseBalance(FormatBalance(%d) = %q) = %d, %v", x, s, back, err)
			}
			r.Distinct(l)
		case len(f) == 2 && f[0] == "parse":
			in, err := verifh.UnHex(f[1])
			if err != nil {
				r.Emit(l, "bad-op")
				continue
			}
			c34Parse(r, l, string(in))
		default:
			r.Emit(l, "bad-op")
		}
	}
}

// a panic inside the code under test is an observation, not a harness crash
func c34Format(x uint64) (s string, panicMsg string) {
	defer func() {
		if p := recover(); p != nil {
			panicMsg = fmt.Sprint(p)
		}
	}()
	return FormatBalance(x), ""
}

func c34ParseSafe(s string) (v uint64, err error, panicMsg string) {
	defer func() {
		if p := recover(); p != nil {
			panicMsg = fmt.Sprint(p)
		}
	}()
	v, err = ParseBalance(s)
	return v, err, ""
}

func c34Parse(r *verifh.Run, l, s string) {
	v, err, pmsg := c34ParseSafe(s)
	if pmsg != "" {
		r.Emit(l, "panic")
		r.Violation("parse-panics", "ParseBalance(%q) panics: %s", s, pmsg)
		return
	}
	out := ""
	switch {
	case err == nil:
		out = "ok " + strconv.FormatUint(v, 10)
	case errors.Is(err, strconv.ErrSyntax):
		out = "syntax"
	case errors.Is(err, strconv.ErrRange):
		out = "range"
	default:
		out = "other"
	}
	r.Emit(l, out)
	if err != nil && v != 0 {
		r.Violation("nonzero-on-error", "ParseBalance(%q) = %d, %v", s, v, err)
	}
	// oracle: a decimal string with <= Decimals fractional digits yields exactly that amount
	if !c34Strict.MatchString(s) {
		r.Count("parse:not-decimal")
		return
	}
	whole, frac, _ := strings.Cut(s, ".")
	if len(frac) > consts.Decimals {
		r.Count("parse:too-many-fraction-digits")
		return
	}
	exact, _ := new(big.Int).SetString(whole+frac+strings.Repeat("0", consts.Decimals-len(frac)), 10)
	class := "<2^53"
	if exact.Cmp(new(big.Int).Lsh(big.NewInt(1), 53)) >= 0 {
		class = ">=2^53"
	}
	if exact.Cmp(c34Max) > 0 {
		r.Count("parse:decimal-out-of-range")
		if err == nil {
			r.Violation("out-of-range-accepted", "ParseBalance(%q) = %d, exact amount %s exceeds uint64", s, v, exact)
		}
		r.Distinct(l)
		return
	}
	r.Count("parse:decimal" + class)
	r.Distinct(l)
	if err != nil {
		r.Violation("decimal-rejected"+class, "ParseBalance(%q) = %v, exact amount is %s", s, err, exact)
	} else if v != exact.Uint64() {
		r.Violation("parse-inexact"+class, "ParseBalance(%q) = %d, exact amount is %s", s, v, exact)
	}
}

func c34Generate(r *verifh.Run) []string {
	var lines []string
	fm := func(x uint64) { lines = append(lines, "fmt "+strconv.FormatUint(x, 10)) }
	ps := func(s string) { lines = append(lines, "parse "+verifh.Hex([]byte(s))) }
	// corpus first: the design-time witnesses and the unit-test table
	for _, x := range []uint64{9999999999999999999, 10000000000000000000, 10000000000000000001, 999999999999999999, 1000000000000000000,
		18446744073000000000, 18446744072999999999, 18446744072000000000, 18446744073709551614, 1<<53 + 1, 123456789123456789, ^uint64(0), 4095, 131071, 8409750536405689, 1 << 53, 1<<53 - 1, 0, 1, 999999999, 1000000000, 123456789, 1234567890, 9876543210} {
		fm(x)
	}
	for _, s := range []string{
		"9007199.254740993", "123456789.123456789", "18446744073.709551615", "18446744073.709551616",
		"0.000000247", "0.57", "0.29", "1.1", "4.35", "1.000000000", "0.123456789", "0.000000000", "invalid", "", ".", "1.", ".5", "1e3",
		"+1", "-1", "-0", "inf", "NaN", "0x1p3", "1_000", "1.0000000000", "0.0000000001", " 1", "1 ", "1..2", "1.2.3", "١",
		"18446744074", "18446744073", "18446744072", "18446744072.999999999", "18446744073.000000000", "18446744074.000000000",
		"10000000000", "10000000000.000000000", "9999999999.999999999", "99999999999999999999", "000000000000000000000000000001.5",
	} {
		ps(s)
	}
	rng := r.RNG
	digits := func(n int) string {
		b := make([]byte, n)
		for i := range b {
			b[i] = byte('0' + rng.Intn(10))
		}
		return string(b)
	}
	n := r.N(8000, 300000)
	for i := 0; i < n; i++ {
		switch rng.Intn(10) {
		case 0:
			fm(rng.Pick64())
		case 1:
			fm(rng.U64())
		case 2: // near multiples of the unit and near 2^53 / 2^64
			base := []uint64{1 << 53, 1 << 63, ^uint64(0) - 5, 1e9, 1e18, 18446744073000000000, 1e10, 1e19, 1e19, 1e17}[rng.Intn(10)]
			fm(base + uint64(rng.Intn(11)) - 5)
		case 3: // well-formed decimal
			w := digits(rng.Intn(12))
			if rng.Chance(20) {
				w = strings.Repeat("0", rng.Intn(4)) + w
			}
			s := w
			if rng.Chance(80) {
				s += "." + digits(rng.Intn(consts.Decimals+1))
			}
			ps(s)
		case 4: // format of a random amount, possibly with trailing zeros trimmed
			x := rng.Pick64()
			if rng.Bool() {
				x = rng.U64()
			}
			q, m := x/1e9, x%1e9
			s := fmt.Sprintf("%d.%09d", q, m)
			if rng.Bool() {
				s = strings.TrimRight(s, "0")
			}
			ps(s)
		case 5: // around the uint64 boundary
			d := int64(rng.Intn(7)) - 3
			x := new(big.Int).Add(c34Max, big.NewInt(d))
			if rng.Chance(30) {
				x.Mul(x, big.NewInt(int64(1+rng.Intn(20))))
			}
			q, m := new(big.Int).QuoRem(x, c34Unit, new(big.Int))
			ps(fmt.Sprintf("%s.%09s", q, m))
		case 6: // too many fractional digits
			ps(digits(1+rng.Intn(3)) + "." + digits(consts.Decimals+1+rng.Intn(4)))
		case 7: // one junk character inside a decimal
			s := []byte(digits(1+rng.Intn(5)) + "." + digits(rng.Intn(10)))
			junk := "eE+-_ xX.,'\x00\xffpinf"
			s[rng.Intn(len(s))] = junk[rng.Intn(len(junk))]
			ps(string(s))
		case 8: // what ParseFloat would have taken
			ps([]string{"1e" + digits(1), digits(2) + "E-" + digits(1), "+" + digits(3), "-" + digits(2), "0x" + digits(2) + "p1",
				"Inf", "infinity", "nan", digits(2) + "_" + digits(3), "1e400", "1e-400"}[rng.Intn(11)])
		default: // whole numbers of any size
			ps(digits(1 + rng.Intn(25)))
		}
	}
	return lines
}
