package chain_test

// C01: Processor.Execute with any number of execution cores / fetch workers yields the same
// post-state, results, unit prices and units consumed as applying the transactions one at a
// time in block order.
//
// Tie: every `exec` line (one per core configuration) is answered by the Lean model's
// `execSeq`. Oracle: (a) all core configurations of a block agree with the single-core run
// (output line and merkle root) — key `parallel-ne-sequential`; (b) every run agrees with a
// plain sequential reference written here with the exported tx API (Consume, PreExecute,
// Execute, Commit in block order over one TState) — key `execute-ne-sequential`.

import (
	"context"
	"errors"
	"fmt"
	"strconv"
	"strings"
	"testing"
	"time"

	"github.com/ava-labs/avalanchego/ids"
	"github.com/ava-labs/avalanchego/snow/engine/snowman/block"
	"github.com/ava-labs/avalanchego/trace"
	"github.com/ava-labs/avalanchego/utils/logging"
	"github.com/ava-labs/avalanchego/x/merkledb"
	"github.com/prometheus/client_golang/prometheus"

	"github.com/ava-labs/hypersdk/chain"
	"github.com/ava-labs/hypersdk/fees"
	"github.com/ava-labs/hypersdk/genesis"
	"github.com/ava-labs/hypersdk/internal/validitywindow/validitywindowtest"
	"github.com/ava-labs/hypersdk/internal/verifh"
	"github.com/ava-labs/hypersdk/internal/workers"
	"github.com/ava-labs/hypersdk/state"
	"github.com/ava-labs/hypersdk/state/tstate"

	internalfees "github.com/ava-labs/hypersdk/internal/fees"
)

const c01BlockTime = int64(10_000)

type c01Block struct {
	prices, maxUnits fees.Dimensions
	parent           map[int]uint64
	db               merkledb.MerkleDB
	txs              []*chain.Transaction
	specs            []hTxSpec
	units            []fees.Dimensions
	plain            string // plain-map sequential reference
	ref              string // first exec output (single core)
	refRoot          ids.ID
	refLine          int
	seq              string // sequential reference, computed lazily
	conflicts        int
	seqs             []uint32
	sig              []string
}

func TestVerifC01(t *testing.T) {
	r := verifh.Start("C01")
	defer r.Finish()
	lines := r.ReplayLines()
	if lines == nil {
		lines = c01Generate(r)
	}
	ctx := context.Background()
	metrics, err := chain.NewMetrics(prometheus.NewRegistry())
	if err != nil {
		t.Fatal(err)
	}
	var b *c01Block
	var seq uint32
	for _, l := range lines {
		f := verifh.Fields(l)
		if len(f) == 0 {
			continue
		}
		switch {
		case f[0] == "block" && len(f) == 4:
			p, e1 := parseDims(f[2])
			m, e2 := parseDims(f[3])
			if n, e0 := strconv.Atoi(f[1]); e0 != nil || n != hNumKeys || e1 != nil || e2 != nil {
				r.Emit(l, "bad-op")
				b = nil
				continue
			}
			b = &c01Block{prices: p, maxUnits: m, parent: map[int]uint64{}}
			r.Emit(l, "ok")
		case f[0] == "parent" && b != nil && b.db == nil && len(b.txs) == 0:
			vals, err := parseParentLine(f[1:])
			if err != nil {
				r.Emit(l, "bad-op")
				continue
			}
			b.parent = vals
			r.Emit(l, "ok")
		case f[0] == "tx" && len(f) == 7 && b != nil && b.db == nil:
			id, e0 := strconv.Atoi(f[1])
			sp, e1 := strconv.Atoi(f[2])
			if e0 != nil || e1 != nil || id != len(b.txs) {
				r.Emit(l, "bad-op")
				continue
			}
			seq++
			spec := hTxSpec{id: id, sponsor: sp, pre: f[3], units: f[4], keys: f[5], prog: f[6]}
			tx, err := buildTx(spec, c01BlockTime, genesis.NewDefaultRules().ValidityWindow, seq, id%3 == 0)
			if err != nil {
				r.Emit(l, "bad-op")
				continue
			}
			rules := hRules(b.prices, b.maxUnits, b.maxUnits)
			u, err := tx.Units(hBalance, rules)
			if err != nil {
				r.Emit(l, "bad-op")
				continue
			}
			// the emitted line carries what the real code computes (declared-key union, units)
			f[4], f[5] = dimsStr(u, ","), declaredKeysLine(tx)
			b.conflicts += c01CountConflicts(b.txs, tx)
			b.txs = append(b.txs, tx)
			spec.units, spec.keys = f[4], f[5]
			b.specs = append(b.specs, spec)
			b.units = append(b.units, u)
			b.seqs = append(b.seqs, seq)
			b.sig = append(b.sig, f[3]+f[5]+f[6])
			r.Count("tx:pre=" + f[3][:1])
			for _, a := range strings.Split(f[6], "/") {
				for _, o := range strings.Split(a, ",") {
					if o != "" && o != "-" && o != "e" {
						r.Count("scriptop:" + o[:1])
					}
				}
			}
			r.Emit(strings.Join(f, " "), "ok")
		case f[0] == "exec" && len(f) == 3 && b != nil:
			cores, e0 := strconv.Atoi(f[1])
			fetch, e1 := strconv.Atoi(f[2])
			if e0 != nil || e1 != nil || cores < 1 || fetch < 1 || cores > 64 || fetch > 64 {
				r.Emit(l, "bad-op")
				continue
			}
			if b.db == nil {
				if b.db, err = newParentDB(b.parent, 0, 0); err != nil {
					t.Fatal(err)
				}
			}
			// fresh tx objects (new nonces) per run: tasks of an earlier run that returned an error
			// may still be finishing in the background and must not log into this run's events
			b.seqs = b.seqs[:0]
			runTxs := make([]*chain.Transaction, len(b.specs))
			for i, sp := range b.specs {
				seq++
				tx, err := buildTx(sp, c01BlockTime, genesis.NewDefaultRules().ValidityWindow, seq, i%3 == 0)
				if err != nil {
					t.Fatal(err)
				}
				runTxs[i] = tx
				b.seqs = append(b.seqs, seq)
			}
			hEventsStart()
			out, root, hung := c01Execute(ctx, metrics, b, runTxs, cores, fetch)
			events := hEventsStop()
			r.Emit(l, out)
			if msg := c01CheckOverlap(b, events); msg != "" {
				r.Violation("conflicting-txs-overlap", "cores=%d fetch=%d: %s", cores, fetch, msg)
			}
			r.Count(fmt.Sprintf("cores:%d/%d", cores, fetch))
			r.Count(fmt.Sprintf("blocksize:%d", (len(b.txs)+9)/10*10))
			if hung {
				r.Violation("execute-hang", "Processor.Execute did not return within 120s (%d txs, cores=%d)", len(b.txs), cores)
				continue
			}
			if b.conflicts > 0 {
				r.Distinct(strings.Join(b.sig, ";"))
			}
			if b.ref == "" {
				b.ref, b.refRoot, b.refLine = out, root, r.Line()
				if cores != 1 || fetch != 1 {
					r.Count("ref-not-single-core")
				}
				b.seq = c01Sequential(ctx, b)
				b.plain = plainSequential(b.parent, b.specs, b.units, b.prices, b.maxUnits)
			} else if out != b.ref || root != b.refRoot {
				r.Violation("parallel-ne-sequential", "cores=%d fetch=%d gives %s root=%s but the first run (line %d) gave %s root=%s",
					cores, fetch, out, root, b.refLine, b.ref, b.refRoot)
			}
			if out != b.plain {
				r.Violation("execute-ne-sequential", "cores=%d fetch=%d gives %s but applying the txs one at a time to a plain map gives %s", cores, fetch, out, b.plain)
			} else if out != b.seq {
				r.Violation("execute-ne-tstate-sequential", "cores=%d fetch=%d gives %s but Consume/PreExecute/Execute/Commit one tx at a time over one TState gives %s", cores, fetch, out, b.seq)
			}
		default:
			r.Emit(l, "bad-op")
		}
	}
	hCompleted = true
}

// c01CheckOverlap evaluates the executor guarantee C01 imports, on the observed run: for txs
// i < j (block order) that conflict, every action body of i ends before any action body of j starts.
func c01CheckOverlap(b *c01Block, events []hEvent) string {
	idx := map[uint32]int{}
	for i, s := range b.seqs {
		idx[s] = i
	}
	first := make([]int, len(b.txs))
	last := make([]int, len(b.txs))
	for i := range first {
		first[i], last[i] = -1, -1
	}
	for pos, e := range events {
		i, ok := idx[e.seq]
		if !ok {
			continue
		}
		if e.start && first[i] < 0 {
			first[i] = pos
		}
		if !e.start {
			last[i] = pos
		}
	}
	for j := range b.txs {
		if first[j] < 0 {
			continue
		}
		kj, _ := b.txs[j].StateKeys(hBalance)
		for i := 0; i < j; i++ {
			if first[i] < 0 || last[i] < first[j] {
				continue
			}
			ki, _ := b.txs[i].StateKeys(hBalance)
			for k, v := range kj {
				if w, ok := ki[k]; ok && !(v == state.Read && w == state.Read) {
					return fmt.Sprintf("tx %d (events %d..%d) and tx %d (events %d..%d) conflict on key %d but tx %d started before tx %d had finished",
						i, first[i], last[i], j, first[j], last[j], hKeyIndex(k), j, i)
				}
			}
		}
	}
	return ""
}

func c01CountConflicts(prev []*chain.Transaction, tx *chain.Transaction) int {
	n := 0
	sk, _ := tx.StateKeys(hBalance)
	for _, p := range prev {
		pk, _ := p.StateKeys(hBalance)
		for k, v := range sk {
			if w, ok := pk[k]; ok && !(v == state.Read && w == state.Read) {
				n++
				break
			}
		}
	}
	return n
}

// c01Processor returns a processor and the function that releases its signature workers.
func c01Processor(metrics *chain.ChainMetrics, rules *genesis.Rules, cores, fetch int) (*chain.Processor, func()) {
	w := workers.NewSerial()
	if cores > 1 {
		w = workers.NewParallel(cores, 100)
	}
	return c01NewProcessor(metrics, rules, w, cores, fetch, &validitywindowtest.MockTimeValidityWindow[*chain.Transaction]{}), w.Stop
}

func c01NewProcessor(metrics *chain.ChainMetrics, rules *genesis.Rules, w workers.Workers, cores, fetch int, vw chain.ValidityWindow) *chain.Processor {
	return c01NewProcessorRF(metrics, &genesis.ImmutableRuleFactory{Rules: rules}, w, cores, fetch, vw)
}

func c01NewProcessorRF(metrics *chain.ChainMetrics, rf chain.RuleFactory, w workers.Workers, cores, fetch int, vw chain.ValidityWindow) *chain.Processor {
	return chain.NewProcessor(trace.Noop, &logging.NoLog{}, rf, w,
		hAuthEngines{}, hMeta, hBalance, vw, metrics,
		chain.Config{TargetBuildDuration: time.Hour, TransactionExecutionCores: cores, StateFetchConcurrency: fetch, TargetTxsSize: 1 << 30})
}

func showExecOutput(ctx context.Context, out *chain.OutputBlock) string {
	return fmt.Sprintf("ok post=%s res=%s prices=%s consumed=%s", showPost(ctx, out.View),
		showResults(func(i int) int { return i }, out.ExecutionResults.Results),
		dimsStr(out.ExecutionResults.UnitPrices, "."), dimsStr(out.ExecutionResults.UnitsConsumed, "."))
}

func c01Execute(ctx context.Context, metrics *chain.ChainMetrics, b *c01Block, txs []*chain.Transaction, cores, fetch int) (string, ids.ID, bool) {
	rules := hRules(b.prices, b.maxUnits, b.maxUnits)
	root, err := b.db.GetMerkleRoot(ctx)
	if err != nil {
		return "err-root", ids.Empty, false
	}
	// fresh tx objects are not needed: Transaction caches only its state keys
	blk, err := chain.NewStatelessBlock(ids.Empty, c01BlockTime, 1, txs, root, &block.Context{})
	if err != nil {
		return "err-block", ids.Empty, false
	}
	type res struct {
		out *chain.OutputBlock
		err error
	}
	ch := make(chan res, 1)
	go func() {
		p, stop := c01Processor(metrics, rules, cores, fetch)
		o, err := p.Execute(ctx, b.db, chain.NewExecutionBlock(blk), true)
		stop()
		ch <- res{o, err}
	}()
	select {
	case x := <-ch:
		if x.err != nil {
			return "err", ids.Empty, false
		}
		nr, err := x.out.View.GetMerkleRoot(ctx)
		if err != nil {
			return "err-newroot", ids.Empty, false
		}
		return showExecOutput(ctx, x.out), nr, false
	case <-time.After(120 * time.Second):
		return "hang", ids.Empty, true
	}
}

// c01Sequential is the property's right-hand side, literally: one TState, and for each tx in
// block order Consume, PreExecute, Execute, Commit; any error fails the block.
func c01Sequential(ctx context.Context, b *c01Block) string {
	rules := hRules(b.prices, b.maxUnits, b.maxUnits)
	_, _, fk := hMetaKeys()
	raw, err := b.db.GetValue(ctx, fk)
	if err != nil {
		return "err-fee"
	}
	fm := internalfees.NewManager(raw).ComputeNext(c01BlockTime, rules)
	ts := tstate.New(0)
	results := []*chain.Result{}
	for _, tx := range b.txs {
		sk, err := tx.StateKeys(hBalance)
		if err != nil {
			return "err"
		}
		u, err := tx.Units(hBalance, rules)
		if err != nil {
			return "err"
		}
		if ok, _ := fm.Consume(u, rules.GetMaxBlockUnits()); !ok {
			return "err"
		}
		tsv := ts.NewView(sk, b.db, len(sk))
		if err := tx.PreExecute(ctx, fm, hBalance, rules, tsv, c01BlockTime); err != nil {
			return "err"
		}
		res, err := tx.Execute(ctx, fm, hBalance, rules, tsv, c01BlockTime)
		if err != nil {
			return "err"
		}
		results = append(results, res)
		tsv.Commit()
	}
	view, err := b.db.NewView(ctx, merkledb.ViewChanges{MapOps: ts.ChangedKeys(), ConsumeBytes: true})
	if err != nil {
		return "err-view"
	}
	return fmt.Sprintf("ok post=%s res=%s prices=%s consumed=%s", showPost(ctx, view),
		showResults(func(i int) int { return i }, results), dimsStr(fm.UnitPrices(), "."), dimsStr(fm.UnitsConsumed(), "."))
}

// ---------------------------------------------------------------- generator

var c01Configs = [][2]int{{1, 1}, {2, 4}, {4, 2}, {16, 16}}

func c01EmitBlock(lines *[]string, prices, maxUnits string, parent string, txs []*hGenTx, configs [][2]int) {
	*lines = append(*lines, fmt.Sprintf("block %d %s %s", hNumKeys, prices, maxUnits), parent)
	for i, g := range txs {
		*lines = append(*lines, fmt.Sprintf("tx %d %d %s 0,0,0,0,0 %s %s", i, g.sponsor, g.pre, g.keysField(), g.progField()))
	}
	for _, c := range configs {
		*lines = append(*lines, fmt.Sprintf("exec %d %d", c[0], c[1]))
	}
}

const c01Huge = "1800000,18446744073709551615,18446744073709551615,18446744073709551615,18446744073709551615"

func c01Corpus() []string {
	var l []string
	mk := func(sp int, keys map[int]int, acts ...[]string) *hGenTx {
		keys[sp] |= 5
		return &hGenTx{sponsor: sp, pre: "1", keys: keys, acts: acts}
	}
	par := "parent 0=1 1=2 3=3 8=1000000000000 9=1000000000000 10=1000000000000"
	// empty block
	c01EmitBlock(&l, "100,100,100,100,100", c01Huge, par, nil, c01Configs)
	// writer, reader, writer on one key; the reader must see the first write only
	c01EmitBlock(&l, "100,100,100,100,100", c01Huge, par, []*hGenTx{
		mk(8, map[int]int{0: 5}, []string{"g0", "p0=7"}),
		mk(9, map[int]int{0: 1}, []string{"g0"}),
		mk(10, map[int]int{0: 7}, []string{"g0", "d0", "g0", "p0=9", "g0"}),
		mk(9, map[int]int{0: 1, 1: 1}, []string{"g0", "g1"}),
	}, c01Configs)
	// rollback: writes before a failing action are undone, the fee stays charged
	c01EmitBlock(&l, "100,100,100,100,100", c01Huge, par, []*hGenTx{
		mk(8, map[int]int{0: 7, 4: 7}, []string{"p0=5", "p4=6"}, []string{"g0", "f"}),
		mk(8, map[int]int{0: 1, 4: 1}, []string{"g0", "g4"}),
		mk(9, map[int]int{2: 5}, []string{"p2=1"}), // write without allocate on an absent key: scope failure
		mk(9, map[int]int{1: 1}, []string{"g1", "d1"}),
	}, c01Configs)
	// delete + re-create of a parent key, then a reader (C04's witness through the processor)
	c01EmitBlock(&l, "1,1,1,1,1", c01Huge, par, []*hGenTx{
		mk(8, map[int]int{0: 7}, []string{"d0", "p0=5", "d0", "g0"}),
		mk(9, map[int]int{0: 1}, []string{"g0"}),
	}, c01Configs)
	// an earlier tx deletes / overwrites a parent key, a later tx puts the parent's exact value back;
	// an earlier tx creates an absent key, a later one deletes it again
	c01EmitBlock(&l, "1,1,1,1,1", c01Huge, par, []*hGenTx{
		mk(8, map[int]int{0: 7}, []string{"d0"}),
		mk(9, map[int]int{0: 7}, []string{"p0=1", "g0"}),
		mk(10, map[int]int{1: 7}, []string{"p1=9"}),
		mk(8, map[int]int{1: 7}, []string{"p1=2", "g1"}),
		mk(9, map[int]int{4: 7}, []string{"p4=3"}),
		mk(10, map[int]int{4: 7}, []string{"d4", "g4"}),
		mk(8, map[int]int{0: 1, 1: 1, 4: 1}, []string{"g0", "g1", "g4"}),
	}, c01Configs)
	// fund-then-spend: sponsor 8 has no balance entry in the parent; tx 0 (paid by 9) creates it, tx 1 and 2 are paid by 8
	c01EmitBlock(&l, "100,100,100,100,100", c01Huge, "parent 0=1 9=1000000000000 10=1000000000000", []*hGenTx{
		mk(9, map[int]int{8: 7}, []string{"g8", "p8=1000000000"}),
		mk(8, map[int]int{0: 7}, []string{"g0", "p0=2"}),
		mk(8, map[int]int{}, []string{}),
	}, c01Configs)
	// parent keys whose value is the empty byte string: read, overwrite without Allocate, delete, compare-equal write
	c01EmitBlock(&l, "1,1,1,1,1", c01Huge, "parent 0=E 1=E 3=E 4=E 8=1000000000000 9=1000000000000 10=1000000000000", []*hGenTx{
		mk(8, map[int]int{0: 1}, []string{"g0"}),
		mk(9, map[int]int{1: 5}, []string{"p1=7", "g1"}),
		mk(10, map[int]int{3: 5}, []string{"d3", "g3"}),
		mk(8, map[int]int{4: 5}, []string{"p4=E", "g4"}),
		mk(9, map[int]int{5: 7}, []string{"p5=E", "g5"}),
		mk(10, map[int]int{0: 1, 1: 1, 3: 1, 4: 1, 5: 1}, []string{"g0", "g1", "g3", "g4", "g5"}),
	}, c01Configs)
	// sponsor chain: three txs of one sponsor, an action overwrites the balance in between
	c01EmitBlock(&l, "1,1,1,1,1", c01Huge, "parent 8=100000 9=1000000000000", []*hGenTx{
		mk(8, map[int]int{}, []string{}),
		mk(9, map[int]int{8: 5}, []string{"g8", "p8=1000000000"}),
		mk(8, map[int]int{}, []string{"g8"}),
	}, c01Configs)
	// unit limit exceeded by the third tx (compute dimension)
	c01EmitBlock(&l, "1,1,1,1,1", "1800000,8,2000,2000,2000", par, []*hGenTx{
		mk(8, map[int]int{4: 1}, []string{"g4"}), mk(9, map[int]int{5: 1}, []string{"g5"}), mk(10, map[int]int{6: 1}, []string{"g6"}),
	}, c01Configs)
	// underfunded sponsor in the middle; expired tx
	c01EmitBlock(&l, "100,100,100,100,100", c01Huge, "parent 8=1000000000000 9=10 10=1000000000000", []*hGenTx{
		mk(8, map[int]int{4: 5}, []string{"p4=1"}), mk(9, map[int]int{5: 5}, []string{"p5=1"}), mk(10, map[int]int{6: 5}, []string{"p6=1"}),
	}, c01Configs)
	exp := mk(8, map[int]int{4: 5}, []string{"p4=1"})
	exp.pre = "0e"
	c01EmitBlock(&l, "100,100,100,100,100", c01Huge, par, []*hGenTx{mk(9, map[int]int{4: 1}, []string{"g4"}), exp}, c01Configs)
	// zero prices and a sponsor without balance entry: CanDeduct passes, Deduct errors
	c01EmitBlock(&l, "0,0,0,0,0", c01Huge, "parent 9=5", []*hGenTx{mk(9, map[int]int{4: 7}, []string{"p4=1"}), mk(8, map[int]int{5: 7}, []string{"p5=1"})}, c01Configs)
	// fee overflow
	c01EmitBlock(&l, "1,9223372036854775808,1,1,1", c01Huge, par, []*hGenTx{mk(9, map[int]int{4: 7}, []string{"p4=1"})}, c01Configs)
	return l
}

func c01Generate(r *verifh.Run) []string {
	rng := r.RNG
	lines := c01Corpus()
	configs := c01Configs
	if r.Thorough() {
		configs = nil
		for _, c := range []int{1, 2, 4, 16} {
			for _, f := range []int{1, 2, 4, 16} {
				configs = append(configs, [2]int{c, f})
			}
		}
	}
	priceChoices := []string{"100,100,100,100,100", "1,1,1,1,1", "1,2,3,4,5", "0,0,0,0,0", "1000,1,1,1,1"}
	nblocks := r.N(260, 2500)
	if hRace {
		nblocks = r.N(60, 250)
	}
	for n := nblocks; n > 0; n-- {
		ntx := rng.Intn(41)
		if rng.Chance(10) {
			ntx = rng.Intn(4)
		}
		// a small hot set makes long dependency chains; a large one makes wide parallelism
		nhot := 1 + rng.Intn(hNumActionKeys)
		hot := make([]int, nhot)
		for i := range hot {
			hot[i] = rng.Intn(hNumActionKeys)
		}
		bad := rng.Chance(15)
		var txs []*hGenTx
		for i := 0; i < ntx; i++ {
			txs = append(txs, genTx(rng, hot, 12))
		}
		prices := priceChoices[rng.Intn(len(priceChoices))]
		maxUnits := c01Huge
		poor := false
		parentLine := genParent(rng, false)
		if rng.Chance(40) {
			// "the old value comes back" pairs, the two halves at random positions in block order
			pv, _ := parseParentLine(strings.Fields(parentLine)[1:])
			for n := 1 + rng.Intn(2); n > 0; n-- {
				a, b2 := genRestorePair(rng, pv)
				i := rng.Intn(len(txs) + 1)
				txs = append(txs[:i], append([]*hGenTx{a}, txs[i:]...)...)
				j := i + 1 + rng.Intn(len(txs)-i)
				txs = append(txs[:j], append([]*hGenTx{b2}, txs[j:]...)...)
			}
			ntx = len(txs)
		}
		if bad && ntx > 0 {
			switch rng.Intn(4) {
			case 0:
				txs[rng.Intn(ntx)].pre = []string{"0e", "0f", "0c", "0m"}[rng.Intn(4)]
			case 1:
				poor = true
			case 2:
				// a limit in one dimension somewhere around what the block needs
				lim := []string{"1800000", "18446744073709551615", "18446744073709551615", "18446744073709551615", "18446744073709551615"}
				switch rng.Intn(3) {
				case 0:
					lim[1] = strconv.Itoa(2 + rng.Intn(5*ntx+1))
				case 1:
					lim[2] = strconv.Itoa(7 + rng.Intn(20*ntx+1))
				default:
					lim[0] = strconv.Itoa(100 + rng.Intn(150*ntx+1))
				}
				maxUnits = strings.Join(lim, ",")
			default:
				prices = "1,4611686018427387904,1,1,1"
			}
		}
		if poor {
			parentLine = genParent(rng, true)
		} else if rng.Chance(25) {
			// fund-then-spend: sponsor 0 is poor in the parent, gets funded inside the block, then pays
			moveSponsor(txs, hNumActionKeys, hNumActionKeys+1)
			a, b2 := genFundPair(rng)
			i := rng.Intn(len(txs) + 1)
			txs = append(txs[:i], append([]*hGenTx{a}, txs[i:]...)...)
			j := i + 1 + rng.Intn(len(txs)-i)
			txs = append(txs[:j], append([]*hGenTx{b2}, txs[j:]...)...)
			if rng.Chance(30) { // a second tx of the freshly funded sponsor
				txs = append(txs, &hGenTx{sponsor: hNumActionKeys, pre: "1", keys: map[int]int{hNumActionKeys: 5}})
			}
			f := strings.Fields(parentLine)
			var keep []string
			for _, kv := range f {
				if !strings.HasPrefix(kv, fmt.Sprintf("%d=", hNumActionKeys)) {
					keep = append(keep, kv)
				}
			}
			if rng.Chance(40) {
				keep = append(keep, fmt.Sprintf("%d=%d", hNumActionKeys, rng.Intn(60)))
			}
			parentLine = strings.Join(keep, " ")
		}
		c01EmitBlock(&lines, prices, maxUnits, parentLine, txs, configs)
	}
	return lines
}

var _ = errors.New
