package chain

import (
	"fmt"
	"strconv"
	"strings"
	"testing"

	"github.com/ava-labs/avalanchego/ids"

	"github.com/ava-labs/hypersdk/codec"
	"github.com/ava-labs/hypersdk/internal/verifh"
	"github.com/ava-labs/hypersdk/state"
)

// C05 (chain part): the real Transaction.StateKeys on real Transactions whose actions and
// sponsor declare overlapping keys. Tie: Perm.stateKeys in Model/Perm.lean (declarations of the
// actions in order, the sponsor's last). Oracle: result = per-key OR of all declarations, error
// iff some declared key is shorter than two bytes; actions are asked with (actor, action id),
// the balance handler with the sponsor; the cached second call returns the same set.

type c05Action struct {
	Action
	keys     state.Keys
	gotActor codec.Address
	gotID    ids.ID
	calls    int
}

func (a *c05Action) StateKeys(actor codec.Address, id ids.ID) state.Keys {
	a.gotActor, a.gotID = actor, id
	a.calls++
	return a.keys
}

type c05Auth struct {
	Auth
	actor, sponsor codec.Address
}

func (a *c05Auth) Actor() codec.Address   { return a.actor }
func (a *c05Auth) Sponsor() codec.Address { return a.sponsor }

type c05BH struct {
	BalanceHandler
	keys  state.Keys
	got   codec.Address
	calls int
}

func (b *c05BH) SponsorStateKeys(addr codec.Address) state.Keys {
	b.got = addr
	b.calls++
	return b.keys
}

type c05Decl struct {
	k string
	p byte
}

func c05ParseDecls(s string) ([][]c05Decl, bool) {
	var out [][]c05Decl
	for _, d := range strings.Split(s, ";") {
		if d == "" {
			continue
		}
		var ds []c05Decl
		if d != "_" {
			for _, e := range strings.Split(d, ",") {
				if e == "" {
					continue
				}
				a := strings.Split(e, ":")
				if len(a) != 2 {
					return nil, false
				}
				k, e1 := verifh.UnHex(a[0])
				p, e2 := strconv.ParseUint(a[1], 10, 8)
				if e1 != nil || e2 != nil {
					return nil, false
				}
				ds = append(ds, c05Decl{string(k), byte(p)})
			}
		}
		out = append(out, ds)
	}
	return out, true
}

func TestVerifC05Tx(t *testing.T) {
	r := verifh.Start("C05")
	defer r.Finish()
	lines := r.ReplayLines()
	if lines == nil {
		lines = c05TxGenerate(r)
	}
	for _, l := range lines {
		f := verifh.Fields(l)
		if len(f) != 3 || f[0] != "txkeys" {
			r.Emit(l, "bad-op")
			continue
		}
		idb, err := verifh.UnHex(f[1])
		decls, ok := c05ParseDecls(f[2])
		if err != nil || !ok || len(decls) == 0 || len(decls) > 256 {
			r.Emit(l, "bad-op")
			continue
		}
		var txID ids.ID
		copy(txID[:], idb)
		mkKeys := func(ds []c05Decl) state.Keys {
			m := make(state.Keys, len(ds))
			for _, d := range ds {
				m[d.k] |= state.Permissions(d.p) // an action's own declaration is a map: one entry per key
			}
			return m
		}
		auth := &c05Auth{}
		auth.actor[0], auth.actor[1] = 0xa1, idb0(idb)
		auth.sponsor[0], auth.sponsor[1] = 0x5b, idb0(idb)
		var actions []Action
		var stubs []*c05Action
		for _, ds := range decls[:len(decls)-1] {
			a := &c05Action{keys: mkKeys(ds)}
			stubs = append(stubs, a)
			actions = append(actions, a)
		}
		bh := &c05BH{keys: mkKeys(decls[len(decls)-1])}
		tx := &Transaction{TransactionData: TransactionData{Actions: actions}, Auth: auth, id: txID}

		got, gerr := tx.StateKeys(bh)

		// expected: per-key OR of every declaration; error iff a malformed key is declared
		union := map[string]byte{}
		var order []string
		wantErr := false
		for _, ds := range decls {
			for _, d := range ds {
				if len(d.k) < 2 {
					wantErr = true
				}
				if _, seen := union[d.k]; !seen {
					order = append(order, d.k)
				}
				union[d.k] |= d.p
			}
		}
		switch {
		case gerr != nil:
			r.Emit(l, "err")
		case len(order) == 0:
			r.Emit(l, "empty")
		default:
			parts := make([]string, 0, len(order))
			for _, k := range order {
				if p, ok := got[k]; ok {
					parts = append(parts, fmt.Sprintf("%s:%d", verifh.Hex([]byte(k)), p))
				} else {
					parts = append(parts, verifh.Hex([]byte(k))+":none")
				}
			}
			r.Emit(l, strings.Join(parts, ","))
		}
		if (gerr != nil) != wantErr {
			r.Violation("txkeys-validity", "Transaction.StateKeys error=%v, but a key shorter than two bytes is declared: %v", gerr, wantErr)
			continue
		}
		if gerr != nil {
			if got != nil {
				r.Violation("txkeys-validity", "Transaction.StateKeys returned an error together with a key set")
			}
			r.Count("txkeys:err")
			continue
		}
		for k, u := range union {
			if p, ok := got[k]; !ok || byte(p) != u {
				r.Violation("txkeys-not-union", "key %x: transaction holds permission %d (present %v), the union of all action and sponsor declarations is %d", k, p, ok, u)
				break
			}
		}
		if len(got) != len(union) {
			r.Violation("txkeys-not-union", "%d keys in the transaction's set, %d declared", len(got), len(union))
		}
		// a key nobody declared is not accessible
		if got.Has([]byte("\xee\xee\x00\x01"), state.Read) {
			r.Violation("txkeys-undeclared-access", "undeclared key readable")
		}
		// who was asked, with what
		for i, a := range stubs {
			if a.calls != 1 || a.gotActor != auth.actor || a.gotID != CreateActionID(txID, uint8(i)) {
				r.Violation("txkeys-wrong-arguments", "action %d asked %d times with actor %x id %s", i, a.calls, a.gotActor[:2], a.gotID)
				break
			}
		}
		if bh.calls != 1 || bh.got != auth.sponsor {
			r.Violation("txkeys-wrong-arguments", "balance handler asked %d times for %x, sponsor is %x", bh.calls, bh.got[:2], auth.sponsor[:2])
		}
		// the declarations themselves must not have been modified (Add into a fresh set, not
		// into an action's own map)
		for i, a := range stubs {
			want := mkKeys(decls[i])
			if len(a.keys) != len(want) {
				r.Violation("txkeys-mutated-declaration", "declaration of action %d was modified", i)
			}
			for k, p := range want {
				if a.keys[k] != p {
					r.Violation("txkeys-mutated-declaration", "declaration of action %d was modified", i)
					break
				}
			}
		}
		// second call: the cached set, equal to the first (the tx is immutable)
		again, aerr := tx.StateKeys(bh)
		if aerr != nil || len(again) != len(got) {
			r.Violation("txkeys-cache", "second StateKeys call: err=%v, %d keys (first call %d)", aerr, len(again), len(got))
		} else {
			for k, p := range got {
				if again[k] != p {
					r.Violation("txkeys-cache", "second StateKeys call differs on key %x", k)
					break
				}
			}
		}
		dups := 0
		for _, ds := range decls {
			dups += len(ds)
		}
		if dups > len(order) {
			r.Distinct(f[2])
		}
	}
}

func idb0(b []byte) byte {
	if len(b) == 0 {
		return 0
	}
	return b[0]
}

func c05TxGenerate(r *verifh.Run) []string {
	var lines []string
	// corpus: same key from several actions with different permissions, suffix twins, sponsor
	// overlap, invalid keys in an action / in the sponsor declaration, no actions at all
	lines = append(lines,
		"txkeys 01 610001:1;610001:4;610001:2", // read + write-bit + allocate-bit from two actions and the sponsor
		"txkeys 02 610001:5,610002:1;610002:3;_",
		"txkeys 03 610001:1;_;610001:5",
		"txkeys 04 _;610001:7",
		"txkeys 05 610001:1;61:7;620001:1",
		"txkeys 06 610001:1;620001:1;-:1",
		"txkeys 07 610001:1;620001:1;ff:0",
		"txkeys 08 _",
		"txkeys 09 610001:0;610001:0;_",
		"txkeys 0a 0000:255;0000:1;0000:2",
	)
	perm := func() int {
		if r.RNG.Chance(70) {
			return []int{0, 1, 3, 5, 7}[r.RNG.Intn(5)]
		}
		return r.RNG.Intn(256)
	}
	good := []string{"610001", "610002", "620001", "6300", "0000", "6162630003", "6162630004"}
	for i := 0; i < r.N(20000, 300000); i++ {
		nact := r.RNG.Intn(5)
		if r.RNG.Chance(3) {
			nact = 5 + r.RNG.Intn(20)
		}
		var ds []string
		for a := 0; a <= nact; a++ { // the last one is the sponsor's
			used := map[string]bool{}
			var es []string
			for j := 0; j < r.RNG.Intn(4); j++ {
				k := good[r.RNG.Intn(len(good))]
				if r.RNG.Chance(3) {
					k = []string{"61", "-", "ff"}[r.RNG.Intn(3)]
				}
				if used[k] {
					continue
				}
				used[k] = true
				es = append(es, fmt.Sprintf("%s:%d", k, perm()))
			}
			if len(es) == 0 {
				ds = append(ds, "_")
			} else {
				ds = append(ds, strings.Join(es, ","))
			}
		}
		lines = append(lines, fmt.Sprintf("txkeys %s %s", verifh.Hex(r.RNG.Bytes(4)), strings.Join(ds, ";")))
	}
	return lines
}
