package chain_test

import (
	"context"
	stded25519 "crypto/ed25519"
	"encoding/binary"
	"fmt"
	"strconv"
	"strings"
	"testing"

	"github.com/ava-labs/avalanchego/ids"

	"github.com/ava-labs/hypersdk/auth"
	"github.com/ava-labs/hypersdk/chain"
	"github.com/ava-labs/hypersdk/chain/chaintest"
	"github.com/ava-labs/hypersdk/codec"
	"github.com/ava-labs/hypersdk/crypto/bls"
	"github.com/ava-labs/hypersdk/crypto/ed25519"
	"github.com/ava-labs/hypersdk/crypto/secp256r1"
	"github.com/ava-labs/hypersdk/fees"
	"github.com/ava-labs/hypersdk/genesis"
	"github.com/ava-labs/hypersdk/internal/verifh"
	"github.com/ava-labs/hypersdk/keys"
	"github.com/ava-labs/hypersdk/state"
	"github.com/ava-labs/hypersdk/state/balance"
)

// C14: EstimateUnits(rules, actions, authFactory) >= Units of the signed transaction, in every
// dimension, for real signed transactions (ed25519, secp256r1, bls).
//
// Op line (constructive part, then derived values the Lean model needs; the derived part is
// recomputed on replay):
//   case auth=<ed|secp|bls> ts=<int> chain=<hex32> fee=<n> rules=<base,kr,vr,ka,va,kw,vw>
//        a=<payloadLen>:<compute>:<name/chunks+name/chunks|-> ...
//        alen= bw= ac= aac= sp= spk= sz=
// Output: est=<b,c,r,a,w|err> units=<b,c,r,a,w|err>

// c14Action is a harness-defined action: `payload` zero bytes after the type id, and state keys
// that are either fixed (`name/chunks`) or derived from the action id (`@name/chunks`: the
// "create a new object under key(actionID)" pattern).
type c14Action struct {
	payload int
	compute uint64
	keyToks []string
}

func (*c14Action) GetTypeID() uint8                      { return 7 }
func (a *c14Action) Bytes() []byte                       { return append([]byte{7}, make([]byte, a.payload)...) }
func (a *c14Action) ComputeUnits(chain.Rules) uint64     { return a.compute }
func (*c14Action) ValidRange(chain.Rules) (int64, int64) { return -1, -1 }
func (*c14Action) Execute(context.Context, chain.Rules, state.Mutable, int64, codec.Address, ids.ID) ([]byte, error) {
	return nil, nil
}

func (a *c14Action) StateKeys(actor codec.Address, actionID ids.ID) state.Keys {
	ks := state.Keys{}
	for _, k := range a.keyToks {
		name, c, _ := strings.Cut(k, "/")
		kb := []byte(name)
		switch {
		case strings.HasPrefix(name, "!"): // malformed key: one byte, no chunk suffix
			ks[name[1:2]] = state.Read | state.Write
			continue
		case strings.HasPrefix(name, "@"): // derived from the action id
			kb = append(kb, actionID[:]...)
		case strings.HasPrefix(name, "%"): // derived from the actor
			kb = append(kb, actor[:]...)
		}
		ks[string(keys.EncodeChunks(kb, uint16(verifh.U(c))))] = state.Read | state.Write
	}
	return ks
}

// c14RuleFactory returns `at` for exactly the timestamp the transaction is generated at and
// different rules (zero costs, other chain id) for every other timestamp.
type c14RuleFactory struct {
	ts        int64
	at, other *genesis.Rules
}

func (f *c14RuleFactory) GetRules(t int64) chain.Rules {
	if t == f.ts {
		return f.at
	}
	return f.other
}

func c14Factories() map[string]chain.AuthFactory {
	seed := make([]byte, 32)
	for i := range seed {
		seed[i] = byte(i + 1)
	}
	var edk ed25519.PrivateKey
	copy(edk[:], stded25519.NewKeyFromSeed(seed))
	var sk secp256r1.PrivateKey
	copy(sk[:], seed)
	var bk *bls.PrivateKey
	for i := 0; bk == nil; i++ {
		s := append([]byte{}, seed...)
		s[0] = byte(i) // big-endian scalar: a small leading byte keeps it below the group order
		if k, err := bls.PrivateKeyFromBytes(s); err == nil {
			bk = k
		}
	}
	return map[string]chain.AuthFactory{
		"ed": auth.NewED25519Factory(edk), "secp": auth.NewSECP256R1Factory(sk), "bls": auth.NewBLSFactory(bk),
	}
}

func dimsStr(d fees.Dimensions, err error) string {
	if err != nil {
		return "err"
	}
	return fmt.Sprintf("%d,%d,%d,%d,%d", d[0], d[1], d[2], d[3], d[4])
}

func TestVerifC14(t *testing.T) {
	r := verifh.Start("C14")
	defer r.Finish()
	r.Fact("maxBaseSize", chain.MaxBaseSize)
	facs := c14Factories()
	bh := balance.NewPrefixBalanceHandler([]byte{0})

	lines := r.ReplayLines()
	if lines == nil {
		lines = c14Generate(r)
	}
	for _, l := range lines {
		f := verifh.Fields(l)
		if len(f) < 6 || (f[0] != "case" && f[0] != "gen") {
			r.Emit(l, "bad-op")
			continue
		}
		kv := map[string]string{}
		var acts []string
		for _, w := range f[1:] {
			k, v, ok := strings.Cut(w, "=")
			if !ok {
				continue
			}
			if k == "a" {
				acts = append(acts, v)
			} else {
				kv[k] = v
			}
		}
		fac, okf := facs[kv["auth"]]
		rs := strings.Split(kv["rules"], ",")
		chainID, errc := verifh.UnHex(kv["chain"])
		if !okf || len(rs) != 7 || errc != nil || len(chainID) != 32 {
			r.Emit(l, "bad-op")
			continue
		}
		rules := genesis.NewDefaultRules()
		copy(rules.ChainID[:], chainID)
		rules.BaseComputeUnits = verifh.U(rs[0])
		rules.StorageKeyReadUnits, rules.StorageValueReadUnits = verifh.U(rs[1]), verifh.U(rs[2])
		rules.StorageKeyAllocateUnits, rules.StorageValueAllocateUnits = verifh.U(rs[3]), verifh.U(rs[4])
		rules.StorageKeyWriteUnits, rules.StorageValueWriteUnits = verifh.U(rs[5]), verifh.U(rs[6])
		if w, ok := kv["win"]; ok {
			rules.ValidityWindow = verifh.I(w)
		}

		actions := make([]chain.Action, 0, len(acts))
		bad := false
		for _, a := range acts {
			p := strings.Split(a, ":")
			if len(p) != 3 {
				bad = true
				break
			}
			ta := &chaintest.TestAction{
				NumComputeUnits: verifh.U(p[1]), SpecifiedStateKeys: []string{}, SpecifiedStateKeyPermissions: []state.Permissions{},
				ReadKeys: [][]byte{}, WriteKeys: [][]byte{}, WriteValues: [][]byte{make([]byte, verifh.U(p[0]))}, Start: -1, End: -1,
			}
			if strings.ContainsAny(p[2], "@%!") {
				actions = append(actions, &c14Action{payload: int(verifh.U(p[0])), compute: verifh.U(p[1]), keyToks: strings.Split(p[2], "+")})
				continue
			}
			if p[2] != "-" {
				for _, k := range strings.Split(p[2], "+") {
					name, c, _ := strings.Cut(k, "/")
					ta.SpecifiedStateKeys = append(ta.SpecifiedStateKeys, string(keys.EncodeChunks([]byte(name), uint16(verifh.U(c)))))
					ta.SpecifiedStateKeyPermissions = append(ta.SpecifiedStateKeyPermissions, state.Read|state.Write)
				}
			}
			actions = append(actions, ta)
		}
		if bad {
			r.Emit(l, "bad-op")
			continue
		}
		prices := fees.Dimensions{3, 1, 4, 1, 5}
		if ps := strings.Split(kv["prices"], ","); len(ps) == 5 {
			for i := range prices {
				prices[i] = verifh.U(ps[i])
			}
		}
		var (
			tx         *chain.Transaction
			err        error
			est, units fees.Dimensions
			eerr, uerr error
			genErr     error
		)
		if f[0] == "gen" {
			// the real GenerateTransaction: rules of `ts`, estimate, MaxFee := MulSum(prices, estimate), sign
			other := genesis.NewDefaultRules()
			other.BaseComputeUnits, other.StorageKeyReadUnits, other.StorageValueReadUnits = 0, 0, 0
			other.StorageKeyAllocateUnits, other.StorageValueAllocateUnits = 0, 0
			other.StorageKeyWriteUnits, other.StorageValueWriteUnits = 0, 0
			other.ValidityWindow = 1
			rf := &c14RuleFactory{ts: verifh.I(kv["ts"]), at: rules, other: other}
			tx, genErr = chain.GenerateTransaction(rf, prices, rf.ts, actions, fac)
			if genErr != nil {
				// still give the model the derived values: take them from a reference tx signed
				// by the same factory
				refData := chain.NewTxData(chain.Base{Timestamp: 1000, ChainID: rules.ChainID, MaxFee: 1}, actions)
				tx, err = refData.Sign(fac)
				if err != nil {
					t.Fatal(err)
				}
			}
			if genErr == nil {
				units, uerr = tx.Units(bh, rf.GetRules(rf.ts))
			}
		} else {
			base := chain.Base{Timestamp: verifh.I(kv["ts"]), ChainID: rules.ChainID, MaxFee: verifh.U(kv["fee"])}
			txData := chain.NewTxData(base, actions)
			tx, err = txData.Sign(fac)
			if err != nil {
				t.Fatal(err)
			}
			est, eerr = chain.EstimateUnits(rules, actions, fac)
			units, uerr = tx.Units(bh, rules)
		}

		// derived values for the model
		bw, ac := fac.MaxUnits()
		var sz, spk, sp []string
		for _, a := range actions {
			sz = append(sz, strconv.Itoa(len(a.Bytes())))
		}
		for k := range bh.SponsorStateKeys(tx.Auth.Sponsor()) {
			c, _ := keys.MaxChunks([]byte(k))
			spk = append(spk, fmt.Sprintf("%x/%d", k, c))
		}
		for _, c := range rules.GetSponsorStateKeysMaxChunks() {
			sp = append(sp, strconv.Itoa(int(c)))
		}
		dash := func(s []string, sep string) string {
			if len(s) == 0 {
				return "-"
			}
			return strings.Join(s, sep)
		}
		var cons []string
		for _, w := range f {
			k, _, _ := strings.Cut(w, "=")
			switch k {
			case "alen", "bw", "ac", "aac", "sp", "spk", "sz", "faddr", "actor":
			default:
				cons = append(cons, w)
			}
		}
		faddr, actor := fac.Address(), tx.Auth.Actor()
		op := fmt.Sprintf("%s alen=%d bw=%d ac=%d aac=%d sp=%s spk=%s sz=%s faddr=%x actor=%x", strings.Join(cons, " "),
			len(tx.Auth.Bytes()), bw, ac, tx.Auth.ComputeUnits(rules), dash(sp, ","), dash(spk, "+"), dash(sz, ","), faddr[:], actor[:])
		r.Count("auth:" + kv["auth"])
		r.Count(fmt.Sprintf("actions:%d", len(actions)))
		if faddr != actor {
			r.Violation("factory-address-not-actor", "authFactory.Address() %x != signed auth's Actor() %x", faddr[:], actor[:])
		}
		if f[0] == "gen" && genErr != nil {
			r.Emit(op, "err")
			r.Count("gen-error")
			continue
		}
		if f[0] == "gen" {
			fee, ferr := fees.MulSum(prices, units)
			feeS := "err"
			if uerr == nil && ferr == nil {
				feeS = strconv.FormatUint(fee, 10)
			}
			r.Emit(op, fmt.Sprintf("maxfee=%d units=%s fee=%s", tx.MaxFee(), dimsStr(units, uerr), feeS))
			r.Distinct(op)
			// oracle: a transaction generated at these prices can pay its fee at these prices
			switch {
			case uerr != nil:
				r.Violation("units-error-after-estimate", "GenerateTransaction succeeded but Units fails: %v", uerr)
			case ferr != nil || fee > tx.MaxFee():
				r.Violation("generated-maxfee-below-fee", "fee %d (err %v) of units %v at prices %v > MaxFee %d of the generated tx", fee, ferr, units, prices, tx.MaxFee())
			}
			continue
		}
		r.Emit(op, fmt.Sprintf("est=%s units=%s", dimsStr(est, eerr), dimsStr(units, uerr)))

		// oracle: the property itself
		if eerr != nil {
			r.Count("estimate-error")
			continue // no transaction is generated from a failed estimate
		}
		r.Distinct(op)
		if uerr != nil {
			r.Violation("units-error-after-estimate", "estimate %v but Units fails: %v", est, uerr)
			continue
		}
		if units[0] > est[0] {
			// framing the unrepaired estimate omits: tag+len per action and for the auth
			fr := uint64(1 + len(binary.AppendUvarint(nil, uint64(len(tx.Auth.Bytes())))))
			for _, a := range actions {
				fr += uint64(1 + len(binary.AppendUvarint(nil, uint64(len(a.Bytes())))))
			}
			key := "bandwidth-underestimate"
			if units[0] <= est[0]+fr {
				key = "bandwidth-framing-omitted"
			}
			r.Violation(key, "actual size %d > estimated bandwidth %d (%d actions, auth %s)", units[0], est[0], len(actions), kv["auth"])
		}
		if units[1] > est[1] {
			r.Violation("compute-underestimate", "compute %d > %d", units[1], est[1])
		}
		for i := 2; i < 5; i++ {
			if units[i] > est[i] {
				r.Violation("storage-underestimate", "dimension %d: %d > %d", i, units[i], est[i])
			}
		}
		// at the (random) prices of the op line the fee is within the budget derived from the estimate
		if maxFee, err := fees.MulSum(prices, est); err == nil {
			if fee, err := fees.MulSum(prices, units); err != nil || fee > maxFee {
				r.Violation("fee-above-budget", "fee %d > maxFee %d", fee, maxFee)
			}
		}
	}
}

func c14Generate(r *verifh.Run) []string {
	g := r.RNG
	var lines []string
	chainHex := func() string {
		id := ids.ID{}
		if g.Chance(90) {
			copy(id[:], g.Bytes(32))
		}
		return verifh.Hex(id[:])
	}
	kind := "case"
	pricesTok := func() string {
		p := func() uint64 {
			switch g.Intn(10) {
			case 0:
				return 0
			case 1:
				return g.Pick64() >> 16
			case 2:
				return uint64(1000 + g.Intn(1_000_000))
			default:
				return uint64(g.Intn(200))
			}
		}
		return fmt.Sprintf("%d,%d,%d,%d,%d", p(), p(), p(), p(), p())
	}
	mk := func(authName string, ts int64, chain string, fee uint64, rules string, acts []string) string {
		as := ""
		if len(acts) > 0 {
			as = " a=" + strings.Join(acts, " a=")
		}
		return fmt.Sprintf("%s auth=%s ts=%d chain=%s fee=%d rules=%s prices=%s win=%d%s", kind, authName, ts, chain, fee, rules,
			pricesTok(), []int64{60000, 1000, 10_000_000}[g.Intn(3)], as)
	}
	rep := func(a string, n int) []string {
		out := make([]string, n)
		for i := range out {
			out[i] = a
		}
		return out
	}
	const defRules = "1,5,2,20,5,10,3"
	full := strings.Repeat("ab", 32)
	// corpus first: the witness of the omitted framing (13 actions of >= 128 bytes, bls auth) and
	// the size boundaries 127/128 and 16383/16384 of the action length prefix
	// (a TestAction with one WriteValues entry of p bytes is 58+p bytes long)
	for _, an := range []string{"bls", "ed", "secp"} {
		for _, n := range []int{1, 10, 13, 16} {
			for _, p := range []int{0, 69, 70, 16325, 16326, 16327} {
				lines = append(lines, mk(an, 1_758_000_000_000, full, ^uint64(0), defRules, rep(fmt.Sprintf("%d:1:-", p), n)))
			}
		}
	}
	// actions whose state keys are derived from the action id: every action has its own key
	for _, an := range []string{"ed", "bls"} {
		for _, n := range []int{1, 2, 3, 16} {
			lines = append(lines, mk(an, 1_758_000_000_000, full, 1000, defRules, rep("10:1:@obj/3", n)))
			lines = append(lines, mk(an, 1_758_000_000_000, full, 1000, defRules, rep("10:1:@obj/1+shared/2", n)))
		}
	}
	// the same shapes through the real GenerateTransaction (op `gen`)
	kind = "gen"
	for _, an := range []string{"ed", "secp", "bls"} {
		for _, n := range []int{1, 2, 13, 16} {
			lines = append(lines, mk(an, 1_758_000_000_123, full, 0, defRules, rep("10:1:@obj/3+%own/2", n)))
			lines = append(lines, mk(an, 1_758_000_000_123, full, 0, defRules, rep("70:1:shared/2", n)))
			lines = append(lines, mk(an, 1_758_000_000_123, full, 0, "1,1000,1000,1000,1000,1000,1000", rep("16326:3:@obj/65535", n)))
		}
	}
	lines = append(lines, mk("ed", 1_758_000_000_123, full, 0, defRules, []string{"5:1:k0/1", "5:1:!x/0"})) // malformed key
	kind = "case"
	lines = append(lines, mk("ed", 1_758_000_000_123, full, 9, defRules, []string{"5:1:k0/1", "5:1:!x/0"}))
	names := []string{"k0", "k1", "k2", "k3", "shared", "@obj", "@new", "%own"}
	n := r.N(400, 20000)
	for i := 0; i < n; i++ {
		an := []string{"ed", "secp", "bls"}[g.Intn(3)]
		kind = "case"
		if g.Chance(45) {
			kind = "gen"
		}
		na := 1 + g.Intn(16)
		if g.Chance(5) {
			na = 0
		} else if g.Chance(5) {
			na = 17 + g.Intn(24) // the two functions do not look at MaxActionsPerTx
		}
		acts := make([]string, na)
		sizes := []int{0, 1, 68, 69, 70, 71, 200, 16325, 16326, 16327}
		for j := range acts {
			p := sizes[g.Intn(len(sizes))]
			if g.Chance(40) {
				p = g.Intn(300)
			}
			if g.Chance(70) {
				p = g.Intn(80) // keep most transactions small
			}
			var ks []string
			seen := map[string]bool{}
			for k := g.Intn(4); k > 0; k-- {
				key := fmt.Sprintf("%s/%d", names[g.Intn(len(names))], []int{0, 1, 2, 7, 65535}[g.Intn(5)])
				if !seen[key] {
					seen[key] = true
					ks = append(ks, key)
				}
			}
			if g.Chance(2) {
				ks = append(ks, "!x/0") // malformed key (1 byte): ErrInvalidKeyValue on both sides
			}
			kss := "-"
			if len(ks) > 0 {
				kss = strings.Join(ks, "+")
			}
			comp := uint64(g.Intn(20))
			if g.Chance(3) {
				comp = g.Pick64()
			}
			acts[j] = fmt.Sprintf("%d:%d:%s", p, comp, kss)
		}
		rules := defRules
		if g.Chance(30) {
			u := func() uint64 {
				if g.Chance(10) {
					return g.Pick64()
				}
				return uint64(g.Intn(1000))
			}
			rules = fmt.Sprintf("%d,%d,%d,%d,%d,%d,%d", u(), u(), u(), u(), u(), u(), u())
		}
		ts := int64(1_700_000_000_000 + g.Intn(100_000_000_000))
		if g.Chance(10) && kind == "case" {
			ts = int64(g.Pick64())
		}
		lines = append(lines, mk(an, ts, chainHex(), g.Pick64(), rules, acts))
	}
	return lines
}
