package chain_test

import (
	"context"
	"encoding/binary"
	"errors"
	"fmt"
	"math"
	"math/big"
	"strings"
	"testing"
	"time"

	"github.com/ava-labs/avalanchego/ids"

	"github.com/ava-labs/hypersdk/chain"
	"github.com/ava-labs/hypersdk/chain/chaintest"
	"github.com/ava-labs/hypersdk/consts"
	"github.com/ava-labs/hypersdk/genesis"
	"github.com/ava-labs/hypersdk/internal/fees"
	"github.com/ava-labs/hypersdk/internal/validitywindow"
	"github.com/ava-labs/hypersdk/internal/validitywindow/validitywindowtest"
	"github.com/ava-labs/hypersdk/internal/verifh"
	"github.com/ava-labs/hypersdk/state"
	"github.com/ava-labs/hypersdk/state/balance"
	"github.com/ava-labs/hypersdk/state/metadata"
)

func c10Class(err error) string {
	switch {
	case err == nil:
		return "ok"
	case errors.Is(err, chain.ErrInvalidChainID):
		return "chainid"
	case errors.Is(err, validitywindow.ErrMisalignedTime):
		return "misaligned"
	case errors.Is(err, validitywindow.ErrTimestampExpired):
		return "expired"
	case errors.Is(err, validitywindow.ErrFutureTimestamp):
		return "future"
	case errors.Is(err, chain.ErrTooManyActions):
		return "too-many-actions"
	case errors.Is(err, chain.ErrActionNotActivated):
		return "action-not-activated"
	case errors.Is(err, chain.ErrAuthNotActivated):
		return "auth-not-activated"
	}
	msg := err.Error()
	if len(msg) > 40 {
		msg = msg[:40]
	}
	return "other:" + strings.ReplaceAll(msg, " ", "_")
}

func c10ChainID(n uint64) ids.ID {
	var id ids.ID
	binary.BigEndian.PutUint64(id[:8], n)
	return id
}

type c10Case struct {
	expiry, ts, window int64
	txChain, ruleChain uint64
	maxActions         uint64
	authS, authE       int64
	acts               [][2]int64
}

func (c c10Case) args() string {
	var sb strings.Builder
	fmt.Fprintf(&sb, "%d %d %d %d %d %d %d %d %d", c.expiry, c.ts, c.window, c.txChain, c.ruleChain, c.maxActions, c.authS, c.authE, len(c.acts))
	for _, a := range c.acts {
		fmt.Fprintf(&sb, " %d %d", a[0], a[1])
	}
	return sb.String()
}

func c10Parse(f []string) (c c10Case, ok bool) {
	if len(f) < 9 {
		return c, false
	}
	defer func() {
		if recover() != nil {
			ok = false
		}
	}()
	c.expiry = verifh.I(f[0])
	if f[1] != "-" {
		c.ts = verifh.I(f[1])
	}
	c.window, c.txChain, c.ruleChain = verifh.I(f[2]), verifh.U(f[3]), verifh.U(f[4])
	c.maxActions, c.authS, c.authE = verifh.U(f[5]), verifh.I(f[6]), verifh.I(f[7])
	n := int(verifh.U(f[8]))
	if len(f) != 9+2*n || c.maxActions > 255 {
		return c, false
	}
	for i := 0; i < n; i++ {
		c.acts = append(c.acts, [2]int64{verifh.I(f[9+2*i]), verifh.I(f[10+2*i])})
	}
	return c, true
}

func (c c10Case) build() (*genesis.Rules, *chain.Transaction) {
	rules := genesis.NewDefaultRules()
	rules.ChainID = c10ChainID(c.ruleChain)
	rules.ValidityWindow = c.window
	rules.MaxActionsPerTx = uint8(c.maxActions)
	actions := make([]chain.Action, len(c.acts))
	for i, a := range c.acts {
		ta := chaintest.NewDummyTestAction()
		ta.Nonce = uint64(i)
		ta.Start, ta.End = a[0], a[1]
		actions[i] = ta
	}
	auth := chaintest.NewDummyTestAuth()
	auth.Start, auth.End = c.authS, c.authE
	tx := &chain.Transaction{
		TransactionData: chain.TransactionData{
			Base:    chain.Base{Timestamp: c.expiry, ChainID: c10ChainID(c.txChain)},
			Actions: actions,
		},
		Auth: auth,
	}
	return rules, tx
}


// c10SwitchFactory is a rule factory with a scheduled change: rules a before `at`, rules b from then on.
type c10SwitchFactory struct {
	a, b *genesis.Rules
	at   int64
}

func (f *c10SwitchFactory) GetRules(t int64) chain.Rules {
	if t < f.at {
		return f.a
	}
	return f.b
}

type c10SwGroup struct {
	pe *chain.PreExecutor
	rf *c10SwitchFactory
}

func c10Activated(s, e, ts int64) bool {
	return (s < 0 || s <= ts) && (e < 0 || ts <= e)
}

// oracle: the property's conjunction with unbounded integers; returns the first false clause ("" = all hold)
func (c c10Case) statement(ts int64) (clause string, overflow bool) {
	sum := new(big.Int).Add(big.NewInt(ts), big.NewInt(c.window))
	if !sum.IsInt64() {
		return "", true
	}
	switch {
	case c.expiry%1000 != 0:
		return "whole-second", false
	case c.expiry < ts:
		return "not-expired", false
	case big.NewInt(c.expiry).Cmp(sum) > 0:
		return "within-window", false
	case c.txChain != c.ruleChain:
		return "chain-id", false
	case uint64(len(c.acts)) > c.maxActions:
		return "action-count", false
	}
	for _, a := range c.acts {
		if !c10Activated(a[0], a[1], ts) {
			return "action-activation", false
		}
	}
	if !c10Activated(c.authS, c.authE, ts) {
		return "auth-activation", false
	}
	return "", false
}

func TestVerifC10(t *testing.T) {
	r := verifh.Start("C10")
	defer r.Finish()
	ctx := context.Background()
	if consts.MillisecondsPerSecond != 1000 {
		r.Violation("c10-divisor-changed", "consts.MillisecondsPerSecond = %d, the model assumes 1000", consts.MillisecondsPerSecond)
	}
	lines := r.ReplayLines()
	if lines == nil {
		lines = c10Generate(r)
	}
	bh := balance.NewPrefixBalanceHandler([]byte{0})
	im := chaintest.NewInMemoryStore()
	mm := metadata.NewDefaultManager()
	feeKey := string(chain.FeeKey(mm.FeePrefix()))
	swGroups := map[string]*c10SwGroup{}
	swAt := int64(0) // the scheduled rule change of all `admsw` groups: 1.5 s after the first admsw line
	for _, l := range lines {
		f := verifh.Fields(l)
		switch {
		case len(f) == 5 && f[0] == "vts":
			e, ts, d, w := verifh.I(f[1]), verifh.I(f[2]), verifh.I(f[3]), verifh.I(f[4])
			if d == 0 {
				r.Emit(l, "bad-op")
				continue
			}
			got := c10Class(validitywindow.VerifyTimestamp(e, ts, d, w))
			r.Emit(l, got)
			if sum := new(big.Int).Add(big.NewInt(ts), big.NewInt(w)); d == 1000 && sum.IsInt64() {
				want := e%1000 == 0 && e >= ts && big.NewInt(e).Cmp(sum) <= 0
				if want != (got == "ok") {
					r.Violation("c10-verifytimestamp-mismatch", "VerifyTimestamp=%s but the interval statement says %v: %s", got, want, l)
				}
			}
		case len(f) == 6 && f[0] == "base":
			c := c10Case{expiry: verifh.I(f[1]), ts: verifh.I(f[2]), window: verifh.I(f[3]), txChain: verifh.U(f[4]), ruleChain: verifh.U(f[5])}
			rules, tx := c.build()
			got := c10Class(tx.Base.Execute(rules, c.ts))
			r.Emit(l, got)
			if sum := new(big.Int).Add(big.NewInt(c.ts), big.NewInt(c.window)); sum.IsInt64() {
				want := c.txChain == c.ruleChain && c.expiry%1000 == 0 && c.expiry >= c.ts && big.NewInt(c.expiry).Cmp(sum) <= 0
				if want != (got == "ok") {
					r.Violation("c10-base-execute-mismatch", "Base.Execute=%s but the statement says %v: %s", got, want, l)
				}
			}
		case f[0] == "pre":
			c, ok := c10Parse(f[1:])
			if !ok {
				r.Emit(l, "bad-op")
				continue
			}
			rules, tx := c.build()
			got := c10Class(tx.PreExecute(ctx, fees.NewManager([]byte{}), bh, rules, im, c.ts))
			r.Emit(l, got)
			clause, overflow := c.statement(c.ts)
			if overflow {
				// reachable domain (ts >= 0, window >= 0): the wrapped bound is negative, nothing may pass
				if c.ts >= 0 && c.window >= 0 {
					r.Count("oracle:int64-overflow-nonneg")
					if got == "ok" {
						r.Violation("c10-accepted-on-int64-overflow", "PreExecute returned nil although ts+window overflows int64: %s", l)
					}
				} else {
					r.Count("oracle:excluded-domain-negative-overflow")
				}
				continue
			}
			if clause != "" || len(c.acts) > 0 || c.authS >= 0 || c.authE >= 0 {
				r.Distinct(l)
			}
			r.Count("clause:" + map[bool]string{true: "all-hold", false: clause}[clause == ""])
			if got == "ok" && clause != "" {
				r.Violation("c10-accepted-despite-"+clause, "PreExecute returned nil although clause %q fails: %s", clause, l)
			}
			if got != "ok" && clause == "" {
				r.Violation("c10-rejected-valid-"+strings.SplitN(got, ":", 2)[0], "PreExecute returned %s although every clause of the statement holds: %s", got, l)
			}
		case f[0] == "admsw" && len(f) == 9 && (f[2] == "before" || f[2] == "after"):
			delta, wa, ma, wb, mb, n := verifh.I(f[3]), verifh.I(f[4]), verifh.U(f[5]), verifh.I(f[6]), verifh.U(f[7]), int(verifh.U(f[8]))
			if ma > 255 || mb > 255 || n > 1024 {
				r.Emit(l, "bad-op")
				continue
			}
			if swAt == 0 {
				swAt = time.Now().UnixMilli() + 1500
			}
			g := swGroups[f[1]]
			if g == nil { // one PreExecutor per group, used for its `before` and its `after` submissions
				mk := func(w int64, m uint64) *genesis.Rules {
					c := c10Case{window: w, ruleChain: 1, maxActions: m}
					rules, _ := c.build()
					return rules
				}
				g = &c10SwGroup{rf: &c10SwitchFactory{a: mk(wa, ma), b: mk(wb, mb), at: swAt}}
				g.pe = chain.NewPreExecutor(g.rf, &validitywindowtest.MockTimeValidityWindow[*chain.Transaction]{}, mm, bh)
				swGroups[f[1]] = g
			}
			if f[2] == "before" && time.Now().UnixMilli() > swAt-300 {
				r.Emit(l, "bad-op") // too late for a submission before the change (replay of a partial script)
				continue
			}
			if f[2] == "after" {
				if d := swAt + 100 - time.Now().UnixMilli(); d > 0 {
					time.Sleep(time.Duration(d) * time.Millisecond)
				}
			}
			now := time.Now().UnixMilli()
			c := c10Case{txChain: 1, ruleChain: 1, authS: -1, authE: -1, expiry: (now+999)/1000*1000 + delta}
			for i := 0; i < n; i++ {
				c.acts = append(c.acts, [2]int64{-1, -1})
			}
			_, tx := c.build()
			st := map[string][]byte{feeKey: {}, string(bh.BalanceKey(tx.Auth.Sponsor())): binary.BigEndian.AppendUint64(nil, math.MaxUint64)}
			got := c10Class(g.pe.PreExecute(ctx, nil, state.ImmutableStorage(st), tx))
			r.Emit(l, got)
			r.Distinct(l)
			// oracle: the rules in force at the time of the submission decide
			cur := g.rf.GetRules(time.Now().UnixMilli()).(*genesis.Rules)
			c.window, c.maxActions = cur.ValidityWindow, uint64(cur.MaxActionsPerTx)
			clause, _ := c.statement(time.Now().UnixMilli())
			if got == "ok" && clause != "" && clause != "not-expired" {
				r.Violation("c10-admission-stale-rules-"+clause, "admitted after the scheduled rule change although clause %q fails under the rules now in force (window %d, max actions %d): %s", clause, c.window, c.maxActions, l)
			}
		case f[0] == "admission":
			c, ok := c10Parse(f[1:])
			if !ok || f[2] != "-" {
				r.Emit(l, "bad-op")
				continue
			}
			delta := c.expiry
			rules, _ := c.build()
			rf := genesis.ImmutableRuleFactory{Rules: rules}
			var before, after int64
			var got string
			for attempt := 0; attempt < 5; attempt++ { // margins are >= 2 s; retry if the host stalled
				before = time.Now().UnixMilli()
				c.expiry = (before+999)/1000*1000 + delta
				_, tx := c.build()
				st := map[string][]byte{feeKey: {}, string(bh.BalanceKey(tx.Auth.Sponsor())): binary.BigEndian.AppendUint64(nil, math.MaxUint64)}
				pe := chain.NewPreExecutor(&rf, &validitywindowtest.MockTimeValidityWindow[*chain.Transaction]{}, mm, bh)
				got = c10Class(pe.PreExecute(ctx, nil, state.ImmutableStorage(st), tx))
				after = time.Now().UnixMilli()
				if after-before <= 500 {
					break
				}
			}
			r.Emit(l, got)
			r.Distinct(l)
			// nothing admitted is already expired or too far in the future
			if got == "ok" && (c.expiry < before || c.expiry > after+c.window || c.expiry%1000 != 0) {
				r.Violation("c10-admitted-outside-interval", "admitted expiry=%d with now in [%d,%d], window %d", c.expiry, before, after, c.window)
			}
			if cl, _ := c.statement(after); got != "ok" && cl == "" {
				if cl2, _ := c.statement(before); cl2 == "" {
					r.Violation("c10-admission-rejected-valid", "rejected %s although valid throughout [%d,%d]: %s", got, before, after, l)
				}
			}
		default:
			r.Emit(l, "bad-op")
		}
	}
}

// c10SwCases: rule changes (window A, max A) -> (window B, max B); for each a submission before the
// change that the old rules admit, and submissions after it that only the old rules would admit.
var c10SwCases = [][4]int64{{60_000, 16, 10_000, 16}, {60_000, 16, 60_000, 2}, {10_000, 4, 60_000, 16}, {60_000, 16, 5_000, 1}}

func c10Generate(r *verifh.Run) []string {
	var out []string
	add := func(format string, a ...any) { out = append(out, fmt.Sprintf(format, a...)) }
	for g, sc := range c10SwCases { // first lines: they must run before the scheduled change
		add("admsw %d before 30000 %d %d %d %d 3", g, sc[0], sc[1], sc[2], sc[3])
	}
	const mx = math.MaxInt64
	const mn = math.MinInt64
	// corpus: int64 overflow of ts+window (model: wrap64), negative values, Go's % on negatives
	add("vts %d %d 1000 1000", int64(mx-807), int64(mx-807))
	add("vts %d %d 1000 1000", int64(mx-807), int64(mx-1807))
	add("vts -1000 -2000 1000 500")
	add("vts -1500 -2000 1000 5000")
	add("vts -2000 -2000 1000 %d", int64(mn))
	add("vts 0 %d 1000 %d", int64(mn), int64(mn))
	add("vts 3 1 -3 5")
	add("pre %d %d 1000 1 1 16 -1 -1 0", int64(mx-807), int64(mx-807))
	// VerifyTimestamp boundary table (exhaustive)
	tss := []int64{0, 1, 999, 1000, 5000, 1_700_000_000_000, -1000, -1, mx - 807, mx, mn, mn + 808}
	wins := []int64{0, 1, 999, 1000, 60_000, mx, -1, -1000, mn}
	for _, ts := range tss {
		for _, w := range wins {
			bound := ts + w // wraps like the code does
			for _, e := range []int64{ts - 1000, ts - 1, ts, ts + 1, ts / 1000 * 1000, ts/1000*1000 + 1000, bound - 1000, bound - 1, bound, bound + 1, bound + 1000,
				bound / 1000 * 1000, bound/1000*1000 + 1000, 0, -1000, 1000, mx - 807, mn + 808} {
				add("vts %d %d 1000 %d", e, ts, w)
			}
		}
	}
	for _, d := range []int64{1, 2, 7, 1000, -1000, mx, mn} {
		for _, e := range []int64{0, 1, -1, 7, -7, 1000, -1000, 1001, mx, mn} {
			add("vts %d 0 %d %d", e, d, int64(mx))
			add("vts %d %d %d 100", e, e, d)
		}
	}
	// Base.Execute
	for _, tc := range []uint64{0, 1} {
		for _, e := range []int64{0, 1000, 1001, 61_000, 62_000, -1000} {
			add("base %d 1000 60000 %d 1", e, tc)
		}
	}
	// PreExecute boundary table: ranges × counts × chain id × expiry class
	for _, ts := range []int64{0, 1000, 5000, 1_700_000_000_000} {
		rng := []int64{-1, ts - 1, ts, ts + 1, -2, mn, mx}
		for _, e := range []int64{ts, ts + 60_000, ts - 1000, ts + 61_000, ts + 1} {
			e = e / 1000 * 1000
			for _, as := range rng[:4] {
				for _, ae := range rng[:4] {
					c := c10Case{expiry: e, ts: ts, window: 60_000, txChain: 1, ruleChain: 1, maxActions: 16, authS: as, authE: ae}
					add("pre %s", c.args())
					c.acts = [][2]int64{{ae, as}}
					add("pre %s", c.args())
				}
			}
		}
		for _, s1 := range rng {
			for _, e1 := range rng {
				for _, s2 := range rng[:4] {
					for _, e2 := range rng[:4] {
						c := c10Case{expiry: (ts + 999) / 1000 * 1000, ts: ts, window: 60_000, txChain: 1, ruleChain: 1, maxActions: 2, authS: -1, authE: -1,
							acts: [][2]int64{{s1, e1}, {s2, e2}}}
						add("pre %s", c.args())
					}
				}
			}
		}
		for _, max := range []uint64{0, 1, 2, 16, 255} {
			for d := -1; d <= 1; d++ {
				n := int(max) + d
				if n < 0 {
					continue
				}
				for _, tc := range []uint64{1, 2} {
					c := c10Case{expiry: (ts + 999) / 1000 * 1000, ts: ts, window: 60_000, txChain: tc, ruleChain: 1, maxActions: max, authS: -1, authE: ts + 1}
					for i := 0; i < n; i++ {
						c.acts = append(c.acts, [2]int64{-1, -1})
					}
					if n > 0 && d == 1 {
						c.acts[n-1] = [2]int64{ts + 1, -1} // the error order: count before activation
					}
					add("pre %s", c.args())
				}
			}
		}
	}
	// action counts that are small modulo 256 (the limit is a uint8; the count is not)
	for _, max := range []uint64{0, 1, 16, 255} {
		for _, n := range []int{255, 256, 257, 256 + int(max), 256 + int(max) + 1, 272, 512, 513, 768 + int(max)} {
			c := c10Case{expiry: 1000, ts: 1000, window: 60_000, txChain: 1, ruleChain: 1, maxActions: max, authS: -1, authE: -1}
			for i := 0; i < n; i++ {
				c.acts = append(c.acts, [2]int64{-1, -1})
			}
			add("pre %s", c.args())
		}
	}
	// random
	rg := r.RNG
	pick := func(ts int64) int64 {
		switch rg.Intn(6) {
		case 0:
			return -1
		case 1:
			return ts + int64(rg.Intn(3)) - 1
		case 2:
			return int64(rg.Pick64())
		default:
			return -1
		}
	}
	for i := 0; i < r.N(30000, 1000000); i++ {
		var ts, w int64
		switch rg.Intn(4) {
		case 0:
			ts, w = int64(rg.Pick64()), int64(rg.Pick64())
		default:
			ts, w = int64(rg.U64()%4_000_000_000_000), []int64{0, 1000, 60_000, 10_000, int64(rg.Intn(100000))}[rg.Intn(5)]
		}
		var e int64
		switch rg.Intn(6) {
		case 0:
			e = ts
		case 1:
			e = ts + w
		case 2:
			e = ts + w + int64(rg.Intn(2001)) - 1000
		case 3:
			e = ts + int64(rg.Intn(2001)) - 1000
		case 4:
			e = int64(rg.Pick64())
		default:
			e = ts + int64(rg.Intn(int(w%1_000_000+1000)))
		}
		if rg.Chance(75) {
			e = e / 1000 * 1000
			if rg.Chance(50) && e < ts && e <= mx-1000 {
				e += 1000
			}
		}
		c := c10Case{expiry: e, ts: ts, window: w, txChain: 1, ruleChain: 1, maxActions: uint64([]int{0, 1, 2, 3, 16, 255}[rg.Intn(6)]), authS: pick(ts), authE: pick(ts)}
		if rg.Chance(7) {
			c.txChain = 2
		}
		n := rg.Intn(4)
		if rg.Chance(20) {
			n = int(c.maxActions) + rg.Intn(3) - 1
			if n < 0 {
				n = 0
			}
			if n > 40 {
				n = 40
			}
		}
		for j := 0; j < n; j++ {
			c.acts = append(c.acts, [2]int64{pick(ts), pick(ts)})
		}
		if rg.Chance(15) {
			add("vts %d %d 1000 %d", e, ts, w)
		} else {
			add("pre %s", c.args())
		}
	}
	// mempool admission at the real clock (expiry = next whole second + delta; margins of ≥ 2 s)
	for _, w := range []int64{10_000, 60_000} {
		for _, delta := range []int64{-5000, -2000, 1000, 2000, w - 3000, w + 2000, w + 60_000, 1500, 2001} {
			for _, v := range []struct {
				tc         uint64
				max        uint64
				as, ae     int64
				acts       [][2]int64
			}{
				{1, 16, -1, -1, nil},
				{2, 16, -1, -1, nil},
				{1, 16, 0, -1, [][2]int64{{-1, -1}}},
				{1, 16, -1, 1_600_000_000_000, nil},
				{1, 16, 9_000_000_000_000_000_000, -1, nil},
				{1, 16, -1, -1, [][2]int64{{1000, 9_000_000_000_000_000_000}, {9_000_000_000_000_000_000, -1}}},
				{1, 16, -1, -1, [][2]int64{{-1, 1_600_000_000_000}}},
				{1, 1, -1, -1, [][2]int64{{-1, -1}, {-1, -1}}},
			} {
				c := c10Case{expiry: delta, window: w, txChain: v.tc, ruleChain: 1, maxActions: v.max, authS: v.as, authE: v.ae, acts: v.acts}
				a := strings.Fields(c.args())
				a[1] = "-"
				add("admission %s", strings.Join(a, " "))
			}
		}
	}
	for g, sc := range c10SwCases { // last lines: after the change
		add("admsw %d after 30000 %d %d %d %d 3", g, sc[0], sc[1], sc[2], sc[3])
		add("admsw %d after 3000 %d %d %d %d 3", g, sc[0], sc[1], sc[2], sc[3])
		add("admsw %d after 3000 %d %d %d %d 1", g, sc[0], sc[1], sc[2], sc[3])
	}
	return out
}
