package chain_test

// C05 (block part): whole blocks through the real Processor.Execute. Every transaction's view
// must be scoped by that transaction's OWN declared keys, whatever its neighbours declare and
// whenever the executor gets to it. Tie: TS.execBlock in Model/TState.lean (sequential reference,
// no fees). Oracle: an access to a key the transaction did not declare with the needed permission
// fails the transaction with the permission error, and a failed transaction changes nothing.

import (
	"bytes"
	"context"
	"encoding/binary"
	"fmt"
	"strconv"
	"strings"
	"testing"

	"github.com/ava-labs/avalanchego/database"
	"github.com/ava-labs/avalanchego/database/memdb"
	"github.com/ava-labs/avalanchego/ids"
	"github.com/ava-labs/avalanchego/snow/engine/snowman/block"
	"github.com/ava-labs/avalanchego/trace"
	"github.com/ava-labs/avalanchego/utils/logging"
	"github.com/ava-labs/avalanchego/x/merkledb"
	"github.com/prometheus/client_golang/prometheus"

	"github.com/ava-labs/hypersdk/chain"
	"github.com/ava-labs/hypersdk/chain/chaintest"
	"github.com/ava-labs/hypersdk/codec"
	"github.com/ava-labs/hypersdk/genesis"
	"github.com/ava-labs/hypersdk/internal/validitywindow/validitywindowtest"
	"github.com/ava-labs/hypersdk/internal/verifh"
	"github.com/ava-labs/hypersdk/internal/workers"
	"github.com/ava-labs/hypersdk/state"
	"github.com/ava-labs/hypersdk/state/metadata"
	"github.com/ava-labs/hypersdk/state/tstate"
	"github.com/ava-labs/hypersdk/utils"
)

// charges nothing, declares no sponsor keys: a transaction may touch only what its actions declare
type c05bFreeBH struct{}

func (c05bFreeBH) SponsorStateKeys(codec.Address) state.Keys { return state.Keys{} }
func (c05bFreeBH) CanDeduct(context.Context, codec.Address, state.Immutable, uint64) error {
	return nil
}
func (c05bFreeBH) Deduct(context.Context, codec.Address, state.Mutable, uint64) error { return nil }
func (c05bFreeBH) AddBalance(context.Context, codec.Address, state.Mutable, uint64) error {
	return nil
}
func (c05bFreeBH) GetBalance(context.Context, codec.Address, state.Immutable) (uint64, error) {
	return 0, nil
}

type c05bKV struct {
	k string
	v []byte
}

type c05bAct struct {
	decl   []c05bKV // v = one permission byte
	reads  []string
	writes []c05bKV
}

func c05bList(s string) []string {
	if s == "_" {
		return nil
	}
	var out []string
	for _, e := range strings.Split(s, ",") {
		if e != "" {
			out = append(out, e)
		}
	}
	return out
}

func c05bVal(s string) ([]byte, bool) {
	if strings.HasPrefix(s, "z") {
		n, err := strconv.Atoi(s[1:])
		if err != nil || n < 0 || n > 1<<20 {
			return nil, false
		}
		return make([]byte, n), true
	}
	b, err := verifh.UnHex(s)
	return b, err == nil
}

func c05bParseAct(s string) (c05bAct, bool) {
	var a c05bAct
	p := strings.Split(s, "!")
	if len(p) != 3 {
		return a, false
	}
	for _, e := range c05bList(p[0]) {
		kv := strings.Split(e, ":")
		if len(kv) != 2 {
			return a, false
		}
		k, e1 := verifh.UnHex(kv[0])
		n, e2 := strconv.ParseUint(kv[1], 10, 8)
		if e1 != nil || e2 != nil {
			return a, false
		}
		a.decl = append(a.decl, c05bKV{string(k), []byte{byte(n)}})
	}
	for _, e := range c05bList(p[1]) {
		k, err := verifh.UnHex(e)
		if err != nil {
			return a, false
		}
		a.reads = append(a.reads, string(k))
	}
	for _, e := range c05bList(p[2]) {
		kv := strings.Split(e, ":")
		if len(kv) != 2 {
			return a, false
		}
		k, e1 := verifh.UnHex(kv[0])
		v, ok := c05bVal(kv[1])
		if e1 != nil || !ok {
			return a, false
		}
		a.writes = append(a.writes, c05bKV{string(k), v})
	}
	return a, true
}

func c05bShowVal(v []byte) string {
	if len(v) <= 300 {
		return verifh.Hex(v)
	}
	h := uint64(7)
	for _, b := range v {
		h = (h*31 + uint64(b) + 1) % 4294967296
	}
	return fmt.Sprintf("L%d:%d", len(v), h)
}

var c05bNonce uint64

// runBlock executes the block once on a fresh parent database with the given core count.
func c05bRunBlock(cores int, parent []c05bKV, txs [][]c05bAct, universe []string) (string, []*chain.Result, map[string][]byte, error) {
	ctx := context.Background()
	rules := genesis.NewDefaultRules()
	mm := metadata.NewDefaultManager()
	db, err := merkledb.New(ctx, memdb.New(), merkledb.Config{BranchFactor: merkledb.BranchFactor16, Tracer: trace.Noop})
	if err != nil {
		return "", nil, nil, err
	}
	_ = db.Put(chain.HeightKey(mm.HeightPrefix()), binary.BigEndian.AppendUint64(nil, 0))
	_ = db.Put(chain.TimestampKey(mm.TimestampPrefix()), binary.BigEndian.AppendUint64(nil, 0))
	_ = db.Put(chain.FeeKey(mm.FeePrefix()), []byte{})
	seen := map[string]bool{}
	for _, kv := range parent {
		if !seen[kv.k] { // first entry wins, as List.lookup does
			seen[kv.k] = true
			if err := db.Put([]byte(kv.k), kv.v); err != nil {
				return "", nil, nil, err
			}
		}
	}
	root, err := db.GetMerkleRoot(ctx)
	if err != nil {
		return "", nil, nil, err
	}
	var ctxs []*chain.Transaction
	for _, acts := range txs {
		var as []chain.Action
		for _, a := range acts {
			ta := &chaintest.TestAction{NumComputeUnits: 1, Start: -1, End: -1,
				SpecifiedStateKeys: []string{}, SpecifiedStateKeyPermissions: []state.Permissions{},
				ReadKeys: [][]byte{}, WriteKeys: [][]byte{}, WriteValues: [][]byte{}}
			c05bNonce++
			ta.Nonce = c05bNonce
			for _, d := range a.decl {
				ta.SpecifiedStateKeys = append(ta.SpecifiedStateKeys, d.k)
				ta.SpecifiedStateKeyPermissions = append(ta.SpecifiedStateKeyPermissions, state.Permissions(d.v[0]))
			}
			for _, k := range a.reads {
				ta.ReadKeys = append(ta.ReadKeys, []byte(k))
			}
			for _, w := range a.writes {
				ta.WriteKeys = append(ta.WriteKeys, []byte(w.k))
				ta.WriteValues = append(ta.WriteValues, w.v)
			}
			as = append(as, ta)
		}
		tx, err := chain.NewTransaction(chain.Base{Timestamp: utils.UnixRMilli(rules.GetMinEmptyBlockGap(), rules.GetValidityWindow())}, as, chaintest.NewDummyTestAuth())
		if err != nil {
			return "", nil, nil, err
		}
		ctxs = append(ctxs, tx)
	}
	blk, err := chain.NewStatelessBlock(ids.Empty, rules.GetMinBlockGap(), 1, ctxs, root, &block.Context{})
	if err != nil {
		return "", nil, nil, err
	}
	metrics, err := chain.NewMetrics(prometheus.NewRegistry())
	if err != nil {
		return "", nil, nil, err
	}
	cfg := chain.NewDefaultConfig()
	cfg.TransactionExecutionCores = cores
	proc := chain.NewProcessor(trace.Noop, &logging.NoLog{}, &genesis.ImmutableRuleFactory{Rules: rules}, workers.NewSerial(),
		chaintest.NewDummyTestAuthEngines(), mm, c05bFreeBH{}, &validitywindowtest.MockTimeValidityWindow[*chain.Transaction]{}, metrics, cfg)
	out, err := proc.Execute(ctx, db, chain.NewExecutionBlock(blk), false)
	if err != nil {
		return "block-error", nil, nil, nil
	}
	results := out.ExecutionResults.Results
	rs := make([]string, len(results))
	for i, r := range results {
		rs[i] = c05bClass(r)
	}
	post := map[string][]byte{}
	parts := make([]string, 0, len(universe))
	for _, k := range universe {
		v, err := out.View.GetValue(ctx, []byte(k))
		switch {
		case err == nil:
			post[k] = v
			parts = append(parts, verifh.Hex([]byte(k))+"="+c05bShowVal(v))
		case err == database.ErrNotFound:
			parts = append(parts, verifh.Hex([]byte(k))+"=_")
		default:
			return "", nil, nil, err
		}
	}
	return "r=" + strings.Join(rs, ",") + " post=" + strings.Join(parts, " "), results, post, nil
}

func c05bClass(r *chain.Result) string {
	if r.Success {
		return "ok"
	}
	e := string(r.Error)
	switch {
	case strings.Contains(e, tstate.ErrInvalidKeyOrPermission.Error()):
		return "perm"
	case strings.Contains(e, tstate.ErrInvalidKeyValue.Error()):
		return "badvalue"
	case strings.Contains(e, database.ErrNotFound.Error()):
		return "notfound"
	default:
		return "err:" + strings.ReplaceAll(e, " ", "_")
	}
}

func TestVerifC05Block(t *testing.T) {
	r := verifh.Start("C05")
	defer r.Finish()
	lines := r.ReplayLines()
	if lines == nil {
		lines = c05bGenerate(r)
	}
	coreSets := []int{1, 2, 4, 8}
	reps := r.N(2, 4)
	for _, l := range lines {
		f := verifh.Fields(l)
		if len(f) != 4 || f[0] != "block" {
			r.Emit(l, "bad-op")
			continue
		}
		cores0, err := strconv.Atoi(f[1])
		if err != nil || cores0 < 1 || cores0 > 64 {
			r.Emit(l, "bad-op")
			continue
		}
		var parent []c05bKV
		ok := true
		for _, e := range c05bList(f[2]) {
			kv := strings.Split(e, ":")
			if len(kv) != 2 {
				ok = false
				break
			}
			k, e1 := verifh.UnHex(kv[0])
			v, okv := c05bVal(kv[1])
			if e1 != nil || !okv {
				ok = false
				break
			}
			parent = append(parent, c05bKV{string(k), v})
		}
		var txs [][]c05bAct
		for _, ts := range strings.Split(f[3], "/") {
			var acts []c05bAct
			for _, as := range strings.Split(ts, "+") {
				a, oka := c05bParseAct(as)
				if !oka {
					ok = false
				}
				acts = append(acts, a)
			}
			txs = append(txs, acts)
		}
		if !ok || len(txs) == 0 {
			r.Emit(l, "bad-op")
			continue
		}
		// key universe in first-occurrence order (parent, then declarations, reads, writes)
		var universe []string
		seenU := map[string]bool{}
		addU := func(k string) {
			if !seenU[k] {
				seenU[k] = true
				universe = append(universe, k)
			}
		}
		for _, kv := range parent {
			addU(kv.k)
		}
		for _, acts := range txs {
			for _, a := range acts {
				for _, d := range a.decl {
					addU(d.k)
				}
				for _, k := range a.reads {
					addU(k)
				}
				for _, w := range a.writes {
					addU(w.k)
				}
			}
		}

		// the line's own core count first, then every other count, each several times: the
		// result must not depend on the schedule
		first, results, post, err := c05bRunBlock(cores0, parent, txs, universe)
		if err != nil {
			r.Emit(l, "harness-error:"+strings.ReplaceAll(err.Error(), " ", "_"))
			continue
		}
		r.Emit(l, first)
		if results == nil {
			continue
		}
		all := []string{first}
		allRes := [][]*chain.Result{results}
		allPost := []map[string][]byte{post}
		for _, c := range coreSets {
			for i := 0; i < reps; i++ {
				o, rs, ps, err := c05bRunBlock(c, parent, txs, universe)
				if err != nil {
					continue
				}
				all = append(all, o)
				allRes = append(allRes, rs)
				allPost = append(allPost, ps)
				if o != first {
					r.Violation("block-result-depends-on-schedule", "cores=%d run %d gives %q, cores=%d gave %q", c, i, o, cores0, first)
				}
			}
		}
		// oracle, on every run
		flagged := map[string]bool{}
		for run := range all {
			rs, ps := allRes[run], allPost[run]
			if rs == nil {
				continue
			}
			c05bOracle(r, parent, txs, rs, ps, universe, flagged)
		}
	}
}

// c05bOracle: the property, evaluated on the real results of one run.
func c05bOracle(r *verifh.Run, parent []c05bKV, txs [][]c05bAct, rs []*chain.Result, post map[string][]byte, universe []string, flagged map[string]bool) {
	viol := func(key, format string, a ...any) {
		if !flagged[key] {
			flagged[key] = true
			r.Violation(key, format, a...)
		}
	}
	held := func(acts []c05bAct, k string) byte {
		var p byte
		for _, a := range acts {
			for _, d := range a.decl {
				if d.k == k {
					p |= d.v[0]
				}
			}
		}
		return p
	}
	covers := func(have, need byte) bool { return need&^have == 0 }
	// expected post state: the parent plus, in block order, all writes of the successful txs
	want := map[string][]byte{}
	seen := map[string]bool{}
	for _, kv := range parent {
		if !seen[kv.k] {
			seen[kv.k] = true
			want[kv.k] = kv.v
		}
	}
	for i, acts := range txs {
		// first access the transaction has no permission for
		denied, deniedKey, deniedNeed, deniedIdx := false, "", byte(0), 0
		idx := 0
	scan:
		for _, a := range acts {
			for _, k := range a.reads {
				if !covers(held(acts, k), byte(state.Read)) {
					denied, deniedKey, deniedNeed, deniedIdx = true, k, byte(state.Read), idx
					break scan
				}
				idx++
			}
			for _, w := range a.writes {
				if !covers(held(acts, w.k), byte(state.Write)) {
					denied, deniedKey, deniedNeed, deniedIdx = true, w.k, byte(state.Write), idx
					break scan
				}
				idx++
			}
		}
		if denied {
			r.Count("block:tx-with-undeclared-access")
			r.Distinct(fmt.Sprintf("%v", txs))
			if rs[i].Success || c05bClass(rs[i]) != "perm" {
				// earlier accesses of the tx may legitimately fail first (not found, bad value);
				// success or any later failure means the undeclared access was let through
				earlierFailure := !rs[i].Success && c05bClass(rs[i]) != "perm" && deniedIdx > 0
				if !earlierFailure {
					viaOther := false
					for j, other := range txs {
						if j != i && covers(held(other, deniedKey), deniedNeed) {
							viaOther = true
						}
					}
					key := "undeclared-access-allowed"
					if viaOther {
						key = "undeclared-access-allowed-via-other-tx-scope"
					}
					viol(key, "tx %d accesses key %x without having declared permission %d for it (it holds %d); result: %s", i, deniedKey, deniedNeed, held(acts, deniedKey), c05bClass(rs[i]))
				}
			}
		}
		if rs[i].Success {
			for _, a := range acts {
				for _, w := range a.writes {
					want[w.k] = w.v
				}
			}
		}
	}
	for _, k := range universe {
		wv, wok := want[k]
		gv, gok := post[k]
		if wok != gok || !bytes.Equal(wv, gv) {
			viol("failed-tx-changed-state", "after the block key %x is %x (present %v); the parent plus the writes of the successful transactions give %x (present %v)", k, gv, gok, wv, wok)
			break
		}
	}
}

func c05bGenerate(r *verifh.Run) []string {
	kx := verifh.Hex(binary.BigEndian.AppendUint16([]byte("x"), 1))
	kd := verifh.Hex(binary.BigEndian.AppendUint16([]byte("d"), 1))
	ke := verifh.Hex(binary.BigEndian.AppendUint16([]byte("e"), 1))
	kx2 := verifh.Hex(binary.BigEndian.AppendUint16([]byte("x"), 2)) // size-suffix twin of kx
	all := func(ks ...string) string {
		var p []string
		for _, k := range ks {
			p = append(p, k+":7")
		}
		return strings.Join(p, ",")
	}
	var lines []string
	par := kx + ":01," + kd + ":02"
	// corpus: an undeclared access that a neighbour declares, in every position
	lines = append(lines,
		// tx1 reads X (undeclared; tx0 wrote it, tx2 declares it); conflicts with tx0 on D
		fmt.Sprintf("block 4 %s %s!_!%s:aa,%s:d0/%s:5!%s!_/%s!_!_", par, all(kx, kd), kx, kd, kd, kx, all(kx, kd)),
		// tx1 writes X (undeclared)
		fmt.Sprintf("block 4 %s %s!_!%s:aa,%s:d0/%s:5!_!%s:bb/%s!_!_", par, all(kx, kd), kx, kd, kd, kx, all(kx, kd)),
		// undeclared access in the first tx, declared only by the last
		fmt.Sprintf("block 2 %s %s:7!%s!_/%s!_!%s:cc", par, kd, kx, all(kx, kd), kx),
		// no conflict between the txs at all
		fmt.Sprintf("block 8 %s %s:7!_!%s:bb/%s:7!_!%s:cc/%s:7!_!_", par, kd, kx, ke, ke, kx),
		// two actions: the first writes a declared key, the second touches an undeclared one: the tx
		// fails and the first action's write must not survive
		fmt.Sprintf("block 4 %s %s:7!_!%s:ee+_!%s!_/%s!_!_", par, kd, kd, kx, all(kx, kd)),
		fmt.Sprintf("block 4 %s %s:7!_!%s:ee+_!_!%s:ff/%s!_!%s:aa", par, kd, kd, kx, all(kx, kd), kx),
		// read-only declaration, write attempted; suffix twin declared instead of the key
		fmt.Sprintf("block 4 %s %s:1!%s!%s:aa/%s!_!_", par, kx, kx, kx, all(kx)),
		fmt.Sprintf("block 4 %s %s:7!%s!_/%s!_!_", par, kx2, kx, all(kx)),
		// everything declared: all succeed
		fmt.Sprintf("block 4 %s %s!%s!%s:aa/%s!%s!%s:bb", par, all(kx, kd), kx, kd, all(kx, kd), kd, kx),
	)
	// random blocks of 2..6 txs over 4 keys with differing declared sets
	ks := []string{kx, kd, ke, kx2}
	perms := []int{7, 7, 7, 5, 5, 1, 3, 0, 4}
	vals := []string{"-", "01", "aa", "bb", verifh.Hex(make([]byte, 63)), verifh.Hex(make([]byte, 64))}
	for i := 0; i < r.N(250, 5000); i++ {
		var p []string
		for _, k := range ks {
			if r.RNG.Chance(60) {
				p = append(p, k+":"+vals[1+r.RNG.Intn(3)])
			}
		}
		ps := "_"
		if len(p) > 0 {
			ps = strings.Join(p, ",")
		}
		var txs []string
		for t := 0; t < 2+r.RNG.Intn(5); t++ {
			var acts []string
			for a := 0; a < 1+r.RNG.Intn(2); a++ {
				var decl, reads, writes []string
				used := map[string]bool{}
				for j := 0; j < 1+r.RNG.Intn(3); j++ {
					k := ks[r.RNG.Intn(len(ks))]
					if used[k] {
						continue
					}
					used[k] = true
					decl = append(decl, fmt.Sprintf("%s:%d", k, perms[r.RNG.Intn(len(perms))]))
				}
				pick := func() string {
					if r.RNG.Chance(75) && len(decl) > 0 { // mostly inside the declaration
						return strings.Split(decl[r.RNG.Intn(len(decl))], ":")[0]
					}
					return ks[r.RNG.Intn(len(ks))]
				}
				for j := 0; j < r.RNG.Intn(3); j++ {
					reads = append(reads, pick())
				}
				for j := 0; j < r.RNG.Intn(3); j++ {
					writes = append(writes, pick()+":"+vals[r.RNG.Intn(len(vals))])
				}
				f := func(x []string) string {
					if len(x) == 0 {
						return "_"
					}
					return strings.Join(x, ",")
				}
				acts = append(acts, f(decl)+"!"+f(reads)+"!"+f(writes))
			}
			txs = append(txs, strings.Join(acts, "+"))
		}
		lines = append(lines, fmt.Sprintf("block %d %s %s", []int{1, 2, 4, 8}[r.RNG.Intn(4)], ps, strings.Join(txs, "/")))
	}
	return lines
}
