//go:build race

package chain_test

import (
	"os"
	"testing"
)

// hRace: the harness was built with -race (slower by an order of magnitude: smaller budgets).
const hRace = true

// Under -race the testing package fails a test as soon as the detector has reported a data race,
// whatever GORACE says. The race ties exist to run the oracles under race-instrumented schedules;
// race reports are counted by bin/check from the output (data_race_reports), they must not turn a
// completed harness run into a crash. A run that did not complete (panic, t.Fatal) still fails.
func TestMain(m *testing.M) {
	code := m.Run()
	if code != 0 && hCompleted {
		code = 0
	}
	os.Exit(code)
}
