package chain_test

import (
	"context"
	"encoding/binary"
	"errors"
	"fmt"
	"math/big"
	"strconv"
	"strings"
	"testing"
	"time"

	"github.com/ava-labs/avalanchego/database/memdb"
	"github.com/ava-labs/avalanchego/ids"
	"github.com/ava-labs/avalanchego/snow/engine/snowman/block"
	"github.com/ava-labs/avalanchego/trace"
	"github.com/ava-labs/avalanchego/utils/logging"
	"github.com/ava-labs/avalanchego/x/merkledb"
	"github.com/prometheus/client_golang/prometheus"

	"github.com/ava-labs/hypersdk/chain"
	"github.com/ava-labs/hypersdk/chain/chaintest"
	"github.com/ava-labs/hypersdk/codec"
	"github.com/ava-labs/hypersdk/genesis"
	"github.com/ava-labs/hypersdk/internal/validitywindow"
	"github.com/ava-labs/hypersdk/internal/validitywindow/validitywindowtest"
	"github.com/ava-labs/hypersdk/internal/verifh"
	"github.com/ava-labs/hypersdk/internal/workers"
	"github.com/ava-labs/hypersdk/state"
	"github.com/ava-labs/hypersdk/state/balance"
	"github.com/ava-labs/hypersdk/state/metadata"
)

// C11: Processor.Execute accepts a child only if height = parent+1, timestamp >= parent's
// timestamp + gap, timestamp <= now + FutureBound, StateRoot = parent's post-state root.
//
//	seq <T0> gen <g1> <e1> <sw> <g2> <e2>                      parent = real NewGenesisCommit
//	seq <T0> syn <g1> <e1> <sw> <g2> <e2> <hraw|x> <traw|x> <x|e>   parent = hand-made state
//	exec <height> <a<abs>|n<rel to T0>> <0|v|i|s> <p|r> <y|n>   one Processor.Execute on the current parent
//
// rules(ts) = (g1,e1) if ts < sw else (g2,e2)  (MinBlockGap, MinEmptyBlockGap).
// <T0> is the wall clock (ms) when the sequence starts; the harness *rewrites* it on every
// run (also on replay), so `n…` timestamps stay meaningful relative to the real time.Now().
func TestVerifC11(t *testing.T) {
	r := verifh.Start("C11")
	defer r.Finish()
	r.Fact("futureBoundMs", chain.FutureBound.Milliseconds())
	{
		rules := genesis.NewDefaultRules()
		blk, _, err := chain.NewGenesisCommit(context.Background(), c11NewDB(), genesis.NewDefaultGenesis(nil),
			metadata.NewDefaultManager(), balance.NewPrefixBalanceHandler([]byte{metadata.DefaultMinimumPrefix}),
			&genesis.ImmutableRuleFactory{Rules: rules}, trace.Noop, logging.NoLog{})
		if err != nil {
			panic(err)
		}
		r.Fact("genesisHeaderTimestamp", blk.Tmstmp)
	}
	lines := r.ReplayLines()
	if lines == nil {
		lines = c11Generate(r)
	}
	st := &c11State{r: r}
	for _, l := range lines {
		st.exec(l)
	}
}

var (
	c11MM       = metadata.NewDefaultManager()
	c11BH       = balance.NewPrefixBalanceHandler([]byte{metadata.DefaultMinimumPrefix})
	c11Sponsor  = codec.Address{1, 2, 3}
	c11HKey     = chain.HeightKey(c11MM.HeightPrefix())
	c11TKey     = chain.TimestampKey(c11MM.TimestampPrefix())
	c11FKey     = chain.FeeKey(c11MM.FeePrefix())
	errC11Mock  = errors.New("mock replay")
	errC11Panic = errors.New("panic")
)

type c11RuleFactory struct {
	sw     int64
	r1, r2 *genesis.Rules
}

func (f *c11RuleFactory) GetRules(t int64) chain.Rules {
	if t < f.sw {
		return f.r1
	}
	return f.r2
}

func c11NewDB() merkledb.MerkleDB {
	db, err := merkledb.New(context.Background(), memdb.New(), merkledb.Config{
		BranchFactor: merkledb.BranchFactor16,
		Tracer:       trace.Noop,
	})
	if err != nil {
		panic(err)
	}
	return db
}

// header of the parent *block* as the property's statement sees it
type c11Hdr struct {
	known     bool // false: hand-made state with unparseable metadata — no block can have produced it
	isGenesis bool
	height    uint64
	ts        int64
}

type c11State struct {
	r        *verifh.Run
	live     bool
	t0       int64
	rf       *c11RuleFactory
	view     merkledb.View
	hdr      c11Hdr
	pid      ids.ID
	depth    int
	seqKind  string
	feeShort bool

	// one Processor per sequence (forks are executed by the same instance)
	proc       *chain.Processor
	replayFail bool
	// the parent before the last verified block, for executing a sibling of that block
	hasPrev   bool
	prevView  merkledb.View
	prevHdr   c11Hdr
	prevPid   ids.ID
	prevDepth int
	sibMode   bool
	hasSib    bool
	sibRoot   ids.ID
}

func c11ParseI(s string) (int64, bool) {
	v, err := strconv.ParseInt(s, 10, 64)
	return v, err == nil
}

func c11Raw(s string) ([]byte, bool, bool) { // bytes, present, ok
	if s == "x" {
		return nil, false, true
	}
	b, err := verifh.UnHex(s)
	return b, true, err == nil
}

func (s *c11State) exec(l string) {
	f := verifh.Fields(l)
	if len(f) == 0 {
		return
	}
	switch f[0] {
	case "seq":
		s.seq(l, f)
	case "exec", "sib":
		s.execBlock(l, f)
	default:
		s.r.Emit(l, "bad-op")
	}
}

func (s *c11State) seq(l string, f []string) {
	s.live = false
	bad := func() { s.r.Emit(l, "bad-op") }
	if len(f) < 8 {
		bad()
		return
	}
	if _, ok := c11ParseI(f[1]); !ok {
		bad()
		return
	}
	var g [5]int64
	for i := range g {
		v, ok := c11ParseI(f[3+i])
		if !ok {
			bad()
			return
		}
		g[i] = v
	}
	r1, r2 := genesis.NewDefaultRules(), genesis.NewDefaultRules()
	r1.MinBlockGap, r1.MinEmptyBlockGap = g[0], g[1]
	r2.MinBlockGap, r2.MinEmptyBlockGap = g[3], g[4]
	rf := &c11RuleFactory{sw: g[2], r1: r1, r2: r2}
	ctx := context.Background()
	switch {
	case f[2] == "gen" && len(f) == 8:
		gen := genesis.NewDefaultGenesis([]*genesis.CustomAllocation{{Address: c11Sponsor, Balance: 1 << 62}})
		db := c11NewDB()
		blk, view, err := chain.NewGenesisCommit(ctx, db, gen, c11MM, c11BH, rf, trace.Noop, logging.NoLog{})
		if err != nil {
			panic(err)
		}
		s.view, s.pid = view, blk.GetID()
		s.hdr = c11Hdr{known: true, isGenesis: true, height: blk.Hght, ts: blk.Tmstmp}
	case f[2] == "syn" && len(f) == 11:
		hraw, hp, ok1 := c11Raw(f[8])
		traw, tp, ok2 := c11Raw(f[9])
		if !ok1 || !ok2 || (f[10] != "x" && f[10] != "e" && f[10] != "s") {
			bad()
			return
		}
		db := c11NewDB()
		put := func(k, v []byte) {
			if err := db.Put(k, v); err != nil {
				panic(err)
			}
		}
		if hp {
			put(c11HKey, hraw)
		}
		if tp {
			put(c11TKey, traw)
		}
		if f[10] == "e" {
			put(c11FKey, []byte{})
		}
		if f[10] == "s" { // truncated fee-manager state: fees.Manager.ComputeNext panics
			put(c11FKey, []byte{1, 2, 3})
		}
		put(c11BH.BalanceKey(c11Sponsor), binary.BigEndian.AppendUint64(nil, 1<<62))
		s.view, s.pid = db, ids.Empty
		s.hdr = c11Hdr{}
		if hp && tp && len(hraw) == 8 && len(traw) == 8 {
			s.hdr = c11Hdr{known: true, height: binary.BigEndian.Uint64(hraw), ts: int64(binary.BigEndian.Uint64(traw))}
		}
	default:
		bad()
		return
	}
	s.rf, s.live, s.depth, s.seqKind = rf, true, 0, f[2]
	s.hasPrev, s.hasSib, s.sibMode = false, false, false
	vw := &validitywindowtest.MockTimeValidityWindow[*chain.Transaction]{
		OnVerifyExpiryReplayProtection: func(context.Context, validitywindow.ExecutionBlock[*chain.Transaction]) error {
			if s.replayFail {
				return errC11Mock
			}
			return nil
		},
	}
	metrics, err := chain.NewMetrics(prometheus.NewRegistry())
	if err != nil {
		panic(err)
	}
	s.proc = chain.NewProcessor(trace.Noop, &logging.NoLog{}, rf, workers.NewSerial(), chaintest.NewDummyTestAuthEngines(),
		c11MM, c11BH, vw, metrics, chain.NewDefaultConfig())
	s.feeShort = f[2] == "syn" && f[10] == "s"
	// the clock is stamped as late as possible and written into the emitted line
	s.t0 = time.Now().UnixMilli()
	f[1] = strconv.FormatInt(s.t0, 10)
	s.r.Emit(strings.Join(f, " "), "ok")
}

// execBlock: `exec` runs a block on the current parent and, if it verifies, makes it the new
// parent; `sib` runs a block on the parent of the current parent (a sibling of the last
// verified block, i.e. a fork) through the same Processor, does not adopt it, and remembers
// its post-state root for root kind `s`.
func (s *c11State) execBlock(l string, f []string) {
	if f[0] != "sib" {
		s.execCore(l, f)
		return
	}
	if !s.live || !s.hasPrev {
		s.r.Emit(l, "bad-op")
		return
	}
	cv, cp, ch, cd := s.view, s.pid, s.hdr, s.depth
	s.view, s.pid, s.hdr, s.depth = s.prevView, s.prevPid, s.prevHdr, s.prevDepth
	s.sibMode = true
	s.execCore(l, f)
	s.sibMode = false
	s.view, s.pid, s.hdr, s.depth = cv, cp, ch, cd
}

func (s *c11State) execCore(l string, f []string) {
	r := s.r
	if !s.live || len(f) != 6 || len(f[2]) < 2 {
		r.Emit(l, "bad-op")
		return
	}
	height, err := strconv.ParseUint(f[1], 10, 64)
	v, okv := c11ParseI(f[2][1:])
	txk, rk, rp := f[3], f[4], f[5]
	if err != nil || !okv || (f[2][0] != 'a' && f[2][0] != 'n') ||
		!strings.Contains("0visVw", txk) || len(txk) != 1 || (rk != "p" && rk != "r" && rk != "s") || (rk == "s" && !s.hasSib) || (rp != "y" && rp != "n" && rp != "f") {
		r.Emit(l, "bad-op")
		return
	}
	ts := v
	if f[2][0] == 'n' {
		sum := new(big.Int).Add(big.NewInt(s.t0), big.NewInt(v))
		if !sum.IsInt64() {
			r.Emit(l, "bad-op")
			return
		}
		ts = sum.Int64()
	}
	ctx := context.Background()
	rules := s.rf.GetRules(ts).(*genesis.Rules)

	// transactions
	var txs []*chain.Transaction
	if txk != "0" {
		// smallest multiple of 1000 that is >= ts (valid for any ts not within 1000 of MaxInt64)
		txTs := ts - ts%1000
		if txTs < ts {
			txTs += 1000
		}
		if txk == "i" {
			txTs++ // ErrMisalignedTime
		}
		auth := chaintest.NewDummyTestAuth()
		auth.ShouldErr = txk == "s"
		actions := []chain.Action{}
		if txk == "w" {
			// a transaction that declares the height and timestamp metadata keys with full
			// permissions and overwrites them; writeBlockContext runs afterwards
			actions = append(actions, &chaintest.TestAction{
				NumComputeUnits:              1,
				SpecifiedStateKeys:           []string{string(c11HKey), string(c11TKey)},
				SpecifiedStateKeyPermissions: []state.Permissions{state.All, state.All},
				WriteKeys:                    [][]byte{c11HKey, c11TKey},
				WriteValues:                  [][]byte{binary.BigEndian.AppendUint64(nil, 999), binary.BigEndian.AppendUint64(nil, 12345)},
				Start:                        -1,
				End:                          -1,
			})
		}
		tx, err := chain.NewTransaction(chain.Base{Timestamp: txTs, ChainID: rules.ChainID, MaxFee: 1 << 40}, actions, auth)
		if err != nil {
			panic(err)
		}
		txs = []*chain.Transaction{tx}
		if txk == "V" { // a second valid transaction
			tx2, err := chain.NewTransaction(chain.Base{Timestamp: txTs + 1000, ChainID: rules.ChainID, MaxFee: 1 << 40}, []chain.Action{}, chaintest.NewDummyTestAuth())
			if err != nil {
				panic(err)
			}
			txs = append(txs, tx2)
		}
	}
	parentRoot, err := s.view.GetMerkleRoot(ctx)
	if err != nil {
		panic(err)
	}
	root := parentRoot
	if rk == "r" {
		root[5] ^= 0x40
	}
	if rk == "s" { // the post-state root of the sibling executed last by `sib`
		root = s.sibRoot
	}
	sb, err := chain.NewStatelessBlock(s.pid, ts, height, txs, root, &block.Context{})
	if err != nil {
		panic(err)
	}
	s.replayFail = rp == "y" || rp == "f" // "f": the window would fail, but isNormalOp=false skips it
	p := s.proc
	eb := chain.NewExecutionBlock(sb)

	type res struct {
		out *chain.OutputBlock
		err error
	}
	ch := make(chan res, 1)
	go func() {
		defer func() {
			if x := recover(); x != nil {
				ch <- res{nil, fmt.Errorf("%w: %v", errC11Panic, x)}
			}
		}()
		out, err := p.Execute(ctx, s.view, eb, rp != "f")
		ch <- res{out, err}
	}()
	var out *chain.OutputBlock
	select {
	case x := <-ch:
		out, err = x.out, x.err
	case <-time.After(30 * time.Second):
		r.Emit(l, "hang")
		r.Violation("execute-hangs", "Processor.Execute did not return within 30s for %s", l)
		s.live = false
		return
	}
	nowAfter := time.Now().UnixMilli()
	if nowAfter-s.t0 > 1500 {
		r.Count("slow-sequence")
	}

	if err != nil {
		kind := "other"
		for _, c := range []struct {
			e error
			n string
		}{
			{chain.ErrTimestampTooLate, "late"},
			{chain.ErrFailedToFetchParentHeight, "fetch-height"},
			{chain.ErrFailedToParseParentHeight, "parse-height"},
			{chain.ErrInvalidBlockHeight, "height"},
			{chain.ErrFailedToFetchParentTimestamp, "fetch-ts"},
			{chain.ErrFailedToParseParentTimestamp, "parse-ts"},
			{chain.ErrTimestampTooEarlyEmptyBlock, "early-empty"},
			{chain.ErrTimestampTooEarly, "early"},
			{chain.ErrFailedToFetchParentFee, "fetch-fee"},
			{chain.ErrDuplicateTx, "replay"},
			{chain.ErrStateRootMismatch, "root"},
			{chaintest.ErrTestAuthVerify, "sigs"},
			{errC11Panic, "panic"},
		} {
			if errors.Is(err, c.e) {
				kind = c.n
				break
			}
		}
		if kind == "panic" {
			kind = "panic:" + strings.ReplaceAll(err.Error(), " ", "_")
			if strings.Contains(err.Error(), "slice bounds out of range") && s.feeShort {
				kind = "fee-panic"
			}
		}
		if kind == "other" && strings.Contains(err.Error(), "failed to execute txs") {
			kind = "txs"
		}
		if kind == "other" {
			kind = "other:" + strings.ReplaceAll(err.Error(), " ", "_")
		}
		r.Emit(l, kind)
		r.Count("result:" + kind)
		return
	}

	// verified: read the new state's metadata back
	hraw, herr := out.View.GetValue(ctx, c11HKey)
	traw, terr := out.View.GetValue(ctx, c11TKey)
	hs, tss := "?", "?"
	if herr == nil && len(hraw) == 8 {
		hs = strconv.FormatUint(binary.BigEndian.Uint64(hraw), 10)
	}
	if terr == nil && len(traw) == 8 {
		tss = strconv.FormatInt(int64(binary.BigEndian.Uint64(traw)), 10)
	}
	r.Emit(l, "ok "+hs+" "+tss)
	r.Count("result:ok")
	if txk == "w" {
		if len(out.ExecutionResults.Results) == 1 && out.ExecutionResults.Results[0].Success {
			r.Count("metadata-overwrite-tx:executed")
		} else {
			r.Count("metadata-overwrite-tx:failed")
		}
	}
	r.Count("verified-at-depth:" + strconv.Itoa(min(s.depth, 9)))

	// ---- oracle: the property's statement against the parent *block header* -------------
	ph := s.hdr
	gap := rules.MinBlockGap
	if len(txs) == 0 {
		gap = rules.MinEmptyBlockGap
	}
	switch {
	case !ph.known:
		r.Violation("verified-on-malformed-parent", "block verified although the parent state has no parseable height/timestamp: %s", l)
	default:
		if ph.height == ^uint64(0) {
			// parent height + 1 is not a uint64: the Go addition wraps (modelled as % 2^64).
			// Only a hand-made parent state can hold this height; not judged here.
			r.Count("oracle-skip:height-overflow")
		} else if height != ph.height+1 {
			r.Violation("height-not-parent-plus-one", "verified height %d on parent height %d", height, ph.height)
		}
		need := new(big.Int).Add(big.NewInt(ph.ts), big.NewInt(gap))
		if !need.IsInt64() {
			// parent timestamp + gap is not an int64: the Go addition wraps. Such a parent is
			// unreachable through verified blocks (future bound); modelled, not judged here.
			r.Count("oracle-skip:gap-overflow")
		} else if big.NewInt(ts).Cmp(need) < 0 {
			if ph.isGenesis && ts >= gap {
				// the parent-state timestamp of genesis is 0, the genesis header's is 2023-01-01
				r.Violation("child-of-genesis-earlier-than-genesis-header",
					"height-1 block with timestamp %d verified; genesis header timestamp %d + gap %d", ts, ph.ts, gap)
			} else {
				r.Violation("timestamp-gap-violated", "verified timestamp %d < parent header timestamp %d + gap %d (txs=%d)", ts, ph.ts, gap, len(txs))
			}
		}
	}
	if ts > nowAfter+chain.FutureBound.Milliseconds() {
		r.Violation("future-block-accepted", "verified timestamp %d > local time %d + future bound", ts, nowAfter)
	}
	if sb.StateRoot != parentRoot {
		r.Violation("root-mismatch-accepted", "verified StateRoot %s, parent root %s", sb.StateRoot, parentRoot)
	}
	if hs != strconv.FormatUint(height, 10) || tss != strconv.FormatInt(ts, 10) {
		r.Violation("state-header-mismatch", "new state holds height %s timestamp %s, header %d %d", hs, tss, height, ts)
	}
	r.Distinct(fmt.Sprintf("%s d=%d tx=%s gen=%v gaps=%d/%d rel=%c", s.seqKind, min(s.depth, 5), txk, ph.isGenesis, rules.MinBlockGap, rules.MinEmptyBlockGap, f[2][0]))

	if s.sibMode {
		// a fork: not adopted. Wait for its root (and give the processor's background root
		// generation time to finish whatever it does with it).
		if sr, rerr := out.View.GetMerkleRoot(ctx); rerr == nil {
			s.sibRoot, s.hasSib = sr, true
		}
		time.Sleep(30 * time.Millisecond)
		r.Count("fork:sibling-verified")
		return
	}
	s.hasPrev, s.prevView, s.prevPid, s.prevHdr, s.prevDepth = true, s.view, s.pid, s.hdr, s.depth
	s.view, s.pid, s.depth = out.View, sb.GetID(), s.depth+1
	s.hdr = c11Hdr{known: true, height: height, ts: ts}
}

// ---- generator ------------------------------------------------------------------------

type c11Ts struct {
	rel bool
	v   int64
}

func (t c11Ts) String() string {
	if t.rel {
		return "n" + strconv.FormatInt(t.v, 10)
	}
	return "a" + strconv.FormatInt(t.v, 10)
}

func c11Generate(r *verifh.Run) []string {
	be := func(v uint64) string { return verifh.Hex(binary.BigEndian.AppendUint64(nil, v)) }
	// the future bound of the running code: `n<fb-1>` can never be too late (the real clock is
	// >= T0), `n<fb+1500>` is too late unless the sequence has been running for 1.5 s
	fb := chain.FutureBound.Milliseconds()
	okMax, lateMin := fb-1, fb+1500
	lines := []string{
		// corpus: the known finding first — child of the real genesis, timestamp 750 (1970)
		"seq 0 gen 100 750 0 100 750",
		"exec 1 a750 0 p n",
		"exec 2 a1500 0 p n",
		"exec 3 n-5000 v p n",
		"exec 4 n-4000 0 p n",
		"exec 5 n-3900 v p n",
		"exec 6 n-3801 v p n",
		"exec 6 n-3800 v p n",
		"exec 7 n60000 0 p n",
		"seq 0 gen 100 750 0 100 750",
		"exec 1 a100 v p n",
		"exec 2 a849 0 p n",
		"exec 2 a850 0 p n",
		// child of genesis at a sane time, then the four header conditions one by one
		"seq 0 gen 100 750 0 100 750",
		"exec 1 n-20000 0 p n",
		"exec 1 n-10000 0 p n",
		"exec 3 n-10000 0 p n",
		"exec 2 n-19251 0 p n",
		"exec 2 n-19250 0 r n",
		"exec 2 n-19250 i p n",
		"exec 2 n-19250 s p n",
		"exec 2 n-19250 0 p y",
		"exec 2 n-19250 0 p n",
		"exec 3 n5000 0 p n",
		fmt.Sprintf("exec 3 n%d 0 p n", lateMin),
		fmt.Sprintf("exec 3 n%d 0 p n", okMax),
		// two transactions; isNormalOp=false skips a failing replay check; a transaction that
		// overwrites the height/timestamp metadata keys (the block context is written after it)
		"seq 0 gen 100 750 0 100 750",
		"exec 1 n-20000 V p n",
		"exec 2 n-19000 0 p f",
		"exec 3 n-18000 w p n",
		"exec 4 n-17000 0 p n",
		"exec 5 n-16901 w p n",
		"exec 5 n-16900 w p f",
		// a fork executed by ONE processor: A1 and its sibling A2 (other txs, other root) on the
		// genesis, then children of A1 carrying A2's post-state root (must fail) / A1's (ok)
		"seq 0 gen 100 750 0 100 750",
		"exec 1 n-20000 0 p n",
		"sib 1 n-19000 v p n",
		"exec 2 n-18000 0 s n",
		"exec 2 n-18000 v s n",
		"exec 2 n-18000 0 p n",
		"sib 2 n-17500 V p n",
		"exec 3 n-17000 0 s n",
		"exec 3 n-17000 0 p n",
		// truncated fee state in the parent: Go panics in ComputeNext
		"seq 0 syn 100 750 0 100 750 " + be(0) + " " + be(0) + " s",
		"exec 1 a750 0 p n",
		"exec 1 a749 0 p n",
		"exec 2 a750 0 p n",
		// the repo's own unit-test parents
		"seq 0 syn 100 750 0 100 750 " + be(0) + " " + be(0) + " e",
		"exec 1 a750 0 p n",
		"seq 0 syn 100 750 0 100 750 x " + be(0) + " e",
		"exec 1 a750 0 p n",
		"seq 0 syn 100 750 0 100 750 - " + be(0) + " e",
		"exec 1 a750 0 p n",
		"seq 0 syn 100 750 0 100 750 " + be(0) + " x e",
		"exec 1 a750 0 p n",
		"seq 0 syn 100 750 0 100 750 " + be(0) + " 00 e",
		"exec 1 a750 0 p n",
		"seq 0 syn 100 750 0 100 750 " + be(0) + " " + be(0) + " x",
		"exec 1 a750 0 p n",
		// uint64 / int64 edges: height wraps to 0; state timestamp >= 2^63 reads as negative
		"seq 0 syn 100 750 0 100 750 " + be(^uint64(0)) + " " + be(0) + " e",
		"exec 0 a750 0 p n",
		"seq 0 syn 100 750 0 100 750 " + be(7) + " " + be(1<<63) + " e",
		"exec 8 a-9223372036854775000 0 p n",
		"exec 8 a-9223372036854775058 0 p n",
		"seq 0 syn 100 750 0 100 750 " + be(7) + " " + be(1<<63-1) + " e",
		"exec 8 n0 0 p n",
		// child timestamp near MinInt64 on a positive parent timestamp (a subtraction
		// `child - parent` would wrap; the code adds `parent + gap`)
		"seq 0 syn 100 750 0 100 750 " + be(7) + " " + be(4000) + " e",
		"exec 8 a-9223372036854775807 0 p n",
		"exec 8 a-9223372036854775808 v p n",
		"exec 8 a4750 0 p n",
		"exec 9 a-9223372036854775807 0 p n",
		// rules switch with the *block's* timestamp; negative and zero gaps
		"seq 0 syn 100 750 5000 10 20 " + be(3) + " " + be(4000) + " e",
		"exec 4 a4750 0 p n",
		"exec 5 a5000 0 p n",
		"exec 5 a5020 0 p n",
		"seq 0 syn -50 -100 0 -50 -100 " + be(3) + " " + be(4000) + " e",
		"exec 4 a3950 v p n",
		"exec 5 a3850 0 p n",
		"seq 0 syn 0 0 0 0 0 " + be(3) + " " + be(4000) + " e",
		"exec 4 a4000 0 p n",
		"exec 5 a3999 0 p n",
	}
	gaps := func() (int64, int64) {
		switch r.RNG.Intn(10) {
		case 0, 1, 2, 3:
			return 100, 750
		case 4:
			return int64(r.RNG.Intn(2000)), int64(r.RNG.Intn(3000))
		case 5:
			return 0, 0
		case 6:
			return -int64(r.RNG.Intn(500)), int64(r.RNG.Intn(500)) - 250
		case 7:
			return int64(r.RNG.Pick64()), int64(r.RNG.Pick64())
		default:
			return int64(r.RNG.Intn(300)), int64(r.RNG.Intn(300))
		}
	}
	for i := 0; i < r.N(1500, 40000); i++ {
		g1, e1 := gaps()
		g2, e2 := g1, e1
		sw := int64(0)
		if r.RNG.Chance(25) {
			g2, e2 = gaps()
			sw = int64(r.RNG.Intn(20000))
		}
		var cur c11Ts
		var curH uint64
		head := fmt.Sprintf("seq 0 %%s %d %d %d %d %d", g1, e1, sw, g2, e2)
		if r.RNG.Bool() {
			lines = append(lines, fmt.Sprintf(head, "gen"))
		} else {
			hraw, traw, fee := "", "", "e"
			curH = r.RNG.Pick64()
			if r.RNG.Chance(60) {
				curH = uint64(r.RNG.Intn(1000))
			}
			hraw = be(curH)
			switch r.RNG.Intn(12) {
			case 0:
				hraw = "x"
			case 1:
				hraw = verifh.Hex(r.RNG.Bytes(r.RNG.Intn(12)))
			}
			switch r.RNG.Intn(8) {
			case 0, 1, 2:
				cur = c11Ts{false, int64(r.RNG.Intn(100000))}
			case 3:
				cur = c11Ts{false, int64(r.RNG.Pick64())}
			default:
				cur = c11Ts{false, 1_600_000_000_000 + int64(r.RNG.Intn(1_000_000_000))} // 2020, well before now
			}
			traw = be(uint64(cur.v))
			switch r.RNG.Intn(12) {
			case 0:
				traw = "x"
			case 1:
				traw = verifh.Hex(r.RNG.Bytes(r.RNG.Intn(12)))
			}
			if r.RNG.Chance(8) {
				fee = "x"
			} else if r.RNG.Chance(5) {
				fee = "s"
			}
			lines = append(lines, fmt.Sprintf(head, "syn")+" "+hraw+" "+traw+" "+fee)
		}
		for j, n := 0, 1+r.RNG.Intn(8); j < n; j++ {
			tx := "0"
			switch x := r.RNG.Intn(100); {
			case x < 30:
				tx = "v"
			case x < 38:
				tx = "i"
			case x < 44:
				tx = "s"
			case x < 52:
				tx = "V"
			case x < 58:
				tx = "w"
			}
			g, e := g1, e1
			if cur.v >= sw && !cur.rel || cur.rel {
				g, e = g2, e2
			}
			need := g
			if tx == "0" && e > g {
				need = e
			}
			next := cur
			valid := true
			switch x := r.RNG.Intn(100); {
			case x < 45: // boundary of the gap rule
				next.v = cur.v + need + int64(r.RNG.Intn(3)) - 1
			case x < 60:
				next.v = cur.v + need + int64(r.RNG.Intn(2000))
			case x < 70 && !cur.rel: // jump to the present
				next = c11Ts{true, -60000 + int64(r.RNG.Intn(50000))}
			case x < 78: // the future
				next = c11Ts{true, lateMin + int64(r.RNG.Intn(3000))}
				if r.RNG.Chance(30) {
					next.v = lateMin + int64(r.RNG.Intn(100000))
				}
				valid = false
			case x < 84: // as far ahead as is certainly allowed
				if cur.rel && cur.v+need <= okMax-300 || !cur.rel {
					next = c11Ts{true, okMax - int64(r.RNG.Intn(300))}
				}
			case x < 90:
				next.v = cur.v + e
			case x < 95:
				next.v = cur.v + g
			default:
				next = c11Ts{false, int64(r.RNG.Pick64())}
			}
			if next.rel && next.v > okMax && next.v < lateMin {
				next.v = okMax // never within reach of the real clock's drift
			}
			h := curH + 1
			switch r.RNG.Intn(25) {
			case 0:
				h = curH
			case 1:
				h = curH + 2
			case 2:
				h = r.RNG.Pick64()
			}
			rk, rp := "p", "n"
			if r.RNG.Chance(7) {
				rk = "r"
			}
			if r.RNG.Chance(5) {
				rp = "y"
			} else if r.RNG.Chance(5) {
				rp = "f"
			}
			lines = append(lines, fmt.Sprintf("exec %d %s %s %s %s", h, next, tx, rk, rp))
			if r.RNG.Chance(12) && j > 0 { // a sibling of the block before, then maybe a child with its root
				stx := []string{"0", "v", "V"}[r.RNG.Intn(3)]
				sts := cur
				sts.v++ // never the same content as the block it is a sibling of
				lines = append(lines, fmt.Sprintf("sib %d %s %s p n", curH, sts, stx))
				if r.RNG.Chance(70) {
					lines = append(lines, fmt.Sprintf("exec %d %s %s s %s", h, next, tx, rp))
				}
			}
			// heuristic: assume it verified when it was meant to
			if valid && h == curH+1 && rk == "p" && rp != "y" && (tx == "0" || tx == "v" || tx == "V" || tx == "w") &&
				(next.rel != cur.rel || next.v >= cur.v+need) {
				cur, curH = next, h
			}
		}
	}
	return lines
}
